(* C28 — lemmas about the model of typeutil.identical / hashFor / Map *)
From Coq Require Import List NArith ZArith Bool Lia.
From Verif Require Import Common.GoStr C28.Model.
Import ListNotations.

(* ------------------------------------------------------------ small facts *)
Lemma andthen_true r k : andthen r k = Some true <-> r = Some true /\ k = Some true.
Proof. unfold andthen. destruct r as [[|]|]; split; intros H; try tauto; try discriminate; destruct H; discriminate. Qed.

Lemma andthen_nf r k : r <> Some false -> k <> Some false -> andthen r k <> Some false.
Proof. unfold andthen. destruct r as [[|]|]; auto. Qed.

Lemma if_true (c : bool) r : (if c then r else Some false) = Some true <-> c = true /\ r = Some true.
Proof. destruct c; split; intros H; try tauto; try discriminate. destruct H; discriminate. Qed.

Lemma if_nf (c : bool) r : (c = true -> r <> Some false) -> c = true -> (if c then r else Some false) <> Some false.
Proof. intros H E. rewrite E. auto. Qed.

Lemma str_eqb_refl a : str_eqb a a = true.
Proof. apply str_eqb_eq. reflexivity. Qed.

Lemma pkg_same_refl p : pkg_same p p = true.
Proof. destruct p; simpl; auto using str_eqb_refl. Qed.
Lemma pkg_same_eq p q : pkg_same p q = true <-> p = q.
Proof.
  destruct p, q; simpl; split; intros H; try discriminate; auto.
  - apply str_eqb_eq in H. subst. reflexivity.
  - inversion H. apply str_eqb_refl.
Qed.

Lemma same_name_spec xn xp yn yp :
  same_name xn xp yn yp = true <-> xn = yn /\ (is_exported xn = true \/ xp = yp).
Proof.
  unfold same_name. destruct (str_eqb xn yn) eqn:E.
  - apply str_eqb_eq in E. subst. destruct (is_exported yn).
    + intuition.
    + rewrite pkg_same_eq. intuition discriminate.
  - split; [discriminate|]. intros [H _]. subst. rewrite str_eqb_refl in E. discriminate.
Qed.

Lemma same_name_refl n p : same_name n p n p = true.
Proof. apply same_name_spec. auto. Qed.
Lemma same_name_sym a p b q : same_name a p b q = true -> same_name b q a p = true.
Proof. rewrite !same_name_spec. intros [-> [H| ->]]; auto. Qed.
Lemma same_name_trans a p b q c r : same_name a p b q = true -> same_name b q c r = true -> same_name a p c r = true.
Proof. rewrite !same_name_spec. intros [-> [H| ->]] [-> [H'| ->]]; auto. Qed.

Lemma finfo_ok_spec f g : finfo_ok f g = true <->
  fanon f = fanon g /\ ftag f = ftag g /\ same_name (fname f) (fpkg f) (fname g) (fpkg g) = true.
Proof.
  unfold finfo_ok. rewrite !andb_true_iff, eqb_true_iff, str_eqb_eq. tauto.
Qed.
Lemma finfo_ok_refl f : finfo_ok f f = true.
Proof. apply finfo_ok_spec. auto using same_name_refl. Qed.
Lemma finfo_ok_sym f g : finfo_ok f g = true -> finfo_ok g f = true.
Proof. rewrite !finfo_ok_spec. intros (A & B & C). auto using same_name_sym. Qed.
Lemma finfo_ok_trans f g h : finfo_ok f g = true -> finfo_ok g h = true -> finfo_ok f h = true.
Proof. rewrite !finfo_ok_spec. intros (A & B & C) (A' & B' & C'). repeat split; try congruence. eauto using same_name_trans. Qed.

(* ------------------------------------------------------------ the generic loop *)
Section Loop2.
  Context {A : Type}.
  Lemma loop2_true (f : A -> A -> option bool) a b : length a = length b ->
    (loop2 f a b = Some true <-> Forall2 (fun u v => f u v = Some true) a b).
  Proof.
    revert b. induction a as [|u a IH]; intros [|v b] L; simpl in *; try discriminate.
    - split; auto.
    - rewrite andthen_true, IH by lia. split.
      + intros [? ?]. constructor; auto.
      + intros H. inversion H; subst. auto.
  Qed.

  Lemma loop2_nf (g : A -> A -> option bool) a b :
    Forall2 (fun u v => g u v <> Some false) a b -> loop2 g a b <> Some false.
  Proof. induction 1; simpl; [discriminate|]. apply andthen_nf; auto. Qed.

  Lemma loop2_mono (f g : A -> A -> option bool) a b :
    (forall u v r, f u v = Some r -> g u v = Some r) ->
    forall r, loop2 f a b = Some r -> loop2 g a b = Some r.
  Proof.
    intros H. revert b. induction a as [|u a IH]; intros [|v b] r; simpl; auto.
    unfold andthen. destruct (f u v) as [[|]|] eqn:E; try discriminate.
    - rewrite (H _ _ _ E). apply IH.
    - rewrite (H _ _ _ E). auto.
  Qed.

  Lemma loop2_total (f : A -> A -> option bool) a b :
    (forall u v, In u a -> In v b -> f u v <> None) -> loop2 f a b <> None.
  Proof.
    revert b. induction a as [|u a IH]; intros [|v b] H; simpl; try discriminate.
    unfold andthen. destruct (f u v) as [[|]|] eqn:E; try discriminate.
    - apply IH. intros; apply H; simpl; auto.
    - exfalso. apply (H u v); simpl; auto.
  Qed.
End Loop2.

Lemma Forall2_length' {A B} (R : A -> B -> Prop) a b : Forall2 R a b -> length a = length b.
Proof. induction 1; simpl; auto. Qed.

Lemma Forall2_flip {A B} (R : A -> B -> Prop) a b : Forall2 R a b -> Forall2 (fun y x => R x y) b a.
Proof. induction 1; constructor; auto. Qed.

Lemma Forall2_impl' {A B} (R S : A -> B -> Prop) a b : (forall x y, R x y -> S x y) -> Forall2 R a b -> Forall2 S a b.
Proof. intros H. induction 1; constructor; auto. Qed.

Lemma Forall2_trans' {A} (R S T : A -> A -> Prop) a b c :
  (forall x y z, R x y -> S y z -> T x z) -> Forall2 R a b -> Forall2 S b c -> Forall2 T a c.
Proof.
  intros H H1. revert c. induction H1; intros c H2; inversion H2; subst; constructor; eauto.
Qed.

Lemma Forall2_refl' {A} (R : A -> A -> Prop) a : (forall x, In x a -> R x x) -> Forall2 R a a.
Proof. induction a; constructor; simpl in *; auto. Qed.

Lemma embs_loop_eq a b : length a = length b -> (embs_loop a b = true <-> a = b).
Proof.
  revert b. induction a as [|e a IH]; intros [|f b] L; simpl in *; try discriminate.
  - tauto.
  - destruct (N.eqb e f) eqn:E.
    + apply N.eqb_eq in E. subst. rewrite IH by lia. split; [intros ->; auto | intros H; inversion H; auto].
    + apply N.eqb_neq in E. split; [discriminate | intros H; inversion H; congruence].
Qed.

(* ------------------------------------------------------------ symmetry *)
Lemma identical_sym f : forall x y, identical f x y = Some true -> identical f y x = Some true.
Proof.
  induction f as [|f IH]; [discriminate|]. simpl.
  intros x y H.
  destruct x, y; simpl in *; try discriminate; auto.
  - (* basic *) rewrite Z.eqb_sym. exact H.
  - rewrite N.eqb_sym. exact H.
  - apply if_true in H as [E H]. rewrite Z.eqb_sym, E. auto.
  - apply andthen_true in H as [H1 H2]. apply andthen_true. auto.
  - apply if_true in H as [E H]. rewrite Z.eqb_sym, E. auto.
  - (* tuple *) apply if_true in H as [E H]. rewrite Nat.eqb_sym, E. apply Nat.eqb_eq in E.
    unfold tuple_loop in *. apply loop2_true in H; auto. apply loop2_true; auto.
    apply Forall2_flip in H. eapply Forall2_impl'; [|exact H]. auto.
  - (* sig *) apply if_true in H as [E H]. rewrite eqb_true_iff in E. subst.
    rewrite eqb_reflx. apply andthen_true in H as [H1 H]. apply andthen_true in H as [H2 H3].
    rewrite !andthen_true. repeat split; auto.
    destruct recv, recv0; simpl in *; auto; discriminate.
  - (* struct *) apply if_true in H as [E H]. rewrite Nat.eqb_sym, E. apply Nat.eqb_eq in E.
    unfold fields_loop in *. apply loop2_true in H; auto. apply loop2_true; auto.
    apply Forall2_flip in H. eapply Forall2_impl'; [|exact H]. simpl.
    intros p q Hq. unfold field_identical in *. apply if_true in Hq as [Hq1 Hq2]. rewrite (finfo_ok_sym _ _ Hq1). auto.
  - (* iface *) apply if_true in H as [E H]. apply andb_true_iff in E as [E1 E2].
    rewrite (Nat.eqb_sym (length ms0)), E1, (Nat.eqb_sym (length embs0)), E2. simpl.
    apply Nat.eqb_eq in E1, E2.
    apply andthen_true in H as [H1 H2]. apply andthen_true. split.
    + unfold methods_loop in *. apply loop2_true in H1; auto. apply loop2_true; auto.
      apply Forall2_flip in H1. eapply Forall2_impl'; [|exact H1]. simpl.
      intros m n Hm. unfold meth_identical in *.
      apply if_true in Hm as [N1 Hm]. apply if_true in Hm as [V Hm].
      rewrite (same_name_sym _ _ _ _ N1). rewrite eqb_true_iff in V. rewrite V, eqb_reflx.
      apply andthen_true in Hm as [R Hm]. apply andthen_true in Hm as [P Q].
      rewrite !andthen_true. repeat split; auto.
      destruct (mrecv n), (mrecv m); simpl in *; auto.
    + inversion H2 as [H3]. apply embs_loop_eq in H3; auto. subst. reflexivity.
Qed.

(* ------------------------------------------------------------ more fuel never changes an answer *)
Lemma andthen_mono r k r' k' b :
  (forall c, r = Some c -> r' = Some c) -> (forall c, k = Some c -> k' = Some c) ->
  andthen r k = Some b -> andthen r' k' = Some b.
Proof.
  unfold andthen. intros H1 H2. destruct r as [[|]|]; try discriminate.
  - rewrite (H1 true eq_refl). auto.
  - rewrite (H1 false eq_refl). auto.
Qed.

Lemma if_mono (c : bool) r r' b :
  (forall d, r = Some d -> r' = Some d) ->
  (if c then r else Some false) = Some b -> (if c then r' else Some false) = Some b.
Proof. destruct c; auto. Qed.

Lemma step_mono (id1 id2 : ty -> ty -> option bool) :
  (forall u v r, id1 u v = Some r -> id2 u v = Some r) ->
  forall x y r, identical_step id1 x y = Some r -> identical_step id2 x y = Some r.
Proof.
  intros M x y r.
  assert (MV : forall v w c, var_identical id1 v w = Some c -> var_identical id2 v w = Some c).
  { intros [v|] [w|] c; simpl; auto. }
  destruct x, y; simpl; auto.
  - apply if_mono. auto.
  - apply andthen_mono; auto.
  - apply if_mono. auto.
  - apply if_mono. intros d. unfold tuple_loop. apply loop2_mono. auto.
  - apply if_mono. intros d. apply andthen_mono; auto. intros c. apply andthen_mono; auto.
  - apply if_mono. intros d. unfold fields_loop. apply loop2_mono.
    intros u v c. unfold field_identical. apply if_mono. auto.
  - apply if_mono. intros d. apply andthen_mono; auto. unfold methods_loop. intros c. apply loop2_mono.
    intros m n c'. unfold meth_identical. apply if_mono. intros d'. apply if_mono. intros d''.
    apply andthen_mono.
    + intros c''. destruct (mrecv m), (mrecv n); simpl; auto.
    + intros c''. apply andthen_mono; auto.
Qed.

Lemma identical_mono f : forall x y r, identical f x y = Some r -> identical (S f) x y = Some r.
Proof.
  induction f as [|f IH]; [discriminate|].
  intros x y r. change (identical (S (S f)) x y) with (identical_step (identical (S f)) x y).
  change (identical (S f) x y) with (identical_step (identical f) x y).
  apply step_mono. exact IH.
Qed.

Lemma identical_mono_le f g x y r : (f <= g)%nat -> identical f x y = Some r -> identical g x y = Some r.
Proof. induction 1; auto using identical_mono. Qed.

(* ------------------------------------------------------------ sizes and the fuel bound *)
Fixpoint sizes (l : list ty) : nat := match l with [] => O | x :: r => (size x + sizes r)%nat end.
Definition osize (o : option ty) : nat := match o with None => O | Some x => size x end.
Definition msize (m : meth) : nat := S (osize (mrecv m) + S (sizes (mps m)) + S (sizes (mrs m))).
Fixpoint msizes (l : list meth) : nat := match l with [] => O | m :: r => (msize m + msizes r)%nat end.
Fixpoint fsizes (l : list (finfo * ty)) : nat := match l with [] => O | p :: r => (size (snd p) + fsizes r)%nat end.

Lemma size_tuple l : size (TTuple l) = S (sizes l).
Proof. reflexivity. Qed.
Lemma size_sig r ps rs va : size (TSig r ps rs va) = S (osize r + S (sizes ps) + S (sizes rs)).
Proof. reflexivity. Qed.
Lemma size_struct fs : size (TStruct fs) = S (fsizes fs).
Proof. simpl. f_equal. induction fs as [|[fi ft] fs IH]; simpl; auto. Qed.
Lemma size_iface ms embs : size (TIface ms embs) = S (msizes ms).
Proof.
  simpl. f_equal. induction ms as [|[ex nm pk r ps rs va] ms IH]; simpl; auto.
Qed.
Lemma size_pos x : (1 <= size x)%nat.
Proof. destruct x; simpl; lia. Qed.

Lemma sizes_in u l : In u l -> (size u <= sizes l)%nat.
Proof. induction l; simpl; [tauto|]. intros [->|H]; [lia|]. specialize (IHl H). lia. Qed.
Lemma fsizes_in p l : In p l -> (size (snd p) <= fsizes l)%nat.
Proof. induction l; simpl; [tauto|]. intros [->|H]; [lia|]. specialize (IHl H). lia. Qed.
Lemma msizes_in m l : In m l -> (msize m <= msizes l)%nat.
Proof.
  induction l as [|a l IHl]; [simpl; tauto|]. change (msizes (a :: l)) with (msize a + msizes l)%nat.
  intros [->|H]; [lia|]. specialize (IHl H). lia.
Qed.

Lemma andthen_total r k : r <> None -> k <> None -> andthen r k <> None.
Proof. unfold andthen. destruct r as [[|]|]; auto. Qed.

Lemma identical_total f : forall x y, (size x + size y <= f)%nat -> identical f x y <> None.
Proof.
  induction f as [|f IH]; intros x y H.
  - pose proof (size_pos x). lia.
  - change (identical (S f) x y) with (identical_step (identical f) x y).
    destruct x, y; try (simpl; discriminate);
      rewrite ?size_tuple, ?size_sig, ?size_struct, ?size_iface in H; simpl in H |- *.
    + apply IH; lia.
    + apply IH; lia.
    + destruct (len =? len0)%Z; [apply IH; lia | discriminate].
    + apply andthen_total; apply IH; lia.
    + destruct (dir =? dir0)%Z; [apply IH; lia | discriminate].
    + destruct (Nat.eqb (length l) (length l0)); [|discriminate]. apply loop2_total.
      intros u v Hu Hv. apply IH. apply sizes_in in Hu, Hv. lia.
    + destruct (eqb va va0); [|discriminate].
      repeat apply andthen_total.
      * destruct recv, recv0; simpl in *; try discriminate. apply IH. lia.
      * apply IH. rewrite !size_tuple. lia.
      * apply IH. rewrite !size_tuple. lia.
    + destruct (Nat.eqb (length fs) (length fs0)); [|discriminate]. apply loop2_total.
      intros u v Hu Hv. unfold field_identical. destruct (finfo_ok (fst u) (fst v)); [|discriminate].
      apply IH. apply fsizes_in in Hu, Hv. lia.
    + destruct (Nat.eqb (length ms) (length ms0) && Nat.eqb (length embs) (length embs0)); [|discriminate].
      apply andthen_total; [|discriminate]. apply loop2_total.
      intros m n Hm Hn. apply msizes_in in Hm, Hn. unfold msize in Hm, Hn.
      unfold meth_identical. destruct (same_name _ _ _ _); [|discriminate]. destruct (eqb _ _); [|discriminate].
      repeat apply andthen_total.
      * destruct (mrecv m), (mrecv n); simpl in *; try discriminate; apply IH;
          rewrite ?size_iface; lia.
      * apply IH. rewrite !size_tuple. lia.
      * apply IH. rewrite !size_tuple. lia.
Qed.

(* ------------------------------------------------------------ reflexivity (never "false" on equal terms) *)
Lemma identical_refl_nf f : forall x, identical f x x <> Some false.
Proof.
  induction f as [|f IH]; [discriminate|]. intros x.
  change (identical (S f) x x) with (identical_step (identical f) x x).
  destruct x; simpl; try discriminate; auto.
  - rewrite Z.eqb_refl. discriminate.
  - rewrite N.eqb_refl. discriminate.
  - rewrite Z.eqb_refl. auto.
  - apply andthen_nf; auto.
  - rewrite Z.eqb_refl. auto.
  - rewrite Nat.eqb_refl. apply loop2_nf. apply Forall2_refl'. auto.
  - rewrite eqb_reflx. repeat apply andthen_nf; auto. destruct recv; simpl; auto. discriminate.
  - rewrite Nat.eqb_refl. apply loop2_nf. apply Forall2_refl'. intros p _.
    unfold field_identical. rewrite finfo_ok_refl. auto.
  - rewrite !Nat.eqb_refl. simpl. apply andthen_nf.
    + apply loop2_nf. apply Forall2_refl'. intros m _. unfold meth_identical.
      rewrite same_name_refl, eqb_reflx. repeat apply andthen_nf; auto.
      destruct (mrecv m); simpl; auto. discriminate.
    + assert (E : embs_loop embs embs = true) by (apply embs_loop_eq; auto). rewrite E. discriminate.
Qed.

(* ------------------------------------------------------------ transitivity *)
Lemma identical_trans_nf f : forall f1 f2 x y z,
  identical f1 x y = Some true -> identical f2 y z = Some true -> identical f x z <> Some false.
Proof.
  induction f as [|f IH]; [discriminate|]. intros [|f1] [|f2] x y z W1 W2; try discriminate.
  pose proof W1 as H1. pose proof W2 as H2.
  change (identical (S f1) x y) with (identical_step (identical f1) x y) in H1.
  change (identical (S f2) y z) with (identical_step (identical f2) y z) in H2.
  change (identical (S f) x z) with (identical_step (identical f) x z).
  destruct x, y; simpl in H1; try discriminate; destruct z; simpl in H2; try discriminate; simpl.
  - inversion H1 as [A]. inversion H2 as [B]. apply Z.eqb_eq in A, B. subst. rewrite Z.eqb_refl. discriminate.
  - inversion H1 as [A]. inversion H2 as [B]. apply N.eqb_eq in A, B. subst. rewrite N.eqb_refl. discriminate.
  - eauto.
  - eauto.
  - apply if_true in H1 as [A H1]. apply if_true in H2 as [B H2]. apply Z.eqb_eq in A, B. subst.
    rewrite Z.eqb_refl. eauto.
  - apply andthen_true in H1 as [A1 A2]. apply andthen_true in H2 as [B1 B2]. apply andthen_nf; eauto.
  - apply if_true in H1 as [A H1]. apply if_true in H2 as [B H2]. apply Z.eqb_eq in A, B. subst.
    rewrite Z.eqb_refl. eauto.
  - apply if_true in H1 as [A H1]. apply if_true in H2 as [B H2]. apply Nat.eqb_eq in A, B.
    replace (Nat.eqb (length l) (length l1)) with true by (symmetry; apply Nat.eqb_eq; congruence).
    unfold tuple_loop in *. apply loop2_true in H1; auto. apply loop2_true in H2; auto.
    apply loop2_nf. eapply Forall2_trans'; [|exact H1|exact H2]. simpl. eauto.
  - apply if_true in H1 as [A H1]. apply if_true in H2 as [B H2]. rewrite eqb_true_iff in A, B. subst.
    rewrite eqb_reflx.
    apply andthen_true in H1 as [A1 H1]. apply andthen_true in H1 as [A2 A3].
    apply andthen_true in H2 as [B1 H2]. apply andthen_true in H2 as [B2 B3].
    repeat apply andthen_nf; eauto.
    destruct recv, recv0, recv1; simpl in *; try discriminate; eauto.
  - apply if_true in H1 as [A H1]. apply if_true in H2 as [B H2]. apply Nat.eqb_eq in A, B.
    replace (Nat.eqb (length fs) (length fs1)) with true by (symmetry; apply Nat.eqb_eq; congruence).
    unfold fields_loop in *. apply loop2_true in H1; auto. apply loop2_true in H2; auto.
    apply loop2_nf. eapply Forall2_trans'; [|exact H1|exact H2]. simpl.
    intros p q r P Q. unfold field_identical in *. apply if_true in P as [P1 P2]. apply if_true in Q as [Q1 Q2].
    rewrite (finfo_ok_trans _ _ _ P1 Q1). eauto.
  - apply if_true in H1 as [A H1]. apply if_true in H2 as [B H2].
    apply andb_true_iff in A as [A1 A2]. apply andb_true_iff in B as [B1 B2]. apply Nat.eqb_eq in A1, A2, B1, B2.
    replace (Nat.eqb (length ms) (length ms1)) with true by (symmetry; apply Nat.eqb_eq; congruence).
    replace (Nat.eqb (length embs) (length embs1)) with true by (symmetry; apply Nat.eqb_eq; congruence).
    simpl.
    apply andthen_true in H1 as [M1 E1]. apply andthen_true in H2 as [M2 E2].
    injection E1 as E1'. injection E2 as E2'. apply embs_loop_eq in E1', E2'; auto. subst embs embs0.
    apply andthen_nf.
    + unfold methods_loop in *. apply loop2_true in M1; auto. apply loop2_true in M2; auto.
      apply loop2_nf. eapply Forall2_trans'; [|exact M1|exact M2]. simpl.
      intros m n o P Q. unfold meth_identical in *.
      apply if_true in P as [P1 P]. apply if_true in P as [P2 P].
      apply if_true in Q as [Q1 Q]. apply if_true in Q as [Q2 Q].
      rewrite (same_name_trans _ _ _ _ _ _ P1 Q1). rewrite eqb_true_iff in P2, Q2. rewrite P2, Q2, eqb_reflx.
      apply andthen_true in P as [P3 P]. apply andthen_true in P as [P4 P5].
      apply andthen_true in Q as [Q3 Q]. apply andthen_true in Q as [Q4 Q5].
      repeat apply andthen_nf; eauto.
      destruct (mrecv m), (mrecv n), (mrecv o); simpl in P3, Q3 |- *; try discriminate; eauto.
    + assert (E : embs_loop embs1 embs1 = true) by (apply embs_loop_eq; auto). rewrite E. discriminate.
Qed.

(* ------------------------------------------------------------ the total, fuel-free predicate *)
Lemma ident_some x y : exists b, ident x y = Some b.
Proof.
  unfold ident. destruct (identical (size x + size y) x y) eqn:E; eauto.
  exfalso. eapply identical_total; [|exact E]. lia.
Qed.

Lemma ident_fuel f x y : (size x + size y <= f)%nat -> identical f x y = ident x y.
Proof.
  intros H. destruct (ident_some x y) as [b E]. rewrite E. eapply identical_mono_le; eauto.
Qed.

Lemma identb_true x y : identb x y = true <-> ident x y = Some true.
Proof. unfold identb. destruct (ident x y) as [[|]|]; split; congruence. Qed.

Lemma identb_refl x : identb x x = true.
Proof.
  apply identb_true. destruct (ident_some x x) as [[|] E]; auto.
  exfalso. eapply identical_refl_nf. exact E.
Qed.

Lemma identb_sym x y : identb x y = true -> identb y x = true.
Proof.
  rewrite !identb_true. unfold ident. intros H. rewrite Nat.add_comm. apply identical_sym. exact H.
Qed.

Lemma identb_trans x y z : identb x y = true -> identb y z = true -> identb x z = true.
Proof.
  rewrite !identb_true. intros H1 H2. destruct (ident_some x z) as [[|] E]; auto.
  exfalso. eapply identical_trans_nf; [exact H1|exact H2|exact E].
Qed.

(* ------------------------------------------------------------ identical types hash equal *)
Lemma fold_left2_ext {A B} (R : B -> B -> Prop) (f g : A -> B -> A) a b :
  Forall2 R a b -> (forall h u v, R u v -> f h u = g h v) -> forall h0, fold_left f a h0 = fold_left g b h0.
Proof. intros H E. induction H; simpl; auto. intros h0. rewrite (E h0 x y H). apply IHForall2. Qed.

Lemma Forall2_forallb {A} (R : A -> A -> Prop) (p q : A -> bool) a b :
  Forall2 R a b -> forallb p a = true -> forallb q b = true ->
  Forall2 (fun u v => R u v /\ p u = true /\ q v = true) a b.
Proof.
  induction 1; simpl; intros P Q; constructor; apply andb_true_iff in P as [? ?]; apply andb_true_iff in Q as [? ?]; auto.
Qed.

Lemma existsb_ext' {A} (f g : A -> bool) l : (forall x, f x = g x) -> existsb f l = existsb g l.
Proof. intros H. induction l; simpl; auto. rewrite H, IHl. reflexivity. Qed.

Lemma same_name_cong a p b q c r : same_name a p b q = true -> same_name a p c r = same_name b q c r.
Proof.
  intros H. destruct (same_name a p c r) eqn:E1, (same_name b q c r) eqn:E2; auto.
  - rewrite (same_name_trans _ _ _ _ _ _ (same_name_sym _ _ _ _ H) E1) in E2. discriminate.
  - rewrite (same_name_trans _ _ _ _ _ _ H E2) in E1. discriminate.
Qed.

Lemma inherited_same e embs a p b q : same_name a p b q = true -> inherited e embs a p = inherited e embs b q.
Proof.
  intros H. unfold inherited. apply existsb_ext'. intros id. apply existsb_ext'. intros x.
  apply same_name_cong. exact H.
Qed.

Section HashProof.
  Variable nh : N -> Z.
  Variable e : env.

  Definition hash_tuple (l : list ty) : Z :=
    fold_left (fun h t => w32 (rotl5 h + 3 * hash nh t)) l (w32 (9137 + 2 * Z.of_nat (length l))).
  Definition ohash (o : option ty) : Z := match o with None => 0 | Some x => hash nh x end.
  Definition field_step (h : Z) (p : finfo * ty) : Z :=
    let (fi, ft) := p in
    let h1 := if fanon fi then w32 (h + 8861) else h in
    let h2 := rotl5 h1 in
    let h3 := w32 (h2 + hash_string (ftag fi)) in
    let h4 := w32 (h3 + hash_string (fname fi)) in
    w32 (h4 + hash nh ft).
  Definition meth_step (h : Z) (m : meth) : Z :=
    if mexp m then
      let h1 := w32 (rotl5 h + 7 * hash_string (mnm m)) in
      let h2 := if mva m then w32 (h1 * 8863) else h1 in
      w32 (h2 + 3 * hash_tuple (mps m) + 5 * hash_tuple (mrs m))
    else h.

  Lemma hash_TTuple l : hash nh (TTuple l) = hash_tuple l.
  Proof. reflexivity. Qed.
  Lemma hash_TSig r ps rs va : hash nh (TSig r ps rs va) =
    w32 ((if va then w32 (9091 * 8863) else 9091) + 3 * hash_tuple ps + 5 * hash_tuple rs + 7 * ohash r).
  Proof. reflexivity. Qed.
  Lemma hash_TStruct fs : hash nh (TStruct fs) = fold_left field_step fs 9059.
  Proof. reflexivity. Qed.
  Lemma hash_TIface ms embs : hash nh (TIface ms embs) =
    fold_left meth_step ms (fold_left (fun h id => w32 (rotl5 h + 2 * nh id)) embs 9103).
  Proof.
    simpl. apply fold_left2_ext with (R := eq).
    - clear. induction ms; constructor; auto.
    - intros h u v <-. destruct u; reflexivity.
  Qed.

  Definition owf (o : option ty) : bool := match o with None => true | Some x => wfb e x end.
  Definition wf_meth (embs : list N) (m : meth) : bool :=
    eqb (mexp m) (negb (inherited e embs (mnm m) (mpkg m))) && owf (mrecv m)
    && forallb (wfb e) (mps m) && forallb (wfb e) (mrs m).

  Lemma wfb_TTuple l : wfb e (TTuple l) = forallb (wfb e) l.
  Proof. reflexivity. Qed.
  Lemma wfb_TSig r ps rs va : wfb e (TSig r ps rs va) = owf r && forallb (wfb e) ps && forallb (wfb e) rs.
  Proof. reflexivity. Qed.
  Lemma wfb_TStruct fs : wfb e (TStruct fs) = forallb (fun p => wfb e (snd p)) fs.
  Proof. simpl. induction fs as [|[fi ft] fs IH]; simpl; auto. rewrite IH. reflexivity. Qed.
  Lemma wfb_TIface ms embs : wfb e (TIface ms embs) = forallb (wf_meth embs) ms.
  Proof.
    simpl. induction ms as [|[ex nm pk r ps rs va] ms IH]; simpl; auto. rewrite IH.
    unfold wf_meth. simpl. rewrite <- !andb_assoc. reflexivity.
  Qed.

  Lemma hash_tuple_ext a b : Forall2 (fun u v => hash nh u = hash nh v) a b -> hash_tuple a = hash_tuple b.
  Proof.
    intros H. unfold hash_tuple. rewrite (Forall2_length' _ _ _ H).
    apply fold_left2_ext with (R := fun u v => hash nh u = hash nh v); auto.
    intros h u v ->. reflexivity.
  Qed.

  Lemma identical_hash f : forall x y, identical f x y = Some true ->
    wfb e x = true -> wfb e y = true -> hash nh x = hash nh y.
  Proof.
    induction f as [|f IH]; [discriminate|]. intros x y H Wx Wy.
    change (identical (S f) x y) with (identical_step (identical f) x y) in H.
    destruct x, y; simpl in H; try discriminate.
    - reflexivity.
    - injection H as H. apply Z.eqb_eq in H. subst. reflexivity.
    - injection H as H. apply N.eqb_eq in H. subst. reflexivity.
    - simpl in *. rewrite (IH _ _ H Wx Wy). reflexivity.
    - simpl in *. rewrite (IH _ _ H Wx Wy). reflexivity.
    - apply if_true in H as [E H]. apply Z.eqb_eq in E. subst. simpl in *. rewrite (IH _ _ H Wx Wy). reflexivity.
    - apply andthen_true in H as [H1 H2]. simpl in Wx, Wy.
      apply andb_true_iff in Wx as [? ?]. apply andb_true_iff in Wy as [? ?].
      simpl. rewrite (IH _ _ H1), (IH _ _ H2); auto.
    - apply if_true in H as [E H]. apply Z.eqb_eq in E. subst. simpl in *. rewrite (IH _ _ H Wx Wy). reflexivity.
    - apply if_true in H as [E H]. apply Nat.eqb_eq in E. unfold tuple_loop in H. apply loop2_true in H; auto.
      rewrite !hash_TTuple. rewrite wfb_TTuple in Wx, Wy. apply hash_tuple_ext.
      eapply Forall2_impl'; [|exact (Forall2_forallb _ _ _ _ _ H Wx Wy)]. simpl. intros u v (A & B & C). eauto.
    - apply if_true in H as [E H]. rewrite eqb_true_iff in E. subst.
      apply andthen_true in H as [H1 H]. apply andthen_true in H as [H2 H3].
      rewrite wfb_TSig in Wx, Wy. rewrite !andb_true_iff in Wx, Wy. destruct Wx as [[? ?] ?], Wy as [[? ?] ?].
      rewrite !hash_TSig. rewrite <- !hash_TTuple.
      rewrite (IH _ _ H2), (IH _ _ H3); auto.
      replace (ohash recv) with (ohash recv0); auto.
      destruct recv, recv0; simpl in *; try discriminate; auto. symmetry. eauto.
    - apply if_true in H as [E H]. apply Nat.eqb_eq in E. unfold fields_loop in H. apply loop2_true in H; auto.
      rewrite !hash_TStruct. rewrite wfb_TStruct in Wx, Wy.
      pose proof (Forall2_forallb _ _ _ _ _ H Wx Wy) as H'.
      eapply fold_left2_ext; [exact H'|]. simpl. intros h [fi ft] [gi gt] (A & B & C). simpl in *.
      unfold field_identical in A. simpl in A. apply if_true in A as [A1 A2].
      apply finfo_ok_spec in A1 as (F1 & F2 & F3). apply same_name_spec in F3 as [F3 _].
      unfold field_step. rewrite F1, F2, F3, (IH _ _ A2 B C). reflexivity.
    - apply if_true in H as [E H]. apply andb_true_iff in E as [E1 E2]. apply Nat.eqb_eq in E1, E2.
      apply andthen_true in H as [M E']. injection E' as E'. apply embs_loop_eq in E'; auto. subst embs0.
      unfold methods_loop in M. apply loop2_true in M; auto.
      rewrite !hash_TIface. rewrite wfb_TIface in Wx, Wy.
      pose proof (Forall2_forallb _ _ _ _ _ M Wx Wy) as M'.
      eapply fold_left2_ext; [exact M'|]. simpl. intros h m n (A & B & C).
      unfold meth_identical in A. apply if_true in A as [A1 A]. apply if_true in A as [A2 A].
      apply andthen_true in A as [_ A]. apply andthen_true in A as [A3 A4]. rewrite eqb_true_iff in A2.
      unfold wf_meth in B, C. rewrite !andb_true_iff in B, C.
      destruct B as [[[B1 B2] B3] B4], C as [[[C1 C2] C3] C4]. rewrite eqb_true_iff in B1, C1.
      unfold meth_step. rewrite B1, C1, (inherited_same _ _ _ _ _ _ A1), A2.
      apply same_name_spec in A1 as [A1 _]. rewrite A1.
      rewrite <- !hash_TTuple. rewrite (IH _ _ A3), (IH _ _ A4); auto.
  Qed.

  Lemma identb_hash x y : identb x y = true -> wfb e x = true -> wfb e y = true -> hash nh x = hash nh y.
  Proof. rewrite identb_true. unfold ident. apply identical_hash. Qed.
End HashProof.

(* ------------------------------------------------------------ statements used by Props.v *)
Lemma identical_total_bound x y : exists b : bool,
  forall fuel, (size x + size y <= fuel)%nat -> identical fuel x y = Some b.
Proof.
  destruct (ident_some x y) as [b E]. exists b. intros fuel H. rewrite ident_fuel; auto.
Qed.

Lemma identb_equivalence : RelationClasses.Equivalence (fun a b : ty => identb a b = true).
Proof.
  constructor.
  - intros x. apply identb_refl.
  - intros x y. apply identb_sym.
  - intros x y z. apply identb_trans.
Qed.

Lemma identb_hash' (nh : N -> Z) (e : env) a b :
  wfb e a = true -> wfb e b = true -> identb a b = true -> hash nh a = hash nh b.
Proof. intros. eapply identb_hash; eauto. Qed.

(* ------------------------------------------------------------ the hash is a uint32 *)
Definition u32 (z : Z) : Prop := (0 <= z < 4294967296)%Z.
Lemma w32_range z : u32 (w32 z).
Proof. unfold u32, w32. apply Z.mod_pos_bound. lia. Qed.
Lemma fold_range {A} (f : Z -> A -> Z) l : (forall h x, u32 h -> u32 (f h x)) -> forall h0, u32 h0 -> u32 (fold_left f l h0).
Proof. intros H. induction l; simpl; auto. Qed.

Lemma hash_range (nh : N -> Z) a : (forall i, 0 <= nh i < 4294967296)%Z -> (0 <= hash nh a < 4294967296)%Z.
Proof.
  intros Hn. change (u32 (hash nh a)).
  destruct a; try (simpl; apply w32_range).
  - simpl. unfold u32. lia.
  - simpl. apply Hn.
  - rewrite hash_TTuple. apply fold_range; [|apply w32_range]. intros; apply w32_range.
  - rewrite hash_TStruct. apply fold_range; [|unfold u32; lia]. intros h [fi ft] _. apply w32_range.
  - rewrite hash_TIface. apply fold_range.
    + intros h m Hh. unfold meth_step. destruct (mexp m); auto. apply w32_range.
    + apply fold_range; [|unfold u32; lia]. intros; apply w32_range.
Qed.

(* C28 — executable model of go/typeutil: identical (predicates.go, with the two "fix:" patches C28-1/C28-2
   applied), Hasher.hashFor (map.go) and the hash-bucketed Map with tombstones (map.go).
   Definitions only (no proofs).

   Type terms.  The fork's types (go/types/type.go) are heap objects; the model uses finite trees:
   - *Named is [TNamed id]: identical compares Obj pointers and hashFor hashes the Obj pointer, neither
     looks through a named type, so a named type is its identity [id]; the pointer hash is the abstract
     function [nh : N -> Z] (supplied per case by the harness from the implementation).
   - *Interface is [TIface ms embs]: [ms] is t.allMethods (x.Method(i), as produced by Complete()),
     each entry flagged [mexp] when it is also a member of t.methods (x.ExplicitMethod(i)); t.methods is the
     flagged subsequence (both are sorted by Id; the harness checks this on every interface it builds).
     [embs] are the Obj identities of t.embeddeds (all *Named).
   - a method's receiver: NewInterfaceType stores the enclosing interface itself in sig.recv when the caller
     gave none; that back pointer is [mrecv = None] ("self").  Any other receiver type (inherited methods
     keep the receiver of the interface that declared them; shared *Func objects; caller supplied receivers)
     is [Some t].
   - the pointer shortcut [if x == y return true] has no counterpart on trees; it is sound to drop it because
     the structural comparison of a term with itself returns true (theorem C28_identical_equivalence).
   - the ifacePair stack: on tree-shaped heaps whose only back pointers are self receivers, the search
     [for p != nil { if p.identical(q) return true }] succeeds exactly when both receivers are "self" of the
     pair of interfaces being compared (the pair on top of the stack); that is the [None, None] case of
     [recv_identical].  Cycles through named interfaces (type T interface{ m() interface{T} }) are not
     finite trees: they are exercised on the real code by the harness' direct oracle only.
   Names are ASCII (ast.IsExported = first byte in 'A'..'Z'). *)
From Coq Require Import List NArith ZArith Bool.
From Verif Require Import Common.GoStr.
Import ListNotations.
Open Scope Z_scope.

(* struct field: name, package path of the *Var (None = nil *Package), tag, embedded flag *)
Record finfo := mkF { fname : str; fpkg : option str; ftag : str; fanon : bool }.

(* interface method, polymorphic in the type of types so that [ty] can nest it *)
Record methT (T : Type) := mkMeth {
  mexp : bool;            (* member of t.methods (explicitly declared) *)
  mnm : str;              (* Func name *)
  mpkg : option str;      (* Func package path; None = nil *)
  mrecv : option T;       (* None = the enclosing interface itself *)
  mps : list T;           (* params *Tuple: nil tuple = [] *)
  mrs : list T;           (* results *)
  mva : bool }.           (* variadic *)
Arguments mkMeth {T}. Arguments mexp {T}. Arguments mnm {T}. Arguments mpkg {T}.
Arguments mrecv {T}. Arguments mps {T}. Arguments mrs {T}. Arguments mva {T}.

Inductive ty :=
| TNil                                        (* nil types.Type (a *Var without type) *)
| TBasic (kind : Z)
| TNamed (id : N)
| TPointer (e : ty)
| TSlice (e : ty)
| TArray (len : Z) (e : ty)                   (* int64 length *)
| TMap (k e : ty)
| TChan (dir : Z) (e : ty)
| TTuple (l : list ty)
| TSig (recv : option ty) (ps rs : list ty) (va : bool)   (* recv: None = nil *Var *)
| TStruct (fs : list (finfo * ty))
| TIface (ms : list (methT ty)) (embs : list N).

Definition meth := methT ty.

(* ---------------------------------------------------------------- size (fuel bound) *)
Fixpoint size (t : ty) : nat :=
  let sizes := fix sizes (l : list ty) : nat := match l with [] => O | x :: r => (size x + sizes r)%nat end in
  match t with
  | TNil | TBasic _ | TNamed _ => 1%nat
  | TPointer e | TSlice e | TArray _ e | TChan _ e => S (size e)
  | TMap k e => S (size k + size e)
  | TTuple l => S (sizes l)
  | TSig r ps rs _ => S (match r with None => O | Some x => size x end + S (sizes ps) + S (sizes rs))
  | TStruct fs => S ((fix fsz (l : list (finfo * ty)) : nat :=
                        match l with [] => O | (_, x) :: r => (size x + fsz r)%nat end) fs)
  | TIface ms embs =>
      S ((fix msz (l : list (methT ty)) : nat :=
            match l with
            | [] => O
            | mkMeth _ _ _ r ps rs _ :: l' =>
                (S (match r with None => O | Some x => size x end + S (sizes ps) + S (sizes rs)) + msz l')%nat
            end) ms)
  end.

(* ---------------------------------------------------------------- identical *)
Definition is_exported (s : str) : bool :=
  match s with c :: _ => (N.leb 65 c && N.leb c 90)%bool | [] => false end.

Definition pkg_same (a b : option str) : bool :=
  match a, b with
  | None, None => true
  | Some p, Some q => str_eqb p q
  | _, _ => false
  end.

(* sameName *)
Definition same_name (xn : str) (xp : option str) (yn : str) (yp : option str) : bool :=
  if str_eqb xn yn then (if is_exported xn then true else pkg_same xp yp) else false.

(* [a && b] with Go's short circuit, on fuelled results (None = out of fuel) *)
Definition andthen (r : option bool) (k : option bool) : option bool :=
  match r with Some true => k | _ => r end.

Section Step.
  (* the recursive call *)
  Variable id : ty -> ty -> option bool.

  (* the three comparison loops have one shape:
       for i := 0; i < n; i++ { if !(f x[i] y[i]) { return false } }; return true        (n = len(x) = len(y)) *)
  Fixpoint loop2 {A : Type} (f : A -> A -> option bool) (a b : list A) : option bool :=
    match a, b with
    | [], _ => Some true
    | u :: a', v :: b' => andthen (f u v) (loop2 f a' b')
    | _ :: _, [] => Some false   (* not reached: lengths are compared first *)
    end.

  (* Tuple case: if !identical(v.Type(), w.Type()) return false *)
  Definition tuple_loop (a b : list ty) : option bool := loop2 id a b.

  (* identicalVar *)
  Definition var_identical (v w : option ty) : option bool :=
    match v, w with
    | None, None => Some true
    | Some t, Some u => id t u
    | _, _ => Some false
    end.

  Definition finfo_ok (f g : finfo) : bool :=
    Bool.eqb (fanon f) (fanon g) && str_eqb (ftag f) (ftag g) && same_name (fname f) (fpkg f) (fname g) (fpkg g).

  (* f.Anonymous() != g.Anonymous() || x.Tag(i) != y.Tag(i) || !sameVarName(f, g) || !identical(f.Type(), g.Type()) *)
  Definition field_identical (p q : finfo * ty) : option bool :=
    if finfo_ok (fst p) (fst q) then id (snd p) (snd q) else Some false.
  Definition fields_loop (a b : list (finfo * ty)) : option bool := loop2 field_identical a b.

  (* receivers of two methods found in the interfaces x and y that are being compared (q = (x, y) is on the stack) *)
  Definition recv_identical (x y : ty) (r s : option ty) : option bool :=
    match r, s with
    | None, None => Some true          (* identical(x, y, q): "same pair was compared before" *)
    | None, Some u => id x u
    | Some t, None => id t y
    | Some t, Some u => id t u
    end.

  (* sameFuncName(a, b) && identical(a.Type(), b.Type(), q) : the Signature case on the two method types *)
  Definition meth_identical (x y : ty) (a b : meth) : option bool :=
    if same_name (mnm a) (mpkg a) (mnm b) (mpkg b) then
      if Bool.eqb (mva a) (mva b) then
        andthen (recv_identical x y (mrecv a) (mrecv b))
          (andthen (id (TTuple (mps a)) (TTuple (mps b))) (id (TTuple (mrs a)) (TTuple (mrs b))))
      else Some false
    else Some false.

  Definition methods_loop (x y : ty) (a b : list meth) : option bool := loop2 (meth_identical x y) a b.

  (* for i < ne: if e.Obj() != f.Obj() return false *)
  Fixpoint embs_loop (a b : list N) : bool :=
    match a, b with
    | [], _ => true
    | e :: a', f :: b' => if N.eqb e f then embs_loop a' b' else false
    | _ :: _, [] => false
    end.

  Definition identical_step (x y : ty) : option bool :=
    match x, y with
    | TNil, TNil => Some true
    | TBasic a, TBasic b => Some (a =? b)
    | TArray n e, TArray m e' => if n =? m then id e e' else Some false
    | TSlice e, TSlice e' => id e e'
    | TStruct fs, TStruct gs =>
        if Nat.eqb (length fs) (length gs) then fields_loop fs gs else Some false
    | TPointer e, TPointer e' => id e e'
    | TTuple a, TTuple b =>
        if Nat.eqb (length a) (length b) then tuple_loop a b else Some false
    | TSig r1 p1 s1 v1, TSig r2 p2 s2 v2 =>
        if Bool.eqb v1 v2 then
          andthen (var_identical r1 r2) (andthen (id (TTuple p1) (TTuple p2)) (id (TTuple s1) (TTuple s2)))
        else Some false
    | TIface a1 e1, TIface a2 e2 =>
        (* na == nb && ne == nf   (nf := y.NumEmbeddeds(): fix C28-1) *)
        if (Nat.eqb (length a1) (length a2) && Nat.eqb (length e1) (length e2))%bool then
          andthen (methods_loop x y a1 a2) (Some (embs_loop e1 e2))
        else Some false
    | TMap k e, TMap k' e' => andthen (id k k') (id e e')
    | TChan d e, TChan d' e' => if d =? d' then id e e' else Some false
    | TNamed a, TNamed b => Some (N.eqb a b)
    | _, _ => Some false
    end.
End Step.

Fixpoint identical (fuel : nat) (x y : ty) : option bool :=
  match fuel with
  | O => None
  | S f => identical_step (identical f) x y
  end.

(* typeutil.Identical with the fuel that theorem C28_identical_total proves sufficient *)
Definition ident (x y : ty) : option bool := identical (size x + size y) x y.
Definition identb (x y : ty) : bool := match ident x y with Some true => true | _ => false end.

(* ---------------------------------------------------------------- hash *)
Definition w32 (z : Z) : Z := z mod 4294967296.
(* hash<<5 | hash>>27 on uint32 *)
Definition rotl5 (h : Z) : Z := Z.lor (w32 (Z.shiftl h 5)) (Z.shiftr h 27).

(* hashString: FNV-1 *)
Definition hash_string (s : str) : Z :=
  fold_left (fun h b => w32 (Z.lxor h (Z.of_N b) * 16777619)) s 2166136261.

Section Hash.
  Variable nh : N -> Z.   (* hashNamed: uint32(p ^ p>>32) of the Obj pointer *)

  Fixpoint hash (t : ty) : Z :=
    let htuple := fun (l : list ty) =>
      fold_left (fun h e => w32 (rotl5 h + 3 * hash e)) l (w32 (9137 + 2 * Z.of_nat (length l))) in
    match t with
    | TNil => 9133
    | TBasic k => w32 k
    | TArray n e => w32 (9043 + 2 * w32 n + 3 * hash e)
    | TSlice e => w32 (9049 + 2 * hash e)
    | TStruct fs =>
        fold_left (fun h (p : finfo * ty) =>
                     let (fi, ft) := p in
                     let h1 := if fanon fi then w32 (h + 8861) else h in
                     let h2 := rotl5 h1 in
                     let h3 := w32 (h2 + hash_string (ftag fi)) in
                     let h4 := w32 (h3 + hash_string (fname fi)) in
                     w32 (h4 + hash ft)) fs 9059
    | TPointer e => w32 (9067 + 2 * hash e)
    | TSig r ps rs va =>
        let h0 := if va then w32 (9091 * 8863) else 9091 in
        w32 (h0 + 3 * htuple ps + 5 * htuple rs + 7 * match r with None => 0 | Some x => hash x end)
    | TIface ms embs =>
        let h0 := fold_left (fun h e => w32 (rotl5 h + 2 * nh e)) embs 9103 in
        fold_left (fun h (m : methT ty) =>
                     match m with
                     | mkMeth ex nm _ _ ps rs va =>
                         if ex then
                           let h1 := w32 (rotl5 h + 7 * hash_string nm) in
                           let h2 := if va then w32 (h1 * 8863) else h1 in
                           w32 (h2 + 3 * htuple ps + 5 * htuple rs)
                         else h
                     end) ms h0
    | TMap k e => w32 (9109 + 2 * hash k + 3 * hash e)
    | TChan d e => w32 (9127 + 2 * w32 d + 3 * hash e)
    | TNamed id => nh id
    | TTuple l => htuple l
    end.
End Hash.

(* ---------------------------------------------------------------- well-formed interfaces
   env: for every named interface id, the (name, pkg) of its complete method set.  An interface node is well
   formed when exactly the methods inherited from its embedded interfaces are the non-explicit ones. *)
Definition env := list (N * list (str * option str)).
Fixpoint env_get (e : env) (id : N) : list (str * option str) :=
  match e with [] => [] | (k, v) :: e' => if N.eqb k id then v else env_get e' id end.
Definition inherited (e : env) (embs : list N) (nm : str) (pk : option str) : bool :=
  existsb (fun id => existsb (fun q => same_name nm pk (fst q) (snd q)) (env_get e id)) embs.

Section Wf.
  Variable e : env.
  Fixpoint wfb (t : ty) : bool :=
    let wfl := fix wfl (l : list ty) : bool := match l with [] => true | x :: r => wfb x && wfl r end in
    match t with
    | TNil | TBasic _ | TNamed _ => true
    | TPointer x | TSlice x | TArray _ x | TChan _ x => wfb x
    | TMap k x => wfb k && wfb x
    | TTuple l => wfl l
    | TSig r ps rs _ => match r with None => true | Some x => wfb x end && wfl ps && wfl rs
    | TStruct fs => (fix wff (l : list (finfo * ty)) : bool :=
                       match l with [] => true | (_, x) :: r => wfb x && wff r end) fs
    | TIface ms embs =>
        (fix wfm (l : list (methT ty)) : bool :=
           match l with
           | [] => true
           | mkMeth ex nm pk r ps rs _ :: l' =>
               Bool.eqb ex (negb (inherited e embs nm pk))
               && match r with None => true | Some x => wfb x end && wfl ps && wfl rs && wfm l'
           end) ms
    end.
End Wf.

(* ---------------------------------------------------------------- Map (map.go), generic in the key type *)
Section TMap.
  Variable K : Type.
  Variable eqv : K -> K -> bool.   (* Identical(key, e.key)  (Delete too: fix C28-2) *)
  Variable hsh : K -> Z.           (* m.hasher.Hash(key); the memo table is a cache of a pure function *)

  (* entry{key, value}; key = None is the zero entry left by Delete *)
  Record entry := mkE { ekey : option K; evalue : Z }.
  Definition bucket := list entry.
  (* table: None = nil map; otherwise hash -> bucket, as an association list with unique hashes *)
  Record tmap := mkM { table : option (list (Z * bucket)); mlen : Z }.
  Definition empty_map : tmap := mkM None 0.

  Fixpoint tget (t : list (Z * bucket)) (h : Z) : bucket :=
    match t with [] => [] | (k, b) :: t' => if k =? h then b else tget t' h end.
  Fixpoint tput (t : list (Z * bucket)) (h : Z) (b : bucket) : list (Z * bucket) :=
    match t with
    | [] => [(h, b)]
    | (k, b0) :: t' => if k =? h then (k, b) :: t' else (k, b0) :: tput t' h b
    end.

  Definition live (key : K) (e : entry) : bool :=
    match ekey e with Some k => eqv key k | None => false end.

  (* Delete's loop: Some bucket' when an entry matched *)
  Fixpoint del_loop (key : K) (b : bucket) : option bucket :=
    match b with
    | [] => None
    | e :: b' => if live key e then Some (mkE None 0 :: b')
                 else match del_loop key b' with Some r => Some (e :: r) | None => None end
    end.

  Definition map_delete (m : tmap) (key : K) : tmap * bool :=
    match table m with
    | None => (m, false)
    | Some t =>
        let h := hsh key in
        match del_loop key (tget t h) with
        | Some b' => (mkM (Some (tput t h b')) (mlen m - 1), true)   (* bucket[i] = entry{} writes through the slice *)
        | None => (m, false)
        end
    end.

  Fixpoint at_loop (key : K) (b : bucket) : option Z :=
    match b with
    | [] => None
    | e :: b' => if live key e then Some (evalue e) else at_loop key b'
    end.

  Definition map_at (m : tmap) (key : K) : option Z :=
    match table m with
    | None => None
    | Some t => at_loop key (tget t (hsh key))
    end.

  (* Set's loop: first live match -> (prev, bucket with the value replaced) *)
  Fixpoint set_loop (key : K) (v : Z) (b : bucket) : option (Z * bucket) :=
    match b with
    | [] => None
    | e :: b' => if live key e then Some (evalue e, mkE (ekey e) v :: b')
                 else match set_loop key v b' with Some (p, r) => Some (p, e :: r) | None => None end
    end.

  (* hole = &bucket[i] for every nil key seen: when no entry matched, the last hole of the bucket *)
  Fixpoint fill_last_hole (ne : entry) (b : bucket) : option bucket :=
    match b with
    | [] => None
    | e :: b' =>
        match fill_last_hole ne b' with
        | Some r => Some (e :: r)
        | None => match ekey e with None => Some (ne :: b') | Some _ => None end
        end
    end.

  Definition map_set (m : tmap) (key : K) (v : Z) : tmap * option Z :=
    match table m with
    | Some t =>
        let h := hsh key in
        let b := tget t h in
        match set_loop key v b with
        | Some (prev, b') => (mkM (Some (tput t h b')) (mlen m), Some prev)
        | None =>
            let ne := mkE (Some key) v in
            match fill_last_hole ne b with
            | Some b' => (mkM (Some (tput t h b')) (mlen m + 1), None)
            | None => (mkM (Some (tput t h (b ++ [ne]))) (mlen m + 1), None)
            end
        end
    | None => (mkM (Some [(hsh key, [mkE (Some key) v])]) (mlen m + 1), None)
    end.

  (* Iterate: every entry with a non-nil key (Go iterates the table in unspecified order) *)
  Definition bucket_items (b : bucket) : list (K * Z) :=
    flat_map (fun e => match ekey e with Some k => [(k, evalue e)] | None => [] end) b.
  Definition map_items (m : tmap) : list (K * Z) :=
    match table m with None => [] | Some t => flat_map (fun hb => bucket_items (snd hb)) t end.

  Inductive mop := OSet (k : K) (v : Z) | OAt (k : K) | ODel (k : K) | OLen | OItems.
  Inductive mout := RPrev (o : option Z) | RVal (o : option Z) | RDel (b : bool) | RLen (n : Z) | RItems (l : list (K * Z)).

  Definition map_step (m : tmap) (o : mop) : tmap * mout :=
    match o with
    | OSet k v => let (m', p) := map_set m k v in (m', RPrev p)
    | OAt k => (m, RVal (map_at m k))
    | ODel k => let (m', b) := map_delete m k in (m', RDel b)
    | OLen => (m, RLen (mlen m))
    | OItems => (m, RItems (map_items m))
    end.

  Fixpoint map_run (m : tmap) (ops : list mop) : tmap * list mout :=
    match ops with
    | [] => (m, [])
    | o :: ops' => let (m1, r) := map_step m o in let (m2, rs) := map_run m1 ops' in (m2, r :: rs)
    end.
End TMap.
Arguments OSet {K}. Arguments OAt {K}. Arguments ODel {K}. Arguments OLen {K}. Arguments OItems {K}.
Arguments RPrev {K}. Arguments RVal {K}. Arguments RDel {K}. Arguments RLen {K}. Arguments RItems {K}.

(* ---------------------------------------------------------------- correspondence support *)
Fixpoint assoc_z (l : list (N * Z)) (k : N) : Z :=
  match l with [] => 0 | (a, v) :: l' => if N.eqb a k then v else assoc_z l' k end.

Definition obool_eqb (a : option bool) (b : bool) : bool :=
  match a with Some x => Bool.eqb x b | None => false end.
Definition oz_eqb (a b : option Z) : bool :=
  match a, b with Some x, Some y => x =? y | None, None => true | _, _ => false end.

(* items sorted by key index (keys of a map are pairwise distinct indices) *)
Fixpoint ins_item (x : N * Z) (l : list (N * Z)) : list (N * Z) :=
  match l with
  | [] => [x]
  | y :: l' => if N.leb (fst x) (fst y) then x :: l else y :: ins_item x l'
  end.
Definition sort_items (l : list (N * Z)) : list (N * Z) := fold_right ins_item [] l.
Fixpoint items_eqb (a b : list (N * Z)) : bool :=
  match a, b with
  | [], [] => true
  | (k, v) :: a', (k', v') :: b' => N.eqb k k' && (v =? v') && items_eqb a' b'
  | _, _ => false
  end.

Definition mout_eqb (a b : mout N) : bool :=
  match a, b with
  | RPrev x, RPrev y => oz_eqb x y
  | RVal x, RVal y => oz_eqb x y
  | RDel x, RDel y => Bool.eqb x y
  | RLen x, RLen y => x =? y
  | RItems x, RItems y => items_eqb (sort_items x) (sort_items y)
  | _, _ => false
  end.
Fixpoint mouts_eqb (a b : list (mout N)) : bool :=
  match a, b with
  | [], [] => true
  | x :: a', y :: b' => mout_eqb x y && mouts_eqb a' b'
  | _, _ => false
  end.

Inductive case :=
(* a block of type terms: observed Hasher.Hash of each, observed Identical matrix (row i, column j) *)
| CTypes (idx : Z) (nhs : list (N * Z)) (e : env) (terms : list ty) (hashes : list Z) (matrix : list (list bool))
(* a Map history over keys given by index into [keys]; outputs observed on typeutil.Map *)
| CMap (idx : Z) (nhs : list (N * Z)) (keys : list ty) (ops : list (mop N)) (outs : list (mout N)).

Definition case_idx (c : case) : Z := match c with CTypes i _ _ _ _ _ => i | CMap i _ _ _ _ => i end.

Fixpoint zs_eqb (a b : list Z) : bool :=
  match a, b with [], [] => true | x :: a', y :: b' => (x =? y) && zs_eqb a' b' | _, _ => false end.
Fixpoint row_ok (x : ty) (ys : list ty) (row : list bool) : bool :=
  match ys, row with
  | [], [] => true
  | y :: ys', b :: row' => obool_eqb (ident x y) b && row_ok x ys' row'
  | _, _ => false
  end.
Fixpoint matrix_ok (xs ys : list ty) (m : list (list bool)) : bool :=
  match xs, m with
  | [], [] => true
  | x :: xs', row :: m' => row_ok x ys row && matrix_ok xs' ys m'
  | _, _ => false
  end.

Definition case_ok (c : case) : bool :=
  match c with
  | CTypes _ nhs e terms hashes matrix =>
      zs_eqb (map (hash (assoc_z nhs)) terms) hashes
      && matrix_ok terms terms matrix
      && forallb (wfb e) terms
  | CMap _ nhs keys ops outs =>
      let key i := nth (N.to_nat i) keys TNil in
      let '(_, r) := map_run N (fun i j => identb (key i) (key j)) (fun i => hash (assoc_z nhs) (key i))
                             (empty_map N) ops in
      mouts_eqb r outs
  end.

Definition mismatches (cs : list case) : list Z :=
  map case_idx (filter (fun c => negb (case_ok c)) cs).

(* C28 — the hash-bucketed Map with tombstones refines an association list keyed by the identity relation.
   Generic in the key type: [eqv] must be an equivalence and [hsh] must respect it on the keys used ([good]). *)
From Coq Require Import List NArith ZArith Bool Lia Permutation.
From Verif Require Import Common.GoStr C28.Model.
Import ListNotations.

Section MapRef.
  Variable K : Type.
  Variable eqv : K -> K -> bool.
  Variable hsh : K -> Z.
  Variable good : K -> Prop.
  Hypothesis eqv_refl : forall k, eqv k k = true.
  Hypothesis eqv_sym : forall a b, eqv a b = true -> eqv b a = true.
  Hypothesis eqv_trans : forall a b c, eqv a b = true -> eqv b c = true -> eqv a c = true.
  Hypothesis eqv_hsh : forall a b, good a -> good b -> eqv a b = true -> hsh a = hsh b.

  Notation items := (list (K * Z)).
  Notation entry := (entry K).
  Notation bucket := (bucket K).
  Notation live := (live K eqv).
  Notation bucket_items := (bucket_items K).

  (* ---------------- the specification: an association list keyed by eqv *)
  Fixpoint a_at (l : items) (k : K) : option Z :=
    match l with [] => None | (k', v) :: r => if eqv k k' then Some v else a_at r k end.
  Fixpoint a_set (l : items) (k : K) (v : Z) : items * option Z :=
    match l with
    | [] => ([(k, v)], None)
    | (k', v') :: r => if eqv k k' then ((k', v) :: r, Some v')
                       else let (r', p) := a_set r k v in ((k', v') :: r', p)
    end.
  Fixpoint a_del (l : items) (k : K) : items * bool :=
    match l with
    | [] => ([], false)
    | (k', v') :: r => if eqv k k' then (r, true) else let (r', b) := a_del r k in ((k', v') :: r', b)
    end.

  Definition nomatch (l : items) (k : K) : Prop := forall k' v, In (k', v) l -> eqv k k' = false.

  Fixpoint uniq (l : items) : Prop :=
    match l with [] => True | (k, v) :: r => nomatch r k /\ uniq r end.

  Lemma eqv_sym_false a b : eqv a b = false -> eqv b a = false.
  Proof. intros H. destruct (eqv b a) eqn:E; auto. rewrite (eqv_sym _ _ E) in H. discriminate. Qed.

  Lemma nomatch_perm l l' k : Permutation l l' -> nomatch l k -> nomatch l' k.
  Proof. intros P H k' v I. apply (H k' v). eapply Permutation_in; [symmetry; exact P|exact I]. Qed.

  Lemma uniq_perm l l' : Permutation l l' -> uniq l -> uniq l'.
  Proof.
    induction 1; simpl; auto.
    - destruct x as [k v]. intros [A B]. split; auto. eapply nomatch_perm; eauto.
    - destruct x as [k v], y as [k' v']. intros [A [B C]]. repeat split; auto.
      + intros k2 v2 [E|I]; [inversion E; subst; apply eqv_sym_false; eapply A; simpl; eauto | eauto].
      + intros k2 v2 I. apply (A k2 v2). simpl; auto.
  Qed.

  Lemma uniq_same l k1 v1 k2 v2 k : uniq l -> In (k1, v1) l -> In (k2, v2) l ->
    eqv k k1 = true -> eqv k k2 = true -> (k1, v1) = (k2, v2).
  Proof.
    intros U I1 I2 E1 E2.
    assert (E : eqv k1 k2 = true) by eauto.
    induction l as [|[k0 v0] l IH]; simpl in *; [tauto|]. destruct U as [N U].
    destruct I1 as [I1|I1], I2 as [I2|I2]; try congruence; auto.
    - inversion I1; subst. rewrite (N _ _ I2) in E. discriminate.
    - inversion I2; subst. apply eqv_sym in E. rewrite (N _ _ I1) in E. discriminate.
  Qed.

  Lemma a_at_some l k v : a_at l k = Some v -> exists k', In (k', v) l /\ eqv k k' = true.
  Proof.
    induction l as [|[k' v'] l IH]; simpl; [discriminate|]. destruct (eqv k k') eqn:E.
    - intros H; inversion H; subst. eauto.
    - intros H. destruct (IH H) as (k2 & I & E2). eauto.
  Qed.
  Lemma a_at_none l k : a_at l k = None -> nomatch l k.
  Proof.
    induction l as [|[k' v'] l IH]; simpl; intros H k2 v2 I; [destruct I|]. destruct (eqv k k') eqn:E; [discriminate|].
    destruct I as [I|I]; [inversion I; subst; auto | eapply IH; eauto].
  Qed.

  Lemma a_del_true l k l' : a_del l k = (l', true) ->
    exists k' v, eqv k k' = true /\ Permutation l ((k', v) :: l').
  Proof.
    revert l'. induction l as [|[k' v'] l IH]; simpl; intros l' H; [discriminate|]. destruct (eqv k k') eqn:E.
    - inversion H; subst. eauto.
    - destruct (a_del l k) as [r b] eqn:D. inversion H; subst. destruct (IH _ eq_refl) as (k2 & v2 & E2 & P).
      exists k2, v2. split; auto. rewrite P. apply perm_swap.
  Qed.
  Lemma a_del_false l k l' : a_del l k = (l', false) -> l' = l /\ nomatch l k.
  Proof.
    revert l'. induction l as [|[k' v'] l IH]; simpl; intros l' H.
    - inversion H. split; auto. intros ? ? [].
    - destruct (eqv k k') eqn:E; [discriminate|]. destruct (a_del l k) as [r b] eqn:D. inversion H; subst.
      destruct (IH _ eq_refl) as [-> N]. split; auto. intros k2 v2 [I|I]; [inversion I; subst; auto | eauto].
  Qed.
  Lemma a_set_some l k v l' p : a_set l k v = (l', Some p) ->
    exists k' r, eqv k k' = true /\ Permutation l ((k', p) :: r) /\ Permutation l' ((k', v) :: r).
  Proof.
    revert l'. induction l as [|[k' v'] l IH]; simpl; intros l' H; [discriminate|]. destruct (eqv k k') eqn:E.
    - inversion H; subst. exists k', l. auto.
    - destruct (a_set l k v) as [r q] eqn:D. inversion H; subst. destruct (IH _ eq_refl) as (k2 & r2 & E2 & P1 & P2).
      exists k2, ((k', v') :: r2). repeat split; auto.
      + rewrite P1. apply perm_swap.
      + rewrite P2. apply perm_swap.
  Qed.
  Lemma a_set_none l k v l' : a_set l k v = (l', None) -> nomatch l k /\ Permutation l' ((k, v) :: l).
  Proof.
    revert l'. induction l as [|[k' v'] l IH]; simpl; intros l' H.
    - inversion H; subst. split; auto. intros ? ? [].
    - destruct (eqv k k') eqn:E; [discriminate|]. destruct (a_set l k v) as [r q] eqn:D. inversion H; subst.
      destruct (IH _ eq_refl) as [N P]. split.
      + intros k2 v2 [I|I]; [inversion I; subst; auto | eauto].
      + rewrite P. apply perm_swap.
  Qed.

  (* ---------------- buckets *)
  Lemma bucket_items_cons e b : bucket_items (e :: b) =
    match ekey K e with Some k => (k, evalue K e) :: bucket_items b | None => bucket_items b end.
  Proof. unfold Model.bucket_items. simpl. destruct (ekey K e); reflexivity. Qed.

  Lemma at_loop_some k b v : at_loop K eqv k b = Some v -> exists k', In (k', v) (bucket_items b) /\ eqv k k' = true.
  Proof.
    induction b as [|e b IH]; cbn [at_loop del_loop set_loop fill_last_hole]; [discriminate|]. rewrite bucket_items_cons. unfold Model.live.
    destruct (ekey K e) as [k0|] eqn:Ek.
    - destruct (eqv k k0) eqn:E.
      + intros H; inversion H; subst. exists k0. simpl; auto.
      + intros H. destruct (IH H) as (k2 & I & E2). exists k2. simpl; auto.
    - auto.
  Qed.
  Lemma at_loop_none k b : at_loop K eqv k b = None -> nomatch (bucket_items b) k.
  Proof.
    induction b as [|e b IH]; cbn [at_loop del_loop set_loop fill_last_hole]; intros H k2 v2 I; [destruct I|]. rewrite bucket_items_cons in I. unfold Model.live in H.
    destruct (ekey K e) as [k0|] eqn:Ek.
    - destruct (eqv k k0) eqn:E; [discriminate|]. destruct I as [I|I]; [inversion I; subst; auto | eapply IH; eauto].
    - eapply IH; eauto.
  Qed.

  Lemma del_loop_some k b b' : del_loop K eqv k b = Some b' ->
    exists k' v, eqv k k' = true /\ Permutation (bucket_items b) ((k', v) :: bucket_items b').
  Proof.
    revert b'. induction b as [|e b IH]; cbn [at_loop del_loop set_loop fill_last_hole]; intros b' H; [discriminate|]. unfold Model.live in H.
    rewrite bucket_items_cons. destruct (ekey K e) as [k0|] eqn:Ek.
    - destruct (eqv k k0) eqn:E.
      + inversion H; subst. rewrite bucket_items_cons. simpl. eauto.
      + destruct (del_loop K eqv k b) as [r|] eqn:D; [|discriminate]. inversion H; subst.
        destruct (IH _ eq_refl) as (k2 & v2 & E2 & P). exists k2, v2. split; auto.
        rewrite bucket_items_cons, Ek. rewrite P. apply perm_swap.
    - destruct (del_loop K eqv k b) as [r|] eqn:D; [|discriminate]. inversion H; subst.
      rewrite bucket_items_cons, Ek. eauto.
  Qed.
  Lemma del_loop_none k b : del_loop K eqv k b = None -> nomatch (bucket_items b) k.
  Proof.
    induction b as [|e b IH]; cbn [at_loop del_loop set_loop fill_last_hole]; intros H k2 v2 I; [destruct I|]. rewrite bucket_items_cons in I. unfold Model.live in H.
    destruct (ekey K e) as [k0|] eqn:Ek.
    - destruct (eqv k k0) eqn:E; [discriminate|]. destruct (del_loop K eqv k b) eqn:D; [discriminate|].
      destruct I as [I|I]; [inversion I; subst; auto | eapply IH; eauto].
    - destruct (del_loop K eqv k b) eqn:D; [discriminate|]. eapply IH; eauto.
  Qed.

  Lemma set_loop_some k v b p b' : set_loop K eqv k v b = Some (p, b') ->
    exists k' r, eqv k k' = true /\ Permutation (bucket_items b) ((k', p) :: r) /\ Permutation (bucket_items b') ((k', v) :: r).
  Proof.
    revert b'. induction b as [|e b IH]; cbn [at_loop del_loop set_loop fill_last_hole]; intros b' H; [discriminate|]. unfold Model.live in H.
    rewrite bucket_items_cons. destruct (ekey K e) as [k0|] eqn:Ek.
    - destruct (eqv k k0) eqn:E.
      + inversion H; subst. rewrite bucket_items_cons. simpl. rewrite Ek. exists k0, (bucket_items b). auto.
      + destruct (set_loop K eqv k v b) as [[q r]|] eqn:D; [|discriminate]. inversion H; subst.
        destruct (IH _ eq_refl) as (k2 & r2 & E2 & P1 & P2). exists k2, ((k0, evalue K e) :: r2). repeat split; auto.
        * rewrite P1. apply perm_swap.
        * rewrite bucket_items_cons, Ek, P2. apply perm_swap.
    - destruct (set_loop K eqv k v b) as [[q r]|] eqn:D; [|discriminate]. inversion H; subst.
      rewrite bucket_items_cons, Ek. eauto.
  Qed.
  Lemma set_loop_none k v b : set_loop K eqv k v b = None -> nomatch (bucket_items b) k.
  Proof.
    induction b as [|e b IH]; cbn [at_loop del_loop set_loop fill_last_hole]; intros H k2 v2 I; [destruct I|]. rewrite bucket_items_cons in I. unfold Model.live in H.
    destruct (ekey K e) as [k0|] eqn:Ek.
    - destruct (eqv k k0) eqn:E; [discriminate|]. destruct (set_loop K eqv k v b) as [[? ?]|] eqn:D; [discriminate|].
      destruct I as [I|I]; [inversion I; subst; auto | eapply IH; eauto].
    - destruct (set_loop K eqv k v b) as [[? ?]|] eqn:D; [discriminate|]. eapply IH; eauto.
  Qed.

  Lemma fill_last_hole_some k v b b' : fill_last_hole K (mkE K (Some k) v) b = Some b' ->
    Permutation (bucket_items b') ((k, v) :: bucket_items b).
  Proof.
    revert b'. induction b as [|e b IH]; cbn [at_loop del_loop set_loop fill_last_hole]; intros b' H; [discriminate|].
    destruct (fill_last_hole K (mkE K (Some k) v) b) as [r|] eqn:F.
    - inversion H; subst. rewrite !bucket_items_cons. destruct (ekey K e); rewrite (IH _ eq_refl); auto. apply perm_swap.
    - destruct (ekey K e) eqn:Ek; [discriminate|]. inversion H; subst. rewrite !bucket_items_cons. simpl. rewrite Ek. auto.
  Qed.
  Lemma bucket_items_app b c : bucket_items (b ++ c) = bucket_items b ++ bucket_items c.
  Proof. unfold Model.bucket_items. apply flat_map_app. Qed.
End MapRef.

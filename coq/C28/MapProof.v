(* C28 — the hash-bucketed Map with tombstones refines an association list keyed by the identity relation.
   Generic in the key type: [eqv] must be an equivalence and [hsh] must respect it on the keys used ([good]). *)
From Coq Require Import List NArith ZArith Bool Lia Permutation.
From Verif Require Import Common.GoStr C28.Model.
Import ListNotations.

Section MapRef.
  Variable K : Type.
  Variable eqv : K -> K -> bool.
  Variable hsh : K -> Z.
  Variable good : K -> Prop.
  Hypothesis eqv_refl : forall k, eqv k k = true.
  Hypothesis eqv_sym : forall a b, eqv a b = true -> eqv b a = true.
  Hypothesis eqv_trans : forall a b c, eqv a b = true -> eqv b c = true -> eqv a c = true.
  Hypothesis eqv_hsh : forall a b, good a -> good b -> eqv a b = true -> hsh a = hsh b.

  Notation items := (list (K * Z)).
  Notation entry := (entry K).
  Notation bucket := (bucket K).
  Notation live := (live K eqv).
  Notation bucket_items := (bucket_items K).

  (* ---------------- the specification: an association list keyed by eqv *)
  Fixpoint a_at (l : items) (k : K) : option Z :=
    match l with [] => None | (k', v) :: r => if eqv k k' then Some v else a_at r k end.
  Fixpoint a_set (l : items) (k : K) (v : Z) : items * option Z :=
    match l with
    | [] => ([(k, v)], None)
    | (k', v') :: r => if eqv k k' then ((k', v) :: r, Some v')
                       else let (r', p) := a_set r k v in ((k', v') :: r', p)
    end.
  Fixpoint a_del (l : items) (k : K) : items * bool :=
    match l with
    | [] => ([], false)
    | (k', v') :: r => if eqv k k' then (r, true) else let (r', b) := a_del r k in ((k', v') :: r', b)
    end.

  Definition nomatch (l : items) (k : K) : Prop := forall k' v, In (k', v) l -> eqv k k' = false.

  Fixpoint uniq (l : items) : Prop :=
    match l with [] => True | (k, v) :: r => nomatch r k /\ uniq r end.

  Lemma eqv_sym_false a b : eqv a b = false -> eqv b a = false.
  Proof. intros H. destruct (eqv b a) eqn:E; auto. rewrite (eqv_sym _ _ E) in H. discriminate. Qed.

  Lemma nomatch_perm l l' k : Permutation l l' -> nomatch l k -> nomatch l' k.
  Proof. intros P H k' v I. apply (H k' v). eapply Permutation_in; [symmetry; exact P|exact I]. Qed.

  Lemma uniq_perm l l' : Permutation l l' -> uniq l -> uniq l'.
  Proof.
    induction 1; simpl; auto.
    - destruct x as [k v]. intros [A B]. split; auto. eapply nomatch_perm; eauto.
    - destruct x as [k v], y as [k' v']. intros [A [B C]]. repeat split; auto.
      + intros k2 v2 [E|I]; [inversion E; subst; apply eqv_sym_false; eapply A; simpl; eauto | eauto].
      + intros k2 v2 I. apply (A k2 v2). simpl; auto.
  Qed.

  Lemma uniq_same l k1 v1 k2 v2 k : uniq l -> In (k1, v1) l -> In (k2, v2) l ->
    eqv k k1 = true -> eqv k k2 = true -> (k1, v1) = (k2, v2).
  Proof.
    intros U I1 I2 E1 E2.
    assert (E : eqv k1 k2 = true) by eauto.
    induction l as [|[k0 v0] l IH]; simpl in *; [tauto|]. destruct U as [N U].
    destruct I1 as [I1|I1], I2 as [I2|I2]; try congruence; auto.
    - inversion I1; subst. rewrite (N _ _ I2) in E. discriminate.
    - inversion I2; subst. apply eqv_sym in E. rewrite (N _ _ I1) in E. discriminate.
  Qed.

  Lemma a_at_some l k v : a_at l k = Some v -> exists k', In (k', v) l /\ eqv k k' = true.
  Proof.
    induction l as [|[k' v'] l IH]; simpl; [discriminate|]. destruct (eqv k k') eqn:E.
    - intros H; inversion H; subst. eauto.
    - intros H. destruct (IH H) as (k2 & I & E2). eauto.
  Qed.
  Lemma a_at_none l k : a_at l k = None -> nomatch l k.
  Proof.
    induction l as [|[k' v'] l IH]; simpl; intros H k2 v2 I; [destruct I|]. destruct (eqv k k') eqn:E; [discriminate|].
    destruct I as [I|I]; [inversion I; subst; auto | eapply IH; eauto].
  Qed.

  Lemma a_del_true l k l' : a_del l k = (l', true) ->
    exists k' v, eqv k k' = true /\ Permutation l ((k', v) :: l').
  Proof.
    revert l'. induction l as [|[k' v'] l IH]; simpl; intros l' H; [discriminate|]. destruct (eqv k k') eqn:E.
    - inversion H; subst. eauto.
    - destruct (a_del l k) as [r b] eqn:D. inversion H; subst. destruct (IH _ eq_refl) as (k2 & v2 & E2 & P).
      exists k2, v2. split; auto. rewrite P. apply perm_swap.
  Qed.
  Lemma a_del_false l k l' : a_del l k = (l', false) -> l' = l /\ nomatch l k.
  Proof.
    revert l'. induction l as [|[k' v'] l IH]; simpl; intros l' H.
    - inversion H. split; auto. intros ? ? [].
    - destruct (eqv k k') eqn:E; [discriminate|]. destruct (a_del l k) as [r b] eqn:D. inversion H; subst.
      destruct (IH _ eq_refl) as [-> N]. split; auto. intros k2 v2 [I|I]; [inversion I; subst; auto | eauto].
  Qed.
  Lemma a_set_some l k v l' p : a_set l k v = (l', Some p) ->
    exists k' r, eqv k k' = true /\ Permutation l ((k', p) :: r) /\ Permutation l' ((k', v) :: r).
  Proof.
    revert l'. induction l as [|[k' v'] l IH]; simpl; intros l' H; [discriminate|]. destruct (eqv k k') eqn:E.
    - inversion H; subst. exists k', l. auto.
    - destruct (a_set l k v) as [r q] eqn:D. inversion H; subst. destruct (IH _ eq_refl) as (k2 & r2 & E2 & P1 & P2).
      exists k2, ((k', v') :: r2). repeat split; auto.
      + rewrite P1. apply perm_swap.
      + rewrite P2. apply perm_swap.
  Qed.
  Lemma a_set_none l k v l' : a_set l k v = (l', None) -> nomatch l k /\ Permutation l' ((k, v) :: l).
  Proof.
    revert l'. induction l as [|[k' v'] l IH]; simpl; intros l' H.
    - inversion H; subst. split; auto. intros ? ? [].
    - destruct (eqv k k') eqn:E; [discriminate|]. destruct (a_set l k v) as [r q] eqn:D. inversion H; subst.
      destruct (IH _ eq_refl) as [N P]. split.
      + intros k2 v2 [I|I]; [inversion I; subst; auto | eauto].
      + rewrite P. apply perm_swap.
  Qed.

  (* ---------------- buckets *)
  Lemma bucket_items_cons e b : bucket_items (e :: b) =
    match ekey K e with Some k => (k, evalue K e) :: bucket_items b | None => bucket_items b end.
  Proof. unfold Model.bucket_items. simpl. destruct (ekey K e); reflexivity. Qed.

  Lemma at_loop_some k b v : at_loop K eqv k b = Some v -> exists k', In (k', v) (bucket_items b) /\ eqv k k' = true.
  Proof.
    induction b as [|e b IH]; cbn [at_loop del_loop set_loop fill_last_hole]; [discriminate|]. rewrite bucket_items_cons. unfold Model.live.
    destruct (ekey K e) as [k0|] eqn:Ek.
    - destruct (eqv k k0) eqn:E.
      + intros H; inversion H; subst. exists k0. simpl; auto.
      + intros H. destruct (IH H) as (k2 & I & E2). exists k2. simpl; auto.
    - auto.
  Qed.
  Lemma at_loop_none k b : at_loop K eqv k b = None -> nomatch (bucket_items b) k.
  Proof.
    induction b as [|e b IH]; cbn [at_loop del_loop set_loop fill_last_hole]; intros H k2 v2 I; [destruct I|]. rewrite bucket_items_cons in I. unfold Model.live in H.
    destruct (ekey K e) as [k0|] eqn:Ek.
    - destruct (eqv k k0) eqn:E; [discriminate|]. destruct I as [I|I]; [inversion I; subst; auto | eapply IH; eauto].
    - eapply IH; eauto.
  Qed.

  Lemma del_loop_some k b b' : del_loop K eqv k b = Some b' ->
    exists k' v, eqv k k' = true /\ Permutation (bucket_items b) ((k', v) :: bucket_items b').
  Proof.
    revert b'. induction b as [|e b IH]; cbn [at_loop del_loop set_loop fill_last_hole]; intros b' H; [discriminate|]. unfold Model.live in H.
    rewrite bucket_items_cons. destruct (ekey K e) as [k0|] eqn:Ek.
    - destruct (eqv k k0) eqn:E.
      + inversion H; subst. rewrite bucket_items_cons. simpl. eauto.
      + destruct (del_loop K eqv k b) as [r|] eqn:D; [|discriminate]. inversion H; subst.
        destruct (IH _ eq_refl) as (k2 & v2 & E2 & P). exists k2, v2. split; auto.
        rewrite bucket_items_cons, Ek. rewrite P. apply perm_swap.
    - destruct (del_loop K eqv k b) as [r|] eqn:D; [|discriminate]. inversion H; subst.
      rewrite bucket_items_cons, Ek. eauto.
  Qed.
  Lemma del_loop_none k b : del_loop K eqv k b = None -> nomatch (bucket_items b) k.
  Proof.
    induction b as [|e b IH]; cbn [at_loop del_loop set_loop fill_last_hole]; intros H k2 v2 I; [destruct I|]. rewrite bucket_items_cons in I. unfold Model.live in H.
    destruct (ekey K e) as [k0|] eqn:Ek.
    - destruct (eqv k k0) eqn:E; [discriminate|]. destruct (del_loop K eqv k b) eqn:D; [discriminate|].
      destruct I as [I|I]; [inversion I; subst; auto | eapply IH; eauto].
    - destruct (del_loop K eqv k b) eqn:D; [discriminate|]. eapply IH; eauto.
  Qed.

  Lemma set_loop_some k v b p b' : set_loop K eqv k v b = Some (p, b') ->
    exists k' r, eqv k k' = true /\ Permutation (bucket_items b) ((k', p) :: r) /\ Permutation (bucket_items b') ((k', v) :: r).
  Proof.
    revert b'. induction b as [|e b IH]; cbn [at_loop del_loop set_loop fill_last_hole]; intros b' H; [discriminate|]. unfold Model.live in H.
    rewrite bucket_items_cons. destruct (ekey K e) as [k0|] eqn:Ek.
    - destruct (eqv k k0) eqn:E.
      + inversion H; subst. rewrite bucket_items_cons. simpl. exists k0, (bucket_items b). auto.
      + destruct (set_loop K eqv k v b) as [[q r]|] eqn:D; [|discriminate]. inversion H; subst.
        destruct (IH _ eq_refl) as (k2 & r2 & E2 & P1 & P2). exists k2, ((k0, evalue K e) :: r2). repeat split; auto.
        * rewrite P1. apply perm_swap.
        * rewrite bucket_items_cons, Ek, P2. apply perm_swap.
    - destruct (set_loop K eqv k v b) as [[q r]|] eqn:D; [|discriminate]. inversion H; subst.
      rewrite bucket_items_cons, Ek. eauto.
  Qed.
  Lemma set_loop_none k v b : set_loop K eqv k v b = None -> nomatch (bucket_items b) k.
  Proof.
    induction b as [|e b IH]; cbn [at_loop del_loop set_loop fill_last_hole]; intros H k2 v2 I; [destruct I|]. rewrite bucket_items_cons in I. unfold Model.live in H.
    destruct (ekey K e) as [k0|] eqn:Ek.
    - destruct (eqv k k0) eqn:E; [discriminate|]. destruct (set_loop K eqv k v b) as [[? ?]|] eqn:D; [discriminate|].
      destruct I as [I|I]; [inversion I; subst; auto | eapply IH; eauto].
    - destruct (set_loop K eqv k v b) as [[? ?]|] eqn:D; [discriminate|]. eapply IH; eauto.
  Qed.

  Lemma fill_last_hole_some k v b b' : fill_last_hole K (mkE K (Some k) v) b = Some b' ->
    Permutation (bucket_items b') ((k, v) :: bucket_items b).
  Proof.
    revert b'. induction b as [|e b IH]; cbn [at_loop del_loop set_loop fill_last_hole]; intros b' H; [discriminate|].
    destruct (fill_last_hole K (mkE K (Some k) v) b) as [r|] eqn:F.
    - inversion H; subst. rewrite !bucket_items_cons. destruct (ekey K e); rewrite (IH _ eq_refl); auto. apply perm_swap.
    - destruct (ekey K e) eqn:Ek; [discriminate|]. inversion H; subst. rewrite !bucket_items_cons. simpl. rewrite Ek. auto.
  Qed.
  Lemma bucket_items_app b c : bucket_items (b ++ c) = bucket_items b ++ bucket_items c.
  Proof. unfold Model.bucket_items. apply flat_map_app. Qed.

  (* ---------------- the table of buckets *)
  Notation tbl := (list (Z * bucket)).
  Definition titems (t : tbl) : items := flat_map (fun hb => bucket_items (snd hb)) t.
  (* everything outside the bucket that tget returns for h *)
  Fixpoint trest (t : tbl) (h : Z) : items :=
    match t with
    | [] => []
    | (k, b) :: t' => if (k =? h)%Z then titems t' else bucket_items b ++ trest t' h
    end.

  Lemma tget_split t h : Permutation (titems t) (bucket_items (tget K t h) ++ trest t h).
  Proof.
    induction t as [|[k b] t IH]; simpl; auto. destruct (k =? h)%Z; simpl; auto.
    rewrite IH. apply Permutation_app_swap_app.
  Qed.
  Lemma tput_split t h b' : Permutation (titems (tput K t h b')) (bucket_items b' ++ trest t h).
  Proof.
    induction t as [|[k b] t IH]; simpl; auto. destruct (k =? h)%Z; simpl; auto.
    rewrite IH. apply Permutation_app_swap_app.
  Qed.
  Lemma trest_tput_same t h b' : trest (tput K t h b') h = trest t h.
  Proof.
    induction t as [|[k b] t IH]; simpl.
    - rewrite Z.eqb_refl. reflexivity.
    - destruct (k =? h)%Z eqn:E; simpl; rewrite E; auto. rewrite IH. reflexivity.
  Qed.
  Lemma trest_sub t h x : In x (trest t h) -> In x (titems t).
  Proof.
    induction t as [|[k b] t IH]; simpl; auto. destruct (k =? h)%Z; rewrite !in_app_iff; intuition.
  Qed.
  Lemma tget_sub t h x : In x (bucket_items (tget K t h)) -> In x (titems t).
  Proof. intros H. eapply Permutation_in; [symmetry; apply (tget_split t h)|]. apply in_app_iff. auto. Qed.
  Lemma tget_in_trest_other t h h0 x : h <> h0 -> In x (bucket_items (tget K t h)) -> In x (trest t h0).
  Proof.
    intros N. induction t as [|[k b] t IH]; simpl; auto. destruct (k =? h)%Z eqn:E.
    - apply Z.eqb_eq in E. subst. intros I. replace (h =? h0)%Z with false by (symmetry; apply Z.eqb_neq; auto).
      apply in_app_iff. auto.
    - intros I. specialize (IH I). destruct (k =? h0)%Z; [eapply trest_sub; eauto | apply in_app_iff; auto].
  Qed.
  Lemma trest_tput_other t h b' h0 x : h <> h0 -> In x (trest (tput K t h b') h0) ->
    In x (bucket_items b') \/ In x (trest t h0).
  Proof.
    intros N. induction t as [|[k b] t IH]; simpl.
    - replace (h =? h0)%Z with false by (symmetry; apply Z.eqb_neq; auto). rewrite app_nil_r. auto.
    - destruct (k =? h)%Z eqn:E; simpl.
      + apply Z.eqb_eq in E. subst. replace (h =? h0)%Z with false by (symmetry; apply Z.eqb_neq; auto).
        rewrite !in_app_iff. tauto.
      + destruct (k =? h0)%Z eqn:E0.
        * intros I. eapply Permutation_in in I; [|apply tput_split]. apply in_app_iff in I as [I|I]; auto.
          right. eapply trest_sub; eauto.
        * rewrite !in_app_iff. intros [I|I]; auto. destruct (IH I); auto.
  Qed.

  (* entries outside the bucket selected by h do not hash to h *)
  Definition J (t : tbl) : Prop := forall h k v, In (k, v) (trest t h) -> hsh k <> h.
  Definition G (l : items) : Prop := forall k v, In (k, v) l -> good k.

  Lemma local t k k' v : J t -> G (titems t) -> good k -> In (k', v) (titems t) -> eqv k k' = true ->
    In (k', v) (bucket_items (tget K t (hsh k))).
  Proof.
    intros HJ HG Gk I E. eapply Permutation_in in I; [|apply (tget_split t (hsh k))].
    apply in_app_iff in I as [I|I]; auto. exfalso. apply (HJ _ _ _ I). symmetry. apply eqv_hsh; auto.
    apply (HG k' v). eapply trest_sub; eauto.
  Qed.

  Lemma nomatch_local t k : J t -> G (titems t) -> good k ->
    nomatch (bucket_items (tget K t (hsh k))) k -> nomatch (titems t) k.
  Proof.
    intros HJ HG Gk N k' v I. destruct (eqv k k') eqn:E; auto.
    rewrite <- (N k' v); auto. eapply local; eauto.
  Qed.

  Lemma J_tput t h b1 : J t ->
    (forall k v, In (k, v) (bucket_items b1) -> (exists v0, In (k, v0) (bucket_items (tget K t h))) \/ hsh k = h) ->
    J (tput K t h b1).
  Proof.
    intros HJ C h0 k0 v0 I. destruct (Z.eq_dec h h0) as [->|N].
    - rewrite trest_tput_same in I. eauto.
    - apply trest_tput_other in I; auto. destruct I as [I|I]; [|eauto].
      destruct (C _ _ I) as [[v1 I1]|E]; [|congruence].
      eapply HJ. eapply tget_in_trest_other; eauto.
  Qed.

  (* ---------------- simulation *)
  Notation tmap := (tmap K).
  Notation map_items := (map_items K).
  Definition Inv (m : tmap) : Prop :=
    match table K m with None => True | Some t => J t end /\ G (map_items m).
  Definition Sim (m : tmap) (l : items) : Prop :=
    Inv m /\ Permutation (map_items m) l /\ uniq l /\ mlen K m = Z.of_nat (length l).

  Lemma map_items_some m t : table K m = Some t -> map_items m = titems t.
  Proof. unfold Model.map_items. intros ->. reflexivity. Qed.

  Lemma at_sim m l k : Sim m l -> good k -> map_at K eqv hsh m k = a_at l k.
  Proof.
    intros ([HJ HG] & P & U & L) Gk. unfold map_at. destruct (table K m) as [t|] eqn:T.
    - rewrite (map_items_some _ _ T) in *.
      destruct (at_loop K eqv k (tget K t (hsh k))) as [v|] eqn:A, (a_at l k) as [v'|] eqn:B; auto.
      + apply at_loop_some in A as (k1 & I1 & E1). apply a_at_some in B as (k2 & I2 & E2).
        apply tget_sub in I1. eapply Permutation_in in I1; [|exact P].
        pose proof (uniq_same _ _ _ _ _ _ U I1 I2 E1 E2) as X. inversion X. reflexivity.
      + apply at_loop_some in A as (k1 & I1 & E1). apply a_at_none in B.
        apply tget_sub in I1. eapply Permutation_in in I1; [|exact P]. rewrite (B _ _ I1) in E1. discriminate.
      + apply a_at_some in B as (k2 & I2 & E2). apply at_loop_none in A.
        apply nomatch_local in A; auto. eapply Permutation_in in I2; [|symmetry; exact P].
        rewrite (A _ _ I2) in E2. discriminate.
    - unfold Model.map_items in P. rewrite T in P. apply Permutation_nil in P. subst. reflexivity.
  Qed.

  Lemma uniq_cons_value k p v r : uniq ((k, p) :: r) -> uniq ((k, v) :: r).
  Proof. simpl. auto. Qed.

  Lemma del_sim m l k m' b l' b' : Sim m l -> good k ->
    map_delete K eqv hsh m k = (m', b) -> a_del l k = (l', b') -> b = b' /\ Sim m' l'.
  Proof.
    intros S Gk HM HA. pose proof S as ([HJ HG] & P & U & L). unfold map_delete in HM.
    destruct (table K m) as [t|] eqn:T.
    - rewrite (map_items_some _ _ T) in *.
      destruct (del_loop K eqv k (tget K t (hsh k))) as [b1|] eqn:D; inversion HM; subst; clear HM.
      + apply del_loop_some in D as (k1 & v1 & E1 & P1).
        assert (PT : Permutation (titems t) ((k1, v1) :: titems (tput K t (hsh k) b1))).
        { rewrite (tget_split t (hsh k)), P1, tput_split. reflexivity. }
        assert (I1 : In (k1, v1) l). { eapply Permutation_in; [exact P|]. eapply Permutation_in; [symmetry; exact PT|]. simpl; auto. }
        destruct b'.
        * apply a_del_true in HA as (k2 & v2 & E2 & P2). split; auto.
          assert (I2 : In (k2, v2) l). { eapply Permutation_in; [symmetry; exact P2|]. simpl; auto. }
          pose proof (uniq_same _ _ _ _ _ _ U I1 I2 E1 E2) as X. inversion X; subst.
          assert (PL : Permutation (titems (tput K t (hsh k) b1)) l').
          { eapply Permutation_cons_inv. rewrite <- PT, P. exact P2. }
          repeat split.
          -- simpl. apply J_tput; auto. intros k0 v0 I0. left. exists v0.
             eapply Permutation_in; [symmetry; exact P1|]. simpl; auto.
          -- unfold Model.map_items. simpl. intros k0 v0 I0. apply (HG k0 v0).
             eapply Permutation_in; [symmetry; exact PT|]. simpl; auto.
          -- unfold Model.map_items. simpl. exact PL.
          -- apply (uniq_perm _ _ P2) in U. simpl in U. tauto.
          -- simpl. rewrite L. rewrite (Permutation_length P2). simpl length. lia.
        * apply a_del_false in HA as [-> N]. rewrite (N _ _ I1) in E1. discriminate.
      + apply del_loop_none in D. apply nomatch_local in D; auto.
        destruct b'.
        * apply a_del_true in HA as (k2 & v2 & E2 & P2).
          assert (I2 : In (k2, v2) (titems t)). { eapply Permutation_in; [symmetry; exact P|]. eapply Permutation_in; [symmetry; exact P2|]. simpl; auto. }
          rewrite (D _ _ I2) in E2. discriminate.
        * apply a_del_false in HA as [-> N]. split; auto.
    - inversion HM; subst. unfold Model.map_items in P. rewrite T in P. apply Permutation_nil in P. subst.
      simpl in HA. inversion HA; subst. split; auto.
  Qed.

  Lemma set_new_sim t (m : tmap) l k v b1 l' o' :
    table K m = Some t -> Sim m l -> good k ->
    nomatch (bucket_items (tget K t (hsh k))) k ->
    Permutation (bucket_items b1) ((k, v) :: bucket_items (tget K t (hsh k))) ->
    a_set l k v = (l', o') ->
    o' = None /\ Sim (mkM K (Some (tput K t (hsh k) b1)) (mlen K m + 1)) l'.
  Proof.
    intros T S Gk N P1 HA. pose proof S as ([HJ HG] & P & U & L). rewrite T in HJ. rewrite (map_items_some _ _ T) in *.
    apply nomatch_local in N; auto.
    assert (NL : nomatch l k) by (eapply nomatch_perm; eauto).
    destruct o' as [p|].
    - apply a_set_some in HA as (k2 & r2 & E2 & P2 & _).
      assert (I2 : In (k2, p) l). { eapply Permutation_in; [symmetry; exact P2|]. simpl; auto. }
      rewrite (NL _ _ I2) in E2. discriminate.
    - apply a_set_none in HA as [_ P2]. split; auto.
      assert (PT : Permutation (titems (tput K t (hsh k) b1)) ((k, v) :: titems t)).
      { rewrite tput_split, P1, (tget_split t (hsh k)). reflexivity. }
      repeat split.
      + simpl. apply J_tput; auto. intros k0 v0 I0. eapply Permutation_in in I0; [|exact P1].
        destruct I0 as [X|I0]; [inversion X; subst; auto | eauto].
      + unfold Model.map_items. simpl. intros k0 v0 I0. eapply Permutation_in in I0; [|exact PT].
        destruct I0 as [X|I0]; [inversion X; subst; auto | eauto].
      + unfold Model.map_items. simpl. rewrite PT, P2. constructor. exact P.
      + eapply uniq_perm; [symmetry; exact P2|]. simpl. auto.
      + simpl. rewrite L, (Permutation_length P2). simpl length. lia.
  Qed.

  Lemma set_sim m l k v m' o l' o' : Sim m l -> good k ->
    map_set K eqv hsh m k v = (m', o) -> a_set l k v = (l', o') -> o = o' /\ Sim m' l'.
  Proof.
    intros S Gk HM HA. pose proof S as ([HJ HG] & P & U & L). unfold map_set in HM.
    destruct (table K m) as [t|] eqn:T.
    - destruct (set_loop K eqv k v (tget K t (hsh k))) as [[p b1]|] eqn:D.
      + inversion HM; subst; clear HM. rewrite (map_items_some _ _ T) in *.
        apply set_loop_some in D as (k1 & r & E1 & P1 & P1').
        assert (PT : Permutation (titems t) ((k1, p) :: r ++ trest t (hsh k))).
        { rewrite (tget_split t (hsh k)), P1. reflexivity. }
        assert (I1 : In (k1, p) l). { eapply Permutation_in; [exact P|]. eapply Permutation_in; [symmetry; exact PT|]. simpl; auto. }
        destruct o' as [p'|].
        * apply a_set_some in HA as (k2 & r2 & E2 & P2 & P2').
          assert (I2 : In (k2, p') l). { eapply Permutation_in; [symmetry; exact P2|]. simpl; auto. }
          pose proof (uniq_same _ _ _ _ _ _ U I1 I2 E1 E2) as X. inversion X; subst. split; auto.
          assert (PR : Permutation (r ++ trest t (hsh k)) r2).
          { eapply Permutation_cons_inv. rewrite <- PT, P. exact P2. }
          assert (PT' : Permutation (titems (tput K t (hsh k) b1)) ((k2, v) :: r2)).
          { rewrite tput_split, P1'. simpl. constructor. exact PR. }
          repeat split.
          -- simpl. apply J_tput; auto. intros k0 v0 I0. left. eapply Permutation_in in I0; [|exact P1'].
             destruct I0 as [Y|I0].
             ++ inversion Y; subst. exists p'. eapply Permutation_in; [symmetry; exact P1|]. simpl; auto.
             ++ exists v0. eapply Permutation_in; [symmetry; exact P1|]. simpl; auto.
          -- unfold Model.map_items. simpl. intros k0 v0 I0. eapply Permutation_in in I0; [|exact PT'].
             destruct I0 as [Y|I0].
             ++ inversion Y; subst. apply (HG k0 p'). eapply Permutation_in; [symmetry; exact P|]. exact I2.
             ++ apply (HG k0 v0). eapply Permutation_in; [symmetry; exact P|].
                eapply Permutation_in; [symmetry; exact P2|]. simpl; auto.
          -- unfold Model.map_items. simpl. rewrite PT', P2'. reflexivity.
          -- eapply uniq_perm; [symmetry; exact P2'|]. eapply uniq_cons_value. eapply uniq_perm; [exact P2|exact U].
          -- simpl. rewrite L, (Permutation_length P2), (Permutation_length P2'). reflexivity.
        * apply a_set_none in HA as [N _]. rewrite (N _ _ I1) in E1. discriminate.
      + apply set_loop_none in D.
        destruct (fill_last_hole K (mkE K (Some k) v) (tget K t (hsh k))) as [b1|] eqn:F; inversion HM; subst; clear HM.
        * apply fill_last_hole_some in F. destruct (set_new_sim _ _ _ _ _ _ _ _ T S Gk D F HA) as [-> S']. auto.
        * assert (F2 : Permutation (bucket_items (tget K t (hsh k) ++ [mkE K (Some k) v])) ((k, v) :: bucket_items (tget K t (hsh k)))).
          { rewrite bucket_items_app. unfold Model.bucket_items at 2. simpl. rewrite Permutation_app_comm. reflexivity. }
          destruct (set_new_sim _ _ _ _ _ _ _ _ T S Gk D F2 HA) as [-> S']. auto.
    - inversion HM; subst; clear HM. unfold Model.map_items in P. rewrite T in P. apply Permutation_nil in P. subst.
      simpl in HA. inversion HA; subst. split; auto. repeat split.
      + simpl. intros h0 k0 v0. simpl. destruct (hsh k =? h0)%Z eqn:E; simpl; [tauto|].
        unfold Model.bucket_items. simpl. intros [X|[]]. inversion X; subst. apply Z.eqb_neq in E. exact E.
      + unfold Model.map_items, Model.bucket_items. simpl. intros k0 v0 [X|[]]. inversion X; subst. exact Gk.
      + unfold Model.map_items, Model.bucket_items. simpl. reflexivity.
      + intros k1 v1 H1. destruct H1.
      + simpl. rewrite L. simpl. lia.
  Qed.

  (* ---------------- histories *)
  Definition spec_step (l : items) (o : mop K) : items * mout K :=
    match o with
    | OSet k v => let (l', p) := a_set l k v in (l', RPrev p)
    | OAt k => (l, RVal (a_at l k))
    | ODel k => let (l', b) := a_del l k in (l', RDel b)
    | OLen => (l, RLen (Z.of_nat (length l)))
    | OItems => (l, RItems l)
    end.
  Fixpoint spec_run (l : items) (ops : list (mop K)) : items * list (mout K) :=
    match ops with
    | [] => (l, [])
    | o :: ops' => let (l1, r) := spec_step l o in let (l2, rs) := spec_run l1 ops' in (l2, r :: rs)
    end.
  (* equal outputs; Iterate's unspecified order: the same entries *)
  Definition out_equiv (a b : mout K) : Prop :=
    match a, b with
    | RItems x, RItems y => Permutation x y
    | _, _ => a = b
    end.
  Definition op_good (o : mop K) : Prop :=
    match o with OSet k _ | OAt k | ODel k => good k | _ => True end.

  Lemma step_sim m l o : Sim m l -> op_good o ->
    Sim (fst (map_step K eqv hsh m o)) (fst (spec_step l o)) /\
    out_equiv (snd (map_step K eqv hsh m o)) (snd (spec_step l o)).
  Proof.
    intros S Go. destruct o as [k v|k|k| |]; simpl in *.
    - destruct (map_set K eqv hsh m k v) as [m' p] eqn:HM, (a_set l k v) as [l' p'] eqn:HA.
      destruct (set_sim _ _ _ _ _ _ _ _ S Go HM HA) as [-> S']. simpl. auto.
    - split; auto. rewrite (at_sim _ _ _ S Go). reflexivity.
    - destruct (map_delete K eqv hsh m k) as [m' p] eqn:HM, (a_del l k) as [l' p'] eqn:HA.
      destruct (del_sim _ _ _ _ _ _ _ S Go HM HA) as [-> S']. simpl. auto.
    - split; auto. destruct S as (_ & _ & _ & L). rewrite L. reflexivity.
    - split; auto. destruct S as (_ & P & _). exact P.
  Qed.

  Lemma run_sim ops : forall m l, Sim m l -> Forall op_good ops ->
    Sim (fst (map_run K eqv hsh m ops)) (fst (spec_run l ops)) /\
    Forall2 out_equiv (snd (map_run K eqv hsh m ops)) (snd (spec_run l ops)).
  Proof.
    induction ops as [|o ops IH]; intros m l S F; simpl.
    - split; auto.
    - inversion F as [|? ? Go F']; subst. destruct (step_sim m l o S Go) as [S1 E1].
      destruct (map_step K eqv hsh m o) as [m1 r] eqn:HM, (spec_step l o) as [l1 r'] eqn:HA. simpl in S1, E1.
      destruct (IH m1 l1 S1 F') as [S2 E2].
      destruct (map_run K eqv hsh m1 ops) as [m2 rs], (spec_run l1 ops) as [l2 rs']. simpl in *. auto.
  Qed.

  Lemma sim_empty : Sim (empty_map K) [].
  Proof. repeat split; simpl; auto. intros ? ? []. Qed.

  Theorem map_refines_assoc ops : Forall op_good ops ->
    let mr := map_run K eqv hsh (empty_map K) ops in
    let sr := spec_run [] ops in
    Forall2 out_equiv (snd mr) (snd sr)
    /\ Permutation (map_items (fst mr)) (fst sr)
    /\ mlen K (fst mr) = Z.of_nat (length (fst sr))
    /\ uniq (fst sr).
  Proof.
    intros F mr sr. destruct (run_sim ops _ _ sim_empty F) as [(_ & P & U & L) E]. auto.
  Qed.
End MapRef.

(* ---------------- instantiation: keys are type terms, identity is identb, the hash is hashFor *)
From Verif Require Import C28.Proof.
Lemma map_refines_assoc_ty (nh : N -> Z) (e : env) (ops : list (mop ty)) :
  Forall (op_good ty (fun t => wfb e t = true)) ops ->
  let mr := map_run ty identb (hash nh) (empty_map ty) ops in
  let sr := spec_run ty identb [] ops in
  Forall2 (out_equiv ty) (snd mr) (snd sr)
  /\ Permutation (map_items ty (fst mr)) (fst sr)
  /\ mlen ty (fst mr) = Z.of_nat (length (fst sr))
  /\ uniq ty identb (fst sr).
Proof.
  apply map_refines_assoc.
  - exact identb_refl.
  - exact identb_sym.
  - exact identb_trans.
  - intros a b Ga Gb E. eapply identb_hash; eauto.
Qed.

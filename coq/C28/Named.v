(* C28 — named types and embedded named interfaces are compared by identity of the type name (Obj), never by
   their underlying structure: two different names with structurally identical underlying types are different
   types, directly and as embedded interfaces of an interface literal (predicates.go: `e.Obj() != f.Obj()`). *)
From Coq Require Import List NArith ZArith Bool Lia.
From Verif Require Import Common.GoStr C28.Model C28.Proof.
Import ListNotations.

Lemma identb_named_iff a b : identb (TNamed a) (TNamed b) = true <-> a = b.
Proof.
  rewrite identb_true. unfold ident. simpl. split.
  - intros H. inversion H as [E]. apply N.eqb_eq. exact E.
  - intros ->. rewrite N.eqb_refl. reflexivity.
Qed.

Lemma identb_iface_embs ms es ms' es' :
  identb (TIface ms es) (TIface ms' es') = true -> es = es'.
Proof.
  rewrite identb_true. unfold ident.
  remember (size (TIface ms es) + size (TIface ms' es'))%nat as f eqn:Hf.
  destruct f as [|f]; [discriminate|].
  cbn [identical identical_step].
  intros H. apply if_true in H. destruct H as [L H].
  apply andb_true_iff in L. destruct L as [_ L]. apply Nat.eqb_eq in L.
  apply andthen_true in H. destruct H as [_ H]. inversion H as [E].
  apply embs_loop_eq; assumption.
Qed.

(* the same one level down: an identical pair of slices / pointers of interface literals has equal embedded lists *)
Lemma identb_slice_iface_embs ms es ms' es' :
  identb (TSlice (TIface ms es)) (TSlice (TIface ms' es')) = true -> es = es'.
Proof.
  intros H. apply identb_iface_embs with (ms := ms) (ms' := ms').
  apply identb_true. apply identb_true in H. unfold ident in H.
  change (size (TSlice (TIface ms es))) with (S (size (TIface ms es))) in H.
  change (size (TSlice (TIface ms' es'))) with (S (size (TIface ms' es'))) in H.
  rewrite Nat.add_succ_l in H. cbn [identical identical_step] in H.
  rewrite ident_fuel in H by lia. exact H.
Qed.

(* C39 — `x := e` collected as `var x = e`: when the written file means what the source meant. *)
From Coq Require Import List NArith ZArith Bool Lia.
From Verif Require Import C39.Model.
Import ListNotations.
Open Scope Z_scope.

Definition is_define (i : item) : bool := match i with IDefine _ _ => true | _ => false end.

(* every initialiser refers to no variable declared at or after its own declaration
   (what the REPL requires anyway: an identifier must be defined before it is used) *)
Fixpoint backward (pending : list (N * expr)) : bool :=
  match pending with
  | [] => true
  | (x, e) :: r => ready ((x, e) :: r) e && backward r
  end.

Definition def_step (en : env) (d : N * expr) : env := (fst d, xeval en (snd d)) :: en.

Lemma go_init_in_order : forall pending en fuel,
  backward pending = true -> (length pending <= fuel)%nat ->
  go_init fuel pending en = Some (fold_left def_step pending en).
Proof.
  induction pending as [|[x e] r IH]; intros en fuel Hb Hf.
  - destruct fuel; reflexivity.
  - simpl in Hb. apply andb_true_iff in Hb as [Hr Hb].
    destruct fuel as [|f]; [simpl in Hf; lia|].
    simpl go_init. simpl pick. rewrite Hr. simpl in Hf.
    rewrite IH by (trivial; lia). reflexivity.
Qed.

Lemma defines_all : forall src, forallb is_define src = true ->
  map (fun d => IDefine (fst d) (snd d)) (defines src) = src /\ stmts_of src = [].
Proof.
  induction src as [|i r IH]; intros H; [split; reflexivity|].
  simpl in H. apply andb_true_iff in H as [Hi Hr]. destruct (IH Hr) as [E1 E2].
  destruct i; [|discriminate]. simpl. split; [now rewrite E1|exact E2].
Qed.

Lemma fold_def_repl : forall ds en,
  fold_left def_step ds en = fold_left repl_step (map (fun d => IDefine (fst d) (snd d)) ds) en.
Proof. induction ds as [|d r IH]; intros en; [reflexivity|]. simpl. apply IH. Qed.

Lemma define_to_var_meaning : forall src,
  forallb is_define src = true ->
  nodupN (map fst (defines src)) = true ->
  backward (defines src) = true ->
  go_run src = Some (repl_run src).
Proof.
  intros src Hd Hn Hb. unfold go_run, repl_run. rewrite Hn.
  rewrite go_init_in_order by (trivial; lia).
  destruct (defines_all src Hd) as [E1 E2]. rewrite E2. simpl.
  rewrite fold_def_repl, E1. reflexivity.
Qed.

(* with a statement between the definitions the meaning changes: x := 1; x++; y := x *)
Definition src_interleaved : list item := [IDefine 1%N (XConst 1); IInc 1%N; IDefine 2%N (XVar 1%N)].

Lemma define_with_statement_differs :
  nodupN (map fst (defines src_interleaved)) = true /\ backward (defines src_interleaved) = true /\
  lookup (repl_run src_interleaved) 2%N = 2 /\
  exists en, go_run src_interleaved = Some en /\ lookup en 2%N = 1.
Proof. repeat split. eexists. split; reflexivity. Qed.

(* a redefinition is legal at the REPL and a compile error in the written file *)
Lemma redefinition_rejected : go_run [IDefine 1%N (XConst 1); IDefine 1%N (XConst 2)] = None.
Proof. reflexivity. Qed.

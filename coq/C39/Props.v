(* C39 — property theorems only: each closed by [exact lemma], followed by Print Assumptions.
   All statements are about the model of cmd.Cmd.EvalFile / Globals.CollectAst / CollectNode / WriteDeclsToStream
   (C39.Model).  _partial everywhere in the sense of DESIGN section 5: the printer that turns a collected tree into
   text (C25), the parser (C24) and the chunk reader (C26) are not modelled; a collected tree is represented by the
   identity of the source tree and the CollectNode case that appended it. *)
From Coq Require Import List NArith ZArith Bool Permutation.
From Verif Require Import Common.GoStr C39.Model C39.Proof C39.Define.
Import ListNotations.
Open Scope Z_scope.

(* CollectAst as written (recursion over AstWithSlice, panic on anything else) visits the leaves from left to right
   and stops at the first panic *)
Theorem C39_collect_ast_is_leaf_visit : forall f g, opts_on g = true -> collect_ast g f = collect_nodes g (flat f).
Proof. exact collect_ast_flat. Qed.
Print Assumptions C39_collect_ast_is_leaf_visit.

(* Every macro-free source all of whose chunks are declarations (package clauses, import / type / var / const
   GenDecls, function and method declarations; any nesting of slices, any cut into chunks), preprocessed with
   declaration collection on, from ANY previous state of the interpreter:
   the written imports are the source's import declarations in source order, the written declarations are its other
   declarations in source order, no statement is written, and the file is exactly
   package line; imports; blank line iff there are imports; declarations. *)
Theorem C39_collect_partition_partial : forall g cs, g_cdecl g = true -> forallb decl_chunk cs = true ->
  let src := source_nodes cs in
  let r := eval_file (fun f => f) g cs in
  g_imports (fst r) = map item_of (filter is_import src) /\
  g_decls (fst r) = map item_of (filter is_plain_decl src) /\
  g_stmts (fst r) = [] /\
  g_pkg (fst r) = last_pkg (g_pkg g) src /\
  snd r = skeleton (last_pkg (g_pkg g) src) (map item_of (filter is_import src)) (map item_of (filter is_plain_decl src)).
Proof. exact collect_partition. Qed.
Print Assumptions C39_collect_partition_partial.

(* nothing dropped, nothing duplicated: imports ++ declarations is a permutation of the source's declarations
   (the package clauses excepted) *)
Theorem C39_collect_nothing_lost_partial : forall g cs, g_cdecl g = true -> forallb decl_chunk cs = true ->
  let g' := fst (eval_file (fun f => f) g cs) in
  Permutation (map ci_id (g_imports g' ++ g_decls g')) (map node_id (filter non_package (source_nodes cs))).
Proof. exact collect_nothing_lost. Qed.
Print Assumptions C39_collect_nothing_lost_partial.

(* a valid Go file has its imports before its other declarations: then imports ++ declarations IS the source order *)
Theorem C39_collect_valid_go_order_partial : forall g cs A B, g_cdecl g = true -> forallb decl_chunk cs = true ->
  filter non_package (source_nodes cs) = A ++ B ->
  forallb is_import A = true -> forallb (fun n => negb (is_import n)) B = true ->
  let g' := fst (eval_file (fun f => f) g cs) in
  g_imports g' ++ g_decls g' = map item_of (filter non_package (source_nodes cs)).
Proof. exact collect_valid_go_order. Qed.
Print Assumptions C39_collect_valid_go_order_partial.

(* the package clause is emitted exactly once, as the first line — for every state, i.e. every source *)
Theorem C39_package_once : forall g, exists rest, write g = LPackage (g_pkg g) :: rest /\ count_package rest = O.
Proof. exact write_one_package. Qed.
Print Assumptions C39_package_once.

(* `x := e` at top level is collected as the declaration `var x = e` (only when declarations are collected;
   it is never collected as a statement) *)
Theorem C39_define_to_var : forall g id, g_cdecl g = true ->
  collect_node g (NAssign true true id) = ok (add_decl g (mkItem ODefine id)).
Proof. exact define_collected. Qed.
Print Assumptions C39_define_to_var.

Theorem C39_define_dropped_without_decl_collection : forall g id b, g_cdecl g = false ->
  collect_node g (NAssign true b id) = ok g.
Proof. exact define_not_a_statement. Qed.
Print Assumptions C39_define_dropped_without_decl_collection.

(* ... and that preserves the meaning when the source consists of definitions of distinct names: Go's package
   initialisation (first ready variable in declaration order, repeatedly) takes them in source order, because a
   REPL definition can only refer to names defined before it *)
Theorem C39_define_to_var_preserves_meaning : forall src,
  forallb is_define src = true ->
  nodupN (map fst (defines src)) = true ->
  backward (defines src) = true ->
  go_run src = Some (repl_run src).
Proof. exact define_to_var_meaning. Qed.
Print Assumptions C39_define_to_var_preserves_meaning.

(* it does not when statements stand between the definitions (they all move into the trailing init()):
   x := 1; x++; y := x  gives y = 2 at the REPL and y = 1 in the written program *)
Theorem C39_define_with_statement_refuted :
  nodupN (map fst (defines src_interleaved)) = true /\ backward (defines src_interleaved) = true /\
  lookup (repl_run src_interleaved) 2%N = 2 /\
  exists en, go_run src_interleaved = Some en /\ lookup en 2%N = 1.
Proof. exact define_with_statement_differs. Qed.
Print Assumptions C39_define_with_statement_refuted.

(* Macros.  Collection commutes with expansion: preprocessing a source with macro calls writes what preprocessing
   the macro-expanded source writes, for every expansion function (C20's MacroExpandCodewalk is one).
   _partial: the expansion function itself is a parameter. *)
Theorem C39_macro_source_equals_expansion_partial : forall (expand : form -> form) g cs,
  eval_file expand g cs = eval_file (fun f => f) g (map (expand_chunk expand) cs).
Proof. exact eval_file_expand. Qed.
Print Assumptions C39_macro_source_equals_expansion_partial.

(* the chunks evaluated on the spot (":import", ":macro", ":func" ...) leave no trace in the written file,
   and neither does a macro declaration that reaches the collector *)
Theorem C39_forced_chunks_not_written : forall (expand : form -> form) g cs,
  eval_file expand g cs = eval_file expand g (filter not_forced cs).
Proof. exact eval_file_forced. Qed.
Print Assumptions C39_forced_chunks_not_written.

Theorem C39_macro_decl_skipped : forall g id, collect_node g (NFuncDecl (Some O) id) = ok g.
Proof. exact macro_decl_skipped. Qed.
Print Assumptions C39_macro_decl_skipped.

(* each file of a directory argument is written from its own chunks only (after fix C39-1: EvalFile also resets
   Imports): what earlier files collected has no influence, except the package name when the file has no clause *)
Theorem C39_files_independent : forall (expand : form -> form) g h cs,
  g_cdecl g = g_cdecl h -> g_cstmt g = g_cstmt h -> g_pkg g = g_pkg h ->
  eval_file expand g cs = eval_file expand h cs.
Proof. exact eval_file_independent. Qed.
Print Assumptions C39_files_independent.

(* ---------- non-vacuity ---------- *)
(* package p; import a; import (b); type T; var x; const c; func f; func (T) m; a nested slice; cut into 3 chunks *)
Definition ex_src : list chunk :=
  [CSrc (FNode (NGenDecl TPackage (Some [112]%N) 1));
   CSrc (FSlice [FNode (NGenDecl TImport None 2); FSlice [FNode (NGenDecl TImport None 3); FNode (NGenDecl TType None 4)]]);
   CSrc (FSlice [FNode (NGenDecl TVar (Some [120]%N) 5); FNode (NGenDecl TConst None 6); FNode (NFuncDecl None 7); FNode (NFuncDecl (Some 1%nat) 8)])].

Example ex_hyp : forallb decl_chunk ex_src = true /\
  map ci_id (g_imports (fst (eval_file (fun f => f) (mkG true true s_main [] [] []) ex_src))) = [2; 3] /\
  map ci_id (g_decls (fst (eval_file (fun f => f) (mkG true true s_main [] [] []) ex_src))) = [4; 5; 6; 7; 8] /\
  g_pkg (fst (eval_file (fun f => f) (mkG true true s_main [] [] []) ex_src)) = [112]%N.
Proof. repeat split. Qed.

(* a source with a macro call and a macro definition: expansion replaces the call (id 10) by a function (id 11) *)
Definition ex_expand (f : form) : form :=
  match f with FNode (NExpr None 10) => FNode (NFuncDecl None 11) | _ => f end.
Example ex_macro :
  map ci_id (g_decls (fst (eval_file ex_expand (mkG true true s_main [] [] []) [CForced; CSrc (FNode (NExpr None 10)); CSrc (FNode (NFuncDecl (Some O) 12))]))) = [11].
Proof. reflexivity. Qed.

Example ex_define : forallb is_define [IDefine 1%N (XConst 3); IDefine 2%N (XAdd (XVar 1%N) (XConst 4))] = true /\
  go_run [IDefine 1%N (XConst 3); IDefine 2%N (XAdd (XVar 1%N) (XConst 4))] = Some [(2%N, 7); (1%N, 3)].
Proof. split; reflexivity. Qed.

(* C39 — lemmas about the collection model. *)
From Coq Require Import List NArith ZArith Bool Permutation Lia.
From Verif Require Import Common.GoStr C39.Model.
Import ListNotations.
Open Scope Z_scope.

(* ---------- induction principle for the nested type [form] ---------- *)
Section FormInd.
  Variable P : form -> Prop.
  Hypothesis Hn : forall n, P (FNode n).
  Hypothesis Hs : forall fs, Forall P fs -> P (FSlice fs).
  Hypothesis Ho : P FOther.
  Fixpoint form_ind2 (f : form) : P f :=
    match f with
    | FNode n => Hn n
    | FSlice fs =>
        Hs fs ((fix go (fs : list form) : Forall P fs :=
                  match fs with
                  | [] => Forall_nil P
                  | f :: r => Forall_cons f (form_ind2 f) (go r)
                  end) fs)
    | FOther => Ho
    end.
End FormInd.

(* ---------- the leaves of a form, in the order CollectAst visits them (None: not an AstWithNode/AstWithSlice) ---------- *)
Fixpoint flat (f : form) : list (option node) :=
  match f with
  | FNode n => [Some n]
  | FSlice fs => (fix go (fs : list form) : list (option node) :=
                    match fs with [] => [] | f :: r => flat f ++ go r end) fs
  | FOther => [None]
  end.

Fixpoint flat_list (fs : list form) : list (option node) :=
  match fs with [] => [] | f :: r => flat f ++ flat_list r end.

Lemma flat_slice fs : flat (FSlice fs) = flat_list fs.
Proof. simpl. induction fs as [|f r IH]; simpl; [reflexivity|]. now rewrite IH. Qed.

(* visiting a list of leaves, stopping at the first panic *)
Fixpoint collect_nodes (g : globals) (l : list (option node)) : cres :=
  match l with
  | [] => ok g
  | None :: _ => err g
  | Some n :: r => let '(g1, k) := collect_node g n in if k then collect_nodes g1 r else (g1, false)
  end.

Definition opts_on (g : globals) : bool := g_cdecl g || g_cstmt g.

Lemma collect_gendecl_opts g t p o id :
  g_cdecl (fst (collect_gendecl g t p o id)) = g_cdecl g /\ g_cstmt (fst (collect_gendecl g t p o id)) = g_cstmt g.
Proof.
  unfold collect_gendecl. destruct (g_cdecl g) eqn:E; [|simpl; now rewrite E].
  destruct t; simpl; try (now rewrite E). destruct p; simpl; now rewrite E.
Qed.

Lemma collect_node_opts g n :
  g_cdecl (fst (collect_node g n)) = g_cdecl g /\ g_cstmt (fst (collect_node g n)) = g_cstmt g.
Proof.
  destruct n; simpl.
  - apply collect_gendecl_opts.
  - destruct (g_cdecl g) eqn:E; [|simpl; now rewrite E]. destruct recv as [[|k]|]; simpl; now rewrite E.
  - destruct k; try apply collect_gendecl_opts. simpl. tauto.
  - destruct (g_cdecl g) eqn:E; simpl; now rewrite E.
  - destruct define.
    + destruct (g_cdecl g) eqn:E; [destruct lhs_idents|]; simpl; now rewrite E.
    + destruct (g_cstmt g) eqn:E; simpl; now rewrite E.
  - destruct (g_cstmt g) eqn:E; simpl; now rewrite E.
  - destruct pkg as [p|]; destruct (g_cdecl g) eqn:E; simpl; try (now rewrite E);
      destruct (g_cstmt g) eqn:E2; simpl; rewrite ?E, ?E2; tauto.
  - tauto.
Qed.

Lemma collect_node_on g n : opts_on g = true -> opts_on (fst (collect_node g n)) = true.
Proof. unfold opts_on. destruct (collect_node_opts g n) as [-> ->]. trivial. Qed.

Lemma collect_nodes_on l : forall g, opts_on g = true -> opts_on (fst (collect_nodes g l)) = true.
Proof.
  induction l as [|[n|] r IH]; intros g H; simpl; trivial.
  destruct (collect_node g n) as [g1 k] eqn:E.
  assert (H1 : opts_on g1 = true) by (change g1 with (fst (g1, k)); rewrite <- E; now apply collect_node_on).
  destruct k; [now apply IH|exact H1].
Qed.

Lemma collect_nodes_app a : forall g b,
  collect_nodes g (a ++ b) =
  let '(g1, k) := collect_nodes g a in if k then collect_nodes g1 b else (g1, false).
Proof.
  induction a as [|[n|] r IH]; intros g b; simpl; trivial.
  destruct (collect_node g n) as [g1 k]. destruct k; [apply IH|reflexivity].
Qed.

Lemma collect_ast_unfold_slice g fs : opts_on g = true ->
  collect_ast g (FSlice fs) =
  (fix go (g : globals) (fs : list form) {struct fs} : cres :=
     match fs with
     | [] => ok g
     | f :: fs' => let '(g1, k) := collect_ast g f in if k then go g1 fs' else (g1, false)
     end) g fs.
Proof. intros H. unfold opts_on in H. simpl. rewrite H. reflexivity. Qed.

(* CollectAst = left-to-right visit of the leaves *)
Lemma collect_ast_flat : forall f g, opts_on g = true -> collect_ast g f = collect_nodes g (flat f).
Proof.
  induction f as [n|fs IH|] using form_ind2; intros g H.
  - unfold opts_on in H. simpl. rewrite H. simpl. destruct (collect_node g n) as [g1 [|]]; reflexivity.
  - rewrite collect_ast_unfold_slice by exact H. rewrite flat_slice.
    revert g H. induction IH as [|f r Hf _ IHr]; intros g H; [reflexivity|].
    simpl flat_list. rewrite collect_nodes_app. rewrite (Hf g H).
    destruct (collect_nodes g (flat f)) as [g1 k] eqn:E.
    destruct k; [|reflexivity].
    apply IHr. change g1 with (fst (g1, true)). rewrite <- E. now apply collect_nodes_on.
  - unfold opts_on in H. simpl. rewrite H. reflexivity.
Qed.

Lemma collect_ast_off g f : opts_on g = false -> collect_ast g f = ok g.
Proof. intros H. unfold opts_on in H. destruct f; simpl; rewrite H; reflexivity. Qed.

(* ---------- declarations only ---------- *)
Definition node_id (n : node) : Z :=
  match n with
  | NGenDecl _ _ id | NFuncDecl _ id | NSpec _ id | NOtherDecl id | NAssign _ _ id | NStmt id | NExpr _ id | NUnknown id => id
  end.

(* the top-level nodes of a Go source file as the forked parser delivers them *)
Definition decl_node (n : node) : bool :=
  match n with
  | NGenDecl TOther _ _ => false
  | NGenDecl _ _ _ => true
  | NFuncDecl (Some O) _ => false
  | NFuncDecl _ _ => true
  | _ => false
  end.
Definition is_import (n : node) : bool := match n with NGenDecl TImport _ _ => true | _ => false end.
Definition is_package (n : node) : bool := match n with NGenDecl TPackage _ _ => true | _ => false end.
Definition is_plain_decl (n : node) : bool := decl_node n && negb (is_import n) && negb (is_package n).

Definition item_of (n : node) : citem :=
  match n with
  | NGenDecl t _ id => mkItem (OGen t) id
  | NFuncDecl _ id => mkItem OFunc id
  | _ => mkItem ODecl (node_id n)
  end.

Lemma item_of_id n : ci_id (item_of n) = node_id n.
Proof. destruct n; reflexivity. Qed.

(* the package clause in force after the nodes: the last one that names a package *)
Fixpoint last_pkg (p : str) (l : list node) : str :=
  match l with
  | [] => p
  | NGenDecl TPackage (Some q) _ :: r => last_pkg q r
  | _ :: r => last_pkg p r
  end.

Lemma collect_decl_nodes : forall ns g, g_cdecl g = true -> forallb decl_node ns = true ->
  exists g', collect_nodes g (map Some ns) = ok g' /\
    g_cdecl g' = true /\ g_cstmt g' = g_cstmt g /\
    g_imports g' = g_imports g ++ map item_of (filter is_import ns) /\
    g_decls g' = g_decls g ++ map item_of (filter is_plain_decl ns) /\
    g_stmts g' = g_stmts g /\
    g_pkg g' = last_pkg (g_pkg g) ns.
Proof.
  induction ns as [|n r IH]; intros g Hc Hall.
  - exists g. simpl. rewrite !app_nil_r. repeat split; trivial.
  - simpl in Hall. apply andb_true_iff in Hall as [Hn Hr].
    assert (Hstep : exists g1, collect_node g n = ok g1 /\ g_cdecl g1 = true /\ g_cstmt g1 = g_cstmt g /\
              g_imports g1 = g_imports g ++ map item_of (filter is_import [n]) /\
              g_decls g1 = g_decls g ++ map item_of (filter is_plain_decl [n]) /\
              g_stmts g1 = g_stmts g /\ g_pkg g1 = last_pkg (g_pkg g) [n]).
    { destruct n as [t p id|recv id| | | | | |]; try discriminate Hn.
      - destruct t; try discriminate Hn; simpl; unfold collect_gendecl; rewrite Hc; simpl;
          try (eexists; split; [reflexivity|]; simpl; rewrite ?app_nil_r; repeat split; trivial; fail).
        destruct p as [q|]; (eexists; split; [reflexivity|]); simpl; rewrite ?app_nil_r; repeat split; trivial.
      - simpl. rewrite Hc. destruct recv as [[|k]|]; try discriminate Hn;
          (eexists; split; [reflexivity|]); simpl; rewrite ?app_nil_r; repeat split; trivial. }
    destruct Hstep as (g1 & E1 & Hc1 & Hs1 & Hi1 & Hd1 & Hst1 & Hp1).
    destruct (IH g1 Hc1 Hr) as (g' & E' & Hc' & Hs' & Hi' & Hd' & Hst' & Hp').
    exists g'. simpl map. simpl collect_nodes. rewrite E1. unfold ok at 1. rewrite E'.
    split; [reflexivity|]. split; [exact Hc'|]. split; [congruence|].
    split; [|split; [|split]].
    + rewrite Hi', Hi1, <- app_assoc, <- map_app. f_equal. f_equal. simpl. destruct (is_import n); reflexivity.
    + rewrite Hd', Hd1, <- app_assoc, <- map_app. f_equal. f_equal. simpl. destruct (is_plain_decl n); reflexivity.
    + congruence.
    + rewrite Hp', Hp1. simpl. destruct n as [t p id| | | | | | |]; trivial. destruct t; trivial. destruct p; trivial.
Qed.

(* ---------- chunks ---------- *)
Definition chunk_leaves (c : chunk) : list (option node) :=
  match c with CForced => [] | CSrc f => flat f end.

Fixpoint the_nodes (l : list (option node)) : list node :=
  match l with [] => [] | Some n :: r => n :: the_nodes r | None :: r => the_nodes r end.

Definition all_some (l : list (option node)) : bool := forallb (fun o => match o with Some _ => true | None => false end) l.

Lemma all_some_map l : all_some l = true -> l = map Some (the_nodes l).
Proof. induction l as [|[n|] r IH]; simpl; intros H; [reflexivity| |discriminate]. f_equal. now apply IH. Qed.

Lemma the_nodes_app a b : the_nodes (a ++ b) = the_nodes a ++ the_nodes b.
Proof. induction a as [|[n|] r IH]; simpl; trivial. now rewrite IH. Qed.

(* a chunk of a Go source: well-formed, and all its top-level nodes are declarations *)
Definition decl_chunk (c : chunk) : bool :=
  all_some (chunk_leaves c) && forallb decl_node (the_nodes (chunk_leaves c)).

Definition source_nodes (cs : list chunk) : list node := the_nodes (flat_map chunk_leaves cs).

Lemma source_nodes_cons c cs : source_nodes (c :: cs) = the_nodes (chunk_leaves c) ++ source_nodes cs.
Proof. unfold source_nodes. simpl. apply the_nodes_app. Qed.

Lemma filter_app_map {A B} (f : A -> B) p (a b : list A) : map f (filter p (a ++ b)) = map f (filter p a) ++ map f (filter p b).
Proof. now rewrite filter_app, map_app. Qed.

Lemma last_pkg_app a : forall p b, last_pkg p (a ++ b) = last_pkg (last_pkg p a) b.
Proof.
  induction a as [|n r IH]; intros p b; [reflexivity|].
  simpl. destruct n as [t q id| | | | | | |]; try apply IH. destruct t; try apply IH. destruct q; apply IH.
Qed.

Lemma fold_decl_chunks : forall cs g, g_cdecl g = true -> forallb decl_chunk cs = true ->
  let g' := fold_left (process_chunk (fun f => f)) cs g in
  g_cdecl g' = true /\ g_cstmt g' = g_cstmt g /\
  g_imports g' = g_imports g ++ map item_of (filter is_import (source_nodes cs)) /\
  g_decls g' = g_decls g ++ map item_of (filter is_plain_decl (source_nodes cs)) /\
  g_stmts g' = g_stmts g /\
  g_pkg g' = last_pkg (g_pkg g) (source_nodes cs).
Proof.
  induction cs as [|c cs IH]; intros g Hc Hall.
  - simpl. unfold source_nodes. simpl. rewrite !app_nil_r. repeat split; trivial.
  - simpl in Hall. apply andb_true_iff in Hall as [Hch Hr].
    unfold decl_chunk in Hch. apply andb_true_iff in Hch as [Hsome Hdecl].
    assert (H1 : exists g1, process_chunk (fun f => f) g c = g1 /\ g_cdecl g1 = true /\ g_cstmt g1 = g_cstmt g /\
               g_imports g1 = g_imports g ++ map item_of (filter is_import (the_nodes (chunk_leaves c))) /\
               g_decls g1 = g_decls g ++ map item_of (filter is_plain_decl (the_nodes (chunk_leaves c))) /\
               g_stmts g1 = g_stmts g /\ g_pkg g1 = last_pkg (g_pkg g) (the_nodes (chunk_leaves c))).
    { destruct c as [|f].
      - exists g. simpl. rewrite !app_nil_r. repeat split; trivial.
      - simpl. simpl in Hsome, Hdecl.
        rewrite collect_ast_flat by (unfold opts_on; now rewrite Hc).
        rewrite (all_some_map _ Hsome).
        destruct (collect_decl_nodes (the_nodes (flat f)) g Hc Hdecl) as (g1 & E & R).
        exists g1. rewrite E. simpl. split; [reflexivity|].
        rewrite <- (all_some_map _ Hsome). exact R. }
    destruct H1 as (g1 & E1 & Hc1 & Hs1 & Hi1 & Hd1 & Hst1 & Hp1).
    simpl fold_left. rewrite E1.
    destruct (IH g1 Hc1 Hr) as (Hc' & Hs' & Hi' & Hd' & Hst' & Hp').
    rewrite source_nodes_cons.
    split; [exact Hc'|]. split; [congruence|].
    split; [|split; [|split]].
    + rewrite Hi', Hi1, <- app_assoc. f_equal. symmetry. apply filter_app_map.
    + rewrite Hd', Hd1, <- app_assoc. f_equal. symmetry. apply filter_app_map.
    + congruence.
    + rewrite Hp', Hp1. symmetry. apply last_pkg_app.
Qed.

(* ---------- the partition theorem ---------- *)
Definition skeleton (pkg : str) (imports decls : list citem) : list line :=
  LPackage pkg :: map LImport imports ++ (match imports with [] => [] | _ => [LBlank] end) ++ map LDecl decls.

Lemma collect_partition : forall g cs, g_cdecl g = true -> forallb decl_chunk cs = true ->
  let src := source_nodes cs in
  let r := eval_file (fun f => f) g cs in
  g_imports (fst r) = map item_of (filter is_import src) /\
  g_decls (fst r) = map item_of (filter is_plain_decl src) /\
  g_stmts (fst r) = [] /\
  g_pkg (fst r) = last_pkg (g_pkg g) src /\
  snd r = skeleton (last_pkg (g_pkg g) src) (map item_of (filter is_import src)) (map item_of (filter is_plain_decl src)).
Proof.
  intros g cs Hc Hall. unfold eval_file. simpl.
  destruct (fold_decl_chunks cs (reset_lists g) Hc Hall) as (_ & _ & Hi & Hd & Hs & Hp).
  simpl in Hi, Hd, Hs, Hp.
  repeat split; trivial.
  unfold write, write_decls_to_stream, skeleton. rewrite Hi, Hd, Hs, Hp. simpl. now rewrite app_nil_r.
Qed.

(* filter by a predicate and by its complement: nothing lost, nothing duplicated *)
Lemma filter_partition_perm {A} (p : A -> bool) (l : list A) :
  Permutation (filter p l ++ filter (fun x => negb (p x)) l) l.
Proof.
  induction l as [|x r IH]; simpl; [constructor|].
  destruct (p x); simpl.
  - now constructor.
  - apply Permutation_sym. apply Permutation_cons_app. now apply Permutation_sym.
Qed.

Definition non_package (n : node) : bool := negb (is_package n).

Lemma filter_plain_eq ns : forallb decl_node ns = true ->
  filter is_plain_decl ns = filter (fun n => negb (is_import n)) (filter non_package ns).
Proof.
  induction ns as [|n r IH]; intros H; [reflexivity|].
  simpl in H. apply andb_true_iff in H as [Hn Hr]. simpl. unfold is_plain_decl at 1, non_package at 1. rewrite Hn.
  destruct n as [t p id|recv id| | | | | |]; try discriminate Hn.
  - destruct t; simpl; rewrite ?IH by exact Hr; reflexivity.
  - simpl. now rewrite IH.
Qed.

Lemma filter_import_eq ns : filter is_import ns = filter is_import (filter non_package ns).
Proof.
  induction ns as [|n r IH]; [reflexivity|]. simpl. unfold non_package at 1.
  destruct n as [t p id| | | | | | |]; simpl; rewrite ?IH; trivial.
  destruct t; simpl; rewrite ?IH; reflexivity.
Qed.

Lemma source_all_decl cs : forallb decl_chunk cs = true -> forallb decl_node (source_nodes cs) = true.
Proof.
  induction cs as [|c cs IH]; intros H; [reflexivity|].
  simpl in H. apply andb_true_iff in H as [Hc Hr]. rewrite source_nodes_cons, forallb_app.
  unfold decl_chunk in Hc. apply andb_true_iff in Hc as [_ Hd]. now rewrite Hd, IH.
Qed.

Lemma collect_nothing_lost : forall g cs, g_cdecl g = true -> forallb decl_chunk cs = true ->
  let g' := fst (eval_file (fun f => f) g cs) in
  Permutation (map ci_id (g_imports g' ++ g_decls g')) (map node_id (filter non_package (source_nodes cs))).
Proof.
  intros g cs Hc Hall. simpl.
  destruct (collect_partition g cs Hc Hall) as (Hi & Hd & _). simpl in Hi, Hd.
  unfold eval_file in Hi, Hd. simpl in Hi, Hd. rewrite Hi, Hd.
  rewrite <- map_app, map_map.
  rewrite (map_ext _ node_id) by apply item_of_id.
  apply Permutation_map.
  rewrite (filter_plain_eq _ (source_all_decl cs Hall)), filter_import_eq.
  apply filter_partition_perm.
Qed.

Lemma NoDup_map_perm {A} (l l' : list A) : Permutation l l' -> NoDup l' -> NoDup l.
Proof. intros P H. eapply Permutation_NoDup; [apply Permutation_sym; exact P|exact H]. Qed.

Lemma filter_all {A} (p : A -> bool) l : forallb p l = true -> filter p l = l.
Proof. induction l as [|x r IH]; simpl; intros H; [reflexivity|]. apply andb_true_iff in H as [-> Hr]. now rewrite IH. Qed.
Lemma filter_none {A} (p : A -> bool) l : forallb (fun x => negb (p x)) l = true -> filter p l = [].
Proof. induction l as [|x r IH]; simpl; intros H; [reflexivity|]. apply andb_true_iff in H as [Hx Hr]. apply negb_true_iff in Hx. now rewrite Hx, IH. Qed.

(* a valid Go file has its imports first: then the written order IS the source order *)
Lemma collect_valid_go_order : forall g cs A B, g_cdecl g = true -> forallb decl_chunk cs = true ->
  filter non_package (source_nodes cs) = A ++ B ->
  forallb is_import A = true -> forallb (fun n => negb (is_import n)) B = true ->
  let g' := fst (eval_file (fun f => f) g cs) in
  g_imports g' ++ g_decls g' = map item_of (filter non_package (source_nodes cs)).
Proof.
  intros g cs A B Hc Hall Hsplit HA HB. simpl.
  destruct (collect_partition g cs Hc Hall) as (Hi & Hd & _). simpl in Hi, Hd.
  unfold eval_file in Hi, Hd. simpl in Hi, Hd. rewrite Hi, Hd.
  rewrite (filter_plain_eq _ (source_all_decl cs Hall)), filter_import_eq, Hsplit.
  rewrite !filter_app, (filter_all _ A HA), (filter_none _ B HB), app_nil_r.
  rewrite (filter_none (fun n => negb (is_import n)) A), (filter_all _ B HB).
  - simpl. symmetry. apply map_app.
  - rewrite forallb_forall in *. intros x Hx. rewrite (HA x Hx). reflexivity.
Qed.

Fixpoint count_package (ls : list line) : nat :=
  match ls with [] => O | LPackage _ :: r => S (count_package r) | _ :: r => count_package r end.

Lemma count_package_app a b : count_package (a ++ b) = (count_package a + count_package b)%nat.
Proof. induction a as [|l r IH]; [reflexivity|]. simpl. destruct l; simpl; rewrite IH; reflexivity. Qed.
Lemma count_package_map_import l : count_package (map LImport l) = O.
Proof. induction l; simpl; trivial. Qed.
Lemma count_package_map_decl l : count_package (map LDecl l) = O.
Proof. induction l; simpl; trivial. Qed.
Lemma count_package_map_stmt l : count_package (map LStmt l) = O.
Proof. induction l; simpl; trivial. Qed.

(* every written file has exactly one package line, and it is the first line (all sources, also with errors) *)
Lemma write_one_package g : exists rest, write g = LPackage (g_pkg g) :: rest /\ count_package rest = O.
Proof.
  unfold write, write_decls_to_stream. eexists. split; [reflexivity|].
  rewrite !count_package_app, count_package_map_import, count_package_map_decl.
  destruct (g_imports g); destruct (g_stmts g); simpl; trivial;
    rewrite count_package_app, count_package_map_stmt; reflexivity.
Qed.

(* ---------- the written skeleton for ANY source ---------- *)
Lemma write_shape g :
  write g = LPackage (g_pkg g) :: map LImport (g_imports g)
            ++ (match g_imports g with [] => [] | _ => [LBlank] end)
            ++ map LDecl (g_decls g)
            ++ (match g_stmts g with [] => [] | _ => LInitOpen :: map LStmt (g_stmts g) ++ [LInitClose] end).
Proof. reflexivity. Qed.

(* ---------- x := e ---------- *)
Lemma define_collected g id : g_cdecl g = true ->
  collect_node g (NAssign true true id) = ok (add_decl g (mkItem ODefine id)).
Proof. intros H. simpl. now rewrite H. Qed.

Lemma define_not_a_statement g id b : g_cdecl g = false -> collect_node g (NAssign true b id) = ok g.
Proof. intros H. simpl. now rewrite H. Qed.

(* ---------- macro expansion ---------- *)
Definition expand_chunk (expand : form -> form) (c : chunk) : chunk :=
  match c with CForced => CForced | CSrc f => CSrc (expand f) end.

Lemma process_expand expand g c : process_chunk expand g c = process_chunk (fun f => f) g (expand_chunk expand c).
Proof. destruct c; reflexivity. Qed.

Lemma fold_expand expand cs : forall g,
  fold_left (process_chunk expand) cs g = fold_left (process_chunk (fun f => f)) (map (expand_chunk expand) cs) g.
Proof. induction cs as [|c r IH]; intros g; [reflexivity|]. simpl. rewrite process_expand. apply IH. Qed.

Lemma eval_file_expand expand g cs :
  eval_file expand g cs = eval_file (fun f => f) g (map (expand_chunk expand) cs).
Proof. unfold eval_file. now rewrite fold_expand. Qed.

Definition not_forced (c : chunk) : bool := match c with CForced => false | _ => true end.

Lemma fold_forced expand cs : forall g,
  fold_left (process_chunk expand) cs g = fold_left (process_chunk expand) (filter not_forced cs) g.
Proof. induction cs as [|c r IH]; intros g; [reflexivity|]. destruct c; simpl; apply IH. Qed.

Lemma eval_file_forced expand g cs : eval_file expand g cs = eval_file expand g (filter not_forced cs).
Proof. unfold eval_file. now rewrite fold_forced. Qed.

Lemma macro_decl_skipped g id : collect_node g (NFuncDecl (Some O) id) = ok g.
Proof. simpl. destruct (g_cdecl g); reflexivity. Qed.

(* ---------- files are independent (fix C39-1) ---------- *)
Lemma eval_file_independent expand g h cs :
  g_cdecl g = g_cdecl h -> g_cstmt g = g_cstmt h -> g_pkg g = g_pkg h ->
  eval_file expand g cs = eval_file expand h cs.
Proof.
  intros H1 H2 H3. unfold eval_file, reset_lists. now rewrite H1, H2, H3.
Qed.

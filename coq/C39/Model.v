(* C39 — executable model of preprocessor mode (gomacro -m -w).  Definitions only.
   Modelled code:
     base/global.go   Globals.CollectAst  -> collect_ast      (AstWithNode / AstWithSlice recursion, Errorf = panic)
                      Globals.CollectNode -> collect_node     (the type switch, in source order of its cases)
     base/output/write_decl.go Output.WriteDeclsToStream -> write_decls_to_stream (skeleton of the written file)
     fast/repl.go     Interp.ParseEvalPrint under OptMacroExpandOnly|OptCollect* -> process_chunk
                      (Cmd + cmdOptForceEval: a chunk that starts with ':' is evaluated, nothing is collected;
                       Interp.Parse = Comp.Parse (ParseBytes ; MacroExpandCodewalk) ; CollectAst;  a panic inside
                       the chunk is trapped by afterEval: the rest of the chunk is lost, the next chunk is read)
     cmd/cmd.go       Cmd.EvalFile -> eval_file (with fix C39-1: Imports is reset together with Declarations and
                      Statements), Cmd.EvalDir -> eval_files, Cmd.Main -> cmd_main (options -m -w, one argument
                      after the other; Imports/Declarations/Statements are cleared after each argument)
   Not modelled: the printer (C25), the parser (C24), the reader that cuts a file into chunks (C26), the macro
   expander (C20: it enters as the function [expand] on forms).
   A node carries the identity [id] of the syntax tree it stands for; the writer prints that tree. *)
From Coq Require Import List NArith ZArith Bool.
From Verif Require Import Common.GoStr.
Import ListNotations.
Open Scope Z_scope.

(* GenDecl.Tok *)
Inductive tok := TImport | TPackage | TType | TVar | TConst | TOther.
(* dynamic type of an ast.Spec *)
Inductive speck := SpImport | SpType | SpValue | SpOther.

(* what CollectNode's type switch distinguishes *)
Inductive node :=
| NGenDecl (t : tok) (pkg : option str) (id : Z)  (* pkg = Some n iff Specs = [ValueSpec{Names: [n]}] (the parser's form of `package n`) *)
| NFuncDecl (recv : option nat) (id : Z)          (* None: Recv == nil; Some k: len(Recv.List) = k; a macro declaration is Some 0 *)
| NSpec (k : speck) (id : Z)                      (* a bare ast.Spec (macro expansion splices the Specs of a GenDecl) *)
| NOtherDecl (id : Z)                             (* any other ast.Decl (BadDecl) *)
| NAssign (define : bool) (lhs_idents : bool) (id : Z)  (* AssignStmt; define: Tok == DEFINE; lhs_idents: every Lhs is an *ast.Ident *)
| NStmt (id : Z)                                  (* any other ast.Stmt *)
| NExpr (pkg : option str) (id : Z)               (* ast.Expr; pkg = Some n iff UnaryExpr{Op: PACKAGE, X: Ident n} *)
| NUnknown (id : Z).                              (* any other ast.Node *)

(* ast2.Ast as CollectAst sees it *)
Inductive form := FNode (n : node) | FSlice (fs : list form) | FOther.

(* a collected tree: which case of CollectNode appended it, and the identity of the source tree *)
Inductive origin :=
| OGen (t : tok)        (* the GenDecl itself *)
| OFunc                 (* the FuncDecl itself *)
| OSpec (k : speck)     (* &ast.GenDecl{Tok: tok_of k, Specs: []ast.Spec{node}} *)
| ODecl
| ODefine               (* &ast.GenDecl{Tok: VAR, Specs: [&ast.ValueSpec{Names: lhs, Values: rhs}]} built from lhs := rhs *)
| OStmt
| OExpr.                (* &ast.ExprStmt{X: node} *)
Record citem := mkItem { ci_origin : origin; ci_id : Z }.

Record globals := mkG {
  g_cdecl : bool;            (* Options & OptCollectDeclarations *)
  g_cstmt : bool;            (* Options & OptCollectStatements *)
  g_pkg : str;               (* PackagePath *)
  g_imports : list citem;    (* Imports *)
  g_decls : list citem;      (* Declarations *)
  g_stmts : list citem       (* Statements *)
}.

Definition set_pkg (g : globals) (p : str) := mkG (g_cdecl g) (g_cstmt g) p (g_imports g) (g_decls g) (g_stmts g).
Definition add_import (g : globals) (c : citem) := mkG (g_cdecl g) (g_cstmt g) (g_pkg g) (g_imports g ++ [c]) (g_decls g) (g_stmts g).
Definition add_decl (g : globals) (c : citem) := mkG (g_cdecl g) (g_cstmt g) (g_pkg g) (g_imports g) (g_decls g ++ [c]) (g_stmts g).
Definition add_stmt (g : globals) (c : citem) := mkG (g_cdecl g) (g_cstmt g) (g_pkg g) (g_imports g) (g_decls g) (g_stmts g ++ [c]).

(* result: the state reached, and false when g.Errorf (or a failed type assertion) panicked *)
Definition cres := (globals * bool)%type.
Definition ok (g : globals) : cres := (g, true).
Definition err (g : globals) : cres := (g, false).

(* the `case *ast.GenDecl` branch; [o] is the origin recorded for the appended declaration *)
Definition collect_gendecl (g : globals) (t : tok) (pkg : option str) (o : origin) (id : Z) : cres :=
  if g_cdecl g then
    match t with
    | TImport => ok (add_import g (mkItem o id))
    | TPackage => ok (match pkg with Some p => set_pkg g p | None => g end)
    | TType | TVar | TConst => ok (add_decl g (mkItem o id))
    | TOther => err g
    end
  else ok g.

Definition tok_of_spec (k : speck) : tok :=
  match k with SpImport => TImport | SpType => TType | SpValue => TVar | SpOther => TOther end.

Definition collect_node (g : globals) (n : node) : cres :=
  match n with
  | NGenDecl t pkg id => collect_gendecl g t pkg (OGen t) id
  | NFuncDecl recv id =>
      if g_cdecl g then
        match recv with
        | Some O => ok g                                   (* macro declaration: skipped *)
        | _ => ok (add_decl g (mkItem OFunc id))
        end
      else ok g
  | NSpec k id =>
      match k with
      | SpOther => err g
      | _ => collect_gendecl g (tok_of_spec k) None (OSpec k) id   (* g.CollectNode(decl) *)
      end
  | NOtherDecl id => if g_cdecl g then ok (add_decl g (mkItem ODecl id)) else ok g
  | NAssign true idents id =>
      if g_cdecl g then (if idents then ok (add_decl g (mkItem ODefine id)) else err g) else ok g
  | NAssign false _ id => if g_cstmt g then ok (add_stmt g (mkItem OStmt id)) else ok g
  | NStmt id => if g_cstmt g then ok (add_stmt g (mkItem OStmt id)) else ok g
  | NExpr pkg id =>
      match pkg, g_cdecl g with
      | Some p, true => ok (set_pkg g p)
      | _, _ => if g_cstmt g then ok (add_stmt g (mkItem OExpr id)) else ok g
      end
  | NUnknown _ => err g
  end.

Fixpoint collect_ast (g : globals) (f : form) {struct f} : cres :=
  if negb (g_cdecl g || g_cstmt g) then ok g else
  match f with
  | FNode n => collect_node g n
  | FSlice fs =>
      (fix go (g : globals) (fs : list form) {struct fs} : cres :=
         match fs with
         | [] => ok g
         | f :: fs' => let '(g1, k) := collect_ast g f in if k then go g1 fs' else (g1, false)
         end) g fs
  | FOther => err g
  end.

(* ---------------- the written file ---------------- *)
Inductive line :=
| LPackage (p : str)      (* "package %s\n\n" *)
| LImport (c : citem)
| LBlank
| LDecl (c : citem)
| LInitOpen               (* "\nfunc init() {\n" *)
| LStmt (c : citem)
| LInitClose.             (* "}\n" *)

Definition write_decls_to_stream (pkg : str) (imports decls stmts : list citem) : list line :=
  LPackage pkg :: map LImport imports
  ++ (match imports with [] => [] | _ => [LBlank] end)
  ++ map LDecl decls
  ++ (match stmts with [] => [] | _ => LInitOpen :: map LStmt stmts ++ [LInitClose] end).

Definition write (g : globals) : list line := write_decls_to_stream (g_pkg g) (g_imports g) (g_decls g) (g_stmts g).

(* ---------------- chunks, files, arguments ---------------- *)
Inductive chunk :=
| CForced                 (* ":<code>": evaluated with collection and macroexpand-only switched off *)
| CSrc (f : form).        (* the parsed chunk, before macro expansion *)

Section Run.
  (* Comp.MacroExpandCodewalk on the parsed chunk (C20) *)
  Variable expand : form -> form.

  Definition process_chunk (g : globals) (c : chunk) : globals :=
    match c with
    | CForced => g
    | CSrc f => fst (collect_ast g (expand f))
    end.

  Definition reset_lists (g : globals) := mkG (g_cdecl g) (g_cstmt g) (g_pkg g) [] [] [].

  (* Cmd.EvalFile with WriteDeclsAndStmts: the state after the file and the lines written *)
  Definition eval_file (g : globals) (cs : list chunk) : globals * list line :=
    let g1 := fold_left process_chunk cs (reset_lists g) in (g1, write g1).

  (* Cmd.EvalDir / a single file: the files of one command-line argument *)
  Fixpoint eval_files (g : globals) (files : list (list chunk)) : globals * list (list line) :=
    match files with
    | [] => (g, [])
    | f :: fs => let '(g1, o) := eval_file g f in let '(g2, os) := eval_files g1 fs in (g2, o :: os)
    end.

  (* Cmd.Main [-m; -w; -f; arg1; arg2 ...] *)
  Fixpoint cmd_main (g : globals) (args : list (list (list chunk))) : globals * list (list line) :=
    match args with
    | [] => (g, [])
    | a :: rest =>
        let g0 := mkG true true (g_pkg g) (g_imports g) (g_decls g) (g_stmts g) in
        let '(g1, o) := eval_files g0 a in
        let '(g2, os) := cmd_main (reset_lists g1) rest in (g2, o ++ os)
    end.
End Run.

Definition s_main : str := [109; 97; 105; 110]%N.
(* base.NewGlobals *)
Definition new_globals : globals := mkG false false s_main [] [] [].

(* ---------------- `x := e` as `var x = e`: when does it preserve meaning?  A concrete miniature. ----------------
   REPL meaning of a source: the items are evaluated in order.  Meaning of the written file: Go initialises the
   package-level variables by repeatedly taking the first one (in declaration order) whose initialiser refers to no
   variable that is still uninitialised, then runs init(), which holds the statements in order. *)
Inductive expr := XConst (z : Z) | XVar (x : N) | XAdd (a b : expr).
Inductive item := IDefine (x : N) (e : expr) | IInc (x : N).     (* x := e  |  x++ *)

Definition env := list (N * Z).
Fixpoint lookup (en : env) (x : N) : Z :=
  match en with [] => 0 | (y, v) :: r => if N.eqb x y then v else lookup r x end.
Fixpoint xeval (en : env) (e : expr) : Z :=
  match e with XConst z => z | XVar x => lookup en x | XAdd a b => xeval en a + xeval en b end.
Fixpoint xdeps (e : expr) : list N :=
  match e with XConst _ => [] | XVar x => [x] | XAdd a b => xdeps a ++ xdeps b end.

Definition repl_step (en : env) (i : item) : env :=
  match i with
  | IDefine x e => (x, xeval en e) :: en
  | IInc x => (x, lookup en x + 1) :: en
  end.
Definition repl_run (src : list item) : env := fold_left repl_step src [].

(* the written file: declarations, then init() *)
Definition defines (src : list item) : list (N * expr) :=
  flat_map (fun i => match i with IDefine x e => [(x, e)] | _ => [] end) src.
Definition stmts_of (src : list item) : list item :=
  filter (fun i => match i with IDefine _ _ => false | _ => true end) src.

Definition memN (x : N) (l : list N) : bool := existsb (N.eqb x) l.
Definition ready (pending : list (N * expr)) (e : expr) : bool :=
  forallb (fun d => negb (memN d (map fst pending))) (xdeps e).

(* first ready variable in declaration order: (it, the others in order) *)
Fixpoint pick (all : list (N * expr)) (pending : list (N * expr)) : option ((N * expr) * list (N * expr)) :=
  match pending with
  | [] => None
  | (x, e) :: r =>
      if ready all e then Some ((x, e), r)
      else match pick all r with
           | Some (d, r') => Some (d, (x, e) :: r')
           | None => None
           end
  end.

Fixpoint go_init (fuel : nat) (pending : list (N * expr)) (en : env) : option env :=
  match pending with
  | [] => Some en
  | _ =>
    match fuel with
    | O => None
    | S f =>
        match pick pending pending with
        | Some ((x, e), r) => go_init f r ((x, xeval en e) :: en)
        | None => None                      (* initialisation cycle: the Go compiler rejects the file *)
        end
    end
  end.

Fixpoint nodupN (l : list N) : bool :=
  match l with [] => true | x :: r => negb (memN x r) && nodupN r end.

(* None: the Go compiler rejects the written file (a name declared twice, or an initialisation cycle) *)
Definition go_run (src : list item) : option env :=
  if nodupN (map fst (defines src)) then
    match go_init (length (defines src)) (defines src) [] with
    | Some en => Some (fold_left repl_step (stmts_of src) en)
    | None => None
    end
  else None.

(* ---------------- correspondence support ---------------- *)
Record out := mkOut { o_pkg : str; o_imports : list Z; o_decls : list Z; o_stmts : list Z }.

Fixpoint lines_out (ls : list line) (o : out) : out :=
  match ls with
  | [] => o
  | l :: r =>
      lines_out r
        (match l with
         | LPackage p => mkOut p (o_imports o) (o_decls o) (o_stmts o)
         | LImport c => mkOut (o_pkg o) (o_imports o ++ [ci_id c]) (o_decls o) (o_stmts o)
         | LDecl c => mkOut (o_pkg o) (o_imports o) (o_decls o ++ [ci_id c]) (o_stmts o)
         | LStmt c => mkOut (o_pkg o) (o_imports o) (o_decls o) (o_stmts o ++ [ci_id c])
         | _ => o
         end)
  end.
Definition out_of_lines (ls : list line) : out := lines_out ls (mkOut [] [] [] []).

Fixpoint zs_eqb (a b : list Z) : bool :=
  match a, b with
  | [], [] => true
  | x :: a', y :: b' => Z.eqb x y && zs_eqb a' b'
  | _, _ => false
  end.
Definition out_eqb (a b : out) : bool :=
  str_eqb (o_pkg a) (o_pkg b) && zs_eqb (o_imports a) (o_imports b) && zs_eqb (o_decls a) (o_decls b) && zs_eqb (o_stmts a) (o_stmts b).
Fixpoint outs_eqb (a b : list out) : bool :=
  match a, b with
  | [], [] => true
  | x :: a', y :: b' => out_eqb x y && outs_eqb a' b'
  | _, _ => false
  end.

(* one call of Cmd.Main with one argument (a file: one element; a directory: its files in name order);
   the chunks are given after macro expansion (observed in a second interpreter), so expand = identity *)
Record case := mkCase { c_idx : Z; c_files : list (list chunk); c_obs : list out }.

Definition case_ok (c : case) : bool :=
  outs_eqb (map out_of_lines (snd (cmd_main (fun f => f) new_globals [c_files c]))) (c_obs c).

Definition mismatches (cs : list case) : list Z :=
  map c_idx (filter (fun c => negb (case_ok c)) cs).

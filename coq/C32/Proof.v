(* C32 — lemmas: digit printing/parsing, splitting at the first separator, literals, round trip. *)
From Coq Require Import List NArith ZArith Bool Lia.
From Verif Require Import Common.GoStr C32.Model.
Import ListNotations.
Open Scope Z_scope.

(* ---------- small helpers ---------- *)
Lemma N_eqb_false x y : x <> y -> N.eqb x y = false.
Proof. intros H. apply N.eqb_neq. exact H. Qed.

Lemma bind_some {A B} (o : option A) (f : A -> option B) r :
  bind o f = Some r -> exists x, o = Some x /\ f x = Some r.
Proof. destruct o; simpl; intros H; [eauto|discriminate]. Qed.

(* ---------- Pos.size ---------- *)
Lemma size_bounds p : 2 ^ (Z.pos (Pos.size p) - 1) <= Z.pos p < 2 ^ Z.pos (Pos.size p).
Proof.
  split.
  - pose proof (Pos.size_le p) as H.
    assert (E : 2 ^ Z.pos (Pos.size p) = 2 * 2 ^ (Z.pos (Pos.size p) - 1)).
    { rewrite <- Z.pow_succ_r by lia. f_equal. lia. }
    assert (H2 : 2 ^ Z.pos (Pos.size p) <= Z.pos p~0).
    { rewrite <- Pos2Z.inj_pow. apply Pos2Z.pos_le_pos. exact H. }
    rewrite E in H2. lia.
  - pose proof (Pos.size_gt p) as H. rewrite <- Pos2Z.inj_pow. apply Pos2Z.pos_lt_pos. exact H.
Qed.

Lemma size_unique p k : 2 ^ (k - 1) <= Z.pos p < 2 ^ k -> Z.pos (Pos.size p) = k.
Proof.
  intros [H1 H2]. destruct (size_bounds p) as [B1 B2].
  assert (0 < k).
  { destruct (Z.ltb_spec 0 k); [assumption|]. exfalso.
    assert (2 ^ k <= 2 ^ 0) by (destruct (Z.ltb_spec k 0); [rewrite Z.pow_neg_r by lia; simpl; lia | apply Z.pow_le_mono_r; lia]).
    simpl in *. lia. }
  assert (Z.pos (Pos.size p) - 1 < k) by (apply (Z.pow_lt_mono_r_iff 2); lia).
  assert (k - 1 < Z.pos (Pos.size p)) by (apply (Z.pow_lt_mono_r_iff 2); lia).
  lia.
Qed.

Lemma size_le_of_lt p k : 0 <= k -> Z.pos p < 2 ^ k -> Z.pos (Pos.size p) <= k.
Proof.
  intros Hk H. destruct (size_bounds p) as [B1 _].
  assert (Z.pos (Pos.size p) - 1 < k) by (apply (Z.pow_lt_mono_r_iff 2); lia). lia.
Qed.

(* ---------- digits ---------- *)
Definition digit_ok (b : N) (c : N) : Prop := exists d, (d < b)%N /\ c = digit_char d.

Lemma digit_val_char d : (d < 16)%N -> digit_val (digit_char d) = Some d.
Proof.
  intros H. unfold digit_char, digit_val.
  destruct (N.ltb_spec d 10).
  - replace ((48 <=? 48 + d)%N) with true by (symmetry; apply N.leb_le; lia).
    replace ((48 + d <=? 57)%N) with true by (symmetry; apply N.leb_le; lia).
    simpl andb. cbv iota. f_equal. lia.
  - replace ((87 + d <=? 57)%N) with false by (symmetry; apply N.leb_gt; lia).
    rewrite andb_false_r.
    replace ((97 <=? 87 + d)%N) with true by (symmetry; apply N.leb_le; lia).
    replace ((87 + d <=? 102)%N) with true by (symmetry; apply N.leb_le; lia).
    simpl andb. cbv iota. f_equal. lia.
Qed.

Lemma digit_char_range d : (d < 16)%N ->
  ((48 <= digit_char d <= 57)%N \/ (97 <= digit_char d <= 102)%N).
Proof. intros H. unfold digit_char. destruct (N.ltb_spec d 10); lia. Qed.

Lemma digit_char_range10 d : (d < 10)%N -> (48 <= digit_char d <= 57)%N.
Proof. intros H. unfold digit_char. destruct (N.ltb_spec d 10); lia. Qed.

Lemma parse_acc_app b s t a :
  parse_acc b (s ++ t) a = match parse_acc b s a with Some x => parse_acc b t x | None => None end.
Proof.
  revert a; induction s as [|c s IH]; intros a; simpl; [reflexivity|].
  destruct (digit_val c); [|reflexivity]. destruct (_ <? _)%N; [apply IH|reflexivity].
Qed.

(* specification of one run of print_digits *)
Record digits_of (b : N) (n : N) (ds : str) : Prop := {
  d_parse : forall a, parse_acc b ds a = Some (a * b ^ N.of_nat (length ds) + n)%N;
  d_chars : Forall (digit_ok b) ds;
  d_head : exists d0 rest, ds = digit_char d0 :: rest /\ (0 < d0 < b)%N;
  d_len : (b ^ (N.of_nat (length ds) - 1) <= n < b ^ N.of_nat (length ds))%N
}.

Lemma digits_of_one b n : (2 <= b <= 16)%N -> (0 < n < b)%N -> digits_of b n [digit_char n].
Proof.
  intros Hb Hn. constructor.
  - intros a. cbn [parse_acc length]. change (N.of_nat 1) with 1%N. rewrite digit_val_char by lia.
    replace ((n <? b)%N) with true by (symmetry; apply N.ltb_lt; lia).
    f_equal. rewrite N.pow_1_r. reflexivity.
  - constructor; [exists n; split; [lia|reflexivity]|constructor].
  - exists n, []. split; [reflexivity|lia].
  - cbn [length]. change (N.of_nat 1) with 1%N. change (1 - 1)%N with 0%N. rewrite N.pow_1_r, N.pow_0_r. lia.
Qed.

Lemma digits_of_snoc b q r ds : (2 <= b <= 16)%N -> (r < b)%N -> digits_of b q ds ->
  digits_of b (q * b + r)%N (ds ++ [digit_char r]).
Proof.
  intros Hb Hr [Dp Dc Dh Dl].
  assert (EL : N.of_nat (length (ds ++ [digit_char r])) = N.succ (N.of_nat (length ds))).
  { rewrite app_length. simpl. lia. }
  constructor.
  - intros a. rewrite parse_acc_app, Dp. cbn [parse_acc]. rewrite digit_val_char by lia.
    replace ((r <? b)%N) with true by (symmetry; apply N.ltb_lt; lia).
    f_equal. rewrite EL, N.pow_succ_r'. lia.
  - apply Forall_app. split; [exact Dc|]. constructor; [exists r; split; [lia|reflexivity]|constructor].
  - destruct Dh as [d0 [rest [E0 H0]]]. exists d0, (rest ++ [digit_char r]). split; [rewrite E0; reflexivity|exact H0].
  - rewrite EL.
    assert (N.of_nat (length ds) <> 0)%N by (destruct Dh as [d0 [rest [E0 _]]]; rewrite E0; simpl; lia).
    replace (N.succ (N.of_nat (length ds)) - 1)%N with (N.succ (N.of_nat (length ds) - 1))%N by lia.
    rewrite !N.pow_succ_r'. nia.
Qed.

Lemma print_digits_unfold b fuel n acc :
  print_digits b fuel n acc =
  match (n / b)%N with
  | N0 => Some (digit_char (n mod b)%N :: acc)
  | q => match fuel with
         | xH => None
         | xO f | xI f => print_digits b f q (digit_char (n mod b)%N :: acc)
         end
  end.
Proof. destruct fuel; reflexivity. Qed.

Lemma print_digits_spec b : (2 <= b <= 16)%N -> forall fuel n acc,
  (0 < n)%N -> (n < 2 ^ N.pos (Pos.size fuel))%N ->
  exists ds, print_digits b fuel n acc = Some (ds ++ acc) /\ digits_of b n ds.
Proof.
  intros Hb fuel. induction fuel as [f IH|f IH|]; intros n acc Hn Hlt; rewrite print_digits_unfold;
    pose proof (N.div_mod n b ltac:(lia)) as DM;
    pose proof (N.mod_lt n b ltac:(lia)) as ML;
    destruct (n / b)%N as [|q] eqn:Eq.
  1,3,5: (exists [digit_char (n mod b)%N]; split; [reflexivity|];
          assert (En : (n mod b = n)%N) by lia; rewrite En; apply digits_of_one; lia).
  1,2: (assert (Hq : (N.pos q < 2 ^ N.pos (Pos.size f))%N) by
         (simpl Pos.size in Hlt;
          replace (N.pos (Pos.succ (Pos.size f))) with (N.succ (N.pos (Pos.size f))) in Hlt by lia;
          rewrite N.pow_succ_r' in Hlt;
          assert (2 * N.pos q <= b * N.pos q)%N by (apply N.mul_le_mono_r; lia);
          clear IH Eq; set (P := (2 ^ N.pos (Pos.size f))%N) in *; clearbody P;
          set (r := (n mod b)%N) in *; clearbody r; set (bq := (b * N.pos q)%N) in *; clearbody bq; lia);
        cbv zeta;
        destruct (IH (N.pos q) (digit_char (n mod b)%N :: acc) ltac:(lia) Hq) as [ds [E D]];
        exists (ds ++ [digit_char (n mod b)%N]); split;
        [ rewrite E, <- app_assoc; reflexivity
        | rewrite DM at 1; rewrite (N.mul_comm b); apply digits_of_snoc; assumption ]).
  (* fuel = xH: n < 2, so n = 1 and n / b = 0 *)
  exfalso. simpl in Hlt. assert (n = 1)%N by lia. subst n.
  rewrite (N.div_small 1 b) in Eq by lia. discriminate.
Qed.

Lemma print_pos_spec b p : (2 <= b <= 16)%N -> exists ds, print_pos b p = Some ds /\ digits_of b (N.pos p) ds.
Proof.
  intros Hb. unfold print_pos.
  destruct (print_digits_spec b Hb p (N.pos p) []) as [ds [E D]].
  - lia.
  - change (2 ^ N.pos (Pos.size p))%N with (N.pos (2 ^ Pos.size p)).
    pose proof (Pos.size_gt p). lia.
  - exists ds. rewrite app_nil_r in E. auto.
Qed.

Lemma parse_digits_of b n ds : digits_of b n ds -> parse_digits b ds = Some n.
Proof.
  intros [Dp _ [d0 [rest [E _]]] _]. unfold parse_digits. destruct ds as [|c ds']; [discriminate|].
  rewrite Dp. reflexivity.
Qed.

Definition hexchar (c : N) : Prop := (48 <= c <= 57)%N \/ (97 <= c <= 102)%N.
Definition decchar (c : N) : Prop := (48 <= c <= 57)%N.

Lemma digits_hexchar b n ds : (b <= 16)%N -> digits_of b n ds -> Forall hexchar ds.
Proof.
  intros Hb [_ Dc _ _]. eapply Forall_impl; [|exact Dc].
  intros c [d [Hd ->]]. apply digit_char_range. lia.
Qed.

Lemma digits_decchar n ds : digits_of 10 n ds -> Forall decchar ds.
Proof.
  intros [_ Dc _ _]. eapply Forall_impl; [|exact Dc].
  intros c [d [Hd ->]]. apply digit_char_range10. lia.
Qed.

Lemma decchar_hexchar c : decchar c -> hexchar c.
Proof. unfold decchar, hexchar. lia. Qed.

(* ---------- splitting ---------- *)
Lemma split_byte_notin c s : ~ In c s -> split_byte c s = None.
Proof.
  induction s as [|x s IH]; simpl; intros H; [reflexivity|].
  rewrite N_eqb_false by (intros ->; apply H; left; reflexivity).
  rewrite IH by (intros Hc; apply H; right; exact Hc). reflexivity.
Qed.

Lemma split_byte_first c a b : ~ In c a -> split_byte c (a ++ c :: b) = Some (a, b).
Proof.
  induction a as [|x a IH]; simpl; intros H.
  - rewrite N.eqb_refl. reflexivity.
  - rewrite N_eqb_false by (intros ->; apply H; left; reflexivity).
    rewrite IH by (intros Hc; apply H; right; exact Hc). reflexivity.
Qed.

Lemma has_byte_notin c s : ~ In c s -> has_byte c s = false.
Proof.
  induction s as [|x s IH]; simpl; intros H; [reflexivity|].
  rewrite N_eqb_false by (intros ->; apply H; left; reflexivity).
  apply IH. intros Hc; apply H; right; exact Hc.
Qed.

Lemma notin_hex c s : Forall hexchar s -> ~ hexchar c -> ~ In c s.
Proof. intros F H Hin. rewrite Forall_forall in F. apply H, F, Hin. Qed.

(* ---------- decimal integers ---------- *)
(* the three shapes of print_Z *)
Inductive dec_shape : Z -> str -> Prop :=
| DS0 : dec_shape 0 [c_0]
| DSpos p ds : digits_of 10 (N.pos p) ds -> dec_shape (Z.pos p) ds
| DSneg p ds : digits_of 10 (N.pos p) ds -> dec_shape (Z.neg p) (c_minus :: ds).

Lemma print_Z_shape z : exists s, print_Z z = Some s /\ dec_shape z s.
Proof.
  destruct z as [|p|p]; simpl.
  - eexists; split; [reflexivity|constructor].
  - destruct (print_pos_spec 10 p ltac:(lia)) as [ds [E D]]. exists ds. split; [exact E|constructor; exact D].
  - destruct (print_pos_spec 10 p ltac:(lia)) as [ds [E D]]. rewrite E. simpl.
    eexists; split; [reflexivity|constructor; exact D].
Qed.

Definition decsigned (c : N) : Prop := c = c_minus \/ decchar c.

Lemma dec_shape_chars z s : dec_shape z s -> Forall decsigned s.
Proof.
  intros H. destruct H.
  - constructor; [right; unfold decchar, c_0; lia|constructor].
  - eapply Forall_impl; [|apply (digits_decchar _ _ H)]. intros c Hc. right. exact Hc.
  - constructor; [left; reflexivity|].
    eapply Forall_impl; [|apply (digits_decchar _ _ H)]. intros c Hc. right. exact Hc.
Qed.

Lemma notin_dec c s : Forall decsigned s -> c <> c_minus -> ~ decchar c -> ~ In c s.
Proof.
  intros F H1 H2 Hin. rewrite Forall_forall in F. destruct (F _ Hin) as [E|E]; [exact (H1 E)|exact (H2 E)].
Qed.

Lemma strip_sign_digits n ds : digits_of 10 n ds -> strip_sign ds = (false, ds).
Proof.
  intros [_ _ [d0 [rest [E H]]] _]. subst ds. unfold strip_sign.
  pose proof (digit_char_range10 d0 ltac:(lia)).
  rewrite !N_eqb_false by (unfold c_minus, c_plus; lia). reflexivity.
Qed.

Lemma int_lit_digits neg n ds : digits_of 10 n ds -> ~ In c_us ds ->
  (let fin := fun o : option N => match o with Some n => IVal (sgn neg (Z.of_N n)) | None => IUnknown end in
   match ds with
   | [] => IUnknown
   | c :: r1 =>
       if N.eqb c c_0 then
         match r1 with
         | [] => IVal 0
         | p :: r2 =>
             if N.eqb (lower p) 120 then fin (parse_digits 16 r2)
             else if N.eqb (lower p) 98 then fin (parse_digits 2 r2)
             else if N.eqb (lower p) 111 then fin (parse_digits 8 r2)
             else fin (parse_digits 8 r1)
         end
       else fin (parse_digits 10 ds)
   end) = IVal (sgn neg (Z.of_N n)).
Proof.
  intros D _. pose proof (parse_digits_of _ _ _ D) as P.
  destruct D as [_ _ [d0 [rest [E H]]] _]. cbv zeta. subst ds.
  pose proof (digit_char_range10 d0 ltac:(lia)) as R.
  assert (N0 : digit_char d0 <> c_0) by (unfold digit_char, c_0 in *; destruct (d0 <? 10)%N; lia).
  rewrite (N_eqb_false _ _ N0). rewrite P. reflexivity.
Qed.

Lemma int_lit_print z s : dec_shape z s -> int_lit s = IVal z.
Proof.
  intros H. pose proof (dec_shape_chars _ _ H) as F.
  assert (U : ~ In c_us s) by (apply (notin_dec _ _ F); unfold c_us, c_minus, decchar; lia).
  unfold int_lit. rewrite (has_byte_notin _ _ U).
  destruct H as [|p ds D|p ds D].
  - reflexivity.
  - rewrite (strip_sign_digits _ _ D). apply (int_lit_digits false _ _ D U).
  - assert (U' : ~ In c_us ds) by (intros Hc; apply U; right; exact Hc).
    change (strip_sign (c_minus :: ds)) with (true, ds).
    apply (int_lit_digits true _ _ D U').
Qed.

Lemma decimal_roundtrip z : bind (print_dec z) parse_dec = Some z.
Proof.
  destruct (print_Z_shape z) as [s [E H]]. unfold print_dec. rewrite E. simpl.
  unfold parse_dec. rewrite (int_lit_print _ _ H). reflexivity.
Qed.

(* ---------- odd part, sizes ---------- *)
Lemma odd_part_spec p : Z.pos p = Z.pos (fst (odd_part p)) * 2 ^ snd (odd_part p) /\ 0 <= snd (odd_part p)
  /\ Z.odd (Z.pos (fst (odd_part p))) = true.
Proof.
  induction p as [p IH|p IH|]; cbn [odd_part].
  - cbn [fst snd]. rewrite Z.pow_0_r, Z.mul_1_r. split; [reflexivity|split; [lia|reflexivity]].
  - destruct (odd_part p) as [m k]. cbn [fst snd] in *. destruct IH as [E [K O]].
    split; [|split; [lia|exact O]].
    rewrite Z.pow_add_r by lia. change (2 ^ 1) with 2. rewrite Pos2Z.inj_xO, E. ring.
  - cbn [fst snd]. split; [reflexivity|split; [lia|reflexivity]].
Qed.

Lemma to_pos_double x : 0 < x -> Z.to_pos (2 * x) = xO (Z.to_pos x).
Proof. destruct x; simpl; intros H; try lia; reflexivity. Qed.

Lemma odd_part_unique m k : Z.odd (Z.pos m) = true -> 0 <= k -> odd_part (Z.to_pos (Z.pos m * 2 ^ k)) = (m, k).
Proof.
  intros O Hk. revert k Hk. apply natlike_ind.
  - rewrite Z.mul_1_r. simpl. destruct m; simpl in *; try reflexivity; discriminate.
  - intros k Hk IH. rewrite Z.pow_succ_r by lia.
    replace (Z.pos m * (2 * 2 ^ k)) with (2 * (Z.pos m * 2 ^ k)) by ring.
    rewrite to_pos_double by (pose proof (Z.pow_pos_nonneg 2 k); lia).
    cbn [odd_part]. rewrite IH. reflexivity.
Qed.

Lemma size_mul_pow2 m k : 0 <= k -> Z.pos (Pos.size (Z.to_pos (Z.pos m * 2 ^ k))) = Z.pos (Pos.size m) + k.
Proof.
  intros Hk. apply size_unique.
  assert (P : 0 < 2 ^ k) by (apply Z.pow_pos_nonneg; lia).
  rewrite Z2Pos.id by lia.
  destruct (size_bounds m) as [B1 B2].
  replace (Z.pos (Pos.size m) + k - 1) with (Z.pos (Pos.size m) - 1 + k) by lia.
  rewrite !Z.pow_add_r by lia. split.
  - apply Z.mul_le_mono_nonneg_r; lia.
  - apply Z.mul_lt_mono_pos_r; lia.
Qed.

(* ---------- 512-bit rounding: the bound that keeps a fraction component exact ---------- *)
Lemma round_pos_small q s : Z.pos (Pos.size q) <= prec -> round_pos q s = (q, 0).
Proof. intros H. unfold round_pos. destruct (Z.leb_spec (Z.pos (Pos.size q)) prec); [reflexivity|lia]. Qed.

(* coqchk has no VM: a lia/nia certificate that contains the folded literal 2^4095 (1233 digits) costs minutes there.
   The three big powers are therefore named; lia/nia see the names as atoms and the few facts needed about them
   are proved with Z.pow lemmas. *)
Definition T95 : Z := 2 ^ 4095.
Definition T94 : Z := 2 ^ 4094.
Definition T82 : Z := 2 ^ 3582.
Lemma comp_limit_T : comp_limit = T95 - T82.
Proof. reflexivity. Qed.
Lemma T82_pos : 0 < T82.
Proof. unfold T82. apply Z.pow_pos_nonneg; lia. Qed.
Lemma T82_ge2 : 2 <= T82.
Proof. unfold T82. change 2 with (2 ^ 1) at 1. apply Z.pow_le_mono_r; lia. Qed.
Lemma T95_T94 : T95 = 2 * T94.
Proof. unfold T95, T94. rewrite <- Z.pow_succ_r by lia. reflexivity. Qed.
Lemma T95_T82 : 2 * T82 <= T95.
Proof. unfold T95, T82. rewrite <- Z.pow_succ_r by lia. apply Z.pow_le_mono_r; lia. Qed.
Lemma pow_le_T94 L : L <= 4094 -> 2 ^ L <= T94.
Proof. intros H. unfold T94. apply Z.pow_le_mono_r; lia. Qed.
Lemma comp_limit_ltT : comp_limit < T95.
Proof. rewrite comp_limit_T. pose proof T82_pos. lia. Qed.
Lemma size_le_T95 p : Z.pos p < T95 -> Z.pos (Pos.size p) <= 4095.
Proof. intros H. apply size_le_of_lt; [lia|exact H]. Qed.

Lemma comp_limit_lt : comp_limit < 2 ^ 4095.
Proof. exact comp_limit_ltT. Qed.

Lemma round_pos_boundT q : Z.pos q < comp_limit ->
  0 <= snd (round_pos q false) /\ Z.pos (fst (round_pos q false)) * 2 ^ snd (round_pos q false) < T95.
Proof.
  intros Hq. pose proof comp_limit_ltT as CL. unfold round_pos.
  destruct (Z.leb_spec (Z.pos (Pos.size q)) prec) as [Hs|Hs]; cbn [fst snd].
  - rewrite Z.mul_1_r. lia.
  - set (L := Z.pos (Pos.size q)) in *.
    assert (HL : L <= 4095) by (apply size_le_T95; lia).
    destruct (size_bounds q) as [B1 B2]. fold L in B1, B2.
    set (drop := L - prec). assert (Hd : 0 < drop) by (unfold drop; lia).
    set (D := 2 ^ drop). assert (PD : 0 < D) by (apply Z.pow_pos_nonneg; lia).
    set (A := 2 ^ prec). assert (PA : 0 < A) by (apply Z.pow_pos_nonneg; unfold prec; lia).
    assert (EL : 2 ^ L = A * D) by (unfold A, D; rewrite <- Z.pow_add_r by (unfold prec in *; lia); f_equal; unfold drop; lia).
    assert (EH : D = 2 * 2 ^ (drop - 1)).
    { unfold D. rewrite <- Z.pow_succ_r by lia. f_equal. lia. }
    set (half := 2 ^ (drop - 1)) in *.
    pose proof (Z.div_mod (Z.pos q) D ltac:(lia)) as DM.
    pose proof (Z.mod_pos_bound (Z.pos q) D PD) as MB.
    set (hi := Z.pos q / D) in *. set (low := Z.pos q mod D) in *.
    assert (Hhi : hi < A) by nia.
    assert (Hhi0 : 0 < hi).
    { assert (2 ^ (L - 1) = 2 ^ (prec - 1) * D).
      { unfold D. rewrite <- Z.pow_add_r by (unfold prec in *; lia). f_equal. unfold drop. lia. }
      assert (0 < 2 ^ (prec - 1)) by (apply Z.pow_pos_nonneg; unfold prec; lia). nia. }
    split; [lia|].
    destruct ((low >? half) || (low =? half) && (false || Z.odd hi)) eqn:Up.
    + (* rounded up *)
      rewrite Z2Pos.id by lia.
      assert (Hlow : half <= low).
      { apply orb_true_iff in Up. destruct Up as [U|U].
        - apply Z.gtb_lt in U. lia.
        - apply andb_true_iff in U. destruct U as [U _]. apply Z.eqb_eq in U. lia. }
      destruct (Z.eq_dec L 4095) as [E95|N95].
      * assert (E1 : T95 = A * D) by (rewrite <- EL, E95; reflexivity).
        assert (E2 : T82 = half) by (unfold half, drop; rewrite E95; reflexivity).
        rewrite comp_limit_T in Hq. rewrite E1, E2 in Hq. rewrite E1. nia.
      * pose proof (pow_le_T94 L ltac:(lia)). pose proof T95_T94.
        nia.
    + rewrite Z2Pos.id by lia. nia.
Qed.

Lemma round_pos_bound q : Z.pos q < comp_limit ->
  0 <= snd (round_pos q false) /\ Z.pos (fst (round_pos q false)) * 2 ^ snd (round_pos q false) < 2 ^ 4095.
Proof. exact (round_pos_boundT q). Qed.

(* ---------- float literals ---------- *)
Lemma ltb_false a b : b <= a -> (a <? b) = false.
Proof. intros. apply Z.ltb_ge. assumption. Qed.
Lemma ltb_true a b : a < b -> (a <? b) = true.
Proof. intros. apply Z.ltb_lt. assumption. Qed.
Lemma leb_true a b : a <= b -> (a <=? b) = true.
Proof. intros. apply Z.leb_le. assumption. Qed.
Lemma gtb_false a b : a <= b -> (a >? b) = false.
Proof. intros. rewrite Z.gtb_ltb. apply Z.ltb_ge. assumption. Qed.

Lemma size_pos p : 1 <= Z.pos (Pos.size p).
Proof. lia. Qed.

(* the exponent seen by fin_float is the bit length of the value *)
Lemma fin_float_ok neg m e :
  MinExp <= e + Z.pos (Pos.size m) <= MaxExp ->
  fin_float neg m e = QVal (FBig neg (fst (odd_part m)) (e + snd (odd_part m)))
  /\ Z.pos (Pos.size (fst (odd_part m))) + snd (odd_part m) = Z.pos (Pos.size m).
Proof.
  intros H. unfold fin_float. destruct (odd_part_spec m) as [E [K O]].
  destruct (odd_part m) as [mo k]. cbn [fst snd] in *.
  assert (S : Z.pos (Pos.size mo) + k = Z.pos (Pos.size m)).
  { rewrite <- (size_mul_pow2 mo k K). rewrite <- E. rewrite Pos2Z.id. reflexivity. }
  split; [|exact S].
  rewrite gtb_false by lia. rewrite ltb_false by lia. reflexivity.
Qed.

Lemma lit_core_int neg P : Z.pos P < comp_limit ->
  lit_core neg (N.pos P) 0 = QVal (FRat (sgn neg (Z.pos P)) 1).
Proof.
  intros H. pose proof comp_limit_ltT as CL. unfold lit_core.
  assert (S : Z.pos (Pos.size P) <= 4095) by (apply size_le_T95; lia).
  pose proof (size_pos P) as S1.
  rewrite ltb_false by (unfold MinExp; lia). rewrite gtb_false by (unfold MaxExp; lia). cbn [orb].
  destruct (round_pos_boundT P H) as [K B].
  destruct (round_pos P false) as [m k]. cbn [fst snd] in K, B.
  assert (Sm : Z.pos (Pos.size m) + k <= 4095).
  { rewrite <- size_mul_pow2 by lia. apply size_le_T95.
    rewrite Z2Pos.id by (assert (0 < 2 ^ k) by (apply Z.pow_pos_nonneg; lia); nia). exact B. }
  pose proof (size_pos m) as Sm1.
  destruct (fin_float_ok neg m (k + 0)) as [F S2]; [unfold MinExp, MaxExp; lia|].
  rewrite F. 
  replace (k + 0 + snd (odd_part m) + Z.pos (Pos.size (fst (odd_part m)))) with (k + Z.pos (Pos.size m)) by lia.
  rewrite !ltb_true by (unfold maxExp; lia). rewrite !leb_true by lia. cbn [andb].
  destruct (odd_part_spec P) as [E [K2 _]]. destruct (odd_part P) as [po tz]. cbn [fst snd] in *.
  rewrite leb_true by lia. rewrite Z.add_0_r, <- E. reflexivity.
Qed.

Lemma float_lit_dec z s : dec_shape z s -> Z.abs z < comp_limit -> float_lit s = QVal (FRat z 1).
Proof.
  intros H L. unfold float_lit.
  assert (NP : forall ds n, digits_of 10 n ds -> strip_prefix [c_0; c_x; c_dot] ds = None).
  { intros ds n D. pose proof (digits_decchar _ _ D) as F.
    destruct ds as [|a [|b r]]; cbn [strip_prefix]; [reflexivity|destruct (N.eqb c_0 a); reflexivity|].
    destruct (N.eqb c_0 a); [|reflexivity].
    inversion F as [|? ? _ F2]. inversion F2 as [|? ? Hb _]. unfold decchar in Hb.
    rewrite N_eqb_false by (unfold c_x; lia). reflexivity. }
  destruct H as [|p ds D|p ds D].
  - reflexivity.
  - rewrite (strip_sign_digits _ _ D). cbv beta iota zeta.
    rewrite (NP _ _ D), (parse_digits_of _ _ _ D).
    apply (lit_core_int false). exact L.
  - change (strip_sign (c_minus :: ds)) with (true, ds). cbv beta iota zeta.
    rewrite (NP _ _ D), (parse_digits_of _ _ _ D). apply (lit_core_int true). exact L.
Qed.

Lemma small_int_of_comp z : Z.abs z < comp_limit -> small_int z = true.
Proof.
  intros H. unfold small_int, maxExp. apply Z.ltb_lt.
  destruct (Z.eq_dec (Z.abs z) 0) as [E|E]; [rewrite E; simpl; lia|].
  assert (Z.log2 (Z.abs z) < 4095) by (apply Z.log2_lt_pow2; [lia|exact (Z.lt_trans _ _ _ H comp_limit_lt)]). lia.
Qed.

Lemma make_rat_id n d : Z.gcd n (Z.pos d) = 1 -> Z.abs n < comp_limit -> Z.pos d < comp_limit ->
  make_rat n d = QVal (FRat n d).
Proof.
  intros G Hn Hd. unfold make_rat. rewrite G, !Z.div_1_r, Pos2Z.id.
  rewrite (small_int_of_comp n Hn), (small_int_of_comp (Z.pos d)) by (simpl; exact Hd). reflexivity.
Qed.

Lemma unmarshal_float_rat n d s : print_rat n d = Some s ->
  Z.gcd n (Z.pos d) = 1 -> Z.abs n < comp_limit -> Z.pos d < comp_limit ->
  unmarshal_float s = QVal (FRat n d) /\ Forall (fun c => c = c_slash \/ decsigned c) s.
Proof.
  intros P G Hn Hd. unfold print_rat in P.
  destruct (print_Z_shape n) as [a [Ea Ha]].
  assert (Fa : Forall decsigned a) by (apply (dec_shape_chars _ _ Ha)).
  assert (Na : ~ In c_slash a) by (apply (notin_dec _ _ Fa); unfold c_slash, c_minus, decchar; lia).
  assert (D1 : d = 1%positive \/ d <> 1%positive) by (destruct (Pos.eq_dec d 1); auto).
  destruct D1 as [-> | D1].
  - rewrite Ea in P. injection P as <-. split.
    + unfold unmarshal_float. rewrite (split_byte_notin _ _ Na). apply (float_lit_dec _ _ Ha Hn).
    + eapply Forall_impl; [|exact Fa]. auto.
  - assert (P' : bind (print_Z n) (fun a => bind (print_pos 10 d) (fun b => Some (a ++ c_slash :: b))) = Some s)
      by (destruct d; try exact P; congruence).
    rewrite Ea in P'. cbn [bind] in P'.
    destruct (print_pos_spec 10 d ltac:(lia)) as [b [Eb Db]]. rewrite Eb in P'. cbn [bind] in P'.
    injection P' as <-. split.
    + unfold unmarshal_float. rewrite (split_byte_first _ _ _ Na).
      rewrite (float_lit_dec _ _ Ha Hn).
      rewrite (float_lit_dec (Z.pos d) b (DSpos _ _ Db)) by (simpl; exact Hd).
      cbn [qquo fquo]. rewrite Z.mul_1_r, Pos.mul_1_l. apply make_rat_id; assumption.
    + apply Forall_app. split; [eapply Forall_impl; [|exact Fa]; auto|].
      constructor; [left; reflexivity|].
      eapply Forall_impl; [|apply (digits_decchar _ _ Db)]. intros c Hc. right. right. exact Hc.
Qed.

(* ---------- the hex-mantissa form ---------- *)
Lemma float_lit_hex (neg : bool) (rest : str) :
  float_lit ((if neg then [c_minus] else @nil N) ++ c_0 :: c_x :: c_dot :: rest) =
  match split_byte c_p rest with
  | Some (hs, es) =>
      let '(eneg, ds) := strip_sign es in
      match parse_digits 16 hs, parse_digits 10 ds with
      | Some M, Some ex =>
          let ex := sgn eneg (Z.of_N ex) in
          if in_int64 ex then lit_core neg M (ex - 4 * Z.of_nat (List.length hs)) else QUnknown
      | _, _ => QUnsupported
      end
  | None => QUnsupported
  end.
Proof. destruct neg; reflexivity. Qed.

Lemma exp_text ex x : dec_shape ex x ->
  exists eneg ds n, strip_sign ((if 0 <=? ex then [c_plus] else []) ++ x) = (eneg, ds)
    /\ parse_digits 10 ds = Some n /\ sgn eneg (Z.of_N n) = ex.
Proof.
  intros H. destruct H as [|p ds D|p ds D].
  - exists false, [c_0], 0%N. repeat split; reflexivity.
  - exists false, ds, (N.pos p). split; [reflexivity|]. split; [apply (parse_digits_of _ _ _ D)|reflexivity].
  - exists true, ds, (N.pos p). split; [reflexivity|]. split; [apply (parse_digits_of _ _ _ D)|reflexivity].
Qed.

Lemma hex_len P h : digits_of 16 (N.pos P) h -> Z.pos (Pos.size P) mod 4 = 0 ->
  4 * Z.of_nat (length h) = Z.pos (Pos.size P).
Proof.
  intros [_ _ [d0 [rest [E _]]] Dl] M.
  assert (L1 : (1 <= length h)%nat) by (rewrite E; simpl; lia).
  set (l := N.of_nat (length h)) in *.
  assert (Hl : Z.of_N l = Z.of_nat (length h)) by (unfold l; lia).
  destruct Dl as [D1 D2].
  apply N2Z.inj_le in D1. apply N2Z.inj_lt in D2. rewrite N2Z.inj_pow in D1, D2.
  rewrite N2Z.inj_sub in D1 by (unfold l; lia). rewrite Hl in D1, D2. simpl Z.of_N in D1, D2.
  change 16 with (2 ^ 4) in D1, D2. rewrite <- !Z.pow_mul_r in D1, D2 by lia.
  destruct (size_bounds P) as [B1 B2].
  assert (Z.pos (Pos.size P) - 1 < 4 * Z.of_nat (length h)) by (apply (Z.pow_lt_mono_r_iff 2); lia).
  assert (4 * (Z.of_nat (length h) - 1) < Z.pos (Pos.size P)) by (apply (Z.pow_lt_mono_r_iff 2); lia).
  pose proof (Z.div_mod (Z.pos (Pos.size P)) 4 ltac:(lia)). lia.
Qed.

Definition big_small (m : positive) (e : Z) : bool :=
  let ex := e + Z.pos (Pos.size m) in
  let sh := e - hex_shift m in
  (- maxExp <? ex) && (ex <? maxExp) && (-10000000 <=? sh) && (sh <=? 10000000).

(* what Unmarshal returns for the text of a floatVal: the same floatVal, or (small exponent) the equal fraction *)
Definition big_result (neg : bool) (m : positive) (e : Z) : fval :=
  if big_small m e
  then (if 0 <=? e then FRat (sgn neg (Z.pos m * 2 ^ e)) 1 else FRat (sgn neg (Z.pos m)) (Z.to_pos (2 ^ (- e))))
  else FBig neg m e.

Lemma big_result_den neg m e : fden (big_result neg m e) = fden (FBig neg m e).
Proof. unfold big_result, fden. destruct (big_small m e); [|reflexivity]. destruct (0 <=? e); reflexivity. Qed.

Definition plainchar (c : N) : Prop := c <> c_colon /\ c <> c_slash.

Lemma hexchar_plain c : hexchar c -> plainchar c.
Proof. unfold hexchar, plainchar, c_colon, c_slash. lia. Qed.
Lemma decsigned_plain c : decsigned c -> plainchar c.
Proof. unfold decsigned, decchar, plainchar, c_colon, c_slash, c_minus. lia. Qed.

Lemma unmarshal_float_big neg m e s : print_big neg m e = Some s ->
  wf_fval (FBig neg m e) = true ->
  unmarshal_float s = QVal (big_result neg m e) /\ Forall plainchar s.
Proof.
  intros P W. cbn [wf_fval] in W.
  apply andb_true_iff in W. destruct W as [W W4]. apply andb_true_iff in W. destruct W as [W W3].
  apply andb_true_iff in W. destruct W as [W1 W2].
  apply Z.leb_le in W2, W3, W4.
  unfold print_big in P.
  set (k := hex_shift m) in *. set (ex := e + Z.pos (Pos.size m)) in *.
  assert (Hk : 0 <= k < 4) by (unfold k, hex_shift; apply Z.mod_pos_bound; lia).
  set (PP := Z.to_pos (Z.pos m * 2 ^ k)) in *.
  assert (SP : Z.pos (Pos.size PP) = Z.pos (Pos.size m) + k) by (apply size_mul_pow2; lia).
  assert (SM : Z.pos (Pos.size PP) mod 4 = 0).
  { rewrite SP. unfold k, hex_shift.
    pose proof (Z.div_mod (- Z.pos (Pos.size m)) 4 ltac:(lia)) as DM.
    replace (Z.pos (Pos.size m) + - Z.pos (Pos.size m) mod 4) with ((- (- Z.pos (Pos.size m) / 4)) * 4) by lia.
    apply Z.mod_mul. lia. }
  assert (S512 : Z.pos (Pos.size PP) <= prec).
  { unfold prec in *. pose proof (Z.div_mod (Z.pos (Pos.size PP)) 4 ltac:(lia)). lia. }
  destruct (print_pos_spec 16 PP ltac:(lia)) as [h [Eh Dh]]. rewrite Eh in P. cbn [bind] in P.
  destruct (print_Z_shape ex) as [x [Ex Hx]]. rewrite Ex in P. cbn [bind] in P.
  injection P as <-.
  pose proof (digits_hexchar 16 _ _ ltac:(lia) Dh) as Fh.
  pose proof (dec_shape_chars _ _ Hx) as Fx.
  assert (PL : Forall plainchar ((if neg then [c_minus] else []) ++
                 [c_0; c_x; c_dot] ++ h ++ c_p :: (if 0 <=? ex then [c_plus] else []) ++ x)).
  { apply Forall_app. split.
    { destruct neg; [constructor; [unfold plainchar, c_minus, c_colon, c_slash; lia|constructor]|constructor]. }
    repeat (constructor; [unfold plainchar, c_0, c_x, c_dot, c_colon, c_slash; lia|]).
    apply Forall_app. split; [eapply Forall_impl; [|exact Fh]; apply hexchar_plain|].
    constructor; [unfold plainchar, c_p, c_colon, c_slash; lia|].
    apply Forall_app. split.
    { destruct (0 <=? ex); [constructor; [unfold plainchar, c_plus, c_colon, c_slash; lia|constructor]|constructor]. }
    eapply Forall_impl; [|exact Fx]. apply decsigned_plain. }
  split; [|exact PL].
  unfold unmarshal_float. rewrite split_byte_notin.
  2:{ intros Hin. rewrite Forall_forall in PL. destruct (PL _ Hin) as [_ Hs]. apply Hs. reflexivity. }
  rewrite float_lit_hex.
  rewrite split_byte_first by (apply (notin_hex _ _ Fh); unfold hexchar, c_p; lia).
  destruct (exp_text ex x Hx) as [eneg [ds [n [E1 [E2 E3]]]]].
  rewrite E1. cbv beta iota zeta. rewrite (parse_digits_of _ _ _ Dh), E2. rewrite E3.
  assert (I64 : in_int64 ex = true).
  { unfold in_int64, MinExp, MaxExp in *. apply andb_true_iff. split; apply Z.leb_le; lia. }
  rewrite I64. rewrite (hex_len _ _ Dh SM).
  (* lit_core on the exact mantissa *)
  unfold lit_core.
  replace (Z.pos (Pos.size PP) + (ex - Z.pos (Pos.size PP))) with ex by lia.
  rewrite ltb_false by lia. rewrite gtb_false by lia. cbn [orb].
  rewrite (round_pos_small PP false S512).
  assert (OP : odd_part PP = (m, k)) by (apply odd_part_unique; [exact W1|lia]).
  destruct (fin_float_ok neg PP (0 + (ex - Z.pos (Pos.size PP)))) as [F _]; [lia|].
  rewrite F, OP. cbn [fst snd].
  replace (0 + (ex - Z.pos (Pos.size PP)) + k) with e by (unfold ex; lia).
  replace (k + (ex - Z.pos (Pos.size PP))) with e by (unfold ex; lia).
  fold ex. unfold big_result, big_small. fold ex. fold k.
  replace (ex - Z.pos (Pos.size PP)) with (e - k) by (unfold ex; lia).
  destruct ((- maxExp <? ex) && (ex <? maxExp) && (-10000000 <=? e - k) && (e - k <=? 10000000)); [|reflexivity].
  destruct (0 <=? e); reflexivity.
Qed.

(* ---------- exact denotation and the round trip ---------- *)
Inductive dval :=
| DNil | DUnknown | DBool (b : bool) | DInt (z : Z)
| DFloat (q : Z * positive) | DComplex (re im : Z * positive) | DString (s : str).

Definition vden (v : value) : dval :=
  match v with
  | VNil => DNil | VUnknown => DUnknown | VBool b => DBool b | VInt z => DInt z
  | VFloat f => DFloat (fden f) | VComplex re im => DComplex (fden re) (fden im) | VString s => DString s
  end.

(* "exactly the same value": equal denotations (for every kind but Float/Complex this is syntactic equality) *)
Definition same_value (a b : value) : Prop := vden a = vden b.
Definition wf (k : kind) (v : value) : Prop := wfb k v = true.

Definition nocolon (c : N) : Prop := c <> c_colon.

Lemma comp_limit_pos : 1 < comp_limit.
Proof.
  rewrite comp_limit_T. pose proof T95_T82. pose proof T82_ge2. lia.
Qed.

(* result of unmarshalFloat on the text of a well-formed Float representation *)
Definition float_result (f : fval) : fval :=
  match f with
  | FRat _ _ => f
  | FBig neg m e => big_result neg m e
  | FBig0 => FRat 0 1
  end.

Lemma float_result_den f : fden (float_result f) = fden f.
Proof. destruct f; [reflexivity|apply big_result_den|reflexivity]. Qed.

Lemma small_comp_spec z : small_comp z = true -> Z.abs z < comp_limit.
Proof. unfold small_comp. intros H. apply Z.ltb_lt. exact H. Qed.

Lemma wf_rat n d : wf_fval (FRat n d) = true ->
  Z.gcd n (Z.pos d) = 1 /\ Z.abs n < comp_limit /\ Z.pos d < comp_limit.
Proof.
  intros W. cbn [wf_fval] in W.
  destruct (andb_prop _ _ W) as [W12 W3]. destruct (andb_prop _ _ W12) as [W1 W2].
  split; [apply Z.eqb_eq; exact W1|]. split; [apply small_comp_spec; exact W2|].
  pose proof (small_comp_spec _ W3) as H3. rewrite Z.abs_eq in H3 by lia. exact H3.
Qed.

Lemma unmarshal_fval f : wf_fval f = true ->
  exists s, print_fval f = Some s /\ unmarshal_float s = QVal (float_result f) /\ Forall nocolon s.
Proof.
  intros W. destruct f as [n d|neg m e|].
  - destruct (wf_rat _ _ W) as [G [Hn Hd]].
    assert (exists s, print_rat n d = Some s) as [s Es].
    { unfold print_rat. destruct (print_Z_shape n) as [a [Ea _]].
      destruct (print_pos_spec 10 d ltac:(lia)) as [b [Eb _]].
      destruct d; rewrite Ea; cbn [bind]; try rewrite Eb; cbn [bind]; eauto. }
    exists s. split; [exact Es|].
    destruct (unmarshal_float_rat n d s Es G Hn Hd) as [U F]. split; [exact U|].
    eapply Forall_impl; [|exact F]. intros c [->|[->|Hc]]; unfold nocolon, c_colon, c_slash, c_minus, decchar in *; lia.
  - assert (exists s, print_big neg m e = Some s) as [s Es].
    { unfold print_big.
      destruct (print_pos_spec 16 (Z.to_pos (Z.pos m * 2 ^ hex_shift m)) ltac:(lia)) as [h [Eh _]].
      destruct (print_Z_shape (e + Z.pos (Pos.size m))) as [x [Ex _]].
      rewrite Eh, Ex. cbn [bind]. eauto. }
    exists s. split; [exact Es|].
    destruct (unmarshal_float_big neg m e s Es W) as [U F]. split; [exact U|].
    eapply Forall_impl; [|exact F]. intros c [H _]. exact H.
  - exists [c_0]. split; [reflexivity|]. split; [reflexivity|].
    constructor; [unfold nocolon, c_0, c_colon; lia|constructor].
Qed.

Lemma nocolon_notin s : Forall nocolon s -> ~ In c_colon s.
Proof. intros F Hin. rewrite Forall_forall in F. apply (F _ Hin). reflexivity. Qed.

(* all kinds except Complex *)
Lemma roundtrip k v : k <> KComplex -> wf k v ->
  exists s v', marshal k v = Some s /\ unmarshal s = UOk k v' /\ same_value v v'.
Proof.
  intros NC W. unfold wf in W.
  destruct k; try congruence; destruct v; cbn [wfb] in W; try discriminate W.
  - exists p_nil, VNil. repeat split; reflexivity.
  - exists (p_bool ++ c_colon :: (if b then p_true else p_false)), (VBool b).
    split; [reflexivity|]. split; [destruct b; reflexivity|reflexivity].
  - destruct (print_Z_shape z) as [s [Es Hs]]. exists (p_int ++ c_colon :: s), (VInt z).
    split; [cbn [marshal]; rewrite Es; reflexivity|]. split; [|reflexivity].
    change (unmarshal (p_int ++ c_colon :: s)) with (of_i KInt (int_lit s)).
    rewrite (int_lit_print _ _ Hs). reflexivity.
  - destruct (print_Z_shape z) as [s [Es Hs]]. exists (p_rune ++ c_colon :: s), (VInt z).
    split; [cbn [marshal]; rewrite Es; reflexivity|]. split; [|reflexivity].
    change (unmarshal (p_rune ++ c_colon :: s)) with (of_i KRune (int_lit s)).
    rewrite (int_lit_print _ _ Hs). reflexivity.
  - destruct (unmarshal_fval f W) as [s [Es [U _]]].
    exists (p_float ++ c_colon :: s), (VFloat (float_result f)).
    split; [cbn [marshal]; rewrite Es; reflexivity|]. split.
    + change (unmarshal (p_float ++ c_colon :: s)) with (of_q KFloat (unmarshal_float s)).
      rewrite U. reflexivity.
    + unfold same_value. cbn [vden]. rewrite float_result_den. reflexivity.
  - exists (p_string ++ c_colon :: s), (VString s). repeat split; reflexivity.
Qed.

(* Complex: every well-formed pair except a floatVal part whose exponent lies in go/constant's "small" window
   (Unmarshal turns that part into a fraction and then adds int64Val(0) through makeRat, which may round it back to a
   floatVal: value preserved on the real code and in the correspondence run, not proved here) *)
Definition cpart_ok (f : fval) : bool :=
  match f with FBig _ m e => negb (big_small m e) | _ => true end.

Lemma fadd0_result f : wf_fval f = true -> cpart_ok f = true -> fadd0 (float_result f) = QVal (float_result f).
Proof.
  intros W C. destruct f as [n d|neg m e|]; cbn [float_result].
  - destruct (wf_rat _ _ W) as [G [Hn Hd]]. cbn [fadd0]. apply make_rat_id; assumption.
  - cbn [cpart_ok] in C. unfold big_result. destruct (big_small m e); [discriminate|reflexivity].
  - cbn [fadd0]. apply make_rat_id; [reflexivity| |]; pose proof comp_limit_pos; try change (Z.abs 0) with 0; lia.
Qed.

Lemma roundtrip_complex re im : wf KComplex (VComplex re im) -> cpart_ok re = true -> cpart_ok im = true ->
  exists s v', marshal KComplex (VComplex re im) = Some s /\ unmarshal s = UOk KComplex v'
    /\ same_value (VComplex re im) v'.
Proof.
  unfold wf. cbn [wfb]. intros W C1 C2. apply andb_true_iff in W. destruct W as [W1 W2].
  destruct (unmarshal_fval re W1) as [a [Ea [Ua Fa]]].
  destruct (unmarshal_fval im W2) as [b [Eb [Ub Fb]]].
  exists (p_complex ++ c_colon :: a ++ c_colon :: b), (VComplex (float_result re) (float_result im)).
  split; [cbn [marshal]; rewrite Ea, Eb; reflexivity|]. split.
  - change (unmarshal (p_complex ++ c_colon :: a ++ c_colon :: b)) with (unmarshal_complex (a ++ c_colon :: b)).
    unfold unmarshal_complex. rewrite (split_byte_first _ _ _ (nocolon_notin _ Fa)).
    rewrite Ua, Ub, (fadd0_result re W1 C1), (fadd0_result im W2 C2). reflexivity.
  - unfold same_value. cbn [vden]. rewrite !float_result_den. reflexivity.
Qed.

(* for the kinds without alternative representations the value comes back syntactically equal *)
Lemma roundtrip_exact k v : k <> KComplex -> k <> KFloat -> wf k v ->
  exists s, marshal k v = Some s /\ unmarshal s = UOk k v.
Proof.
  intros NC NF W. destruct (roundtrip k v NC W) as [s [v' [M [U S]]]]. exists s. split; [exact M|].
  rewrite U. f_equal. unfold same_value in S. unfold wf in W.
  destruct k; try congruence; destruct v; cbn [wfb] in W; try discriminate W;
    destruct v'; cbn [vden] in S; try discriminate S; congruence.
Qed.

Definition covered (k : kind) (v : value) : Prop :=
  wf k v /\ match v with VComplex re im => cpart_ok re = true /\ cpart_ok im = true | _ => True end.

Lemma roundtrip_all k v : covered k v ->
  exists s v', marshal k v = Some s /\ unmarshal s = UOk k v' /\ same_value v v'.
Proof.
  intros [W C]. destruct (kind_eqb k KComplex) eqn:E.
  - destruct k; try discriminate E. unfold wf in W. destruct v; cbn [wfb] in W; try discriminate W.
    destruct C. apply roundtrip_complex; assumption.
  - apply roundtrip; [|exact W]. intros ->. discriminate E.
Qed.

Lemma marshal_injective k1 v1 k2 v2 s : covered k1 v1 -> covered k2 v2 ->
  marshal k1 v1 = Some s -> marshal k2 v2 = Some s -> k1 = k2 /\ same_value v1 v2.
Proof.
  intros C1 C2 M1 M2.
  destruct (roundtrip_all _ _ C1) as [s1 [w1 [E1 [U1 S1]]]].
  destruct (roundtrip_all _ _ C2) as [s2 [w2 [E2 [U2 S2]]]].
  rewrite M1 in E1. rewrite M2 in E2. injection E1 as <-. injection E2 as <-.
  rewrite U1 in U2. injection U2 as -> ->. split; [reflexivity|].
  unfold same_value in *. congruence.
Qed.

(* strings: any bytes, only the first ':' separates *)
Lemma string_with_colons s : unmarshal (p_string ++ c_colon :: s) = UOk KString (VString s)
  /\ marshal KString (VString s) = Some (p_string ++ c_colon :: s).
Proof. split; reflexivity. Qed.

(* ---------- the refutation beyond comp_limit ---------- *)
(* The witness is 1/10^1233.  Its Marshal text (1233 decimal digits) is never computed: the text is the one given by
   print_pos_spec, the parser's reading of it is given by digits_of, and only the few big-number operations of
   MakeFromLiteral/BinaryOp (one 512-bit rounding, one division) are evaluated.  (Computing the text needs ~2500 long
   divisions by 10 of a 4096-bit number: minutes in coqc, the better part of an hour in coqchk, which has no VM.) *)
Definition big_den : positive := Eval vm_compute in Z.to_pos (10 ^ 1233).

Lemma big_den_val : Z.pos big_den = 10 ^ 1233.
Proof. vm_compute. reflexivity. Qed.

Lemma float_lit_digits p ds : digits_of 10 (N.pos p) ds -> float_lit ds = lit_core false (N.pos p) 0.
Proof.
  intros D. unfold float_lit. rewrite (strip_sign_digits _ _ D). cbv beta iota zeta.
  assert (NP : strip_prefix [c_0; c_x; c_dot] ds = None).
  { pose proof (digits_decchar _ _ D) as F.
    destruct ds as [|a [|b r]]; cbn [strip_prefix]; [reflexivity|destruct (N.eqb c_0 a); reflexivity|].
    destruct (N.eqb c_0 a); [|reflexivity].
    inversion F as [|? ? _ F2]. inversion F2 as [|? ? Hb _]. unfold decchar in Hb.
    rewrite N_eqb_false by (unfold c_x; lia). reflexivity. }
  rewrite NP, (parse_digits_of _ _ _ D). reflexivity.
Qed.

(* unmarshalFloat on the text of ANY fraction n/d (d > 1, numerator below the limit): the denominator goes through
   MakeFromLiteral's 512-bit rounding (lit_core) whatever its size *)
Lemma unmarshal_float_rat_any n d s : print_rat n d = Some s -> d <> 1%positive -> Z.abs n < comp_limit ->
  unmarshal_float s = qquo (QVal (FRat n 1)) (lit_core false (N.pos d) 0).
Proof.
  intros P D1 Hn. unfold print_rat in P.
  destruct (print_Z_shape n) as [a [Ea Ha]].
  assert (Fa : Forall decsigned a) by (apply (dec_shape_chars _ _ Ha)).
  assert (Na : ~ In c_slash a) by (apply (notin_dec _ _ Fa); unfold c_slash, c_minus, decchar; lia).
  assert (P' : bind (print_Z n) (fun a => bind (print_pos 10 d) (fun b => Some (a ++ c_slash :: b))) = Some s)
    by (destruct d; try exact P; congruence).
  rewrite Ea in P'. cbn [bind] in P'.
  destruct (print_pos_spec 10 d ltac:(lia)) as [b [Eb Db]]. rewrite Eb in P'. cbn [bind] in P'.
  injection P' as <-.
  unfold unmarshal_float. rewrite (split_byte_first _ _ _ Na).
  rewrite (float_lit_dec _ _ Ha Hn). rewrite (float_lit_digits _ _ Db). reflexivity.
Qed.

Definition big_q : qres := Eval vm_compute in qquo (QVal (FRat 1 1)) (lit_core false (N.pos big_den) 0).
Definition big_back : value := match big_q with QVal f => VFloat f | _ => VNil end.

Definition dfloat_eqb (a b : dval) : bool :=
  match a, b with
  | DFloat (n, d), DFloat (n', d') => (n =? n') && Pos.eqb d d'
  | _, _ => false
  end.

Lemma refuted_bigrat : exists n d s v',
  Z.gcd n (Z.pos d) = 1 /\ marshal KFloat (VFloat (FRat n d)) = Some s /\ unmarshal s = UOk KFloat v'
  /\ ~ same_value (VFloat (FRat n d)) v'.
Proof.
  assert (exists s, print_rat 1 big_den = Some s) as [s Es].
  { unfold print_rat. destruct (print_Z_shape 1) as [a [Ea _]].
    destruct (print_pos_spec 10 big_den ltac:(lia)) as [b [Eb _]].
    destruct big_den; rewrite Ea; cbn [bind]; try rewrite Eb; cbn [bind]; eauto. }
  exists 1, big_den, (p_float ++ c_colon :: s), big_back.
  split; [apply Z.gcd_1_l|].
  split; [cbn [marshal print_fval]; rewrite Es; reflexivity|].
  split.
  - change (unmarshal (p_float ++ c_colon :: s)) with (of_q KFloat (unmarshal_float s)).
    rewrite (unmarshal_float_rat_any 1 big_den s Es); [|discriminate|simpl; exact comp_limit_pos].
    vm_compute. reflexivity.
  - unfold same_value. intros H.
    assert (B : dfloat_eqb (vden (VFloat (FRat 1 big_den))) (vden big_back) = false) by (vm_compute; reflexivity).
    rewrite <- H in B. cbn [vden fden dfloat_eqb] in B.
    rewrite Z.eqb_refl, Pos.eqb_refl in B. discriminate B.
Qed.

(* C32 — property theorems only: each closed by [exact lemma], followed by Print Assumptions.
   Model: C32/Model.v (Marshal / Unmarshal / unmarshalFloat of base/untyped/val.go with the go/constant and math/big
   routines they call).  wf = Model.wfb: kind and value fit; ratVal in lowest terms with |num|, den < 2^4095 - 2^3582
   (the exact bound under which go/constant re-reads a component as an exact fraction); floatVal with an odd mantissa
   of at most 512 bits and an int32 exponent.  same_value = equality of the exact denotations (Float: the fraction in
   lowest terms), because Unmarshal may return the other go/constant representation of the same number. *)
From Coq Require Import List NArith ZArith Bool String.
From Verif Require Import Common.GoStr C32.Model C32.Proof.
Import ListNotations.
Open Scope string_scope.
Open Scope list_scope.
Open Scope Z_scope.

(* decimal printing (strconv / big.Int.String, modelled by digit recursion) and MakeFromLiteral(INT) are inverse, all Z *)
Theorem C32_decimal_roundtrip : forall z, bind (print_dec z) parse_dec = Some z.
Proof. exact decimal_roundtrip. Qed.
Print Assumptions C32_decimal_roundtrip.

(* full strength for the kinds nil, bool, int, rune, float (both representations), string *)
Theorem C32_roundtrip : forall k v, k <> KComplex -> wf k v ->
  exists s v', marshal k v = Some s /\ unmarshal s = UOk k v' /\ same_value v v'.
Proof. exact roundtrip. Qed.
Print Assumptions C32_roundtrip.

(* nil, bool, int, rune, string: the value comes back syntactically identical *)
Theorem C32_roundtrip_exact : forall k v, k <> KComplex -> k <> KFloat -> wf k v ->
  exists s, marshal k v = Some s /\ unmarshal s = UOk k v.
Proof. exact roundtrip_exact. Qed.
Print Assumptions C32_roundtrip_exact.

(* Complex.  Missing for full strength: a part that is a floatVal whose exponent lies in go/constant's "small" window
   (-4096, 4096): Unmarshal re-reads it as a fraction and BinaryOp(.., ADD, 0) sends a fraction with a denominator of
   4096+ bits through makeRat's rounding path (round_q); the value is preserved on the real code and in the
   correspondence run (edge values "complex floatVal0 parts", random floatVal-small parts) but exactness of round_q on
   dyadic inputs is not proved here. *)
Theorem C32_roundtrip_complex_partial : forall re im,
  wf KComplex (VComplex re im) -> cpart_ok re = true -> cpart_ok im = true ->
  exists s v', marshal KComplex (VComplex re im) = Some s /\ unmarshal s = UOk KComplex v'
    /\ same_value (VComplex re im) v'.
Proof. exact roundtrip_complex. Qed.
Print Assumptions C32_roundtrip_complex_partial.

(* corollary: two covered constants with the same text have the same kind and the same exact value *)
Theorem C32_marshal_injective : forall k1 v1 k2 v2 s, covered k1 v1 -> covered k2 v2 ->
  marshal k1 v1 = Some s -> marshal k2 v2 = Some s -> k1 = k2 /\ same_value v1 v2.
Proof. exact marshal_injective. Qed.
Print Assumptions C32_marshal_injective.

(* strings: arbitrary bytes, any number of ':' — only the first ':' of the text separates *)
Theorem C32_string_with_colons : forall s, unmarshal (p_string ++ c_colon :: s) = UOk KString (VString s)
  /\ marshal KString (VString s) = Some (p_string ++ c_colon :: s).
Proof. exact string_with_colons. Qed.
Print Assumptions C32_string_with_colons.

(* the bound of wf is sharp: 512-bit rounding keeps every component below comp_limit under 2^4095 *)
Theorem C32_component_bound : forall q, Z.pos q < comp_limit ->
  0 <= snd (round_pos q false) /\ Z.pos (fst (round_pos q false)) * 2 ^ snd (round_pos q false) < 2 ^ 4095.
Proof. exact round_pos_bound. Qed.
Print Assumptions C32_component_bound.

(* ... and beyond it the faithful model REFUTES the property (replayed on the real code: known finding C32-1,
   corpus/C32/findings.json): the Float constant 1e-1233 = 1/10^1233 comes back as a 512-bit rounded floatVal *)
Theorem C32_roundtrip_refuted_bigrat : exists n d s v',
  Z.gcd n (Z.pos d) = 1 /\ marshal KFloat (VFloat (FRat n d)) = Some s /\ unmarshal s = UOk KFloat v'
  /\ ~ same_value (VFloat (FRat n d)) v'.
Proof. exact refuted_bigrat. Qed.
Print Assumptions C32_roundtrip_refuted_bigrat.

(* ---------- non-vacuity: the hypotheses hold on non-trivial values, and what the codec does on them ---------- *)
Example ex_third : wf KFloat (VFloat (FRat 1 3)) /\ marshal KFloat (VFloat (FRat 1 3)) = Some (bytes "float:1/3")
  /\ unmarshal (bytes "float:1/3") = UOk KFloat (VFloat (FRat 1 3)).
Proof. vm_compute. repeat split. Qed.

Example ex_huge_int : wf KInt (VInt (10 ^ 40)) /\
  marshal KInt (VInt (10 ^ 40)) = Some (bytes "int:10000000000000000000000000000000000000000")
  /\ unmarshal (bytes "int:10000000000000000000000000000000000000000") = UOk KInt (VInt (10 ^ 40)).
Proof. vm_compute. repeat split. Qed.

(* "a:b:c" followed by the bytes 0xff 0x00 *)
Example ex_string : wf KString (VString [97; 58; 98; 58; 99; 255; 0]%N) /\
  unmarshal (bytes "string:" ++ [97; 58; 98; 58; 99; 255; 0]%N) = UOk KString (VString [97; 58; 98; 58; 99; 255; 0]%N).
Proof. vm_compute. repeat split. Qed.

(* negative zero: go/constant has none (MakeFloat64(-0.0) and -(0.0) are the fraction 0), the text is "float:0";
   the literal "-0" is read back as 0 as well *)
Example ex_negzero : marshal KFloat (VFloat (FRat 0 1)) = Some (bytes "float:0")
  /\ unmarshal (bytes "float:0") = UOk KFloat (VFloat (FRat 0 1))
  /\ unmarshal (bytes "float:-0") = UOk KFloat (VFloat (FRat 0 1)).
Proof. vm_compute. repeat split. Qed.

(* a floatVal (1 * 2^5000) and a covered complex pair *)
Example ex_big : wf KFloat (VFloat (FBig false 1 5000)) /\
  marshal KFloat (VFloat (FBig false 1 5000)) = Some (bytes "float:0x.8p+5001")
  /\ unmarshal (bytes "float:0x.8p+5001") = UOk KFloat (VFloat (FBig false 1 5000)).
Proof. vm_compute. repeat split. Qed.

Example ex_complex : covered KComplex (VComplex (FRat (-1) 3) (FBig true 5 (-6000))) /\
  marshal KComplex (VComplex (FRat (-1) 3) (FBig true 5 (-6000))) = Some (bytes "complex:-1/3:-0x.ap-5997").
Proof. vm_compute. repeat split. Qed.

(* a floatVal with a small exponent comes back as the equal fraction (the other representation) *)
Example ex_big_small : unmarshal (bytes "float:0x.cp+2") = UOk KFloat (VFloat (FRat 3 1))
  /\ marshal KFloat (VFloat (FBig false 3 0)) = Some (bytes "float:0x.cp+2").
Proof. vm_compute. repeat split. Qed.

(* division by zero in a hand-written text: Go panics *)
Example ex_div0 : unmarshal (bytes "float:1/0") = UPanic.
Proof. vm_compute. reflexivity. Qed.

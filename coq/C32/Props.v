From Coq Require Import List NArith ZArith Bool.
From Verif Require Import Common.GoStr C32.Model C32.Proof.

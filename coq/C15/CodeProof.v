(* C15 — lemmas about the code-buffer model (Code.v) *)
From Coq Require Import List ZArith Bool.
From Verif Require Import C15.Code.
Import ListNotations.
Open Scope Z_scope.

Lemma cDecl_fixed : forall i b d,
  cDecl cfixed i b d =
  if cd_ok d then ([], Some (repeat i (cd_hooks d))) else (repeat i (cd_hooks d), None).
Proof.
  intros i b d. unfold cDecl, startBuf. destruct (cd_path d); simpl; reflexivity.
Qed.

Lemma cDecls_fixed_snd : forall i ds b acc,
  snd (cDecls cfixed i b ds acc) =
  if forallb cd_ok ds then Some (acc ++ flat_map (fun d => repeat i (cd_hooks d)) ds) else None.
Proof.
  intros i ds. induction ds as [|d ds IH]; intros b acc.
  - simpl. rewrite app_nil_r. reflexivity.
  - cbn [cDecls forallb flat_map]. rewrite cDecl_fixed. destruct (cd_ok d); cbn [andb].
    + rewrite IH. destruct (forallb cd_ok ds); [rewrite app_assoc|]; reflexivity.
    + reflexivity.
Qed.

Lemma cEval_fixed : forall i s ds,
  ctrace (fst (cEval cfixed i s ds)) = ctrace s ++ ownCode i ds /\
  snd (cEval cfixed i s ds) = forallb cd_ok ds.
Proof.
  intros i s ds. unfold cEval, ownCode.
  pose proof (cDecls_fixed_snd i ds (cbuf s) []) as H.
  destruct (cDecls cfixed i (cbuf s) ds []) as [b o]. simpl in H. subst o.
  destruct (forallb cd_ok ds); simpl; [|rewrite app_nil_r]; auto.
Qed.

Lemma cRun_fixed : forall h i s, ctrace (cRun cfixed i s h) = ctrace s ++ specTrace i h.
Proof.
  induction h as [|ds h IH]; intros i s; simpl.
  - rewrite app_nil_r. reflexivity.
  - rewrite IH. destruct (cEval_fixed i s ds) as [H _]. rewrite H, app_assoc. reflexivity.
Qed.

(* every configuration: an input that fails to compile executes nothing *)
Lemma cEval_failed_runs_nothing : forall g i s ds,
  snd (cEval g i s ds) = false -> ctrace (fst (cEval g i s ds)) = ctrace s.
Proof.
  intros g i s ds. unfold cEval. destruct (cDecls g i (cbuf s) ds []) as [b [e|]]; simpl; [discriminate | reflexivity].
Qed.

(* fixed code: whatever a failed input left in the buffer is never executed *)
Lemma stale_buffer_never_runs : forall h i b t,
  ctrace (cRun cfixed i (mkCst b t) h) = t ++ specTrace i h.
Proof. intros. apply (cRun_fixed h i (mkCst b t)). Qed.

Definition stale_witness : list (list cdecl) := [[mkCd PNode 1 false]; [mkCd PExtra 0 true]].

Lemma stale_code_runs_before_fix :
  exists h, specTrace 0 h = [] /\ ctrace (cRun cbefore 0 cst0 h) = [0].
Proof. exists stale_witness. split; vm_compute; reflexivity. Qed.

(* C15 — property theorems only: each closed by [exact lemma], followed by Print Assumptions.
   [fixed]/[tfixed] = the current code (after commits C15-1: bind table and Comp.Types restored when
   Comp.Compile panics, C15-2: a complete named type is never completed again); [before_fix]/[tbefore] =
   the code before them (kept for the refutations of DESIGN section 7 #10 and #11). *)
From Coq Require Import List ZArith Bool.
From Verif Require Import C14.Model C14.Proof C15.Model C15.Proof C15.Code C15.CodeProof.
Import ListNotations.
Open Scope Z_scope.

(* compile strictly precedes execution, for EVERY input and state, before and after the fixes:
   an input that fails to compile leaves the run-time environment untouched ... *)
Theorem C15_no_code_runs_on_compile_error : forall g st ss,
  out_status (evalInput g st ss) = CompileError -> senv (out_state (evalInput g st ss)) = senv st.
Proof. exact compile_error_env. Qed.
Print Assumptions C15_no_code_runs_on_compile_error.

(* ... the environment after a successful input is the result of executing the code of the WHOLE input,
   compiled beforehand, in the environment prepared after that compilation ... *)
Theorem C15_execution_follows_whole_compilation : forall g st ss,
  out_status (evalInput g st ss) = Ok ->
  exists c1 code c2 e2,
    compileAll (if sync_before_compile g then updateIntBindMax (scomp st) (senv st) else scomp st) ss [] = (c1, Some code) /\
    prepareEnv c1 (senv st) = Some (c2, e2) /\
    senv (out_state (evalInput g st ss)) = fst (execAll e2 code None).
Proof. exact ok_runs_compiled_code. Qed.
Print Assumptions C15_execution_follows_whole_compilation.

(* ... and the compiled hook counter (statements of the input that ran) does not move *)
Theorem C15_no_hook_runs_on_compile_error : forall g s ds, snd (tEval g s ds) = false -> ran (fst (tEval g s ds)) = ran s.
Proof. exact no_code_runs_types. Qed.
Print Assumptions C15_no_hook_runs_on_compile_error.

(* FULL statement for names of variables, constants and functions (current code): after an input that
   fails to compile - at whatever declaration - the environment, the bind table and both slot counters
   are those before the input *)
Theorem C15_failed_eval_preserves_bindings : forall st ss,
  out_status (evalInput fixed st ss) = CompileError ->
  let st' := out_state (evalInput fixed st ss) in
  senv st' = senv st /\ binds (scomp st') = binds (scomp st) /\
  bindNum (scomp st') = bindNum (scomp st) /\ intBindNum (scomp st') = intBindNum (scomp st).
Proof. exact failed_eval_preserves_bindings. Qed.
Print Assumptions C15_failed_eval_preserves_bindings.

Theorem C15_failed_eval_preserves_bindings_history : forall h ss x,
  let st := runHistory fixed state0 h in
  out_status (evalInput fixed st ss) = CompileError ->
  bget (binds (scomp (runHistory fixed state0 (h ++ [ss])))) x = bget (binds (scomp st)) x /\
  senv (runHistory fixed state0 (h ++ [ss])) = senv st.
Proof. exact failed_eval_history. Qed.
Print Assumptions C15_failed_eval_preserves_bindings_history.

(* Comp.DeclFunc's deferred restore: after `func f ...` whose body does not compile every name, f included,
   has the bind it had before (this held before the snapshot existed, for this one kind of failure) *)
Theorem C15_func_redefinition_restored : forall st f t y,
  out_status (evalInput before_fix st [SFunc f t false]) = CompileError /\
  bget (binds (scomp (out_state (evalInput before_fix st [SFunc f t false])))) y = bget (binds (scomp st)) y.
Proof. exact func_redefinition_restored_eval. Qed.
Print Assumptions C15_func_redefinition_restored.

(* named types, current code, every history (failed inputs and redefinitions of types included): a variable
   declared with some definition of a type keeps that definition as long as the variable is not redeclared *)
Theorem C15_old_variables_keep_type : forall h1 h2 x u,
  typeOfVar (tRun tfixed tst0 h1) x = Some u -> (forall ds, In ds h2 -> ~ In x (tdeclared ds)) ->
  typeOfVar (tRun tfixed tst0 (h1 ++ h2)) x = Some u.
Proof. exact old_variables_keep_type. Qed.
Print Assumptions C15_old_variables_keep_type.

(* named types after a failed input: Comp.Types, the variables' types and the hook counter are as before;
   every variable and every type name keeps its definition; and, PROVIDED the failed input declares no
   method, every method of every complete type keeps its value *)
Theorem C15_failed_eval_preserves_types_partial : forall h ds,
  let s := tRun tfixed tst0 h in
  snd (tEval tfixed s ds) = false ->
  let s' := fst (tEval tfixed s ds) in
  tmap s' = tmap s /\ vmap s' = vmap s /\ ran s' = ran s /\
  (forall x u, typeOfVar s x = Some u -> typeOfVar s' x = Some u) /\
  (forall T u, typeNamed s T = Some u -> typeNamed s' T = Some u) /\
  (Forall no_method ds -> forall tid m, (exists o, bget (theap s) tid = Some o /\ tcomplete o = true) -> methodOf s' tid m = methodOf s tid m).
Proof. exact failed_eval_preserves_types. Qed.
Print Assumptions C15_failed_eval_preserves_types_partial.

(* what is missing from the _partial statement is false on the current code (known finding
   C15:method-declared-in-failed-input): `type T ..; func (T) M() int { return 1 }` .
   `func (T) M() int { return 2 }; <compile error>` leaves M a nil func *)
Theorem C15_method_in_failed_input_refuted :
  let s := tRun tfixed tst0 hM in
  methodOf s 0 5 = Some (Some 1) /\
  snd (tEval tfixed s badM) = false /\
  methodOf (fst (tEval tfixed s badM)) 0 5 = Some None.
Proof. exact method_in_failed_input_refuted. Qed.
Print Assumptions C15_method_in_failed_input_refuted.

(* DESIGN section 7 #10 on the model of the code before commit C15-1:
   `var x = 5` . `var x = "s"; var y = undefined` (compile error) . `x`  =>  <invalid Value> of a boxed variable *)
Theorem C15_var_redefined_in_failed_input_refuted_before_fix :
  let st := runHistory before_fix state0 h10 in
  snd (evalInput before_fix st [SRead (EV 1)]) = Some (VZ 5) /\
  out_status (evalInput before_fix st bad10) = CompileError /\
  let st' := out_state (evalInput before_fix st bad10) in
  lookupCI (scomp st') 1 = (1, 0) /\
  snd (evalInput before_fix st' [SRead (EV 1)]) = Some VNone.
Proof. exact var_redefined_refuted_before_fix. Qed.
Print Assumptions C15_var_redefined_in_failed_input_refuted_before_fix.

(* DESIGN section 7 #11 on the model of the code before commit C15-2:
   `type T struct{A int}; var t T` . `type T struct{B string}`  =>  t's type is the new struct *)
Theorem C15_type_redefinition_refuted_before_fix :
  typeOfVar (tRun tbefore tst0 [[DType 1 10; DVar 2 1]]) 2 = Some 10 /\
  typeOfVar (tRun tbefore tst0 h11) 2 = Some 20.
Proof. exact type_redefinition_refuted_before_fix. Qed.
Print Assumptions C15_type_redefinition_refuted_before_fix.

(* the top-level code buffer Comp.Code (Code.v; current code = after commit C15-3: compileDecl's single var/const path
   empties the buffer like compileNode): for EVERY history of inputs - failing at any declaration after having
   appended any number of statements to the buffer - and every initial buffer content, the statements executed are
   exactly, input by input, the statements compiled from that input when it compiled as a whole, and nothing for a
   failed input: no statement of a failed input ever runs, neither during that input nor later *)
Theorem C15_no_code_of_failed_input_runs_later : forall h i b t,
  ctrace (cRun cfixed i (mkCst b t) h) = t ++ specTrace i h.
Proof. exact stale_buffer_never_runs. Qed.
Print Assumptions C15_no_code_of_failed_input_runs_later.

(* on the model of the code before commit C15-3: `x, y := hook(), nil` (fails) . `var z = 5`  =>  hook() runs *)
Theorem C15_stale_code_runs_refuted_before_fix :
  exists h, specTrace 0 h = [] /\ ctrace (cRun cbefore 0 cst0 h) = [0].
Proof. exact stale_code_runs_before_fix. Qed.
Print Assumptions C15_stale_code_runs_refuted_before_fix.

(* ---------------- non-vacuity: the same witnesses on the current code ---------------- *)
Example C15_ex_var_after_fix :
  let st := runHistory fixed state0 h10 in
  out_status (evalInput fixed st bad10) = CompileError /\
  snd (evalInput fixed (out_state (evalInput fixed st bad10)) [SRead (EV 1)]) = Some (VZ 5).
Proof. exact var_redefined_ok_after_fix. Qed.

Example C15_ex_type_after_fix :
  typeOfVar (tRun tfixed tst0 h11) 2 = Some 10 /\ typeNamed (tRun tfixed tst0 h11) 1 = Some 20.
Proof. exact type_redefinition_ok_after_fix. Qed.

(* a failing input that redefines a type, declares a variable of it and calls the hook: nothing remains *)
Example C15_ex_failed_input :
  let s := tRun tfixed tst0 h11 in
  let r := tEval tfixed s [DType 1 30; DVar 2 1; DStmt; DBad] in
  snd r = false /\ typeOfVar (fst r) 2 = Some 10 /\ typeNamed (fst r) 1 = Some 20 /\ ran (fst r) = ran s.
Proof. vm_compute. auto. Qed.

(* code buffer, current code: the witness of C15_stale_code_runs_refuted_before_fix executes nothing; a later valid
   `var h = hook()` executes its own statement only *)
Example C15_ex_stale_after_fix :
  ctrace (cRun cfixed 0 cst0 stale_witness) = [] /\
  ctrace (cRun cfixed 0 cst0 (stale_witness ++ [[mkCd PExtra 1 true]])) = [2].
Proof. vm_compute. auto. Qed.

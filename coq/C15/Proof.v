(* C15 — lemmas about failed and redefining evaluations: bind table (Verif.C14.Model) and type registry. *)
From Coq Require Import List ZArith Bool Lia.
From Verif Require Import C14.Model C14.Proof C15.Model.
Import ListNotations.
Open Scope Z_scope.

(* ================= (1) bind table ================= *)

(* compile strictly precedes execution: on a compile error the environment is the one before the input,
   whatever the configuration; with the snapshot of commit C15-1 the bind table is too *)
Lemma compile_error_env : forall g st ss,
  out_status (evalInput g st ss) = CompileError -> senv (out_state (evalInput g st ss)) = senv st.
Proof.
  intros g st ss. unfold evalInput, out_status, out_state.
  destruct (compileAll _ ss []) as [c1 [code|]]; simpl; auto.
  destruct (prepareEnv c1 (senv st)) as [[c2 e2]|]; simpl; [|discriminate].
  destruct (execAll e2 code None); simpl. discriminate.
Qed.

Lemma ok_runs_compiled_code : forall g st ss,
  out_status (evalInput g st ss) = Ok ->
  exists c1 code c2 e2,
    compileAll (if sync_before_compile g then updateIntBindMax (scomp st) (senv st) else scomp st) ss [] = (c1, Some code) /\
    prepareEnv c1 (senv st) = Some (c2, e2) /\
    senv (out_state (evalInput g st ss)) = fst (execAll e2 code None).
Proof.
  intros g st ss. unfold evalInput, out_status, out_state.
  destruct (compileAll _ ss []) as [c1 [code|]]; simpl; [|discriminate].
  destruct (prepareEnv c1 (senv st)) as [[c2 e2]|] eqn:P; simpl; [|discriminate].
  intros _. exists c1, code, c2, e2. destruct (execAll e2 code None); simpl. auto.
Qed.

Lemma failed_eval_preserves_bindings : forall st ss,
  out_status (evalInput fixed st ss) = CompileError ->
  let st' := out_state (evalInput fixed st ss) in
  senv st' = senv st /\ binds (scomp st') = binds (scomp st) /\
  bindNum (scomp st') = bindNum (scomp st) /\ intBindNum (scomp st') = intBindNum (scomp st).
Proof.
  intros st ss H. split; [apply compile_error_env; auto|].
  revert H. unfold evalInput, out_status, out_state. simpl.
  destruct (compileAll _ ss []) as [c1 [code|]]; simpl.
  - destruct (prepareEnv c1 (senv st)) as [[c2 e2]|]; simpl; [|discriminate].
    destruct (execAll e2 code None); simpl. discriminate.
  - intros _. unfold updateIntBindMax. destruct (taken (senv st)); simpl; auto.
Qed.

(* over histories: every name reads the same bind after the failed input *)
Lemma failed_eval_history : forall h ss x,
  let st := runHistory fixed state0 h in
  out_status (evalInput fixed st ss) = CompileError ->
  bget (binds (scomp (runHistory fixed state0 (h ++ [ss])))) x = bget (binds (scomp st)) x /\
  senv (runHistory fixed state0 (h ++ [ss])) = senv st.
Proof.
  intros h ss x st H. rewrite runHistory_app. simpl. fold st.
  destruct (failed_eval_preserves_bindings st ss H) as [E [B _]]. unfold out_state in *.
  rewrite B, E. auto.
Qed.

(* Comp.DeclFunc's deferred restore (what the code did before the snapshot existed) *)
Lemma bget_filter_self : forall (l : list (name * bind)) f, bget (filter (fun p => negb (Z.eqb (fst p) f)) l) f = None.
Proof.
  induction l as [|[y b] l IH]; intros f; simpl; auto.
  destruct (Z.eqb_spec y f); simpl; auto.
  destruct (Z.eqb_spec f y); [congruence | auto].
Qed.

Lemma bget_filter_other : forall (l : list (name * bind)) f y, y <> f -> bget (filter (fun p => negb (Z.eqb (fst p) f)) l) y = bget l y.
Proof.
  induction l as [|[z b] l IH]; intros f y NE; simpl; auto.
  destruct (Z.eqb_spec z f); simpl.
  - destruct (Z.eqb_spec y z); [congruence | auto].
  - destruct (Z.eqb_spec y z); auto.
Qed.

Lemma func_redefinition_restored : forall c f t y,
  let c' := fst (newBind c f CFunc (KBoxT t) 0) in
  bget (binds (funcRestore c c' f)) y = bget (binds c) y.
Proof.
  intros c f t y c'. unfold funcRestore.
  destruct (Z.eqb_spec y f) as [E|NE].
  - subst y. destruct (bget (binds c) f) as [b|] eqn:G; simpl.
    + rewrite Z.eqb_refl. reflexivity.
    + apply bget_filter_self.
  - destruct (bget (binds c) f) as [b|] eqn:G; simpl.
    + destruct (Z.eqb_spec y f); [contradiction|]. apply newBind_other; auto.
    + rewrite bget_filter_other; auto. apply newBind_other; auto.
Qed.

(* ... also at the level of one evaluation of the code before the fix *)
Lemma func_redefinition_restored_eval : forall st f t y,
  out_status (evalInput before_fix st [SFunc f t false]) = CompileError /\
  bget (binds (scomp (out_state (evalInput before_fix st [SFunc f t false])))) y = bget (binds (scomp st)) y.
Proof.
  intros st f t y. unfold evalInput, out_status, out_state; simpl.
  destruct (newBind (scomp st) f CFunc (KBoxT t) 0) as [c' b] eqn:NB; simpl. split; auto.
  change c' with (fst (c', b)). rewrite <- NB. apply func_redefinition_restored.
Qed.

(* DESIGN section 7 #10 on the model of the code before commit C15-1 *)
Definition h10 : list (list stmt) := [[SVar 1 KInt1 (EZ 5)]].
Definition bad10 : list stmt := [SVar 1 KBox (EZ 0); SVar 2 KInt1 (EV 99)].

Lemma var_redefined_refuted_before_fix :
  let st := runHistory before_fix state0 h10 in
  snd (evalInput before_fix st [SRead (EV 1)]) = Some (VZ 5) /\
  out_status (evalInput before_fix st bad10) = CompileError /\
  let st' := out_state (evalInput before_fix st bad10) in
  lookupCI (scomp st') 1 = (1, 0) /\                       (* x is now a boxed (string) variable ... *)
  snd (evalInput before_fix st' [SRead (EV 1)]) = Some VNone. (* ... that was never initialised: <invalid Value> *)
Proof. vm_compute. auto 10. Qed.

Lemma var_redefined_ok_after_fix :
  let st := runHistory fixed state0 h10 in
  out_status (evalInput fixed st bad10) = CompileError /\
  snd (evalInput fixed (out_state (evalInput fixed st bad10)) [SRead (EV 1)]) = Some (VZ 5).
Proof. vm_compute. auto. Qed.

(* ================= (2) type registry ================= *)
Definition twf (s : tst) : Prop := forall tid o, bget (theap s) tid = Some o -> tid < tnext s.

(* complete objects are never completed again (commit C15-2); their methods may change *)
Definition frozen (s s' : tst) : Prop :=
  tnext s <= tnext s' /\
  forall tid o, bget (theap s) tid = Some o -> tcomplete o = true ->
    exists o', bget (theap s') tid = Some o' /\ tcomplete o' = true /\ tunder o' = tunder o.

(* no object that was complete is touched at all *)
Definition untouched (s s' : tst) : Prop :=
  forall tid o, bget (theap s) tid = Some o -> tcomplete o = true -> bget (theap s') tid = Some o.

Lemma frozen_refl : forall s, frozen s s.
Proof. intros s. split; [lia|]. intros tid o G C. exists o. auto. Qed.

Lemma frozen_trans : forall a b c, frozen a b -> frozen b c -> frozen a c.
Proof.
  intros a b c [N1 F1] [N2 F2]. split; [lia|]. intros tid o G C.
  destruct (F1 _ _ G C) as [o1 [G1 [C1 U1]]]. destruct (F2 _ _ G1 C1) as [o2 [G2 [C2 U2]]].
  exists o2. repeat split; auto. congruence.
Qed.

Lemma untouched_refl : forall s, untouched s s.
Proof. intros s tid o G C. auto. Qed.

Lemma untouched_trans : forall a b c, untouched a b -> untouched b c -> untouched a c.
Proof. intros a b c U1 U2 tid o G C. apply U2; auto. Qed.

Lemma same_heap : forall s s', theap s' = theap s -> tnext s' = tnext s -> twf s -> twf s' /\ frozen s s' /\ untouched s s'.
Proof.
  intros s s' H N W. unfold twf, frozen, untouched. rewrite H, N. repeat split; auto; try lia.
  intros tid o G C. exists o. auto.
Qed.

Definition no_method (d : decl) : Prop := match d with DMethod _ _ _ _ => False | _ => True end.

Lemma declNamed_props : forall s T, twf s ->
  let r := declNamed tfixed s T in
  twf (fst r) /\ frozen s (fst r) /\ untouched s (fst r) /\ vmap (fst r) = vmap s /\ ran (fst r) = ran s /\
  ((fst r = s /\ exists o, bget (theap s) (snd r) = Some o /\ tcomplete o = false) \/
   (snd r = tnext s /\ bget (theap (fst r)) (snd r) = Some (mkT false 0 []) /\ tnext (fst r) = tnext s + 1 /\
    forall tid, tid <> tnext s -> bget (theap (fst r)) tid = bget (theap s) tid)).
Proof.
  intros s T W. unfold declNamed.
  assert (FRESH : let s1 := mkTst ((T, tnext s) :: tmap s) (hset (theap s) (tnext s) (mkT false 0 [])) (tnext s + 1) (vmap s) (ran s) in
    twf s1 /\ frozen s s1 /\ untouched s s1 /\ vmap s1 = vmap s /\ ran s1 = ran s /\
    (tnext s = tnext s /\ bget (theap s1) (tnext s) = Some (mkT false 0 []) /\ tnext s1 = tnext s + 1 /\
     forall tid, tid <> tnext s -> bget (theap s1) tid = bget (theap s) tid)).
  { simpl. assert (O : forall tid, tid <> tnext s -> bget (hset (theap s) (tnext s) (mkT false 0 [])) tid = bget (theap s) tid).
    { intros. unfold hset. apply bget_cons_neq. auto. }
    unfold twf, frozen, untouched; cbn [theap tnext tmap vmap ran]. repeat split; auto; try lia.
    - intros tid o G. unfold hset in G. simpl in G. destruct (Z.eqb_spec tid (tnext s)); [lia|]. apply W in G. lia.
    - intros tid o G C. exists o. rewrite O; auto. apply W in G. lia.
    - intros tid o G C. rewrite O; auto. apply W in G. lia.
    - unfold hset. apply bget_cons_eq. }
  cbv zeta in FRESH. destruct FRESH as [F1 [F2 [F3 [F4 [F5 F6]]]]].
  assert (FR : twf (mkTst ((T, tnext s) :: tmap s) (hset (theap s) (tnext s) (mkT false 0 [])) (tnext s + 1) (vmap s) (ran s)) /\
     frozen s (mkTst ((T, tnext s) :: tmap s) (hset (theap s) (tnext s) (mkT false 0 [])) (tnext s + 1) (vmap s) (ran s)) /\
     untouched s (mkTst ((T, tnext s) :: tmap s) (hset (theap s) (tnext s) (mkT false 0 [])) (tnext s + 1) (vmap s) (ran s)) /\
     vmap s = vmap s /\ ran s = ran s /\
     (False \/ tnext s = tnext s /\
       bget (hset (theap s) (tnext s) (mkT false 0 [])) (tnext s) = Some (mkT false 0 []) /\ tnext s + 1 = tnext s + 1 /\
       forall tid, tid <> tnext s -> bget (hset (theap s) (tnext s) (mkT false 0 [])) tid = bget (theap s) tid)).
  { split; [exact F1|split; [exact F2|split; [exact F3|split; [auto|split; [auto|right; exact F6]]]]]. }
  destruct (bget (tmap s) T) as [tid|]; [|simpl; intuition].
  destruct (bget (theap s) tid) as [o|] eqn:G; [|simpl; intuition].
  simpl. rewrite orb_false_r. destruct (tcomplete o) eqn:C; simpl; [intuition|].
  split; [auto|split; [apply frozen_refl|split; [apply untouched_refl|split; [auto|split; [auto|]]]]].
  left. split; auto. exists o. auto.
Qed.

Lemma compileDecl_props : forall s d s1 a, twf s -> compileDecl tfixed s d = Some (s1, a) ->
  twf s1 /\ frozen s s1 /\ ran s1 = ran s /\ (no_method d -> untouched s s1).
Proof.
  intros s d s1 a W H. destruct d; simpl in H.
  - (* DType *)
    pose proof (declNamed_props s T W) as P. destruct (declNamed tfixed s T) as [s0 tid]. simpl in P.
    destruct P as [W0 [F0 [U0 [_ [R0 CASE]]]]]. inversion H; subst. clear H.
    unfold setUnderlying. destruct (bget (theap s0) tid) as [o0|] eqn:G0; [|split; [exact W0|split; [exact F0|split; [exact R0|intros _; exact U0]]]].
    assert (INC : tcomplete o0 = false).
    { destruct CASE as [[E [o [G C]]]|[E [G _]]]; [subst s0; congruence | inversion G; subst; reflexivity]. }
    assert (O : forall t, t <> tid -> bget (hset (theap s0) tid (mkT true u (tmeth o0))) t = bget (theap s0) t)
      by (intros; unfold hset; apply bget_cons_neq; auto).
    assert (NEQ : forall t o, bget (theap s0) t = Some o -> tcomplete o = true -> t <> tid) by (intros t o G C E; subst; congruence).
    unfold twf, frozen, untouched; cbn [theap tnext tmap vmap ran].
    split; [|split; [split|split]]; auto.
    + intros t o G. unfold hset in G. simpl in G. destruct (Z.eqb_spec t tid); [subst; apply W0 in G0; auto | apply W0 in G; auto].
    + destruct F0; lia.
    + intros t o G C. destruct F0 as [_ F0]. destruct (F0 _ _ G C) as [o' [G' [C' U']]].
      exists o'. rewrite O; eauto.
    + intros _ t o G C. pose proof (U0 _ _ G C) as G'. rewrite O; eauto.
  - (* DFwd *)
    pose proof (declNamed_props s T W) as P. destruct (declNamed tfixed s T) as [s0 tid]. simpl in P.
    destruct P as [W0 [F0 [U0 [_ [R0 _]]]]]. inversion H; subst. auto.
  - (* DMethod *)
    destruct (bget (tmap s) T) as [tid|]; [|discriminate]. destruct ok; [|discriminate]. inversion H; subst. clear H.
    unfold addMethod. destruct (bget (theap s) tid) as [o0|] eqn:G0; [|split; [auto|split; [apply frozen_refl|split; [auto|intros []]]]].
    unfold twf, frozen, untouched; cbn [theap tnext tmap vmap ran].
    split; [|split; [split; [lia|]|split; [auto|intros []]]].
    + intros t o G. unfold hset in G. simpl in G. destruct (Z.eqb_spec t tid); [subst; apply W in G0; auto | apply W in G; auto].
    + intros t o G C. unfold hset. simpl. destruct (Z.eqb_spec t tid).
      * subst. rewrite G0 in G. inversion G; subst. eexists; repeat split; simpl; auto.
      * exists o. auto.
  - destruct (bget (tmap s) T) as [tid|]; [|discriminate]. inversion H; subst.
    match goal with |- twf ?s' /\ _ => destruct (same_heap s s' eq_refl eq_refl W) as [A [B C]] end.
    split; [auto|split; [auto|split; auto]].
  - inversion H; subst. split; [auto|split; [apply frozen_refl|split; [auto|intros _; apply untouched_refl]]].
  - discriminate.
Qed.

Lemma failState_props : forall s d, twf s ->
  twf (failState tfixed s d) /\ frozen s (failState tfixed s d) /\ ran (failState tfixed s d) = ran s /\
  (no_method d -> untouched s (failState tfixed s d)).
Proof.
  intros s d W. destruct d; simpl; try (split; [auto|split; [apply frozen_refl|split; [auto|intros _; apply untouched_refl]]]; fail).
  destruct ok; [split; [auto|split; [apply frozen_refl|split; [auto|intros []]]]|].
  destruct (bget (tmap s) T) as [tid|]; [|split; [auto|split; [apply frozen_refl|split; [auto|intros []]]]].
  unfold addMethod. destruct (bget (theap s) tid) as [o0|] eqn:G0; [|split; [auto|split; [apply frozen_refl|split; [auto|intros []]]]].
  unfold twf, frozen, untouched; cbn [theap tnext tmap vmap ran].
  split; [|split; [split; [lia|]|split; [auto|intros []]]].
  - intros t o G. unfold hset in G. simpl in G. destruct (Z.eqb_spec t tid); [subst; apply W in G0; auto | apply W in G; auto].
  - intros t o G C. unfold hset. simpl. destruct (Z.eqb_spec t tid).
    + subst. rewrite G0 in G. inversion G; subst. eexists; repeat split; simpl; auto.
    + exists o. auto.
Qed.

Lemma compileDecls_props : forall ds s acc s1 r, twf s -> compileDecls tfixed s ds acc = (s1, r) ->
  twf s1 /\ frozen s s1 /\ ran s1 = ran s /\ (Forall no_method ds -> untouched s s1).
Proof.
  induction ds as [|d ds IH]; intros s acc s1 r W H; simpl in H.
  - inversion H; subst. split; [auto|split; [apply frozen_refl|split; [auto|intros _; apply untouched_refl]]].
  - destruct (compileDecl tfixed s d) as [[s0 a]|] eqn:CD.
    + destruct (compileDecl_props _ _ _ _ W CD) as [W0 [F0 [R0 U0]]].
      destruct (IH _ _ _ _ W0 H) as [W1 [F1 [R1 U1]]].
      split; [auto|split; [eapply frozen_trans; eauto|split; [congruence|]]].
      intro NM. inversion NM; subst. eapply untouched_trans; eauto.
    + inversion H; subst. destruct (failState_props s d W) as [W0 [F0 [R0 U0]]].
      split; [auto|split; [auto|split; [auto|]]]. intro NM. inversion NM; subst. auto.
Qed.

Lemma runAction_props : forall s a, twf s -> twf (runAction s a) /\ frozen s (runAction s a) /\
  tmap (runAction s a) = tmap s /\ vmap (runAction s a) = vmap s.
Proof.
  intros s a W. destruct a; simpl.
  - destruct (bget (theap s) tid) as [o0|] eqn:G0; [|split; [auto|split; [apply frozen_refl|auto]]].
    unfold twf, frozen, untouched; cbn [theap tnext tmap vmap ran].
    split; [|split; [split; [lia|]|split; auto]].
    + intros t o G. unfold hset in G. simpl in G. destruct (Z.eqb_spec t tid); [subst; apply W in G0; auto | apply W in G; auto].
    + intros t o G C. unfold hset. simpl. destruct (Z.eqb_spec t tid).
      * subst. rewrite G0 in G. inversion G; subst. eexists; repeat split; simpl; auto.
      * exists o. auto.
  - match goal with |- twf ?s' /\ _ => destruct (same_heap s s' eq_refl eq_refl W) as [A [B C]] end.
    split; [auto|split; [auto|split; auto]].
Qed.

Lemma runActions_props : forall acts s, twf s -> twf (fold_left runAction acts s) /\ frozen s (fold_left runAction acts s) /\
  tmap (fold_left runAction acts s) = tmap s /\ vmap (fold_left runAction acts s) = vmap s.
Proof.
  induction acts as [|a acts IH]; intros s W; simpl.
  - split; [auto|split; [apply frozen_refl|auto]].
  - destruct (runAction_props s a W) as [W1 [F1 [T1 V1]]]. destruct (IH _ W1) as [W2 [F2 [T2 V2]]].
    split; [auto|split; [eapply frozen_trans; eauto|split; congruence]].
Qed.

(* one evaluation of the current code *)
Lemma tEval_props : forall s ds, twf s ->
  twf (fst (tEval tfixed s ds)) /\ frozen s (fst (tEval tfixed s ds)) /\
  (snd (tEval tfixed s ds) = false ->
     tmap (fst (tEval tfixed s ds)) = tmap s /\ vmap (fst (tEval tfixed s ds)) = vmap s /\ ran (fst (tEval tfixed s ds)) = ran s /\
     (Forall no_method ds -> untouched s (fst (tEval tfixed s ds)))).
Proof.
  intros s ds W. unfold tEval. destruct (compileDecls tfixed s ds []) as [s1 [acts|]] eqn:CD;
  destruct (compileDecls_props _ _ _ _ _ W CD) as [W1 [F1 [R1 U1]]]; simpl.
  - destruct (runActions_props acts s1 W1) as [W2 [F2 _]].
    split; [auto|split; [eapply frozen_trans; eauto|discriminate]].
  - assert (X : twf (mkTst (tmap s) (theap s1) (tnext s1) (vmap s) (ran s1)) /\
                frozen s1 (mkTst (tmap s) (theap s1) (tnext s1) (vmap s) (ran s1)) /\
                untouched s1 (mkTst (tmap s) (theap s1) (tnext s1) (vmap s) (ran s1)))
      by (apply same_heap; auto).
    destruct X as [A [B C]].
    split; [auto|split; [eapply frozen_trans; eauto|]]. intros _.
    split; [auto|split; [auto|split; [auto|]]]. intro NM. eapply untouched_trans; eauto.
Qed.

Lemma twf0 : twf tst0.
Proof. intros tid o G. discriminate. Qed.

Lemma tRun_wf : forall h s, twf s -> twf (tRun tfixed s h) /\ frozen s (tRun tfixed s h).
Proof.
  induction h as [|ds h IH]; intros s W; simpl.
  - split; auto. apply frozen_refl.
  - destruct (tEval_props s ds W) as [W1 [F1 _]]. destruct (IH _ W1) as [W2 F2].
    split; auto. eapply frozen_trans; eauto.
Qed.

Lemma tRun_app : forall g h1 h2 s, tRun g s (h1 ++ h2) = tRun g (tRun g s h1) h2.
Proof. induction h1; intros; simpl; auto. Qed.

(* which variables an input / a history (re)declares *)
Definition tdeclared (ds : list decl) : list name := flat_map (fun d => match d with DVar x _ => [x] | _ => [] end) ds.

Lemma compileDecl_vmap : forall g s d s1 a x, compileDecl g s d = Some (s1, a) -> ~ In x (tdeclared [d]) -> bget (vmap s1) x = bget (vmap s) x.
Proof.
  intros g s d s1 a x H NI. destruct d; simpl in H.
  - unfold declNamed in H. destruct (bget (tmap s) T) as [tid|]; [destruct (bget (theap s) tid) as [o|]; [destruct (negb (tcomplete o) || negb (fresh_on_redefine g))|]|];
    inversion H; subst; unfold setUnderlying; simpl;
    match goal with |- context [match ?b with Some _ => _ | None => _ end] => destruct b end; auto.
  - unfold declNamed in H. destruct (bget (tmap s) T) as [tid|]; [destruct (bget (theap s) tid) as [o|]; [destruct (negb (tcomplete o) || negb (fresh_on_redefine g))|]|];
    inversion H; subst; auto.
  - destruct (bget (tmap s) T) as [tid|]; [|discriminate]. destruct ok; [|discriminate]. inversion H; subst.
    unfold addMethod. destruct (bget (theap s) tid); auto.
  - destruct (bget (tmap s) T) as [tid|]; [|discriminate]. inversion H; subst. simpl.
    destruct (Z.eqb_spec x x0); auto. subst. exfalso. apply NI. simpl. auto.
  - inversion H; subst. auto.
  - discriminate.
Qed.

Lemma compileDecls_vmap : forall ds s acc s1 acts x, compileDecls tfixed s ds acc = (s1, Some acts) ->
  ~ In x (tdeclared ds) -> bget (vmap s1) x = bget (vmap s) x.
Proof.
  induction ds as [|d ds IH]; intros s acc s1 acts x H NI; simpl in H.
  - inversion H; subst. auto.
  - destruct (compileDecl tfixed s d) as [[s0 a]|] eqn:CD; [|discriminate].
    rewrite (IH _ _ _ _ _ H).
    + eapply compileDecl_vmap; eauto. intro I. apply NI. unfold tdeclared in *. simpl in *. apply in_or_app. left.
      rewrite app_nil_r in I. exact I.
    + intro I. apply NI. unfold tdeclared in *. simpl. apply in_or_app. right. exact I.
Qed.

Lemma tEval_vmap : forall s ds x, ~ In x (tdeclared ds) -> bget (vmap (fst (tEval tfixed s ds))) x = bget (vmap s) x.
Proof.
  intros s ds x NI. unfold tEval. destruct (compileDecls tfixed s ds []) as [s1 [acts|]] eqn:CD; simpl; auto.
  rewrite <- (compileDecls_vmap _ _ _ _ _ _ CD NI).
  clear CD. revert s1. induction acts as [|a acts IH]; intros s1; simpl; auto.
  rewrite IH. destruct a; simpl; auto. destruct (bget (theap s1) tid); auto.
Qed.

(* variables declared with a definition of a type keep that type through every later history *)
Lemma old_variables_keep_type_from : forall h s x u, twf s ->
  typeOfVar s x = Some u -> (forall ds, In ds h -> ~ In x (tdeclared ds)) ->
  typeOfVar (tRun tfixed s h) x = Some u.
Proof.
  induction h as [|ds h IH]; intros s x u W T N; simpl; auto.
  destruct (tEval_props s ds W) as [W1 [[_ F1] _]].
  apply IH; auto.
  - unfold typeOfVar in *. rewrite tEval_vmap by (apply N; left; auto).
    destruct (bget (vmap s) x) as [tid|]; [|discriminate]. unfold underOf in *.
    destruct (bget (theap s) tid) as [o|] eqn:G; [|discriminate].
    destruct (tcomplete o) eqn:C; [|discriminate]. destruct (F1 _ _ G C) as [o' [G' [C' U']]].
    rewrite G', C'. congruence.
  - intros. apply N. right. auto.
Qed.

Theorem old_variables_keep_type : forall h1 h2 x u,
  typeOfVar (tRun tfixed tst0 h1) x = Some u -> (forall ds, In ds h2 -> ~ In x (tdeclared ds)) ->
  typeOfVar (tRun tfixed tst0 (h1 ++ h2)) x = Some u.
Proof.
  intros. rewrite tRun_app. apply old_variables_keep_type_from; auto. apply tRun_wf, twf0.
Qed.

(* a failed input: the two maps and the hook counter are as before, and (no method declared) so is every complete object *)
Theorem failed_eval_preserves_types : forall h ds,
  let s := tRun tfixed tst0 h in
  snd (tEval tfixed s ds) = false ->
  let s' := fst (tEval tfixed s ds) in
  tmap s' = tmap s /\ vmap s' = vmap s /\ ran s' = ran s /\
  (forall x u, typeOfVar s x = Some u -> typeOfVar s' x = Some u) /\
  (forall T u, typeNamed s T = Some u -> typeNamed s' T = Some u) /\
  (Forall no_method ds -> forall tid m, (exists o, bget (theap s) tid = Some o /\ tcomplete o = true) -> methodOf s' tid m = methodOf s tid m).
Proof.
  intros h ds s H s'. pose proof (proj1 (tRun_wf h tst0 twf0)) as W. fold s in W.
  destruct (tEval_props s ds W) as [_ [[_ F] P]]. destruct (P H) as [TM [VM [R U]]]. fold s' in TM, VM, R, U, F.
  assert (UO : forall tid u, underOf s tid = Some u -> underOf s' tid = Some u).
  { unfold underOf. intros tid u. destruct (bget (theap s) tid) as [o|] eqn:G; [|discriminate].
    destruct (tcomplete o) eqn:C; [|discriminate]. destruct (F _ _ G C) as [o' [G' [C' U']]]. rewrite G', C'. congruence. }
  repeat split; auto.
  - unfold typeOfVar. rewrite VM. intros x u. destruct (bget (vmap s) x); auto.
  - unfold typeNamed. rewrite TM. intros T u. destruct (bget (tmap s) T); auto.
  - intros NM tid m [o [G C]]. unfold methodOf. rewrite (U NM _ _ G C), G. reflexivity.
Qed.

Lemma no_code_runs_types : forall g s ds, snd (tEval g s ds) = false -> ran (fst (tEval g s ds)) = ran s.
Proof.
  intros g s ds. unfold tEval.
  assert (R : forall ds s acc s1 r, compileDecls g s ds acc = (s1, r) -> ran s1 = ran s).
  { induction ds0 as [|d ds0 IH]; intros s0 acc s1 r H; simpl in H; [inversion H; auto|].
    destruct (compileDecl g s0 d) as [[s2 a]|] eqn:CD.
    - rewrite (IH _ _ _ _ H). destruct d; simpl in CD.
      + unfold declNamed in CD. destruct (bget (tmap s0) T) as [tid|]; [destruct (bget (theap s0) tid) as [o|]; [destruct (negb (tcomplete o) || negb (fresh_on_redefine g))|]|];
        inversion CD; subst; unfold setUnderlying; simpl;
        match goal with |- context [match ?b with Some _ => _ | None => _ end] => destruct b end; auto.
      + unfold declNamed in CD. destruct (bget (tmap s0) T) as [tid|]; [destruct (bget (theap s0) tid) as [o|]; [destruct (negb (tcomplete o) || negb (fresh_on_redefine g))|]|];
        inversion CD; subst; auto.
      + destruct (bget (tmap s0) T) as [tid|]; [|discriminate]. destruct ok; [|discriminate]. inversion CD; subst.
        unfold addMethod. destruct (bget (theap s0) tid); auto.
      + destruct (bget (tmap s0) T) as [tid|]; [|discriminate]. inversion CD; subst. auto.
      + inversion CD; subst. auto.
      + discriminate.
    - inversion H; subst. destruct d; simpl; auto. destruct ok; auto.
      destruct (bget (tmap s0) T); auto. unfold addMethod. destruct (bget (theap s0) z); auto. }
  destruct (compileDecls g s ds []) as [s1 [acts|]] eqn:CD; simpl; [discriminate|].
  intros _. pose proof (R _ _ _ _ _ CD). destruct (restore_types_on_error g); simpl; auto.
Qed.

(* DESIGN section 7 #11 on the model of the code before commit C15-2 *)
Definition h11 : list (list decl) := [[DType 1 10; DVar 2 1]; [DType 1 20]].
Lemma type_redefinition_refuted_before_fix :
  typeOfVar (tRun tbefore tst0 [[DType 1 10; DVar 2 1]]) 2 = Some 10 /\
  typeOfVar (tRun tbefore tst0 h11) 2 = Some 20.
Proof. vm_compute. auto. Qed.
Lemma type_redefinition_ok_after_fix :
  typeOfVar (tRun tfixed tst0 h11) 2 = Some 10 /\ typeNamed (tRun tfixed tst0 h11) 1 = Some 20.
Proof. vm_compute. auto. Qed.

(* the remaining defect (known finding): a method declared by an input that then fails to compile *)
Definition hM : list (list decl) := [[DType 1 10; DMethod 1 5 1 true]].
Definition badM : list decl := [DMethod 1 5 2 true; DBad].
Lemma method_in_failed_input_refuted :
  let s := tRun tfixed tst0 hM in
  methodOf s 0 5 = Some (Some 1) /\
  snd (tEval tfixed s badM) = false /\
  methodOf (fst (tEval tfixed s badM)) 0 5 = Some None.
Proof. vm_compute. auto. Qed.

(* C15 — executable model of the top-level CODE BUFFER Comp.Code across evaluations
   (fast/compile.go Comp.Compile, compileDecl, compileNode, discardCode; fast/code.go Code.Append, AsExpr/Exec, Clear).

   Compiling a top-level declaration or statement APPENDS closures to Comp.Code; when the declaration is complete
   Code.AsExpr() takes the whole buffer (and empties it) and wraps it into the *Expr that Interp.RunExpr executes
   after the whole input compiled.  A declaration that fails to compile panics out of Comp.Compile and LEAVES what it
   appended so far in the buffer (the snapshot/restore of Interp.CompileAst covers CompBinds only).  The buffer is
   emptied at the START of the next declaration: compileNode always did that; compileDecl's Extra path (a single
   var/const spec: DeclVars/DeclConsts, then Code.AsExpr) did not before commit C15-3, so the statements of a FAILED
   input were executed by the next successful `var z = 5` / `const k = 5`.
   A statement is abstracted to the index of the input that compiled it (the harness's compiled hook calls).
   Definitions only, no proofs. *)
From Coq Require Import List ZArith Bool.
Import ListNotations.
Open Scope Z_scope.

Inductive cpath := PExtra   (* compileDecl, decl.Extra != nil, kind Const/Var *)
                 | PNode.   (* compileNode: func/type/import/statement/expression, `var a, b = f()` *)

Record cdecl := mkCd {
  cd_path : cpath;
  cd_hooks : nat;    (* hook statements appended to Comp.Code before the declaration completes or fails *)
  cd_ok : bool       (* false: compilation of this declaration panics *)
}.

Record ccfg := mkCcfg { clear_on_extra : bool }.
Definition cfixed : ccfg := mkCcfg true.
Definition cbefore : ccfg := mkCcfg false.

Record cst := mkCst {
  cbuf : list Z;     (* Comp.Code.List: for each pending hook statement, the input that compiled it *)
  ctrace : list Z    (* hook statements executed so far, oldest first *)
}.
Definition cst0 : cst := mkCst [] [].

(* the buffer a declaration starts with *)
Definition startBuf (g : ccfg) (b : list Z) (d : cdecl) : list Z :=
  match cd_path d with
  | PNode => []
  | PExtra => if clear_on_extra g then [] else b
  end.

(* one declaration of input i: (buffer left, Some code taken by Code.AsExpr | None = panic) *)
Definition cDecl (g : ccfg) (i : Z) (b : list Z) (d : cdecl) : list Z * option (list Z) :=
  let b1 := startBuf g b d ++ repeat i (cd_hooks d) in
  if cd_ok d then ([], Some b1) else (b1, None).

Fixpoint cDecls (g : ccfg) (i : Z) (b : list Z) (ds : list cdecl) (acc : list Z) : list Z * option (list Z) :=
  match ds with
  | [] => (b, Some acc)
  | d :: ds' =>
      match cDecl g i b d with
      | (b1, Some e) => cDecls g i b1 ds' (acc ++ e)
      | (b1, None) => (b1, None)
      end
  end.

(* Interp.Eval of input i: compile everything, run only if the whole input compiled *)
Definition cEval (g : ccfg) (i : Z) (s : cst) (ds : list cdecl) : cst * bool :=
  match cDecls g i (cbuf s) ds [] with
  | (b, Some e) => (mkCst b (ctrace s ++ e), true)
  | (b, None) => (mkCst b (ctrace s), false)
  end.

Fixpoint cRun (g : ccfg) (i : Z) (s : cst) (h : list (list cdecl)) : cst :=
  match h with
  | [] => s
  | ds :: h' => cRun g (i + 1) (fst (cEval g i s ds)) h'
  end.

(* what the property demands: input i executes its own statements iff it compiled as a whole, nothing else ever runs *)
Definition ownCode (i : Z) (ds : list cdecl) : list Z :=
  if forallb cd_ok ds then flat_map (fun d => repeat i (cd_hooks d)) ds else [].

Fixpoint specTrace (i : Z) (h : list (list cdecl)) : list Z :=
  match h with
  | [] => []
  | ds :: h' => ownCode i ds ++ specTrace (i + 1) h'
  end.

(* ---------------- correspondence with the implementation: compiled hook counter after every input *)
Fixpoint chistory_match (i : Z) (s : cst) (h : list (list cdecl)) (os : list (bool * Z)) : bool :=
  match h, os with
  | [], [] => true
  | ds :: h', (ok, n) :: os' =>
      let (s', ok') := cEval cfixed i s ds in
      Bool.eqb ok ok' && (Z.of_nat (length (ctrace s')) =? n) && chistory_match (i + 1) s' h' os'
  | _, _ => false
  end.

(* C15 — executable model of what a failed or a redefining evaluation does to earlier definitions.
   Two parts:
   (1) names of variables / constants / functions: the bind table of Verif.C14.Model ([evalInput]: compile
       every statement, mutate Comp.Binds in place, execute only if the whole input compiled; [cfg] selects
       the code before / after commit C15-1 which restores the table when Comp.Compile panics;
       [funcRestore] is Comp.DeclFunc's deferred restore);
   (2) this file: the named-type registry.  Comp.Types maps a name to a type OBJECT (xreflect *xtype);
       a variable's Bind.Type points to the object.  fast/type.go DeclNamedType + xreflect SetUnderlying
       complete an object IN PLACE; before commit C15-2 a redefinition reused the existing object, after it
       a complete object is never touched again: a fresh one is allocated.  xreflect AddMethod (fast/function.go
       methodAdd) runs at COMPILE time and overwrites the method value with a nil func in place; the value
       is installed by a statement executed later.  The snapshot of commit C15-1 is shallow: it restores
       Comp.Types and Comp.Binds, not the objects.
   Definitions only, no proofs. *)
From Coq Require Import List ZArith Bool.
From Verif Require Import C14.Model C15.Code.
Import ListNotations.
Open Scope Z_scope.

Record tcfg := mkTcfg { fresh_on_redefine : bool; restore_types_on_error : bool }.
Definition tfixed : tcfg := mkTcfg true true.
Definition tbefore : tcfg := mkTcfg false false.

(* a named type object: complete (kind != Invalid), underlying type (abstract code), methods with their
   values (None = nil func: declared at compile time, not yet installed) *)
Record tobj := mkT { tcomplete : bool; tunder : Z; tmeth : list (name * option Z) }.

Record tst := mkTst {
  tmap : list (name * Z);      (* Comp.Types: type name -> object id *)
  theap : list (Z * tobj);     (* the objects *)
  tnext : Z;
  vmap : list (name * Z);      (* Bind.Type of the variables of named types: variable -> object id *)
  ran : Z                      (* number of hook statements executed so far (the harness's compiled hook counter) *)
}.
Definition tst0 : tst := mkTst [] [] 0 [] 0.

Inductive decl :=
| DType (T : name) (u : Z)                       (* type T <underlying u> *)
| DFwd (T : name)                                (* forward declaration emitted by the dependency sorter *)
| DMethod (T : name) (m : name) (v : Z) (ok : bool)  (* func (T) m() int { return v }; ok=false: body does not compile *)
| DVar (x : name) (T : name)                     (* var x T *)
| DStmt                                          (* a statement that compiles and calls the harness's compiled hook once when executed *)
| DBad.                                          (* does not compile *)

Inductive action := ASetMethod (tid : Z) (m : name) (v : Z) | ARun.

Definition hset (h : list (Z * tobj)) (tid : Z) (o : tobj) : list (Z * tobj) := (tid, o) :: h.

(* Comp.DeclNamedType: object to complete for `type T ...` *)
Definition declNamed (g : tcfg) (s : tst) (T : name) : tst * Z :=
  let fresh := (mkTst ((T, tnext s) :: tmap s) (hset (theap s) (tnext s) (mkT false 0 [])) (tnext s + 1) (vmap s) (ran s), tnext s) in
  match bget (tmap s) T with
  | Some tid =>
      match bget (theap s) tid with
      | Some o => if negb (tcomplete o) || negb (fresh_on_redefine g) then (s, tid) else fresh
      | None => fresh
      end
  | None => fresh
  end.

(* xtype.SetUnderlying: in place *)
Definition setUnderlying (s : tst) (tid : Z) (u : Z) : tst :=
  match bget (theap s) tid with
  | Some o => mkTst (tmap s) (hset (theap s) tid (mkT true u (tmeth o))) (tnext s) (vmap s) (ran s)
  | None => s
  end.

(* xtype.AddMethod: in place, the method value becomes a nil func *)
Definition addMethod (s : tst) (tid : Z) (m : name) : tst :=
  match bget (theap s) tid with
  | Some o => mkTst (tmap s) (hset (theap s) tid (mkT (tcomplete o) (tunder o) ((m, None) :: tmeth o))) (tnext s) (vmap s) (ran s)
  | None => s
  end.

Definition compileDecl (g : tcfg) (s : tst) (d : decl) : option (tst * list action) :=
  match d with
  | DType T u => let (s1, tid) := declNamed g s T in Some (setUnderlying s1 tid u, [])
  | DFwd T => let (s1, _) := declNamed g s T in Some (s1, [])
  | DMethod T m v ok =>
      match bget (tmap s) T with
      | None => None
      | Some tid =>
          (* methodAdd first (recursion), then the body *)
          let s1 := addMethod s tid m in
          if ok then Some (s1, [ASetMethod tid m v]) else None
      end
  | DVar x T =>
      match bget (tmap s) T with
      | None => None
      | Some tid => Some (mkTst (tmap s) (theap s) (tnext s) ((x, tid) :: vmap s) (ran s), [])
      end
  | DStmt => Some (s, [ARun])
  | DBad => None
  end.

(* state left by the failing declaration itself *)
Definition failState (g : tcfg) (s : tst) (d : decl) : tst :=
  match d with
  | DMethod T m v false => match bget (tmap s) T with Some tid => addMethod s tid m | None => s end
  | _ => s
  end.

Fixpoint compileDecls (g : tcfg) (s : tst) (ds : list decl) (acc : list action) : tst * option (list action) :=
  match ds with
  | [] => (s, Some acc)
  | d :: ds' =>
      match compileDecl g s d with
      | Some (s1, a) => compileDecls g s1 ds' (acc ++ a)
      | None => (failState g s d, None)
      end
  end.

Definition runAction (s : tst) (a : action) : tst :=
  match a with
  | ARun => mkTst (tmap s) (theap s) (tnext s) (vmap s) (ran s + 1)
  | ASetMethod tid m v =>
      match bget (theap s) tid with
      | Some o => mkTst (tmap s) (hset (theap s) tid (mkT (tcomplete o) (tunder o) ((m, Some v) :: tmeth o))) (tnext s) (vmap s) (ran s)
      | None => s
      end
  end.

(* one evaluation. The snapshot restores the two maps (shallow); the objects keep what was done to them *)
Definition tEval (g : tcfg) (s : tst) (ds : list decl) : tst * bool :=
  match compileDecls g s ds [] with
  | (s1, Some acts) => (fold_left runAction acts s1, true)
  | (s1, None) =>
      (if restore_types_on_error g then mkTst (tmap s) (theap s1) (tnext s1) (vmap s) (ran s1) else s1, false)
  end.

Fixpoint tRun (g : tcfg) (s : tst) (h : list (list decl)) : tst :=
  match h with
  | [] => s
  | ds :: h' => tRun g (fst (tEval g s ds)) h'
  end.

(* observables *)
Definition underOf (s : tst) (tid : Z) : option Z :=
  match bget (theap s) tid with Some o => if tcomplete o then Some (tunder o) else None | None => None end.
Definition typeOfVar (s : tst) (x : name) : option Z :=
  match bget (vmap s) x with Some tid => underOf s tid | None => None end.
Definition typeNamed (s : tst) (T : name) : option Z :=
  match bget (tmap s) T with Some tid => underOf s tid | None => None end.
(* result of calling method m on a value of the object: Some (Some v) = v, Some None = nil func (panic) *)
Definition methodOf (s : tst) (tid : Z) (m : name) : option (option Z) :=
  match bget (theap s) tid with Some o => bget (tmeth o) m | None => None end.

(* ---------------- correspondence with the implementation ---------------- *)
Record tobs := mkTobs {
  to_ok : bool;
  to_ran : Z;                            (* hook counter *)
  to_vars : list (name * Z);             (* every live variable of a named type: code of the underlying of Bind.Type (-1 none) *)
  to_types : list (name * Z)             (* every live type name: code of the underlying of Comp.Types[name] (-1 none) *)
}.

Definition optZ (o : option Z) : Z := match o with Some z => z | None => -1 end.

Definition tobs_match (s : tst) (ok : bool) (o : tobs) : bool :=
  Bool.eqb ok (to_ok o) && (ran s =? to_ran o) &&
  forallb (fun p => optZ (typeOfVar s (fst p)) =? snd p) (to_vars o) &&
  forallb (fun p => optZ (typeNamed s (fst p)) =? snd p) (to_types o).

Fixpoint thistory_match (s : tst) (h : list (list decl)) (os : list tobs) : bool :=
  match h, os with
  | [], [] => true
  | ds :: h', o :: os' =>
      let (s', ok) := tEval tfixed s ds in tobs_match s' ok o && thistory_match s' h' os'
  | _, _ => false
  end.

Record case := mkCase15 {
  k_idx : Z;
  k_hist : list (list stmt); k_obs : list obs;        (* bind table part, replayed by Verif.C14.Model *)
  k_thist : list (list decl); k_tobs : list tobs;     (* type registry part *)
  k_chist : list (list cdecl)                         (* code buffer part (Code.v): ok flag and hook counter of k_tobs, after every input *)
}.

Definition mismatches (cs : list case) : list Z :=
  flat_map (fun c => if history_match false state0 (k_hist c) (k_obs c) && thistory_match tst0 (k_thist c) (k_tobs c)
                        && chistory_match 0 cst0 (k_chist c) (map (fun o => (to_ok o, to_ran o)) (k_tobs c))
                     then [] else [k_idx c]) cs.

(* C03 — lemmas: integer conversions are wraps, composition, UTF-8 round trips, the convertibility table *)
From Coq Require Import List NArith ZArith Bool Lia.
From Verif Require Import Common.GoInt Common.Utf8 C03.Model.
Import ListNotations.
Open Scope Z_scope.

(* ---------- integer <-> integer ---------- *)
Lemma int_conv_is_wrap kt x :
  conv_int kt x = wrap kt x /\ in_range kt (conv_int kt x) /\
  (exists q, conv_int kt x = x + q * modulus kt) /\
  (in_range kt x -> conv_int kt x = x).
Proof.
  unfold conv_int. repeat split.
  - apply wrap_range.
  - apply wrap_range.
  - apply wrap_cong.
  - apply wrap_id.
Qed.

Lemma modulus_divides k2 k3 : width k3 <= width k2 -> exists m, modulus k2 = m * modulus k3.
Proof.
  intros H. unfold modulus. exists (2 ^ (width k2 - width k3)).
  rewrite <- Z.pow_add_r by (pose proof (width_pos k3); lia). f_equal. lia.
Qed.

(* narrowing through an intermediate type that is at least as wide as the final one loses nothing more,
   whatever the signedness of the three types *)
Lemma conv_compose k2 k3 x : width k3 <= width k2 -> conv_int k3 (conv_int k2 x) = conv_int k3 x.
Proof.
  intros H. unfold conv_int.
  destruct (wrap_cong k2 x) as [q Hq]. destruct (modulus_divides k2 k3 H) as [m Hm].
  apply wrap_eq_of_cong with (q := q * m). rewrite Hq, Hm. ring.
Qed.

(* widening (or same width) and coming back preserves every value of the narrower type, whatever the signedness *)
Lemma conv_roundtrip k1 k2 x : in_range k1 x -> width k1 <= width k2 -> conv_int k1 (conv_int k2 x) = x.
Proof.
  intros Hr Hw. rewrite conv_compose by assumption. unfold conv_int. apply wrap_id. assumption.
Qed.

(* the condition is necessary: through a narrower intermediate type the result can differ *)
Lemma conv_compose_needs_width : conv_int I64 (conv_int U8 300) <> conv_int I64 300.
Proof. vm_compute. discriminate. Qed.

(* ---------- constants ---------- *)
Lemma const_int_conv_iff kt x :
  (forall v, const_int_conv kt x = Some v <-> v = x /\ in_range kt x) /\
  (const_int_conv kt x = None <-> ~ in_range kt x).
Proof.
  unfold const_int_conv. destruct (in_rangeb kt x) eqn:E.
  - apply in_rangeb_spec in E. split.
    + intros v. split.
      * intros H. inversion H. subst. auto.
      * intros [H0 _]. subst. reflexivity.
    + split; [discriminate|contradiction].
  - assert (Hn: ~ in_range kt x) by (intro C; apply in_rangeb_spec in C; congruence). split.
    + intros v. split; [discriminate|intros [_ H0]; contradiction].
    + split; auto.
Qed.

(* ---------- UTF-8 ---------- *)
Definition sanitize (r : Z) : Z := if valid_runeb r then r else rune_error.

Lemma rune_error_valid : valid_rune rune_error.
Proof. unfold valid_rune, rune_error. lia. Qed.

Lemma sanitize_valid r : valid_rune (sanitize r).
Proof.
  unfold sanitize. destruct (valid_runeb r) eqn:E; [apply valid_runeb_spec; assumption|apply rune_error_valid].
Qed.

Lemma sanitize_idem r : sanitize (sanitize r) = sanitize r.
Proof.
  unfold sanitize at 1. pose proof (sanitize_valid r) as H. apply valid_runeb_spec in H. rewrite H. reflexivity.
Qed.

Lemma encode_rune_sanitize r : encode_rune r = encode_rune (sanitize r).
Proof.
  unfold encode_rune, sanitize. destruct (valid_runeb r) eqn:E; [rewrite E; reflexivity|].
  assert (H: valid_runeb rune_error = true) by reflexivity. rewrite H. reflexivity.
Qed.

Lemma encode_runes_sanitize rs : encode_runes rs = encode_runes (map sanitize rs).
Proof.
  unfold encode_runes. induction rs; simpl; [reflexivity|]. rewrite IHrs, <- encode_rune_sanitize. reflexivity.
Qed.

(* []rune(string(rs)) replaces every invalid code point by U+FFFD and keeps the valid ones *)
Lemma runes_string_runes rs : string_to_runes (runes_to_string rs) = map sanitize rs.
Proof.
  unfold string_to_runes, runes_to_string. rewrite encode_runes_sanitize.
  apply decode_encode_runes. apply Forall_forall. intros r Hin. apply in_map_iff in Hin.
  destruct Hin as [r0 [Hr _]]. subst. apply sanitize_valid.
Qed.

Lemma utf8_roundtrip rs : Forall valid_rune rs -> string_to_runes (runes_to_string rs) = rs.
Proof. apply decode_encode_runes. Qed.

Lemma utf8_idempotent rs :
  string_to_runes (runes_to_string (string_to_runes (runes_to_string rs))) = string_to_runes (runes_to_string rs).
Proof.
  rewrite !runes_string_runes. rewrite map_map. apply map_ext. intros. apply sanitize_idem.
Qed.

(* string(i) for an integer i: the UTF-8 encoding of i if i is a valid code point, else of U+FFFD; 1..4 bytes *)
Lemma int_to_string_spec x :
  int_to_string x = encode_valid (sanitize x) /\ (1 <= length (int_to_string x) <= 4)%nat.
Proof.
  unfold int_to_string. split.
  - unfold encode_rune, sanitize. destruct (valid_runeb x); reflexivity.
  - rewrite encode_rune_sanitize. unfold encode_rune.
    pose proof (sanitize_valid x) as H. pose proof H as H'. apply valid_runeb_spec in H'. rewrite H'.
    apply encode_valid_len. assumption.
Qed.

(* ---------- the convertibility decision ---------- *)
Definition table_ok : bool :=
  forallb (fun s => forallb (fun t => Bool.eqb (convertible s t) (spec_convertible s t)) all_ty) all_ty.

Lemma table_ok_true : table_ok = true.
Proof. vm_compute. reflexivity. Qed.

Lemma all_ty_complete t : In t all_ty.
Proof. destruct t; simpl; tauto. Qed.

Lemma convertible_iff_spec s t : convertible s t = spec_convertible s t.
Proof.
  pose proof table_ok_true as H. unfold table_ok in H.
  rewrite forallb_forall in H. specialize (H s (all_ty_complete s)).
  rewrite forallb_forall in H. specialize (H t (all_ty_complete t)).
  apply Bool.eqb_prop in H. exact H.
Qed.

(* C03 — property theorems only. *)
From Coq Require Import List NArith ZArith QArith Bool.
From Verif Require Import Common.GoInt Common.Utf8 C03.Model C03.Proof.
From Verif Require C04.Model C04.Proof C04.Proof2.
Import ListNotations.
Open Scope Z_scope.

(* integer -> integer conversion = wrap to the target kind: in range, congruent modulo 2^width, identity on representable values *)
Theorem C03_int_conv_is_wrap : forall kt x,
  conv_int kt x = wrap kt x /\ in_range kt (conv_int kt x) /\
  (exists q, conv_int kt x = x + q * modulus kt) /\
  (in_range kt x -> conv_int kt x = x).
Proof. exact int_conv_is_wrap. Qed.
Print Assumptions C03_int_conv_is_wrap.

(* conv k3 (conv k2 x) = conv k3 x whenever k2 is at least as wide as k3 -- for ANY signedness of the three kinds
   (no signedness condition is needed; the width condition is necessary: C03_conv_compose_needs_width) *)
Theorem C03_conv_compose : forall k2 k3 x, width k3 <= width k2 -> conv_int k3 (conv_int k2 x) = conv_int k3 x.
Proof. exact conv_compose. Qed.
Print Assumptions C03_conv_compose.

Theorem C03_conv_compose_needs_width : conv_int I64 (conv_int U8 300) <> conv_int I64 300.
Proof. exact conv_compose_needs_width. Qed.
Print Assumptions C03_conv_compose_needs_width.

(* a value survives the round trip through any type at least as wide, signed or not: int8 -> uint64 -> int8, ... *)
Theorem C03_conv_roundtrip : forall k1 k2 x, in_range k1 x -> width k1 <= width k2 -> conv_int k1 (conv_int k2 x) = x.
Proof. exact conv_roundtrip. Qed.
Print Assumptions C03_conv_roundtrip.

(* []rune(string(rs)) = rs for valid scalar values *)
Theorem C03_utf8_roundtrip : forall rs, Forall valid_rune rs -> string_to_runes (runes_to_string rs) = rs.
Proof. exact utf8_roundtrip. Qed.
Print Assumptions C03_utf8_roundtrip.

(* for arbitrary int32 contents: every invalid code point becomes U+FFFD, valid ones are kept; hence idempotent *)
Theorem C03_utf8_replacement : forall rs, string_to_runes (runes_to_string rs) = map sanitize rs.
Proof. exact runes_string_runes. Qed.
Print Assumptions C03_utf8_replacement.

Theorem C03_utf8_idempotent : forall rs,
  string_to_runes (runes_to_string (string_to_runes (runes_to_string rs))) = string_to_runes (runes_to_string rs).
Proof. exact utf8_idempotent. Qed.
Print Assumptions C03_utf8_idempotent.

(* string(i): UTF-8 of i when i is a valid code point, of U+FFFD otherwise (negative, surrogate, > 0x10FFFF); 1..4 bytes *)
Theorem C03_int_to_string : forall x,
  int_to_string x = encode_valid (sanitize x) /\ (1 <= length (int_to_string x) <= 4)%nat.
Proof. exact int_to_string_spec. Qed.
Print Assumptions C03_int_to_string.

(* the decision of Comp.convert (identical | same reflect type | reflect ConvertibleTo | go/types ConvertibleTo)
   accepts exactly the pairs of the Go specification's conversion rule, over all 29 x 29 type pairs *)
Theorem C03_convertible_iff_spec : forall s t, convertible s t = spec_convertible s t.
Proof. exact convertible_iff_spec. Qed.
Print Assumptions C03_convertible_iff_spec.

(* integer constant operand (typed or untyped) to an integer type: accepted iff representable, value preserved *)
Theorem C03_const_conv_overflow_iff : forall kt x,
  (forall v, const_int_conv kt x = Some v <-> v = x /\ in_range kt x) /\
  (const_int_conv kt x = None <-> ~ in_range kt x).
Proof. exact const_int_conv_iff. Qed.
Print Assumptions C03_const_conv_overflow_iff.

(* the same through the code path shared with C04 (Lit.Convert -> extractNumber -> ConvertLiteralCheckOverflow):
   an untyped constant of any numeric kind, explicit conversion T(c) to an integer type *)
Theorem C03_untyped_const_conv_iff : forall (l : C04.Model.lit) (t : C04.Model.tkind) k,
  C04.Proof.wf l -> C04.Proof.numeric l -> C04.Proof2.int_target t = Some k ->
  (forall v, C04.Model.typed_context l t true = C04.Model.TVInt v <->
     ((C04.Proof.re_of l == C04.Model.Qz v)%Q /\ (C04.Proof.im_of l == 0)%Q /\ in_range k v)) /\
  (C04.Model.typed_context l t true = C04.Model.TErr <->
     ~ exists v, (C04.Proof.re_of l == C04.Model.Qz v)%Q /\ (C04.Proof.im_of l == 0)%Q /\ in_range k v).
Proof.
  intros l t k Hw Hn Ht.
  assert (E: C04.Model.typed_context l t true = C04.Model.convert l t).
  { unfold C04.Model.typed_context, C04.Model.convert_explicit_only.
    destruct t; try reflexivity. unfold C04.Proof2.int_target in Ht. simpl in Ht. discriminate. }
  rewrite E. destruct (C04.Proof2.int_const_fits l t k Hw Hn Ht) as [H1 [H2 _]]. split; assumption.
Qed.
Print Assumptions C03_untyped_const_conv_iff.

(* ---------------- worked values ---------------- *)
Example C03_ex_wrap : conv_int I8 300 = 44 /\ conv_int U8 (-1) = 255 /\ conv_int I16 70000 = 4464.
Proof. vm_compute. repeat split; reflexivity. Qed.
Example C03_ex_utf8 : int_to_string 19990 = [228; 184; 150] /\ int_to_string 55296 = [239; 191; 189] /\ int_to_string (-1) = [239; 191; 189].
Proof. vm_compute. repeat split; reflexivity. Qed.
Example C03_ex_decode : string_to_runes [97; 195; 237; 160; 128; 240; 159; 152; 128] = [97; 65533; 65533; 65533; 65533; 128512].
Proof. vm_compute. reflexivity. Qed.
Example C03_ex_table : convertible Yint Ystring = true /\ convertible Yfloat64 Ystring = false /\ convertible Nstring Yrunes = true
  /\ convertible Ybool Yint = false /\ convertible Yint Ycomplex128 = false /\ convertible Nbytes Ybytes = true.
Proof. vm_compute. repeat split; reflexivity. Qed.

(* C03 — executable model of conversions T(x) (fast/convert.go Comp.convert / Converter / convert, xreflect
   Type.ConvertibleTo, reflect.Value.Convert for the integer / string / byte-slice / rune-slice cases, and
   base/untyped/lit.go ConvertLiteralCheckOverflow for constant operands; code after fix: C03-1, C03-2).
   Definitions only. *)
From Coq Require Import List NArith ZArith Bool.
From Verif Require Import Common.GoInt Common.Utf8.
Import ListNotations.
Open Scope Z_scope.

(* the type universe of the check: 17 basic kinds, []byte, []rune, and named types over some of them *)
Inductive ty :=
| Ybool | Yint | Yint8 | Yint16 | Yint32 | Yint64 | Yuint | Yuint8 | Yuint16 | Yuint32 | Yuint64 | Yuintptr
| Yfloat32 | Yfloat64 | Ycomplex64 | Ycomplex128 | Ystring | Ybytes | Yrunes
| Nbool | Nint | Nint8 | Nuint8 | Nuint32 | Nfloat64 | Ncomplex128 | Nstring | Nbytes | Nrunes.

Definition all_ty : list ty :=
  [Ybool; Yint; Yint8; Yint16; Yint32; Yint64; Yuint; Yuint8; Yuint16; Yuint32; Yuint64; Yuintptr;
   Yfloat32; Yfloat64; Ycomplex64; Ycomplex128; Ystring; Ybytes; Yrunes;
   Nbool; Nint; Nint8; Nuint8; Nuint32; Nfloat64; Ncomplex128; Nstring; Nbytes; Nrunes].

Definition under (t : ty) : ty :=
  match t with
  | Nbool => Ybool | Nint => Yint | Nint8 => Yint8 | Nuint8 => Yuint8 | Nuint32 => Yuint32 | Nfloat64 => Yfloat64
  | Ncomplex128 => Ycomplex128 | Nstring => Ystring | Nbytes => Ybytes | Nrunes => Yrunes
  | _ => t
  end.

Definition ty_tag (t : ty) : Z :=
  match t with
  | Ybool => 0 | Yint => 1 | Yint8 => 2 | Yint16 => 3 | Yint32 => 4 | Yint64 => 5 | Yuint => 6 | Yuint8 => 7 | Yuint16 => 8
  | Yuint32 => 9 | Yuint64 => 10 | Yuintptr => 11 | Yfloat32 => 12 | Yfloat64 => 13 | Ycomplex64 => 14 | Ycomplex128 => 15
  | Ystring => 16 | Ybytes => 17 | Yrunes => 18 | Nbool => 19 | Nint => 20 | Nint8 => 21 | Nuint8 => 22 | Nuint32 => 23
  | Nfloat64 => 24 | Ncomplex128 => 25 | Nstring => 26 | Nbytes => 27 | Nrunes => 28
  end.
Definition ty_eqb (a b : ty) : bool := ty_tag a =? ty_tag b.

(* reflect.Kind of the (underlying) type *)
Inductive rkind := RBool | RInt | RUint | RFloat | RComplex | RString | RSliceU8 | RSliceI32.
Definition rkind_of (t : ty) : rkind :=
  match under t with
  | Ybool => RBool
  | Yint | Yint8 | Yint16 | Yint32 | Yint64 => RInt
  | Yuint | Yuint8 | Yuint16 | Yuint32 | Yuint64 | Yuintptr => RUint
  | Yfloat32 | Yfloat64 => RFloat
  | Ycomplex64 | Ycomplex128 => RComplex
  | Ystring => RString
  | Ybytes => RSliceU8
  | _ => RSliceI32
  end.

(* reflect.Type.ConvertibleTo on the reflect types (interpreted named types have the reflect type of their
   underlying type): reflect.convertOp's switch on the source kind, then haveIdenticalUnderlyingType *)
Definition reflect_convertible (s t : ty) : bool :=
  match rkind_of s, rkind_of t with
  | (RInt | RUint), (RInt | RUint | RFloat | RString) => true
  | RFloat, (RInt | RUint | RFloat) => true
  | RComplex, RComplex => true
  | RString, (RSliceU8 | RSliceI32) => true
  | (RSliceU8 | RSliceI32), RString => true
  | _, _ => ty_eqb (under s) (under t)
  end.

(* go/types ConvertibleTo (the fork in go/types used by xreflect), for non-constant operands *)
Definition is_numeric_real (t : ty) : bool := match rkind_of t with RInt | RUint | RFloat => true | _ => false end.
Definition is_integer (t : ty) : bool := match rkind_of t with RInt | RUint => true | _ => false end.
Definition is_complex (t : ty) : bool := match rkind_of t with RComplex => true | _ => false end.
Definition is_string (t : ty) : bool := match rkind_of t with RString => true | _ => false end.
Definition is_bytes_or_runes (t : ty) : bool := match rkind_of t with RSliceU8 | RSliceI32 => true | _ => false end.

Definition gotypes_convertible (s t : ty) : bool :=
  ty_eqb (under s) (under t)                       (* assignable / identical underlying types *)
  || (is_numeric_real s && is_numeric_real t)
  || (is_complex s && is_complex t)
  || (is_string t && (is_integer s || is_bytes_or_runes s))
  || (is_string s && is_bytes_or_runes t).

(* Comp.convert's decision for a non-constant operand of type s converted to t:
   identical | same reflect type | (nil operand: not in this universe) | xr.Type.ConvertibleTo | error *)
Definition convertible (s t : ty) : bool :=
  ty_eqb s t
  || ty_eqb (under s) (under t)
  || (reflect_convertible s t || ty_eqb s t || gotypes_convertible s t).

(* the Go specification's rule (Conversions, non-constant x of type s to type t), for this universe *)
Inductive tclass := KlBool | KlInt | KlFloat | KlComplex | KlString | KlBytes | KlRunes.
Definition tclass_of (t : ty) : tclass :=
  match under t with
  | Ybool => KlBool
  | Yfloat32 | Yfloat64 => KlFloat
  | Ycomplex64 | Ycomplex128 => KlComplex
  | Ystring => KlString
  | Ybytes => KlBytes
  | Yrunes => KlRunes
  | _ => KlInt
  end.
Definition spec_convertible (s t : ty) : bool :=
  ty_eqb (under s) (under t) ||
  match tclass_of s, tclass_of t with
  | (KlInt | KlFloat), (KlInt | KlFloat) => true       (* both integer or floating point types *)
  | KlComplex, KlComplex => true                       (* both complex types *)
  | (KlInt | KlBytes | KlRunes), KlString => true      (* integer or slice of bytes or runes -> string type *)
  | KlString, (KlBytes | KlRunes) => true              (* string -> slice of bytes or runes *)
  | _, _ => false
  end.

(* ---------- values ---------- *)
(* integer -> integer: reflect cvtInt/cvtUint = truncation to the target width, reinterpretation of the sign *)
Definition conv_int (kt : ikind) (x : Z) : Z := wrap kt x.

(* integer -> string (reflect cvtIntString / cvtUintString): UTF-8 of the rune, U+FFFD outside the valid code points *)
Definition int_to_string (x : Z) : list Z := encode_rune x.
(* string -> []rune, []rune -> string, string <-> []byte *)
Definition string_to_runes (s : list Z) : list Z := decode_runes s.
Definition runes_to_string (rs : list Z) : list Z := encode_runes rs.
Definition string_to_bytes (s : list Z) : list Z := s.

(* constant operand (typed or untyped integer constant) converted to an integer type: representable or rejected *)
Definition const_int_conv (kt : ikind) (x : Z) : option Z := if in_rangeb kt x then Some x else None.

(* ---------- correspondence ---------- *)
Fixpoint zlist_eqb (a b : list Z) : bool :=
  match a, b with
  | [], [] => true
  | x :: a', y :: b' => (x =? y) && zlist_eqb a' b'
  | _, _ => false
  end.

Inductive case :=
| KPair (idx : Z) (s t : ty) (obs : bool)
| KInt (idx : Z) (kt : ikind) (x obs : Z)
| KConstInt (idx : Z) (kt : ikind) (x : Z) (obs : option Z)
| KIntStr (idx : Z) (x : Z) (obs : list Z)
| KStrRunes (idx : Z) (s obs : list Z)
| KRunesStr (idx : Z) (rs obs : list Z)
| KStrBytes (idx : Z) (s obs : list Z).

Definition case_idx (c : case) : Z :=
  match c with
  | KPair i _ _ _ | KInt i _ _ _ | KConstInt i _ _ _ | KIntStr i _ _ | KStrRunes i _ _ | KRunesStr i _ _ | KStrBytes i _ _ => i
  end.
Definition case_ok (c : case) : bool :=
  match c with
  | KPair _ s t obs => Bool.eqb (convertible s t) obs
  | KInt _ kt x obs => conv_int kt x =? obs
  | KConstInt _ kt x obs =>
      match const_int_conv kt x, obs with
      | Some a, Some b => a =? b
      | None, None => true
      | _, _ => false
      end
  | KIntStr _ x obs => zlist_eqb (int_to_string x) obs
  | KStrRunes _ s obs => zlist_eqb (string_to_runes s) obs
  | KRunesStr _ rs obs => zlist_eqb (runes_to_string rs) obs
  | KStrBytes _ s obs => zlist_eqb (string_to_bytes s) obs
  end.
Definition mismatches (cs : list case) : list Z := map case_idx (filter (fun c => negb (case_ok c)) cs).

(* C21 — freshness of the quasiquote result (C21_fresh_tree), for the fast AND the classic algorithm.
   Node identities: every object the algorithms allocate (New(), MakeQuote, the Set/Append coercion wrappers) carries
   an id in the range of [mk]; the ONLY other ids that can occur in a result are ids of trees returned by [ev], i.e. of
   the VALUES of the expressions inside ~unquote / ~unquote_splice: the code inserts those by reference (it does not
   copy them).  No hypothesis on the template is needed; with "range of mk disjoint from the template's ids" this
   gives: the result shares no node with the template, except inside unquoted values.
   Also here: the one-step unfolding of the classic algorithm [cq] into named pieces (cq_body), reused by Equiv.v. *)
From Coq Require Import List NArith ZArith Bool Lia.
From Verif Require Import Common.Rose C21.Model C21.Proof.
Import ListNotations.
Open Scope Z_scope.

Ltac ibind H x H1 H2 := apply bind_ok in H; destruct H as [x [H1 H2]].

(* ---------- generic list/monad lemmas ---------- *)
Lemma mapM_forall : forall A B (g : A -> res B) (Q : B -> Prop) l l',
  (forall x y, In x l -> g x = Ok y -> Q y) -> mapM g l = Ok l' -> Forall Q l'.
Proof.
  induction l as [|x l IH]; intros l' Hg H; simpl in H.
  - inversion H; constructor.
  - ibind H y Hy Hk. ibind Hk ys Hys Hk2. inversion Hk2; subst. constructor.
    + eapply Hg; eauto. simpl; auto.
    + apply IH; auto. intros; eapply Hg; eauto. simpl; auto.
Qed.

Lemma mapMi_forall : forall A B (g : nat -> A -> res B) (Q : B -> Prop) l i l',
  (forall j x y, In x l -> g j x = Ok y -> Q y) -> mapMi g i l = Ok l' -> Forall Q l'.
Proof.
  induction l as [|x l IH]; intros i l' Hg H; simpl in H.
  - inversion H; constructor.
  - ibind H y Hy Hk. ibind Hk ys Hys Hk2. inversion Hk2; subst. constructor.
    + eapply Hg; eauto. simpl; auto.
    + eapply IH; [|exact Hys]. intros; eapply Hg; eauto. simpl; auto.
Qed.

(* folds whose accumulator lives in the error monad: fun ra e => a <- ra ;; g a e *)
Section FoldM.
  Context {A B : Type}.
  Variable g : B -> A -> res B.
  Definition foldM_step (ra : res B) (e : A) : res B := a1 <- ra ;; g a1 e.

  Lemma foldM_err : forall l, fold_left foldM_step l Err = Err.
  Proof. induction l; simpl; auto. Qed.
  Lemma foldM_oof : forall l, fold_left foldM_step l OutOfFuel = OutOfFuel.
  Proof. induction l; simpl; auto. Qed.

  Lemma foldM_cons : forall x l acc out,
    fold_left foldM_step (x :: l) (Ok acc) = Ok out ->
    exists acc1, g acc x = Ok acc1 /\ fold_left foldM_step l (Ok acc1) = Ok out.
  Proof.
    intros x l acc out H. cbn [fold_left] in H. unfold foldM_step at 2 in H. cbn [bind] in H.
    destruct (g acc x) as [acc1| |] eqn:E.
    - eauto.
    - rewrite foldM_err in H. discriminate.
    - rewrite foldM_oof in H. discriminate.
  Qed.

  Lemma foldM_inv : forall (Q : B -> Prop) l acc out,
    (forall acc e acc', In e l -> Q acc -> g acc e = Ok acc' -> Q acc') ->
    Q acc -> fold_left foldM_step l (Ok acc) = Ok out -> Q out.
  Proof.
    induction l as [|x l IH]; intros acc out Hg Ha H.
    - simpl in H. inversion H; subst; auto.
    - apply foldM_cons in H. destruct H as (acc1 & E & H).
      eapply IH; [|eapply Hg; [left; reflexivity|exact Ha|exact E]|exact H].
      intros; eapply Hg; eauto. right; auto.
  Qed.
End FoldM.

(* ---------- the classic algorithm, one step, in named pieces ---------- *)
Section ClassicUnfold.
  Variable mk : N -> N.
  Variable ev : tree -> res (option tree).

  Definition crec_t := Z -> tree -> res (option tree).

  Definition cq_requote2 (rec : crec_t) (op : N) (b : tree) (d : Z) : res tree :=
    e <- rec d b ;; requote_node mk op e.

  Definition cq_stepG (rec : crec_t) (depth : Z) (k : slot) (acc : list tree) (kid : tree) : res (list tree) :=
    let c := unwrap_trivial false kid in
    let dflt := (r <- rec depth c ;; append1 mk k acc r) in
    match unary_op c with
    | Some op =>
        if N.eqb op QUASIQUOTE then
          match qbody c with
          | Some b => q <- cq_requote2 rec op b (depth + 1) ;; append1 mk k acc (Some q)
          | None => Err
          end
        else if is_unq op then
          match unq_chain c with
          | None => Err
          | Some (ops, last) =>
              let ud := Z.of_nat (length ops) in
              if depth <? ud then Err
              else if ud <? depth then
                match qbody c with
                | Some b => q <- cq_requote2 rec op b (depth - 1) ;; append1 mk k acc (Some q)
                | None => Err
                end
              else
                match qbody last with
                | None => Err
                | Some lb =>
                    v <- ev (simplify_node mk lb true) ;;
                    let wr := firstn (length ops - 1) ops in
                    if N.eqb (last_op ops) UNQUOTE then
                      st <- dup mk wr v ;; append1 mk k acc st
                    else
                      match v with
                      | None => Ok acc
                      | Some (Slice _ _ _ xs) =>
                          fold_left (foldM_step (fun a1 e => st <- dup mk wr (Some e) ;; append1 mk k a1 st))
                                    xs (Ok acc)
                      | Some _ => Err
                      end
                end
          end
        else dflt
    | None => dflt
    end.

  Definition cq_slice (rec : crec_t) (depth : Z) (i : N) (s : stag) (a : list N) (kids : list tree) : res (option tree) :=
    out <- fold_left (foldM_step (cq_stepG rec depth (slot_of_stag s))) kids (Ok []) ;;
    Ok (Some (Slice (mk i) s a out)).

  Definition cq_general (rec : crec_t) (depth : Z) (i : N) (tg : tag) (a : list N) (kids : list (option tree))
    : res (option tree) :=
    kids' <- mapMi (fun idx o =>
                      match o with
                      | None => Ok None
                      | Some c =>
                          r <- rec depth c ;;
                          match r with
                          | None => Ok None
                          | Some x => y <- coerce mk (slot_of tg idx) x ;; Ok (Some y)
                          end
                      end) 0%nat kids ;;
    Ok (Some (Node (mk i) tg a kids')).

  Definition cq_node (rec : crec_t) (depth : Z) (i : N) (tg : tag) (a : list N) (kids : list (option tree))
    : res (option tree) :=
    match kids with
    | [] => Ok (Some (Node (mk i) tg a []))
    | _ =>
        match unary_op (Node i tg a kids) with
        | Some op =>
            if N.eqb op QUASIQUOTE then
              match qbody (Node i tg a kids) with
              | Some b => q <- cq_requote2 rec op b (depth + 1) ;; Ok (Some q)
              | None => Err
              end
            else if N.eqb op UNQUOTE then
              match qbody (Node i tg a kids) with
              | Some b =>
                  if depth <=? 1 then ev (simplify_node mk b true)
                  else q <- cq_requote2 rec op b (depth - 1) ;; Ok (Some q)
              | None => Err
              end
            else if N.eqb op UNQUOTE_SPLICE then Err
            else cq_general rec depth i tg a kids
        | None => cq_general rec depth i tg a kids
        end
    end.

  Definition cq_body (rec : crec_t) (depth : Z) (t : tree) : res (option tree) :=
    match t with
    | Slice i s a kids => cq_slice rec depth i s a kids
    | Node _ _ _ _ =>
        match unwrap_trivial true t with
        | Slice i s a kids => cq_slice rec depth i s a kids
        | Node i tg a kids => cq_node rec depth i tg a kids
        end
    end.

  Lemma cq_unfold : forall f d t, cq mk ev (S f) d t = cq_body (cq mk ev f) d t.
  Proof. intros f d t. destruct t; reflexivity. Qed.
End ClassicUnfold.

(* ---------- freshness ---------- *)
Section Fresh.
  Variable mk : N -> N.
  Variable ev : tree -> res (option tree).

  (* j is the identity of a node of a value produced by evaluating an unquoted expression *)
  Definition from_value (j : N) : Prop := exists x v, ev x = Ok (Some v) /\ In j (ids v).
  Definition fresh_id (j : N) : Prop := (exists i, j = mk i) \/ from_value j.
  Definition FreshT (t : tree) : Prop := forall j, In j (ids t) -> fresh_id j.
  Definition FreshO (o : option tree) : Prop := match o with Some x => FreshT x | None => True end.

  Lemma fresh_mk : forall i, fresh_id (mk i).
  Proof. intro i; left; eauto. Qed.
  Lemma fresh_fid : fresh_id (fid mk).
  Proof. apply fresh_mk. Qed.

  Lemma FreshT_node : forall i tg a k, fresh_id i -> Forall FreshO k -> FreshT (Node i tg a k).
  Proof.
    intros i tg a k Hi Hk j Hj. simpl in Hj. destruct Hj as [E|Hj]; [subst; auto|].
    apply in_flat_map in Hj. destruct Hj as (o & Ho & Hj).
    rewrite Forall_forall in Hk. specialize (Hk o Ho). destruct o as [x|]; [apply Hk; auto|destruct Hj].
  Qed.

  Lemma FreshT_slice : forall i s a k, fresh_id i -> Forall FreshT k -> FreshT (Slice i s a k).
  Proof.
    intros i s a k Hi Hk j Hj. simpl in Hj. destruct Hj as [E|Hj]; [subst; auto|].
    apply in_flat_map in Hj. destruct Hj as (o & Ho & Hj).
    rewrite Forall_forall in Hk. apply (Hk o Ho); auto.
  Qed.

  Lemma FreshT_node_inv : forall i tg a k, FreshT (Node i tg a k) -> Forall FreshO k.
  Proof.
    intros i tg a k H. apply Forall_forall. intros o Ho. destruct o as [x|]; simpl; auto.
    intros j Hj. apply H. simpl. right. apply in_flat_map. exists (Some x). auto.
  Qed.

  Lemma FreshT_slice_inv : forall i s a k, FreshT (Slice i s a k) -> Forall FreshT k.
  Proof.
    intros i s a k H. apply Forall_forall. intros x Hx j Hj. apply H. simpl. right.
    apply in_flat_map. exists x. auto.
  Qed.

  Ltac fr :=
    repeat first [ assumption | exact I | apply fresh_fid | apply fresh_mk
                 | apply Forall_nil | apply Forall_cons
                 | apply FreshT_node | apply FreshT_slice | progress cbn [FreshO] ].

  Lemma fresh_simplify1 : forall t, FreshT t -> FreshT (simplify1 t).
  Proof.
    intros t H. destruct t as [i tg a k|]; simpl; auto.
    destruct tg; auto; destruct k as [|[c|] [|? ?]]; auto;
      apply FreshT_node_inv in H; inversion H; subst; assumption.
  Qed.

  Lemma fresh_empty_stmt : FreshT (empty_stmt mk).
  Proof. unfold empty_stmt. fr. Qed.

  Lemma fresh_simplify_node : forall t uw, FreshT t -> FreshT (simplify_node mk t uw).
  Proof.
    intros t uw H. destruct t as [i tg a k|i s a k]; [exact (fresh_simplify1 _ H)|]. simpl.
    destruct s; try exact H.
    destruct uw; try exact H.
    destruct k as [|x [|y k]]; try exact H.
    - apply fresh_empty_stmt.
    - apply fresh_simplify1. apply FreshT_slice_inv in H. inversion H; auto.
  Qed.

  Lemma fresh_quote_form : forall op body, FreshT body -> FreshT (quote_form mk op body).
  Proof. intros. unfold quote_form, func_lit. fr. Qed.

  Lemma fresh_macro_wrap : forall body, FreshT body -> FreshT (macro_wrap mk body).
  Proof. intros. unfold macro_wrap, func_lit. fr. Qed.

  Lemma fresh_ident_nil : FreshT (ident_nil mk).
  Proof. unfold ident_nil. fr. Qed.

  Lemma fresh_to_stmt : forall x y, to_stmt mk x = Ok y -> FreshT x -> FreshT y.
  Proof.
    intros x y H Hx. unfold to_stmt in H. destruct (tree_cat x); inversion H; subst; unfold expr_stmt; fr.
  Qed.

  Lemma fresh_block_to_expr : forall b k, FreshT b -> Forall FreshT k -> FreshT (block_to_expr mk b k).
  Proof.
    intros b k Hb Hk. unfold block_to_expr.
    repeat match goal with |- context [match ?x with _ => _ end] => destruct x end;
      first [ apply fresh_ident_nil
            | apply fresh_macro_wrap; assumption
            | inversion Hk; subst;
              match goal with H : FreshT (Node _ _ _ _) |- _ =>
                apply FreshT_node_inv in H; inversion H; subst; assumption end ].
  Qed.

  Lemma fresh_to_expr : forall x y, to_expr mk x = Ok y -> FreshT x -> FreshT y.
  Proof.
    intros x y H Hx. unfold to_expr in H.
    assert (W : FreshT (macro_wrap mk (Slice (fid mk) SBlock [] [x]))) by (apply fresh_macro_wrap; fr).
    repeat match type of H with context [match ?z with _ => _ end] => destruct z end;
      try discriminate; inversion H; subst;
      first [ assumption | exact W | apply fresh_ident_nil
            | apply fresh_block_to_expr; [assumption|apply FreshT_slice_inv in Hx; assumption]
            | apply FreshT_node_inv in Hx; inversion Hx; subst; assumption ].
  Qed.

  Lemma fresh_to_block : forall x y, to_block mk x = Ok y -> FreshT x -> FreshT y.
  Proof.
    intros x y H Hx. unfold to_block in H.
    assert (G : (s <- to_stmt mk x ;; Ok (block_of mk [s])) = Ok y -> FreshT y).
    { intro H0. ibind H0 s Hs Hk. inversion Hk; subst. unfold block_of. fr. eapply fresh_to_stmt; eauto. }
    destruct x as [|i s a k]; auto. destruct s; auto. inversion H; subst; auto.
  Qed.

  Lemma fresh_only_tag : forall tg x y, only_tag tg x = Ok y -> FreshT x -> FreshT y.
  Proof.
    intros tg x y H Hx. unfold only_tag in H. destruct x; try discriminate.
    destruct (tag_beq t tg); inversion H; subst; auto.
  Qed.

  Lemma fresh_to_fieldlist : forall x y, to_fieldlist mk x = Ok y -> FreshT x -> FreshT y.
  Proof.
    intros x y H Hx. unfold to_fieldlist in H. destruct x as [i tg a k|i s a k].
    - destruct tg; inversion H; subst. fr.
    - destruct s; inversion H; subst; auto.
  Qed.

  Lemma fresh_mapM : forall (g : tree -> res tree) l l',
    (forall x y, g x = Ok y -> FreshT x -> FreshT y) -> mapM g l = Ok l' -> Forall FreshT l -> Forall FreshT l'.
  Proof.
    induction l as [|x l IH]; intros l' Hg H Hl; simpl in H.
    - inversion H; constructor.
    - ibind H y Hy Hk. ibind Hk ys Hys Hk2. inversion Hk2; subst. inversion Hl; subst. constructor; eauto.
  Qed.

  Lemma fresh_to_slice : forall s g x y,
    (forall x y, g x = Ok y -> FreshT x -> FreshT y) -> to_slice mk s g x = Ok y -> FreshT x -> FreshT y.
  Proof.
    intros s g x y Hg H Hx. destruct x as [|i s' a k]; simpl in H; [discriminate|].
    destruct (stag_beq s s').
    - inversion H; subst; auto.
    - ibind H k' Hm Hk. inversion Hk; subst. fr. eapply fresh_mapM; eauto. apply FreshT_slice_inv in Hx; auto.
  Qed.

  Lemma fresh_coerce : forall k x y, coerce mk k x = Ok y -> FreshT x -> FreshT y.
  Proof.
    intros k x y H Hx. destruct k; unfold coerce in H;
      try solve [eapply fresh_to_expr; eauto];
      try solve [eapply fresh_to_stmt; eauto];
      try solve [eapply fresh_to_block; eauto];
      try solve [eapply fresh_only_tag; eauto];
      try solve [eapply fresh_to_fieldlist; eauto];
      try solve [eapply fresh_to_slice; [|exact H|exact Hx];
                 first [apply fresh_to_expr | apply fresh_to_stmt | apply fresh_only_tag]];
      try solve [destruct (tree_cat x); inversion H; subst; auto];
      try solve [destruct (is_node x); inversion H; subst; auto];
      try discriminate.
  Qed.

  Lemma fresh_make_quote : forall op n q, make_quote mk op n = Ok q -> FreshO n -> FreshT q.
  Proof.
    intros op n q H Hn. unfold make_quote in H. destruct n as [n|].
    2:{ inversion H; subst. apply fresh_quote_form. unfold block_of. fr. }
    cbn [FreshO] in Hn.
    destruct n as [i tg a k|i s a k].
    - destruct (tree_cat (Node i tg a k)); inversion H; subst; apply fresh_quote_form; unfold block_of, expr_stmt; fr.
    - destruct s; cbn [tree_cat] in H; inversion H; subst; apply fresh_quote_form; unfold block_of, expr_stmt; fr.
  Qed.

  Lemma fresh_nest : forall ops e q, nest mk ops e = Ok q -> FreshT e -> FreshT q.
  Proof.
    induction ops as [|op ops IH]; intros e q H He; cbn [nest] in H.
    - inversion H; subst; auto.
    - ibind H inner Hi Hk. eapply fresh_make_quote; [exact Hk|]. cbn [FreshO]. eauto.
  Qed.

  Lemma fresh_dup : forall ops x y, dup mk ops x = Ok y -> FreshO x -> FreshO y.
  Proof.
    induction ops as [|op ops IH]; intros x y H Hx; cbn [dup] in H.
    - inversion H; subst; auto.
    - ibind H inner Hi Hk. specialize (IH _ _ Hi Hx). destruct inner as [z|].
      + ibind Hk s Hs Hk2. inversion Hk2; subst. cbn [FreshO]. apply fresh_quote_form. unfold block_of. fr.
        eapply fresh_to_stmt; eauto.
      + inversion Hk; subst. cbn [FreshO]. apply fresh_quote_form. unfold block_of. fr.
  Qed.

  Lemma fresh_splice_into : forall k acc r acc',
    splice_into mk k acc r = Ok acc' -> Forall FreshT acc -> FreshO (fst r) -> Forall FreshT acc'.
  Proof.
    intros k acc [[x|] fl] acc' H Ha Hr; unfold splice_into in H; cbn [fst FreshO] in Hr.
    2:{ inversion H; subst; auto. }
    destruct fl.
    - destruct x as [|i s a xs]; [discriminate|]. ibind H ys Hm Hk. inversion Hk; subst.
      apply Forall_app; split; auto. eapply fresh_mapM; [|exact Hm|].
      + intros; eapply fresh_coerce; eauto.
      + apply FreshT_slice_inv in Hr; auto.
    - ibind H y Hy Hk. inversion Hk; subst. apply Forall_app; split; auto.
      constructor; [|constructor]. eapply fresh_coerce; eauto.
  Qed.

  Lemma fresh_splice_all : forall k rs acc out,
    splice_all mk k acc rs = Ok out -> Forall FreshT acc -> Forall (fun r => FreshO (fst r)) rs -> Forall FreshT out.
  Proof.
    induction rs as [|r rs IH]; intros acc out H Ha Hr; cbn [splice_all] in H.
    - inversion H; subst; auto.
    - ibind H acc1 H1 Hk. inversion Hr; subst. eapply IH; eauto. eapply fresh_splice_into; eauto.
  Qed.

  Lemma fresh_requote_node : forall op x q, requote_node mk op x = Ok q -> FreshO x -> FreshT q.
  Proof.
    intros op x q H Hx. unfold requote_node in H. destruct x as [y|]; [|discriminate].
    destruct (is_node y); [|discriminate]. eapply fresh_make_quote; eauto.
  Qed.

  Lemma fresh_qus : forall op x q, quote_unquote_splice mk op x = Ok q -> FreshO x -> FreshT q.
  Proof.
    intros op x q H Hx. unfold quote_unquote_splice in H. destruct x as [y|]; [|eapply fresh_make_quote; eauto].
    destruct (is_node y); [eapply fresh_make_quote; eauto|].
    destruct y as [|i s a xs]; [discriminate|]. ibind H items Hm Hk.
    eapply fresh_make_quote; [exact Hk|]. cbn [FreshO] in *. unfold block_of. fr.
    eapply fresh_mapM; [|exact Hm|].
    - intros; eapply fresh_to_stmt; eauto.
    - apply FreshT_slice_inv in Hx; auto.
  Qed.

  Lemma fresh_requote : forall op x r, requote mk op x = Ok r -> FreshO x -> FreshO (fst r).
  Proof.
    intros op x r H Hx. unfold requote in H. destruct (N.eqb op UNQUOTE_SPLICE); ibind H q Hq Hk; inversion Hk; subst;
      cbn [fst FreshO]; [eapply fresh_qus|eapply fresh_requote_node]; eauto.
  Qed.

  Lemma fresh_deep_result : forall ws v r, deep_result mk ws v = Ok r -> FreshO v -> FreshO (fst r).
  Proof.
    intros ws v r H Hv. unfold deep_result in H. destruct v as [v|].
    2:{ inversion H; subst. cbn [fst FreshO]. unfold block_of. fr. }
    destruct v as [|i s a xs]; [discriminate|]. ibind H items Hm Hk. inversion Hk; subst.
    cbn [fst FreshO] in *. unfold block_of. fr.
    apply FreshT_slice_inv in Hv.
    eapply fresh_mapM; [|exact Hm|exact Hv]. cbv beta. intros x y Hxy Hx.
    destruct (is_node x); [|discriminate]. ibind Hxy q Hq Hs.
    eapply fresh_to_stmt; eauto. eapply fresh_nest; eauto.
  Qed.

  Lemma ev_fresh : forall x v, ev x = Ok v -> FreshO v.
  Proof. intros x [v|] H; simpl; auto. intros j Hj. right. exists x, v. auto. Qed.

  Lemma fresh_qq_general : forall (rec : rec_t) d t r,
    (forall d' t' r', rec d' t' = Ok r' -> FreshO (fst r')) -> qq_general mk rec d t = Ok r -> FreshO (fst r).
  Proof.
    intros rec d t r Hrec H. destruct t as [i tg ats ks|i s ats ks]; simpl in H.
    - ibind H kids' Hm Hk. inversion Hk; subst. cbn [fst FreshO]. fr.
      eapply mapMi_forall; [|exact Hm]. cbv beta. intros j o y _ Ho.
      destruct o as [c|]; [|inversion Ho; subst; exact I].
      ibind Ho r0 Hr0 Hk0. specialize (Hrec _ _ _ Hr0).
      destruct (fst r0) as [x|]; [|inversion Hk0; subst; exact I].
      ibind Hk0 y0 Hy0 Hk1. inversion Hk1; subst. cbn [FreshO] in *. eapply fresh_coerce; eauto.
    - ibind H rs Hm Hk. ibind Hk out Ho Hk2. inversion Hk2; subst. cbn [fst FreshO]. fr.
      eapply fresh_splice_all; [exact Ho|constructor|].
      eapply mapM_forall; [|exact Hm]. cbv beta. intros x y _ Hx. eapply Hrec; eauto.
  Qed.

  Lemma fresh_fq : forall f d t r, fq mk ev f d t = Ok r -> FreshO (fst r).
  Proof.
    induction f as [|f IH]; intros d t r H; [discriminate|]. simpl in H. unfold fq_body in H.
    destruct (quote_head t) as [op|].
    2:{ eapply fresh_qq_general; [|exact H]. intros; eapply IH; eauto. }
    destruct (deep_chain op d t) as [[ops last]|].
    - destruct (qbody last) as [lb|]; [|discriminate]. ibind H v Hv Hk.
      eapply fresh_deep_result; eauto. eapply ev_fresh; eauto.
    - destruct (qbody t) as [b|]; [|discriminate]. cbv zeta in H.
      match type of H with (if ?c then _ else _) = _ => destruct c end.
      + ibind H v Hv Hk. inversion Hk; subst. cbn [fst]. eapply ev_fresh; eauto.
      + ibind H r0 Hr Hk. eapply fresh_requote; eauto.
  Qed.

  Lemma fresh_fast_qq : forall f u r, fast_qq mk ev f u = Ok r -> FreshO r.
  Proof.
    intros f u r H. unfold fast_qq in H. destruct (qbody u) as [block|]; [|discriminate]. cbv zeta in H.
    assert (D : (r0 <- fq mk ev f 1 (simplify_node mk block true) ;; Ok (fst r0)) = Ok r -> FreshO r).
    { intros H'. ibind H' r0 Hr Hk. inversion Hk; subst. eapply fresh_fq; eauto. }
    destruct block as [|i s a ks]; [auto|].
    destruct s; auto. destruct ks as [|c [|c2 ks]]; auto.
    destruct (unary_op (simplify_node mk c false)) as [op|]; auto.
    destruct (is_unq op); auto.
    ibind H r0 Hr Hk. apply fresh_fq in Hr.
    destruct (N.eqb op UNQUOTE_SPLICE). { inversion Hk; subst; auto. }
    destruct (fst r0) as [x|]; [|discriminate]. destruct (is_node x); inversion Hk; subst.
    cbn [FreshO] in *. apply fresh_simplify_node; auto.
  Qed.

  (* ---- classic ---- *)
  Lemma fresh_append1 : forall k acc x acc',
    append1 mk k acc x = Ok acc' -> Forall FreshT acc -> FreshO x -> Forall FreshT acc'.
  Proof.
    intros k acc x acc' H Ha Hx. unfold append1 in H. destruct x as [y|]; [|discriminate].
    ibind H z Hz Hk. inversion Hk; subst. apply Forall_app; split; auto. constructor; [|constructor].
    eapply fresh_coerce; eauto.
  Qed.

  Lemma fresh_cq_requote2 : forall (rec : crec_t) op b d q,
    (forall d' t' r', rec d' t' = Ok r' -> FreshO r') -> cq_requote2 mk rec op b d = Ok q -> FreshT q.
  Proof.
    intros rec op b d q Hrec H. unfold cq_requote2 in H. ibind H e He Hk.
    eapply fresh_requote_node; eauto.
  Qed.

  Lemma fresh_cq_stepG : forall (rec : crec_t) d k acc kid acc',
    (forall d' t' r', rec d' t' = Ok r' -> FreshO r') ->
    cq_stepG mk ev rec d k acc kid = Ok acc' -> Forall FreshT acc -> Forall FreshT acc'.
  Proof.
    intros rec d k acc kid acc' Hrec H Ha. unfold cq_stepG in H. cbv zeta in H.
    set (c := unwrap_trivial false kid) in *.
    assert (D : (r <- rec d c ;; append1 mk k acc r) = Ok acc' -> Forall FreshT acc').
    { intros H0. ibind H0 r Hr Hk. eapply fresh_append1; eauto. }
    assert (RQ : forall op b d', (q <- cq_requote2 mk rec op b d' ;; append1 mk k acc (Some q)) = Ok acc' ->
                                 Forall FreshT acc').
    { intros op b d' H0. ibind H0 q Hq Hk. eapply fresh_append1; eauto. cbn [FreshO].
      eapply fresh_cq_requote2; eauto. }
    destruct (unary_op c) as [op|]; [|auto].
    destruct (N.eqb op QUASIQUOTE).
    { destruct (qbody c) as [b|]; [|discriminate]. eapply RQ; eauto. }
    destruct (is_unq op); [|auto].
    destruct (unq_chain c) as [[ops last]|]; [|discriminate].
    destruct (d <? Z.of_nat (length ops)); [discriminate|].
    destruct (Z.of_nat (length ops) <? d).
    { destruct (qbody c) as [b|]; [|discriminate]. eapply RQ; eauto. }
    destruct (qbody last) as [lb|]; [|discriminate].
    ibind H v Hv Hk. apply ev_fresh in Hv.
    destruct (N.eqb (last_op ops) UNQUOTE).
    { ibind Hk st Hst Hk2. eapply fresh_append1; eauto. eapply fresh_dup; eauto. }
    destruct v as [v|]; [|inversion Hk; subst; auto].
    destruct v as [|vi vs va xs]; [discriminate|].
    cbn [FreshO] in Hv. apply FreshT_slice_inv in Hv.
    eapply (foldM_inv _ (Forall FreshT)); [|exact Ha|exact Hk].
    cbv beta. intros acc0 e acc1 He Ha0 Hg. ibind Hg st Hst Hk2.
    eapply fresh_append1; eauto. eapply fresh_dup; eauto. cbn [FreshO].
    rewrite Forall_forall in Hv. auto.
  Qed.

  Lemma fresh_cq_slice : forall (rec : crec_t) d i s a kids r,
    (forall d' t' r', rec d' t' = Ok r' -> FreshO r') -> cq_slice mk ev rec d i s a kids = Ok r -> FreshO r.
  Proof.
    intros rec d i s a kids r Hrec H. unfold cq_slice in H. ibind H out Ho Hk. inversion Hk; subst.
    cbn [FreshO]. fr.
    eapply (foldM_inv _ (Forall FreshT)); [|constructor|exact Ho].
    intros acc e acc' _ Ha He. eapply fresh_cq_stepG; eauto.
  Qed.

  Lemma fresh_cq_general : forall (rec : crec_t) d i tg a kids r,
    (forall d' t' r', rec d' t' = Ok r' -> FreshO r') -> cq_general mk rec d i tg a kids = Ok r -> FreshO r.
  Proof.
    intros rec d i tg a kids r Hrec H. unfold cq_general in H. ibind H kids' Hm Hk. inversion Hk; subst.
    cbn [FreshO]. fr.
    eapply mapMi_forall; [|exact Hm]. cbv beta. intros j o y _ Ho.
    destruct o as [c|]; [|inversion Ho; subst; exact I].
    ibind Ho r0 Hr0 Hk0. specialize (Hrec _ _ _ Hr0).
    destruct r0 as [x|]; [|inversion Hk0; subst; exact I].
    ibind Hk0 y0 Hy0 Hk1. inversion Hk1; subst. cbn [FreshO] in *. eapply fresh_coerce; eauto.
  Qed.

  Lemma fresh_cq_node : forall (rec : crec_t) d i tg a kids r,
    (forall d' t' r', rec d' t' = Ok r' -> FreshO r') -> cq_node mk ev rec d i tg a kids = Ok r -> FreshO r.
  Proof.
    intros rec d i tg a kids r Hrec H. unfold cq_node in H.
    destruct kids as [|k0 kids]. { inversion H; subst. cbn [FreshO]. fr. }
    set (ks := k0 :: kids) in *.
    assert (RQ : forall op b d', (q <- cq_requote2 mk rec op b d' ;; Ok (Some q)) = Ok r -> FreshO r).
    { intros op b d' H0. ibind H0 q Hq Hk. inversion Hk; subst. cbn [FreshO]. eapply fresh_cq_requote2; eauto. }
    destruct (unary_op (Node i tg a ks)) as [op|]; [|eapply fresh_cq_general; eauto].
    destruct (N.eqb op QUASIQUOTE).
    { destruct (qbody (Node i tg a ks)) as [b|]; [|discriminate]. eapply RQ; eauto. }
    destruct (N.eqb op UNQUOTE).
    { destruct (qbody (Node i tg a ks)) as [b|]; [|discriminate].
      destruct (d <=? 1); [eapply ev_fresh; eauto|eapply RQ; eauto]. }
    destruct (N.eqb op UNQUOTE_SPLICE); [discriminate|]. eapply fresh_cq_general; eauto.
  Qed.

  Lemma fresh_cq : forall f d t r, cq mk ev f d t = Ok r -> FreshO r.
  Proof.
    induction f as [|f IH]; intros d t r H; [discriminate|]. rewrite cq_unfold in H. unfold cq_body in H.
    destruct t as [i tg a ks|i s a ks]; [|eapply fresh_cq_slice; eauto].
    destruct (unwrap_trivial true (Node i tg a ks)) as [i' tg' a' ks'|i' s' a' ks'];
      [eapply fresh_cq_node; eauto|eapply fresh_cq_slice; eauto].
  Qed.

  Lemma fresh_classic_qq : forall f u r, classic_qq mk ev f u = Ok r -> FreshO r.
  Proof.
    intros f u r H. unfold classic_qq in H. destruct (qbody u) as [block|]; [|discriminate]. cbv zeta in H.
    ibind H r0 Hr Hk. apply fresh_cq in Hr. destruct r0 as [x|]; [|discriminate].
    destruct (is_node x); inversion Hk; subst. cbn [FreshO] in *. apply fresh_simplify_node; auto.
  Qed.
End Fresh.

(* ---------- the statements used in Props.v ---------- *)
(* every node identity of the result was allocated by the algorithm (range of mk) or belongs to an unquoted value *)
Lemma fresh_tree : forall mk ev fuel u r,
  fast_qq mk ev fuel u = Ok (Some r) \/ classic_qq mk ev fuel u = Ok (Some r) ->
  forall j, In j (ids r) ->
    (exists i, j = mk i) \/ (exists x v, ev x = Ok (Some v) /\ In j (ids v)).
Proof.
  intros mk ev fuel u r [H|H] j Hj.
  - apply (fresh_fast_qq mk ev) in H. exact (H j Hj).
  - apply (fresh_classic_qq mk ev) in H. exact (H j Hj).
Qed.

(* allocation never returns an object of the template  ==>  a node of the template can reappear in the result only
   inside a value that an unquoted expression evaluated to (values are inserted by reference, not copied) *)
Lemma fresh_tree_no_sharing : forall mk ev fuel u r,
  (forall i, ~ In (mk i) (ids u)) ->
  fast_qq mk ev fuel u = Ok (Some r) \/ classic_qq mk ev fuel u = Ok (Some r) ->
  forall j, In j (ids r) -> In j (ids u) -> exists x v, ev x = Ok (Some v) /\ In j (ids v).
Proof.
  intros mk ev fuel u r Hmk H j Hj Hu.
  destruct (fresh_tree mk ev fuel u r H j Hj) as [[i E]|Hv]; auto.
  subst j. exfalso. exact (Hmk i Hu).
Qed.

(* ... and a value IS shared: non-vacuity / sharpness.  Template ids 0, allocator range >= 1000, value id 77 *)
Definition mk_1000 (i : N) : N := (1000 + i)%N.
Definition sh_val : tree := Node 77 TIdent [20%N] [].
Definition sh_env : list (N * tree) := [(11%N, sh_val)].
Definition sh_unq (op : N) (x : tree) : tree :=
  Node 0 TUnaryExpr [op]
    [Some (Node 0 TFuncLit [] [Some (Node 0 TFuncType [] [Some (Slice 0 SFieldList [] []); None]);
                               Some (Slice 0 SBlock [] [Node 0 TExprStmt [] [Some x]])])].
(* ~quasiquote{ f(~unquote{v}) } *)
Definition sh_tmpl : tree :=
  sh_unq QUASIQUOTE (Node 0 TCallExpr [0%N]
     [Some (Node 0 TIdent [30%N] []); Some (Slice 0 SExprs [] [sh_unq UNQUOTE (Node 0 TIdent [11%N] [])])]).

Lemma fresh_example :
  (forall i, ~ In (mk_1000 i) (ids sh_tmpl)) /\
  exists r, fast_qq mk_1000 (ev_of sh_env) 40 sh_tmpl = Ok (Some r) /\
            classic_qq mk_1000 (ev_of sh_env) 40 sh_tmpl = Ok (Some r) /\
            In 77%N (ids r) /\ ~ In 0%N (ids r).
Proof.
  split.
  - assert (Z0 : forall j, In j (ids sh_tmpl) -> j = 0%N).
    { intros j Hj. vm_compute in Hj. repeat (destruct Hj as [Hj|Hj]; [auto|]). contradiction. }
    intros i H. apply Z0 in H. unfold mk_1000 in H. lia.
  - eexists. split; [vm_compute; reflexivity|]. split; [vm_compute; reflexivity|].
    split; vm_compute; [tauto|]. intros H. repeat (destruct H as [H|H]; [discriminate|]). exact H.
Qed.

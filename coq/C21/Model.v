(* C21 — executable model of quote / quasiquote in both interpreters, over Common.Rose trees.
   Modelled code (read from /repo):
     fast/unary.go        Comp.UnaryExpr QUOTE case                  -> fast_quote
     fast/quasiquote.go   Comp.quasiquoteUnary, Comp.quasiquote      -> fast_qq, fq   (the three cases: AstWithSlice,
                          quote-like UnaryExpr with the deep-splice path, general AstWithNode), quoteUnquoteSplice
     base/quasiquote.go   SimplifyNodeForQuote/SimplifyAstForQuote   -> simplify_node / simplify1
                          unwrapTrivialAst2                          -> unwrap_trivial
                          DescendNestedUnquotes+CollectNestedUnquotes-> chain_in / unq_chain (one loop, two projections)
                          MakeNestedQuote, DuplicateNestedUnquotes   -> nest, dup
     go/parser/quote.go   MakeQuote                                  -> make_quote
     ast2/unwrap.go       ToStmt, ToExpr, ToBlockStmt, ... (coercions applied by Set/Append) -> coerce
     ast2/ast_node.go     Set(i, child) slot table                   -> slot_of
     classic/quasiquote.go evalQuote, evalQuasiquote, evalQuasiquoteAst -> classic_quote, classic_qq, cq
   The compile-then-run staging of the fast interpreter is collapsed (closures are applied at once);
   evaluation of the expression inside ~unquote is the Section variable [ev]; New() allocating an object is
   modelled by relabelling the id with the Section variable [mk].
   The classic model is the code *after* fixes/C21-1.diff (leaf nodes copied with New(), DeclStmt that unwraps to a
   GenDecl handled as a slice) and MakeQuote is the code after fixes/C21-3.diff (ast.Decl case).  Go nil list elements are not represented: appending nil is Err.
   Definitions only. *)
From Coq Require Import List NArith ZArith Bool.
From Verif Require Import Common.Rose.
Import ListNotations.
Open Scope Z_scope.

(* token values (go/token + go/etoken); the harness asserts them at start-up *)
Definition QUOTE : N := 128.
Definition QUASIQUOTE : N := 129.
Definition UNQUOTE : N := 130.
Definition UNQUOTE_SPLICE : N := 131.
Definition MACRO : N := 132.
Definition DEFINE : N := 47.
Definition A_nil : N := 1.          (* interned identifier name "nil" *)

Definition is_unq (op : N) : bool := N.eqb op UNQUOTE || N.eqb op UNQUOTE_SPLICE.
Definition is_quote_op (op : N) : bool :=
  N.eqb op QUOTE || N.eqb op QUASIQUOTE || N.eqb op UNQUOTE || N.eqb op UNQUOTE_SPLICE.

Definition unary_op (t : tree) : option N :=
  match t with Node _ TUnaryExpr (op :: _) _ => Some op | _ => None end.

(* in.Get(0).Get(1): the body block of op{...} represented as  op (func() { body }) *)
Definition qbody (t : tree) : option tree :=
  match t with
  | Node _ TUnaryExpr _ [Some (Node _ TFuncLit _ [_; Some b])] => Some b
  | _ => None
  end.

(* ---------- categories of go/ast nodes (which Go interface a node implements) ---------- *)
Inductive cat := CExpr | CStmt | CDecl | CSpec | CFld | COther | CNone.

Definition tag_cat (t : tag) : cat :=
  match t with
  | TArrayType | TBadExpr | TBasicLit | TBinaryExpr | TCallExpr | TChanType | TCompositeLit | TEllipsis | TFuncLit
  | TFuncType | TIdent | TIndexExpr | TInterfaceType | TKeyValueExpr | TMapType | TParenExpr | TSelectorExpr
  | TSliceExpr | TStarExpr | TStructType | TTypeAssertExpr | TUnaryExpr => CExpr
  | TAssignStmt | TBadStmt | TBranchStmt | TCaseClause | TCommClause | TDeclStmt | TDeferStmt | TEmptyStmt
  | TExprStmt | TForStmt | TGoStmt | TIfStmt | TIncDecStmt | TLabeledStmt | TRangeStmt | TSelectStmt | TSendStmt
  | TSwitchStmt | TTypeSwitchStmt => CStmt
  | TBadDecl | TFuncDecl => CDecl
  | TImportSpec | TTypeSpec | TValueSpec => CSpec
  | TField => CFld
  end.

Definition tree_cat (t : tree) : cat :=
  match t with
  | Node _ tg _ _ => tag_cat tg
  | Slice _ SBlock _ _ | Slice _ SReturn _ _ => CStmt
  | Slice _ SGenDecl _ _ => CDecl
  | Slice _ SFieldList _ _ | Slice _ SFile _ _ => COther
  | Slice _ _ _ _ => CNone          (* bare slices are not ast.Node *)
  end.

(* ---------- base/quasiquote.go: simplification ---------- *)
(* SimplifyAstForQuote(in, false) / the wrapper cases of SimplifyNodeForQuote: exactly one wrapper is removed *)
Definition simplify1 (t : tree) : tree :=
  match t with
  | Node _ TExprStmt _ [Some x] | Node _ TParenExpr _ [Some x] | Node _ TDeclStmt _ [Some x] => x
  | _ => t
  end.

Section Model.
  Variable mk : N -> N.                       (* New(): id of the object allocated from the node with this id *)
  Variable ev : tree -> res (option tree).    (* value of the expression inside ~unquote{..}; Ok None = Go nil *)

  Definition fid : N := mk 0.                 (* id of nodes created from nothing (MakeQuote, wrappers) *)

  Definition block_of (l : list tree) : tree := Slice fid SBlock [] l.
  Definition func_lit (body : tree) : tree :=
    Node fid TFuncLit [] [Some (Node fid TFuncType [] [Some (Slice fid SFieldList [] []); None]); Some body].
  Definition quote_form (op : N) (body : tree) : tree := Node fid TUnaryExpr [op] [Some (func_lit body)].
  Definition expr_stmt (x : tree) : tree := Node fid TExprStmt [] [Some x].
  Definition ident_nil : tree := Node fid TIdent [A_nil] [].
  Definition empty_stmt : tree := Node fid TEmptyStmt [0%N] [].

  (* SimplifyNodeForQuote(in, unwrapTrivialBlocks) *)
  Definition simplify_node (t : tree) (uw : bool) : tree :=
    match t with
    | Slice _ SBlock _ k =>
        if uw then match k with [] => empty_stmt | [x] => simplify1 x | _ => t end else t
    | _ => simplify1 t
    end.

  (* go/parser MakeQuote(nil, op, pos, node) *)
  Definition make_quote (op : N) (node : option tree) : res tree :=
    match node with
    | None => Ok (quote_form op (block_of []))
    | Some n =>
        match n with
        | Slice _ SBlock _ _ => Ok (quote_form op n)
        | _ => match tree_cat n with
               | CStmt => Ok (quote_form op (block_of [n]))
               | CExpr => Ok (quote_form op (block_of [expr_stmt n]))
               | CDecl => Ok (quote_form op (block_of [Node fid TDeclStmt [] [Some n]]))   (* fixes/C21-3 *)
               | _ => Err
               end
        end
    end.

  (* ---------- ast2/unwrap.go coercions ---------- *)
  Definition macro_wrap (body : tree) : tree := Node fid TUnaryExpr [MACRO] [Some (func_lit body)].

  Definition to_stmt (x : tree) : res tree :=
    match tree_cat x with
    | CStmt => Ok x
    | CDecl => Ok (Node fid TDeclStmt [] [Some x])
    | CExpr => Ok (expr_stmt x)
    | _ => Err
    end.

  Definition block_to_expr (b : tree) (k : list tree) : tree :=
    match k with
    | [] => ident_nil
    | [Node _ TExprStmt _ [Some e]] => e
    | [Node _ TEmptyStmt _ _] => ident_nil
    | _ => macro_wrap b
    end.

  Definition to_expr (x : tree) : res tree :=
    match tree_cat x with
    | CExpr => Ok x
    | CStmt =>
        match x with
        | Slice _ SBlock _ k => Ok (block_to_expr x k)
        | Node _ TEmptyStmt _ _ => Ok ident_nil
        | Node _ TExprStmt _ [Some e] => Ok e
        | _ => Ok (macro_wrap (Slice fid SBlock [] [x]))
        end
    | _ => Err
    end.

  Definition to_block (x : tree) : res tree :=
    match x with
    | Slice _ SBlock _ _ => Ok x
    | _ => s <- to_stmt x ;; Ok (block_of [s])
    end.

  Definition only_tag (tg : tag) (x : tree) : res tree :=
    match x with Node _ t _ _ => if tag_beq t tg then Ok x else Err | _ => Err end.

  Definition to_fieldlist (x : tree) : res tree :=
    match x with
    | Slice _ SFieldList _ _ => Ok x
    | Node _ TField _ _ => Ok (Slice fid SFieldList [] [x])
    | _ => Err
    end.

  Definition to_slice (s : stag) (f : tree -> res tree) (x : tree) : res tree :=
    match x with
    | Slice i s' a k => if stag_beq s s' then Ok x else (k' <- mapM f k ;; Ok (Slice fid s [] k'))
    | _ => Err
    end.

  Inductive slot := KExpr | KStmt | KBlock | KDecl | KSpec | KField | KFieldList | KIdent | KBasicLit | KCall
                  | KFuncType | KExprs | KStmts | KIdents | KNode | KBad.

  Definition coerce (k : slot) (x : tree) : res tree :=
    match k with
    | KExpr => to_expr x
    | KStmt => to_stmt x
    | KBlock => to_block x
    | KDecl => match tree_cat x with CDecl => Ok x | _ => Err end
    | KSpec => match tree_cat x with CSpec => Ok x | _ => Err end
    | KField => only_tag TField x
    | KFieldList => to_fieldlist x
    | KIdent => only_tag TIdent x
    | KBasicLit => only_tag TBasicLit x
    | KCall => only_tag TCallExpr x
    | KFuncType => only_tag TFuncType x
    | KExprs => to_slice SExprs to_expr x
    | KStmts => to_slice SStmts to_stmt x
    | KIdents => to_slice SIdents (only_tag TIdent) x
    | KNode => if is_node x then Ok x else Err
    | KBad => Err
    end.

  (* Append(child) of each AstWithSlice *)
  Definition slot_of_stag (s : stag) : slot :=
    match s with
    | SBlock | SStmts => KStmt
    | SFieldList | SFields => KField
    | SFile | SDecls => KDecl
    | SGenDecl | SSpecs => KSpec
    | SReturn | SExprs => KExpr
    | SIdents => KIdent
    | SNodes => KNode
    end.

  (* Set(i, child) of each AstWithNode (ast2/ast_node.go) *)
  Definition slot_of (tg : tag) (i : nat) : slot :=
    match tg, i with
    | TArrayType, (0 | 1)%nat => KExpr
    | TAssignStmt, (0 | 1)%nat => KExprs
    | TBinaryExpr, (0 | 1)%nat => KExpr
    | TBranchStmt, 0%nat => KIdent
    | TCallExpr, 0%nat => KExpr | TCallExpr, 1%nat => KExprs
    | TCaseClause, 0%nat => KExprs | TCaseClause, 1%nat => KStmts
    | TChanType, 0%nat => KExpr
    | TCommClause, 0%nat => KStmt | TCommClause, 1%nat => KStmts
    | TCompositeLit, 0%nat => KExpr | TCompositeLit, 1%nat => KExprs
    | TDeclStmt, 0%nat => KDecl
    | TDeferStmt, 0%nat => KCall
    | TEllipsis, 0%nat => KExpr
    | TExprStmt, 0%nat => KExpr
    | TField, 0%nat => KIdents | TField, 1%nat => KExpr | TField, 2%nat => KBasicLit
    | TForStmt, 0%nat => KStmt | TForStmt, 1%nat => KExpr | TForStmt, 2%nat => KStmt | TForStmt, 3%nat => KBlock
    | TFuncDecl, 0%nat => KFieldList | TFuncDecl, 1%nat => KIdent | TFuncDecl, 2%nat => KFuncType
    | TFuncDecl, 3%nat => KBlock
    | TFuncLit, 0%nat => KFuncType | TFuncLit, 1%nat => KBlock
    | TFuncType, (0 | 1)%nat => KFieldList
    | TGoStmt, 0%nat => KCall
    | TIfStmt, 0%nat => KStmt | TIfStmt, 1%nat => KExpr | TIfStmt, 2%nat => KBlock | TIfStmt, 3%nat => KStmt
    | TImportSpec, 0%nat => KIdent | TImportSpec, 1%nat => KBasicLit
    | TIncDecStmt, 0%nat => KExpr
    | TIndexExpr, (0 | 1)%nat => KExpr
    | TInterfaceType, 0%nat => KFieldList
    | TKeyValueExpr, (0 | 1)%nat => KExpr
    | TLabeledStmt, 0%nat => KIdent | TLabeledStmt, 1%nat => KStmt
    | TMapType, (0 | 1)%nat => KExpr
    | TParenExpr, 0%nat => KExpr
    | TRangeStmt, (0 | 1 | 2)%nat => KExpr | TRangeStmt, 3%nat => KBlock
    | TSelectStmt, 0%nat => KBlock
    | TSelectorExpr, 0%nat => KExpr | TSelectorExpr, 1%nat => KIdent
    | TSendStmt, (0 | 1)%nat => KExpr
    | TSliceExpr, (0 | 1 | 2 | 3)%nat => KExpr
    | TStarExpr, 0%nat => KExpr
    | TStructType, 0%nat => KFieldList
    | TSwitchStmt, 0%nat => KStmt | TSwitchStmt, 1%nat => KExpr | TSwitchStmt, 2%nat => KBlock
    | TTypeAssertExpr, (0 | 1)%nat => KExpr
    | TTypeSpec, 0%nat => KIdent | TTypeSpec, 1%nat => KExpr
    | TTypeSwitchStmt, (0 | 1)%nat => KStmt | TTypeSwitchStmt, 2%nat => KBlock
    | TUnaryExpr, 0%nat => KExpr
    | TValueSpec, 0%nat => KIdents | TValueSpec, 1%nat => KExpr | TValueSpec, 2%nat => KExprs
    | _, _ => KBad
    end.

  (* ---------- unwrapTrivialAst2(in, unwrapTrivialBlockStmt) ---------- *)
  Definition is_decl_or_define (c : tree) : bool :=
    match c with
    | Node _ TDeclStmt _ _ => true
    | Node _ TAssignStmt (tok :: _) _ => N.eqb tok DEFINE
    | _ => false
    end.

  Fixpoint unwrap_trivial (uw : bool) (t : tree) : tree :=
    match t with
    | Slice _ SBlock _ [c] => if uw then (if is_decl_or_define c then t else unwrap_trivial uw c) else t
    | Node _ TParenExpr _ [Some c] | Node _ TExprStmt _ [Some c] | Node _ TDeclStmt _ [Some c] => unwrap_trivial uw c
    | _ => t
    end.

  (* the loop shared by DescendNestedUnquotes and CollectNestedUnquotes: starting from something that
     UnwrapTrivialAst turns into ~unquote / ~unquote_splice, follow single-statement bodies; returns the operator
     sequence (CollectNestedUnquotes) and the last unquote (DescendNestedUnquotes; its depth = length of the sequence) *)
  Fixpoint chain_in (t : tree) : option (list N * tree) :=
    match t with
    | Slice _ SBlock _ [c] => if is_decl_or_define c then None else chain_in c
    | Node _ TParenExpr _ [Some c] | Node _ TExprStmt _ [Some c] | Node _ TDeclStmt _ [Some c] => chain_in c
    | Node _ TUnaryExpr (op :: _) [Some (Node _ TFuncLit _ [_; Some body])] =>
        if is_unq op then
          Some (match body with
                | Slice _ SBlock _ [c] =>
                    match chain_in c with Some (ops, last) => (op :: ops, last) | None => ([op], t) end
                | _ => ([op], t)
                end)
        else None
    | _ => None
    end.

  Definition unq_chain (t : tree) : option (list N * tree) :=
    match unary_op t with
    | Some op => if is_unq op then chain_in t else None
    | None => None
    end.

  (* MakeNestedQuote(form, toks, pos) *)
  Fixpoint nest (ops : list N) (e : tree) : res tree :=
    match ops with
    | [] => Ok e
    | op :: rest => inner <- nest rest e ;; make_quote op (Some inner)
    end.

  (* DuplicateNestedUnquotes(src, depth, toappend): ops = the first `depth` operators of src's chain *)
  Fixpoint dup (ops : list N) (x : option tree) : res (option tree) :=
    match ops with
    | [] => Ok x
    | op :: rest =>
        inner <- dup rest x ;;
        match inner with
        | None => Ok (Some (quote_form op (block_of [])))
        | Some y => s <- to_stmt y ;; Ok (Some (quote_form op (block_of [s])))
        end
    end.

  Fixpoint mapMi {A B} (f : nat -> A -> res B) (i : nat) (l : list A) : res (list B) :=
    match l with
    | [] => Ok []
    | x :: l' => y <- f i x ;; ys <- mapMi f (S i) l' ;; Ok (y :: ys)
    end.

  (* run-time part of the AstWithSlice case: append one result (splice flag tells whether to spread it) *)
  Definition splice_into (k : slot) (acc : list tree) (r : option tree * bool) : res (list tree) :=
    match r with
    | (None, _) => Ok acc
    | (Some x, false) => y <- coerce k x ;; Ok (acc ++ [y])
    | (Some x, true) =>
        match x with
        | Slice _ _ _ xs => ys <- mapM (coerce k) xs ;; Ok (acc ++ ys)
        | _ => Err
        end
    end.

  Fixpoint splice_all (k : slot) (acc : list tree) (rs : list (option tree * bool)) : res (list tree) :=
    match rs with
    | [] => Ok acc
    | r :: rs' => acc' <- splice_into k acc r ;; splice_all k acc' rs'
    end.

  Definition last_op (ops : list N) : N := last ops 0%N.

  (* quoteUnquoteSplice, run-time part *)
  Definition quote_unquote_splice (op : N) (x : option tree) : res tree :=
    match x with
    | None => make_quote op None
    | Some y =>
        if is_node y then make_quote op (Some y)
        else match y with
             | Slice _ _ _ xs => items <- mapM to_stmt xs ;; make_quote op (Some (block_of items))
             | _ => Err
             end
    end.

  (* requote a single node: AnyToAstWithNode(x).Node() then MakeQuote *)
  Definition requote_node (op : N) (x : option tree) : res tree :=
    match x with
    | Some y => if is_node y then make_quote op (Some y) else Err
    | None => Err
    end.

  (* ---------- fast/quasiquote.go  Comp.quasiquote ---------- *)
  Definition rec_t := Z -> tree -> res (option tree * bool).

  (* case AstWithSlice and the final general AstWithNode case (shared verbatim by the spec below);
     rec = the recursive call c.quasiquote(form, depth, ...) *)
  Definition qq_general (rec : rec_t) (depth : Z) (t : tree) : res (option tree * bool) :=
    match t with
    | Slice i s a kids =>
        rs <- mapM (fun kid => rec depth (simplify1 kid)) kids ;;
        out <- splice_all (slot_of_stag s) [] rs ;;
        Ok (Some (Slice (mk i) s a out), false)
    | Node i tg a kids =>
        kids' <- mapMi (fun idx o =>
                          match o with
                          | None => Ok None
                          | Some c =>
                              r <- rec depth (simplify1 c) ;;
                              match fst r with
                              | None => Ok None
                              | Some x => y <- coerce (slot_of tg idx) x ;; Ok (Some y)
                              end
                          end) 0%nat kids ;;
        Ok (Some (Node (mk i) tg a kids'), false)
    end.

  (* which quote-like operator heads t, if any *)
  Definition quote_head (t : tree) : option N :=
    match t with
    | Node _ _ _ _ => match unary_op t with Some op => if is_quote_op op then Some op else None | None => None end
    | Slice _ _ _ _ => None
    end.

  (* the test guarding the deep-splice path *)
  Definition deep_chain (op : N) (depth : Z) (t : tree) : option (list N * tree) :=
    if is_unq op then
      match unq_chain t with
      | Some (ops, last) =>
          let ud := Z.of_nat (length ops) in
          if (1 <? ud) && (depth <=? ud) && N.eqb (last_op ops) UNQUOTE_SPLICE
          then Some (ops, last) else None
      | None => None
      end
    else None.

  (* run-time part of the deep-splice path: re-wrap every element of the value in the outer unquotes *)
  Definition deep_result (ws : list N) (v : option tree) : res (option tree * bool) :=
    match v with
    | None => Ok (Some (block_of []), true)
    | Some (Slice _ _ _ xs) =>
        items <- mapM (fun e => if is_node e then q <- nest ws e ;; to_stmt q else Err) xs ;;
        Ok (Some (block_of items), true)
    | Some _ => Err
    end.

  Definition requote (op : N) (x : option tree) : res (option tree * bool) :=
    if N.eqb op UNQUOTE_SPLICE
    then q <- quote_unquote_splice op x ;; Ok (Some q, false)
    else q <- requote_node op x ;; Ok (Some q, false).

  Definition fq_body (rec : rec_t) (depth : Z) (t : tree) : res (option tree * bool) :=
    match quote_head t with
    | None => qq_general rec depth t
    | Some op =>
        match deep_chain op depth t with
        | Some (ops, last) =>
            match qbody last with
            | None => Err
            | Some lb => v <- ev (simplify_node lb true) ;; deep_result (firstn (length ops - 1) ops) v
            end
        | None =>
            match qbody t with
            | None => Err
            | Some b =>
                let node := simplify_node b true in
                let depth' := if N.eqb op QUASIQUOTE then depth + 1
                              else if is_unq op then depth - 1 else depth in
                if depth' <=? 0 then v <- ev node ;; Ok (v, N.eqb op UNQUOTE_SPLICE)
                else r <- rec depth' node ;; requote op (fst r)
            end
        end
    end.

  Fixpoint fq (fuel : nat) (depth : Z) (t : tree) : res (option tree * bool) :=
    match fuel with
    | O => OutOfFuel
    | S f => fq_body (fq f) depth t
    end.

  Definition fuel_for (t : tree) : nat := (2 * height t + 8)%nat.

  (* fast/unary.go QUOTE case and classic evalQuote: the template itself, simplified; nothing is copied *)
  Definition fast_quote (body : tree) : tree := simplify_node body true.
  Definition classic_quote (body : tree) : tree := simplify_node body true.

  (* Comp.quasiquoteUnary (u = the ~quasiquote UnaryExpr) *)
  Definition fast_qq (fuel : nat) (u : tree) : res (option tree) :=
    match qbody u with
    | None => Err
    | Some block =>
        let node := simplify_node block true in
        let dflt := (r <- fq fuel 1 node ;; Ok (fst r)) in
        match block with
        | Slice _ SBlock _ [c] =>
            match unary_op (simplify_node c false) with
            | Some op =>
                if is_unq op then
                  r <- fq fuel 1 block ;;
                  if N.eqb op UNQUOTE_SPLICE then Ok (fst r)
                  else match fst r with
                       | Some x => if is_node x then Ok (Some (simplify_node x true)) else Err
                       | None => Err
                       end
                else dflt
            | None => dflt
            end
        | _ => dflt
        end
    end.

  (* ---------- classic/quasiquote.go ---------- *)
  Definition append1 (k : slot) (acc : list tree) (x : option tree) : res (list tree) :=
    match x with
    | None => Err                       (* Append(nil): a nil list element, not representable *)
    | Some y => z <- coerce k y ;; Ok (acc ++ [z])
    end.

  Fixpoint cq (fuel : nat) (depth : Z) (t : tree) : res (option tree) :=
    match fuel with
    | O => OutOfFuel
    | S f =>
        let requote2 (op : N) (b : tree) (d : Z) : res tree :=
          e <- cq f d b ;; requote_node op e in
        let slice_loop (i : N) (s : stag) (a : list N) (kids : list tree) : res (option tree) :=
          let k := slot_of_stag s in
          out <- fold_left
                   (fun (racc : res (list tree)) (kid : tree) =>
                      acc <- racc ;;
                      let c := unwrap_trivial false kid in
                      let dflt := (r <- cq f depth c ;; append1 k acc r) in
                      match unary_op c with
                      | Some op =>
                          if N.eqb op QUASIQUOTE then
                            match qbody c with
                            | Some b => q <- requote2 op b (depth + 1) ;; append1 k acc (Some q)
                            | None => Err
                            end
                          else if is_unq op then
                            match unq_chain c with
                            | None => Err
                            | Some (ops, last) =>
                                let ud := Z.of_nat (length ops) in
                                if depth <? ud then Err
                                else if ud <? depth then
                                  match qbody c with
                                  | Some b => q <- requote2 op b (depth - 1) ;; append1 k acc (Some q)
                                  | None => Err
                                  end
                                else
                                  match qbody last with
                                  | None => Err
                                  | Some lb =>
                                      v <- ev (simplify_node lb true) ;;
                                      let wr := firstn (length ops - 1) ops in
                                      if N.eqb (last_op ops) UNQUOTE then
                                        st <- dup wr v ;; append1 k acc st
                                      else
                                        match v with
                                        | None => Ok acc
                                        | Some (Slice _ _ _ xs) =>
                                            fold_left (fun (ra : res (list tree)) (e : tree) =>
                                                         a1 <- ra ;; st <- dup wr (Some e) ;; append1 k a1 st)
                                                      xs (Ok acc)
                                        | Some _ => Err
                                        end
                                  end
                            end
                          else dflt
                      | None => dflt
                      end)
                   kids (Ok []) ;;
          Ok (Some (Slice (mk i) s a out)) in
        match t with
        | Slice i s a kids => slice_loop i s a kids
        | Node _ _ _ _ =>
            match unwrap_trivial true t with
            | Slice i s a kids => slice_loop i s a kids           (* fixes/C21-1: DeclStmt -> GenDecl *)
            | Node i tg a kids =>
                match kids with
                | [] => Ok (Some (Node (mk i) tg a []))            (* fixes/C21-1: in.New() instead of in *)
                | _ =>
                    let t1 := Node i tg a kids in
                    let general :=
                      kids' <- mapMi (fun idx o =>
                                        match o with
                                        | None => Ok None
                                        | Some c =>
                                            r <- cq f depth c ;;
                                            match r with
                                            | None => Ok None
                                            | Some x => y <- coerce (slot_of tg idx) x ;; Ok (Some y)
                                            end
                                        end) 0%nat kids ;;
                      Ok (Some (Node (mk i) tg a kids')) in
                    match unary_op t1 with
                    | Some op =>
                        if N.eqb op QUASIQUOTE then
                          match qbody t1 with
                          | Some b => q <- requote2 op b (depth + 1) ;; Ok (Some q)
                          | None => Err
                          end
                        else if N.eqb op UNQUOTE then
                          match qbody t1 with
                          | Some b =>
                              if depth <=? 1 then ev (simplify_node b true)
                              else q <- requote2 op b (depth - 1) ;; Ok (Some q)
                          | None => Err
                          end
                        else if N.eqb op UNQUOTE_SPLICE then Err
                        else general
                    | None => general
                    end
                end
            end
        end
    end.

  (* Env.evalQuasiquote(body) ; u = the ~quasiquote UnaryExpr *)
  Definition classic_qq (fuel : nat) (u : tree) : res (option tree) :=
    match qbody u with
    | None => Err
    | Some block =>
        let to_unwrap := match block with Slice _ SBlock _ (_ :: _ :: _) => false | _ => true end in
        r <- cq fuel 1 block ;;
        match r with
        | Some x => if is_node x then Ok (Some (simplify_node x to_unwrap)) else Err
        | None => Err
        end
    end.

  (* ---------- SPEC: compositional (Common-Lisp style) substitution ----------
     A form evaluates either to one tree (flag false) or to a sequence to be spliced into the enclosing list
     (flag true; carried as a slice).  ~unquote at depth 1 yields the value, ~unquote_splice at depth 1 yields the
     value's elements; at depth d>1 an unquote form is rebuilt around the result of its body at depth d-1 and
     *distributes* over a spliced sequence (so the innermost unquote pairs with the outermost quasiquote, and
     ,,@x yields one ,xi per element); ~quasiquote raises the depth, ~quote leaves it.  Elements are inserted
     with the Set/Append coercions of ast2; a distributed element is carried as an ExprStmt (it is an element
     of a statement block until it is appended to its final list). *)
  (* distribution of an unquote operator over the result of its body *)
  Definition distribute (op : N) (r : option tree * bool) : res (option tree * bool) :=
    match r with
    | (Some (Slice _ _ _ xs), true) =>
        items <- mapM (fun e => if is_node e then q <- make_quote op (Some e) ;; to_stmt q else Err) xs ;;
        Ok (Some (block_of items), true)
    | (None, true) => Ok (Some (block_of []), true)
    | (Some _, true) => Err
    | (x, false) => requote op x
    end.

  Definition sq_body (rec : rec_t) (d : Z) (t : tree) : res (option tree * bool) :=
    match quote_head t with
    | None => qq_general rec d t
    | Some op =>
        match qbody t with
        | None => Err
        | Some b =>
            let node := simplify_node b true in
            if is_unq op then
              if d <=? 1 then v <- ev node ;; Ok (v, N.eqb op UNQUOTE_SPLICE)
              else r <- rec (d - 1) node ;; distribute op r
            else
              r <- rec (if N.eqb op QUASIQUOTE then d + 1 else d) node ;; requote op (fst r)
        end
    end.

  Fixpoint sq (fuel : nat) (d : Z) (t : tree) : res (option tree * bool) :=
    match fuel with
    | O => OutOfFuel
    | S f => sq_body (sq f) d t
    end.
End Model.

(* ---------- correspondence support ---------- *)
Definition mk0 (i : N) : N := 0%N.

Fixpoint lookup (n : N) (env : list (N * tree)) : option tree :=
  match env with
  | [] => None
  | (k, v) :: env' => if N.eqb k n then Some v else lookup n env'
  end.

(* the harness binds every unquoted expression to an identifier whose value is a known tree *)
Definition ev_of (env : list (N * tree)) (node : tree) : res (option tree) :=
  match node with
  | Node _ TIdent [name] _ => match lookup name env with Some v => Ok (Some v) | None => Err end
  | _ => Err
  end.

(* canonical form for comparison: ids erased, an empty bare slice child = nil *)
Fixpoint canon (t : tree) : tree :=
  match t with
  | Node _ tg a k =>
      Node 0 tg a (map (fun o => match o with
                                 | Some (Slice _ s _ []) => if stag_is_node s then Some (Slice 0 s [] []) else None
                                 | Some x => Some (canon x)
                                 | None => None
                                 end) k)
  | Slice _ s a k => Slice 0 s a (map canon k)
  end.

Definition same_result (m : res (option tree)) (obs : option tree) : bool :=
  match m, obs with
  | Ok (Some x), Some y => tree_eqb (canon x) (canon y)
  | Ok None, None => true
  | Err, None => true
  | _, _ => false
  end.

Record case := mkCase {
  c_idx : Z;
  c_tmpl : tree;                   (* the ~quasiquote{...} UnaryExpr (or ~quote) *)
  c_env : list (N * tree);
  c_fast : option tree;            (* observed result of the fast interpreter, None = error *)
  c_classic : option tree          (* observed result of the classic interpreter *)
}.

Definition case_ok (c : case) : bool :=
  let t := c_tmpl c in
  let ev := ev_of (c_env c) in
  match unary_op t with
  | Some op =>
      if N.eqb op QUOTE then
        match qbody t with
        | Some b => same_result (Ok (Some (fast_quote mk0 b))) (c_fast c) &&
                    same_result (Ok (Some (classic_quote mk0 b))) (c_classic c)
        | None => false
        end
      else
        same_result (fast_qq mk0 ev (fuel_for t) t) (c_fast c) &&
        same_result (classic_qq mk0 ev (fuel_for t) t) (c_classic c)
  | None => false
  end.

Definition mismatches (cs : list case) : list Z :=
  map c_idx (filter (fun c => negb (case_ok c)) cs).

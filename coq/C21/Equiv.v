(* C21 — fast = classic on "flat" (depth-1) templates: C21_fast_eq_classic_partial.
   Class: the template body contains no nested ~quote / ~quasiquote form outside unquoted expressions, every
   ~unquote / ~unquote_splice is a chain of length one (its body is not itself an unquote), no trivial wrapper
   (ParenExpr / ExprStmt / DeclStmt) sits directly inside another one or around a block (class of C21-paren), and the
   body is not a single ~unquote_splice (C21-top-splice-short).  The nested-quote findings (C21-nested-block,
   C21-nested-empty-body) need a nested quote form, so they are outside the class by construction.
   On this class: whenever the classic algorithm succeeds, the fast one succeeds with every larger fuel and returns
   the same tree (same allocation labels too, except for the empty template; stated up to [erase]). *)
From Coq Require Import List NArith ZArith Bool Lia.
From Verif Require Import Common.Rose C21.Model C21.Proof C21.Fresh C21.Examples.
Import ListNotations.
Open Scope Z_scope.

Definition is_wrapper (t : tree) : bool :=
  match t with
  | Node _ TExprStmt _ [Some _] | Node _ TParenExpr _ [Some _] | Node _ TDeclStmt _ [Some _] => true
  | _ => false
  end.
Definition is_block (t : tree) : bool := match t with Slice _ SBlock _ _ => true | _ => false end.

Definition Flat_here (t : tree) : Prop :=
  (is_wrapper t = true -> is_wrapper (simplify1 t) = false /\ is_block (simplify1 t) = false) /\
  (forall op, quote_head t = Some op -> is_unq op = true /\ unq_chain t = Some ([op], t) /\ qbody t <> None).

Fixpoint Flat (t : tree) : Prop :=
  Flat_here t /\
  (quote_head t = None ->
   match t with
   | Node _ _ _ k =>
       (fix all (l : list (option tree)) : Prop :=
          match l with [] => True | Some x :: l' => Flat x /\ all l' | None :: l' => all l' end) k
   | Slice _ _ _ k =>
       (fix all (l : list tree) : Prop := match l with [] => True | x :: l' => Flat x /\ all l' end) k
   end).

(* the template u = ~quasiquote{ body } *)
Definition FlatTemplate (u : tree) : Prop :=
  exists bi ba kids, qbody u = Some (Slice bi SBlock ba kids) /\ Flat (Slice bi SBlock ba kids) /\
    (forall c, kids = [c] -> unary_op (simplify1 c) <> Some UNQUOTE_SPLICE).

Lemma Flat_here_of : forall t, Flat t -> Flat_here t.
Proof. destruct t; simpl; tauto. Qed.

Lemma Flat_kid_node : forall i tg a k x, Flat (Node i tg a k) -> quote_head (Node i tg a k) = None ->
  In (Some x) k -> Flat x.
Proof.
  intros i tg a k x [_ H] Hq. specialize (H Hq). clear Hq. induction k as [|o k IH]; simpl; [tauto|].
  intros [E|Hin].
  - subst o. tauto.
  - destruct o; apply IH; tauto.
Qed.

Lemma Flat_kid_slice : forall i s a k x, Flat (Slice i s a k) -> In x k -> Flat x.
Proof.
  intros i s a k x [_ H]. specialize (H eq_refl). induction k as [|o k IH]; simpl; [tauto|].
  intros [E|Hin]; [subst; tauto | apply IH; tauto].
Qed.

(* a tree is a wrapper around c, or simplify1 leaves it alone *)
Lemma wrapper_cases : forall t,
  (is_wrapper t = true /\ exists i tg a c, t = Node i tg a [Some c] /\ simplify1 t = c /\
     quote_head t = None /\ forall uw, unwrap_trivial uw t = unwrap_trivial uw c) \/
  (is_wrapper t = false /\ simplify1 t = t).
Proof.
  destruct t as [i tg a k|]; [|right; split; reflexivity].
  destruct tg; try (right; split; reflexivity);
    destruct k as [|[c|] [|? ?]]; try (right; split; reflexivity).
  all: left; split; [reflexivity|].
  all: do 4 eexists; split; [reflexivity|]; split; [reflexivity|]; split; [reflexivity|]; intros; reflexivity.
Qed.

Lemma uw_nonwrapper : forall uw c, is_wrapper c = false -> (uw = false \/ is_block c = false) ->
  unwrap_trivial uw c = c.
Proof.
  intros uw c Hw Hb. destruct c as [i tg a k|i s a k].
  - destruct tg; try reflexivity; destruct k as [|[c|] [|? ?]]; try reflexivity; discriminate.
  - destruct Hb as [E|E]; [subst uw|].
    + destruct s; try reflexivity. destruct k as [|? [|? ?]]; reflexivity.
    + destruct s; try reflexivity. discriminate.
Qed.

Lemma Flat_simplify1 : forall x, Flat x -> Flat (simplify1 x).
Proof.
  intros x H. destruct (wrapper_cases x) as [(_ & i & tg & a & c & E & Es & Hq & _)|[_ E]].
  - rewrite Es. subst x. eapply Flat_kid_node; eauto. simpl; auto.
  - rewrite E; auto.
Qed.

(* the simplified kid: not a wrapper, both unwrappers see it *)
Lemma flat_kid_facts : forall k, Flat k ->
  let c := simplify1 k in
  Flat c /\ is_wrapper c = false /\ simplify1 c = c /\ unwrap_trivial false k = c /\
  (is_block k = false -> unwrap_trivial true k = c).
Proof.
  intros k H c. assert (HF := Flat_simplify1 _ H). fold c in HF.
  destruct (wrapper_cases k) as [(Hw & i & tg & a & c' & E & Es & Hq & Hu)|[Hw E]].
  - destruct (proj1 (Flat_here_of _ H) Hw) as [W1 W2]. fold c in W1, W2.
    assert (Ec : c' = c) by (unfold c; congruence). subst c'.
    destruct (wrapper_cases c) as [(Hw' & _)|[_ E']]; [congruence|].
    repeat split; auto.
    + rewrite Hu. apply uw_nonwrapper; auto.
    + intros _. rewrite Hu. apply uw_nonwrapper; auto.
  - unfold c in *. rewrite E in *. repeat split; auto.
    + apply uw_nonwrapper; auto.
    + intros Hb. apply uw_nonwrapper; auto.
Qed.

(* ---------- fuel monotonicity of the fast algorithm ---------- *)
Lemma fq_mono : forall mk ev f d t r, fq mk ev f d t = Ok r -> fq mk ev (S f) d t = Ok r.
Proof.
  induction f as [|f IH]; intros d t r H; [discriminate|].
  change (fq_body mk ev (fq mk ev (S f)) d t = Ok r). change (fq_body mk ev (fq mk ev f) d t = Ok r) in H.
  unfold fq_body in *. destruct (quote_head t) as [op|].
  2:{ eapply qq_general_impl; [|exact H]. intros; apply IH; auto. }
  destruct (deep_chain op d t) as [[ops last]|]; [exact H|].
  destruct (qbody t) as [b|]; [|discriminate]. cbv zeta in *.
  match type of H with (if ?c then _ else _) = _ => destruct c end; [exact H|].
  ibind H r0 Hr Hk. rewrite (IH _ _ _ Hr). exact Hk.
Qed.

Lemma fq_mono_le : forall mk ev f f' d t r, (f <= f')%nat -> fq mk ev f d t = Ok r -> fq mk ev f' d t = Ok r.
Proof. induction 1; auto. intros. apply fq_mono; auto. Qed.

Section Equiv.
  Variable mk : N -> N.
  Variable ev : tree -> res (option tree).

  Lemma unary_quote_head : forall c op, unary_op c = Some op -> is_quote_op op = true -> quote_head c = Some op.
  Proof.
    intros c op H Hq. destruct c as [i tg a k|]; [|discriminate]. unfold quote_head. rewrite H, Hq. reflexivity.
  Qed.

  Lemma unary_quote_head_none : forall c, unary_op c = None -> quote_head c = None.
  Proof. intros c H. destruct c; unfold quote_head; [rewrite H|]; reflexivity. Qed.

  Lemma is_unq_quote : forall op, is_unq op = true -> is_quote_op op = true.
  Proof. intros op H. destruct (is_unq_cases _ H); subst; reflexivity. Qed.

  (* the fast algorithm on an unquote form of chain length one, at depth 1 *)
  Lemma fq_unquote1 : forall f c op lb v,
    quote_head c = Some op -> is_unq op = true -> unq_chain c = Some ([op], c) -> qbody c = Some lb ->
    ev (simplify_node mk lb true) = Ok v ->
    fq mk ev (S f) 1 c = Ok (v, N.eqb op UNQUOTE_SPLICE).
  Proof.
    intros f c op lb v Hq Hu Hc Hb Hv.
    change (fq_body mk ev (fq mk ev f) 1 c = Ok (v, N.eqb op UNQUOTE_SPLICE)). unfold fq_body. rewrite Hq.
    unfold deep_chain. rewrite Hu, Hc. cbn [length]. change (Z.of_nat 1) with 1.
    replace (1 <? 1) with false by reflexivity.
    cbn [andb]. rewrite Hb. cbv zeta. rewrite (is_unq_not_qq _ Hu).
    replace (1 - 1 <=? 0) with true by reflexivity. rewrite Hv. reflexivity.
  Qed.

  Lemma splice_fold : forall k xs acc out,
    fold_left (foldM_step (fun a1 e => st <- dup mk [] (Some e) ;; append1 mk k a1 st)) xs (Ok acc) = Ok out ->
    exists ys, mapM (coerce mk k) xs = Ok ys /\ out = acc ++ ys.
  Proof.
    induction xs as [|x xs IH]; intros acc out H.
    - simpl in H. inversion H; subst. exists []. rewrite app_nil_r. auto.
    - apply foldM_cons in H. destruct H as (acc1 & E & H). cbn [dup bind] in E. unfold append1 in E.
      ibind E z Hz Hk. inversion Hk; subst.
      destruct (IH _ _ H) as (ys & Hm & Eo). exists (z :: ys). simpl. rewrite Hz, Hm. simpl.
      split; auto. rewrite Eo, <- app_assoc. reflexivity.
  Qed.

  Section Step.
    Variable f : nat.
    Hypothesis IH : forall t r, Flat t -> cq mk ev f 1 t = Ok r -> fq mk ev (S f) 1 (simplify1 t) = Ok (r, false).

    Lemma kid_step : forall k acc kid acc1, Flat kid ->
      cq_stepG mk ev (cq mk ev f) 1 k acc kid = Ok acc1 ->
      exists r, fq mk ev (S f) 1 (simplify1 kid) = Ok r /\ splice_into mk k acc r = Ok acc1.
    Proof.
      intros k acc kid acc1 HF H.
      destruct (flat_kid_facts _ HF) as (HFc & Hw & Hs & Hu & _).
      unfold cq_stepG in H. cbv zeta in H. rewrite Hu in H. set (c := simplify1 kid) in *.
      assert (D : (r <- cq mk ev f 1 c ;; append1 mk k acc r) = Ok acc1 ->
                  exists r, fq mk ev (S f) 1 c = Ok r /\ splice_into mk k acc r = Ok acc1).
      { intros H0. ibind H0 r0 Hr Hk. apply IH in Hr; auto. rewrite Hs in Hr.
        exists (r0, false). split; auto. destruct r0 as [y|]; [exact Hk|discriminate]. }
      destruct (unary_op c) as [op|] eqn:Hop; [|auto].
      destruct (N.eqb op QUASIQUOTE) eqn:Eqq.
      { apply N.eqb_eq in Eqq. subst op. exfalso.
        destruct (proj2 (Flat_here_of _ HFc) QUASIQUOTE (unary_quote_head _ _ Hop eq_refl)) as [X _].
        discriminate. }
      destruct (is_unq op) eqn:Hunq; [|auto].
      assert (Hq := unary_quote_head _ _ Hop (is_unq_quote _ Hunq)).
      destruct (proj2 (Flat_here_of _ HFc) op Hq) as (_ & Hch & Hqb).
      rewrite Hch in H. cbn [length] in H. change (Z.of_nat 1) with 1 in H.
      replace (1 <? 1) with false in H by reflexivity.
      destruct (qbody c) as [lb|] eqn:Hlb; [|congruence].
      ibind H v Hv Hk. exists (v, N.eqb op UNQUOTE_SPLICE). split; [eapply fq_unquote1; eauto|].
      cbn [length Nat.sub firstn] in Hk. unfold last_op in Hk. cbn [last] in Hk.
      destruct (is_unq_cases _ Hunq); subst op.
      - replace (N.eqb UNQUOTE UNQUOTE) with true in Hk by reflexivity. cbn [dup bind] in Hk.
        replace (N.eqb UNQUOTE UNQUOTE_SPLICE) with false by reflexivity.
        destruct v as [y|]; [exact Hk|discriminate].
      - replace (N.eqb UNQUOTE_SPLICE UNQUOTE) with false in Hk by reflexivity.
        replace (N.eqb UNQUOTE_SPLICE UNQUOTE_SPLICE) with true by reflexivity.
        destruct v as [y|]; [|exact Hk]. destruct y as [|yi ys ya xs]; [discriminate|].
        apply splice_fold in Hk. destruct Hk as (ys' & Hm & Eo). unfold splice_into. rewrite Hm. simpl. congruence.
    Qed.

    Lemma kids_loop : forall k kids acc out, (forall x, In x kids -> Flat x) ->
      fold_left (foldM_step (cq_stepG mk ev (cq mk ev f) 1 k)) kids (Ok acc) = Ok out ->
      exists rs, mapM (fun kid => fq mk ev (S f) 1 (simplify1 kid)) kids = Ok rs /\ splice_all mk k acc rs = Ok out.
    Proof.
      induction kids as [|x kids IHk]; intros acc out HF H.
      - simpl in H. inversion H; subst. exists []. auto.
      - apply foldM_cons in H. destruct H as (acc1 & E & H).
        destruct (kid_step _ _ _ _ (HF x (or_introl eq_refl)) E) as (r & Hr & Hsp).
        destruct (IHk _ _ (fun y Hy => HF y (or_intror Hy)) H) as (rs & Hm & Hall).
        exists (r :: rs). cbn [mapM]. rewrite Hr. cbn [bind]. rewrite Hm. cbn [bind]. split; [reflexivity|].
        cbn [splice_all]. rewrite Hsp. cbn [bind]. exact Hall.
    Qed.

    Lemma slice_step : forall i s a kids r, Flat (Slice i s a kids) ->
      cq_slice mk ev (cq mk ev f) 1 i s a kids = Ok r ->
      fq mk ev (S (S f)) 1 (Slice i s a kids) = Ok (r, false).
    Proof.
      intros i s a kids r HF H. unfold cq_slice in H. ibind H out Ho Hk. inversion Hk; subst.
      destruct (kids_loop _ _ _ _ (fun x Hx => Flat_kid_slice _ _ _ _ _ HF Hx) Ho) as (rs & Hm & Hall).
      change (fq_body mk ev (fq mk ev (S f)) 1 (Slice i s a kids) = Ok (Some (Slice (mk i) s a out), false)).
      unfold fq_body. cbn [quote_head]. unfold qq_general. rewrite Hm. cbn [bind]. rewrite Hall. reflexivity.
    Qed.

    Lemma general_step : forall i tg a kids r, Flat (Node i tg a kids) -> quote_head (Node i tg a kids) = None ->
      cq_general mk (cq mk ev f) 1 i tg a kids = Ok r ->
      fq mk ev (S (S f)) 1 (Node i tg a kids) = Ok (r, false).
    Proof.
      intros i tg a kids r HF Hq H. unfold cq_general in H. ibind H kids' Hm Hk. inversion Hk; subst.
      change (fq_body mk ev (fq mk ev (S f)) 1 (Node i tg a kids) = Ok (Some (Node (mk i) tg a kids'), false)).
      unfold fq_body. rewrite Hq. unfold qq_general.
      erewrite mapMi_impl; [reflexivity| |exact Hm]. cbv beta.
      intros j o y Hin Ho. destruct o as [c|]; auto.
      ibind Ho r0 Hr Hk0. apply IH in Hr; [|eapply Flat_kid_node; eauto].
      rewrite Hr. cbn [bind fst]. destruct r0; exact Hk0.
    Qed.

    Lemma node_step : forall i tg a kids r, Flat (Node i tg a kids) ->
      cq_node mk ev (cq mk ev f) 1 i tg a kids = Ok r ->
      fq mk ev (S (S f)) 1 (Node i tg a kids) = Ok (r, false).
    Proof.
      intros i tg a kids r HF H. set (c := Node i tg a kids) in *.
      assert (HH := proj2 (Flat_here_of _ HF)).
      unfold cq_node in H. destruct kids as [|k0 kids'].
      { inversion H; subst.
        assert (Hq : quote_head c = None).
        { destruct (quote_head c) as [op|] eqn:E; auto. destruct (HH op eq_refl) as (_ & _ & X). exfalso. apply X.
          unfold c, qbody. destruct tg; reflexivity. }
        change (fq_body mk ev (fq mk ev (S f)) 1 c = Ok (Some (Node (mk i) tg a []), false)).
        unfold fq_body. rewrite Hq. reflexivity. }
      fold c in H.
      destruct (unary_op c) as [op|] eqn:Hop.
      2:{ eapply general_step; eauto. apply unary_quote_head_none; auto. }
      destruct (N.eqb op QUASIQUOTE) eqn:Eqq.
      { apply N.eqb_eq in Eqq. subst op. exfalso.
        destruct (HH QUASIQUOTE (unary_quote_head _ _ Hop eq_refl)) as [X _]. discriminate. }
      destruct (N.eqb op UNQUOTE) eqn:Eu.
      { apply N.eqb_eq in Eu. subst op. assert (Hq := unary_quote_head _ _ Hop eq_refl).
        destruct (HH _ Hq) as (Hunq & Hch & _).
        destruct (qbody c) as [b|] eqn:Hb; [|discriminate]. replace (1 <=? 1) with true in H by reflexivity.
        exact (fq_unquote1 (S f) c UNQUOTE b r Hq Hunq Hch Hb H). }
      destruct (N.eqb op UNQUOTE_SPLICE) eqn:Es; [discriminate|].
      eapply general_step; eauto.
      destruct (quote_head c) as [op'|] eqn:E; auto. exfalso.
      assert (op' = op).
      { unfold c, quote_head in E. fold c in E. rewrite Hop in E. destruct (is_quote_op op); congruence. }
      subst op'. destruct (HH op eq_refl) as (Hunq & _). destruct (is_unq_cases _ Hunq); subst op; discriminate.
    Qed.
  End Step.

  (* ---- the simulation: classic run => fast run, same result, no splice flag ---- *)
  Lemma cq_fq1 : forall f t r, Flat t -> cq mk ev f 1 t = Ok r -> fq mk ev (S f) 1 (simplify1 t) = Ok (r, false).
  Proof.
    induction f as [|f IH]; intros t r HF H; [discriminate|].
    rewrite cq_unfold in H. unfold cq_body in H.
    destruct t as [i tg a ks|i s a ks].
    2:{ cbn [simplify1]. eapply slice_step; eauto. }
    destruct (flat_kid_facts _ HF) as (HFc & Hw & Hs & _ & Hu). rewrite (Hu eq_refl) in H.
    destruct (simplify1 (Node i tg a ks)) as [i' tg' a' ks'|i' s' a' ks'].
    - eapply node_step; eauto.
    - eapply slice_step; eauto.
  Qed.

  (* shape of a general result: a wrapper only comes from a wrapper *)
  Lemma general_wrapper : forall (rec : crec_t) d i tg a kids y,
    cq_general mk rec d i tg a kids = Ok (Some y) -> is_wrapper y = true -> is_wrapper (Node i tg a kids) = true.
  Proof.
    intros rec d i tg a kids y H Hw. unfold cq_general in H. ibind H kids' Hm Hk. inversion Hk; subst.
    destruct kids as [|o [|o2 ks]].
    - simpl in Hm. inversion Hm; subst. destruct tg; discriminate.
    - destruct o as [c|].
      + destruct tg; try discriminate; reflexivity.
      + cbn [mapMi bind] in Hm. inversion Hm; subst. destruct tg; discriminate.
    - cbn [mapMi] in Hm. ibind Hm y1 H1 Hm. ibind Hm ys H2 Hm. ibind H2 y2 H3 H2. ibind H2 ys2 H4 H2.
      inversion H2; subst. inversion Hm; subst. destruct tg; try discriminate; destruct y1; discriminate.
  Qed.

  Lemma cq_result_nonwrapper : forall f c y, Flat c -> is_wrapper c = false ->
    (forall op, unary_op c = Some op -> is_unq op = false) ->
    cq mk ev f 1 c = Ok (Some y) -> is_wrapper y = false.
  Proof.
    intros f c y HF Hw Hop H. destruct f as [|f]; [discriminate|]. rewrite cq_unfold in H. unfold cq_body in H.
    assert (SL : forall i s a kids, cq_slice mk ev (cq mk ev f) 1 i s a kids = Ok (Some y) -> is_wrapper y = false).
    { intros i s a kids H0. unfold cq_slice in H0. ibind H0 out Ho Hk. inversion Hk; subst. reflexivity. }
    destruct c as [i tg a ks|i s a ks]; [|eauto].
    rewrite uw_nonwrapper in H by auto.
    unfold cq_node in H. destruct ks as [|k0 ks]. { inversion H; subst. destruct tg; reflexivity. }
    set (c := Node i tg a (k0 :: ks)) in *.
    assert (G : cq_general mk (cq mk ev f) 1 i tg a (k0 :: ks) = Ok (Some y) -> is_wrapper y = false).
    { intros H0. destruct (is_wrapper y) eqn:E; auto. apply (general_wrapper _ _ _ _ _ _ _ H0) in E.
      fold c in E. congruence. }
    destruct (unary_op c) as [op|] eqn:Eop; [|auto].
    specialize (Hop op eq_refl).
    destruct (N.eqb op QUASIQUOTE) eqn:Eqq.
    { apply N.eqb_eq in Eqq. subst op. exfalso.
      destruct (proj2 (Flat_here_of _ HF) QUASIQUOTE (unary_quote_head _ _ Eop eq_refl)) as [X _]. discriminate. }
    destruct (N.eqb op UNQUOTE) eqn:Eu. { apply N.eqb_eq in Eu. subst op. discriminate. }
    destruct (N.eqb op UNQUOTE_SPLICE); [discriminate|auto].
  Qed.

  Lemma simplify1_nonwrapper : forall y, is_wrapper y = false -> simplify1 y = y.
  Proof. intros y H. destruct (wrapper_cases y) as [(E & _)|[_ E]]; congruence. Qed.

  Lemma to_stmt_simplify1 : forall y z, is_wrapper y = false -> to_stmt mk y = Ok z -> simplify1 z = y.
  Proof.
    intros y z Hw H. unfold to_stmt in H. destruct (tree_cat y); inversion H; subst; try reflexivity.
    apply simplify1_nonwrapper; auto.
  Qed.

  Lemma fast_eq_classic_flat : forall f f' u b, FlatTemplate u -> (f < f')%nat ->
    classic_qq mk ev f u = Ok (Some b) ->
    exists a, fast_qq mk ev f' u = Ok (Some a) /\ erase a = erase b.
  Proof.
    intros f f' u b (bi & ba & kids & Hqb & HF & Hns) Hlt H.
    unfold classic_qq in H. unfold fast_qq. rewrite Hqb in *. cbv zeta in *.
    ibind H r0 Hr Hk. destruct r0 as [x|]; [|discriminate].
    destruct (is_node x); [|discriminate]. inversion Hk; subst b. clear Hk.
    assert (Hblk := cq_fq1 _ _ _ HF Hr). cbn [simplify1] in Hblk.
    apply (fq_mono_le mk ev (S f) f') in Hblk; [|lia].
    destruct f as [|f0]; [discriminate|]. rewrite cq_unfold in Hr. unfold cq_body, cq_slice in Hr.
    ibind Hr out Ho Hk. inversion Hk; subst x. clear Hk.
    destruct kids as [|c [|c2 kids]].
    - (* empty template *)
      simpl in Ho. inversion Ho; subst out.
      destruct f' as [|f'']; [lia|]. eexists. split; [reflexivity|reflexivity].
    - (* one statement *)
      apply foldM_cons in Ho. destruct Ho as (acc1 & E & Ho). simpl in Ho. inversion Ho; subst acc1. clear Ho.
      assert (HFc : Flat c) by (eapply Flat_kid_slice; eauto; simpl; auto).
      destruct (flat_kid_facts _ HFc) as (HFs & Hw & Hs & Hu & _).
      assert (Esn : simplify_node mk c false = simplify1 c).
      { destruct c as [|? s ? ?]; [reflexivity|]. destruct s; reflexivity. }
      rewrite Esn. specialize (Hns c eq_refl).
      assert (DF : forall y, out = [y] -> is_wrapper (simplify1 y) = false \/ True -> True) by auto. clear DF.
      destruct (unary_op (simplify1 c)) as [op|] eqn:Eop.
      + destruct (is_unq op) eqn:Hunq.
        * destruct (is_unq_cases _ Hunq); subst op; [|congruence].
          rewrite Hblk. cbn [bind fst]. replace (N.eqb UNQUOTE UNQUOTE_SPLICE) with false by reflexivity.
          cbn [is_node stag_is_node]. eexists. split; reflexivity.
        * (* ordinary statement *)
          unfold cq_stepG in E. cbv zeta in E. rewrite Hu, Eop, Hunq in E.
          assert (Eqq : N.eqb op QUASIQUOTE = false).
          { destruct (N.eqb op QUASIQUOTE) eqn:X; auto. apply N.eqb_eq in X. subst op. exfalso.
            destruct (proj2 (Flat_here_of _ HFs) QUASIQUOTE (unary_quote_head _ _ Eop eq_refl)) as [Y _].
            discriminate. }
          rewrite Eqq in E. ibind E r1 Hr1 Hk1. unfold append1 in Hk1. destruct r1 as [y|]; [|discriminate].
          ibind Hk1 z Hz Hk2. inversion Hk2; subst out. clear Hk2. simpl in Hz.
          assert (Hwy : is_wrapper y = false).
          { eapply cq_result_nonwrapper; [exact HFs|exact Hw| |exact Hr1].
            intros op' E'. congruence. }
          apply cq_fq1 in Hr1; auto. rewrite Hs in Hr1.
          apply (fq_mono_le mk ev (S f0) f') in Hr1; [|lia].
          assert (Esn2 : simplify_node mk (Slice bi SBlock ba [c]) true = simplify1 c) by reflexivity.
          rewrite Esn2, Hr1. cbn [bind fst]. eexists. split; [reflexivity|].
          cbn [simplify_node]. rewrite (to_stmt_simplify1 _ _ Hwy Hz). reflexivity.
      + unfold cq_stepG in E. cbv zeta in E. rewrite Hu, Eop in E.
        ibind E r1 Hr1 Hk1. unfold append1 in Hk1. destruct r1 as [y|]; [|discriminate].
        ibind Hk1 z Hz Hk2. inversion Hk2; subst out. clear Hk2. simpl in Hz.
        assert (Hwy : is_wrapper y = false).
        { eapply cq_result_nonwrapper; [exact HFs|exact Hw| |exact Hr1]. intros op' E'. congruence. }
        apply cq_fq1 in Hr1; auto. rewrite Hs in Hr1.
        apply (fq_mono_le mk ev (S f0) f') in Hr1; [|lia].
        assert (Esn2 : simplify_node mk (Slice bi SBlock ba [c]) true = simplify1 c) by reflexivity.
        rewrite Esn2, Hr1. cbn [bind fst]. eexists. split; [reflexivity|].
        cbn [simplify_node]. rewrite (to_stmt_simplify1 _ _ Hwy Hz). reflexivity.
    - (* two or more statements: the block itself *)
      assert (Esn2 : simplify_node mk (Slice bi SBlock ba (c :: c2 :: kids)) true = Slice bi SBlock ba (c :: c2 :: kids))
        by reflexivity.
      rewrite Esn2, Hblk. cbn [bind fst]. eexists. split; reflexivity.
  Qed.
End Equiv.

(* ---------- non-vacuity: a flat template with ~unquote and ~unquote_splice in list positions ---------- *)
Definition fl_q (op : N) (l : list tree) : tree :=
  Node 0 TUnaryExpr [op]
    [Some (Node 0 TFuncLit [] [Some (Node 0 TFuncType [] [Some (Slice 0 SFieldList [] []); None]);
                               Some (Slice 0 SBlock [] l)])].
Definition fl_es (x : tree) : tree := Node 0 TExprStmt [] [Some x].
Definition fl_id (n : N) : tree := Node 0 TIdent [n] [].
(* ~quasiquote{ f(~unquote{y}, ~unquote_splice{x}); ~unquote_splice{x}; (z) } *)
Definition fl_tmpl : tree :=
  fl_q QUASIQUOTE
    [fl_es (Node 0 TCallExpr [0%N]
              [Some (fl_id 30); Some (Slice 0 SExprs [] [fl_q UNQUOTE [fl_es (fl_id 11)];
                                                         fl_q UNQUOTE_SPLICE [fl_es (fl_id 10)]])]);
     fl_es (fl_q UNQUOTE_SPLICE [fl_es (fl_id 10)]);
     Node 0 TParenExpr [] [Some (fl_id 31)]].
Definition fl_env : list (N * tree) :=
  [(10%N, Slice 0 SBlock [] [fl_es (fl_id 40); fl_es (fl_id 41)]); (11%N, fl_id 20)].

Lemma fl_tmpl_flat : FlatTemplate fl_tmpl.
Proof.
  do 3 eexists. split; [reflexivity|]. split.
  - cbn. unfold Flat_here. cbn.
    repeat match goal with
           | |- _ /\ _ => split
           | |- True => exact I
           | |- _ -> _ => intro
           | H : Some _ = Some _ |- _ => inversion H; subst; clear H
           | H : None = Some _ |- _ => discriminate H
           | H : false = true |- _ => discriminate H
           | H : Some _ = None |- _ => discriminate H
           | |- _ = _ => reflexivity
           | |- _ <> _ => discriminate
           end.
  - intros c E. discriminate.
Qed.

Lemma fl_tmpl_runs : exists b, classic_qq mk0 (ev_of fl_env) 20 fl_tmpl = Ok (Some b) /\
                               fast_qq mk0 (ev_of fl_env) 21 fl_tmpl = Ok (Some b).
Proof. eexists. split; vm_compute; reflexivity. Qed.

(* ---------- further shapes on which the faithful models differ, met while delimiting the class (all outside it) ----------
   W_litblock : ~quasiquote{~quasiquote{ {a; b} }}   a literal block as the only statement of a nested quote form:
                fast flattens it into the form's body (MakeQuote of a BlockStmt), classic keeps {{a; b}}
                (same mechanism as C21-nested-block; the harness generator already avoids it)
   W_deepsplice_nonlist : ~quasiquote{~quasiquote{1 + ~unquote{~unquote_splice{x}}}}  a deep splice in a NON-list slot:
                fast builds ~unquote{7}; ~unquote{8} and coerces the block to an expression (a ~macro wrapper),
                classic builds the single form ~unquote{7; 8}
   W_paren2 :   ~quasiquote{f(((x))); y}   two nested ParenExpr: fast strips one, classic all (class C21-paren) *)
Definition W_litblock : tree := q QUASIQUOTE [es (q QUASIQUOTE [blk [es (id_ 40); es (id_ 41)]])].
Definition W_deepsplice_nonlist : tree :=
  q QUASIQUOTE [es (q QUASIQUOTE [es (Node 0 TBinaryExpr [12%N]
     [Some (lit 1); Some (q UNQUOTE [es (q UNQUOTE_SPLICE [es (id_ 10)])])])])].
Definition W_paren2 : tree := q QUASIQUOTE [es (call (id_ 30) [paren (paren (id_ 40))]); es (id_ 41)].

Lemma differ_more : differ W_litblock [] /\ differ W_deepsplice_nonlist env1 /\ differ W_paren2 [].
Proof. repeat split; do 2 eexists; repeat split; vm_compute; reflexivity. Qed.

(* C21 — property theorems (placeholder while the proofs are being developed) *)
From Coq Require Import List NArith ZArith Bool.
From Verif Require Import Common.Rose C21.Model.
Import ListNotations.

Theorem C21_quote_is_identity : forall mk b, fast_quote mk b = classic_quote mk b.
Proof. reflexivity. Qed.
Print Assumptions C21_quote_is_identity.

(* C21 — property theorems only: each closed by [exact lemma], followed by Print Assumptions. *)
From Coq Require Import List NArith ZArith Bool.
From Verif Require Import Common.Rose C21.Model C21.Proof C21.Examples C21.Fresh C21.Equiv.
Import ListNotations.
Open Scope Z_scope.

(* ~quote{X}: both interpreters return the syntax tree of X itself — the body block, or its only statement with
   its ExprStmt/ParenExpr/DeclStmt wrapper removed, or an empty statement; nothing is evaluated or copied *)
Theorem C21_quote_is_identity : forall mk i a k,
  fast_quote mk (Slice i SBlock a k) =
    match k with [] => empty_stmt mk | [x] => simplify1 x | _ => Slice i SBlock a k end
  /\ classic_quote mk (Slice i SBlock a k) = fast_quote mk (Slice i SBlock a k).
Proof. exact quote_identity. Qed.
Print Assumptions C21_quote_is_identity.

(* the fast algorithm as written (three cases, depth arithmetic, splice flag, deep-splice path through
   DescendNestedUnquotes / CollectNestedUnquotes / MakeNestedQuote) computes the compositional Common-Lisp style
   substitution [sq] — for ALL templates, depths and environments: whenever the specification is defined on a tidy
   template, the implementation returns exactly that tree and that splice flag.
   Tidy excludes only the shapes of known findings C21-paren / C21-nested-block under a nested unquote. *)
Theorem C21_qq_matches_spec : forall mk ev,
  (forall x, unq_chain x <> None -> ev x = Err) ->
  forall fuel d t r, 1 <= d -> Tidy mk t -> sq mk ev fuel d t = Ok r -> fq mk ev fuel d t = Ok r.
Proof. exact fq_sq. Qed.
Print Assumptions C21_qq_matches_spec.

(* the splice flag of a form is raised exactly when it is a chain of nested unquotes, at least as long as the
   current depth, whose innermost operator is ~unquote_splice (innermost unquote pairs with outermost quasiquote) *)
Theorem C21_splice_only_along_chains : forall mk ev,
  (forall x, unq_chain x <> None -> ev x = Err) ->
  forall fuel d t x, 1 <= d -> Tidy mk t -> sq mk ev fuel d t = Ok (x, true) ->
  exists ops last, unq_chain t = Some (ops, last) /\ d <= Z.of_nat (length ops) /\ last_op ops = UNQUOTE_SPLICE.
Proof. exact sq_flag. Qed.
Print Assumptions C21_splice_only_along_chains.

(* fast = classic does NOT hold on the faithful models: four witnesses, each reproduced on the real interpreters
   (corpus stream of harness/cmd/c21, known findings C21-paren, C21-nested-block, C21-top-splice-short, C21-nested-empty-body) *)
Theorem C21_fast_eq_classic_refuted :
  differ W_paren [] /\ differ W_block env_bv /\ differ W_short env_le1 /\ differ W_empty [].
Proof. exact (conj differ_paren (conj differ_block (conj differ_short differ_empty))). Qed.
Print Assumptions C21_fast_eq_classic_refuted.

(* C21_fresh_tree — node identities.  [mk] labels every object the algorithms allocate (New(), MakeQuote, the
   coercion wrappers of Set/Append).  For the fast algorithm AND the classic one (as modelled after fix 38da465), for
   EVERY template, fuel and evaluator: each node identity of the result was allocated by the algorithm or is a node of
   a VALUE an unquoted expression evaluated to — those values are inserted by reference, not copied; that is the only
   sharing the code allows.  No hypothesis on the template. *)
Theorem C21_fresh_tree : forall mk ev fuel u r,
  fast_qq mk ev fuel u = Ok (Some r) \/ classic_qq mk ev fuel u = Ok (Some r) ->
  forall j, In j (ids r) ->
    (exists i, j = mk i) \/ (exists x v, ev x = Ok (Some v) /\ In j (ids v)).
Proof. exact fresh_tree. Qed.
Print Assumptions C21_fresh_tree.

(* ... hence, when allocation never returns an object of the template, the result shares no node with the template
   except inside unquoted values *)
Theorem C21_fresh_tree_no_sharing : forall mk ev fuel u r,
  (forall i, ~ In (mk i) (ids u)) ->
  fast_qq mk ev fuel u = Ok (Some r) \/ classic_qq mk ev fuel u = Ok (Some r) ->
  forall j, In j (ids r) -> In j (ids u) -> exists x v, ev x = Ok (Some v) /\ In j (ids v).
Proof. exact fresh_tree_no_sharing. Qed.
Print Assumptions C21_fresh_tree_no_sharing.

(* sharpness: ~quasiquote{f(~unquote{v})} — template ids 0, allocator range >= 1000, the value's node 77 IS in the result *)
Example C21_ex_value_shared :
  (forall i, ~ In (mk_1000 i) (ids sh_tmpl)) /\
  exists r, fast_qq mk_1000 (ev_of sh_env) 40 sh_tmpl = Ok (Some r) /\
            classic_qq mk_1000 (ev_of sh_env) 40 sh_tmpl = Ok (Some r) /\
            In 77%N (ids r) /\ ~ In 0%N (ids r).
Proof. exact fresh_example. Qed.

(* C21_fast_eq_classic, partial: on FLAT templates (C21/Equiv.v: no nested ~quote/~quasiquote form outside unquoted
   expressions, every unquote a chain of length one, no trivial wrapper directly inside another or around a block
   [excludes C21-paren], body not a single ~unquote_splice [excludes C21-top-splice-short]; C21-nested-block and
   C21-nested-empty-body need a nested quote form and are outside by construction) a successful classic run is matched
   by the fast algorithm for every larger fuel, with the same tree (ids erased; they differ only for the empty template).
   Missing for the full statement: templates WITH nested quote forms (depth >= 2), where besides the four known
   shapes the models also differ on the shapes of C21_fast_eq_classic_refuted_more; and the converse direction
   (fast succeeds => classic succeeds) which is false when an unquote in a list position evaluates to nil or a
   splice sits in a non-list slot (classic rejects, fast accepts). *)
Theorem C21_fast_eq_classic_partial : forall mk ev f f' u b,
  FlatTemplate u -> (f < f')%nat ->
  classic_qq mk ev f u = Ok (Some b) ->
  exists a, fast_qq mk ev f' u = Ok (Some a) /\ erase a = erase b.
Proof. exact fast_eq_classic_flat. Qed.
Print Assumptions C21_fast_eq_classic_partial.

(* the class is inhabited by a template with ~unquote and ~unquote_splice in call-argument and statement positions *)
Example C21_ex_flat :
  FlatTemplate fl_tmpl /\
  exists b, classic_qq mk0 (ev_of fl_env) 20 fl_tmpl = Ok (Some b) /\ fast_qq mk0 (ev_of fl_env) 21 fl_tmpl = Ok (Some b).
Proof. exact (conj fl_tmpl_flat fl_tmpl_runs). Qed.

(* more shapes (all with nested forms or double parentheses, i.e. outside the flat class) on which the models differ *)
Theorem C21_fast_eq_classic_refuted_more :
  differ W_litblock [] /\ differ W_deepsplice_nonlist env1 /\ differ W_paren2 [].
Proof. exact differ_more. Qed.
Print Assumptions C21_fast_eq_classic_refuted_more.

(* nested quasiquotes: the innermost unquote pairs with the outermost quasiquote, in both interpreters *)
Example C21_ex_pairing :
  fast_qq mk0 (ev_of env1) (fuel_for T1) T1 = Ok (Some R1) /\ classic_qq mk0 (ev_of env1) (fuel_for T1) T1 = Ok (Some R1).
Proof. exact (conj ex_pairing_fast ex_pairing_classic). Qed.
Example C21_ex_depth3 :
  fast_qq mk0 (ev_of env1) (fuel_for T2) T2 = Ok (Some R2) /\ classic_qq mk0 (ev_of env1) (fuel_for T2) T2 = Ok (Some R2).
Proof. exact (conj ex_depth3_fast ex_depth3_classic). Qed.
(* the premises of C21_qq_matches_spec are satisfiable on these nested templates *)
Example C21_ex_premises :
  (forall env x, unq_chain x <> None -> ev_of env x = Err) /\ Tidy mk0 (body_of T1) /\ Tidy mk0 (body_of T2) /\
  (exists r, sq mk0 (ev_of env1) 40 1 (body_of T2) = Ok r /\ fq mk0 (ev_of env1) 40 1 (body_of T2) = Ok r).
Proof. exact (conj ev_of_unq (conj ex_T1_tidy (conj ex_T2_tidy ex_T2_spec))). Qed.

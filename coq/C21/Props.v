(* C21 — property theorems only: each closed by [exact lemma], followed by Print Assumptions. *)
From Coq Require Import List NArith ZArith Bool.
From Verif Require Import Common.Rose C21.Model C21.Proof C21.Examples.
Import ListNotations.
Open Scope Z_scope.

(* ~quote{X}: both interpreters return the syntax tree of X itself — the body block, or its only statement with
   its ExprStmt/ParenExpr/DeclStmt wrapper removed, or an empty statement; nothing is evaluated or copied *)
Theorem C21_quote_is_identity : forall mk i a k,
  fast_quote mk (Slice i SBlock a k) =
    match k with [] => empty_stmt mk | [x] => simplify1 x | _ => Slice i SBlock a k end
  /\ classic_quote mk (Slice i SBlock a k) = fast_quote mk (Slice i SBlock a k).
Proof. exact quote_identity. Qed.
Print Assumptions C21_quote_is_identity.

(* the fast algorithm as written (three cases, depth arithmetic, splice flag, deep-splice path through
   DescendNestedUnquotes / CollectNestedUnquotes / MakeNestedQuote) computes the compositional Common-Lisp style
   substitution [sq] — for ALL templates, depths and environments: whenever the specification is defined on a tidy
   template, the implementation returns exactly that tree and that splice flag.
   Tidy excludes only the shapes of known findings C21-paren / C21-nested-block under a nested unquote. *)
Theorem C21_qq_matches_spec : forall mk ev,
  (forall x, unq_chain x <> None -> ev x = Err) ->
  forall fuel d t r, 1 <= d -> Tidy mk t -> sq mk ev fuel d t = Ok r -> fq mk ev fuel d t = Ok r.
Proof. exact fq_sq. Qed.
Print Assumptions C21_qq_matches_spec.

(* the splice flag of a form is raised exactly when it is a chain of nested unquotes, at least as long as the
   current depth, whose innermost operator is ~unquote_splice (innermost unquote pairs with outermost quasiquote) *)
Theorem C21_splice_only_along_chains : forall mk ev,
  (forall x, unq_chain x <> None -> ev x = Err) ->
  forall fuel d t x, 1 <= d -> Tidy mk t -> sq mk ev fuel d t = Ok (x, true) ->
  exists ops last, unq_chain t = Some (ops, last) /\ d <= Z.of_nat (length ops) /\ last_op ops = UNQUOTE_SPLICE.
Proof. exact sq_flag. Qed.
Print Assumptions C21_splice_only_along_chains.

(* fast = classic does NOT hold on the faithful models: four witnesses, each reproduced on the real interpreters
   (corpus stream of harness/cmd/c21, known findings C21-paren, C21-nested-block, C21-top-splice-short, C21-nested-empty-body) *)
Theorem C21_fast_eq_classic_refuted :
  differ W_paren [] /\ differ W_block env_bv /\ differ W_short env_le1 /\ differ W_empty [].
Proof. exact (conj differ_paren (conj differ_block (conj differ_short differ_empty))). Qed.
Print Assumptions C21_fast_eq_classic_refuted.

(* nested quasiquotes: the innermost unquote pairs with the outermost quasiquote, in both interpreters *)
Example C21_ex_pairing :
  fast_qq mk0 (ev_of env1) (fuel_for T1) T1 = Ok (Some R1) /\ classic_qq mk0 (ev_of env1) (fuel_for T1) T1 = Ok (Some R1).
Proof. exact (conj ex_pairing_fast ex_pairing_classic). Qed.
Example C21_ex_depth3 :
  fast_qq mk0 (ev_of env1) (fuel_for T2) T2 = Ok (Some R2) /\ classic_qq mk0 (ev_of env1) (fuel_for T2) T2 = Ok (Some R2).
Proof. exact (conj ex_depth3_fast ex_depth3_classic). Qed.
(* the premises of C21_qq_matches_spec are satisfiable on these nested templates *)
Example C21_ex_premises :
  (forall env x, unq_chain x <> None -> ev_of env x = Err) /\ Tidy mk0 (body_of T1) /\ Tidy mk0 (body_of T2) /\
  (exists r, sq mk0 (ev_of env1) 40 1 (body_of T2) = Ok r /\ fq mk0 (ev_of env1) 40 1 (body_of T2) = Ok r).
Proof. exact (conj ev_of_unq (conj ex_T1_tidy (conj ex_T2_tidy ex_T2_spec))). Qed.

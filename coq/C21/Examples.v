(* C21 — concrete templates: non-vacuity of the theorems, the nested-quasiquote pairing rule, and the witnesses
   on which the faithful models of the two interpreters differ (known findings, reproduced on the real code). *)
From Coq Require Import List NArith ZArith Bool Lia.
From Verif Require Import Common.Rose C21.Model C21.Proof.
Import ListNotations.
Open Scope Z_scope.

Definition id_ (n : N) : tree := Node 0 TIdent [n] [].
Definition lit (n : N) : tree := Node 0 TBasicLit [5%N; n] [].
Definition es (x : tree) : tree := Node 0 TExprStmt [] [Some x].
Definition paren (x : tree) : tree := Node 0 TParenExpr [] [Some x].
Definition blk (l : list tree) : tree := Slice 0 SBlock [] l.
Definition call (f : tree) (args : list tree) : tree := Node 0 TCallExpr [0%N] [Some f; Some (Slice 0 SExprs [] args)].
Definition q (op : N) (l : list tree) : tree :=
  Node 0 TUnaryExpr [op]
    [Some (Node 0 TFuncLit [] [Some (Node 0 TFuncType [] [Some (Slice 0 SFieldList [] []); None]); Some (blk l)])].

(* x := ~quote{7; 8}   (identifier number 10);   y := ~quote{p}   (identifier 11) *)
Definition env1 : list (N * tree) := [(10%N, blk [es (lit 7); es (lit 8)]); (11%N, id_ 20)].

(* the example of the Go source comments:
     ~quasiquote{~quasiquote{1; ~unquote{2}; ~unquote{~unquote_splice{x}}}}
   = ~quasiquote{1; ~unquote{2}; ~unquote{7}; ~unquote{8}} : the innermost ~unquote_splice pairs with the outermost ~quasiquote *)
Definition T1 : tree :=
  q QUASIQUOTE [es (q QUASIQUOTE [es (lit 1); es (q UNQUOTE [es (lit 2)]);
                                  es (q UNQUOTE [es (q UNQUOTE_SPLICE [es (id_ 10)])])])].
Definition R1 : tree :=
  q QUASIQUOTE [es (lit 1); es (q UNQUOTE [es (lit 2)]); es (q UNQUOTE [es (lit 7)]); es (q UNQUOTE [es (lit 8)])].

Lemma ex_pairing_fast : fast_qq mk0 (ev_of env1) (fuel_for T1) T1 = Ok (Some R1).
Proof. vm_compute. reflexivity. Qed.
Lemma ex_pairing_classic : classic_qq mk0 (ev_of env1) (fuel_for T1) T1 = Ok (Some R1).
Proof. vm_compute. reflexivity. Qed.

(* depth 3, inside a call: QQ{QQ{QQ{f(UNQ{UNQ{SPLICE{x}}}, UNQ{UNQ{y}}, UNQ{UNQ{UNQ{y}}})}}}
   only chains as long as the nesting are evaluated; UNQ{UNQ{y}} stays *)
Definition T2 : tree :=
  q QUASIQUOTE [es (q QUASIQUOTE [es (q QUASIQUOTE
     [es (call (id_ 30) [q UNQUOTE [es (q UNQUOTE [es (q UNQUOTE_SPLICE [es (id_ 10)])])];
                         q UNQUOTE [es (q UNQUOTE [es (id_ 11)])];
                         q UNQUOTE [es (q UNQUOTE [es (q UNQUOTE [es (id_ 11)])])]])])])].
Definition R2 : tree :=
  q QUASIQUOTE [es (q QUASIQUOTE
     [es (call (id_ 30) [q UNQUOTE [es (q UNQUOTE [es (lit 7)])];
                         q UNQUOTE [es (q UNQUOTE [es (lit 8)])];
                         q UNQUOTE [es (q UNQUOTE [es (id_ 11)])];
                         q UNQUOTE [es (q UNQUOTE [es (id_ 20)])]])])].

Lemma ex_depth3_fast : fast_qq mk0 (ev_of env1) (fuel_for T2) T2 = Ok (Some R2).
Proof. vm_compute. reflexivity. Qed.
Lemma ex_depth3_classic : classic_qq mk0 (ev_of env1) (fuel_for T2) T2 = Ok (Some R2).
Proof. vm_compute. reflexivity. Qed.

(* mixed operators in one chain (seeded regression C21-nested-unquote-order): the remaining OUTER operators are re-wrapped
   around every spliced element in their original order, outermost first (base.MakeNestedQuote applies toks[last] first):
     QQ{QQ{QQ{a; UNQ{SPLICE{SPLICE{x}}}; SPLICE{UNQ{SPLICE{x}}}}}}
   = QQ{QQ{a; UNQ{SPLICE{7}}; UNQ{SPLICE{8}}; SPLICE{UNQ{7}}; SPLICE{UNQ{8}}}} *)
Definition T3 : tree :=
  q QUASIQUOTE [es (q QUASIQUOTE [es (q QUASIQUOTE
     [es (id_ 31);
      es (q UNQUOTE [es (q UNQUOTE_SPLICE [es (q UNQUOTE_SPLICE [es (id_ 10)])])]);
      es (q UNQUOTE_SPLICE [es (q UNQUOTE [es (q UNQUOTE_SPLICE [es (id_ 10)])])])])])].
Definition R3 : tree :=
  q QUASIQUOTE [es (q QUASIQUOTE
     [es (id_ 31);
      es (q UNQUOTE [es (q UNQUOTE_SPLICE [es (lit 7)])]); es (q UNQUOTE [es (q UNQUOTE_SPLICE [es (lit 8)])]);
      es (q UNQUOTE_SPLICE [es (q UNQUOTE [es (lit 7)])]); es (q UNQUOTE_SPLICE [es (q UNQUOTE [es (lit 8)])])])].

Lemma ex_mixed_chain_fast : fast_qq mk0 (ev_of env1) (fuel_for T3) T3 = Ok (Some R3).
Proof. vm_compute. reflexivity. Qed.
Lemma ex_mixed_chain_classic : classic_qq mk0 (ev_of env1) (fuel_for T3) T3 = Ok (Some R3).
Proof. vm_compute. reflexivity. Qed.
(* MakeNestedQuote: the first operator of the sequence ends up outermost, for every sequence *)
Lemma nest_outermost_first : forall mk op ops e,
  nest mk (op :: ops) e = match nest mk ops e with Ok inner => make_quote mk op (Some inner) | Err => Err | OutOfFuel => OutOfFuel end.
Proof. intros. simpl. destruct (nest mk ops e); reflexivity. Qed.

(* the hypothesis of the specification theorem is satisfiable: environments of the harness *)
Lemma ev_of_unq : forall env x, unq_chain x <> None -> ev_of env x = Err.
Proof.
  intros env x H. destruct x as [i tg a k|]; [|reflexivity].
  destruct tg; try reflexivity. exfalso. apply H. reflexivity.
Qed.

(* ... and the theorem applies to the bodies of T1 / T2 (they are Tidy, the spec is defined on them) *)
Definition body_of (u : tree) : tree := match qbody u with Some b => b | None => u end.

Lemma ex_T1_tidy : Tidy mk0 (body_of T1).
Proof. vm_compute. intuition. Qed.
Lemma ex_T2_tidy : Tidy mk0 (body_of T2).
Proof. vm_compute. intuition. Qed.
Lemma ex_T1_spec : exists r, sq mk0 (ev_of env1) 40 1 (body_of T1) = Ok r /\ fq mk0 (ev_of env1) 40 1 (body_of T1) = Ok r.
Proof. eexists. split; vm_compute; reflexivity. Qed.
Lemma ex_T2_spec : exists r, sq mk0 (ev_of env1) 40 1 (body_of T2) = Ok r /\ fq mk0 (ev_of env1) 40 1 (body_of T2) = Ok r.
Proof. eexists. split; vm_compute; reflexivity. Qed.

(* ---------- witnesses: the two interpreters differ (ids erased) ---------- *)
Definition differ (u : tree) (env : list (N * tree)) : Prop :=
  exists a b, fast_qq mk0 (ev_of env) (fuel_for u) u = Ok (Some a) /\
              classic_qq mk0 (ev_of env) (fuel_for u) u = Ok (Some b) /\ tree_sim a b = false.

(* ~quasiquote{(x); y} : fast keeps the ParenExpr, classic drops it              (known finding C21-paren) *)
Definition W_paren : tree := q QUASIQUOTE [es (paren (id_ 40)); es (id_ 41)].
(* bv := ~quote{y1; y2};  ~quasiquote{~quasiquote{1; ~unquote{~unquote{bv}}}}     (C21-nested-block) *)
Definition env_bv : list (N * tree) := [(12%N, blk [es (id_ 42); es (id_ 43)])].
Definition W_block : tree := q QUASIQUOTE [es (q QUASIQUOTE [es (lit 1); es (q UNQUOTE [es (q UNQUOTE [es (id_ 12)])])])].
(* le1 := ~quote{{k}};  ~quasiquote{~unquote_splice{le1}}                        (C21-top-splice-short) *)
Definition env_le1 : list (N * tree) := [(13%N, blk [es (id_ 44)])].
Definition W_short : tree := q QUASIQUOTE [es (q UNQUOTE_SPLICE [es (id_ 13)])].
(* ~quasiquote{~quote{}}                                                          (C21-nested-empty-body) *)
Definition W_empty : tree := q QUASIQUOTE [es (q QUOTE [])].

Lemma differ_paren : differ W_paren [].
Proof. do 2 eexists. repeat split; vm_compute; reflexivity. Qed.
Lemma differ_block : differ W_block env_bv.
Proof. do 2 eexists. repeat split; vm_compute; reflexivity. Qed.
Lemma differ_short : differ W_short env_le1.
Proof. do 2 eexists. repeat split; vm_compute; reflexivity. Qed.
Lemma differ_empty : differ W_empty [].
Proof. do 2 eexists. repeat split; vm_compute; reflexivity. Qed.

Lemma quote_identity : forall mk i a k,
  fast_quote mk (Slice i SBlock a k) =
    match k with [] => empty_stmt mk | [x] => simplify1 x | _ => Slice i SBlock a k end
  /\ classic_quote mk (Slice i SBlock a k) = fast_quote mk (Slice i SBlock a k).
Proof. intros; split; reflexivity. Qed.

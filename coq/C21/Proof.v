(* C21 — lemmas: the fast quasiquote algorithm (two paths, splice flag, DescendNestedUnquotes / CollectNestedUnquotes /
   MakeNestedQuote) computes the compositional specification [sq] for every template, depth and environment. *)
From Coq Require Import List NArith ZArith Bool Lia.
From Verif Require Import Common.Rose C21.Model.
Import ListNotations.
Open Scope Z_scope.

(* ---------- monad plumbing ---------- *)
Lemma bind_ok : forall A B (r : res A) (f : A -> res B) y,
  bind r f = Ok y -> exists a, r = Ok a /\ f a = Ok y.
Proof. intros A B [a| |] f y H; simpl in H; try discriminate. eauto. Qed.

Ltac inv_bind H :=
  let a := fresh "a" in let H1 := fresh "Hb" in let H2 := fresh "Hk" in
  apply bind_ok in H; destruct H as [a [H1 H2]].

Lemma mapM_impl : forall A B (g h : A -> res B) l ys,
  (forall x y, In x l -> g x = Ok y -> h x = Ok y) -> mapM g l = Ok ys -> mapM h l = Ok ys.
Proof.
  induction l as [|x l IH]; intros ys Hgh H; simpl in *; auto.
  inv_bind H. inv_bind Hk. inversion Hk0; subst.
  rewrite (Hgh x a (or_introl eq_refl) Hb). simpl.
  assert (E : mapM h l = Ok a0) by (apply IH; auto; intros; apply Hgh; simpl; auto).
  rewrite E. reflexivity.
Qed.

Lemma mapMi_impl : forall A B (g h : nat -> A -> res B) l i ys,
  (forall j x y, In x l -> g j x = Ok y -> h j x = Ok y) -> mapMi g i l = Ok ys -> mapMi h i l = Ok ys.
Proof.
  induction l as [|x l IH]; intros i ys Hgh H; simpl in *; auto.
  inv_bind H. inv_bind Hk. inversion Hk0; subst.
  rewrite (Hgh i x a (or_introl eq_refl) Hb). simpl.
  assert (E : mapMi h (S i) l = Ok a0) by (apply IH; auto; intros; eapply Hgh; simpl; eauto).
  rewrite E. reflexivity.
Qed.

Lemma mapM_compose : forall A B C (F : A -> res B) (G : B -> res C) (H : A -> res C) xs ys zs,
  (forall x y z, F x = Ok y -> G y = Ok z -> H x = Ok z) ->
  mapM F xs = Ok ys -> mapM G ys = Ok zs -> mapM H xs = Ok zs.
Proof.
  induction xs as [|x xs IH]; intros ys zs HFG H1 H2; simpl in *.
  - inversion H1; subst. simpl in H2. exact H2.
  - inv_bind H1. inv_bind Hk. inversion Hk0; subst. simpl in H2.
    inv_bind H2. inv_bind Hk. inversion Hk1; subst.
    rewrite (HFG _ _ _ Hb Hb1). simpl. rewrite (IH _ _ HFG Hb0 Hb2). reflexivity.
Qed.

(* ---------- well-formedness of templates ("tidy") ----------
   (1) the body of a func literal is a block (true of every parsed tree);
   (2) the element of a one-statement block reaches a nested unquote through at most ONE trivial wrapper
       (the ExprStmt every expression statement has) — i.e. no ~unquote{(~unquote{..})} and no ~unquote{{~unquote{..}}}:
       those are the classes of known findings C21-paren / C21-nested-block where SimplifyNodeForQuote (one wrapper)
       and UnwrapTrivialAst (all wrappers) see different things. *)
Definition tidy_here (mk : N -> N) (t : tree) : Prop :=
  match t with
  | Slice _ SBlock _ [c] => chain_in c = unq_chain (simplify1 c)
  | Node _ TFuncLit _ [_; Some b] => match b with Slice _ SBlock _ _ => True | _ => False end
  | _ => True
  end.

Fixpoint Tidy (mk : N -> N) (t : tree) : Prop :=
  tidy_here mk t /\
  match t with
  | Node _ _ _ k =>
      (fix all (l : list (option tree)) : Prop :=
         match l with [] => True | Some x :: l' => Tidy mk x /\ all l' | None :: l' => all l' end) k
  | Slice _ _ _ k =>
      (fix all (l : list tree) : Prop := match l with [] => True | x :: l' => Tidy mk x /\ all l' end) k
  end.

Section Proofs.
  Variable mk : N -> N.
  Variable ev : tree -> res (option tree).
  (* evaluating ~unquote / ~unquote_splice outside a quasiquote is an error (fast/unary.go, classic/unaryexpr.go) *)
  Hypothesis ev_unq : forall x, unq_chain x <> None -> ev x = Err.

  Notation Tidy := (Tidy mk).

  Lemma Tidy_here : forall t, Tidy t -> tidy_here mk t.
  Proof. destruct t; simpl; tauto. Qed.

  Lemma Tidy_kid_node : forall i tg a k x, Tidy (Node i tg a k) -> In (Some x) k -> Tidy x.
  Proof.
    intros i tg a k x [_ H]. induction k as [|o k IH]; simpl; [tauto|].
    intros [E|Hin].
    - subst o. tauto.
    - destruct o; apply IH; tauto.
  Qed.

  Lemma Tidy_kid_slice : forall i s a k x, Tidy (Slice i s a k) -> In x k -> Tidy x.
  Proof.
    intros i s a k x [_ H]. induction k as [|o k IH]; simpl; [tauto|].
    intros [E|Hin]; [subst; tauto | apply IH; tauto].
  Qed.

  Lemma Tidy_simplify1 : forall x, Tidy x -> Tidy (simplify1 x).
  Proof.
    intros x H. destruct x as [i tg a k|]; simpl; auto.
    destruct tg; auto; destruct k as [|[c|] [|? ?]]; auto;
      eapply Tidy_kid_node; eauto; simpl; auto.
  Qed.

  Lemma Tidy_empty : Tidy (empty_stmt mk).
  Proof. simpl. unfold tidy_here. simpl. tauto. Qed.

  Lemma Tidy_simplify_node : forall b, Tidy b -> Tidy (simplify_node mk b true).
  Proof.
    intros b H. destruct b as [|i s a k]; simpl.
    - apply (Tidy_simplify1 _ H).
    - destruct s; try exact H.
      destruct k as [|x [|y k]]; try exact H.
      apply Tidy_simplify1. eapply Tidy_kid_slice; eauto. simpl; auto.
  Qed.

  (* shape of a quote-like form *)
  Lemma quote_shape : forall t op b, quote_head t = Some op -> qbody t = Some b ->
    exists i ops fi fa ft, t = Node i TUnaryExpr (op :: ops) [Some (Node fi TFuncLit fa [ft; Some b])] /\ is_quote_op op = true.
  Proof.
    intros t op b Hq Hb. destruct t as [i tg a k|]; [|discriminate].
    unfold qbody in Hb.
    repeat match type of Hb with
           | match ?x with _ => _ end = Some _ => destruct x; try discriminate
           end.
    inversion Hb; subst.
    unfold quote_head, unary_op in Hq. destruct a as [|op' ops]; [discriminate|].
    destruct (is_quote_op op') eqn:E; [|discriminate]. inversion Hq; subst.
    eauto 10.
  Qed.

  Lemma Tidy_qbody : forall t op b, Tidy t -> quote_head t = Some op -> qbody t = Some b ->
    Tidy b /\ exists i a k, b = Slice i SBlock a k.
  Proof.
    intros t op b HT Hq Hb. destruct (quote_shape _ _ _ Hq Hb) as (i & ops & fi & fa & ft & E & _). subst t.
    assert (HF : Tidy (Node fi TFuncLit fa [ft; Some b])) by (eapply Tidy_kid_node; eauto; simpl; auto).
    split.
    - eapply Tidy_kid_node; eauto. simpl; auto.
    - apply Tidy_here in HF. simpl in HF. destruct b as [|bi s ba bk]; [contradiction|].
      destruct s; try contradiction. eauto.
  Qed.

  Lemma is_unq_cases : forall op, is_unq op = true -> op = UNQUOTE \/ op = UNQUOTE_SPLICE.
  Proof.
    intros op H. unfold is_unq in H. apply orb_true_iff in H.
    destruct H as [H|H]; apply N.eqb_eq in H; auto.
  Qed.

  Lemma is_unq_not_qq : forall op, is_unq op = true -> N.eqb op QUASIQUOTE = false.
  Proof. intros op H. destruct (is_unq_cases _ H); subst; reflexivity. Qed.

  Lemma not_unq_not_splice : forall op, is_unq op = false -> N.eqb op UNQUOTE_SPLICE = false.
  Proof. intros op H. unfold is_unq in H. apply orb_false_iff in H. tauto. Qed.

  (* one step along a chain of nested unquotes: what DescendNestedUnquotes sees = what the recursion sees *)
  Lemma chain_step : forall t op b, Tidy t -> quote_head t = Some op -> is_unq op = true -> qbody t = Some b ->
    (unq_chain (simplify_node mk b true) = None /\ unq_chain t = Some ([op], t)) \/
    (exists ops last, unq_chain (simplify_node mk b true) = Some (ops, last) /\ unq_chain t = Some (op :: ops, last)).
  Proof.
    intros t op b HT Hq Hu Hb.
    destruct (Tidy_qbody _ _ _ HT Hq Hb) as [HTb (bi & ba & bk & Eb)].
    destruct (quote_shape _ _ _ Hq Hb) as (i & ops & fi & fa & ft & E & _). subst t b.
    match goal with |- context [unq_chain ?T = Some ([op], ?T)] => set (T0 := T) end.
    assert (Ht : unq_chain T0 =
                 Some (match bk with
                       | [c] => match chain_in c with Some (ops1, last) => (op :: ops1, last) | None => ([op], T0) end
                       | _ => ([op], T0)
                       end)).
    { clear - Hu. destruct (is_unq_cases _ Hu) as [E|E]; subst op; unfold unq_chain, T0; simpl;
        destruct bk as [|c [|? ?]]; reflexivity. }
    rewrite Ht. clear Ht.
    destruct bk as [|c [|c2 bk]].
    - left. split; reflexivity.
    - apply Tidy_here in HTb. simpl in HTb. simpl simplify_node. rewrite HTb.
      destruct (unq_chain (simplify1 c)) as [[ops' last]|]; [right|left]; eauto.
    - left. split; reflexivity.
  Qed.

  Lemma unq_chain_head : forall t ops last, unq_chain t = Some (ops, last) ->
    exists op, quote_head t = Some op /\ is_unq op = true.
  Proof.
    intros t ops last H. unfold unq_chain in H. destruct t as [i tg a k|]; [|discriminate].
    unfold quote_head. destruct (unary_op (Node i tg a k)) as [op|]; [|discriminate].
    destruct (is_unq op) eqn:E; [|discriminate]. exists op. split; auto.
    unfold is_quote_op. destruct (is_unq_cases _ E); subst; reflexivity.
  Qed.

  Lemma qq_general_flag : forall rec d t x fl, qq_general mk rec d t = Ok (x, fl) -> fl = false.
  Proof.
    intros rec d t x fl H. destruct t; simpl in H.
    - inv_bind H. inversion Hk; auto.
    - inv_bind H. inv_bind Hk. inversion Hk0; auto.
  Qed.

  Lemma requote_flag : forall op x y fl, requote mk op x = Ok (y, fl) -> fl = false.
  Proof.
    intros op x y fl H. unfold requote in H. destruct (N.eqb op UNQUOTE_SPLICE); inv_bind H; inversion Hk; auto.
  Qed.

  Lemma distribute_false : forall op x, distribute mk op (x, false) = requote mk op x.
  Proof. intros op [[| ]|]; reflexivity. Qed.

  Lemma last_op_cons : forall op ops, ops <> [] -> last_op (op :: ops) = last_op ops.
  Proof. intros op [|o ops] H; [congruence|reflexivity]. Qed.

  (* ---- the splice flag of the specification is raised exactly along chains that end in an evaluated splice ---- *)
  Lemma sq_flag : forall f d t x, 1 <= d -> Tidy t -> sq mk ev f d t = Ok (x, true) ->
    exists ops last, unq_chain t = Some (ops, last) /\ d <= Z.of_nat (length ops) /\ last_op ops = UNQUOTE_SPLICE.
  Proof.
    induction f as [|f IH]; intros d t x Hd HT H; simpl in H; [discriminate|].
    unfold sq_body in H. destruct (quote_head t) as [op|] eqn:Hq.
    2:{ apply qq_general_flag in H. discriminate. }
    destruct (qbody t) as [b|] eqn:Hb; [|discriminate].
    destruct (Tidy_qbody _ _ _ HT Hq Hb) as [HTb _].
    destruct (is_unq op) eqn:Hu.
    - destruct (d <=? 1) eqn:Hd1.
      + inv_bind H. assert (Hop : N.eqb op UNQUOTE_SPLICE = true) by (inversion Hk; reflexivity).
        apply N.eqb_eq in Hop. subst op.
        destruct (chain_step _ _ _ HT Hq Hu Hb) as [[Hn Ht]|(ops & last & Hn & Ht)].
        * exists [UNQUOTE_SPLICE], t. split; auto. apply Z.leb_le in Hd1. simpl. split; [lia|reflexivity].
        * rewrite ev_unq in Hb0; [discriminate|]. rewrite Hn. discriminate.
      + apply Z.leb_gt in Hd1. inv_bind H. destruct a as [x0 fl0].
        destruct fl0.
        2:{ rewrite distribute_false in Hk. apply requote_flag in Hk. discriminate. }
        destruct (IH (d - 1) _ x0 ltac:(lia) (Tidy_simplify_node _ HTb) Hb0) as (ops & last & Hn & Hl & Hs).
        destruct (chain_step _ _ _ HT Hq Hu Hb) as [[Hn' _]|(ops' & last' & Hn' & Ht)]; [congruence|].
        rewrite Hn in Hn'. inversion Hn'; subst ops' last'.
        exists (op :: ops), last. split; auto. split.
        * simpl length. lia.
        * rewrite last_op_cons; auto. intro E; subst ops; simpl in Hl; lia.
    - inv_bind H. apply requote_flag in Hk. discriminate.
  Qed.

  Lemma make_quote_form : forall op n q, make_quote mk op n = Ok q -> exists body, q = quote_form mk op body.
  Proof.
    intros op n q H. unfold make_quote in H. destruct n as [n|]; [|inversion H; eauto].
    destruct n as [i tg a k|i s a k].
    - destruct (tree_cat (Node i tg a k)); inversion H; eauto.
    - destruct s; try (destruct (tree_cat (Slice i _ a k)); inversion H; eauto; fail). inversion H; eauto.
  Qed.

  Lemma nest_cons : forall op ws e,
    nest mk (op :: ws) e = (inner <- nest mk ws e ;; make_quote mk op (Some inner)).
  Proof. reflexivity. Qed.

  Lemma nest_form : forall op ws e q, nest mk (op :: ws) e = Ok q -> exists body, q = quote_form mk op body.
  Proof. intros op ws e q H. rewrite nest_cons in H. inv_bind H. exact (make_quote_form _ _ _ Hk). Qed.

  (* re-wrapping a statement-wrapped quote form = re-wrapping the quote form *)
  Lemma make_quote_exprstmt : forall op op1 body,
    make_quote mk op (Some (expr_stmt mk (quote_form mk op1 body))) = make_quote mk op (Some (quote_form mk op1 body)).
  Proof. reflexivity. Qed.

  Lemma deep_cons : forall op ws v r0 r, ws <> [] ->
    deep_result mk ws v = Ok r0 -> distribute mk op r0 = Ok r -> deep_result mk (op :: ws) v = Ok r.
  Proof.
    intros op ws v r0 r Hws H0 H1. destruct v as [v|].
    2:{ simpl in H0. inversion H0; subst. simpl in H1. exact H1. }
    destruct v as [|i s a xs]; [discriminate|].
    unfold deep_result in H0 |- *. apply bind_ok in H0. destruct H0 as (items1 & Hm1 & Hk1).
    inversion Hk1; subst r0. clear Hk1.
    unfold distribute in H1. apply bind_ok in H1. destruct H1 as (items2 & Hm2 & Hk2).
    inversion Hk2; subst r. clear Hk2.
    assert (E : mapM (fun e => if is_node e then q <- nest mk (op :: ws) e ;; to_stmt mk q else Err) xs = Ok items2).
    { eapply mapM_compose; [|exact Hm1|exact Hm2]. cbv beta. intros x y z HF HG.
      destruct (is_node x); [|discriminate].
      apply bind_ok in HF. destruct HF as (q1 & Hn1 & Hs1).
      destruct ws as [|op1 ws1]; [congruence|].
      destruct (nest_form _ _ _ _ Hn1) as [body Eq]. subst q1.
      rewrite nest_cons. rewrite Hn1. cbn [bind].
      assert (y = expr_stmt mk (quote_form mk op1 body)) by (inversion Hs1; reflexivity). subst y.
      replace (is_node (expr_stmt mk (quote_form mk op1 body))) with true in HG by reflexivity.
      rewrite make_quote_exprstmt in HG. exact HG. }
    rewrite E. reflexivity.
  Qed.

  (* ---- along a chain that ends in an evaluated splice the specification computes what the deep-splice path builds ---- *)
  Lemma sq_deep : forall f d t ops last r, 2 <= d -> Tidy t ->
    unq_chain t = Some (ops, last) -> d <= Z.of_nat (length ops) -> last_op ops = UNQUOTE_SPLICE ->
    sq mk ev f d t = Ok r ->
    exists lb v, qbody last = Some lb /\ ev (simplify_node mk lb true) = Ok v /\
                 deep_result mk (firstn (length ops - 1) ops) v = Ok r.
  Proof.
    induction f as [|f IH]; intros d t ops last r Hd HT Hc Hl Hs H; simpl in H; [discriminate|].
    destruct (unq_chain_head _ _ _ Hc) as (op & Hq & Hu).
    unfold sq_body in H. rewrite Hq in H. destruct (qbody t) as [b|] eqn:Hb; [|discriminate].
    destruct (Tidy_qbody _ _ _ HT Hq Hb) as [HTb _].
    rewrite Hu in H. destruct (d <=? 1) eqn:Hd1; [apply Z.leb_le in Hd1; lia|].
    inv_bind H. rename a into r0.
    destruct (chain_step _ _ _ HT Hq Hu Hb) as [[Hn Ht]|(ops' & last' & Hn & Ht)].
    { rewrite Hc in Ht. inversion Ht; subst. simpl in Hl. lia. }
    rewrite Hc in Ht. inversion Ht; subst ops last'. clear Ht.
    assert (Hne : ops' <> []) by (intro E; subst; simpl in Hl; lia).
    rewrite last_op_cons in Hs by auto.
    assert (HTn := Tidy_simplify_node _ HTb).
    destruct (Z.eq_dec d 2) as [E2|N2].
    - (* the body is evaluated at depth 1: it is the last unquote of the chain *)
      subst d. destruct f as [|f]; simpl in Hb0; [discriminate|].
      destruct (unq_chain_head _ _ _ Hn) as (op' & Hq' & Hu').
      unfold sq_body in Hb0. rewrite Hq' in Hb0.
      destruct (qbody (simplify_node mk b true)) as [b'|] eqn:Hb'; [|discriminate].
      rewrite Hu' in Hb0. replace (2 - 1 <=? 1) with true in Hb0 by reflexivity.
      inv_bind Hb0. inversion Hk0; subst r0. clear Hk0.
      destruct (chain_step _ _ _ HTn Hq' Hu' Hb') as [[Hn2 Ht2]|(ops2 & last2 & Hn2 & _)].
      2:{ rewrite ev_unq in Hb1; [discriminate|]. rewrite Hn2. discriminate. }
      rewrite Hn in Ht2. inversion Ht2; subst ops' last. clear Ht2.
      unfold last_op in Hs. simpl in Hs. subst op'. exists b', a. split; auto.
    - destruct (IH (d - 1) _ ops' last r0 ltac:(lia) HTn Hn ltac:(simpl length in Hl; lia) Hs Hb0)
        as (lb & v & Hlb & Hev & Hdr).
      exists lb, v. split; auto. split; auto.
      replace (firstn (length (op :: ops') - 1) (op :: ops')) with (op :: firstn (length ops' - 1) ops').
      + eapply deep_cons; eauto.
        destruct ops' as [|o1 [|o2 ops2]]; [congruence| |simpl; discriminate].
        simpl in Hl. lia.
      + destruct ops' as [|o1 ops1]; [congruence|]. simpl length.
        replace (S (S (length ops1)) - 1)%nat with (S (S (length ops1) - 1))%nat by lia. reflexivity.
  Qed.

  Definition is_kid (k : tree) (t : tree) : Prop :=
    match t with Node _ _ _ ks => In (Some k) ks | Slice _ _ _ ks => In k ks end.

  Lemma qq_general_impl : forall (rec1 rec2 : rec_t) d t r,
    (forall k r, is_kid k t -> rec1 d (simplify1 k) = Ok r -> rec2 d (simplify1 k) = Ok r) ->
    qq_general mk rec1 d t = Ok r -> qq_general mk rec2 d t = Ok r.
  Proof.
    intros rec1 rec2 d t r Hrec H. destruct t as [i tg a ks|i s a ks]; simpl in *.
    - inv_bind H. erewrite mapMi_impl; [exact Hk| |exact Hb].
      intros j o y Hin Ho. destruct o as [c|]; auto.
      inv_bind Ho. rewrite (Hrec c _ Hin Hb0). exact Hk0.
    - inv_bind H. erewrite mapM_impl; [exact Hk| |exact Hb].
      intros x y Hin Hx. apply Hrec; auto.
  Qed.

  Lemma Tidy_is_kid : forall k t, Tidy t -> is_kid k t -> Tidy (simplify1 k).
  Proof.
    intros k t HT Hk. apply Tidy_simplify1. destruct t; simpl in Hk.
    - eapply Tidy_kid_node; eauto.
    - eapply Tidy_kid_slice; eauto.
  Qed.

  (* ---- main lemma ---- *)
  Lemma fq_sq : forall f d t r, 1 <= d -> Tidy t -> sq mk ev f d t = Ok r -> fq mk ev f d t = Ok r.
  Proof.
    induction f as [|f IH]; intros d t r Hd HT H; [discriminate|].
    assert (Hwhole := H). simpl in H |- *. unfold sq_body in H. unfold fq_body.
    destruct (quote_head t) as [op|] eqn:Hq.
    2:{ eapply qq_general_impl; [|exact H]. intros k r0 Hk Hr. apply IH; auto. eapply Tidy_is_kid; eauto. }
    destruct (qbody t) as [b|] eqn:Hb; [|discriminate].
    destruct (Tidy_qbody _ _ _ HT Hq Hb) as [HTb _].
    assert (HTn := Tidy_simplify_node _ HTb).
    destruct (is_unq op) eqn:Hu.
    - (* ~unquote / ~unquote_splice *)
      rewrite (is_unq_not_qq _ Hu).
      destruct (d <=? 1) eqn:Hd1.
      + apply Z.leb_le in Hd1. assert (d = 1) by lia. subst d.
        inv_bind H.
        destruct (chain_step _ _ _ HT Hq Hu Hb) as [[Hn Ht]|(ops & last & Hn & Ht)].
        2:{ rewrite ev_unq in Hb0; [discriminate|]. rewrite Hn. discriminate. }
        unfold deep_chain. rewrite Hu, Ht. simpl. rewrite Hb0. exact Hk.
      + apply Z.leb_gt in Hd1. inv_bind H. rename a into r0.
        destruct (deep_chain op d t) as [[ops last]|] eqn:Hdeep.
        * (* deep-splice path *)
          unfold deep_chain in Hdeep. rewrite Hu in Hdeep.
          destruct (unq_chain t) as [[ops0 last0]|] eqn:Hc; [|discriminate].
          destruct ((1 <? Z.of_nat (length ops0)) && (d <=? Z.of_nat (length ops0)) &&
                    N.eqb (last_op ops0) UNQUOTE_SPLICE) eqn:Hcond; [|discriminate].
          inversion Hdeep; subst ops0 last0.
          apply andb_true_iff in Hcond. destruct Hcond as [Hc1 Hc3].
          apply andb_true_iff in Hc1. destruct Hc1 as [Hc1 Hc2].
          apply Z.leb_le in Hc2. apply N.eqb_eq in Hc3.
          destruct (sq_deep (S f) d t ops last r ltac:(lia) HT Hc Hc2 Hc3 Hwhole) as (lb & v & Hlb & Hev & Hdr).
          rewrite Hlb, Hev. exact Hdr.
        * (* ordinary path: the body yields a single tree *)
          replace (d - 1 <=? 0) with false by (symmetry; apply Z.leb_gt; lia).
          rewrite (IH (d - 1) _ r0 ltac:(lia) HTn Hb0). simpl.
          destruct r0 as [x0 [|]]; [|rewrite distribute_false in Hk; exact Hk].
          exfalso.
          destruct (sq_flag f (d - 1) _ x0 ltac:(lia) HTn Hb0) as (ops & last & Hn & Hl & Hs).
          destruct (chain_step _ _ _ HT Hq Hu Hb) as [[Hn' _]|(ops' & last' & Hn' & Ht)]; [congruence|].
          rewrite Hn in Hn'. inversion Hn'; subst ops' last'.
          unfold deep_chain in Hdeep. rewrite Hu, Ht in Hdeep.
          assert (Hne : ops <> []) by (intro E; subst; simpl in Hl; lia).
          rewrite last_op_cons in Hdeep by auto. rewrite Hs in Hdeep.
          simpl length in Hdeep.
          replace (1 <? Z.of_nat (S (length ops))) with true in Hdeep by (symmetry; apply Z.ltb_lt; lia).
          replace (d <=? Z.of_nat (S (length ops))) with true in Hdeep by (symmetry; apply Z.leb_le; lia).
          discriminate.
    - (* ~quote / ~quasiquote *)
      unfold deep_chain. rewrite Hu.
      set (d' := if N.eqb op QUASIQUOTE then d + 1 else d) in *.
      assert (1 <= d') by (unfold d'; destruct (N.eqb op QUASIQUOTE); lia).
      replace (d' <=? 0) with false by (symmetry; apply Z.leb_gt; lia).
      inv_bind H. rewrite (IH d' _ a ltac:(lia) HTn Hb0). exact Hk.
  Qed.

  (* ---------- ~quote ---------- *)
  Lemma quote_same : forall b, fast_quote mk b = classic_quote mk b.
  Proof. reflexivity. Qed.

  Lemma quote_is_template : forall i a k,
    fast_quote mk (Slice i SBlock a k) =
    match k with [] => empty_stmt mk | [x] => simplify1 x | _ => Slice i SBlock a k end.
  Proof. reflexivity. Qed.
End Proofs.

(* C22 -- lemmas: a row accepted by the boolean checks round-trips every well-typed node *)
From Coq Require Import List String ZArith Bool Arith Lia.
From Verif Require Import C22.Model.
Import ListNotations.
Open Scope string_scope.

(* ------------------------------------------------------------------ small facts *)
Lemma str_in_In x l : str_in x l = true <-> In x l.
Proof.
  unfold str_in. rewrite existsb_exists. split.
  - intros [y [Hy He]]. apply String.eqb_eq in He. subst. auto.
  - intros H. exists x. split; auto. apply String.eqb_refl.
Qed.

Lemma str_in_notIn x l : str_in x l = false -> ~ In x l.
Proof. intros H Hin. apply str_in_In in Hin. congruence. Qed.

Lemma nodupb_NoDup l : nodupb l = true -> NoDup l.
Proof.
  induction l; simpl; intros H; constructor.
  - apply andb_prop in H. destruct H as [H _]. apply negb_true_iff in H. now apply str_in_notIn.
  - apply andb_prop in H. tauto.
Qed.

Lemma upd_same f v m : upd f v m f = v.
Proof. unfold upd. now rewrite String.eqb_refl. Qed.
Lemma upd_other f g v m : g <> f -> upd f v m g = m g.
Proof. unfold upd. intros H. apply String.eqb_neq in H. now rewrite H. Qed.

Lemma apply_writes_notin vs : forall m f, ~ In f (map fst vs) -> apply_writes vs m f = m f.
Proof.
  induction vs as [|[g v] vs IH]; simpl; intros m f H; auto.
  rewrite IH by tauto. apply upd_other. intro; subst; tauto.
Qed.

Lemma apply_writes_in vs : forall m f v, NoDup (map fst vs) -> In (f, v) vs -> apply_writes vs m f = v.
Proof.
  induction vs as [|[g w] vs IH]; simpl; intros m f v Hnd Hin; [tauto|].
  inversion Hnd; subst. destruct Hin as [Heq|Hin].
  - inversion Heq; subst. rewrite apply_writes_notin by assumption. apply upd_same.
  - now apply IH.
Qed.

Lemma apply_writes_app a : forall b m, apply_writes (a ++ b) m = apply_writes b (apply_writes a m).
Proof. induction a as [|[g v] a IH]; simpl; intros; auto. Qed.

Lemma feq_refl k a : feq k a a.
Proof. destruct k; simpl; auto. Qed.

Lemma field_kind_In st f k : field_kind st f = Some k -> exists g, In g (s_fields st) /\ f_name g = f /\ f_kind g = k.
Proof.
  unfold field_kind. destruct (find _ _) as [g|] eqn:E; simpl; intros H; inversion H; subst.
  apply find_some in E. destruct E as [Hin He]. apply String.eqb_eq in He. eauto.
Qed.

Lemma field_kind_of_In st g :
  NoDup (map f_name (s_fields st)) -> In g (s_fields st) -> field_kind st (f_name g) = Some (f_kind g).
Proof.
  unfold field_kind. induction (s_fields st) as [|a l IH]; simpl; intros Hnd Hin; [tauto|].
  inversion Hnd; subst. destruct Hin as [->|Hin].
  - now rewrite String.eqb_refl.
  - destruct (String.eqb (f_name a) (f_name g)) eqn:E.
    + apply String.eqb_eq in E. exfalso. apply H1. rewrite E. now apply in_map.
    + now apply IH.
Qed.

(* ------------------------------------------------------------------ converters *)
Lemma conv_apply_of_decide tbl cv c d :
  conv_decide tbl cv (shape_of c) = Ok d ->
  conv_apply tbl cv c = Ok (match d with DSame => payload c | DNil => None end).
Proof. unfold conv_apply. intros ->. now destruct d. Qed.

Lemma conv_id_nil tbl k v cv : conv_id_on tbl k v cv = true -> conv_apply tbl cv None = Ok None.
Proof.
  unfold conv_id_on. intros H. apply andb_prop in H. destruct H as [H _].
  unfold conv_apply. simpl. destruct (conv_decide tbl cv CNil) as [[|]| |]; try discriminate. reflexivity.
Qed.

Lemma conv_id_child tbl t v cv c :
  conv_id_on tbl (KChild t) v cv = true -> child_ok tbl t (c_dyn c) = true ->
  exists a, wrap_child tbl v c = Ok a /\ conv_apply tbl cv (Some a) = Ok (Some (PNode c)).
Proof.
  unfold conv_id_on. intros H Hc. apply andb_prop in H. destruct H as [_ H].
  assert (Hgen : forall t', t' = t -> (match t' with TAst => False | _ => True end) ->
     forallb (fun s => if child_ok tbl t (s_name s) then
          match v with
          | ViaToAst => match wrapper_of tbl (s_name s) with
                        | Some w => match conv_decide tbl cv (CNodeW w (s_name s)) with Ok DSame => true | _ => false end
                        | None => false
                        end
          | ViaWrap w => match conv_decide tbl cv (CNodeW w (s_name s)) with Ok DSame => true | _ => false end
          | ViaNone => false
          end else true) (t_structs tbl) = true ->
     exists a, wrap_child tbl v c = Ok a /\ conv_apply tbl cv (Some a) = Ok (Some (PNode c))).
  { intros t' Ht' Hnot Hall. subst t'.
    assert (Hs : is_struct tbl (c_dyn c) = true).
    { destruct t; simpl in Hnot; try tauto; simpl in Hc;
      apply andb_prop in Hc; destruct Hc as [Hc _]; apply andb_prop in Hc; tauto. }
    unfold is_struct, find_struct in Hs. destruct (find _ _) as [s|] eqn:E; try discriminate.
    apply find_some in E. destruct E as [Hin He]. apply String.eqb_eq in He.
    rewrite forallb_forall in Hall. specialize (Hall s Hin). rewrite He, Hc in Hall.
    destruct v as [|w|]; simpl.
    - destruct (wrapper_of tbl (c_dyn c)) as [w|]; try discriminate.
      eexists; split; [reflexivity|].
      destruct (conv_decide tbl cv (CNodeW w (c_dyn c))) as [[|]| |] eqn:D; try discriminate.
      apply (conv_apply_of_decide tbl cv (Some (ANode w c))) in D. exact D.
    - eexists; split; [reflexivity|].
      destruct (conv_decide tbl cv (CNodeW w (c_dyn c))) as [[|]| |] eqn:D; try discriminate.
      apply (conv_apply_of_decide tbl cv (Some (ANode w c))) in D. exact D.
    - discriminate. }
  destruct t as [i|p|].
  - apply (Hgen (TIface i)); simpl; auto.
  - apply (Hgen (TPtr p)); simpl; auto.
  - apply andb_prop in H. destruct H as [Hid Hv]. apply String.eqb_eq in Hid. subst cv.
    assert (Hd : forall a, conv_apply tbl "Id" (Some a) = Ok (payload (Some a))).
    { intros a. unfold conv_apply, conv_decide. simpl. now destruct a. }
    destruct v as [|w|]; try discriminate; simpl; eexists; split; try reflexivity; apply Hd.
Qed.

Lemma conv_id_list tbl t v cv :
  conv_id_on tbl (KList t) v cv = true ->
  exists w, v = ViaWrap w /\ forall l, conv_apply tbl cv (Some (ASlice w l)) = Ok (Some (PSlice l)).
Proof.
  unfold conv_id_on. intros H. apply andb_prop in H. destruct H as [_ H].
  destruct v as [|w|]; try discriminate. exists w. split; auto. intros l.
  destruct (conv_decide tbl cv (CSliceW w)) as [[|]| |] eqn:D; try discriminate.
  apply (conv_apply_of_decide tbl cv (Some (ASlice w l))) in D. exact D.
Qed.

(* reading a field through Get and converting it back as Set does gives the field's value *)
Lemma read_conv tbl n f k v cv :
  conv_id_on tbl k v cv = true -> wt_fval tbl k (n f) ->
  exists c p, read_field tbl n f v = Ok c /\ conv_apply tbl cv c = Ok p /\
              store (Some k) p = Some (n f) /\ (match p with Some _ => 1 | None => 0 end)%Z = nonnil (n f).
Proof.
  intros Hid Hwt. pose proof (conv_id_nil _ _ _ _ Hid) as Hnil.
  destruct k; try (unfold conv_id_on in Hid; rewrite andb_false_r in Hid; discriminate).
  - (* KChild *) unfold read_field. destruct (n f) as [z|[c|]|l]; simpl in Hwt; try tauto.
    + destruct (conv_id_child _ _ _ _ c Hid Hwt) as [a [Ha Hc]]. rewrite Ha.
      exists (Some a), (Some (PNode c)). auto.
    + exists None, None. auto.
  - (* KList *) destruct (conv_id_list _ _ _ _ Hid) as [w [-> Hl]].
    unfold read_field. destruct (n f) as [z|c|[l|]]; simpl in Hwt; try tauto.
    + exists (Some (ASlice w l)), (Some (PSlice l)). auto.
    + exists None, None. auto.
Qed.

(* ------------------------------------------------------------------ one slot *)
Definition slot_expected (n : node) (x : nat * getr * setr) : list (ident * fval) :=
  match x with
  | (_, GRead f _, SWrites ((_, WConv _) :: derived)) =>
      (f, n f) :: map (fun d : ident * wexpr => (fst d, VScalar (nonnil (n f)))) derived
  | _ => []
  end.

Lemma eval_derived tbl st c cv p : forall derived,
  conv_apply tbl cv c = Ok p ->
  forallb (fun d : ident * wexpr => match snd d with
                    | WNonNil cv' => String.eqb cv cv' && match field_kind st (fst d) with Some KAtom => true | _ => false end
                    | _ => false end) derived = true ->
  eval_writes tbl st c derived = Ok (map (fun d => (fst d, VScalar (match p with Some _ => 1 | None => 0 end)%Z)) derived).
Proof.
  induction derived as [|[d we] derived IH]; simpl; intros Hc H; auto.
  apply andb_prop in H. destruct H as [H1 H2]. destruct we as [|cv']; try discriminate.
  apply andb_prop in H1. destruct H1 as [H1 _]. apply String.eqb_eq in H1. subst cv'.
  unfold eval_write. simpl. rewrite Hc. rewrite IH; auto.
Qed.

Lemma slot_sem tbl st n x :
  slot_ok tbl st x = true -> wt_node tbl st n ->
  exists c, sem_getr tbl n (snd (fst x)) = Ok c /\
            forall m, sem_setr tbl st m (snd x) c = Ok (apply_writes (slot_expected n x) m).
Proof.
  destruct x as [[i g] s]. intros H Hwt. simpl.
  destruct g as [f v| | |]; try discriminate.
  destruct s as [ws| |]; try discriminate.
  destruct ws as [|[f' [cv|cv]] derived]; try discriminate.
  simpl in H. apply andb_prop in H. destruct H as [H Hder]. apply andb_prop in H. destruct H as [Hf Hk].
  apply String.eqb_eq in Hf. subst f'.
  destruct (field_kind st f) as [k|] eqn:Ek; try discriminate.
  destruct (field_kind_In _ _ _ Ek) as [g [Hin [Hn Hkk]]].
  pose proof (Hwt g Hin) as Hw. rewrite Hn, Hkk in Hw.
  destruct (read_conv tbl n f k v cv Hk Hw) as [c [p [Hr [Hc [Hs Hnn]]]]].
  exists c. split; [exact Hr|]. intros m. simpl.
  unfold eval_write at 1. simpl. rewrite Hc, Ek, Hs.
  rewrite (eval_derived tbl st c cv p derived Hc Hder). rewrite Hnn. reflexivity.
Qed.

Lemma slot_expected_keys tbl st n x :
  slot_ok tbl st x = true -> map fst (slot_expected n x) = map fst (slot_writes (snd x)).
Proof.
  destruct x as [[i g] s]. intros H.
  destruct g as [f v| | |]; try discriminate.
  destruct s as [ws| |]; try discriminate.
  destruct ws as [|[f' [cv|cv]] derived]; try discriminate.
  simpl in H. apply andb_prop in H. destruct H as [H _]. apply andb_prop in H. destruct H as [Hf _].
  apply String.eqb_eq in Hf. subst f'. simpl. f_equal. rewrite map_map. reflexivity.
Qed.

(* ------------------------------------------------------------------ the Set loop of a fixed-size wrapper *)
Local Opaque slot_ok slot_expected.
Definition slots_of gets gelse sets selse (is : list nat) : list (nat * getr * setr) :=
  map (fun i => (i, getr_at gets gelse i, setr_at sets selse i)) is.

Lemma set_all_fixed tbl st r n size gets gelse sets selse :
  r_shape r = Fixed size gets gelse sets selse -> wt_node tbl st n ->
  forall is m, forallb (slot_ok tbl st) (slots_of gets gelse sets selse is) = true ->
    set_all tbl st r n m is = Ok (apply_writes (flat_map (slot_expected n) (slots_of gets gelse sets selse is)) m).
Proof.
  intros Hs Hwt. induction is as [|i is IH]; intros m H; simpl; auto.
  simpl in H. apply andb_prop in H. destruct H as [H1 H2].
  destruct (slot_sem tbl st n _ H1 Hwt) as [c [Hg Hset]]. simpl in Hg, Hset.
  unfold sem_get, sem_set. rewrite Hs. rewrite Hg. rewrite Hset.
  rewrite IH by assumption. now rewrite apply_writes_app.
Qed.

Lemma all_slots_fixed r size gets gelse sets selse :
  r_shape r = Fixed size gets gelse sets selse -> all_slots r = slots_of gets gelse sets selse (seq 0 size).
Proof. unfold all_slots. now intros ->. Qed.

Lemma expected_keys tbl st n : forall slots,
  forallb (slot_ok tbl st) slots = true ->
  map fst (flat_map (slot_expected n) slots) = map fst (flat_map (fun x => slot_writes (snd x)) slots).
Proof.
  induction slots as [|x slots IH]; simpl; intros H; auto.
  apply andb_prop in H. destruct H as [H1 H2]. rewrite !map_app.
  rewrite (slot_expected_keys tbl st n x H1), IH; auto.
Qed.

Local Transparent slot_ok slot_expected.
(* what a fixed-size round trip leaves in every field *)
Lemma fixed_rebuild tbl st r n size gets gelse sets selse :
  r_shape r = Fixed size gets gelse sets selse ->
  fixed_ok tbl st r = true -> wt_node tbl st n -> derived_inv r n ->
  exists m, rebuild tbl st r n = Ok m /\
    (forall f, str_in f (map fst (all_writes r)) = true -> m f = n f) /\
    (forall f, str_in f (map fst (all_writes r)) = false -> m f = sem_new st r n f).
Proof.
  intros Hs Hok Hwt Hder. unfold fixed_ok in Hok.
  repeat (apply andb_prop in Hok; destruct Hok as [Hok ?]).
  rename H into Hfields, H0 into Hdisj, H1 into Hnd, H2 into Hslots.
  pose proof (all_slots_fixed _ _ _ _ _ _ Hs) as Hall.
  unfold rebuild, sem_size. rewrite Hs.
  rewrite Hall in Hslots.
  rewrite (set_all_fixed tbl st r n _ _ _ _ _ Hs Hwt _ _ Hslots).
  eexists; split; [reflexivity|].
  set (E := flat_map (slot_expected n) (slots_of gets gelse sets selse (seq 0 size))).
  assert (Hkeys : map fst E = map fst (all_writes r)).
  { unfold E, all_writes. rewrite Hall. apply (expected_keys tbl st). exact Hslots. }
  apply nodupb_NoDup in Hnd.
  split.
  - intros f Hf. apply str_in_In in Hf. rewrite <- Hkeys in Hf.
    apply in_map_iff in Hf. destruct Hf as [[f' v] [Hfst Hin]]. simpl in Hfst. subst f'.
    rewrite (apply_writes_in E _ f v); [|rewrite Hkeys; exact Hnd|exact Hin].
    unfold E in Hin. apply in_flat_map in Hin. destruct Hin as [x [Hx Hin]].
    rewrite forallb_forall in Hslots. pose proof (Hslots x Hx) as Hsx.
    destruct x as [[i g] s].
    destruct g as [f0 v0| | |]; try discriminate.
    destruct s as [ws| |]; try discriminate.
    destruct ws as [|[f' [cv|cv]] derived]; try discriminate.
    simpl in Hsx. apply andb_prop in Hsx. destruct Hsx as [Hsx Hd]. apply andb_prop in Hsx. destruct Hsx as [Hf0 _].
    apply String.eqb_eq in Hf0. subst f'.
    simpl in Hin. destruct Hin as [Heq|Hin].
    + inversion Heq; subst. reflexivity.
    + apply in_map_iff in Hin. destruct Hin as [[d we] [Heq Hdin]]. simpl in Heq. inversion Heq; subst.
      rewrite forallb_forall in Hd. pose proof (Hd _ Hdin) as Hdd. simpl in Hdd.
      destruct we as [|cv']; try discriminate.
      symmetry. rewrite <- Hall in Hx. eapply Hder; eauto.
  - intros f Hf. apply str_in_notIn in Hf. rewrite <- Hkeys in Hf.
    now rewrite apply_writes_notin.
Qed.

Lemma new_field_value st r n f : new_ok r = true ->
  sem_new st r n f = if str_in f (new_fields r) then n f else zero_of (field_kind st f).
Proof. unfold new_ok, sem_new, new_fields. destruct (r_new r); intros; try discriminate. reflexivity. Qed.

Lemma unwritten_field_equiv st r n g (v : fval) :
  new_ok r = true -> unsupported_zero st r n -> In g (s_fields st) ->
  v = sem_new st r n (f_name g) ->
  (if str_in (f_name g) (new_fields r) then true else ignorable (f_kind g) || pair_in (r_struct r, f_name g) unsupported_fields) = true ->
  feq (f_kind g) v (n (f_name g)).
Proof.
  intros Hnew Hz Hin -> H. rewrite new_field_value by assumption.
  destruct (str_in (f_name g) (new_fields r)); [apply feq_refl|].
  apply orb_prop in H. destruct H as [H|H].
  - destruct (f_kind g); simpl in *; auto; discriminate.
  - rewrite (Hz g Hin H). apply feq_refl.
Qed.

Lemma fixed_roundtrip tbl st r n size gets gelse sets selse :
  r_shape r = Fixed size gets gelse sets selse ->
  fixed_ok tbl st r = true -> wt_node tbl st n -> derived_inv r n -> unsupported_zero st r n ->
  exists m, rebuild tbl st r n = Ok m /\ node_equiv st m n /\
            (forall f, str_in f (new_fields r) = true \/
                       existsb (fun w => String.eqb (fst w) f && match snd w with WConv _ => true | _ => false end) (all_writes r) = true ->
                       m f = n f).
Proof.
  intros Hs Hok Hwt Hder Hz.
  destruct (fixed_rebuild _ _ _ _ _ _ _ _ _ Hs Hok Hwt Hder) as [m [Hr [Hw Hnw]]].
  exists m. split; [exact Hr|].
  unfold fixed_ok in Hok. repeat (apply andb_prop in Hok; destruct Hok as [Hok ?]).
  rename H into Hfields, Hok into Hnew.
  split.
  - intros g Hin. rewrite forallb_forall in Hfields. pose proof (Hfields g Hin) as Hg.
    unfold field_ok in Hg.
    destruct (str_in (f_name g) (map fst (all_writes r))) eqn:Ew.
    + rewrite (Hw _ Ew). apply feq_refl.
    + simpl in Hg.
      apply (unwritten_field_equiv st r n g); auto.
      destruct (f_kind g); try exact Hg; discriminate.
  - intros f [Hf|Hf].
    + destruct (str_in f (map fst (all_writes r))) eqn:Ew; [now apply Hw|].
      rewrite (Hnw _ Ew), new_field_value by assumption. now rewrite Hf.
    + apply Hw. apply str_in_In. apply existsb_exists in Hf. destruct Hf as [w [Hin Hwf]].
      apply andb_prop in Hwf. destruct Hwf as [He _]. apply String.eqb_eq in He. subst f.
      apply in_map. exact Hin.
Qed.

(* ------------------------------------------------------------------ variable-length wrappers (New + Append) *)
Local Open Scope list_scope.
Lemma list_of_upd lf l m : list_of (upd lf (VList (Some l)) m lf) = Some l.
Proof. now rewrite upd_same. Qed.

Lemma append_loop tbl st r n lf v setc appc t l :
  r_shape r = VarLen lf v setc appc -> list_of (n lf) = Some l ->
  conv_id_on tbl (KChild t) v appc = true ->
  (forall c, In c l -> child_ok tbl t (c_dyn c) = true) ->
  forall suf pre m, l = pre ++ suf -> list_of (m lf) = Some pre ->
    exists m', set_all tbl st r n m (seq (List.length pre) (List.length suf)) = Ok m' /\
               list_of (m' lf) = Some l /\ (forall f, f <> lf -> m' f = m f) /\
               (suf <> [] -> m' lf = VList (Some l)).
Proof.
  intros Hs Hl Hid Hwt. induction suf as [|c suf IH]; intros pre m Hsplit Hm.
  - simpl. exists m. rewrite app_nil_r in Hsplit. subst. repeat split; auto. tauto.
  - simpl. unfold sem_get. rewrite Hs, Hl.
    assert (Hnth : nth_error l (List.length pre) = Some c).
    { subst l. rewrite nth_error_app2 by lia. now rewrite Nat.sub_diag. }
    rewrite Hnth.
    assert (Hc : child_ok tbl t (c_dyn c) = true).
    { apply Hwt. subst l. apply in_or_app. right. now left. }
    destruct (conv_id_child _ _ _ _ c Hid Hc) as [a [Ha Hconv]]. rewrite Ha.
    unfold sem_append. rewrite Hs, Hm, Hconv.
    set (m1 := upd lf (VList (Some (pre ++ [c]))) m).
    destruct (IH (pre ++ [c]) m1) as [m' [Hset [Hlm [Hoth Hne]]]].
    + subst l. now rewrite <- app_assoc.
    + unfold m1. apply list_of_upd.
    + rewrite app_length in Hset. simpl in Hset. replace (List.length pre + 1) with (S (List.length pre)) in Hset by lia.
      exists m'. split; [exact Hset|]. split; [exact Hlm|]. split.
      * intros f Hf. rewrite Hoth by assumption. unfold m1. now apply upd_other.
      * intros _. destruct suf as [|c' suf'].
        -- simpl in Hset. inversion Hset; subst m'. unfold m1. rewrite upd_same.
           subst l. reflexivity.
        -- apply Hne. discriminate.
Qed.

Lemma varlen_roundtrip tbl st r n lf v setc appc :
  NoDup (map f_name (s_fields st)) ->
  r_shape r = VarLen lf v setc appc ->
  varlen_ok tbl st r lf v setc appc = true -> wt_node tbl st n -> unsupported_zero st r n ->
  exists m, rebuild tbl st r n = Ok m /\ node_equiv st m n /\
            (forall f, str_in f (new_fields r) = true -> m f = n f).
Proof.
  intros Hnd Hs Hok Hwt Hz. unfold varlen_ok in Hok.
  repeat (apply andb_prop in Hok; destruct Hok as [Hok ?]).
  rename H into Hfields, H0 into Hlist, H1 into Hlfnew, H2 into Hslice, Hok into Hnew.
  destruct (field_kind st lf) as [k|] eqn:Ek; try discriminate.
  destruct k as [| | | | | |t|]; try discriminate.
  repeat (apply andb_prop in Hlist; destruct Hlist as [Hlist ?]).
  rename H0 into Happ.
  destruct (field_kind_In _ _ _ Ek) as [g0 [Hin0 [Hn0 Hk0]]].
  pose proof (Hwt g0 Hin0) as Hw0. rewrite Hn0, Hk0 in Hw0.
  assert (Hl : exists l, list_of (n lf) = Some l /\ (forall c, In c l -> child_ok tbl t (c_dyn c) = true) /\
                         (n lf = VList (Some l) \/ (n lf = VList None /\ l = []))).
  { destruct (n lf) as [z|c|[l|]]; simpl in Hw0; try tauto.
    - exists l. simpl. auto.
    - exists []. simpl. repeat split; auto; intros c []. }
  destruct Hl as [l [Hl [Hcs Hshape]]].
  apply negb_true_iff in Hlfnew.
  assert (Hm0 : list_of (sem_new st r n lf) = Some []).
  { rewrite new_field_value by assumption. rewrite Hlfnew, Ek. reflexivity. }
  destruct (append_loop tbl st r n lf v setc appc t l Hs Hl Happ Hcs l [] (sem_new st r n) eq_refl Hm0)
    as [m [Hset [Hlm [Hoth Hne]]]].
  exists m. split.
  { unfold rebuild, sem_size. rewrite Hs, Hl. simpl. exact Hset. }
  split.
  - intros g Hin. rewrite forallb_forall in Hfields. pose proof (Hfields g Hin) as Hg.
    destruct (String.eqb (f_name g) lf) eqn:Eg.
    + apply String.eqb_eq in Eg. rewrite Eg.
      assert (Hkg : f_kind g = KList t).
      { pose proof (field_kind_of_In st g Hnd Hin) as Hk. rewrite Eg, Ek in Hk. now inversion Hk. }
      rewrite Hkg. simpl.
      destruct l as [|c l'].
      * (* no Append happened *)
        simpl in Hset. inversion Hset; subst m.
        rewrite new_field_value by assumption. rewrite Hlfnew, Ek. simpl.
        destruct Hshape as [Hsh|[Hsh _]]; rewrite Hsh; reflexivity.
      * rewrite Hne by discriminate.
        destruct Hshape as [Hsh|[_ Hsh]]; [now rewrite Hsh | discriminate].
    + simpl in Hg. apply String.eqb_neq in Eg.
      apply (unwritten_field_equiv st r n g); auto.
      destruct (f_kind g); try exact Hg; discriminate.
  - intros f Hf. assert (f <> lf) by (intro; subst; congruence).
    rewrite Hoth by assumption. rewrite new_field_value by assumption. now rewrite Hf.
Qed.

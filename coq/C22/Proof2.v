(* C22 -- statements over a whole table and their proofs from the boolean checks *)
From Coq Require Import List String ZArith Bool Arith Lia.
From Verif Require Import C22.Model C22.Proof.
Import ListNotations.
Open Scope string_scope.
Local Open Scope list_scope.

(* ------------------------------------------------------------------ statements *)
(* set_all (new n) (get_all n) is defined and equal to n up to positions / comments, for EVERY node n of the row's type
   (children of supported types; derived flags consistent; fields unknown to ast2 zero) *)
Definition roundtrip (tbl : table) (r : row) : Prop :=
  exists st, find_struct tbl (r_struct r) = Some st /\
    forall n, wt_node tbl st n -> derived_inv r n -> unsupported_zero st r n ->
      exists m, rebuild tbl st r n = Ok m /\ node_equiv st m n.

(* Op() is a function of fields the round trip restores exactly *)
Definition op_preserved (tbl : table) (r : row) : Prop :=
  forall st n m fs, find_struct tbl (r_struct r) = Some st ->
    wt_node tbl st n -> derived_inv r n -> unsupported_zero st r n ->
    rebuild tbl st r n = Ok m -> r_op r = OpDeps fs ->
    forall op : list fval -> Z, op (map m fs) = op (map n fs).

(* Get(i) / Set(i) panic (badIndex, or Go's slice bound check) for every i >= Size; for i < Size of a fixed-size
   wrapper they take the path reading / writing a field *)
Definition size_consistent (r : row) : Prop :=
  (forall tbl st n size i c, sem_size r n = Some size -> size <= i ->
      sem_get tbl r n i = Panic /\ sem_set tbl st r n i c = Panic) /\
  (forall size gets gelse sets selse, r_shape r = Fixed size gets gelse sets selse ->
      forall i, i < size -> is_gread (getr_at gets gelse i) = true /\ is_swrites (setr_at sets selse i) = true) /\
  (forall why, r_shape r <> ShapeOpaque why).

(* ToNode (ToAst n) = n for every supported go/ast node type *)
Definition unwrap_wrap (tbl : table) : Prop :=
  forall s, In s (t_structs tbl) -> s_isnode s = true -> ~ In (s_name s) unsupported_types ->
    forall id, exists a, to_ast tbl (CN (s_name s) id) = Some a /\ to_node tbl a = Some (CN (s_name s) id).

Definition coverage (tbl : table) : Prop :=
  forall s, In s (t_structs tbl) -> s_isnode s = true ->
    In (s_name s) unsupported_types \/
    exists r, In r (t_rows tbl) /\ r_struct r = s_name s /\ r_hasnode r = true.

(* ------------------------------------------------------------------ rows *)
Lemma row_ok_roundtrip tbl r : row_ok tbl r = true -> roundtrip tbl r.
Proof.
  unfold row_ok, roundtrip. destruct (find_struct tbl (r_struct r)) as [st|]; try discriminate.
  intros H. apply andb_prop in H. destruct H as [Hnd H]. apply nodupb_NoDup in Hnd.
  exists st. split; auto. intros n Hwt Hder Hz.
  destruct (r_shape r) as [size gets gelse sets selse|lf v setc appc|why] eqn:Es; try discriminate.
  - destruct (fixed_roundtrip tbl st r n _ _ _ _ _ Es H Hwt Hder Hz) as [m [Hr [He _]]]. eauto.
  - destruct (varlen_roundtrip tbl st r n _ _ _ _ Hnd Es H Hwt Hz) as [m [Hr [He _]]]. eauto.
Qed.

Lemma all_writes_varlen r lf v setc appc : r_shape r = VarLen lf v setc appc -> all_writes r = [].
Proof. unfold all_writes, all_slots. now intros ->. Qed.

Lemma row_ok_op tbl r : row_ok tbl r = true -> op_ok r = true -> op_preserved tbl r.
Proof.
  unfold row_ok, op_preserved. intros H Hop st n m fs Hst Hwt Hder Hz Hr Hfs op.
  rewrite Hst in H. apply andb_prop in H. destruct H as [Hnd H]. apply nodupb_NoDup in Hnd.
  unfold op_ok in Hop. rewrite Hfs in Hop. rewrite forallb_forall in Hop.
  f_equal. apply map_ext_in. intros f Hf. specialize (Hop f Hf). apply orb_prop in Hop.
  destruct (r_shape r) as [size gets gelse sets selse|lf v setc appc|why] eqn:Es; try discriminate.
  - destruct (fixed_roundtrip tbl st r n _ _ _ _ _ Es H Hwt Hder Hz) as [m' [Hr' [_ Hex]]].
    rewrite Hr in Hr'. inversion Hr'; subst m'. apply Hex. tauto.
  - destruct (varlen_roundtrip tbl st r n _ _ _ _ Hnd Es H Hwt Hz) as [m' [Hr' [_ Hex]]].
    rewrite Hr in Hr'. inversion Hr'; subst m'. apply Hex.
    destruct Hop as [Hop|Hop]; auto. rewrite (all_writes_varlen _ _ _ _ _ Es) in Hop. discriminate.
Qed.

(* ------------------------------------------------------------------ Size *)
Lemma nat_list_eqb_eq a : forall b, nat_list_eqb a b = true -> a = b.
Proof.
  induction a as [|x a IH]; destruct b as [|y b]; simpl; intros H; try discriminate; auto.
  apply andb_prop in H. destruct H as [H1 H2]. apply Nat.eqb_eq in H1. subst. f_equal. auto.
Qed.

Lemma nlookup_None {B} (l : list (nat * B)) i : ~ In i (map fst l) -> nlookup i l = None.
Proof.
  induction l as [|[k b] l IH]; simpl; intros H; auto.
  destruct (Nat.eqb i k) eqn:E. - apply Nat.eqb_eq in E. subst. tauto. - apply IH. tauto.
Qed.

Lemma nlookup_Some {B} (l : list (nat * B)) i : In i (map fst l) -> exists b, nlookup i l = Some b /\ In (i, b) l.
Proof.
  induction l as [|[k b] l IH]; simpl; intros H; [tauto|].
  destruct (Nat.eqb i k) eqn:E.
  - apply Nat.eqb_eq in E. subst. eauto.
  - apply Nat.eqb_neq in E. destruct H as [H|H]; [congruence|]. destruct (IH H) as [b' [H1 H2]]. eauto.
Qed.

Lemma size_ok_consistent r : size_ok r = true -> size_consistent r.
Proof.
  unfold size_ok, size_consistent. intros H.
  destruct (r_shape r) as [size gets gelse sets selse|lf v setc appc|why] eqn:Es; try discriminate.
  - repeat (apply andb_prop in H; destruct H as [H ?]).
    rename H into Hge, H4 into Hse, H3 into Hgk, H2 into Hsk, H1 into Hgr, H0 into Hsw.
    apply nat_list_eqb_eq in Hgk. apply nat_list_eqb_eq in Hsk.
    destruct gelse; try discriminate. destruct selse; try discriminate.
    split; [|split].
    + intros tbl st n size' i c Hsz Hle. unfold sem_size in Hsz. rewrite Es in Hsz. inversion Hsz; subst size'.
      unfold sem_get, sem_set. rewrite Es. unfold getr_at, setr_at.
      rewrite (nlookup_None gets i), (nlookup_None sets i); auto.
      * rewrite Hsk, in_seq. lia.
      * rewrite Hgk, in_seq. lia.
    + intros size' gets' gelse' sets' selse' Heq i Hi. inversion Heq; subst.
      unfold getr_at, setr_at.
      destruct (nlookup_Some gets' i) as [g [Hg Hgin]]. { rewrite Hgk, in_seq. lia. }
      destruct (nlookup_Some sets' i) as [s [Hs Hsin]]. { rewrite Hsk, in_seq. lia. }
      rewrite Hg, Hs. rewrite forallb_forall in Hgr, Hsw.
      split; [apply (Hgr _ Hgin) | apply (Hsw _ Hsin)].
    + intros why. discriminate.
  - split; [|split].
    + intros tbl st n size i c Hsz Hle. unfold sem_size in Hsz. rewrite Es in Hsz.
      unfold sem_get, sem_set. rewrite Es.
      destruct (list_of (n lf)) as [l|]; simpl in Hsz; try discriminate. inversion Hsz; subst size.
      assert (Hn : nth_error l i = None) by (apply nth_error_None; exact Hle).
      rewrite Hn. auto.
    + intros; discriminate.
    + intros why. discriminate.
Qed.

(* ------------------------------------------------------------------ ToAst / ToNode, coverage *)
Lemma wrap_ok_unwrap_wrap tbl : wrap_ok tbl = true -> unwrap_wrap tbl.
Proof.
  unfold wrap_ok, unwrap_wrap. intros H s Hin Hnode Hsup id.
  apply andb_prop in H. destruct H as [_ H]. rewrite forallb_forall in H. specialize (H s Hin).
  unfold wrap_ok_for in H. rewrite Hnode in H.
  destruct (str_in (s_name s) unsupported_types) eqn:Eu.
  { apply str_in_In in Eu. tauto. }
  cbn [negb orb] in H. unfold to_ast. cbn [c_dyn c_id].
  destruct (wrapper_of tbl (s_name s)) as [w|]; try discriminate.
  destruct (find_row tbl w) as [r|] eqn:Er; try discriminate.
  apply andb_prop in H. destruct H as [H _]. apply andb_prop in H. destruct H as [Hn Hs].
  apply String.eqb_eq in Hs. eexists; split; [reflexivity|].
  unfold to_node, hasnode. rewrite Er, Hn. cbn [c_id]. now rewrite Hs.
Qed.

Lemma coverage_ok_coverage tbl : coverage_ok tbl = true -> coverage tbl.
Proof.
  unfold coverage_ok, coverage. intros H s Hin Hnode.
  apply andb_prop in H. destruct H as [H _]. rewrite forallb_forall in H. specialize (H s Hin).
  rewrite Hnode in H. cbn [negb orb] in H. apply orb_prop in H. destruct H as [H|H].
  - left. now apply str_in_In.
  - right. apply existsb_exists in H. destruct H as [r [Hr H]]. apply andb_prop in H. destruct H as [H1 H2].
    apply String.eqb_eq in H1. eauto.
Qed.

(* ------------------------------------------------------------------ whole table *)
Lemma table_rows tbl : table_ok tbl = true ->
  forall r, In r (t_rows tbl) -> ~ In (r_wrapper r) unsupported_types ->
    row_ok tbl r = true /\ size_ok r = true /\ op_ok r = true.
Proof.
  unfold table_ok. intros H r Hin Hsup.
  apply andb_prop in H. destruct H as [H _]. apply andb_prop in H. destruct H as [H _].
  rewrite forallb_forall in H. specialize (H r Hin). unfold row_checked in H.
  apply orb_prop in H. destruct H as [H|H].
  - apply str_in_In in H. tauto.
  - apply andb_prop in H. destruct H as [H H3]. apply andb_prop in H. tauto.
Qed.

Theorem table_roundtrip tbl : table_ok tbl = true ->
  forall r, In r (t_rows tbl) -> ~ In (r_wrapper r) unsupported_types -> roundtrip tbl r.
Proof. intros H r Hin Hs. apply row_ok_roundtrip. now apply (table_rows tbl H r Hin Hs). Qed.

Theorem table_op_preserved tbl : table_ok tbl = true ->
  forall r, In r (t_rows tbl) -> ~ In (r_wrapper r) unsupported_types -> op_preserved tbl r.
Proof. intros H r Hin Hs. destruct (table_rows tbl H r Hin Hs) as [H1 [_ H3]]. now apply row_ok_op. Qed.

Theorem table_size_consistent tbl : table_ok tbl = true ->
  forall r, In r (t_rows tbl) -> ~ In (r_wrapper r) unsupported_types -> size_consistent r.
Proof. intros H r Hin Hs. apply size_ok_consistent. now apply (table_rows tbl H r Hin Hs). Qed.

Theorem table_unwrap_wrap tbl : table_ok tbl = true -> unwrap_wrap tbl.
Proof.
  unfold table_ok. intros H. apply andb_prop in H. destruct H as [H _]. apply andb_prop in H. destruct H as [_ H].
  now apply wrap_ok_unwrap_wrap.
Qed.

Theorem table_coverage tbl : table_ok tbl = true -> coverage tbl.
Proof.
  unfold table_ok. intros H. apply andb_prop in H. destruct H as [_ H]. now apply coverage_ok_coverage.
Qed.

(* the premises of [roundtrip] are not vacuous: the all-zero node is well typed, consistent and has no unsupported field *)
Definition zero_node (st : gstruct) : node := fun f => zero_of (field_kind st f).

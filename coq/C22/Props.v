(* C22 -- property theorems, stated for EVERY table the checker accepts (table_ok is evaluated on the table
   regenerated from the sources by tr_ast2 on every run: build/C22/GenC22b_Props.v instantiates these on it). *)
From Coq Require Import List String ZArith Bool.
From Verif Require Import C22.Model C22.Proof C22.Proof2.
Import ListNotations.
Open Scope string_scope.

(* for every wrapper row and EVERY node value n of its go/ast type (children of any supported type, nil or not, slices
   nil/empty/non-empty, any atoms and positions): b := a.New(); b.Set(i, a.Get(i)) for all i < Size (Append for the
   resizable wrappers) is defined and gives n back up to positions/comments/Obj/Scope.  Premises: derived flags are
   consistent (SliceExpr.Slice3 = (Max != nil)) and the fields ast2 does not know (unsupported_fields) are zero. *)
Theorem C22_roundtrip : forall tbl, table_ok tbl = true ->
  forall r, In r (t_rows tbl) -> ~ In (r_wrapper r) unsupported_types -> roundtrip tbl r.
Proof. exact table_roundtrip. Qed.
Print Assumptions C22_roundtrip.

(* same operator after the round trip: Op() only reads fields that are restored exactly *)
Theorem C22_op_preserved : forall tbl, table_ok tbl = true ->
  forall r, In r (t_rows tbl) -> ~ In (r_wrapper r) unsupported_types -> op_preserved tbl r.
Proof. exact table_op_preserved. Qed.
Print Assumptions C22_op_preserved.

(* Get(i)/Set(i) panic for every i >= Size and take a field-reading/writing path for every i < Size *)
Theorem C22_size_consistent : forall tbl, table_ok tbl = true ->
  forall r, In r (t_rows tbl) -> ~ In (r_wrapper r) unsupported_types -> size_consistent r.
Proof. exact table_size_consistent. Qed.
Print Assumptions C22_size_consistent.

(* ToNode (ToAst n) = n for every supported go/ast node type *)
Theorem C22_unwrap_wrap : forall tbl, table_ok tbl = true -> unwrap_wrap tbl.
Proof. exact table_unwrap_wrap. Qed.
Print Assumptions C22_unwrap_wrap.

(* every go/ast Node struct has a wrapper row or is on the explicit unsupported list *)
Theorem C22_coverage : forall tbl, table_ok tbl = true -> coverage tbl.
Proof. exact table_coverage. Qed.
Print Assumptions C22_coverage.

(* the row-level lemma behind C22_roundtrip *)
Theorem C22_row_ok_sound : forall tbl r, row_ok tbl r = true -> roundtrip tbl r.
Proof. exact row_ok_roundtrip. Qed.
Print Assumptions C22_row_ok_sound.

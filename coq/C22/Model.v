(* C22 -- executable model of gomacro's ast2 wrappers (ast2/ast_node.go, ast_slice.go, wrap.go, unwrap.go).

   The TABLE (structs of go/ast with classified fields, one row per ast2 wrapper type, the ToAst switch arms and
   the ToXxx converters) is regenerated from the sources on every run by translators/tr_ast2
   (build/C22/GenC22a_Table.v).  This file gives the table its meaning:

     node            a value of a go/ast struct: field name -> scalar | optional child | optional child slice
     sem_new         what  x.New()  builds            (copies the listed fields, everything else is zero)
     sem_get / set   what  x.Get(i) / x.Set(i, c) do  (index dispatch, ToAst / wrapper construction, converters)
     rebuild         b := a.New(); for i < a.Size() { b.Set(i, a.Get(i)) }     (fixed-size wrappers)
                     b := a.New(); for i < a.Size() { b = b.Append(a.Get(i)) } (wrappers with Slice/Append)
     row_ok ...      the boolean checks run (vm_compute) on the regenerated table

   No proofs here.  Children are abstract: a child is (dynamic go/ast type, identity), the identity standing for
   the pointer to the subtree, which is what New/Get/Set move around. *)
From Coq Require Import List String ZArith Bool Arith.
Import ListNotations.
Open Scope string_scope.

Definition ident := string.

(* ------------------------------------------------------------------ table syntax (emitted by tr_ast2) *)
Inductive sty := TIface (i : ident) | TPtr (t : ident) | TAst.
Inductive fkind :=
| KPos | KOptPos          (* token.Pos; KOptPos: the go/ast comment says it may be absent ("if any", NoPos ...) *)
| KAtom                   (* token.Token, string, bool, ChanDir *)
| KComment | KIgnored     (* *CommentGroup ; Obj / Scope / Unresolved *)
| KChild (t : sty) | KList (t : sty)
| KOpaque (why : string).
Record gfield := mkF { f_name : ident; f_kind : fkind }.
Record gstruct := mkS { s_name : ident; s_isnode : bool; s_ifaces : list ident; s_fields : list gfield }.

Inductive via := ViaToAst | ViaWrap (w : ident) | ViaNone.
Inductive getr := GRead (f : ident) (v : via) | GPanic | GNil | GOpaque (why : string).
Inductive wexpr := WConv (c : ident) | WNonNil (c : ident).
Inductive setr := SWrites (ws : list (ident * wexpr)) | SPanic | SOpaque (why : string).
Inductive newr := NewCopies (fs : list ident) | NewOpaque (why : string).
Inductive shape :=
| Fixed (size : nat) (gets : list (nat * getr)) (gelse : getr) (sets : list (nat * setr)) (selse : setr)
| VarLen (lf : ident) (v : via) (setc appc : ident)
| ShapeOpaque (why : string).
Inductive opr := OpDeps (fs : list ident) | OpOpaque (why : string).
Record row := mkRow { r_wrapper : ident; r_struct : ident; r_xtype : string; r_hasnode : bool; r_hasslice : bool;
                      r_new : newr; r_shape : shape; r_op : opr }.

Inductive pat := PNil | PIface (i : ident) | PPtr (t : ident) | PWrap (w : ident) | PAstWithNode | PAstWithSlice
               | PDefault | POther (s : string).
Inductive act := ARetSame | ARetNil | AOther.
Inductive cshape := OnNode | OnWrapper.
Record conv := mkConv { c_name : ident; c_shape : cshape; c_arms : list (list pat * act) }.

Record table := mkTable { t_structs : list gstruct; t_rows : list row; t_wrap : list (ident * ident); t_convs : list conv }.

(* ------------------------------------------------------------------ what ast2 does NOT support (hand-written, explicit)
   go/ast grew after ast2 was written (gomacro's go.mod says go 1.18; its parser has no Go generics):
   - FuncType.TypeParams, TypeSpec.TypeParams (go1.18): never read, copied or written -> dropped by the round trip
   - File.GoVersion (go1.21): not copied by File.New -> dropped
   - IndexListExpr (go1.18): no wrapper; ToAst panics "unsupported node type"
   - Package: wrapper exists but Get returns nil / Set does nothing ("TODO" in the source); Files is dropped
   - Comment, CommentGroup: comments are not syntax-tree children in ast2 (kept by pointer in Doc/Comment fields) *)
Definition unsupported_fields : list (ident * ident) :=
  [("FuncType", "TypeParams"); ("TypeSpec", "TypeParams"); ("File", "GoVersion")].
Definition unsupported_types : list ident := ["IndexListExpr"; "Package"; "Comment"; "CommentGroup"].

(* ------------------------------------------------------------------ lookups *)
Definition str_in (x : ident) (l : list ident) : bool := existsb (String.eqb x) l.
Fixpoint alookup {B} (k : ident) (l : list (ident * B)) : option B :=
  match l with [] => None | (k', b) :: r => if String.eqb k k' then Some b else alookup k r end.
Fixpoint nlookup {B} (k : nat) (l : list (nat * B)) : option B :=
  match l with [] => None | (k', b) :: r => if Nat.eqb k k' then Some b else nlookup k r end.
Definition pair_in (x : ident * ident) (l : list (ident * ident)) : bool :=
  existsb (fun y => String.eqb (fst x) (fst y) && String.eqb (snd x) (snd y)) l.

Definition find_struct (tbl : table) (name : ident) : option gstruct :=
  find (fun s => String.eqb (s_name s) name) (t_structs tbl).
Definition find_row (tbl : table) (w : ident) : option row :=
  find (fun r => String.eqb (r_wrapper r) w) (t_rows tbl).
Definition find_conv (tbl : table) (c : ident) : option conv :=
  find (fun k => String.eqb (c_name k) c) (t_convs tbl).
Definition field_kind (st : gstruct) (f : ident) : option fkind :=
  option_map f_kind (find (fun g => String.eqb (f_name g) f) (s_fields st)).
Definition implements (tbl : table) (dyn i : ident) : bool :=
  match find_struct tbl dyn with Some s => str_in i (s_ifaces s) | None => false end.
Definition wrapper_of (tbl : table) (dyn : ident) : option ident := alookup dyn (t_wrap tbl).
Definition hasnode (tbl : table) (w : ident) : bool :=
  match find_row tbl w with Some r => r_hasnode r | None => false end.
Definition hasslice (tbl : table) (w : ident) : bool :=
  match find_row tbl w with Some r => r_hasslice r | None => false end.

(* ------------------------------------------------------------------ values *)
Record cnode := CN { c_dyn : ident; c_id : Z }.
Inductive fval := VScalar (z : Z) | VChild (c : option cnode) | VList (l : option (list cnode)).
Definition node := ident -> fval.
Definition upd (f : ident) (v : fval) (m : node) : node := fun g => if String.eqb g f then v else m g.

(* what Get returns / Set receives: nil, a wrapper around a node, or a slice wrapper around a non-nil slice.
   (A wrapper around a typed nil pointer, e.g. Ident{nil}, is modelled as nil: every converter maps both to nil.) *)
Inductive aval := ANode (w : ident) (c : cnode) | ASlice (w : ident) (l : list cnode).
Definition child := option aval.
Inductive pval := PNode (c : cnode) | PSlice (l : list cnode).

Inductive res (T : Type) := Ok (t : T) | Panic | Stuck.   (* Stuck: outside the modelled fragment / opaque *)
Arguments Ok {T}. Arguments Panic {T}. Arguments Stuck {T}.

(* a child value c may sit in a slot of static type t: the dynamic type is a go/ast struct of that type which
   ToAst / ToNode support *)
Definition supported (tbl : table) (dyn : ident) : bool :=
  match wrapper_of tbl dyn with
  | Some w => match find_row tbl w with Some r => r_hasnode r && String.eqb (r_struct r) dyn | None => false end
  | None => false
  end.
Definition has_type (tbl : table) (t : sty) (dyn : ident) : bool :=
  match t with TIface i => implements tbl dyn i | TPtr p => String.eqb dyn p | TAst => true end.
Definition is_struct (tbl : table) (dyn : ident) : bool :=
  match find_struct tbl dyn with Some _ => true | None => false end.
Definition child_ok (tbl : table) (t : sty) (dyn : ident) : bool :=
  match t with
  | TAst => true
  | _ => is_struct tbl dyn && has_type tbl t dyn && supported tbl dyn
  end.

(* ------------------------------------------------------------------ New *)
Definition zero_of (k : option fkind) : fval :=
  match k with
  | Some (KChild _) => VChild None
  | Some (KList _) => VList None
  | _ => VScalar 0
  end.
Definition sem_new (st : gstruct) (r : row) (n : node) : node :=
  match r_new r with
  | NewCopies fs => fun f => if str_in f fs then n f else zero_of (field_kind st f)
  | NewOpaque _ => fun f => zero_of (field_kind st f)
  end.

(* ------------------------------------------------------------------ Get *)
Definition wrap_child (tbl : table) (v : via) (c : cnode) : res aval :=
  match v with
  | ViaToAst => match wrapper_of tbl (c_dyn c) with Some w => Ok (ANode w c) | None => Panic end
  | ViaWrap w => Ok (ANode w c)
  | ViaNone => Ok (ANode "Ast" c)
  end.
Definition read_field (tbl : table) (n : node) (f : ident) (v : via) : res child :=
  match n f with
  | VChild None => Ok None
  | VChild (Some c) =>
      match wrap_child tbl v c with Ok a => Ok (Some a) | Panic => Panic | Stuck => Stuck end
  | VList None => Ok None
  | VList (Some l) => match v with ViaWrap w => Ok (Some (ASlice w l)) | _ => Stuck end
  | VScalar _ => Stuck
  end.
Definition getr_at (gets : list (nat * getr)) (gelse : getr) (i : nat) : getr :=
  match nlookup i gets with Some g => g | None => gelse end.
Definition setr_at (sets : list (nat * setr)) (selse : setr) (i : nat) : setr :=
  match nlookup i sets with Some s => s | None => selse end.
Definition sem_getr (tbl : table) (n : node) (g : getr) : res child :=
  match g with
  | GRead f v => read_field tbl n f v
  | GPanic => Panic
  | GNil => Ok None
  | GOpaque _ => Stuck
  end.

(* ------------------------------------------------------------------ converters (type switches of unwrap.go) *)
Inductive cshape_in := CNil | CNodeW (w dyn : ident) | CSliceW (w : ident).
Inductive decision := DSame | DNil.

Fixpoint first_arm (m : pat -> bool) (arms : list (list pat * act)) : option act :=
  match arms with
  | [] => None
  | (ps, a) :: r => if existsb m ps then Some a else first_arm m r
  end.
Definition nil_match (p : pat) : bool := match p with PNil | PDefault => true | _ => false end.
Definition node_match (tbl : table) (dyn : ident) (p : pat) : bool :=
  match p with
  | PIface i => implements tbl dyn i
  | PPtr t => String.eqb t dyn
  | PDefault => true
  | _ => false
  end.
Definition wrap_match (tbl : table) (w : ident) (p : pat) : bool :=
  match p with
  | PWrap w' => String.eqb w w'
  | PAstWithNode => hasnode tbl w
  | PAstWithSlice => hasslice tbl w
  | PDefault => true
  | _ => false
  end.
Definition act_decision (a : option act) : res decision :=
  match a with Some ARetSame => Ok DSame | Some ARetNil => Ok DNil | _ => Stuck end.
Definition conv_decide (tbl : table) (cv : ident) (c : cshape_in) : res decision :=
  if String.eqb cv "Id" then Ok (match c with CNil => DNil | _ => DSame end)
  else match find_conv tbl cv with
  | None => Stuck
  | Some k =>
      match c with
      | CNil => act_decision (first_arm nil_match (c_arms k))
      | CNodeW w dyn =>
          match c_shape k with
          | OnNode => if hasnode tbl w then act_decision (first_arm (node_match tbl dyn) (c_arms k)) else Panic
          | OnWrapper => act_decision (first_arm (wrap_match tbl w) (c_arms k))
          end
      | CSliceW w =>
          match c_shape k with
          | OnNode => Stuck
          | OnWrapper => act_decision (first_arm (wrap_match tbl w) (c_arms k))
          end
      end
  end.
Definition shape_of (c : child) : cshape_in :=
  match c with None => CNil | Some (ANode w cn) => CNodeW w (c_dyn cn) | Some (ASlice w _) => CSliceW w end.
Definition payload (c : child) : option pval :=
  match c with None => None | Some (ANode _ cn) => Some (PNode cn) | Some (ASlice _ l) => Some (PSlice l) end.
Definition conv_apply (tbl : table) (cv : ident) (c : child) : res (option pval) :=
  match conv_decide tbl cv (shape_of c) with
  | Ok DSame => Ok (payload c)
  | Ok DNil => Ok None
  | Panic => Panic
  | Stuck => Stuck
  end.

(* ------------------------------------------------------------------ Set *)
Definition store (k : option fkind) (p : option pval) : option fval :=
  match k, p with
  | Some (KChild _), None => Some (VChild None)
  | Some (KChild _), Some (PNode c) => Some (VChild (Some c))
  | Some (KList _), None => Some (VList None)
  | Some (KList _), Some (PSlice l) => Some (VList (Some l))
  | _, _ => None
  end.
Definition eval_write (tbl : table) (st : gstruct) (c : child) (w : ident * wexpr) : res (ident * fval) :=
  match snd w with
  | WConv cv =>
      match conv_apply tbl cv c with
      | Ok p => match store (field_kind st (fst w)) p with Some v => Ok (fst w, v) | None => Stuck end
      | Panic => Panic | Stuck => Stuck
      end
  | WNonNil cv =>
      match conv_apply tbl cv c with
      | Ok p => Ok (fst w, VScalar (match p with Some _ => 1 | None => 0 end))
      | Panic => Panic | Stuck => Stuck
      end
  end.
Fixpoint eval_writes (tbl : table) (st : gstruct) (c : child) (ws : list (ident * wexpr)) : res (list (ident * fval)) :=
  match ws with
  | [] => Ok []
  | w :: r =>
      match eval_write tbl st c w with
      | Ok v => match eval_writes tbl st c r with Ok vs => Ok (v :: vs) | Panic => Panic | Stuck => Stuck end
      | Panic => Panic | Stuck => Stuck
      end
  end.
Fixpoint apply_writes (vs : list (ident * fval)) (m : node) : node :=
  match vs with [] => m | (f, v) :: r => apply_writes r (upd f v m) end.
Definition sem_setr (tbl : table) (st : gstruct) (m : node) (s : setr) (c : child) : res node :=
  match s with
  | SWrites ws => match eval_writes tbl st c ws with Ok vs => Ok (apply_writes vs m) | Panic => Panic | Stuck => Stuck end
  | SPanic => Panic
  | SOpaque _ => Stuck
  end.

(* ------------------------------------------------------------------ Size / Get(i) / Set(i) of a row *)
Definition list_of (v : fval) : option (list cnode) := match v with VList (Some l) => Some l | VList None => Some [] | _ => None end.

Definition sem_size (r : row) (n : node) : option nat :=
  match r_shape r with
  | Fixed size _ _ _ _ => Some size
  | VarLen lf _ _ _ => option_map (@List.length cnode) (list_of (n lf))
  | ShapeOpaque _ => None
  end.
Definition sem_get (tbl : table) (r : row) (n : node) (i : nat) : res child :=
  match r_shape r with
  | Fixed _ gets gelse _ _ => sem_getr tbl n (getr_at gets gelse i)
  | VarLen lf v _ _ =>
      match list_of (n lf) with
      | Some l => match nth_error l i with
                  | Some c => match wrap_child tbl v c with Ok a => Ok (Some a) | Panic => Panic | Stuck => Stuck end
                  | None => Panic          (* Go: index out of range *)
                  end
      | None => Stuck
      end
  | ShapeOpaque _ => Stuck
  end.
Fixpoint replace_nth {B} (l : list B) (i : nat) (b : B) : list B :=
  match l, i with
  | [], _ => []
  | _ :: r, O => b :: r
  | x :: r, S j => x :: replace_nth r j b
  end.
Definition sem_set (tbl : table) (st : gstruct) (r : row) (m : node) (i : nat) (c : child) : res node :=
  match r_shape r with
  | Fixed _ _ _ sets selse => sem_setr tbl st m (setr_at sets selse i) c
  | VarLen lf _ setc _ =>
      match list_of (m lf) with
      | Some l => match nth_error l i with
                  | Some _ => match conv_apply tbl setc c with
                              | Ok (Some (PNode c')) => Ok (upd lf (VList (Some (replace_nth l i c'))) m)
                              | Ok _ => Stuck      (* a nil element: outside the model *)
                              | Panic => Panic | Stuck => Stuck
                              end
                  | None => Panic
                  end
      | None => Stuck
      end
  | ShapeOpaque _ => Stuck
  end.
Definition sem_append (tbl : table) (r : row) (m : node) (c : child) : res node :=
  match r_shape r with
  | VarLen lf _ _ appc =>
      match list_of (m lf) with
      | Some l => match conv_apply tbl appc c with
                  | Ok (Some (PNode c')) => Ok (upd lf (VList (Some (l ++ [c'])%list)) m)
                  | Ok _ => Stuck
                  | Panic => Panic | Stuck => Stuck
                  end
      | None => Stuck
      end
  | _ => Stuck
  end.

(* ------------------------------------------------------------------ the round trip *)
(* for i := 0; i < size; i++ { b.Set(i, a.Get(i)) }   resp.   b = b.Append(a.Get(i)) *)
Fixpoint set_all (tbl : table) (st : gstruct) (r : row) (n m : node) (is : list nat) : res node :=
  match is with
  | [] => Ok m
  | i :: rest =>
      match sem_get tbl r n i with
      | Ok c => match (match r_shape r with
                       | VarLen _ _ _ _ => sem_append tbl r m c
                       | _ => sem_set tbl st r m i c
                       end) with
                | Ok m' => set_all tbl st r n m' rest
                | Panic => Panic | Stuck => Stuck
                end
      | Panic => Panic | Stuck => Stuck
      end
  end.
Definition rebuild (tbl : table) (st : gstruct) (r : row) (n : node) : res node :=
  match sem_size r n with
  | Some size => set_all tbl st r n (sem_new st r n) (seq 0 size)
  | None => Stuck
  end.

(* ------------------------------------------------------------------ equivalence up to positions / comments *)
Definition norm_list (v : fval) : fval := match v with VList None => VList (Some []) | _ => v end.
Definition zscalar (v : fval) : bool := match v with VScalar 0 => true | _ => false end.
Definition feq (k : fkind) (a b : fval) : Prop :=
  match k with
  | KPos | KComment | KIgnored => True
  | KOptPos => zscalar a = zscalar b          (* only presence of an optional position is structure *)
  | KList _ => norm_list a = norm_list b      (* nil slice = empty slice *)
  | _ => a = b
  end.
Definition node_equiv (st : gstruct) (a b : node) : Prop :=
  forall g, In g (s_fields st) -> feq (f_kind g) (a (f_name g)) (b (f_name g)).

(* ------------------------------------------------------------------ static checks on a row *)
Definition all_slots (r : row) : list (nat * getr * setr) :=
  match r_shape r with
  | Fixed size gets gelse sets selse => map (fun i => (i, getr_at gets gelse i, setr_at sets selse i)) (seq 0 size)
  | _ => []
  end.
Definition slot_writes (s : setr) : list (ident * wexpr) := match s with SWrites ws => ws | _ => [] end.
Definition all_writes (r : row) : list (ident * wexpr) := flat_map (fun x => slot_writes (snd x)) (all_slots r).

Fixpoint nodupb (l : list ident) : bool :=
  match l with [] => true | x :: r => negb (str_in x r) && nodupb r end.

(* the converter cv is the identity on every value that can come out of a field of kind k read via v *)
Definition conv_id_on (tbl : table) (k : fkind) (v : via) (cv : ident) : bool :=
  match conv_decide tbl cv CNil with Ok DNil => true | _ => false end &&
  match k with
  | KChild TAst => String.eqb cv "Id" && match v with ViaToAst => false | _ => true end
  | KChild t =>
      forallb (fun s =>
        if child_ok tbl t (s_name s) then
          match v with
          | ViaToAst => match wrapper_of tbl (s_name s) with
                        | Some w => match conv_decide tbl cv (CNodeW w (s_name s)) with Ok DSame => true | _ => false end
                        | None => false
                        end
          | ViaWrap w => match conv_decide tbl cv (CNodeW w (s_name s)) with Ok DSame => true | _ => false end
          | ViaNone => false
          end
        else true) (t_structs tbl)
  | KList _ =>
      match v with
      | ViaWrap w => match conv_decide tbl cv (CSliceW w) with Ok DSame => true | _ => false end
      | _ => false
      end
  | _ => false
  end.

(* one slot i < size: Get(i) reads field f, Set(i) writes it back through an identity converter, plus derived atoms *)
Definition slot_ok (tbl : table) (st : gstruct) (x : nat * getr * setr) : bool :=
  match x with
  | (_, GRead f v, SWrites ((f', WConv cv) :: derived)) =>
      String.eqb f f' &&
      match field_kind st f with
      | Some k => conv_id_on tbl k v cv
      | None => false
      end &&
      forallb (fun d => match snd d with
                        | WNonNil cv' => String.eqb cv cv' &&
                                         match field_kind st (fst d) with Some KAtom => true | _ => false end
                        | _ => false end) derived
  | _ => false
  end.

Definition ignorable (k : fkind) : bool := match k with KPos | KComment | KIgnored => true | _ => false end.
Definition new_fields (r : row) : list ident := match r_new r with NewCopies fs => fs | NewOpaque _ => [] end.
Definition new_ok (r : row) : bool := match r_new r with NewCopies _ => true | NewOpaque _ => false end.

(* every field of the struct is accounted for: restored by a slot, copied by New, derived, ignorable, or on the
   explicit unsupported list *)
Definition field_ok (r : row) (g : gfield) : bool :=
  let f := f_name g in
  match f_kind g with
  | KOpaque _ => false
  | k =>
      str_in f (map fst (all_writes r))
      || (if str_in f (new_fields r) then true else ignorable k || pair_in (r_struct r, f) unsupported_fields)
  end.

Definition fixed_ok (tbl : table) (st : gstruct) (r : row) : bool :=
  new_ok r &&
  forallb (slot_ok tbl st) (all_slots r) &&
  nodupb (map fst (all_writes r)) &&
  forallb (fun f => negb (str_in f (new_fields r))) (map fst (all_writes r)) &&
  forallb (field_ok r) (s_fields st).

(* variable-length wrappers: the list field is rebuilt by Append; the other fields as above *)
Definition varlen_ok (tbl : table) (st : gstruct) (r : row) (lf : ident) (v : via) (setc appc : ident) : bool :=
  new_ok r && r_hasslice r &&
  negb (str_in lf (new_fields r)) &&
  match field_kind st lf with
  | Some (KList t) =>
      (match v with ViaToAst => (match t with TAst => false | _ => true end) | ViaNone => (match t with TAst => true | _ => false end) | ViaWrap _ => false end) &&
      conv_id_on tbl (KChild t) v appc && conv_id_on tbl (KChild t) v setc
  | _ => false
  end &&
  forallb (fun g => String.eqb (f_name g) lf ||
                    match f_kind g with
                    | KOpaque _ => false
                    | k => if str_in (f_name g) (new_fields r) then true
                           else ignorable k || pair_in (r_struct r, f_name g) unsupported_fields
                    end) (s_fields st).

Definition row_ok (tbl : table) (r : row) : bool :=
  match find_struct tbl (r_struct r) with
  | None => false
  | Some st =>
      nodupb (map f_name (s_fields st)) &&
      match r_shape r with
      | Fixed _ _ _ _ _ => fixed_ok tbl st r
      | VarLen lf v setc appc => varlen_ok tbl st r lf v setc appc
      | ShapeOpaque _ => false
      end
  end.

(* Get/Set are defined exactly for i < Size *)
Definition is_gpanic (g : getr) : bool := match g with GPanic => true | _ => false end.
Definition is_spanic (s : setr) : bool := match s with SPanic => true | _ => false end.
Definition is_gread (g : getr) : bool := match g with GRead _ _ => true | _ => false end.
Definition is_swrites (s : setr) : bool := match s with SWrites (_ :: _) => true | _ => false end.
Fixpoint nat_list_eqb (a b : list nat) : bool :=
  match a, b with [], [] => true | x :: a', y :: b' => Nat.eqb x y && nat_list_eqb a' b' | _, _ => false end.
Definition size_ok (r : row) : bool :=
  match r_shape r with
  | Fixed size gets gelse sets selse =>
      is_gpanic gelse && is_spanic selse &&
      nat_list_eqb (map fst gets) (seq 0 size) && nat_list_eqb (map fst sets) (seq 0 size) &&
      forallb (fun x => is_gread (snd x)) gets && forallb (fun x => is_swrites (snd x)) sets
  | VarLen _ _ _ _ => true      (* Size = len(list); Get/Set index the Go slice *)
  | ShapeOpaque _ => false
  end.

(* Op() depends only on fields the round trip restores exactly (copied by New, or written back by a slot) *)
Definition op_ok (r : row) : bool :=
  match r_op r with
  | OpDeps fs => forallb (fun f => str_in f (new_fields r) ||
                                   existsb (fun w => String.eqb (fst w) f && match snd w with WConv _ => true | _ => false end)
                                           (all_writes r)) fs
  | OpOpaque _ => false
  end.

(* ToAst / ToNode: every supported go/ast node type has a switch arm building a wrapper whose X has that type and
   whose Node() returns X *)
Definition wrap_ok_for (tbl : table) (s : gstruct) : bool :=
  negb (s_isnode s) || str_in (s_name s) unsupported_types ||
  match wrapper_of tbl (s_name s) with
  | Some w => match find_row tbl w with
              | Some r => r_hasnode r && String.eqb (r_struct r) (s_name s) &&
                          String.eqb (r_xtype r) ("*ast." ++ s_name s)
              | None => false
              end
  | None => false
  end.
Definition to_node_ok (tbl : table) : bool :=
  match find_conv tbl "ToNode" with
  | Some k =>
      match c_shape k with OnWrapper => true | OnNode => false end &&
      match conv_decide tbl "ToNode" CNil with Ok DNil => true | _ => false end &&
      forallb (fun r => negb (r_hasnode r) ||
                        match conv_decide tbl "ToNode" (CNodeW (r_wrapper r) (r_struct r)) with Ok DSame => true | _ => false end)
              (t_rows tbl)
  | None => false
  end.
Definition wrap_ok (tbl : table) : bool := to_node_ok tbl && forallb (wrap_ok_for tbl) (t_structs tbl).

(* ToAst as a function on (dynamic type, identity) and ToNode on wrapped values *)
Definition to_ast (tbl : table) (c : cnode) : option aval :=
  match wrapper_of tbl (c_dyn c) with Some w => Some (ANode w c) | None => None end.
Definition to_node (tbl : table) (a : aval) : option cnode :=
  match a with
  | ANode w c => if hasnode tbl w then
                   match find_row tbl w with Some r => Some (CN (r_struct r) (c_id c)) | None => None end
                 else None
  | ASlice _ _ => None
  end.

(* coverage: every go/ast node struct has a row, or is on the unsupported list; every row wraps a go/ast struct or is
   a slice wrapper *)
Definition coverage_ok (tbl : table) : bool :=
  forallb (fun s => negb (s_isnode s) || str_in (s_name s) unsupported_types ||
                    existsb (fun r => String.eqb (r_struct r) (s_name s) && r_hasnode r) (t_rows tbl)) (t_structs tbl)
  && forallb (fun r => is_struct tbl (r_struct r)) (t_rows tbl).

Definition row_checked (tbl : table) (r : row) : bool :=
  str_in (r_wrapper r) unsupported_types || (row_ok tbl r && size_ok r && op_ok r).
Definition table_ok (tbl : table) : bool :=
  forallb (row_checked tbl) (t_rows tbl) && wrap_ok tbl && coverage_ok tbl.

(* the rows that fail, for the replay file *)
Definition failing_rows (tbl : table) : list (ident * bool * bool * bool) :=
  flat_map (fun r => if row_checked tbl r then [] else [(r_wrapper r, row_ok tbl r, size_ok r, op_ok r)]) (t_rows tbl).

(* ------------------------------------------------------------------ premises of the round-trip theorem *)
Definition wt_fval (tbl : table) (k : fkind) (v : fval) : Prop :=
  match k, v with
  | KChild t, VChild None => True
  | KChild t, VChild (Some c) => child_ok tbl t (c_dyn c) = true
  | KList t, VList None => True
  | KList t, VList (Some l) => forall c, In c l -> child_ok tbl t (c_dyn c) = true
  | KChild _, _ | KList _, _ => False
  | _, VScalar _ => True
  | _, _ => False
  end.
Definition wt_node (tbl : table) (st : gstruct) (n : node) : Prop :=
  forall g, In g (s_fields st) -> wt_fval tbl (f_kind g) (n (f_name g)).
(* fields ast2 does not know are zero (no type parameters, no GoVersion) *)
Definition unsupported_zero (st : gstruct) (r : row) (n : node) : Prop :=
  forall g, In g (s_fields st) -> pair_in (r_struct r, f_name g) unsupported_fields = true ->
            n (f_name g) = zero_of (field_kind st (f_name g)).
(* derived atoms: e.g. SliceExpr.Slice3 = (Max != nil) *)
Definition nonnil (v : fval) : Z := match v with VChild (Some _) | VList (Some _) => 1 | _ => 0 end.
Definition derived_inv (r : row) (n : node) : Prop :=
  forall i f v ws cv d cv', In (i, GRead f v, SWrites ((f, WConv cv) :: ws)) (all_slots r) -> In (d, WNonNil cv') ws ->
                      n d = VScalar (nonnil (n f)).

(* ------------------------------------------------------------------ correspondence with the real implementation *)
(* an observation: wrapper, the original node's fields, the presence pattern of Get(i) for i < Size, and the fields of
   the node rebuilt by the real ast2 *)
Inductive obs_field := OF (name : ident) (v : fval).
Record case := mkCase { k_idx : Z; k_wrapper : ident; k_in : list (ident * fval); k_size : nat; k_present : list bool;
                        k_out : list (ident * fval) }.

Definition node_of (fs : list (ident * fval)) : node :=
  fun f => match alookup f fs with Some v => v | None => VScalar 0 end.

Definition cnode_eqb (a b : cnode) : bool := String.eqb (c_dyn a) (c_dyn b) && Z.eqb (c_id a) (c_id b).
Fixpoint clist_eqb (a b : list cnode) : bool :=
  match a, b with [], [] => true | x :: a', y :: b' => cnode_eqb x y && clist_eqb a' b' | _, _ => false end.
Definition fval_eqb (a b : fval) : bool :=
  match a, b with
  | VScalar x, VScalar y => Z.eqb x y
  | VChild None, VChild None => true
  | VChild (Some x), VChild (Some y) => cnode_eqb x y
  | VList None, VList None => true
  | VList (Some x), VList (Some y) => clist_eqb x y
  | _, _ => false
  end.
Fixpoint bool_list_eqb (a b : list bool) : bool :=
  match a, b with [] , [] => true | x :: a', y :: b' => Bool.eqb x y && bool_list_eqb a' b' | _, _ => false end.

Definition case_ok (tbl : table) (k : case) : bool :=
  match find_row tbl (k_wrapper k) with
  | None => false
  | Some r =>
      match find_struct tbl (r_struct r) with
      | None => false
      | Some st =>
          let n := node_of (k_in k) in
          match sem_size r n with
          | Some size =>
              Nat.eqb size (k_size k) &&
              bool_list_eqb (map (fun i => match sem_get tbl r n i with Ok (Some _) => true | _ => false end) (seq 0 size))
                            (k_present k) &&
              match rebuild tbl st r n with
              | Ok m => forallb (fun g => match alookup (f_name g) (k_out k) with
                                          | Some v => fval_eqb (m (f_name g)) v
                                          | None => false end) (s_fields st)
              | _ => false
              end
          | None => false
          end
      end
  end.
Definition mismatches_in (tbl : table) (cs : list case) : list Z :=
  flat_map (fun k => if case_ok tbl k then [] else [k_idx k]) cs.

(* C31 — declarative statements (Prop) of what each row checker establishes, and the soundness lemmas
   checker = true -> statement; lifting from [forallb ... = true] to "for every package table, for every row". *)
From Coq Require Import List NArith ZArith Bool Lia.
From Verif Require Import Common.GoStr C31.Untyped C31.Model.
Import ListNotations.
Open Scope N_scope.

(* ---------------------------------------------------------------- boolean equalities *)
Lemma ids_eqb_eq a b : ids_eqb a b = true <-> a = b.
Proof.
  revert b; induction a as [|x a IH]; intros [|y b]; simpl; split; intros H; try discriminate; try reflexivity.
  - apply andb_true_iff in H as [H1 H2]. apply N.eqb_eq in H1. apply IH in H2. congruence.
  - injection H as -> ->. rewrite N.eqb_refl. simpl. apply IH. reflexivity.
Qed.

Lemma memN_In x l : memN x l = true <-> In x l.
Proof.
  induction l as [|y l IH]; simpl; [split; [discriminate|tauto]|].
  rewrite orb_true_iff, IH, N.eqb_eq. split; intros [H|H]; auto.
Qed.

Lemma memN_false x l : memN x l = false <-> ~ In x l.
Proof. rewrite <- memN_In. destruct (memN x l); split; congruence. Qed.

Lemma nodupN_NoDup l : nodupN l = true -> NoDup l.
Proof.
  induction l as [|x l IH]; simpl; intros H; [constructor|].
  apply andb_true_iff in H as [H1 H2]. constructor; [|auto].
  apply negb_true_iff in H1. apply memN_false in H1. exact H1.
Qed.

Lemma tab_eqb_eq a b : tab_eqb a b = true <-> a = b.
Proof. destruct a, b; simpl; split; intros H; try discriminate; reflexivity. Qed.

Lemma kind_eqb_eq a b : kind_eqb a b = true -> a = b.
Proof. destruct a, b; simpl; intros H; try discriminate; reflexivity. Qed.

Lemma cvalue_eqb_eq a b : cvalue_eqb a b = true -> a = b.
Proof.
  destruct a, b; simpl; intros H; try discriminate.
  - apply eqb_prop in H. congruence.
  - apply Z.eqb_eq in H. congruence.
  - apply andb_true_iff in H as [H1 H2]. apply Z.eqb_eq in H1. apply Pos.eqb_eq in H2. congruence.
  - repeat (apply andb_true_iff in H as [H ?]).
    apply Z.eqb_eq in H. repeat match goal with
    | X : Pos.eqb _ _ = true |- _ => apply Pos.eqb_eq in X
    | X : Z.eqb _ _ = true |- _ => apply Z.eqb_eq in X end. congruence.
  - apply str_eqb_eq in H. congruence.
Qed.

Lemma ftype_eqb_eq a b : ftype_eqb a b = true -> a = b.
Proof.
  destruct a, b; unfold ftype_eqb; simpl; intros H.
  apply andb_true_iff in H as [H H3]. apply andb_true_iff in H as [H1 H2].
  apply ids_eqb_eq in H1. apply ids_eqb_eq in H3. apply eqb_prop in H2. congruence.
Qed.

Lemma find_row_some t k rs r : find_row t k rs = Some r -> In r rs /\ r_tab r = t /\ r_key r = k.
Proof.
  induction rs as [|x rs IH]; simpl; [discriminate|].
  destruct (tab_eqb (r_tab x) t && N.eqb (r_key x) k) eqn:E.
  - intros H; injection H as <-. apply andb_true_iff in E as [E1 E2].
    apply tab_eqb_eq in E1. apply N.eqb_eq in E2. auto.
  - intros H. destruct (IH H) as (A & B & C). auto.
Qed.

(* ---------------------------------------------------------------- lifting *)
Lemma all_rows_forall check pts :
  all_rows check pts = true <-> (forall pt r, In pt pts -> In r (pt_rows pt) -> check pt r = true).
Proof.
  unfold all_rows. rewrite forallb_forall. split.
  - intros H pt r Hpt Hr. specialize (H pt Hpt). rewrite forallb_forall in H. auto.
  - intros H pt Hpt. rewrite forallb_forall. intros r Hr. auto.
Qed.

(* ---------------------------------------------------------------- C31_key_is_symbol *)
(* the row binds its key to the symbol of that name in the table's own package, with the expression shape of its table *)
Definition KeyIsSymbol (pt : ptable) (r : row) : Prop :=
  match r_tab r with
  | TBinds => r_key r = r_sel r /\ r_selpkg r = pt_pkg pt
              /\ (r_shape r = SVal \/ r_shape r = SAddr \/ exists b, r_shape r = SConv b)
  | TTypes => r_key r = r_sel r /\ r_selpkg r = pt_pkg pt /\ r_shape r = SType
  | TProxies => r_shape r = SType
  | TUntypeds => exists s, r_shape r = SStr s
  | TWrappers => exists l, r_shape r = SStrList l
  end.

Lemma key_ok_sound pt r : key_ok pt r = true -> KeyIsSymbol pt r.
Proof.
  unfold key_ok, KeyIsSymbol. intros H. apply andb_true_iff in H as [H1 H2].
  destruct (r_tab r); destruct (r_shape r); simpl in H1; try discriminate;
    try (apply andb_true_iff in H2 as [H2 H3]; apply N.eqb_eq in H2; apply N.eqb_eq in H3);
    repeat split; eauto.
Qed.

(* the expression shape is the one for the kind of object Go declares under the key *)
Definition KindMatches (sp : spec) (pt : ptable) (r : row) : Prop :=
  let o := lookup sp (pt_pkg pt) (r_key r) in
  (r_tab r = TBinds ->
     (o = Some OFunc /\ r_shape r = SVal) \/ (o = Some OVar /\ r_shape r = SAddr)
     \/ (exists b, o = Some (OConstTyped b) /\ r_shape r = SVal)
     \/ (exists k v, o = Some (OConstUntyped k v) /\ (r_shape r = SVal \/ exists b, r_shape r = SConv b)))
  /\ (r_tab r = TTypes -> exists i, o = Some (OType i)).

Lemma kind_ok_sound sp pt r : kind_ok sp pt r = true -> KindMatches sp pt r.
Proof.
  unfold kind_ok, KindMatches. intros H. split; intros T; rewrite T in H.
  - destruct (lookup sp (pt_pkg pt) (r_key r)) as [[]|]; destruct (r_shape r); try discriminate; eauto 10.
  - destruct (lookup sp (pt_pkg pt) (r_key r)) as [[]|]; try discriminate; eauto.
Qed.

(* ---------------------------------------------------------------- C31_untyped_decodes_exactly *)
Definition UntypedExact (sp : spec) (pt : ptable) (r : row) : Prop :=
  r_tab r = TUntypeds ->
  exists s k v, r_shape r = SStr s
    /\ lookup sp (pt_pkg pt) (r_key r) = Some (OConstUntyped k v)      (* Go: untyped constant of kind k, exact value v *)
    /\ decode s = Some (k, v)                                          (* untyped.Unmarshal of the table string *)
    /\ exists b, find_row TBinds (r_key r) (pt_rows pt) = Some b.      (* and the name is bound *)

Lemma untyped_ok_sound sp pt r : untyped_ok sp pt r = true -> UntypedExact sp pt r.
Proof.
  unfold untyped_ok, UntypedExact. intros H T. rewrite T in H.
  destruct (r_shape r) as [| | | |s| |]; try discriminate.
  apply andb_true_iff in H as [H1 H2].
  destruct (lookup sp (pt_pkg pt) (r_key r)) as [[| | |k v| | |]|]; try discriminate.
  destruct (decode s) as [[k' v']|] eqn:D; try discriminate.
  apply andb_true_iff in H1 as [K V]. apply kind_eqb_eq in K. apply cvalue_eqb_eq in V. subst.
  destruct (find_row TBinds (r_key r) (pt_rows pt)) as [b|]; try discriminate.
  exists s, k', v'. repeat split; eauto.
Qed.

(* ---------------------------------------------------------------- C31_typed_const_value *)
Definition InRange (b : bkind) (v : cvalue) : Prop :=
  exists z lo hi, v = XInt z /\ int_range b = Some (lo, hi) /\ (lo <= z <= hi)%Z.

Lemma fits_sound b v : fits b v = true -> InRange b v.
Proof.
  unfold fits, InRange. destruct v; try discriminate. destruct (int_range b) as [[lo hi]|]; try discriminate.
  intros H. apply andb_true_iff in H as [H1 H2]. apply Z.leb_le in H1. apply Z.leb_le in H2. eauto 10.
Qed.

Definition ConstBound (sp : spec) (pt : ptable) (r : row) : Prop :=
  r_tab r = TBinds ->
  let o := lookup sp (pt_pkg pt) (r_key r) in
  let u := find_row TUntypeds (r_key r) (pt_rows pt) in
  (* typed constant: bound as ValueOf(p.C) — type and value are the compiler's — and not shadowed by an Untypeds entry *)
  (forall b, o = Some (OConstTyped b) -> r_shape r = SVal /\ u = None)
  (* untyped constant: its exact value travels in Untypeds; the boxed value is representable in the default / converted type *)
  /\ (forall k v, o = Some (OConstUntyped k v) ->
        (exists x, u = Some x)
        /\ ((r_shape r = SVal /\ default_fits k v = true) \/ (exists b, r_shape r = SConv b /\ InRange b v)))
  (* functions and variables have no Untypeds entry *)
  /\ (o = Some OFunc \/ o = Some OVar -> u = None).

Lemma const_ok_sound sp pt r : const_ok sp pt r = true -> ConstBound sp pt r.
Proof.
  unfold const_ok, ConstBound. intros H T. rewrite T in H. cbv zeta.
  destruct (lookup sp (pt_pkg pt) (r_key r)) as [[| |b|k v| | |]|];
    destruct (find_row TUntypeds (r_key r) (pt_rows pt)) as [x|];
    destruct (r_shape r) as [| |cb| | | |]; simpl in H; try discriminate;
    (split; [|split]); intros; try discriminate;
    repeat match goal with
           | X : Some _ = Some _ |- _ => injection X as; subst
           | X : _ \/ _ |- _ => destruct X; try discriminate
           end; try (split; [eauto|]); eauto.
  - right. exists cb. split; [reflexivity|]. apply fits_sound. exact H.
Qed.

(* ---------------------------------------------------------------- C31_proxy_forwards *)
Section Fwd.
Variables (idO idB : N).
Variable V : Type.

Lemma eval_args_skip (p : N) (v : V) e l : memN p l = false -> eval_args V ((p, v) :: e) l = eval_args V e l.
Proof.
  induction l as [|a l IH]; simpl; [reflexivity|]. intros H. apply orb_false_iff in H as [H1 H2].
  rewrite H1, (IH H2). reflexivity.
Qed.

Lemma eval_args_zip ps : forall args, nodupN ps = true -> length args = length ps ->
  eval_args V (zip V ps args) ps = Some args.
Proof.
  induction ps as [|p ps IH]; intros [|a args] ND L; simpl in *; try discriminate; [reflexivity|].
  apply andb_true_iff in ND as [N1 N2]. apply negb_true_iff in N1.
  rewrite N.eqb_refl. rewrite (eval_args_skip p a _ _ N1). rewrite IH; auto.
Qed.

(* executing the body of a checked method, for any object and any argument values (one per parameter):
   the field M_ of the receiver is called with (Object, args...) and its results are the method's results *)
Lemma method_ok_exec px m : method_ok idB px m = true ->
  forall (object : V) (args : list V), length args = length (m_params m) ->
  exec V m object args = Some (mkCall V (m_name m) true (object :: args) true).
Proof.
  unfold method_ok, exec. intros H object args L.
  apply andb_true_iff in H as [_ H].
  destruct (m_body m) as [hr crecv cbase cus a0obj a0recv argids ell|]; [|discriminate].
  repeat match type of H with (_ && _ = true) => apply andb_true_iff in H as [H ?] end.
  apply N.eqb_eq in H. subst crecv.
  match goal with X : N.eqb cbase _ = true |- _ => apply N.eqb_eq in X; subst cbase end.
  match goal with X : N.eqb a0recv _ = true |- _ => apply N.eqb_eq in X; subst a0recv end.
  match goal with X : ids_eqb argids _ = true |- _ => apply ids_eqb_eq in X; subst argids end.
  match goal with X : nodupN (_ :: _) = true |- _ => simpl in X; apply andb_true_iff in X as [ND1 ND2] end.
  subst cus a0obj. rewrite N.eqb_refl. simpl. rewrite ND1. simpl.
  rewrite eval_args_zip; auto.
  match goal with X : Bool.eqb hr _ = true |- _ => rewrite X end. reflexivity.
Qed.

(* ... and that field exists with the method's own signature behind the leading interface{} parameter *)
Lemma method_ok_field px m : method_ok idB px m = true ->
  m_recv_ptr m = true /\ m_recv_type m = px_name px
  /\ exists f, find_field (m_name m) (px_fields px) = Some f /\ fd_ty f = FFunc true (m_type m).
Proof.
  unfold method_ok. intros H. apply andb_true_iff in H as [H0 H]. apply andb_true_iff in H0 as [R1 R2].
  apply N.eqb_eq in R2. split; [exact R1|]. split; [exact R2|].
  destruct (m_body m) as [hr crecv cbase cus a0obj a0recv argids ell|]; [|discriminate].
  repeat match type of H with (_ && _ = true) => apply andb_true_iff in H as [H ?] end.
  match goal with X : N.eqb cbase _ = true |- _ => apply N.eqb_eq in X; subst cbase end.
  destruct (find_field (m_name m) (px_fields px)) as [[n b u [|[] ft|]]|]; try discriminate.
  match goal with X : ftype_eqb _ _ = true |- _ => apply ftype_eqb_eq in X; subst ft end.
  eexists. split; reflexivity.
Qed.
End Fwd.

(* the struct layout Package.Validate and Comp.converterToProxy rely on:
   field 0 is Object interface{}, field i+1 is named after method i *)
Definition Layout (idO : N) (px : proxy) : Prop :=
  exists f0 fs, px_fields px = f0 :: fs /\ fd_name f0 = idO /\ fd_ty f0 = FEmptyIface
    /\ map fd_base fs = map m_name (px_methods px) /\ Forall (fun f => fd_us f = true) fs.

Lemma struct_ok_layout idO px : struct_ok idO px = true -> Layout idO px.
Proof.
  unfold struct_ok, Layout. destruct (px_fields px) as [|f0 fs]; [discriminate|]. intros H.
  repeat match type of H with (_ && _ = true) => apply andb_true_iff in H as [H ?] end.
  apply N.eqb_eq in H. exists f0, fs. repeat split; auto.
  - destruct (fd_ty f0); try discriminate; reflexivity.
  - apply ids_eqb_eq. assumption.
  - apply Forall_forall. match goal with X : forallb fd_us fs = true |- _ => rewrite forallb_forall in X; exact X end.
Qed.

Lemma layout_field_of_method idO px i m : Layout idO px -> nth_error (px_methods px) i = Some m ->
  exists f, nth_error (px_fields px) (S i) = Some f /\ fd_base f = m_name m /\ fd_us f = true.
Proof.
  intros (f0 & fs & E & _ & _ & M & U) Hm. rewrite E. simpl.
  assert (Hn : nth_error (map m_name (px_methods px)) i = Some (m_name m)) by (rewrite nth_error_map, Hm; reflexivity).
  rewrite <- M in Hn. rewrite nth_error_map in Hn.
  destruct (nth_error fs i) as [f|] eqn:Ef; [|discriminate]. simpl in Hn. injection Hn as Hn.
  exists f. repeat split; auto. rewrite Forall_forall in U. apply U. eapply nth_error_In; eauto.
Qed.

Lemma all2_names (ms : list method) (ims : list imeth) :
  all2 method_matches ms ims = true -> map m_name ms = map im_name ims.
Proof.
  revert ims; induction ms as [|m ms IH]; intros [|i ims]; simpl; intros H; try discriminate; [reflexivity|].
  apply andb_true_iff in H as [H1 H2]. unfold method_matches in H1.
  repeat match type of H1 with (_ && _ = true) => apply andb_true_iff in H1 as [H1 ?] end.
  apply N.eqb_eq in H1. f_equal; auto.
Qed.

(* a Proxies row: a checked proxy struct of the same file whose methods are, in order, the methods of the interface
   Go declares under the key (an interface of the table's package, all methods exported, also listed in Types) *)
Definition ProxyImplements (idO idB : N) (sp : spec) (ifs : list iface) (pxs : list proxy) (pt : ptable) (r : row) : Prop :=
  r_tab r = TProxies ->
  exists px i, find_proxy (pt_file pt) (r_sel r) pxs = Some px /\ find_iface (pt_pkg pt) (r_key r) ifs = Some i
    /\ lookup sp (pt_pkg pt) (r_key r) = Some (OType true)
    /\ (exists t, find_row TTypes (r_key r) (pt_rows pt) = Some t)
    /\ if_all_exported i = true
    /\ map m_name (px_methods px) = map im_name (if_methods i)
    /\ Layout idO px
    /\ forall m, In m (px_methods px) -> method_ok idB px m = true.

Lemma proxy_row_ok_sound idO idB sp ifs pxs pt r :
  proxy_row_ok idO idB sp ifs pxs pt r = true -> ProxyImplements idO idB sp ifs pxs pt r.
Proof.
  unfold proxy_row_ok, ProxyImplements. intros H T. rewrite T in H.
  repeat match type of H with (_ && _ = true) => apply andb_true_iff in H as [H ?] end.
  destruct (find_proxy (pt_file pt) (r_sel r) pxs) as [px|]; [|discriminate].
  destruct (find_iface (pt_pkg pt) (r_key r) ifs) as [i|]; [|discriminate].
  destruct (find_row TTypes (r_key r) (pt_rows pt)) as [t|]; [|discriminate].
  destruct (lookup sp (pt_pkg pt) (r_key r)) as [[| | | |[]| |]|]; try discriminate.
  match goal with X : proxy_ok _ _ _ && _ && _ = true |- _ =>
    apply andb_true_iff in X as [X A2]; apply andb_true_iff in X as [P E] end.
  unfold proxy_ok in P. apply andb_true_iff in P as [S M].
  exists px, i. repeat split; eauto.
  - apply all2_names. exact A2.
  - apply struct_ok_layout. exact S.
  - rewrite forallb_forall in M. exact M.
Qed.

(* ---------------------------------------------------------------- C31_wrappers_are_promoted *)
Definition WrappersPromoted (ws : list wtype) (pt : ptable) (r : row) : Prop :=
  r_tab r = TWrappers ->
  exists ms w, r_shape r = SStrList ms /\ find_wtype (pt_pkg pt) (r_key r) ws = Some w
    /\ (exists t, find_row TTypes (r_key r) (pt_rows pt) = Some t)
    /\ forall m, In m ms -> find_meth m (wt_methods w) = Some true.   (* in the method set, reached through an embedded field *)

Lemma wrapper_ok_sound sp ws pt r : wrapper_ok sp ws pt r = true -> WrappersPromoted ws pt r.
Proof.
  unfold wrapper_ok, WrappersPromoted. intros H T. rewrite T in H.
  destruct (r_shape r) as [| | | | |ms|]; try discriminate.
  apply andb_true_iff in H as [H1 H2].
  destruct (find_row TTypes (r_key r) (pt_rows pt)) as [t|]; [|discriminate].
  destruct (find_wtype (pt_pkg pt) (r_key r) ws) as [w|]; [|discriminate].
  exists ms, w. repeat split; eauto.
  rewrite forallb_forall in H2. intros m Hm. specialize (H2 m Hm).
  destruct (find_meth m (wt_methods w)) as [[]|]; try discriminate; reflexivity.
Qed.

(* ---------------------------------------------------------------- C31_coverage *)
Definition Covered (fs : list file) (pts : list ptable) : Prop :=
  NoDup (map pt_pkg pts)
  /\ (forall pt, In pt pts ->
        (forall t, count_tab t (pt_rows pt) = find_count t (pt_counts pt))     (* one row per map-literal element *)
        /\ lenN (pt_rows pt) = fold_right N.add 0 (map snd (pt_counts pt))
        /\ (forall t, NoDup (map r_key (filter (fun r => tab_eqb (r_tab r) t) (pt_rows pt))))
        /\ exists f, find_file (pt_file pt) fs = Some f)
  /\ (forall f, In f fs ->
        (forall s, In s (f_stmts f) -> s <> StOpaque)                           (* init() = table assignments and Merge calls only *)
        /\ flat_map (fun s => match s with StTable p => [p] | _ => [] end) (f_stmts f)
           = map pt_pkg (filter (fun pt => N.eqb (pt_file pt) (f_name f)) pts)).

Lemma coverage_ok_sound fs pts : coverage_ok fs pts = true -> Covered fs pts.
Proof.
  unfold coverage_ok, Covered. intros H.
  repeat match type of H with (_ && _ = true) => apply andb_true_iff in H as [H ?] end.
  rename H into HP. split; [apply nodupN_NoDup; assumption|]. split.
  - intros pt Hpt. rewrite forallb_forall in HP. specialize (HP pt Hpt). unfold ptable_cov_ok in HP.
    repeat match type of HP with (_ && _ = true) => apply andb_true_iff in HP as [HP ?] end.
    repeat split.
    + intros t. rewrite forallb_forall in HP. apply N.eqb_eq. apply HP. destruct t; simpl; tauto.
    + apply N.eqb_eq. assumption.
    + intros t. apply nodupN_NoDup.
      match goal with X : forallb _ all_tabs = true |- _ => rewrite forallb_forall in X; apply X end.
      destruct t; simpl; tauto.
    + match goal with X : forallb _ pts = true |- _ => rewrite forallb_forall in X; specialize (X pt Hpt) end.
      destruct (find_file (pt_file pt) fs) as [f|]; [eauto|discriminate].
  - intros f Hf.
    match goal with X : forallb (file_ok pts) fs = true |- _ => rewrite forallb_forall in X; specialize (X f Hf); rename X into HF end.
    unfold file_ok in HF.
    repeat match type of HF with (_ && _ = true) => apply andb_true_iff in HF as [HF ?] end.
    split.
    + intros s Hs ->. apply negb_true_iff in HF.
      assert (existsb is_opaque (f_stmts f) = true) by (apply existsb_exists; exists StOpaque; auto). congruence.
    + apply ids_eqb_eq. assumption.
Qed.

(* ---------------------------------------------------------------- statements used by Props.v *)
Lemma key_is_symbol_sound sp pts :
  all_rows key_ok pts = true -> all_rows (kind_ok sp) pts = true ->
  forall pt r, In pt pts -> In r (pt_rows pt) -> KeyIsSymbol pt r /\ KindMatches sp pt r.
Proof.
  intros H1 H2 pt r Hpt Hr. rewrite all_rows_forall in H1, H2. split.
  - apply key_ok_sound. auto.
  - apply kind_ok_sound. auto.
Qed.

Lemma untyped_sound sp pts : all_rows (untyped_ok sp) pts = true ->
  forall pt r, In pt pts -> In r (pt_rows pt) -> UntypedExact sp pt r.
Proof. intros H pt r Hpt Hr. rewrite all_rows_forall in H. apply untyped_ok_sound. auto. Qed.

Lemma const_sound sp pts : all_rows (const_ok sp) pts = true ->
  forall pt r, In pt pts -> In r (pt_rows pt) -> ConstBound sp pt r.
Proof. intros H pt r Hpt Hr. rewrite all_rows_forall in H. apply const_ok_sound. auto. Qed.

Lemma proxy_forwards_sound idB px m : method_ok idB px m = true ->
  (forall (V : Type) (object : V) (args : list V), length args = length (m_params m) ->
     exec V m object args = Some (mkCall V (m_name m) true (object :: args) true))
  /\ m_recv_ptr m = true /\ m_recv_type m = px_name px
  /\ exists f, find_field (m_name m) (px_fields px) = Some f /\ fd_ty f = FFunc true (m_type m).
Proof.
  intros H. split.
  - intros V. apply (method_ok_exec idB V px m H).
  - apply (method_ok_field idB px m H).
Qed.

Lemma proxy_implements_sound idO idB sp ifs pxs pts :
  all_rows (proxy_row_ok idO idB sp ifs pxs) pts = true ->
  forall pt r, In pt pts -> In r (pt_rows pt) -> ProxyImplements idO idB sp ifs pxs pt r.
Proof. intros H pt r Hpt Hr. rewrite all_rows_forall in H. apply proxy_row_ok_sound. auto. Qed.

Lemma wrappers_sound sp ws pts : all_rows (wrapper_ok sp ws) pts = true ->
  forall pt r, In pt pts -> In r (pt_rows pt) -> WrappersPromoted ws pt r.
Proof. intros H pt r Hpt Hr. rewrite all_rows_forall in H. apply (wrapper_ok_sound sp). auto. Qed.

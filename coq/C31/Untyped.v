(* COPY of coq/C32/Model.v (synchronised by tools/c31_sync_untyped.py on every ./check C31) - do not edit. *)
(* C32 — executable model of base/untyped/val.go: Marshal, Unmarshal, unmarshalFloat, together with the
   parts of go/constant and math/big they call: ExactString of the four numeric representations
   (int64Val/intVal decimal, ratVal "n" or "n/d", floatVal "0x.<hex>p<+|->dec"), MakeFromLiteral for
   token.INT (base-0 integer syntax) and token.FLOAT (decimal integer and "0x.<hex>p<exp>" forms; 512-bit
   round-to-nearest-even, the smallFloat decision between ratVal and floatVal), BinaryOp QUO/ADD, makeRat.
   Definitions only (no proofs).  Strings are byte lists ([str] = list N). *)
From Coq Require Import List NArith ZArith Bool String Ascii.
From Verif Require Import Common.GoStr.
Import ListNotations.
Open Scope Z_scope.

(* ---------- values ---------- *)
Inductive kind := KNone | KBool | KInt | KRune | KFloat | KComplex | KString.

(* the representations of a go/constant Float (int64Val and intVal used as floats are FRat z 1) *)
Inductive fval :=
| FRat (n : Z) (d : positive)             (* ratVal: n/d in lowest terms *)
| FBig (neg : bool) (m : positive) (e : Z) (* floatVal: (-1)^neg * m * 2^e, m odd, at most 512 bits *)
| FBig0.                                   (* floatVal zero *)

Inductive value :=
| VNil                       (* Go nil constant.Value *)
| VUnknown                   (* constant.unknownVal *)
| VBool (b : bool)
| VInt (z : Z)               (* int64Val / intVal; used by kinds Int and Rune *)
| VFloat (f : fval)
| VComplex (re im : fval)
| VString (s : str).

(* ---------- byte constants ---------- *)
Fixpoint bytes (s : string) : str :=
  match s with
  | EmptyString => []
  | String a s' => N_of_ascii a :: bytes s'
  end.

Definition c_colon : N := 58.  Definition c_slash : N := 47.  Definition c_minus : N := 45.
Definition c_plus : N := 43.   Definition c_dot : N := 46.    Definition c_0 : N := 48.
Definition c_x : N := 120.     Definition c_p : N := 112.     Definition c_us : N := 95.

(* ---------- printing integers (strconv.FormatInt / big.Int.String / nat.utoa) ---------- *)
Definition digit_char (d : N) : N := if (d <? 10)%N then (48 + d)%N else (87 + d)%N.

(* least-significant digit first, consed in front of acc.  Fuel = the binary digits of the number itself
   (each step divides by b >= 2); exhaustion is reported as None. *)
Fixpoint print_digits (b : N) (fuel : positive) (n : N) (acc : str) : option str :=
  let acc' := digit_char (n mod b)%N :: acc in
  match (n / b)%N with
  | N0 => Some acc'
  | q => match fuel with
         | xH => None
         | xO f | xI f => print_digits b f q acc'
         end
  end.

Definition print_pos (b : N) (p : positive) : option str := print_digits b p (Npos p) [].

Definition print_Z (z : Z) : option str :=
  match z with
  | Z0 => Some [c_0]
  | Zpos p => print_pos 10 p
  | Zneg p => option_map (cons c_minus) (print_pos 10 p)
  end.

Definition print_dec := print_Z.

(* ---------- ExactString of Float representations ---------- *)
Definition bind {A B} (o : option A) (f : A -> option B) : option B :=
  match o with Some x => f x | None => None end.

(* ratVal.ExactString: r.IsInt() ? Num().String() : r.String() *)
Definition print_rat (n : Z) (d : positive) : option str :=
  match d with
  | xH => print_Z n
  | _ => bind (print_Z n) (fun a => bind (print_pos 10 d) (fun b => Some (a ++ c_slash :: b)))
  end.

(* big.Float.Text('p', 0) = fmtP: "0x." mantissa "p" exponent, 0.5 <= 0.mantissa < 1, trailing zeros trimmed
   (m is odd: the mantissa shifted to a multiple of 4 bits has no trailing zero hex digit) *)
Definition hex_shift (m : positive) : Z := (- Z.pos (Pos.size m)) mod 4.
Definition print_big (neg : bool) (m : positive) (e : Z) : option str :=
  let k := hex_shift m in
  let ex := e + Z.pos (Pos.size m) in
  bind (print_pos 16 (Z.to_pos (Z.pos m * 2 ^ k))) (fun h =>
  bind (print_Z ex) (fun x =>
  Some ((if neg then [c_minus] else []) ++ [c_0; c_x; c_dot] ++ h ++ c_p :: (if 0 <=? ex then [c_plus] else []) ++ x))).

Definition print_fval (f : fval) : option str :=
  match f with
  | FRat n d => print_rat n d
  | FBig neg m e => print_big neg m e
  | FBig0 => Some [c_0]
  end.

(* ---------- Marshal ---------- *)
Definition p_bool := Eval compute in bytes "bool".
Definition p_int := Eval compute in bytes "int".
Definition p_rune := Eval compute in bytes "rune".
Definition p_float := Eval compute in bytes "float".
Definition p_complex := Eval compute in bytes "complex".
Definition p_string := Eval compute in bytes "string".
Definition p_nil := Eval compute in bytes "nil".
Definition p_true := Eval compute in bytes "true".
Definition p_false := Eval compute in bytes "false".

(* None: the value does not have the shape of the kind (Go panics or prints a text of another kind),
   or print fuel exhausted (never: Proof.print_digits_ok) *)
Definition marshal (k : kind) (v : value) : option str :=
  match k, v with
  | KNone, _ => Some p_nil
  | KBool, VBool b => Some (p_bool ++ c_colon :: (if b then p_true else p_false))
  | KInt, VInt z => bind (print_Z z) (fun s => Some (p_int ++ c_colon :: s))
  | KRune, VInt z => bind (print_Z z) (fun s => Some (p_rune ++ c_colon :: s))
  | KFloat, VFloat f => bind (print_fval f) (fun s => Some (p_float ++ c_colon :: s))
  | KComplex, VComplex re im =>
      bind (print_fval re) (fun a => bind (print_fval im) (fun b => Some (p_complex ++ c_colon :: a ++ c_colon :: b)))
  | KString, VString s => Some (p_string ++ c_colon :: s)
  | _, _ => None
  end.

(* ---------- parsing digits ---------- *)
Definition digit_val (c : N) : option N :=
  if (48 <=? c)%N && (c <=? 57)%N then Some (c - 48)%N
  else if (97 <=? c)%N && (c <=? 102)%N then Some (c - 87)%N
  else if (65 <=? c)%N && (c <=? 70)%N then Some (c - 55)%N
  else None.

Fixpoint parse_acc (b : N) (s : str) (a : N) : option N :=
  match s with
  | [] => Some a
  | c :: s' =>
      match digit_val c with
      | Some d => if (d <? b)%N then parse_acc b s' (a * b + d)%N else None
      | None => None
      end
  end.

(* at least one digit, all digits valid in base b *)
Definition parse_digits (b : N) (s : str) : option N :=
  match s with [] => None | _ => parse_acc b s 0%N end.

Definition strip_sign (s : str) : bool * str :=
  match s with
  | c :: r => if N.eqb c c_minus then (true, r) else if N.eqb c c_plus then (false, r) else (false, s)
  | [] => (false, s)
  end.

Definition sgn (neg : bool) (z : Z) : Z := if neg then - z else z.

(* strings.IndexByte + the two slices *)
Fixpoint split_byte (c : N) (s : str) : option (str * str) :=
  match s with
  | [] => None
  | x :: s' =>
      if N.eqb x c then Some ([], s')
      else match split_byte c s' with
           | Some (a, b) => Some (x :: a, b)
           | None => None
           end
  end.

Fixpoint has_byte (c : N) (s : str) : bool :=
  match s with [] => false | x :: s' => N.eqb x c || has_byte c s' end.

(* ---------- MakeFromLiteral(str, token.INT, 0): strconv.ParseInt(lit,0,64), then big.Int.SetString(lit,0) ---------- *)
Inductive ires := IVal (z : Z) | IUnknown | IUnsupported.

Definition lower (c : N) : N := if (65 <=? c)%N && (c <=? 90)%N then (c + 32)%N else c.

Definition int_lit (s : str) : ires :=
  if has_byte c_us s then IUnsupported (* digit separators: not modelled *)
  else
    let '(neg, r) := strip_sign s in
    let fin (o : option N) := match o with Some n => IVal (sgn neg (Z.of_N n)) | None => IUnknown end in
    match r with
    | [] => IUnknown
    | c :: r1 =>
        if N.eqb c c_0 then
          match r1 with
          | [] => IVal 0
          | p :: r2 =>
              if N.eqb (lower p) 120 then fin (parse_digits 16 r2)
              else if N.eqb (lower p) 98 then fin (parse_digits 2 r2)
              else if N.eqb (lower p) 111 then fin (parse_digits 8 r2)
              else fin (parse_digits 8 r1)
          end
        else fin (parse_digits 10 r)
    end.

Definition parse_dec (s : str) : option Z :=
  match int_lit s with IVal z => Some z | _ => None end.

(* ---------- big.Float arithmetic at precision 512 ---------- *)
Definition prec : Z := 512.
Definition MaxExp : Z := 2147483647.
Definition MinExp : Z := -2147483648.
Definition maxExp : Z := 4096.   (* go/constant: 4 << 10 *)

Fixpoint odd_part (p : positive) : positive * Z :=
  match p with
  | xO p' => let '(m, k) := odd_part p' in (m, k + 1)
  | _ => (p, 0)
  end.

(* round q (plus a sticky flag for a discarded non-zero remainder below the last bit of q; the callers scale so that
   q has more than 512 bits whenever sticky is set) to 512 bits, nearest even: result m * 2^sh *)
Definition round_pos (q : positive) (sticky : bool) : positive * Z :=
  let L := Z.pos (Pos.size q) in
  if L <=? prec then (q, 0)
  else
    let drop := L - prec in
    let hi := Z.pos q / 2 ^ drop in
    let low := Z.pos q mod 2 ^ drop in
    let half := 2 ^ (drop - 1) in
    let up := (low >? half) || ((low =? half) && (sticky || Z.odd hi)) in
    (Z.to_pos (if up then hi + 1 else hi), drop).

Inductive qres := QVal (f : fval) | QUnknown | QPanic | QUnsupported.

(* makeFloat on a finite non-zero result m*2^e: overflow -> Inf -> unknownVal, underflow -> 0 -> floatVal0 *)
Definition fin_float (neg : bool) (m : positive) (e : Z) : qres :=
  let '(mo, k) := odd_part m in
  let ex := e + k + Z.pos (Pos.size mo) in
  if ex >? MaxExp then QUnknown
  else if ex <? MinExp then QVal FBig0
  else QVal (FBig neg mo (e + k)).

(* correctly rounded (n/d) * 2^e *)
Definition round_q (neg : bool) (n d : positive) (e : Z) : qres :=
  let s := 514 + Z.pos (Pos.size d) - Z.pos (Pos.size n) in
  let n' := if 0 <=? s then Z.pos n * 2 ^ s else Z.pos n in
  let d' := if 0 <=? s then Z.pos d else Z.pos d * 2 ^ (- s) in
  let q := n' / d' in
  let r := n' mod d' in
  let '(m, sh) := round_pos (Z.to_pos q) (negb (r =? 0)) in
  fin_float neg m (sh - s + e).

Definition small_int (z : Z) : bool := Z.log2 (Z.abs z) + 1 <? maxExp.  (* BitLen < 4096; log2 0 = 0 is harmless *)

(* makeRat: normalise, keep the fraction when both components are small, else floatVal *)
Definition make_rat (n : Z) (d : positive) : qres :=
  let g := Z.gcd n (Z.pos d) in
  let n1 := n / g in
  let d1 := Z.to_pos (Z.pos d / g) in
  if small_int n1 && small_int (Z.pos d1) then QVal (FRat n1 d1)
  else match n1 with
       | Z0 => QVal (FRat 0 1)
       | Zpos p => round_q false p d1 0
       | Zneg p => round_q true p d1 0
       end.

(* rtof / i64tof / itof *)
Definition to_float (f : fval) : qres :=
  match f with
  | FRat Z0 _ => QVal FBig0
  | FRat (Zpos p) d => round_q false p d 0
  | FRat (Zneg p) d => round_q true p d 0
  | _ => QVal f
  end.

(* BinaryOp(x, token.QUO, y) on Float representations *)
Definition fquo (x y : fval) : qres :=
  match x, y with
  | FRat a b, FRat c d =>
      match c with
      | Z0 => QPanic   (* big.Rat.Quo: division by zero *)
      | Zpos p => make_rat (a * Z.pos d) (b * p)
      | Zneg p => make_rat (- a * Z.pos d) (b * p)
      end
  | _, _ =>
      match to_float x, to_float y with
      | QVal FBig0, QVal FBig0 => QPanic             (* big.Float.Quo: ErrNaN *)
      | QVal FBig0, QVal (FBig _ _ _) => QVal FBig0
      | QVal (FBig _ _ _), QVal FBig0 => QUnknown    (* Inf *)
      | QVal (FBig n1 m1 e1), QVal (FBig n2 m2 e2) => round_q (xorb n1 n2) m1 m2 (e1 - e2)
      | QPanic, _ | _, QPanic => QPanic
      | QUnsupported, _ | _, QUnsupported => QUnsupported
      | _, _ => QUnknown
      end
  end.

Definition qquo (x y : qres) : qres :=
  match x, y with
  | QPanic, _ | _, QPanic => QPanic
  | QUnsupported, _ | _, QUnsupported => QUnsupported
  | QUnknown, _ | _, QUnknown => QUnknown
  | QVal a, QVal b => fquo a b
  end.

(* BinaryOp(x, token.ADD, int64Val(0)) *)
Definition fadd0 (x : fval) : qres :=
  match x with
  | FRat n d => make_rat n d
  | _ => QVal x
  end.

(* ---------- MakeFromLiteral(str, token.FLOAT, 0) = makeFloatFromLiteral ---------- *)
(* the literal denotes M * 2^sh exactly (sh = exponent - 4 * number of hex digits after the point) *)
Definition lit_core (neg : bool) (M : N) (sh : Z) : qres :=
  match M with
  | N0 => QVal (FRat 0 1)
  | Npos P =>
      let exp2 := Z.pos (Pos.size P) + sh in
      if (exp2 <? MinExp) || (exp2 >? MaxExp) then QUnknown      (* Float.scan: exponent overflow *)
      else
        let '(m, k) := round_pos P false in                       (* z.round(0) *)
        match fin_float neg m (k + sh) with
        | QVal (FBig ng mo eo) =>
            let ex := eo + Z.pos (Pos.size mo) in
            if (- maxExp <? ex) && (ex <? maxExp) && (-10000000 <=? sh) && (sh <=? 10000000)
            then (* smallFloat: big.Rat.SetString(lit), exact *)
              let '(po, tz) := odd_part P in
              let e := tz + sh in
              QVal (if 0 <=? e then FRat (sgn neg (Z.pos po * 2 ^ e)) 1
                    else FRat (sgn neg (Z.pos po)) (Z.to_pos (2 ^ (- e))))
            else QVal (FBig ng mo eo)
        | r => r
        end
  end.

Definition in_int64 (z : Z) : bool := (-9223372036854775808 <=? z) && (z <=? 9223372036854775807).

Fixpoint strip_prefix (p s : str) : option str :=
  match p, s with
  | [], _ => Some s
  | x :: p', y :: s' => if N.eqb x y then strip_prefix p' s' else None
  | _ :: _, [] => None
  end.

(* modelled literal syntax: [+-]dec+  and  [+-]0x.hex+p[+-]dec+ ; everything else is QUnsupported *)
Definition float_lit (s : str) : qres :=
  let '(neg, r) := strip_sign s in
  match strip_prefix [c_0; c_x; c_dot] r with
  | Some r2 =>
      match split_byte c_p r2 with
      | Some (hs, es) =>
          let '(eneg, ds) := strip_sign es in
          match parse_digits 16 hs, parse_digits 10 ds with
          | Some M, Some ex =>
              let ex := sgn eneg (Z.of_N ex) in
              if in_int64 ex then lit_core neg M (ex - 4 * Z.of_nat (List.length hs)) else QUnknown
          | _, _ => QUnsupported
          end
      | None => QUnsupported
      end
  | None =>
      match parse_digits 10 r with
      | Some M => lit_core neg M 0
      | None => QUnsupported
      end
  end.

(* unmarshalFloat *)
Definition unmarshal_float (s : str) : qres :=
  match split_byte c_slash s with
  | Some (a, b) => qquo (float_lit a) (float_lit b)
  | None => float_lit s
  end.

(* ---------- Unmarshal ---------- *)
Inductive ures := UOk (k : kind) (v : value) | UPanic | UUnsupported.

Definition of_q (k : kind) (q : qres) : ures :=
  match q with
  | QVal f => UOk k (VFloat f)
  | QUnknown => UOk k VUnknown
  | QPanic => UPanic
  | QUnsupported => UUnsupported
  end.

Definition of_i (k : kind) (i : ires) : ures :=
  match i with
  | IVal z => UOk k (VInt z)
  | IUnknown => UOk k VUnknown
  | IUnsupported => UUnsupported
  end.

Definition unmarshal_complex (s : str) : ures :=
  match split_byte c_colon s with
  | Some (a, b) =>
      match unmarshal_float a, unmarshal_float b with
      | QPanic, _ => UPanic
      | _, QPanic => UPanic
      | QUnsupported, _ | _, QUnsupported => UUnsupported
      | QVal re, QVal im =>
          (* BinaryOp(ToComplex(re), ADD, MakeImag(im)) = complexVal{re + 0, 0 + im} *)
          match fadd0 re, fadd0 im with
          | QVal re', QVal im' => UOk KComplex (VComplex re' im')
          | QUnsupported, _ | _, QUnsupported => UUnsupported
          | _, _ => UOk KComplex VUnknown
          end
      | _, _ => UOk KComplex VUnknown
      end
  | None =>
      match unmarshal_float s with
      | QVal re => UOk KComplex (VComplex re (FRat 0 1))  (* ToComplex: complexVal{re, int64Val(0)} *)
      | QUnknown => UOk KComplex VUnknown
      | QPanic => UPanic
      | QUnsupported => UUnsupported
      end
  end.

Definition unmarshal (s : str) : ures :=
  let '(skind, rest) := match split_byte c_colon s with Some (a, b) => (a, b) | None => (s, []) end in
  if str_eqb skind p_bool then UOk KBool (VBool (str_eqb rest p_true))
  else if str_eqb skind p_int then of_i KInt (int_lit rest)
  else if str_eqb skind p_rune then of_i KRune (int_lit rest)
  else if str_eqb skind p_float then of_q KFloat (unmarshal_float rest)
  else if str_eqb skind p_complex then unmarshal_complex rest
  else if str_eqb skind p_string then UOk KString (VString rest)
  else UOk KNone VNil.

(* ---------- well-formed inputs of Marshal (boolean; Proof.v states the theorems over it) ---------- *)
(* a fraction component below comp_limit = 2^4095 - 2^3582 rounds (512 bits, nearest even) to less than 2^4095, so
   MakeFromLiteral keeps it as an exact fraction; from comp_limit on it becomes a rounded floatVal
   (Props: C32_roundtrip_refuted_bigrat) *)
Definition comp_limit : Z := 2 ^ 4095 - 2 ^ 3582.
Definition small_comp (z : Z) : bool := Z.abs z <? comp_limit.

Definition wf_fval (f : fval) : bool :=
  match f with
  | FRat n d => (Z.gcd n (Z.pos d) =? 1) && small_comp n && small_comp (Z.pos d)
  | FBig _ m e =>
      Z.odd (Z.pos m) && (Z.pos (Pos.size m) <=? prec)
      && (MinExp <=? e + Z.pos (Pos.size m)) && (e + Z.pos (Pos.size m) <=? MaxExp)
  | FBig0 => true
  end.

Definition wfb (k : kind) (v : value) : bool :=
  match k, v with
  | KNone, VNil => true
  | KBool, VBool _ => true
  | KInt, VInt _ => true
  | KRune, VInt _ => true
  | KFloat, VFloat f => wf_fval f
  | KComplex, VComplex re im => wf_fval re && wf_fval im
  | KString, VString _ => true
  | _, _ => false
  end.

(* exact mathematical value of a Float representation as a fraction in lowest terms *)
Definition fden (f : fval) : Z * positive :=
  match f with
  | FRat n d => (n, d)
  | FBig neg m e => if 0 <=? e then (sgn neg (Z.pos m * 2 ^ e), 1%positive) else (sgn neg (Z.pos m), Z.to_pos (2 ^ (- e)))
  | FBig0 => (0, 1%positive)
  end.

(* ---------- correspondence support ---------- *)
Definition kind_eqb (a b : kind) : bool :=
  match a, b with
  | KNone, KNone | KBool, KBool | KInt, KInt | KRune, KRune | KFloat, KFloat | KComplex, KComplex | KString, KString => true
  | _, _ => false
  end.

Definition fval_eqb (a b : fval) : bool :=
  match a, b with
  | FRat n d, FRat n' d' => (n =? n') && Pos.eqb d d'
  | FBig s m e, FBig s' m' e' => Bool.eqb s s' && Pos.eqb m m' && (e =? e')
  | FBig0, FBig0 => true
  | _, _ => false
  end.

Definition value_eqb (a b : value) : bool :=
  match a, b with
  | VNil, VNil | VUnknown, VUnknown => true
  | VBool x, VBool y => Bool.eqb x y
  | VInt x, VInt y => x =? y
  | VFloat x, VFloat y => fval_eqb x y
  | VComplex x1 x2, VComplex y1 y2 => fval_eqb x1 y1 && fval_eqb x2 y2
  | VString x, VString y => str_eqb x y
  | _, _ => false
  end.

Definition ures_eqb (a b : ures) : bool :=
  match a, b with
  | UOk k v, UOk k' v' => kind_eqb k k' && value_eqb v v'
  | UPanic, UPanic => true
  | _, _ => false
  end.

(* compact literals used by the generated case files (long decimal numerals and long list literals are slow to parse):
   big numbers as base-2^256 limbs (most significant first), long byte strings as limbs of at most 31 bytes under a
   leading 1 sentinel *)
Definition zl (neg : bool) (limbs : list N) : Z :=
  sgn neg (Z.of_N (fold_left (fun a x => (a * 2 ^ 256 + x)%N) limbs 0%N)).
Definition pl (limbs : list N) : positive := Z.to_pos (zl false limbs).
Fixpoint unpack (fuel : positive) (n : N) (acc : str) : str :=
  match n with
  | N0 | Npos xH => acc
  | _ => match fuel with
         | xH => acc
         | xO f | xI f => unpack f (N.shiftr n 8) (N.land n 255 :: acc)
         end
  end.
Definition limb_bytes (n : N) : str := match n with N0 => [] | Npos p => unpack p n [] end.
Definition sl (limbs : list N) : str := flat_map limb_bytes limbs.

Inductive case :=
| CMarshal (idx : Z) (expect_wf : bool) (k : kind) (v : value) (text : str)   (* text = real Marshal(k, v) *)
| CUnmarshal (idx : Z) (must : bool) (text : str) (res : ures)               (* res = real Unmarshal(text), abstracted *)
| CRound (idx : Z) (expect_wf : bool) (k : kind) (v : value) (text : str) (res : ures).  (* both, same text *)

Definition case_idx (c : case) : Z :=
  match c with CMarshal i _ _ _ _ => i | CUnmarshal i _ _ _ => i | CRound i _ _ _ _ _ => i end.

Definition marshal_ok (ew : bool) (k : kind) (v : value) (text : str) : bool :=
  match marshal k v with Some s => str_eqb s text | None => false end && (negb ew || wfb k v).
Definition unmarshal_ok (must : bool) (text : str) (res : ures) : bool :=
  match unmarshal text with
  | UUnsupported => negb must
  | r => ures_eqb r res
  end.
Definition case_ok (c : case) : bool :=
  match c with
  | CMarshal _ ew k v text => marshal_ok ew k v text
  | CUnmarshal _ must text res => unmarshal_ok must text res
  | CRound _ ew k v text res => marshal_ok ew k v text && unmarshal_ok true text res
  end.

Definition mismatches (cs : list case) : list Z :=
  map case_idx (filter (fun c => negb (case_ok c)) cs).

(* C31 — property theorems, part 1 (closed, quantified over ALL tables / go-types views / proxy structs and, for the
   forwarding theorem, over all objects and argument values): whenever the executable row checkers of Model.v accept,
   every row satisfies the declarative statement.  Part 2 (/verif/coq_gen/C31/TableProps.v, compiled on every run after
   the translator) instantiates them on the tables regenerated from $VERIF_REPO/imports and on go/types' view of the
   same packages, discharging the checker hypotheses by vm_compute: those are the theorems named in DESIGN §5. *)
From Coq Require Import List NArith ZArith Bool.
From Verif Require Import Common.GoStr C31.Untyped C31.Model C31.Proof.
Import ListNotations.
Open Scope N_scope.

Theorem C31_key_is_symbol_sound : forall sp pts,
  all_rows key_ok pts = true -> all_rows (kind_ok sp) pts = true ->
  forall pt r, In pt pts -> In r (pt_rows pt) -> KeyIsSymbol pt r /\ KindMatches sp pt r.
Proof. exact key_is_symbol_sound. Qed.
Print Assumptions C31_key_is_symbol_sound.

Theorem C31_untyped_decodes_exactly_sound : forall sp pts, all_rows (untyped_ok sp) pts = true ->
  forall pt r, In pt pts -> In r (pt_rows pt) -> UntypedExact sp pt r.
Proof. exact untyped_sound. Qed.
Print Assumptions C31_untyped_decodes_exactly_sound.

Theorem C31_typed_const_value_sound : forall sp pts, all_rows (const_ok sp) pts = true ->
  forall pt r, In pt pts -> In r (pt_rows pt) -> ConstBound sp pt r.
Proof. exact const_sound. Qed.
Print Assumptions C31_typed_const_value_sound.

(* for every object and every argument list of the right length, a checked method calls field M_ with (Object, args...)
   and returns its results; that field has the method's signature behind a leading interface{} parameter *)
Theorem C31_proxy_forwards_sound : forall idB px m, method_ok idB px m = true ->
  (forall (V : Type) (object : V) (args : list V), length args = length (m_params m) ->
     exec V m object args = Some (mkCall V (m_name m) true (object :: args) true))
  /\ m_recv_ptr m = true /\ m_recv_type m = px_name px
  /\ exists f, find_field (m_name m) (px_fields px) = Some f /\ fd_ty f = FFunc true (m_type m).
Proof. exact proxy_forwards_sound. Qed.
Print Assumptions C31_proxy_forwards_sound.

Theorem C31_proxy_implements_sound : forall idO idB sp ifs pxs pts,
  all_rows (proxy_row_ok idO idB sp ifs pxs) pts = true ->
  forall pt r, In pt pts -> In r (pt_rows pt) -> ProxyImplements idO idB sp ifs pxs pt r.
Proof. exact proxy_implements_sound. Qed.
Print Assumptions C31_proxy_implements_sound.

Theorem C31_proxy_field_order_sound : forall idO px i m, Layout idO px -> nth_error (px_methods px) i = Some m ->
  exists f, nth_error (px_fields px) (S i) = Some f /\ fd_base f = m_name m /\ fd_us f = true.
Proof. exact layout_field_of_method. Qed.
Print Assumptions C31_proxy_field_order_sound.

Theorem C31_wrappers_are_promoted_sound : forall sp ws pts, all_rows (wrapper_ok sp ws) pts = true ->
  forall pt r, In pt pts -> In r (pt_rows pt) -> WrappersPromoted ws pt r.
Proof. exact wrappers_sound. Qed.
Print Assumptions C31_wrappers_are_promoted_sound.

Theorem C31_coverage_sound : forall fs pts, coverage_ok fs pts = true -> Covered fs pts.
Proof. exact coverage_ok_sound. Qed.
Print Assumptions C31_coverage_sound.

(* ---- non-vacuity: a two-package table in the shape of imports/io.go, accepted by every checker;
        and the mutants of DESIGN §9a rejected ---- *)
Module Ex.
(* ids: 1 "io", 2 "Copy", 3 "EOF", 4 "SeekEnd", 5 "Reader", 6 "P_io_Reader", 7 "Read", 8 "Object", 9 "_", 10 "P", 11 "p",
        12 "[]byte", 13 "int", 14 "error", 15 file, 16 own package, 17 "CopyN", 18 "LimitedReader", 19 "R" *)
Definition rd_t := mkFT [12] false [13; 14].
Definition px := mkProxy 15 16 6
  [mkField 8 8 false FEmptyIface; mkField 20 7 true (FFunc true rd_t)]
  [mkMethod 10 true 6 7 [11] rd_t (BForward true 10 7 true true 10 [11] false)].
Definition str_int2 : str := [105; 110; 116; 58; 50].   (* "int:2" *)
Definition pt := mkPT 15 1 1 [(TBinds, 3); (TTypes, 1); (TProxies, 1); (TUntypeds, 1)]
  [mkRow TBinds 2 SVal 1 2 false; mkRow TBinds 3 SAddr 1 3 false; mkRow TBinds 4 SVal 1 4 false;
   mkRow TTypes 5 SType 1 5 false; mkRow TProxies 5 SType 16 6 true; mkRow TUntypeds 4 (SStr str_int2) 0 0 false].
Definition sp : spec := [(1, [mkObj 2 OFunc; mkObj 3 OVar; mkObj 4 (OConstUntyped KInt (XInt 2)); mkObj 5 (OType true); mkObj 17 OFunc])].
Definition ifs := [mkIface 1 5 true [mkIM 7 1 2 false]].
Definition fl := mkFile 15 16 true false [StTable 1].

Example accepted :
  all_rows key_ok [pt] && all_rows (kind_ok sp) [pt] && all_rows (untyped_ok sp) [pt] && all_rows (const_ok sp) [pt]
  && all_rows (proxy_row_ok 8 9 sp ifs [px]) [pt] && coverage_ok [fl] [pt] = true.
Proof. vm_compute. reflexivity. Qed.

Definition px_m0 := mkMethod 10 true 6 7 [11] rd_t (BForward true 10 7 true true 10 [11] false).
Example forwards : exec nat px_m0 7%nat [42%nat] = Some (mkCall nat 7 true [7%nat; 42%nat] true).
Proof. reflexivity. Qed.

(* "Copy": ValueOf(io.CopyN) *)
Example swapped_binding_rejected :
  key_ok pt (mkRow TBinds 2 SVal 1 17 false) = false.
Proof. reflexivity. Qed.
(* one digit of an untyped constant changed: "int:3" *)
Example wrong_digit_rejected :
  untyped_ok sp pt (mkRow TUntypeds 4 (SStr [105; 110; 116; 58; 51]) 0 0 false) = false.
Proof. vm_compute. reflexivity. Qed.
(* a method forwarding to a sibling field: P.ReadAt_(P.Object, p) inside Read *)
Example sibling_field_rejected :
  method_ok 9 px (mkMethod 10 true 6 7 [11] rd_t (BForward true 10 21 true true 10 [11] false)) = false.
Proof. reflexivity. Qed.
(* arguments forwarded in another order *)
Example swapped_args_rejected :
  method_ok 9 (mkProxy 15 16 6 [mkField 8 8 false FEmptyIface; mkField 20 7 true (FFunc true (mkFT [12;12] false [13]))] [])
              (mkMethod 10 true 6 7 [11; 22] (mkFT [12;12] false [13]) (BForward true 10 7 true true 10 [22; 11] false)) = false.
Proof. reflexivity. Qed.
End Ex.

(* list lemmas missing from the Coq 8.16 standard library *)
From Coq Require Import List Arith Lia.
Import ListNotations.

Lemma nth_error_firstn {A} (l : list A) n i : i < n -> nth_error (firstn n l) i = nth_error l i.
Proof.
  revert n i; induction l as [|x l IH]; intros n i H.
  - rewrite firstn_nil. reflexivity.
  - destruct n; [lia|]. destruct i; simpl; [reflexivity|]. apply IH. lia.
Qed.

Lemma nth_error_skipn {A} (v : list A) n k : nth_error (skipn n v) k = nth_error v (n + k).
Proof.
  revert v; induction n as [|n IH]; intros v; [reflexivity|].
  destruct v; simpl; [destruct k; reflexivity|apply IH].
Qed.

Lemma skipn_skipn_add {A} (l : list A) a b : skipn a (skipn b l) = skipn (a + b) l.
Proof.
  revert l; induction b as [|b IH]; intros l.
  - rewrite Nat.add_0_r. reflexivity.
  - destruct l; [rewrite !skipn_nil; reflexivity|].
    rewrite Nat.add_succ_r. simpl. apply IH.
Qed.

Lemma firstn_skipn_split {A} (v : list A) n : v = firstn n v ++ skipn n v.
Proof. symmetry; apply firstn_skipn. Qed.

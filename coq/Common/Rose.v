(* Rose.v — uniform syntax trees mirroring gomacro's ast2.Ast:
     Node  id tag atoms kids   an ast2.AstWithNode of fixed arity; kids = Get(0..Size-1), None = nil child
     Slice id stag atoms kids  an ast2.AstWithSlice (BlockStmt, FieldList, File, GenDecl, ReturnStmt and the bare
                               ExprSlice/StmtSlice/IdentSlice/... wrappers): resizable list of children
   `atoms` are the non-child attributes that New() copies (operator / token, identifier name, literal kind+value,
   channel direction, ...), as numbers (strings are interned by the harness).
   `id` is a provenance label used only to state sharing/freshness properties; structural equality ignores it
   (see [erase]).  Definitions + the nested induction principle; used by C21 and C20. *)
From Coq Require Import List NArith ZArith Bool Lia.
Import ListNotations.

Inductive tag :=
| TArrayType | TAssignStmt | TBadDecl | TBadExpr | TBadStmt | TBasicLit | TBinaryExpr | TBranchStmt | TCallExpr
| TCaseClause | TChanType | TCommClause | TCompositeLit | TDeclStmt | TDeferStmt | TEllipsis | TEmptyStmt | TExprStmt
| TField | TForStmt | TFuncDecl | TFuncLit | TFuncType | TGoStmt | TIdent | TIfStmt | TImportSpec | TIncDecStmt
| TIndexExpr | TInterfaceType | TKeyValueExpr | TLabeledStmt | TMapType | TParenExpr | TRangeStmt | TSelectStmt
| TSelectorExpr | TSendStmt | TSliceExpr | TStarExpr | TStructType | TSwitchStmt | TTypeAssertExpr | TTypeSpec
| TTypeSwitchStmt | TUnaryExpr | TValueSpec.

Inductive stag :=
| SBlock | SFieldList | SFile | SGenDecl | SReturn                   (* slices that are also ast.Node *)
| SExprs | SStmts | SIdents | SFields | SDecls | SSpecs | SNodes.    (* bare slices *)

Scheme Equality for tag.
Scheme Equality for stag.

Inductive tree :=
| Node (id : N) (t : tag) (atoms : list N) (kids : list (option tree))
| Slice (id : N) (s : stag) (atoms : list N) (kids : list tree).

(* ---- nested induction principle ---- *)
Definition okid (P : tree -> Prop) (o : option tree) : Prop :=
  match o with Some x => P x | None => True end.

Section TreeInd.
  Variable P : tree -> Prop.
  Hypothesis HN : forall i t a k, Forall (okid P) k -> P (Node i t a k).
  Hypothesis HS : forall i s a k, Forall P k -> P (Slice i s a k).
  Fixpoint tree_ind' (t : tree) : P t :=
    match t with
    | Node i tg a k =>
        HN i tg a k
          ((fix go (l : list (option tree)) : Forall (okid P) l :=
              match l with
              | [] => Forall_nil _
              | o :: l' =>
                  Forall_cons o
                    (match o as o0 return okid P o0 with Some x => tree_ind' x | None => I end)
                    (go l')
              end) k)
    | Slice i s a k =>
        HS i s a k
          ((fix go (l : list tree) : Forall P l :=
              match l with
              | [] => Forall_nil _
              | x :: l' => Forall_cons x (tree_ind' x) (go l')
              end) k)
    end.
End TreeInd.

(* ---- size / height ---- *)
Fixpoint height (t : tree) : nat :=
  match t with
  | Node _ _ _ k => S (fold_right (fun o m => Nat.max (match o with Some x => height x | None => 0 end) m) 0 k)
  | Slice _ _ _ k => S (fold_right (fun x m => Nat.max (height x) m) 0 k)
  end.

Fixpoint tsize (t : tree) : nat :=
  match t with
  | Node _ _ _ k => S (fold_right (fun o m => (match o with Some x => tsize x | None => 0 end) + m) 0 k)
  | Slice _ _ _ k => S (fold_right (fun x m => tsize x + m) 0 k)
  end.

(* ---- ids occurring in a tree ---- *)
Fixpoint ids (t : tree) : list N :=
  match t with
  | Node i _ _ k => i :: flat_map (fun o => match o with Some x => ids x | None => [] end) k
  | Slice i _ _ k => i :: flat_map ids k
  end.

Definition root_id (t : tree) : N := match t with Node i _ _ _ => i | Slice i _ _ _ => i end.

(* ---- erase ids (structural view) ---- *)
Fixpoint erase (t : tree) : tree :=
  match t with
  | Node _ tg a k => Node 0 tg a (map (fun o => match o with Some x => Some (erase x) | None => None end) k)
  | Slice _ s a k => Slice 0 s a (map erase k)
  end.

(* ---- boolean equality (strict, ids included) ---- *)
Fixpoint atoms_eqb (a b : list N) : bool :=
  match a, b with
  | [], [] => true
  | x :: a', y :: b' => N.eqb x y && atoms_eqb a' b'
  | _, _ => false
  end.

Fixpoint tree_eqb (x y : tree) : bool :=
  match x, y with
  | Node i t a k, Node j u b l =>
      N.eqb i j && tag_beq t u && atoms_eqb a b &&
      (fix go (k : list (option tree)) (l : list (option tree)) : bool :=
         match k, l with
         | [], [] => true
         | None :: k', None :: l' => go k' l'
         | Some p :: k', Some q :: l' => tree_eqb p q && go k' l'
         | _, _ => false
         end) k l
  | Slice i s a k, Slice j u b l =>
      N.eqb i j && stag_beq s u && atoms_eqb a b &&
      (fix go (k : list tree) (l : list tree) : bool :=
         match k, l with
         | [], [] => true
         | p :: k', q :: l' => tree_eqb p q && go k' l'
         | _, _ => false
         end) k l
  | _, _ => false
  end.

(* structural equality: ids ignored *)
Definition tree_sim (x y : tree) : bool := tree_eqb (erase x) (erase y).

Fixpoint trees_sim (a b : list tree) : bool :=
  match a, b with
  | [], [] => true
  | x :: a', y :: b' => tree_sim x y && trees_sim a' b'
  | _, _ => false
  end.

(* ---- small accessors shared by the models ---- *)
Definition is_slice (t : tree) : bool := match t with Slice _ _ _ _ => true | _ => false end.
Definition elems (t : tree) : list tree := match t with Slice _ _ _ k => k | _ => [] end.
(* ast2 Size() *)
Definition size_of (t : tree) : nat := match t with Node _ _ _ k => length k | Slice _ _ _ k => length k end.

(* slices that implement ast.Node (AstWithNode and AstWithSlice at once) *)
Definition stag_is_node (s : stag) : bool :=
  match s with SBlock | SFieldList | SFile | SGenDecl | SReturn => true | _ => false end.
Definition is_node (t : tree) : bool :=
  match t with Node _ _ _ _ => true | Slice _ s _ _ => stag_is_node s end.

(* error monad with explicit fuel exhaustion (DESIGN §3 Fuel) *)
Inductive res (A : Type) := Ok (a : A) | Err | OutOfFuel.
Arguments Ok {A} a.
Arguments Err {A}.
Arguments OutOfFuel {A}.

Definition bind {A B} (r : res A) (f : A -> res B) : res B :=
  match r with Ok a => f a | Err => Err | OutOfFuel => OutOfFuel end.
Notation "x <- r ;; k" := (bind r (fun x => k)) (at level 61, r at next level, right associativity).

Fixpoint mapM {A B} (f : A -> res B) (l : list A) : res (list B) :=
  match l with
  | [] => Ok []
  | x :: l' => y <- f x ;; ys <- mapM f l' ;; Ok (y :: ys)
  end.

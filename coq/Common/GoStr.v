(* Go strings as byte lists; byte-wise lexicographic order (= Go's < on strings). *)
From Coq Require Import List NArith ZArith Lia Bool Sorted.
Import ListNotations.

Definition str := list N.

Fixpoint str_cmp (a b : str) : comparison :=
  match a, b with
  | [], [] => Eq
  | [], _ :: _ => Lt
  | _ :: _, [] => Gt
  | x :: a', y :: b' =>
      match N.compare x y with
      | Eq => str_cmp a' b'
      | c => c
      end
  end.

Definition str_ltb (a b : str) : bool := match str_cmp a b with Lt => true | _ => false end.
Definition str_eqb (a b : str) : bool := match str_cmp a b with Eq => true | _ => false end.
Definition str_lt (a b : str) : Prop := str_cmp a b = Lt.

Fixpoint prefixb (p s : str) : bool :=
  match p, s with
  | [], _ => true
  | _ :: _, [] => false
  | x :: p', y :: s' => N.eqb x y && prefixb p' s'
  end.

Lemma str_cmp_refl a : str_cmp a a = Eq.
Proof. induction a as [|x a IH]; simpl; [reflexivity|]. rewrite N.compare_refl. exact IH. Qed.

Lemma str_cmp_eq a b : str_cmp a b = Eq <-> a = b.
Proof.
  split.
  - revert b; induction a as [|x a IH]; intros [|y b] H; simpl in H; try discriminate; [reflexivity|].
    destruct (N.compare_spec x y) as [E|L|G]; try discriminate. subst. f_equal. apply IH. exact H.
  - intros ->. apply str_cmp_refl.
Qed.

Lemma str_eqb_eq a b : str_eqb a b = true <-> a = b.
Proof.
  unfold str_eqb. rewrite <- str_cmp_eq. destruct (str_cmp a b); split; intros H; congruence.
Qed.

Lemma str_cmp_antisym a b : str_cmp b a = CompOpp (str_cmp a b).
Proof.
  revert b; induction a as [|x a IH]; intros [|y b]; simpl; try reflexivity.
  rewrite (N.compare_antisym x y). destruct (N.compare x y); simpl; auto.
Qed.

Lemma str_lt_trans a b c : str_lt a b -> str_lt b c -> str_lt a c.
Proof.
  unfold str_lt. revert b c; induction a as [|x a IH]; intros [|y b] [|z c]; simpl; try congruence.
  destruct (N.compare_spec x y) as [E1|L1|G1]; try discriminate;
  destruct (N.compare_spec y z) as [E2|L2|G2]; try discriminate; intros H1 H2.
  - subst. rewrite N.compare_refl. eapply IH; eauto.
  - subst. destruct (N.compare_spec y z); try lia; reflexivity.
  - subst. destruct (N.compare_spec x z); try lia; reflexivity.
  - destruct (N.compare_spec x z); try lia; reflexivity.
Qed.

Lemma str_lt_irrefl a : ~ str_lt a a.
Proof. unfold str_lt. rewrite str_cmp_refl. discriminate. Qed.

Lemma str_lt_gt a b : str_cmp a b = Gt <-> str_lt b a.
Proof.
  unfold str_lt. rewrite (str_cmp_antisym a b). destruct (str_cmp a b); simpl; split; congruence.
Qed.

Lemma str_ltb_lt a b : str_ltb a b = true <-> str_lt a b.
Proof. unfold str_ltb, str_lt. destruct (str_cmp a b); split; congruence. Qed.

Lemma str_trichotomy a b : str_lt a b \/ a = b \/ str_lt b a.
Proof.
  destruct (str_cmp a b) eqn:E.
  - right; left. apply str_cmp_eq; exact E.
  - left; exact E.
  - right; right. apply str_lt_gt; exact E.
Qed.

Lemma prefixb_app p s : prefixb p (p ++ s) = true.
Proof. induction p as [|x p IH]; simpl; [reflexivity|]. rewrite N.eqb_refl. exact IH. Qed.

Lemma prefixb_spec p s : prefixb p s = true <-> exists t, s = p ++ t.
Proof.
  split.
  - revert s; induction p as [|x p IH]; intros s H; simpl in *.
    + exists s; reflexivity.
    + destruct s as [|y s]; [discriminate|]. apply andb_true_iff in H as [H1 H2].
      apply N.eqb_eq in H1. subst. destruct (IH _ H2) as [t ->]. exists t; reflexivity.
  - intros [t ->]. apply prefixb_app.
Qed.

Lemma prefixb_refl p : prefixb p p = true.
Proof. rewrite <- (app_nil_r p) at 2. apply prefixb_app. Qed.

(* three-way classification used by prefix searches: 0 = p is a prefix of x,
   -1 = x < p (and p not a prefix), +1 = x > p and p not a prefix of x *)
Fixpoint pcls (p x : str) : Z :=
  match p, x with
  | [], _ => 0
  | _ :: _, [] => (-1)
  | a :: p', b :: x' =>
      match N.compare a b with
      | Eq => pcls p' x'
      | Lt => 1
      | Gt => (-1)
      end
  end%Z.

Lemma pcls_prefix p x : pcls p x = 0%Z <-> prefixb p x = true.
Proof.
  revert x; induction p as [|a p IH]; intros x; simpl.
  - tauto.
  - destruct x as [|b x]; [split; discriminate|].
    destruct (N.compare_spec a b) as [E|L|G].
    + subst. rewrite N.eqb_refl. simpl. apply IH.
    + split; [discriminate|]. intros H. apply andb_true_iff in H as [H _]. apply N.eqb_eq in H. lia.
    + split; [discriminate|]. intros H. apply andb_true_iff in H as [H _]. apply N.eqb_eq in H. lia.
Qed.

Lemma pcls_neg p x : pcls p x = (-1)%Z <-> (prefixb p x = false /\ str_lt x p).
Proof.
  unfold str_lt. revert x; induction p as [|a p IH]; intros x; simpl.
  - split; [discriminate|]. intros [H _]; discriminate.
  - destruct x as [|b x]; simpl; [tauto|].
    rewrite (N.compare_antisym a b).
    destruct (N.compare_spec a b) as [E|L|G]; simpl.
    + subst. rewrite N.eqb_refl. simpl. apply IH.
    + split; [discriminate|]. intros [_ H]; discriminate.
    + split; [|reflexivity]. intros _. split; [|reflexivity].
      destruct (N.eqb_spec a b); [lia|reflexivity].
Qed.

Lemma pcls_range p x : (pcls p x = -1 \/ pcls p x = 0 \/ pcls p x = 1)%Z.
Proof.
  revert x; induction p as [|a p IH]; intros x; simpl; [auto|].
  destruct x; [auto|]. destruct (N.compare a n); auto.
Qed.

(* the classification is monotone in x: along a sorted vector it goes -1..-1,0..0,1..1 *)
Lemma pcls_mono p x y : str_lt x y -> (pcls p x <= pcls p y)%Z.
Proof.
  unfold str_lt. revert x y; induction p as [|a p IH]; intros x y H; simpl; [lia|].
  destruct x as [|b x], y as [|c y]; simpl in H; try discriminate.
  - pose proof (pcls_range p y). destruct (N.compare a c); lia.
  - pose proof (pcls_range p x). pose proof (pcls_range p y).
    destruct (N.compare_spec b c) as [E|L|G]; try discriminate.
    + subst. destruct (N.compare a c); try lia. apply IH; exact H.
    + destruct (N.compare_spec a b), (N.compare_spec a c); try lia.
Qed.

(* Go's Cmd.Match / generic "HasPrefix then <" three-way test, as written *)
Definition match3 (x p : str) : Z :=
  if prefixb p x then 0%Z else if str_ltb x p then (-1)%Z else 1%Z.

Lemma match3_pcls x p : match3 x p = pcls p x.
Proof.
  unfold match3. destruct (prefixb p x) eqn:E.
  - symmetry. apply pcls_prefix. exact E.
  - destruct (str_ltb x p) eqn:L.
    + symmetry. apply pcls_neg. split; [exact E|]. apply str_ltb_lt; exact L.
    + destruct (pcls_range p x) as [H|[H|H]]; [| |auto].
      * apply pcls_neg in H as [_ H]. apply str_ltb_lt in H. congruence.
      * apply pcls_prefix in H. congruence.
Qed.

Lemma prefix_ge p x : prefixb p x = true -> ~ str_lt x p.
Proof.
  intros H L. assert (pcls p x = (-1)%Z) as K.
  { apply pcls_neg. split; [|exact L].
    destruct (prefixb p x) eqn:E; [|reflexivity].
    exfalso. apply prefixb_spec in E as [t ->]. clear H.
    unfold str_lt in L. induction p as [|a p IH]; simpl in L.
    - destruct t; discriminate.
    - rewrite N.compare_refl in L. auto. }
  apply pcls_prefix in H. lia.
Qed.

(* UTF-8 as Go implements it (unicode/utf8 EncodeRune / DecodeRune, string(rune), []rune(string), range over string).
   Bytes and runes are Z.  Definitions and the round-trip lemmas (used by C03 and C04). *)
From Coq Require Import List ZArith Bool Lia.
Import ListNotations.
Open Scope Z_scope.

Definition rune_error : Z := 65533. (* U+FFFD *)

Definition is_surrogate (r : Z) : bool := (55296 <=? r) && (r <=? 57343).
Definition valid_runeb (r : Z) : bool := (0 <=? r) && (r <=? 1114111) && negb (is_surrogate r).
Definition valid_rune (r : Z) : Prop := 0 <= r <= 1114111 /\ ~ (55296 <= r <= 57343).

Lemma valid_runeb_spec r : valid_runeb r = true <-> valid_rune r.
Proof. unfold valid_runeb, valid_rune, is_surrogate. lia. Qed.

(* utf8.EncodeRune for a valid scalar value *)
Definition encode_valid (r : Z) : list Z :=
  if r <? 128 then [r]
  else if r <? 2048 then [192 + r / 64; 128 + r mod 64]
  else if r <? 65536 then [224 + r / 4096; 128 + (r / 64) mod 64; 128 + r mod 64]
  else [240 + r / 262144; 128 + (r / 4096) mod 64; 128 + (r / 64) mod 64; 128 + r mod 64].

(* string(rune): surrogates and out-of-range values become U+FFFD *)
Definition encode_rune (r : Z) : list Z := if valid_runeb r then encode_valid r else encode_valid rune_error.

Definition encode_runes (rs : list Z) : list Z := flat_map encode_rune rs.

Definition cont (b : Z) : bool := (128 <=? b) && (b <=? 191).

(* utf8.DecodeRune on the head of s: (rune, width); an invalid or short encoding yields (U+FFFD, 1).
   The accept ranges of the second byte follow unicode/utf8's first/acceptRanges tables. *)
Definition decode1 (s : list Z) : Z * nat :=
  match s with
  | [] => (rune_error, 0%nat)
  | b0 :: t =>
    if b0 <? 128 then (b0, 1%nat)
    else if (194 <=? b0) && (b0 <=? 223) then
      match t with
      | b1 :: _ => if cont b1 then ((b0 - 192) * 64 + (b1 - 128), 2%nat) else (rune_error, 1%nat)
      | _ => (rune_error, 1%nat)
      end
    else if (224 <=? b0) && (b0 <=? 239) then
      match t with
      | b1 :: b2 :: _ =>
        let lo := if b0 =? 224 then 160 else 128 in
        let hi := if b0 =? 237 then 159 else 191 in
        if (lo <=? b1) && (b1 <=? hi) && cont b2
        then ((b0 - 224) * 4096 + (b1 - 128) * 64 + (b2 - 128), 3%nat) else (rune_error, 1%nat)
      | _ => (rune_error, 1%nat)
      end
    else if (240 <=? b0) && (b0 <=? 244) then
      match t with
      | b1 :: b2 :: b3 :: _ =>
        let lo := if b0 =? 240 then 144 else 128 in
        let hi := if b0 =? 244 then 143 else 191 in
        if (lo <=? b1) && (b1 <=? hi) && cont b2 && cont b3
        then ((b0 - 240) * 262144 + (b1 - 128) * 4096 + (b2 - 128) * 64 + (b3 - 128), 4%nat) else (rune_error, 1%nat)
      | _ => (rune_error, 1%nat)
      end
    else (rune_error, 1%nat)
  end.

(* []rune(s) / range over string: fuel = length s suffices (every step consumes >= 1 byte) *)
Fixpoint decode_fuel (fuel : nat) (s : list Z) : list Z :=
  match fuel with
  | O => []
  | S f =>
    match s with
    | [] => []
    | _ => let '(r, w) := decode1 s in r :: decode_fuel f (skipn w s)
    end
  end.
Definition decode_runes (s : list Z) : list Z := decode_fuel (length s) s.

(* ---------- lemmas ---------- *)

Lemma encode_valid_len r : valid_rune r -> (1 <= length (encode_valid r) <= 4)%nat.
Proof. intros _. unfold encode_valid. repeat (destruct (_ <? _)); simpl; lia. Qed.

Lemma encode_valid_bytes r : valid_rune r -> Forall (fun b => 0 <= b <= 255) (encode_valid r).
Proof.
  intros [H1 H2]. unfold encode_valid.
  pose proof (Z.mod_pos_bound r 64 ltac:(lia)).
  pose proof (Z.mod_pos_bound (r / 64) 64 ltac:(lia)).
  pose proof (Z.mod_pos_bound (r / 4096) 64 ltac:(lia)).
  destruct (r <? 128) eqn:E1; [apply Z.ltb_lt in E1|apply Z.ltb_ge in E1].
  { repeat constructor; lia. }
  destruct (r <? 2048) eqn:E2; [apply Z.ltb_lt in E2|apply Z.ltb_ge in E2].
  { assert (0 <= r / 64 < 32) by (split; [apply Z.div_pos|apply Z.div_lt_upper_bound]; lia).
    repeat constructor; lia. }
  destruct (r <? 65536) eqn:E3; [apply Z.ltb_lt in E3|apply Z.ltb_ge in E3].
  { assert (0 <= r / 4096 < 16) by (split; [apply Z.div_pos|apply Z.div_lt_upper_bound]; lia).
    repeat constructor; lia. }
  assert (0 <= r / 262144 < 5) by (split; [apply Z.div_pos|apply Z.div_lt_upper_bound]; lia).
  repeat constructor; lia.
Qed.

(* decoding the encoding of a valid rune, followed by anything, gives the rune back and consumes exactly it *)
Lemma decode1_encode r t : valid_rune r ->
  decode1 (encode_valid r ++ t) = (r, length (encode_valid r)).
Proof.
  intros [H1 H2]. unfold encode_valid.
  destruct (r <? 128) eqn:E1; [apply Z.ltb_lt in E1|apply Z.ltb_ge in E1].
  { simpl. apply Z.ltb_lt in E1. rewrite E1. reflexivity. }
  destruct (r <? 2048) eqn:E2; [apply Z.ltb_lt in E2|apply Z.ltb_ge in E2].
  { assert (Hq: 2 <= r / 64 < 32) by (split; [apply Z.div_le_lower_bound|apply Z.div_lt_upper_bound]; lia).
    pose proof (Z.mod_pos_bound r 64 ltac:(lia)) as Hm.
    pose proof (Z.div_mod r 64 ltac:(lia)) as Hd.
    cbn [app decode1].
    replace (192 + r / 64 <? 128) with false by (symmetry; apply Z.ltb_ge; lia).
    replace ((194 <=? 192 + r / 64) && (192 + r / 64 <=? 223)) with true by (symmetry; apply andb_true_iff; split; apply Z.leb_le; lia).
    unfold cont.
    replace ((128 <=? 128 + r mod 64) && (128 + r mod 64 <=? 191)) with true by (symmetry; apply andb_true_iff; split; apply Z.leb_le; lia).
    f_equal. lia. }
  destruct (r <? 65536) eqn:E3; [apply Z.ltb_lt in E3|apply Z.ltb_ge in E3].
  { assert (Hq: 0 <= r / 4096 < 16) by (split; [apply Z.div_pos|apply Z.div_lt_upper_bound]; lia).
    pose proof (Z.mod_pos_bound r 64 ltac:(lia)) as Hm.
    pose proof (Z.mod_pos_bound (r / 64) 64 ltac:(lia)) as Hm2.
    pose proof (Z.div_mod r 64 ltac:(lia)) as Hd.
    pose proof (Z.div_mod (r / 64) 64 ltac:(lia)) as Hd2.
    assert (Hdd: r / 64 / 64 = r / 4096) by (rewrite Z.div_div; [reflexivity|lia|lia]).
    rewrite Hdd in Hd2.
    cbn [app decode1].
    replace (224 + r / 4096 <? 128) with false by (symmetry; apply Z.ltb_ge; lia).
    replace ((194 <=? 224 + r / 4096) && (224 + r / 4096 <=? 223)) with false by (symmetry; apply andb_false_iff; right; apply Z.leb_gt; lia).
    replace ((224 <=? 224 + r / 4096) && (224 + r / 4096 <=? 239)) with true by (symmetry; apply andb_true_iff; split; apply Z.leb_le; lia).
    unfold cont.
    replace ((128 <=? 128 + r mod 64) && (128 + r mod 64 <=? 191)) with true by (symmetry; apply andb_true_iff; split; apply Z.leb_le; lia).
    match goal with |- (if ?c && true then _ else _) = _ => replace c with true end.
    { cbn [andb]. f_equal. lia. }
    symmetry. apply andb_true_iff.
    destruct (224 + r / 4096 =? 224) eqn:A; [apply Z.eqb_eq in A|apply Z.eqb_neq in A];
    destruct (224 + r / 4096 =? 237) eqn:B; [apply Z.eqb_eq in B|apply Z.eqb_neq in B|apply Z.eqb_eq in B|apply Z.eqb_neq in B];
    split; apply Z.leb_le; lia. }
  assert (Hq: 0 <= r / 262144 < 5) by (split; [apply Z.div_pos|apply Z.div_lt_upper_bound]; lia).
  pose proof (Z.mod_pos_bound r 64 ltac:(lia)) as Hm.
  pose proof (Z.mod_pos_bound (r / 64) 64 ltac:(lia)) as Hm2.
  pose proof (Z.mod_pos_bound (r / 4096) 64 ltac:(lia)) as Hm3.
  pose proof (Z.div_mod r 64 ltac:(lia)) as Hd.
  pose proof (Z.div_mod (r / 64) 64 ltac:(lia)) as Hd2.
  pose proof (Z.div_mod (r / 4096) 64 ltac:(lia)) as Hd3.
  assert (Hdd: r / 64 / 64 = r / 4096) by (rewrite Z.div_div; [reflexivity|lia|lia]).
  assert (Hdd3: r / 4096 / 64 = r / 262144) by (rewrite Z.div_div; [reflexivity|lia|lia]).
  rewrite Hdd in Hd2. rewrite Hdd3 in Hd3.
  cbn [app decode1].
  replace (240 + r / 262144 <? 128) with false by (symmetry; apply Z.ltb_ge; lia).
  replace ((194 <=? 240 + r / 262144) && (240 + r / 262144 <=? 223)) with false by (symmetry; apply andb_false_iff; right; apply Z.leb_gt; lia).
  replace ((224 <=? 240 + r / 262144) && (240 + r / 262144 <=? 239)) with false by (symmetry; apply andb_false_iff; right; apply Z.leb_gt; lia).
  replace ((240 <=? 240 + r / 262144) && (240 + r / 262144 <=? 244)) with true by (symmetry; apply andb_true_iff; split; apply Z.leb_le; lia).
  unfold cont.
  replace ((128 <=? 128 + r mod 64) && (128 + r mod 64 <=? 191)) with true by (symmetry; apply andb_true_iff; split; apply Z.leb_le; lia).
  replace ((128 <=? 128 + (r / 64) mod 64) && (128 + (r / 64) mod 64 <=? 191)) with true by (symmetry; apply andb_true_iff; split; apply Z.leb_le; lia).
  match goal with |- (if ?c && true && true then _ else _) = _ => replace c with true end.
  { cbn [andb]. f_equal. lia. }
  symmetry. apply andb_true_iff.
  destruct (240 + r / 262144 =? 240) eqn:A; [apply Z.eqb_eq in A|apply Z.eqb_neq in A];
  destruct (240 + r / 262144 =? 244) eqn:B; [apply Z.eqb_eq in B|apply Z.eqb_neq in B|apply Z.eqb_eq in B|apply Z.eqb_neq in B];
  split; apply Z.leb_le; lia.
Qed.

Lemma skipn_app_len {A} (a b : list A) : skipn (length a) (a ++ b) = b.
Proof. induction a; simpl; auto. Qed.

Lemma decode_fuel_encode rs : forall fuel, Forall valid_rune rs -> (length (encode_runes rs) <= fuel)%nat ->
  decode_fuel fuel (encode_runes rs) = rs.
Proof.
  induction rs as [|r rs IH]; intros fuel Hv Hf.
  - destruct fuel; reflexivity.
  - inversion Hv as [|? ? Hr Hrs]; subst.
    assert (Henc: encode_rune r = encode_valid r).
    { unfold encode_rune. apply valid_runeb_spec in Hr. rewrite Hr. reflexivity. }
    pose proof (encode_valid_len r Hr) as Hlen.
    cbn [encode_runes flat_map] in *. rewrite Henc in *.
    rewrite app_length in Hf.
    destruct fuel as [|fuel]; [lia|].
    cbn [decode_fuel].
    destruct (encode_valid r ++ flat_map encode_rune rs) eqn:E.
    { destruct (encode_valid r); simpl in *; [lia|discriminate]. }
    rewrite <- E. rewrite decode1_encode by assumption.
    rewrite skipn_app_len. f_equal. apply IH; [assumption|].
    unfold encode_runes. lia.
Qed.

(* []rune(string(rs)) = rs for valid scalar values *)
Theorem decode_encode_runes rs : Forall valid_rune rs -> decode_runes (encode_runes rs) = rs.
Proof. intros H. apply decode_fuel_encode; [assumption|reflexivity]. Qed.


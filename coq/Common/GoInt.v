(* Go fixed-width integer arithmetic over Z.
   Kinds I8..I64, U8..U64 (int/uint/uintptr are 64 bit on the amd64 sandbox: they map to I64/U64).
   A value of kind k is an integer in [imin k, imax k]; every operator takes in-range operands and returns
   an in-range result, wrapping modulo 2^width as Go does (two's complement for the signed kinds).
   quo/rem return None for a zero divisor (run-time panic in Go); signed shift counts < 0 give None. *)
From Coq Require Import ZArith Lia Bool.
Open Scope Z_scope.

Inductive ikind := I8 | I16 | I32 | I64 | U8 | U16 | U32 | U64.

Definition ikind_eqb (a b : ikind) : bool :=
  match a, b with
  | I8, I8 | I16, I16 | I32, I32 | I64, I64 | U8, U8 | U16, U16 | U32, U32 | U64, U64 => true
  | _, _ => false
  end.
Lemma ikind_eqb_eq a b : ikind_eqb a b = true <-> a = b.
Proof. destruct a, b; simpl; split; intro H; try reflexivity; discriminate. Qed.

Definition width (k : ikind) : Z :=
  match k with I8 | U8 => 8 | I16 | U16 => 16 | I32 | U32 => 32 | I64 | U64 => 64 end.
Definition signed (k : ikind) : bool :=
  match k with I8 | I16 | I32 | I64 => true | _ => false end.

Definition modulus (k : ikind) : Z := 2 ^ width k.
Definition half (k : ikind) : Z := 2 ^ (width k - 1).
Definition imin (k : ikind) : Z := if signed k then - half k else 0.
Definition imax (k : ikind) : Z := if signed k then half k - 1 else modulus k - 1.
Definition in_range (k : ikind) (z : Z) : Prop := imin k <= z <= imax k.
Definition in_rangeb (k : ikind) (z : Z) : bool := (imin k <=? z) && (z <=? imax k).

Definition wrap (k : ikind) (z : Z) : Z :=
  if signed k then (z + half k) mod modulus k - half k else z mod modulus k.

(* ---- operators ---- *)
Definition add k a b := wrap k (a + b).
Definition sub k a b := wrap k (a - b).
Definition mul k a b := wrap k (a * b).
Definition neg k a := wrap k (- a).
Definition compl k a := wrap k (Z.lnot a).
Definition and_ k a b := wrap k (Z.land a b).
Definition or_ k a b := wrap k (Z.lor a b).
Definition xor k a b := wrap k (Z.lxor a b).
Definition andnot k a b := wrap k (Z.land a (Z.lnot b)).
Definition quo k a b : option Z := if b =? 0 then None else Some (wrap k (Z.quot a b)).
Definition rem k a b : option Z := if b =? 0 then None else Some (wrap k (Z.rem a b)).
(* shift count n is the mathematical value of an unsigned operand (n >= 0) *)
Definition shl k a n := wrap k (Z.shiftl a n).
Definition shr (k : ikind) a n := Z.shiftr a n.
(* shift by a signed count: negative count panics (Go 1.13+) *)
Definition shl_s k a n : option Z := if n <? 0 then None else Some (shl k a n).
Definition shr_s k a n : option Z := if n <? 0 then None else Some (shr k a n).
(* total versions used in statements where the divisor is known to be non-zero *)
Definition quo_total k a b := wrap k (Z.quot a b).
Definition rem_total k a b := wrap k (Z.rem a b).

Definition eqb (a b : Z) := Z.eqb a b.
Definition ltb (a b : Z) := Z.ltb a b.
Definition leb (a b : Z) := Z.leb a b.
(* three-way compare as used by the CTI method Cmp *)
Definition cmp3 (a b : Z) : Z := if a <? b then -1 else if b <? a then 1 else 0.

(* ---- basic facts ---- *)
Lemma width_pos k : 0 < width k. Proof. destruct k; simpl; lia. Qed.
Lemma modulus_pos k : 0 < modulus k.
Proof. unfold modulus. apply Z.pow_pos_nonneg; [lia|]. pose proof (width_pos k). lia. Qed.
Lemma half_pos k : 0 < half k.
Proof. unfold half. apply Z.pow_pos_nonneg; [lia|]. pose proof (width_pos k). lia. Qed.
Lemma modulus_half k : modulus k = 2 * half k.
Proof.
  unfold modulus, half. pose proof (width_pos k).
  replace (width k) with (Z.succ (width k - 1)) at 1 by lia. rewrite Z.pow_succ_r by lia. reflexivity.
Qed.

Lemma in_rangeb_spec k z : in_rangeb k z = true <-> in_range k z.
Proof. unfold in_rangeb, in_range. rewrite andb_true_iff, !Z.leb_le. reflexivity. Qed.

Lemma wrap_range k z : in_range k (wrap k z).
Proof.
  unfold in_range, wrap, imin, imax. pose proof (modulus_pos k). pose proof (modulus_half k).
  destruct (signed k).
  - pose proof (Z.mod_pos_bound (z + half k) (modulus k)). lia.
  - pose proof (Z.mod_pos_bound z (modulus k)). lia.
Qed.

Lemma wrap_id k z : in_range k z -> wrap k z = z.
Proof.
  unfold in_range, wrap, imin, imax. pose proof (modulus_pos k). pose proof (modulus_half k).
  destruct (signed k); intros Hr.
  - rewrite Z.mod_small by lia. lia.
  - apply Z.mod_small. lia.
Qed.

Lemma wrap_idem k z : wrap k (wrap k z) = wrap k z.
Proof. apply wrap_id, wrap_range. Qed.

(* wrap k z is congruent to z modulo 2^w *)
Lemma wrap_cong k z : exists q, wrap k z = z + q * modulus k.
Proof.
  unfold wrap. pose proof (modulus_pos k).
  destruct (signed k).
  - exists (- ((z + half k) / modulus k)).
    pose proof (Z.div_mod (z + half k) (modulus k)). lia.
  - exists (- (z / modulus k)). pose proof (Z.div_mod z (modulus k)). lia.
Qed.

Lemma wrap_eq_of_cong k a b q : a = b + q * modulus k -> wrap k a = wrap k b.
Proof.
  intros ->. unfold wrap. destruct (signed k).
  - replace (b + q * modulus k + half k) with (b + half k + q * modulus k) by lia.
    rewrite Z.mod_add; [reflexivity|]. pose proof (modulus_pos k). lia.
  - rewrite Z.mod_add; [reflexivity|]. pose proof (modulus_pos k). lia.
Qed.

Lemma wrap_add_l k a b : wrap k (wrap k a + b) = wrap k (a + b).
Proof. destruct (wrap_cong k a) as [q E]. apply wrap_eq_of_cong with (q := q). lia. Qed.
Lemma wrap_add_r k a b : wrap k (a + wrap k b) = wrap k (a + b).
Proof. destruct (wrap_cong k b) as [q E]. apply wrap_eq_of_cong with (q := q). lia. Qed.
Lemma wrap_sub_l k a b : wrap k (wrap k a - b) = wrap k (a - b).
Proof. destruct (wrap_cong k a) as [q E]. apply wrap_eq_of_cong with (q := q). lia. Qed.
Lemma wrap_sub_r k a b : wrap k (a - wrap k b) = wrap k (a - b).
Proof. destruct (wrap_cong k b) as [q E]. apply wrap_eq_of_cong with (q := - q). lia. Qed.
Lemma wrap_mul_l k a b : wrap k (wrap k a * b) = wrap k (a * b).
Proof. destruct (wrap_cong k a) as [q E]. apply wrap_eq_of_cong with (q := q * b). lia. Qed.
Lemma wrap_mul_r k a b : wrap k (a * wrap k b) = wrap k (a * b).
Proof. destruct (wrap_cong k b) as [q E]. apply wrap_eq_of_cong with (q := a * q). lia. Qed.
Lemma wrap_neg k a : wrap k (- wrap k a) = wrap k (- a).
Proof. destruct (wrap_cong k a) as [q E]. apply wrap_eq_of_cong with (q := - q). lia. Qed.

(* all operators return in-range values *)
Lemma add_range k a b : in_range k (add k a b). Proof. apply wrap_range. Qed.
Lemma sub_range k a b : in_range k (sub k a b). Proof. apply wrap_range. Qed.
Lemma mul_range k a b : in_range k (mul k a b). Proof. apply wrap_range. Qed.
Lemma neg_range k a : in_range k (neg k a). Proof. apply wrap_range. Qed.
Lemma shl_range k a n : in_range k (shl k a n). Proof. apply wrap_range. Qed.

Lemma quo_none_iff k a b : quo k a b = None <-> b = 0.
Proof. unfold quo. destruct (Z.eqb_spec b 0); split; intro; try congruence; discriminate. Qed.
Lemma rem_none_iff k a b : rem k a b = None <-> b = 0.
Proof. unfold rem. destruct (Z.eqb_spec b 0); split; intro; try congruence; discriminate. Qed.
Lemma shl_s_none_iff k a n : shl_s k a n = None <-> n < 0.
Proof. unfold shl_s. destruct (Z.ltb_spec n 0); split; intro; try lia; try congruence; discriminate. Qed.
Lemma shr_s_none_iff k a n : shr_s k a n = None <-> n < 0.
Proof. unfold shr_s. destruct (Z.ltb_spec n 0); split; intro; try lia; try congruence; discriminate. Qed.

(* ---- shifts ---- *)
Lemma shl_mul_pow2 k a n : 0 <= n -> shl k a n = wrap k (a * 2 ^ n).
Proof. intros. unfold shl. rewrite Z.shiftl_mul_pow2 by lia. reflexivity. Qed.

Lemma shl_ge_width k a n : width k <= n -> shl k a n = 0.
Proof.
  intros Hn. pose proof (width_pos k). rewrite shl_mul_pow2 by lia.
  replace n with ((n - width k) + width k) by lia. rewrite Z.pow_add_r by lia.
  replace (a * (2 ^ (n - width k) * 2 ^ width k)) with (0 + (a * 2 ^ (n - width k)) * modulus k) by (unfold modulus; lia).
  rewrite (wrap_eq_of_cong k _ 0 (a * 2 ^ (n - width k))) by reflexivity.
  apply wrap_id. unfold in_range, imin, imax. pose proof (half_pos k). pose proof (modulus_pos k).
  destruct (signed k); lia.
Qed.

Lemma shr_div_pow2 k a n : 0 <= n -> shr k a n = a / 2 ^ n.
Proof. intros. unfold shr. apply Z.shiftr_div_pow2. lia. Qed.

Lemma shr_range k a n : 0 <= n -> in_range k a -> in_range k (shr k a n).
Proof.
  intros Hn. unfold in_range, imin, imax. rewrite shr_div_pow2 by lia.
  pose proof (half_pos k). pose proof (modulus_pos k).
  assert (0 < 2 ^ n) by (apply Z.pow_pos_nonneg; lia).
  destruct (signed k); intros [Hl Hh].
  - split.
    + apply Z.div_le_lower_bound; [lia|]. nia.
    + destruct (Z_lt_le_dec a 0).
      * assert (a / 2 ^ n < 0) by (apply Z.div_lt_upper_bound; lia). lia.
      * assert (a / 2 ^ n <= a) by (apply Z.div_le_upper_bound; nia). lia.
  - split.
    + apply Z.div_pos; lia.
    + assert (a / 2 ^ n <= a) by (apply Z.div_le_upper_bound; nia). lia.
Qed.

(* sign fill / zero for counts >= width *)
Lemma shr_ge_width k a n : in_range k a -> width k <= n -> shr k a n = if a <? 0 then -1 else 0.
Proof.
  intros Hr Hn. pose proof (width_pos k). rewrite shr_div_pow2 by lia.
  assert (Hb : - 2 ^ n <= a < 2 ^ n).
  { unfold in_range, imin, imax in Hr. pose proof (modulus_half k). pose proof (half_pos k).
    assert (modulus k <= 2 ^ n) by (unfold modulus; apply Z.pow_le_mono_r; lia).
    destruct (signed k); lia. }
  assert (0 < 2 ^ n) by (apply Z.pow_pos_nonneg; lia).
  destruct (Z.ltb_spec a 0).
  - symmetry. apply Z.div_unique with (r := a + 2 ^ n); lia.
  - apply Z.div_small. lia.
Qed.

(* ---- division by powers of two (templates quoPow2 / remPow2 / mulPow2 of fast/binary_ops.go) ---- *)

(* the fix-up used by quoPow2: for x < 0 add 2^sh - 1, then arithmetic shift right = truncated division *)
Lemma quot_pow2_fixup x sh : 0 <= sh ->
  Z.quot x (2 ^ sh) = (if x <? 0 then x + (2 ^ sh - 1) else x) / 2 ^ sh.
Proof.
  intros Hs. assert (Hp : 0 < 2 ^ sh) by (apply Z.pow_pos_nonneg; lia).
  destruct (Z.ltb_spec x 0).
  - (* x < 0 : quot rounds towards zero = ceiling *)
    pose proof (Z.quot_rem' x (2 ^ sh)) as E.
    assert (Hx0 : x <= 0) by lia. pose proof (Z.rem_bound_pos_neg x (2 ^ sh) Hp Hx0) as B.
    apply Z.div_unique with (r := Z.rem x (2 ^ sh) + (2 ^ sh - 1)); lia.
  - rewrite Z.quot_div_nonneg by lia. reflexivity.
Qed.

Lemma pow2_half_le k sh : 0 <= sh <= width k - 1 -> 2 ^ sh <= half k.
Proof. intros. unfold half. apply Z.pow_le_mono_r; lia. Qed.

(* y_1 := K(y-1) with y = 2^sh *)
Lemma wrap_pow2_pred k sh : 0 <= sh <= width k - 1 -> wrap k (2 ^ sh - 1) = 2 ^ sh - 1.
Proof.
  intros Hs. apply wrap_id. pose proof (pow2_half_le k sh Hs). pose proof (modulus_half k).
  assert (0 < 2 ^ sh) by (apply Z.pow_pos_nonneg; lia).
  unfold in_range, imin, imax. destruct (signed k); lia.
Qed.

(* body of quoPow2, positive divisor: n := x; if n < 0 { n += y_1 }; return n >> shift *)
Definition quoPow2_body k x y_1 sh := shr k (if x <? 0 then add k x y_1 else x) sh.

Lemma quoPow2_pos k x sh : signed k = true -> in_range k x -> 0 <= sh <= width k - 1 ->
  quoPow2_body k x (wrap k (2 ^ sh - 1)) sh = Z.quot x (2 ^ sh).
Proof.
  intros Hsg Hx Hs. unfold quoPow2_body. rewrite wrap_pow2_pred by lia.
  rewrite shr_div_pow2 by lia. rewrite quot_pow2_fixup by lia.
  destruct (Z.ltb_spec x 0); [|reflexivity].
  unfold add. rewrite wrap_id; [reflexivity|].
  pose proof (pow2_half_le k sh Hs). assert (0 < 2 ^ sh) by (apply Z.pow_pos_nonneg; lia).
  unfold in_range, imin, imax in *. rewrite Hsg in *. lia.
Qed.

Lemma quot_bounds x d : 0 < d -> (0 <= x -> 0 <= Z.quot x d <= x) /\ (x <= 0 -> x <= Z.quot x d <= 0).
Proof.
  intros Hd. pose proof (Z.quot_rem' x d) as E. split; intros Hx.
  - pose proof (Z.quot_pos x d Hx Hd). split; [lia|].
    destruct (Z.eq_dec x 0) as [->|]; [rewrite Z.quot_0_l; lia|].
    pose proof (Z.rem_bound_pos x d Hx Hd). nia.
  - assert (Hq : Z.quot x d = - Z.quot (- x) d) by (rewrite Z.quot_opp_l by lia; lia).
    pose proof (Z.quot_pos (- x) d ltac:(lia) Hd).
    pose proof (Z.quot_rem' (- x) d). pose proof (Z.rem_bound_pos (- x) d ltac:(lia) Hd). nia.
Qed.

Lemma quot_range k x d : in_range k x -> 0 < d -> in_range k (Z.quot x d).
Proof.
  intros Hx Hd. pose proof (half_pos k). pose proof (modulus_pos k).
  destruct (quot_bounds x d Hd) as [Hp Hn].
  unfold in_range, imin, imax in *.
  destruct (Z_lt_le_dec x 0); [specialize (Hn ltac:(lia))|specialize (Hp ltac:(lia))]; destruct (signed k); lia.
Qed.

(* the Go result x / 2^sh for a positive constant divisor *)
Theorem quoPow2_pos_sound k x sh : signed k = true -> in_range k x -> 0 <= sh <= width k - 1 ->
  quoPow2_body k x (wrap k (2 ^ sh - 1)) sh = quo_total k x (2 ^ sh).
Proof.
  intros. rewrite quoPow2_pos by assumption. unfold quo_total. symmetry. apply wrap_id.
  apply quot_range; [assumption|]. apply Z.pow_pos_nonneg; lia.
Qed.

(* negative constant divisor y = -(2^sh), including y = MinInt (sh = width-1): return -(n >> shift) *)
Theorem quoPow2_neg_sound k x sh : signed k = true -> in_range k x -> 0 <= sh <= width k - 1 ->
  neg k (quoPow2_body k x (wrap k (2 ^ sh - 1)) sh) = quo_total k x (- 2 ^ sh).
Proof.
  intros. rewrite quoPow2_pos by assumption. unfold neg, quo_total.
  assert (0 < 2 ^ sh) by (apply Z.pow_pos_nonneg; lia).
  rewrite Z.quot_opp_r by lia. reflexivity.
Qed.

(* remPow2, unsigned: x & (y-1) *)
Lemma land_pow2_pred a sh : 0 <= sh -> Z.land a (2 ^ sh - 1) = a mod 2 ^ sh.
Proof. intros. rewrite <- Z.land_ones by lia. rewrite Z.ones_equiv. reflexivity. Qed.

Theorem remPow2_unsigned_sound k x sh : signed k = false -> in_range k x -> 0 <= sh <= width k - 1 ->
  and_ k x (wrap k (2 ^ sh - 1)) = rem_total k x (2 ^ sh).
Proof.
  intros Hu Hx Hs. unfold and_, rem_total. rewrite wrap_pow2_pred by lia. rewrite land_pow2_pred by lia.
  unfold in_range, imin, imax in Hx. rewrite Hu in Hx.
  assert (0 < 2 ^ sh) by (apply Z.pow_pos_nonneg; lia).
  rewrite Z.rem_mod_nonneg by lia. reflexivity.
Qed.

(* remPow2, signed: n := x; if n >= 0 { return n & y_1 }; return -(-n & y_1) *)
Definition remPow2_body k x y_1 := if 0 <=? x then and_ k x y_1 else neg k (and_ k (neg k x) y_1).

Lemma mod_pow2_of_wrap k z sh : 0 <= sh <= width k - 1 -> (wrap k z) mod 2 ^ sh = z mod 2 ^ sh.
Proof.
  intros Hs. destruct (wrap_cong k z) as [q ->]. unfold modulus.
  replace (width k) with (sh + (width k - sh)) by lia. rewrite Z.pow_add_r by lia.
  replace (z + q * (2 ^ sh * 2 ^ (width k - sh))) with (z + (q * 2 ^ (width k - sh)) * 2 ^ sh) by lia.
  apply Z.mod_add. assert (0 < 2 ^ sh) by (apply Z.pow_pos_nonneg; lia). lia.
Qed.

Theorem remPow2_signed_sound k x sh : signed k = true -> in_range k x -> 0 <= sh <= width k - 1 ->
  remPow2_body k x (wrap k (2 ^ sh - 1)) = rem_total k x (2 ^ sh).
Proof.
  intros Hsg Hx Hs. unfold remPow2_body, rem_total. rewrite wrap_pow2_pred by lia.
  assert (Hp : 0 < 2 ^ sh) by (apply Z.pow_pos_nonneg; lia).
  pose proof (pow2_half_le k sh Hs) as Hh. pose proof (half_pos k).
  destruct (Z.leb_spec 0 x).
  - unfold and_. rewrite land_pow2_pred by lia. rewrite Z.rem_mod_nonneg by lia. reflexivity.
  - unfold and_, neg. rewrite land_pow2_pred by lia. rewrite mod_pow2_of_wrap by lia.
    assert (E : Z.rem x (2 ^ sh) = - ((- x) mod 2 ^ sh)).
    { rewrite <- (Z.opp_involutive x) at 1. rewrite Z.rem_opp_l by lia. rewrite Z.rem_mod_nonneg by lia. reflexivity. }
    rewrite E.
    pose proof (Z.mod_pos_bound (- x) (2 ^ sh) Hp).
    rewrite (wrap_id k ((- x) mod 2 ^ sh)).
    2:{ unfold in_range, imin, imax. rewrite Hsg. lia. }
    reflexivity.
Qed.

(* a negative constant divisor gives the same remainder: x % -(2^sh) = x % 2^sh *)
Lemma rem_total_opp k x d : d <> 0 -> rem_total k x (- d) = rem_total k x d.
Proof. intros. unfold rem_total. rewrite Z.rem_opp_r by lia. reflexivity. Qed.

(* mulPow2: x << shift, -(x << shift) *)
Theorem mulPow2_pos_sound k x sh : 0 <= sh -> shl k x sh = mul k x (2 ^ sh).
Proof. intros. unfold mul. apply shl_mul_pow2. lia. Qed.

Theorem mulPow2_neg_sound k x sh : 0 <= sh -> neg k (shl k x sh) = mul k x (- 2 ^ sh).
Proof.
  intros. unfold neg, mul. rewrite shl_mul_pow2 by lia. rewrite wrap_neg. f_equal. lia.
Qed.

(* multiplication by a constant only depends on the constant modulo 2^w: x * K(c) = x * c wrapped *)
Lemma mul_wrap_r k a b : mul k a (wrap k b) = mul k a b.
Proof. apply wrap_mul_r. Qed.

(* ---- bitwise operators stay in range on in-range operands (so the wrap is the identity) ---- *)
Lemma testbit_high_nonneg a n w : 0 <= a < 2 ^ w -> w <= n -> Z.testbit a n = false.
Proof.
  intros [Ha Hb] Hn. destruct (Z.eq_dec a 0) as [->|Hne]; [apply Z.bits_0|].
  apply Z.bits_above_log2; [lia|]. assert (Z.log2 a < w) by (apply Z.log2_lt_pow2; lia). lia.
Qed.

Lemma cmp3_spec a b : cmp3 a b = match Z.compare a b with Lt => -1 | Eq => 0 | Gt => 1 end.
Proof.
  unfold cmp3. destruct (Z.compare_spec a b); destruct (Z.ltb_spec a b); destruct (Z.ltb_spec b a); lia.
Qed.

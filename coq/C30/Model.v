(* C30 — executable model of go/types/converter.go (with the "fix:" patch C30-1 applied):
   Converter.typ as a structural map between two copies of one type-term language, Converter.object /
   Converter.Package on a scope, and the named-type machinery (mktypename / mknamed: create a shell, memoise it,
   convert the underlying type, complete it; methods are queued and added at the end).
   Definitions only (no proofs).

   Terms: named types are leaves (their declarations live in an environment), names are interned numbers
   (the harness interns identical strings to identical numbers on both sides), [TParam] stands for everything the
   fork cannot express: type parameters, unions, generic types and their instances.  Interface method signatures
   carry no receiver: mkinterface converts them with funcIgnoreRecv and NewInterfaceType installs the new
   interface as receiver. *)
From Coq Require Import List NArith ZArith Bool Arith.
Import ListNotations.

Record finfo := mkF { f_name : N; f_pkg : N; f_emb : bool; f_tag : N }.

Inductive ty :=
| Basic (k : N)
| Named (q : N)
| TParam
| Pointer (e : ty)
| Slice (e : ty)
| Array (n : Z) (e : ty)
| Chan (d : N) (e : ty)
| Map (k e : ty)
| Sig (recv : option ty) (ps rs : list ty) (va : bool)
| Struct (fs : list (finfo * ty))
| Iface (ms : list (N * ty)) (embs : list ty).

Definition obind {A B} (x : option A) (f : A -> option B) : option B :=
  match x with Some a => f a | None => None end.

(* Converter.typ.  A panic ("importing generic functions or types is not supported yet") is None. *)
Fixpoint conv (t : ty) : option ty :=
  let conv_list := fix conv_list (l : list ty) : option (list ty) :=
    match l with
    | [] => Some []
    | x :: l' => obind (conv x) (fun x' => obind (conv_list l') (fun r => Some (x' :: r)))
    end in
  match t with
  | Basic k => Some (Basic k)                      (* Typ[BasicKind(g.Kind())] *)
  | Named q => Some (Named q)                      (* mknamed: the type name of the mirrored package *)
  | TParam => None
  | Pointer e => option_map Pointer (conv e)
  | Slice e => option_map Slice (conv e)
  | Array n e => option_map (Array n) (conv e)
  | Chan d e => option_map (Chan d) (conv e)       (* NewChan(ChanDir(g.Dir()), elem) *)
  | Map k e => obind (conv k) (fun k' => obind (conv e) (fun e' => Some (Map k' e')))
  | Sig recv ps rs va =>                           (* mksignature(g, funcSetRecv) *)
      obind (match recv with None => Some None | Some r => option_map Some (conv r) end) (fun recv' =>
      obind (conv_list ps) (fun ps' => obind (conv_list rs) (fun rs' => Some (Sig recv' ps' rs' va))))
  | Struct fs =>
      option_map Struct
        ((fix conv_fields (l : list (finfo * ty)) : option (list (finfo * ty)) :=
            match l with
            | [] => Some []
            | (f, x) :: l' => obind (conv x) (fun x' => obind (conv_fields l') (fun r => Some ((f, x') :: r)))
            end) fs)
  | Iface ms embs =>
      obind ((fix conv_methods (l : list (N * ty)) : option (list (N * ty)) :=
                match l with
                | [] => Some []
                | (n, Sig _ ps rs va) :: l' =>       (* mkfunc(m, funcIgnoreRecv) *)
                    obind (conv_list ps) (fun ps' => obind (conv_list rs) (fun rs' =>
                    obind (conv_methods l') (fun r => Some ((n, Sig None ps' rs' va) :: r))))
                | (n, _) :: _ => None                (* a method always has a signature type *)
                end) ms) (fun ms' =>
      obind (conv_list embs) (fun embs' => Some (Iface ms' embs')))
  end.

(* mentions: t mentions something outside the fork's language *)
Fixpoint generic (t : ty) : bool :=
  let any := fix any (l : list ty) : bool := match l with [] => false | x :: l' => generic x || any l' end in
  match t with
  | Basic _ | Named _ => false
  | TParam => true
  | Pointer e | Slice e | Array _ e | Chan _ e => generic e
  | Map k e => generic k || generic e
  | Sig recv ps rs _ => match recv with Some r => generic r | None => false end || any ps || any rs
  | Struct fs => (fix anyf (l : list (finfo * ty)) : bool := match l with [] => false | (_, x) :: l' => generic x || anyf l' end) fs
  | Iface ms embs =>
      (fix anym (l : list (N * ty)) : bool :=
         match l with
         | [] => false
         | (_, Sig _ ps rs _) :: l' => any ps || any rs || anym l'
         | (_, _) :: _ => true
         end) ms || any embs
  end.

(* the receiver-free form of interface methods (what both encoders produce) *)
Fixpoint canon (t : ty) : ty :=
  match t with
  | Basic _ | Named _ | TParam => t
  | Pointer e => Pointer (canon e)
  | Slice e => Slice (canon e)
  | Array n e => Array n (canon e)
  | Chan d e => Chan d (canon e)
  | Map k e => Map (canon k) (canon e)
  | Sig recv ps rs va => Sig (option_map canon recv) (map canon ps) (map canon rs) va
  | Struct fs => Struct (map (fun p => (fst p, canon (snd p))) fs)
  | Iface ms embs =>
      Iface (map (fun p => (fst p, match snd p with
                                   | Sig _ ps rs va => Sig None (map canon ps) (map canon rs) va
                                   | x => x end)) ms) (map canon embs)
  end.

(* ---------------------------------------------------------------- objects and scopes *)
Inductive obj :=
| OConst (name : N) (t : ty) (val : Z)      (* the constant.Value is carried over untouched: g.Val() *)
| OVar (name : N) (t : ty)
| OFunc (name : N) (sig : ty)
| OType (name : N) (t : ty).                (* t = Named q, or the aliased type *)

Definition oname (o : obj) : N := match o with OConst n _ _ | OVar n _ | OFunc n _ | OType n _ => n end.
Definition okind (o : obj) : N := match o with OConst _ _ _ => 0 | OVar _ _ => 1 | OFunc _ _ => 2 | OType _ _ => 3 end%N.
Definition otype (o : obj) : ty := match o with OConst _ t _ | OVar _ t | OFunc _ t | OType _ t => t end.

(* Converter.object: nil (object skipped with a warning) when the type cannot be converted *)
Definition conv_obj (o : obj) : option obj :=
  match o with
  | OConst n t v => option_map (fun t' => OConst n t' v) (conv t)
  | OVar n t => option_map (OVar n) (conv t)
  | OFunc n t => match t with Sig _ _ _ _ => option_map (OFunc n) (conv t) | _ => None end
  | OType n t => option_map (OType n) (conv t)
  end.

(* Converter.Package: for _, name := range scope.Names() { if obj := c.object(...); obj != nil { insert } } *)
Fixpoint conv_scope (s : list obj) : list obj :=
  match s with
  | [] => []
  | o :: s' => match conv_obj o with Some o' => o' :: conv_scope s' | None => conv_scope s' end
  end.

(* ---------------------------------------------------------------- named types: shell, memo, completion *)
(* source declarations: name -> (generic?, underlying, methods) *)
Record sdecl := mkS { s_gen : bool; s_under : ty; s_meths : list (N * ty) }.
Definition senv := list (N * sdecl).
(* target type names: None = shell (NewNamed(typename, nil, nil), memoised, not completed yet) *)
Record tdecl := mkT { t_under : option ty; t_meths : list (N * ty) }.
Definition tenv := list (N * tdecl).

Fixpoint slook (e : senv) (q : N) : option sdecl :=
  match e with [] => None | (k, d) :: e' => if N.eqb k q then Some d else slook e' q end.
Fixpoint tlook (e : tenv) (q : N) : option tdecl :=
  match e with [] => None | (k, d) :: e' => if N.eqb k q then Some d else tlook e' q end.
Fixpoint tset (e : tenv) (q : N) (d : tdecl) : tenv :=
  match e with
  | [] => [(q, d)]
  | (k, x) :: e' => if N.eqb k q then (k, d) :: e' else (k, x) :: tset e' q d
  end.

(* the named types a term mentions, left to right (the order Converter.typ meets them) *)
Fixpoint names_of (t : ty) : list N :=
  let all := fix all (l : list ty) : list N := match l with [] => [] | x :: l' => names_of x ++ all l' end in
  match t with
  | Basic _ | TParam => []
  | Named q => [q]
  | Pointer e | Slice e | Array _ e | Chan _ e => names_of e
  | Map k e => names_of k ++ names_of e
  | Sig recv ps rs _ => match recv with Some r => names_of r | None => [] end ++ all ps ++ all rs
  | Struct fs => (fix allf (l : list (finfo * ty)) : list N := match l with [] => [] | (_, x) :: l' => names_of x ++ allf l' end) fs
  | Iface ms embs =>
      (fix allm (l : list (N * ty)) : list N := match l with [] => [] | (_, x) :: l' => names_of x ++ allm l' end) ms ++ all embs
  end.

(* state: target environment + queue of types whose methods are to be added (toaddmethods) *)
Definition cstate := (tenv * list N)%type.

(* mknamed q: reuse an existing type name that already has a type (shell or complete: "to preserve type
   identity"); otherwise create the shell, memoise it BEFORE converting the underlying type (cycles), convert
   the underlying type (which calls mknamed on every named type it mentions), complete, queue the methods.
   A generic type is refused before the shell is created (fix C30-1).  Types of packages that are not loaded
   (no declaration) cannot occur: export data is closed under reference.  fuel bounds the nesting of mknamed
   calls; each nested call adds a name that was absent, so |senv| suffices (theorem). *)
Fixpoint mknamed (fuel : nat) (se : senv) (q : N) (st : cstate) : cstate :=
  match fuel with
  | O => st
  | S f =>
      match tlook (fst st) q with
      | Some _ => st
      | None =>
          match slook se q with
          | None => st
          | Some d =>
              if s_gen d then st
              else
                let st1 := (tset (fst st) q (mkT None []), snd st) in
                let st2 := fold_left (fun s n => mknamed f se n s) (names_of (s_under d)) st1 in
                match conv (s_under d) with
                | Some u => (tset (fst st2) q (mkT (Some u) []), match s_meths d with [] => snd st2 | _ => q :: snd st2 end)
                | None => st2        (* the panic unwinds to Converter.object: the shell stays incomplete *)
                end
          end
      end
  end.

(* addmethods with trymkfunc (fix C30-1): an unconvertible method is skipped *)
Fixpoint conv_meths (ms : list (N * ty)) : list (N * ty) :=
  match ms with
  | [] => []
  | (n, s) :: ms' => match conv s with Some s' => (n, s') :: conv_meths ms' | None => conv_meths ms' end
  end.

(* the methods' signatures mention named types too: converting them calls mknamed *)
Definition add_methods (fuel : nat) (se : senv) (st : cstate) (q : N) : cstate :=
  match slook se q, tlook (fst st) q with
  | Some d, Some td =>
      let st1 := fold_left (fun s n => mknamed fuel se n s)
                           (flat_map (fun m => names_of (snd m)) (s_meths d)) st in
      match tlook (fst st1) q with
      | Some td1 => (tset (fst st1) q (mkT (t_under td1) (conv_meths (s_meths d))), snd st1)
      | None => st1
      end
  | _, _ => st
  end.

(* Converter.Package on the type names [roots] of a scope: convert each, then drain the method queue
   (adding methods can queue further types: bounded by fuel rounds) *)
Fixpoint drain (rounds fuel : nat) (se : senv) (st : cstate) : cstate :=
  match rounds with
  | O => st
  | S r =>
      match snd st with
      | [] => st
      | q :: rest => drain r fuel se (add_methods fuel se (fst st, rest) q)
      end
  end.

Definition convert_all (se : senv) (roots : list N) : tenv :=
  let fuel := S (length se) in
  let st := fold_left (fun s q => mknamed fuel se q s) roots ([], []) in
  fst (drain (S (length se)) fuel se st).

(* ---------------------------------------------------------------- correspondence *)
Fixpoint ty_eqb (a b : ty) : bool :=
  let list_eqb := fix list_eqb (x y : list ty) : bool :=
    match x, y with
    | [], [] => true
    | u :: x', v :: y' => ty_eqb u v && list_eqb x' y'
    | _, _ => false
    end in
  match a, b with
  | Basic x, Basic y => N.eqb x y
  | Named x, Named y => N.eqb x y
  | TParam, TParam => true
  | Pointer x, Pointer y => ty_eqb x y
  | Slice x, Slice y => ty_eqb x y
  | Array n x, Array m y => Z.eqb n m && ty_eqb x y
  | Chan d x, Chan e y => N.eqb d e && ty_eqb x y
  | Map k x, Map l y => ty_eqb k l && ty_eqb x y
  | Sig r i o v, Sig s j p w =>
      match r, s with Some x, Some y => ty_eqb x y | None, None => true | _, _ => false end
      && list_eqb i j && list_eqb o p && Bool.eqb v w
  | Struct f, Struct g =>
      (fix fs_eqb (x y : list (finfo * ty)) : bool :=
         match x, y with
         | [], [] => true
         | (a1, u) :: x', (b1, v) :: y' =>
             N.eqb (f_name a1) (f_name b1) && N.eqb (f_pkg a1) (f_pkg b1) && Bool.eqb (f_emb a1) (f_emb b1)
             && N.eqb (f_tag a1) (f_tag b1) && ty_eqb u v && fs_eqb x' y'
         | _, _ => false
         end) f g
  | Iface m e, Iface n f =>
      (fix ms_eqb (x y : list (N * ty)) : bool :=
         match x, y with
         | [], [] => true
         | (a1, u) :: x', (b1, v) :: y' => N.eqb a1 b1 && ty_eqb u v && ms_eqb x' y'
         | _, _ => false
         end) m n && list_eqb e f
  | _, _ => false
  end.

(* observed: the converted type, or None when the converter skipped the object *)
Record case := mkCase { c_idx : Z; c_src : ty; c_dst : option ty }.
Definition case_ok (c : case) : bool :=
  match conv (c_src c), c_dst c with
  | Some a, Some b => ty_eqb a b
  | None, None => true
  | _, _ => false
  end.
Definition mismatches (cs : list case) : list Z := map c_idx (filter (fun c => negb (case_ok c)) cs).

(* C30 — lemmas *)
From Coq Require Import List NArith ZArith Bool Arith Lia.
From Verif Require Import C30.Model.
Import ListNotations.

(* ---------------------------------------------------------------- objects and scopes *)
Lemma conv_obj_keeps o o' : conv_obj o = Some o' ->
  oname o' = oname o /\ okind o' = okind o /\ conv (otype o) = Some (otype o') /\
  (forall n t v, o = OConst n t v -> exists t', o' = OConst n t' v).
Proof.
  destruct o as [n t v|n t|n t|n t]; simpl.
  - destruct (conv t) as [t'|]; simpl; [|discriminate]. intros E; inversion E; subst. repeat split; auto.
    intros n0 t0 v0 E0. inversion E0; subst. eauto.
  - destruct (conv t) as [t'|]; simpl; [|discriminate]. intros E; inversion E; subst. repeat split; auto. discriminate.
  - destruct t; try discriminate. destruct (conv (Sig recv ps rs va)) as [t'|]; simpl; [|discriminate].
    intros E; inversion E; subst. repeat split; auto. discriminate.
  - destruct (conv t) as [t'|]; simpl; [|discriminate]. intros E; inversion E; subst. repeat split; auto. discriminate.
Qed.

Lemma conv_scope_in s o' : In o' (conv_scope s) <-> exists o, In o s /\ conv_obj o = Some o'.
Proof.
  induction s as [|o s IH]; simpl.
  - split; [tauto|intros (o & [] & _)].
  - destruct (conv_obj o) as [c|] eqn:E; simpl; rewrite IH; split.
    + intros [<-|(x & Hx & Ex)]; [exists o; auto|exists x; auto].
    + intros (x & [<-|Hx] & Ex); [left; congruence|right; exists x; auto].
    + intros (x & Hx & Ex). exists x; auto.
    + intros (x & [<-|Hx] & Ex); [congruence|exists x; auto].
Qed.

(* every convertible object of the scope appears with the same name, kind and constant value, nothing else appears,
   objects whose type cannot be expressed are skipped and do not disturb the others *)
Lemma scope_preserved s :
  (forall o, In o s -> forall o', conv_obj o = Some o' ->
     In o' (conv_scope s) /\ oname o' = oname o /\ okind o' = okind o) /\
  (forall o', In o' (conv_scope s) -> exists o, In o s /\ conv_obj o = Some o' /\ oname o' = oname o /\ okind o' = okind o /\
     (forall n t v, o = OConst n t v -> exists t', o' = OConst n t' v)) /\
  (forall o, In o s -> conv (otype o) = None -> forall o', In o' (conv_scope s) -> conv_obj o <> Some o').
Proof.
  split; [|split].
  - intros o Hin o' E. destruct (conv_obj_keeps o o' E) as (A & B & _). split; auto. apply conv_scope_in. eauto.
  - intros o' Hin. apply conv_scope_in in Hin. destruct Hin as (o & Ho & E).
    destruct (conv_obj_keeps o o' E) as (A & B & _ & D). exists o. auto.
  - intros o Hin Hn o' _ E. destruct (conv_obj_keeps o o' E) as (_ & _ & C & _). congruence.
Qed.

(* the order of the scope is kept *)
Lemma conv_scope_names s : map oname (conv_scope s) = map oname (filter (fun o => match conv_obj o with Some _ => true | None => false end) s).
Proof.
  induction s as [|o s IH]; simpl; auto. destruct (conv_obj o) as [c|] eqn:E; simpl; rewrite IH; auto.
  destruct (conv_obj_keeps o c E) as (A & _). rewrite A. reflexivity.
Qed.

(* ---------------------------------------------------------------- Converter.typ preserves structure *)
Section TyInd.
  Variable P : ty -> Prop.
  Hypothesis Hb : forall k, P (Basic k).
  Hypothesis Hn : forall q, P (Named q).
  Hypothesis Ht : P TParam.
  Hypothesis Hp : forall e, P e -> P (Pointer e).
  Hypothesis Hs : forall e, P e -> P (Slice e).
  Hypothesis Ha : forall n e, P e -> P (Array n e).
  Hypothesis Hc : forall d e, P e -> P (Chan d e).
  Hypothesis Hm : forall k e, P k -> P e -> P (Map k e).
  Hypothesis Hsig : forall r ps rs va, (forall x, r = Some x -> P x) -> Forall P ps -> Forall P rs -> P (Sig r ps rs va).
  Hypothesis Hst : forall fs, Forall (fun p => P (snd p)) fs -> P (Struct fs).
  Hypothesis Hi : forall ms es, Forall (fun p => P (snd p)) ms -> Forall P es -> P (Iface ms es).

  Fixpoint ty_ind' (t : ty) : P t :=
    let go := fix go (l : list ty) : Forall P l := match l with [] => Forall_nil _ | x :: l' => Forall_cons _ (ty_ind' x) (go l') end in
    match t with
    | Basic k => Hb k
    | Named q => Hn q
    | TParam => Ht
    | Pointer e => Hp e (ty_ind' e)
    | Slice e => Hs e (ty_ind' e)
    | Array n e => Ha n e (ty_ind' e)
    | Chan d e => Hc d e (ty_ind' e)
    | Map k e => Hm k e (ty_ind' k) (ty_ind' e)
    | Sig r ps rs va =>
        Hsig r ps rs va
          (match r as r0 return forall x, r0 = Some x -> P x with
           | Some y => fun x E => match E in _ = z return match z with Some w => P w | None => True end with eq_refl => ty_ind' y end
           | None => fun x E => match E in _ = z return match z with Some w => P w | None => True end with eq_refl => I end
           end) (go ps) (go rs)
    | Struct fs =>
        Hst fs ((fix gof (l : list (finfo * ty)) : Forall (fun p => P (snd p)) l :=
                   match l with [] => Forall_nil _ | p :: l' => Forall_cons _ (ty_ind' (snd p)) (gof l') end) fs)
    | Iface ms es =>
        Hi ms es ((fix gom (l : list (N * ty)) : Forall (fun p => P (snd p)) l :=
                     match l with [] => Forall_nil _ | p :: l' => Forall_cons _ (ty_ind' (snd p)) (gom l') end) ms) (go es)
    end.
End TyInd.

Fixpoint conv_list (l : list ty) : option (list ty) :=
  match l with
  | [] => Some []
  | x :: l' => obind (conv x) (fun x' => obind (conv_list l') (fun r => Some (x' :: r)))
  end.

Lemma conv_list_canon l : Forall (fun t => forall t', conv t = Some t' -> t' = canon t) l ->
  forall l', conv_list l = Some l' -> l' = map canon l.
Proof.
  induction 1 as [|x l Hx _ IH]; intros l' E; simpl in E.
  - inversion E. reflexivity.
  - destruct (conv x) as [x'|] eqn:Ex; simpl in E; [|discriminate].
    destruct (conv_list l) as [r|] eqn:Er; simpl in E; [|discriminate]. inversion E. simpl.
    rewrite (Hx x' eq_refl), (IH r eq_refl). reflexivity.
Qed.

Fixpoint conv_fields (l : list (finfo * ty)) : option (list (finfo * ty)) :=
  match l with
  | [] => Some []
  | (f, x) :: l' => obind (conv x) (fun x' => obind (conv_fields l') (fun r => Some ((f, x') :: r)))
  end.
Fixpoint conv_methods (l : list (N * ty)) : option (list (N * ty)) :=
  match l with
  | [] => Some []
  | (n, Sig _ ps rs va) :: l' =>
      obind (conv_list ps) (fun ps' => obind (conv_list rs) (fun rs' =>
      obind (conv_methods l') (fun r => Some ((n, Sig None ps' rs' va) :: r))))
  | (n, _) :: _ => None
  end.

Lemma conv_sig r ps rs va : conv (Sig r ps rs va) =
  obind (match r with None => Some None | Some x => option_map Some (conv x) end) (fun r' =>
  obind (conv_list ps) (fun ps' => obind (conv_list rs) (fun rs' => Some (Sig r' ps' rs' va)))).
Proof. reflexivity. Qed.
Lemma conv_struct fs : conv (Struct fs) = option_map Struct (conv_fields fs).
Proof. reflexivity. Qed.
Lemma conv_iface ms es : conv (Iface ms es) =
  obind (conv_methods ms) (fun ms' => obind (conv_list es) (fun es' => Some (Iface ms' es'))).
Proof. reflexivity. Qed.

Definition Pc (t : ty) : Prop := forall t', conv t = Some t' -> t' = canon t.

Lemma conv_fields_canon fs : Forall (fun p => Pc (snd p)) fs ->
  forall fs', conv_fields fs = Some fs' -> fs' = map (fun p => (fst p, canon (snd p))) fs.
Proof.
  induction 1 as [|[f x] l Hx _ IH]; intros l' E; simpl in E.
  - inversion E. reflexivity.
  - destruct (conv x) as [x'|] eqn:Ex; simpl in E; [|discriminate].
    destruct (conv_fields l) as [r|] eqn:Er; simpl in E; [|discriminate]. inversion E. simpl.
    rewrite (Hx x' Ex), (IH r eq_refl). reflexivity.
Qed.

Definition P2 (t : ty) : Prop :=
  Pc t /\ (forall r ps rs va, t = Sig r ps rs va -> Forall Pc ps /\ Forall Pc rs).

Lemma P2_Pc l : Forall P2 l -> Forall Pc l.
Proof. intros H. eapply Forall_impl; [|exact H]. intros a [A _]. exact A. Qed.

Lemma conv_methods_canon ms : Forall (fun p => P2 (snd p)) ms -> forall ms', conv_methods ms = Some ms' ->
  ms' = map (fun p => (fst p, match snd p with Sig _ ps rs va => Sig None (map canon ps) (map canon rs) va | x => x end)) ms.
Proof.
  induction 1 as [|[n x] l Hx _ IH]; intros ms' Cm; simpl in Cm.
  - inversion Cm. reflexivity.
  - destruct x; try discriminate.
    destruct (conv_list ps) as [ps'|] eqn:Cp; [|discriminate]. simpl in Cm.
    destruct (conv_list rs) as [rs'|] eqn:Cr; [|discriminate]. simpl in Cm.
    destruct (conv_methods l) as [r0|] eqn:Cl; [|discriminate]. inversion Cm. simpl.
    rewrite (IH r0 eq_refl). destruct Hx as [_ Hx]. destruct (Hx _ _ _ _ eq_refl) as [Fp Fr].
    rewrite (conv_list_canon ps Fp ps' Cp), (conv_list_canon rs Fr rs' Cr). reflexivity.
Qed.

Lemma conv_canon2 : forall t, P2 t.
Proof.
  induction t using ty_ind'; (split; [unfold Pc; intros t' E|intros r0 ps0 rs0 va0 E0; try discriminate]).
  - inversion E; reflexivity.
  - inversion E; reflexivity.
  - discriminate.
  - simpl in E. destruct (conv t) eqn:C; [|discriminate]. inversion E. simpl. f_equal. apply IHt; auto.
  - simpl in E. destruct (conv t) eqn:C; [|discriminate]. inversion E. simpl. f_equal. apply IHt; auto.
  - simpl in E. destruct (conv t) eqn:C; [|discriminate]. inversion E. simpl. f_equal. apply IHt; auto.
  - simpl in E. destruct (conv t) eqn:C; [|discriminate]. inversion E. simpl. f_equal. apply IHt; auto.
  - simpl in E. destruct (conv t1) eqn:C1; [|discriminate]. destruct (conv t2) eqn:C2; [|discriminate].
    inversion E. simpl. f_equal; [apply IHt1|apply IHt2]; auto.
  - rewrite conv_sig in E.
    assert (Hr : forall r', (match r with None => Some None | Some x => option_map Some (conv x) end) = Some r' -> r' = option_map canon r).
    { destruct r as [x|]; simpl; intros r' Er.
      - destruct (conv x) eqn:Cx; [|discriminate]. inversion Er. simpl. f_equal. apply (H x eq_refl). auto.
      - inversion Er. reflexivity. }
    destruct (match r with None => Some None | Some x => option_map Some (conv x) end) as [r'|]; [|discriminate].
    simpl in E. destruct (conv_list ps) as [ps'|] eqn:Cp; [|discriminate]. simpl in E.
    destruct (conv_list rs) as [rs'|] eqn:Cr; [|discriminate]. inversion E. simpl.
    rewrite (Hr r' eq_refl), (conv_list_canon ps (P2_Pc _ H0) ps' Cp), (conv_list_canon rs (P2_Pc _ H1) rs' Cr). reflexivity.
  - inversion E0; subst. split; apply P2_Pc; auto.
  - rewrite conv_struct in E. destruct (conv_fields fs) as [fs'|] eqn:C; [|discriminate]. inversion E.
    simpl. f_equal. apply conv_fields_canon; auto. eapply Forall_impl; [|exact H]. intros a [A _]. exact A.
  - rewrite conv_iface in E. destruct (conv_methods ms) as [ms'|] eqn:Cm; [|discriminate]. simpl in E.
    destruct (conv_list es) as [es'|] eqn:Ce; [|discriminate]. inversion E. simpl.
    rewrite (conv_list_canon es (P2_Pc _ H0) es' Ce), (conv_methods_canon ms H ms' Cm). reflexivity.
Qed.

Lemma conv_canon : forall t t', conv t = Some t' -> t' = canon t.
Proof. intros t. apply conv_canon2. Qed.

(* C30 — property theorems only *)
From Coq Require Import List NArith ZArith Bool.
From Verif Require Import C30.Model.
Import ListNotations.
Open Scope N_scope.

Example C30_ex_chan : conv (Struct [(mkF 1 0 false 0, Chan 1 (Basic 2))]) = Some (Struct [(mkF 1 0 false 0, Chan 1 (Basic 2))]).
Proof. vm_compute. reflexivity. Qed.

(* C30 — property theorems only: each closed by [exact lemma], followed by Print Assumptions. *)
From Coq Require Import List NArith ZArith Bool.
From Verif Require Import C30.Model C30.Proof.
Import ListNotations.
Open Scope N_scope.

(* Converter.typ: whenever a type converts, the result is the same term (interface methods lose their receiver, which
   NewInterfaceType replaces by the new interface): show (convert t) = show t for every finite type term, of any depth.
   _partial: the declaration-level machinery (mknamed: shell, memo, completion; addmethods) is modelled and exercised
   by the Examples and the harness but has no theorem. *)
Theorem C30_convert_preserves_structure_partial : forall t t', conv t = Some t' -> t' = canon t.
Proof. exact conv_canon. Qed.
Print Assumptions C30_convert_preserves_structure_partial.

(* Converter.Package on a scope: every convertible object appears with the same name, kind and (for constants) value;
   nothing else appears; an object whose type cannot be expressed (generic) is skipped without disturbing the others *)
Theorem C30_scope_preserved : forall s,
  (forall o, In o s -> forall o', conv_obj o = Some o' ->
     In o' (conv_scope s) /\ oname o' = oname o /\ okind o' = okind o) /\
  (forall o', In o' (conv_scope s) -> exists o, In o s /\ conv_obj o = Some o' /\ oname o' = oname o /\ okind o' = okind o /\
     (forall n t v, o = OConst n t v -> exists t', o' = OConst n t' v)) /\
  (forall o, In o s -> conv (otype o) = None -> forall o', In o' (conv_scope s) -> conv_obj o <> Some o').
Proof. exact scope_preserved. Qed.
Print Assumptions C30_scope_preserved.

Theorem C30_scope_names_in_order : forall s,
  map oname (conv_scope s) = map oname (filter (fun o => match conv_obj o with Some _ => true | None => false end) s).
Proof. exact conv_scope_names. Qed.
Print Assumptions C30_scope_names_in_order.

(* ---------------- non-vacuity ---------------- *)
(* chan<- int stays chan<- int (dir 1 = SendOnly), inside a struct inside a func *)
Example C30_ex_chan : conv (Sig None [Struct [(mkF 1 0 false 0, Chan 1 (Basic 2))]] [Chan 2 (Basic 2)] false)
  = Some (Sig None [Struct [(mkF 1 0 false 0, Chan 1 (Basic 2))]] [Chan 2 (Basic 2)] false).
Proof. vm_compute. reflexivity. Qed.
(* a type parameter anywhere makes the conversion fail *)
Example C30_ex_generic : conv (Sig None [Slice TParam] [Basic 2] false) = None.
Proof. vm_compute. reflexivity. Qed.
(* scope: const, generic func (skipped), var *)
Example C30_ex_scope : conv_scope [OConst 1 (Basic 2) 7; OFunc 2 (Sig None [TParam] [] false); OVar 3 (Pointer (Named 9))]
  = [OConst 1 (Basic 2) 7; OVar 3 (Pointer (Named 9))].
Proof. vm_compute. reflexivity. Qed.
(* named types: a cycle (10: struct{next *10; other 11}, 11: *10 with a method), a generic type 12 with a method
   (fix C30-1: refused without leaving a shell), and 13 whose method mentions TParam (method skipped, type kept) *)
Definition ex_senv : senv :=
  [(10, mkS false (Struct [(mkF 1 0 false 0, Pointer (Named 10)); (mkF 2 0 false 0, Named 11)]) []);
   (11, mkS false (Pointer (Named 10)) [(5, Sig (Some (Named 11)) [] [Named 10] false)]);
   (12, mkS true (Struct [(mkF 1 0 false 0, Basic 2)]) [(6, Sig None [] [Pointer TParam] false)]);
   (13, mkS false (Basic 2) [(7, Sig (Some (Named 13)) [TParam] [] false); (8, Sig (Some (Named 13)) [] [] false)])].
Example C30_ex_named : convert_all ex_senv [10; 12; 13] =
  [(10, mkT (Some (Struct [(mkF 1 0 false 0, Pointer (Named 10)); (mkF 2 0 false 0, Named 11)])) []);
   (11, mkT (Some (Pointer (Named 10))) [(5, Sig (Some (Named 11)) [] [Named 10] false)]);
   (13, mkT (Some (Basic 2)) [(8, Sig (Some (Named 13)) [] [] false)])].
Proof. vm_compute. reflexivity. Qed.

(* C12 -- property theorems only: each closed by [exact lemma], followed by Print Assumptions. *)
From Coq Require Import List Arith Bool ZArith.
From Verif Require Import C13.Model C12.Model C12.Proof C12.Dead C12.ReplModel C12.ReplProof.
Import ListNotations.

(* C12_restore.  For EVERY program P, every top-level form, every fault point k and every fault that is not an
   interrupt (the compiled hook panics at its k-th call - inside interpreted code, inside a deferred call, while
   another panic unwinds - or an interpreted panic statement is reached, or nothing goes wrong), at every nesting
   depth: when the evaluation has ended (normally, or with the panic escaping RunExpr) the Run record equals the
   record before the evaluation on ExecFlags (StartDefer, Defer, Debug), CurrEnv, Signals.Sync/Debug/Async,
   DeferOfFun, PanicFun and DebugDepth; and the record is idle again, so the statement chains over histories.
   [idle] = what prepareEnv/applyDebugOp(DebugOpContinue) establish and a fresh interpreter satisfies.
   Not restored by the code: Run.Interrupt (C12_interrupt_field_refuted) and Run.Panic (dead once PanicFun = nil). *)
Theorem C12_restore : forall fuel P fm g o g', eval fuel P true fm g = (o, g') -> o <> OFuel ->
  flt g <> FInterrupt -> idle (rn g) -> restored (rn g) (rn g') /\ idle (rn g') /\ flt g' = flt g.
Proof. exact eval_restores. Qed.
Print Assumptions C12_restore.

(* fault sequences: any number of evaluations, each aborted (or not) at its own point, in the same interpreter *)
Theorem C12_restore_history : forall fuel P evs g g', run_history fuel P g evs = Some g' ->
  Forall (fun e => snd e <> FInterrupt) evs -> idle (rn g) -> restored (rn g) (rn g') /\ idle (rn g').
Proof. exact history_restores. Qed.
Print Assumptions C12_restore_history.

(* the invariant behind it, for every piece of the executor (call wrapper, frame entry, statement loop, the deferred
   rundefer/restore chain): see C12/Proof.v task_post *)
Theorem C12_executor_invariant : forall fuel P t g o g', go fuel P true t g = (o, g') -> o <> OFuel ->
  calm (rn g) -> flt g <> FInterrupt -> task_rel t g g' /\ task_post t g g'.
Proof. exact go_inv. Qed.
Print Assumptions C12_executor_invariant.

(* REFUTED for the field Run.Interrupt: exec() (the path without defers) has no deferred restore; a panic raised after
   the 70-statement prologue leaves Run.Interrupt = spinInterrupt.  Witness: `for { hook() }` on the top-level Env,
   the hook panics at its 40th call.  (The stale value is not observable: C12_interrupt_field_dead; the harness battery checks that on the real interpreter.) *)
Theorem C12_interrupt_field_refuted :
  let '(o, g') := eval FUEL [[IHook; IJmp 0]] true (FDirect 0) (glob0 40 FPanic) in
  o = OPanic PV_HOOK /\ intr (rn (glob0 40 FPanic)) = false /\ intr (rn g') = true.
Proof. exact interrupt_field_not_restored. Qed.
Print Assumptions C12_interrupt_field_refuted.

(* ... and DEAD: two interpreters that differ only in Run.Interrupt produce, for every program, form, fault and fuel,
   the same outcome and final states that again differ at most in Run.Interrupt (all counters, the global x, every
   other field of the Run record equal).  So the stale value left behind by an aborted evaluation cannot influence
   any later evaluation. [geq g g'] = equal after overwriting Run.Interrupt. *)
Theorem C12_interrupt_field_dead : forall fuel P fx fm g g', geq g g' ->
  fst (eval fuel P fx fm g) = fst (eval fuel P fx fm g') /\ geq (snd (eval fuel P fx fm g)) (snd (eval fuel P fx fm g')).
Proof. exact eval_dead. Qed.
Print Assumptions C12_interrupt_field_dead.

(* finding C12-1 on the model of the code BEFORE the fix (fx = false): after `{ defer func(){}(); panic("boom") }` has
   been aborted, Run.PanicFun still points to the top-level Env and the recover() of a later, panic-free evaluation
   `{ defer func() { recover() }() }` returns the old panic *)
Theorem C12_restore_refuted_before_fix :
  let '(o1, g1) := eval FUEL P_c12_1 false (FDirect 0) (glob0 0 FNone) in
  let '(o2, g2) := eval FUEL P_c12_1 false (FDirect 2) (rearm 0 FNone g1) in
  o1 = OPanic PV_INTERP /\ panic_fun (rn g1) = Some 0 /\ o2 = ONormal /\ recs g2 = 1.
Proof. exact c12_1_before_fix. Qed.
Print Assumptions C12_restore_refuted_before_fix.

Theorem C12_finding_1_fixed :
  let '(o1, g1) := eval FUEL P_c12_1 true (FDirect 0) (glob0 0 FNone) in
  let '(o2, g2) := eval FUEL P_c12_1 true (FDirect 2) (rearm 0 FNone g1) in
  o1 = OPanic PV_INTERP /\ panic_fun (rn g1) = None /\ o2 = ONormal /\ recs g2 = 0.
Proof. exact c12_1_after_fix. Qed.
Print Assumptions C12_finding_1_fixed.

(* the hypotheses are satisfiable on a non-trivial value: the hook panics in f1 (called by f0), the deferred closures
   of f1 and f0 run while the panic unwinds, the panic escapes; a fresh interpreter's Run is idle *)
Example C12_restore_example :
  let '(o, g') := eval FUEL P_ex true (FCall 0 0) (glob0 2 FPanic) in
  o = OPanic PV_HOOK /\ restored run0 (rn g') /\ later g' = 1 /\ gx g' = 3.
Proof. exact example_nested. Qed.
Example C12_fresh_is_idle : idle run0.
Proof. repeat split. Qed.

(* ---- the loops that evaluate input after input (Repl, ReplStdin, EvalReader, EvalFile: ReadParseEvalPrint until it
   returns false), model C12/ReplModel.v of ParseEvalPrint/afterEval's callAgain protocol.
   With OptTrapPanic set, for EVERY list of inputs - whichever of them panic, inside a special command (:debug EXPR,
   :inspect EXPR: Interp.Cmd panics before callAgain is assigned) or in plain code - no panic leaves the loop and the
   inputs that are evaluated are exactly those up to the first executed quit command: an aborted input never stops
   the session. *)
Theorem C12_repl_trapped_panic_continues : forall ins, session true ins = (until_quit ins, false).
Proof. exact session_trap. Qed.
Print Assumptions C12_repl_trapped_panic_continues.

Theorem C12_repl_every_input_evaluated : forall ins, Forall (fun i => i_quit i = false) ins ->
  session true ins = (ins, false).
Proof. exact session_trap_all. Qed.
Print Assumptions C12_repl_every_input_evaluated.

(* two sessions that differ only in WHICH inputs panic evaluate the same number of inputs *)
Theorem C12_repl_panics_do_not_shorten_session : forall ins ins', Forall2 same_but_panics ins ins' ->
  Forall (fun i => i_quit i = false) ins ->
  length (fst (session true ins)) = length (fst (session true ins')).
Proof. exact session_trap_length. Qed.
Print Assumptions C12_repl_panics_do_not_shorten_session.

(* non-vacuity: a session whose 2nd input panics inside a command and whose 3rd panics in plain code *)
Example C12_repl_example :
  let ok := mkInput false false false true false true in
  let cmdp := mkInput false true false false false false in
  let evp := mkInput false false false true true false in
  session true [ok; cmdp; evp; ok] = ([ok; cmdp; evp; ok], false) /\ logged true [ok; cmdp; evp; ok] = [0; 3]
  /\ session false [ok; cmdp; evp; ok] = ([ok; cmdp], true).
Proof. repeat split. Qed.

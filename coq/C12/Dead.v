(* C12 -- Run.Interrupt is dead: bisimulation between two executions that differ only in Run.Interrupt (and in the
   interrupt captured by defer restore / saveInterrupt) *)
From Coq Require Import List Arith Bool ZArith Lia.
From Verif Require Import C13.Model.
Import ListNotations.

(* ---------- Run.Interrupt is dead: it never influences anything but itself ---------- *)
Definition er (g : glob) : glob := upd_run (set_intr false) g.
Definition geq (g g' : glob) : Prop := er g = er g'.
Definition erf (fs : fstate) : fstate :=
  mkFs (fs_fn fs) (fs_env fs) (fs_ip fs) (fs_i fs) (fs_ph fs) (fs_flags fs) (fs_defers fs) (fs_sv_isdefer fs) false (fs_sv_curr fs).
Definition feq (fs fs' : fstate) : Prop := erf fs = erf fs'.
Definition teq (t t' : task) : Prop :=
  match t, t' with
  | TCallF f i, TCallF f' i' => f = f' /\ i = i'
  | TEnter f e i, TEnter f' e' i' => f = f' /\ e = e' /\ i = i'
  | TLoop fs, TLoop fs' => feq fs fs'
  | TDefers fs ds pk pk2 gp, TDefers fs' ds' pk' pk2' gp' => feq fs fs' /\ ds = ds' /\ pk = pk' /\ pk2 = pk2' /\ gp = gp'
  | _, _ => False
  end.
Definition oeq (a b : outcome * glob) : Prop := fst a = fst b /\ geq (snd a) (snd b).

Ltac crush_g :=
  repeat match goal with
  | g : glob |- _ => destruct g
  | r : run |- _ => destruct r
  | fs : fstate |- _ => destruct fs
  end; unfold geq, feq, er, erf, upd_run in *; simpl in *;
  repeat match goal with H : mkGlob _ _ _ _ _ _ _ _ _ _ _ _ = mkGlob _ _ _ _ _ _ _ _ _ _ _ _ |- _ => inversion H; clear H; subst
                       | H : mkFs _ _ _ _ _ _ _ _ _ _ = mkFs _ _ _ _ _ _ _ _ _ _ |- _ => inversion H; clear H; subst end.

Lemma geq_refl g : geq g g. Proof. reflexivity. Qed.
Lemma geq_trans a b c : geq a b -> geq b c -> geq a c. Proof. unfold geq; congruence. Qed.

Lemma geq_hook g g' : geq g g' ->
  fst (hook_call g) = fst (hook_call g') /\ geq (snd (hook_call g)) (snd (hook_call g')).
Proof.
  intros H. crush_g. unfold hook_call; simpl.
  repeat (match goal with |- context [match ?x with _ => _ end] => destruct x end; simpl); auto.
Qed.

Inductive sreq : sres -> sres -> Prop :=
| sq_cont k fs1 fs1' ip i g g' : feq fs1 fs1' -> geq g g' -> sreq (RCont k fs1 ip i g) (RCont k fs1' ip i g')
| sq_panic v g g' : geq g g' -> sreq (RPanic v g) (RPanic v g')
| sq_call f i : sreq (RCall f i) (RCall f i)
| sq_leave g g' : geq g g' -> sreq (RLeave g) (RLeave g')
| sq_stuck : sreq RStuck RStuck.

Lemma geq_exec_instr fs fs' ins g g' : feq fs fs' -> geq g g' -> sreq (exec_instr fs ins g) (exec_instr fs' ins g').
Proof.
  intros F H. unfold exec_instr.
  assert (IP : fs_ip fs = fs_ip fs' /\ fs_i fs = fs_i fs' /\ fs_flags fs = fs_flags fs').
  { unfold feq, erf in F. inversion F; auto. }
  destruct IP as (E1 & E2 & E3). rewrite <- E1, <- E2, <- E3.
  destruct ins as [ins|]; [|constructor; crush_g; reflexivity].
  destruct ins; try (constructor; auto; crush_g; reflexivity).
  - destruct (geq_hook _ _ H) as [A B]. destruct (hook_call g) as [[v|] g1], (hook_call g') as [[v'|] g1']; simpl in *; try discriminate.
    + inversion A; subst. constructor; auto.
    + constructor; auto.
  - destruct (fs_flags fs); [|constructor]. constructor; [|crush_g; reflexivity].
    unfold feq, erf, fs_push in *. simpl. inversion F. congruence.
  - assert (CR : fst (call_recover (rn g)) = fst (call_recover (rn g')) /\
                 set_intr false (snd (call_recover (rn g))) = set_intr false (snd (call_recover (rn g')))).
    { crush_g. unfold call_recover; simpl.
      repeat (match goal with |- context [match ?x with _ => _ end] => destruct x end; simpl); auto. }
    destruct CR as [C1 C2]. destruct (call_recover (rn g)) as [b r], (call_recover (rn g')) as [b' r']. simpl in *. subst b'.
    constructor; auto. destruct b; crush_g; simpl in *; unfold set_intr in C2; simpl in C2; inversion C2; subst; reflexivity.
Qed.

Inductive creq : cres -> cres -> Prop :=
| cq_go fs fs' g g' : feq fs fs' -> geq g g' -> creq (CGo fs g) (CGo fs' g')
| cq_if fs fs' g g' : feq fs fs' -> geq g g' -> creq (CIntrFlags fs g) (CIntrFlags fs' g')
| cq_ip g g' : geq g g' -> creq (CIntrPlain g) (CIntrPlain g').

Lemma geq_async g g' : geq g g' -> async (rn g) = async (rn g').
Proof. intros H. crush_g. reflexivity. Qed.

Lemma geq_after_stmt a0 fs fs' k fs1 fs1' ip i g g' : feq fs fs' -> feq fs1 fs1' -> geq g g' ->
  creq (after_stmt a0 fs k fs1 ip i g) (after_stmt a0 fs' k fs1' ip i g').
Proof.
  intros F F1 H. unfold after_stmt.
  assert (E : fs_ph fs1 = fs_ph fs1' /\ fs_flags fs = fs_flags fs' /\ fs_ph fs = fs_ph fs').
  { unfold feq, erf in *. inversion F; inversion F1; auto. }
  destruct E as (E1 & E2 & E3). rewrite <- E1, <- E2, <- E3.
  destruct (advance (fs_ph fs1) k) as [ph poll].
  assert (A : async (rn (if a0 then bump_after (sk_is_defer k) g else g)) = async (rn (if a0 then bump_after (sk_is_defer k) g' else g'))).
  { destruct a0; simpl; apply (geq_async _ _ H). }
  rewrite <- A.
  destruct (poll && async (rn (if a0 then bump_after (sk_is_defer k) g else g))).
  - destruct (fs_flags fs).
    + destruct (intr_of (fs_ph fs)); constructor; auto; destruct a0; crush_g; reflexivity.
    + constructor. destruct a0; crush_g; reflexivity.
  - constructor.
    + unfold feq, erf, fs_step in *. simpl. inversion F1. congruence.
    + destruct a0; crush_g; reflexivity.
Qed.

Lemma geq_leave_plain fs fs' g g' : feq fs fs' -> geq g g' -> oeq (leave_plain fs g) (leave_plain fs' g').
Proof.
  intros F H. unfold leave_plain. simpl. rewrite <- (geq_async _ _ H).
  destruct (async (rn g)); split; simpl; auto; crush_g; reflexivity.
Qed.

Lemma geq_count_ret a0 ins g g' : geq g g' -> geq (count_ret a0 ins g) (count_ret a0 ins g').
Proof. intros H. unfold count_ret. destruct ins as [[]|]; auto. destruct a0; auto. crush_g. reflexivity. Qed.

Lemma geq_do_restore fx fs fs' gp g g' : feq fs fs' -> geq g g' -> oeq (do_restore fx fs gp g) (do_restore fx fs' gp g').
Proof.
  intros F H. unfold do_restore.
  assert (E : geq (upd_run (restore_run fx fs) g) (upd_run (restore_run fx fs') g')).
  { assert (EE : fs_sv_isdefer fs = fs_sv_isdefer fs' /\ fs_sv_curr fs = fs_sv_curr fs' /\ fs_env fs = fs_env fs') by (unfold feq, erf in F; inversion F; auto).
    destruct EE as (A & B & C). crush_g. unfold restore_run; simpl.
    repeat (match goal with |- context [match ?x with _ => _ end] => destruct x end; simpl); reflexivity. }
  rewrite <- (geq_async _ _ E).
  destruct (async (rn (upd_run (restore_run fx fs) g))).
  - split; simpl; auto. revert E. generalize (upd_run (restore_run fx fs) g) (upd_run (restore_run fx fs') g'). intros a b E. crush_g. reflexivity.
  - destruct gp; split; simpl; auto.
Qed.

Lemma geq_rundefer_pre fs fs' pk pk2 gp g g' : feq fs fs' -> geq g g' ->
  fst (rundefer_pre fs pk pk2 gp g) = fst (rundefer_pre fs' pk pk2 gp g') /\
  geq (snd (rundefer_pre fs pk pk2 gp g)) (snd (rundefer_pre fs' pk pk2 gp g')).
Proof.
  intros F H. assert (E : fs_env fs = fs_env fs') by (unfold feq, erf in F; inversion F; auto).
  unfold rundefer_pre. rewrite <- E. split; [reflexivity|]. simpl.
  destruct (pk || pk2); simpl; [|destruct pk]; crush_g; reflexivity.
Qed.

Lemma geq_enter c f env i0 g g' : geq g g' ->
  match enter_frame c f env i0 g, enter_frame c f env i0 g' with
  | inl a, inl b => oeq a b
  | inr (fs, h), inr (fs', h') => feq fs fs' /\ geq h h'
  | _, _ => False
  end.
Proof.
  intros H. unfold enter_frame. simpl.
  assert (A : async (rn g) = async (rn g')) by apply (geq_async _ _ H).
  assert (B : with_defers c || ef_start (rn g) || ef_defer (rn g) || ef_debug (rn g) = with_defers c || ef_start (rn g') || ef_defer (rn g') || ef_debug (rn g')) by (crush_g; reflexivity).
  rewrite <- A, <- B.
  destruct (async (rn g)).
  - split; simpl; auto. crush_g. reflexivity.
  - destruct (with_defers c || ef_start (rn g) || ef_defer (rn g) || ef_debug (rn g)); split; crush_g; reflexivity.
Qed.

Lemma feq_fields fs fs' : feq fs fs' -> fs_flags fs = fs_flags fs' /\ fs_defers fs = fs_defers fs' /\ fs_fn fs = fs_fn fs' /\ fs_ip fs = fs_ip fs' /\ fs_i fs = fs_i fs'.
Proof. unfold feq, erf. intros F. inversion F. auto. Qed.

Lemma go_dead : forall fuel P fx t t' g g', teq t t' -> geq g g' ->
  oeq (go fuel P fx t g) (go fuel P fx t' g').
Proof.
  induction fuel as [|fuel IH]; intros P fx t t' g g' T H; [split; simpl; auto|].
  destruct t as [f i0|f env i0|fs|fs ds pk pk2 gp], t' as [f' i0'|f' env' i0'|fs'|fs' ds2 pk' pk2' gp']; simpl in T; try contradiction.
  - (* TCallF *)
    destruct T as [<- <-]. cbn [go].
    destruct (nth_error P f) as [[|x c]|]; [split; simpl; auto| |split; simpl; auto].
    assert (NE : next_env g = next_env g' /\ curr (rn g) = curr (rn g')) by (crush_g; auto).
    destruct NE as [<- <-].
    assert (H1 : geq (upd_run (set_curr (Some (next_env g))) (bump_env g)) (upd_run (set_curr (Some (next_env g))) (bump_env g'))) by (crush_g; reflexivity).
    pose proof (IH P fx (TEnter f (next_env g) i0) (TEnter f (next_env g) i0) _ _ (conj eq_refl (conj eq_refl eq_refl)) H1) as [O G].
    destruct (go fuel P fx (TEnter f (next_env g) i0) (upd_run (set_curr (Some (next_env g))) (bump_env g))) as [o1 g2].
    destruct (go fuel P fx (TEnter f (next_env g) i0) (upd_run (set_curr (Some (next_env g))) (bump_env g'))) as [o1' g2'].
    simpl in O, G. subst o1'. destruct o1; split; simpl; auto. revert G. generalize (curr (rn g)). intros cc G. crush_g. reflexivity.
  - (* TEnter *)
    destruct T as (<- & <- & <-). cbn [go].
    pose proof (geq_enter (nth f P []) f env i0 g g' H) as EQ.
    destruct (enter_frame (nth f P []) f env i0 g) as [a|[fs1 h]], (enter_frame (nth f P []) f env i0 g') as [b|[fs1' h']]; try contradiction.
    + exact EQ.
    + destruct EQ as [F1 H1]. apply IH; auto.
  - (* TLoop *)
    cbn [go]. destruct (feq_fields _ _ T) as (FL & DF & FN & IP & II).
    rewrite <- FN, <- IP, <- FL, <- DF, <- II, <- (geq_async _ _ H).
    set (ins := nth_error (nth (fs_fn fs) P []) (fs_ip fs)).
    assert (CONT : forall c c', creq c c' ->
              oeq (match c with
                   | CGo fs1 g1 => go fuel P fx (TLoop fs1) g1
                   | CIntrFlags fs2 g1 => go fuel P fx (TDefers fs2 (fs_defers fs2) true false (Some PV_INTERRUPT)) g1
                   | CIntrPlain g1 => (OPanic PV_INTERRUPT, g1)
                   end)
                  (match c' with
                   | CGo fs1 g1 => go fuel P fx (TLoop fs1) g1
                   | CIntrFlags fs2 g1 => go fuel P fx (TDefers fs2 (fs_defers fs2) true false (Some PV_INTERRUPT)) g1
                   | CIntrPlain g1 => (OPanic PV_INTERRUPT, g1)
                   end)).
    { intros c c' CQ. destruct CQ as [a b x y F G|a b x y F G|x y G].
      - apply IH; auto.
      - destruct (feq_fields _ _ F) as (_ & D2 & _). rewrite <- D2. apply IH; simpl; auto.
      - split; simpl; auto. }
    assert (PANIC : forall v x y, geq x y ->
              oeq (if fs_flags fs then go fuel P fx (TDefers fs (fs_defers fs) true false (Some v)) x else (OPanic v, x))
                  (if fs_flags fs then go fuel P fx (TDefers fs' (fs_defers fs) true false (Some v)) y else (OPanic v, y))).
    { intros v x y G. destruct (fs_flags fs); [apply IH; simpl; auto|split; simpl; auto]. }
    pose proof (geq_exec_instr fs fs' ins g g' T H) as SQ.
    destruct SQ as [k a b ip i x y F G|v x y G|f i|x y G|].
    + apply CONT. apply geq_after_stmt; auto.
    + apply PANIC; auto.
    + pose proof (IH P fx (TCallF f i) (TCallF f i) g g' (conj eq_refl eq_refl) H) as [O G].
      destruct (go fuel P fx (TCallF f i) g) as [o1 g1], (go fuel P fx (TCallF f i) g') as [o1' g1']. simpl in O, G. subst o1'.
      destruct o1.
      * apply CONT. apply geq_after_stmt; auto.
      * apply PANIC; auto.
      * split; simpl; auto.
    + pose proof (geq_count_ret (async (rn g)) ins x y G) as GC.
      destruct (fs_flags fs).
      * rewrite <- (geq_async _ _ GC). destruct (async (rn (count_ret (async (rn g)) ins x))).
        -- apply IH; simpl; auto. revert GC. generalize (count_ret (async (rn g)) ins x) (count_ret (async (rn g)) ins y). intros a b GC. crush_g. reflexivity.
        -- apply IH; simpl; auto.
      * apply geq_leave_plain; auto.
    + split; simpl; auto.
  - (* TDefers *)
    destruct T as (F & <- & <- & <- & <-). cbn [go].
    destruct ds as [|d ds'].
    + apply geq_do_restore; auto.
    + assert (SV : defer_of (rn g) = defer_of (rn g') /\ ef_defer (rn g) = ef_defer (rn g') /\
                   panicv (rn g) = panicv (rn g') /\ panic_fun (rn g) = panic_fun (rn g')) by (crush_g; auto).
      destruct SV as (<- & <- & <- & <-).
      destruct (geq_rundefer_pre fs fs' pk pk2 gp g g' F H) as [PK G2].
      destruct (rundefer_pre fs pk pk2 gp g) as [pk1 g2], (rundefer_pre fs' pk pk2 gp g') as [pk1' g2']. simpl in PK, G2. subst pk1'.
      assert (FUN : oeq (match d with
                         | DIHook => match hook_call g2 with (Some v, h) => (OPanic v, h) | (None, h) => (ONormal, h) end
                         | DIFun f i0 => go fuel P fx (TCallF f i0) g2
                         end)
                        (match d with
                         | DIHook => match hook_call g2' with (Some v, h) => (OPanic v, h) | (None, h) => (ONormal, h) end
                         | DIFun f i0 => go fuel P fx (TCallF f i0) g2'
                         end)).
      { destruct d as [|f i0]; [|apply IH; simpl; auto].
        destruct (geq_hook _ _ G2) as [A B]. destruct (hook_call g2) as [[v|] h], (hook_call g2') as [[v'|] h']; simpl in *; try discriminate.
        - inversion A; subst. split; simpl; auto.
        - split; simpl; auto. }
      destruct FUN as [O3 G3].
      match goal with |- oeq (let '(_, _) := ?X in _) (let '(_, _) := ?Y in _) => destruct X as [o3 g3], Y as [o3' g3'] end.
      simpl in O3, G3. subst o3'.
      assert (PFE : panic_fun (rn g3) = panic_fun (rn g3') /\ panicv (rn g3) = panicv (rn g3')) by (clear - G3; crush_g; auto).
      destruct PFE as [<- <-].
      assert (G4 : geq (upd_run (fun r => let r1 := pop_defer (defer_of (rn g)) (ef_defer (rn g)) r in
                                          if fx then set_panicv (panicv (rn g)) (set_panic_fun (panic_fun (rn g)) r1) else r1) g3)
                       (upd_run (fun r => let r1 := pop_defer (defer_of (rn g)) (ef_defer (rn g)) r in
                                          if fx then set_panicv (panicv (rn g)) (set_panic_fun (panic_fun (rn g)) r1) else r1) g3')).
      { revert G3. generalize (defer_of (rn g)) (ef_defer (rn g)) (panicv (rn g)) (panic_fun (rn g)). clear. intros a b c d G3.
        destruct fx; crush_g; reflexivity. }
      destruct o3.
      * destruct pk1; [destruct (panic_fun (rn g3))|]; apply IH; simpl; auto.
      * apply IH; simpl; auto.
      * split; simpl; auto.
Qed.

(* two interpreters that differ only in the stale Run.Interrupt give the same outcome, hook calls, counters, global x
   and the same Run record (up to Run.Interrupt again) for every evaluation *)
Lemma eval_dead : forall fuel P fx fm g g', geq g g' -> oeq (eval fuel P fx fm g) (eval fuel P fx fm g').
Proof.
  intros fuel P fx fm g g' H. unfold eval.
  assert (C : curr (rn g) = curr (rn g')) by (crush_g; auto).
  set (h := upd_run (set_curr (Some 0)) (upd_run (fun r => set_dbgsig false (set_ef_debug false (set_debug_depth 0 (set_async false (set_sync SNone r))))) g)).
  set (h' := upd_run (set_curr (Some 0)) (upd_run (fun r => set_dbgsig false (set_ef_debug false (set_debug_depth 0 (set_async false (set_sync SNone r))))) g')).
  assert (HH : geq h h') by (unfold h, h'; clear - H; crush_g; reflexivity).
  simpl. rewrite <- C.
  assert (X : oeq (match fm with
                   | FCall f i0 => go fuel P fx (TCallF f i0) h
                   | FDirect f => match nth f P [] with [] => (ONormal, h) | _ => go fuel P fx (TEnter f 0 0) h end
                   end)
                  (match fm with
                   | FCall f i0 => go fuel P fx (TCallF f i0) h'
                   | FDirect f => match nth f P [] with [] => (ONormal, h') | _ => go fuel P fx (TEnter f 0 0) h' end
                   end)).
  { destruct fm as [f i0|f]; [apply go_dead; simpl; auto|]. destruct (nth f P []); [split; simpl; auto|apply go_dead; simpl; auto]. }
  fold h h'. destruct X as [O G].
  match goal with |- oeq (let '(_, _) := ?X in _) (let '(_, _) := ?Y in _) => destruct X as [o3 g3], Y as [o3' g3'] end.
  simpl in O, G. subst o3'. split; simpl; auto. revert G. generalize (curr (rn g)). clear. intros c G. crush_g. reflexivity.
Qed.

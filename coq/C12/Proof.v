(* C12 -- lemmas: the executor of C13/Model.v restores the Run record on every path out of an evaluation *)
From Coq Require Import List Arith Bool ZArith Lia.
From Verif Require Import C13.Model C12.Model.
Import ListNotations.

Definition PF (pf pf' : option nat) : Prop := pf' = None \/ pf' = pf.
Lemma PF_refl pf : PF pf pf. Proof. right; reflexivity. Qed.
Lemma PF_trans a b c : PF a b -> PF b c -> PF a c.
Proof. unfold PF; intros [H|H] [K|K]; subst; auto. Qed.
Lemma PF_none a : PF a None. Proof. left; reflexivity. Qed.

Definition calm (r : run) : Prop := async r = false /\ dbgsig r = false /\ ef_debug r = false.

(* what every piece of the executor preserves as long as no interrupt is delivered *)
Definition R (r r' : run) : Prop :=
  calm r' /\ debug_depth r' = debug_depth r /\ defer_of r' = defer_of r /\
  (ef_start r = false -> ef_start r' = false) /\ PF (panic_fun r) (panic_fun r').

Definition G (g g' : glob) : Prop := R (rn g) (rn g') /\ flt g' = flt g.

Lemma R_refl r : calm r -> R r r.
Proof. intros C. repeat split; try apply C; auto using PF_refl. Qed.
Lemma R_trans a b c : R a b -> R b c -> R a c.
Proof.
  intros (C1 & D1 & F1 & S1 & P1) (C2 & D2 & F2 & S2 & P2). repeat split; try apply C2; try congruence; auto.
  eapply PF_trans; eauto.
Qed.
Lemma G_refl g : calm (rn g) -> G g g.
Proof. intros; split; auto using R_refl. Qed.
Lemma G_trans a b c : G a b -> G b c -> G a c.
Proof. intros [R1 F1] [R2 F2]; split; [eapply R_trans; eauto|congruence]. Qed.

Lemma hook_call_run g ov g1 : hook_call g = (ov, g1) -> flt g <> FInterrupt -> rn g1 = rn g /\ flt g1 = flt g.
Proof.
  unfold hook_call. intros H NI.
  destruct (S (hooks g) =? kk g); [destruct (flt g) eqn:F|]; inversion H; subst; simpl; auto; congruence.
Qed.

Lemma call_recover_R r b r' : call_recover r = (b, r') -> calm r ->
  R r r' /\ sync r' = sync r /\ ef_defer r' = ef_defer r.
Proof.
  unfold call_recover. intros H C.
  destruct (negb (ef_defer r)); [inversion H; subst; auto using R_refl|].
  destruct (panic_fun r) eqn:PFr; [|inversion H; subst; auto using R_refl].
  destruct (defer_of r); [|inversion H; subst; auto using R_refl].
  destruct (n0 =? n); inversion H; subst; auto using R_refl.
  destruct C as (A & B & D). repeat split; simpl; auto using PF_none.
Qed.

(* same frame: flags, identity and the values captured by `defer restore` do not change *)
Definition same_frame (fs fs' : fstate) : Prop :=
  fs_flags fs' = fs_flags fs /\ fs_env fs' = fs_env fs /\ fs_sv_isdefer fs' = fs_sv_isdefer fs /\ fs_fn fs' = fs_fn fs.
Lemma same_frame_refl fs : same_frame fs fs. Proof. repeat split. Qed.
Lemma same_frame_trans a b c : same_frame a b -> same_frame b c -> same_frame a c.
Proof. unfold same_frame; intuition congruence. Qed.

Lemma exec_instr_cont fs ins g k fs1 ip i g1 : exec_instr fs ins g = RCont k fs1 ip i g1 ->
  calm (rn g) -> flt g <> FInterrupt ->
  G g g1 /\ same_frame fs fs1 /\ ef_defer (rn g1) = ef_defer (rn g).
Proof.
  intros H C NI. unfold exec_instr in H.
  destruct ins as [ins|]; [|discriminate].
  destruct ins; try discriminate;
    try (inversion H; subst; split; [apply G_refl; assumption|split; [apply same_frame_refl|reflexivity]]).
  - destruct (hook_call g) as [[v|] g2] eqn:HC; [discriminate|]. inversion H; subst.
    destruct (hook_call_run _ _ _ HC NI) as [E F]. split; [split; [rewrite E; apply R_refl; assumption|assumption]|].
    split; [apply same_frame_refl|rewrite E; reflexivity].
  - inversion H; subst. split; [split; [simpl; apply R_refl; assumption|reflexivity]|]. split; [apply same_frame_refl|reflexivity].
  - destruct (fs_flags fs); [|discriminate]. inversion H; subst.
    split; [split; [|reflexivity]|split; [repeat split|reflexivity]].
    destruct C as (A & B & D). repeat split; simpl; auto using PF_refl.
  - destruct (call_recover (rn g)) as [b r] eqn:CR. inversion H; subst.
    destruct (call_recover_R _ _ _ CR C) as (RR & S & E).
    split; [split; [destruct b; simpl; exact RR|destruct b; reflexivity]|].
    split; [apply same_frame_refl|destruct b; simpl; exact E].
Qed.

Lemma exec_instr_panic fs ins g v g1 : exec_instr fs ins g = RPanic v g1 ->
  calm (rn g) -> flt g <> FInterrupt -> rn g1 = rn g /\ flt g1 = flt g.
Proof.
  intros H C NI. unfold exec_instr in H.
  destruct ins as [ins|]; [|discriminate].
  destruct ins; try discriminate.
  - destruct (hook_call g) as [[w|] g2] eqn:HC; [|discriminate]. inversion H; subst.
    apply (hook_call_run _ _ _ HC NI).
  - destruct (fs_flags fs); discriminate.
  - destruct (call_recover (rn g)); discriminate.
  - inversion H; subst; auto.
Qed.

Lemma exec_instr_leave fs ins g g1 : exec_instr fs ins g = RLeave g1 -> g1 = upd_run (set_sync SReturn) g.
Proof.
  unfold exec_instr. destruct ins as [ins|]; [|intros H; inversion H; reflexivity].
  destruct ins; try discriminate; try (intros H; inversion H; reflexivity).
  - destruct (hook_call g) as [[w|] g2]; discriminate.
  - destruct (fs_flags fs); discriminate.
  - destruct (call_recover (rn g)); discriminate.
Qed.

Lemma after_stmt_calm a0 fs k fs1 ip i g : async (rn g) = false -> same_frame fs fs1 ->
  exists fs' g', after_stmt a0 fs k fs1 ip i g = CGo fs' g' /\ same_frame fs fs' /\ sync (rn g') = SNone /\
    (calm (rn g) -> G g g') /\ ef_defer (rn g') = ef_defer (rn g).
Proof.
  intros A SF. unfold after_stmt.
  destruct (advance (fs_ph fs1) k) as [ph poll].
  assert (A' : async (rn (if a0 then bump_after (sk_is_defer k) g else g)) = false) by (destruct a0; simpl; exact A).
  rewrite A'. rewrite andb_false_r.
  eexists _, _. split; [reflexivity|]. split; [exact SF|]. split; [reflexivity|]. split.
  - intros (C1 & C2 & C3). split; [|destruct a0; reflexivity].
    destruct a0; simpl; repeat split; auto using PF_refl.
  - destruct a0; reflexivity.
Qed.

Lemma enter_frame_calm c f env i0 g : calm (rn g) ->
  exists fs g1, enter_frame c f env i0 g = inr (fs, g1) /\ G g g1 /\ sync (rn g1) = SNone /\ fs_env fs = env /\
    fs_sv_isdefer fs = ef_defer (rn g) /\ fs_defers fs = [] /\
    (fs_flags fs = false -> ef_defer (rn g1) = ef_defer (rn g)).
Proof.
  intros (A & B & D). unfold enter_frame. simpl. rewrite A.
  destruct (with_defers c || ef_start (rn g) || ef_defer (rn g) || ef_debug (rn g)) eqn:F.
  - eexists _, _. split; [reflexivity|]. split; [|simpl; repeat split; auto; discriminate].
    split; [|reflexivity]. repeat split; simpl; auto using PF_refl.
  - eexists _, _. split; [reflexivity|]. split; [|simpl; repeat split; auto].
    split; [|reflexivity]. repeat split; simpl; auto using PF_refl.
Qed.

(* the state of Run.PanicFun after reExecWithFlags of frame env has been left (with the fix) *)
Definition Q (env : nat) (pf pf' : option nat) : Prop := pf' = None \/ (pf' = pf /\ pf' <> Some env).
Lemma Q_PF env a b : Q env a b -> PF a b. Proof. unfold Q, PF; intuition. Qed.

Lemma do_restore_calm fs gp g o g' : do_restore true fs gp g = (o, g') -> calm (rn g) ->
  calm (rn g') /\ debug_depth (rn g') = debug_depth (rn g) /\ defer_of (rn g') = defer_of (rn g) /\
  ef_start (rn g') = ef_start (rn g) /\ Q (fs_env fs) (panic_fun (rn g)) (panic_fun (rn g')) /\
  flt g' = flt g /\ ef_defer (rn g') = fs_sv_isdefer fs /\ sync (rn g') = SNone /\
  o = match gp with Some v => OPanic v | None => ONormal end.
Proof.
  intros H (A & B & D). unfold do_restore in H.
  assert (E : async (rn (upd_run (restore_run true fs) g)) = false).
  { unfold restore_run. simpl. destruct (panic_fun (rn g)) as [pf|]; simpl; [destruct (pf =? fs_env fs); simpl|]; exact A. }
  rewrite E in H.
  assert (X : calm (rn (upd_run (restore_run true fs) g)) /\
              debug_depth (rn (upd_run (restore_run true fs) g)) = debug_depth (rn g) /\
              defer_of (rn (upd_run (restore_run true fs) g)) = defer_of (rn g) /\
              ef_start (rn (upd_run (restore_run true fs) g)) = ef_start (rn g) /\
              Q (fs_env fs) (panic_fun (rn g)) (panic_fun (rn (upd_run (restore_run true fs) g))) /\
              flt (upd_run (restore_run true fs) g) = flt g /\
              ef_defer (rn (upd_run (restore_run true fs) g)) = fs_sv_isdefer fs /\
              sync (rn (upd_run (restore_run true fs) g)) = SNone).
  { unfold restore_run, calm, Q. simpl. destruct (panic_fun (rn g)) as [pf|] eqn:PFg; simpl.
    - destruct (Nat.eqb_spec pf (fs_env fs)); simpl; repeat split; auto.
      right. split; [assumption|]. congruence.
    - repeat split; auto. }
  destruct gp; inversion H; subst; intuition.
Qed.

(* the same without the clause on PanicFun (which rundefer changes on purpose) *)
Definition R0 (r r' : run) : Prop :=
  calm r' /\ debug_depth r' = debug_depth r /\ defer_of r' = defer_of r /\ (ef_start r = false -> ef_start r' = false).
Definition G0 (g g' : glob) : Prop := R0 (rn g) (rn g') /\ flt g' = flt g.
Lemma G_G0 g g' : G g g' -> G0 g g'.
Proof. intros [(C & D & F & S & _) FL]. repeat split; try apply C; auto. Qed.
Lemma G0_G g g' : G0 g g' -> PF (panic_fun (rn g)) (panic_fun (rn g')) -> G g g'.
Proof. intros [(C & D & F & S) FL] P. repeat split; try apply C; auto. Qed.

Definition task_rel (t : task) (g g' : glob) : Prop :=
  match t with TDefers _ _ _ _ _ => G0 g g' | _ => G g g' end.

Definition task_post (t : task) (g g' : glob) : Prop :=
  match t with
  | TCallF _ _ => ef_defer (rn g') = ef_defer (rn g) /\ (sync (rn g') = SNone \/ sync (rn g') = sync (rn g))
  | TEnter _ _ _ => ef_defer (rn g') = ef_defer (rn g) /\ sync (rn g') = SNone
  | TLoop fs => (if fs_flags fs then ef_defer (rn g') = fs_sv_isdefer fs else ef_defer (rn g') = ef_defer (rn g)) /\
                (sync (rn g) = SNone -> sync (rn g') = SNone) /\
                (fs_flags fs = true -> sync (rn g') = SNone)
  | TDefers fs _ _ _ _ => ef_defer (rn g') = fs_sv_isdefer fs /\ sync (rn g') = SNone /\
                          Q (fs_env fs) (panic_fun (rn g)) (panic_fun (rn g'))
  end.

Lemma rundefer_pre_calm fs pk pk2 gp g pk1 g2 : rundefer_pre fs pk pk2 gp g = (pk1, g2) -> calm (rn g) ->
  calm (rn g2) /\ flt g2 = flt g /\ debug_depth (rn g2) = debug_depth (rn g) /\ defer_of (rn g2) = Some (fs_env fs) /\
  panic_fun (rn g2) = (if pk1 then Some (fs_env fs) else panic_fun (rn g)) /\ ef_defer (rn g2) = ef_defer (rn g).
Proof.
  unfold rundefer_pre. intros H (A & B & D). inversion H; subst; clear H.
  destruct pk, pk2; simpl; repeat split; auto.
Qed.

Lemma go_inv : forall fuel P t g o g', go fuel P true t g = (o, g') -> o <> OFuel ->
  calm (rn g) -> flt g <> FInterrupt -> task_rel t g g' /\ task_post t g g'.
Proof.
  induction fuel as [|fuel IH]; intros P t g o g' H NF C NI; [simpl in H; inversion H; subst; congruence|].
  destruct t as [f i0|f env i0|fs|fs ds pk pk2 gp]; [simpl in H|simpl in H|simpl in H|cbn [go] in H].
  - (* TCallF *)
    destruct (nth_error P f) as [[|x c]|] eqn:NE;
      try (inversion H; subst; split; [apply G_refl; assumption|simpl; auto]).
    destruct (go fuel P true (TEnter f (next_env g) i0) (upd_run (set_curr (Some (next_env g))) (bump_env g))) as [o1 g2] eqn:E.
    assert (NF1 : o1 <> OFuel) by (destruct o1; inversion H; subst; congruence).
    destruct (IH _ _ _ _ _ E NF1) as [[RR FF] [ED SY]]; [exact C|exact NI|].
    simpl in *.
    destruct o1; inversion H; subst; simpl; (split; [split; [|assumption]|split; [assumption|left; assumption]]).
    + destruct RR as (C1 & D1 & F1 & S1 & P1). repeat split; try apply C1; auto.
    + exact RR.
    + congruence.
  - (* TEnter *)
    destruct (enter_frame_calm (nth f P []) f env i0 g C) as (fs & g1 & EF & GG & SY & EN & SV & DF & PL).
    rewrite EF in H.
    assert (C1 : calm (rn g1)) by apply GG.
    assert (NI1 : flt g1 <> FInterrupt) by (destruct GG as [_ F]; congruence).
    destruct (IH _ _ _ _ _ H NF C1 NI1) as [GG2 [ED [S1 S2]]].
    split; [eapply G_trans; eauto|]. simpl. split.
    + destruct (fs_flags fs) eqn:FL; [congruence|]. rewrite ED. apply PL. reflexivity.
    + apply S1. assumption.
  - (* TLoop *)
    set (ins := nth_error (nth (fs_fn fs) P []) (fs_ip fs)) in *.
    assert (CONT : forall c g1, G g g1 -> ef_defer (rn g1) = ef_defer (rn g) ->
              (exists fs' g2, c = CGo fs' g2 /\ same_frame fs fs' /\ sync (rn g2) = SNone /\ G g1 g2 /\ ef_defer (rn g2) = ef_defer (rn g1)) ->
              match c with
              | CGo fs' g' => go fuel P true (TLoop fs') g'
              | CIntrFlags fs2 g' => go fuel P true (TDefers fs2 (fs_defers fs2) true false (Some PV_INTERRUPT)) g'
              | CIntrPlain g' => (OPanic PV_INTERRUPT, g')
              end = (o, g') -> G g g' /\ task_post (TLoop fs) g g').
    { intros c g1 G1 E1 (fs' & g2 & -> & SF & SY & G2 & E2) HH.
      assert (C2 : calm (rn g2)) by apply G2.
      assert (NI2 : flt g2 <> FInterrupt) by (destruct G1 as [_ F1]; destruct G2 as [_ F2]; congruence).
      destruct (IH _ _ _ _ _ HH NF C2 NI2) as [G3 [ED [S1 S2]]].
      split; [eapply G_trans; [exact G1|eapply G_trans; eauto]|].
      destruct SF as (FL & EN & SV & FN). simpl. rewrite FL, SV in *. repeat split.
      - destruct (fs_flags fs); [assumption|congruence].
      - intros _. apply S1. assumption.
      - assumption. }
    assert (PANIC : forall v g1, G g g1 -> ef_defer (rn g1) = ef_defer (rn g) -> (sync (rn g) = SNone -> sync (rn g1) = SNone) ->
              (if fs_flags fs then go fuel P true (TDefers fs (fs_defers fs) true false (Some v)) g1 else (OPanic v, g1)) = (o, g') ->
              G g g' /\ task_post (TLoop fs) g g').
    { intros v g1 G1 E1 S1 HH. destruct (fs_flags fs) eqn:FL.
      - assert (C2 : calm (rn g1)) by apply G1.
        assert (NI2 : flt g1 <> FInterrupt) by (destruct G1 as [_ F1]; congruence).
        destruct (IH _ _ _ _ _ HH NF C2 NI2) as [G3 [ED [SY QQ]]].
        split; [eapply G_trans; [exact G1|apply G0_G; [exact G3|apply (Q_PF _ _ _ QQ)]]|]. simpl. rewrite FL. auto.
      - inversion HH; subst. split; [assumption|]. simpl. rewrite FL. repeat split; auto. discriminate. }
    destruct (exec_instr fs ins g) as [k fs1 ip i g1|v g1|f i0|g0|] eqn:EX.
    + destruct (exec_instr_cont _ _ _ _ _ _ _ _ EX C NI) as (G1 & SF & E1).
      apply (CONT (after_stmt (async (rn g)) fs k fs1 ip i g1) g1 G1 E1); [|exact H].
      destruct (after_stmt_calm (async (rn g)) fs k fs1 ip i g1 (proj1 (proj1 (proj1 G1))) SF) as (fs' & g2 & EQ & SF' & SY & GG & E2).
      exists fs', g2. split; [exact EQ|]. split; [exact SF'|]. split; [exact SY|]. split; [apply GG; apply G1|exact E2].
    + destruct (exec_instr_panic _ _ _ _ _ EX C NI) as [E F].
      apply (PANIC v g1); [split; [rewrite E; apply R_refl; assumption|assumption]|rewrite E; reflexivity|rewrite E; auto|exact H].
    + destruct (go fuel P true (TCallF f i0) g) as [o1 g1] eqn:E.
      assert (NF1 : o1 <> OFuel) by (destruct o1; inversion H; subst; congruence).
      destruct (IH _ _ _ _ _ E NF1 C NI) as [G1 [ED SY]].
      destruct o1; [| |congruence].
      * apply (CONT (after_stmt (async (rn g)) fs SkCont fs (S (fs_ip fs)) (fs_i fs) g1) g1 G1 ED); [|exact H].
        destruct (after_stmt_calm (async (rn g)) fs SkCont fs (S (fs_ip fs)) (fs_i fs) g1 (proj1 (proj1 (proj1 G1))) (same_frame_refl fs)) as (fs' & g2 & EQ & SF' & SY' & GG & E2).
        exists fs', g2. split; [exact EQ|]. split; [exact SF'|]. split; [exact SY'|]. split; [apply GG; apply G1|exact E2].
      * apply (PANIC v g1 G1 ED); [|exact H]. intros S0. destruct SY as [SY|SY]; congruence.
    + pose proof (exec_instr_leave _ _ _ _ EX) as ->.
      set (gl := count_ret (async (rn g)) ins (upd_run (set_sync SReturn) g)) in *.
      assert (E1 : rn gl = set_sync SReturn (rn g)).
      { unfold gl, count_ret. destruct ins as [[]|]; auto. destruct (async (rn g)); auto. }
      assert (F1 : flt gl = flt g).
      { unfold gl, count_ret. destruct ins as [[]|]; auto. destruct (async (rn g)); auto. }
      clearbody gl. destruct C as (A & B & D).
      assert (AL : async (rn gl) = false) by (rewrite E1; exact A).
      assert (C2 : calm (rn gl)) by (rewrite E1; repeat split; assumption).
      assert (NI2 : flt gl <> FInterrupt) by (rewrite F1; exact NI).
      assert (G1 : G g gl).
      { split; [rewrite E1; repeat split; simpl; auto using PF_refl|exact F1]. }
      destruct (fs_flags fs) eqn:FL.
      * rewrite AL in H.
        destruct (IH _ _ _ _ _ H NF C2 NI2) as [G3 [ED [SY QQ]]].
        split.
        -- simpl. eapply G_trans; [exact G1|apply G0_G; [exact G3|apply (Q_PF _ _ _ QQ)]].
        -- simpl. rewrite FL. auto.
      * unfold leave_plain in H. simpl in H. rewrite E1 in H. simpl in H. rewrite A in H.
        inversion H; subst. split.
        -- split; [simpl; rewrite E1; repeat split; simpl; auto using PF_refl|simpl; exact F1].
        -- simpl. rewrite FL. simpl. rewrite E1. simpl. repeat split; auto; try discriminate.
    + inversion H; subst. congruence.
  - (* TDefers *)
    destruct ds as [|d ds'].
    + destruct (do_restore_calm _ _ _ _ _ H C) as (C1 & D1 & F1 & S1 & Q1 & FL & ED & SY & _).
      split; [split; [repeat split; try apply C1; auto; congruence|exact FL]|].
      simpl. auto.
    + destruct (rundefer_pre fs pk pk2 gp g) as [pk1 g2] eqn:RP.
      destruct (rundefer_pre_calm _ _ _ _ _ _ _ RP C) as (C2 & F2 & D2 & DO2 & PF2 & ED2).
      assert (NI2 : flt g2 <> FInterrupt) by congruence.
      assert (FUN : forall o3 g3,
                match d with
                | DIHook => match hook_call g2 with (Some v, g'0) => (OPanic v, g'0) | (None, g'0) => (ONormal, g'0) end
                | DIFun f i0 => go fuel P true (TCallF f i0) g2
                end = (o3, g3) -> o3 <> OFuel -> G g2 g3).
      { intros o3 g3 HF NF3. destruct d as [|f i0].
        - destruct (hook_call g2) as [[v|] gh] eqn:HC; inversion HF; subst;
            destruct (hook_call_run _ _ _ HC NI2) as [E F]; (split; [rewrite E; apply R_refl; assumption|assumption]).
        - destruct (IH _ _ _ _ _ HF NF3 C2 NI2) as [G3 _]. exact G3. }
      destruct (match d with
                | DIHook => match hook_call g2 with (Some v, g'0) => (OPanic v, g'0) | (None, g'0) => (ONormal, g'0) end
                | DIFun f i0 => go fuel P true (TCallF f i0) g2
                end) as [o3 g3] eqn:EF.
      assert (NF3 : o3 <> OFuel) by (destruct o3; inversion H; subst; congruence).
      pose proof (FUN _ _ eq_refl NF3) as G3.
      set (g4 := upd_run _ g3) in *.
      destruct G3 as [(C3 & D3 & DO3 & S3 & P3) F3].
      assert (C4 : calm (rn g4)) by (unfold g4, pop_defer; simpl; exact C3).
      assert (NI4 : flt g4 <> FInterrupt) by (unfold g4; simpl; congruence).
      assert (G04 : G0 g g4).
      { unfold G0, R0, g4, pop_defer; simpl. repeat split; try apply C3; congruence. }
      (* deferred restorePanic: Run.PanicFun is again what it was when rundefer was entered *)
      assert (PF4 : panic_fun (rn g4) = panic_fun (rn g)) by reflexivity.
      (* every continuation is go fuel (TDefers fs ds' _ _ _) g4 *)
      assert (REST : forall pk' pk2' gp', go fuel P true (TDefers fs ds' pk' pk2' gp') g4 = (o, g') ->
                task_rel (TDefers fs (d :: ds') pk pk2 gp) g g' /\ task_post (TDefers fs (d :: ds') pk pk2 gp) g g').
      { intros pk' pk2' gp' HH. destruct (IH _ _ _ _ _ HH NF C4 NI4) as [G5 (ED5 & SY5 & Q5)].
        split.
        - destruct G04 as [(a1 & a2 & a3 & a4) a5]. destruct G5 as [(b1 & b2 & b3 & b4) b5].
          repeat split; try apply b1; try congruence; auto.
        - simpl. repeat split; auto; rewrite PF4 in Q5; exact Q5. }
      destruct o3; [| |congruence].
      * destruct pk1; [destruct (panic_fun (rn g3))|]; eapply REST; exact H.
      * eapply REST; exact H.
Qed.

(* ---------- the evaluation level ---------- *)
Definition idle (r : run) : Prop :=
  sync r = SNone /\ async r = false /\ dbgsig r = false /\ ef_debug r = false /\ debug_depth r = 0 /\
  ef_start r = false /\ panic_fun r = None.

(* the fields of the Run record that the code restores *)
Definition restored (r r' : run) : Prop :=
  ef_start r' = ef_start r /\ ef_defer r' = ef_defer r /\ ef_debug r' = ef_debug r /\ curr r' = curr r /\
  sync r' = sync r /\ dbgsig r' = dbgsig r /\ async r' = async r /\ defer_of r' = defer_of r /\
  panic_fun r' = panic_fun r /\ debug_depth r' = debug_depth r.

Lemma eval_restores : forall fuel P fm g o g', eval fuel P true fm g = (o, g') -> o <> OFuel ->
  flt g <> FInterrupt -> idle (rn g) -> restored (rn g) (rn g') /\ idle (rn g') /\ flt g' = flt g.
Proof.
  intros fuel P fm g o g' H NF NI (I1 & I2 & I3 & I4 & I5 & I6 & I7). unfold eval in H.
  set (g2 := upd_run (set_curr (Some 0)) (upd_run (fun r => set_dbgsig false (set_ef_debug false (set_debug_depth 0 (set_async false (set_sync SNone r))))) g)) in *.
  assert (C2 : calm (rn g2)) by (unfold g2, calm; simpl; auto).
  assert (NI2 : flt g2 <> FInterrupt) by exact NI.
  assert (KEY : forall (o3 : outcome) g3, G g2 g3 -> ef_defer (rn g3) = ef_defer (rn g2) -> sync (rn g3) = SNone ->
            restored (rn g) (rn (upd_run (set_curr (curr (rn g))) g3)) /\ idle (rn (upd_run (set_curr (curr (rn g))) g3)) /\ flt g3 = flt g).
  { intros o3 g3 [((A & B & D) & DD & DO & ST & PP) FL] ED SY. unfold g2 in *. simpl in *.
    assert (PN : panic_fun (rn g3) = None) by (destruct PP as [PP|PP]; congruence).
    assert (ES : ef_start (rn g3) = false) by auto.
    unfold restored, idle. simpl. repeat split; congruence. }
  destruct fm as [f i0|f].
  - destruct (go fuel P true (TCallF f i0) g2) as [o3 g3] eqn:E. inversion H; subst.
    destruct (go_inv _ _ _ _ _ _ E NF C2 NI2) as [G3 [ED SY]].
    apply (KEY o g3 G3 ED). destruct SY as [SY|SY]; [exact SY|]. rewrite SY. unfold g2; simpl. reflexivity.
  - destruct (nth f P []) eqn:NE.
    + inversion H; subst. apply (KEY ONormal g2 (G_refl _ C2) eq_refl). unfold g2; reflexivity.
    + destruct (go fuel P true (TEnter f 0 0) g2) as [o3 g3] eqn:E. inversion H; subst.
      destruct (go_inv _ _ _ _ _ _ E NF C2 NI2) as [G3 [ED SY]].
      apply (KEY o g3 G3 ED SY).
Qed.

(* fault histories: any sequence of evaluations, each with its own fault point *)
Fixpoint run_history (fuel : nat) (P : prog) (g : glob) (evs : list (form * nat * fault)) : option glob :=
  match evs with
  | [] => Some g
  | (fm, k, fl) :: evs' =>
      let '(o, g') := eval fuel P true fm (rearm k fl g) in
      match o with OFuel => None | _ => run_history fuel P g' evs' end
  end.

Lemma history_restores : forall fuel P evs g g', run_history fuel P g evs = Some g' ->
  Forall (fun e => snd e <> FInterrupt) evs -> idle (rn g) -> restored (rn g) (rn g') /\ idle (rn g').
Proof.
  induction evs as [|[[fm k] fl] evs IH]; intros g g' H F I.
  - inversion H; subst. split; [repeat split|exact I].
  - simpl in H. destruct (eval fuel P true fm (rearm k fl g)) as [o g1] eqn:E.
    inversion F as [|x l NI F']; subst. simpl in NI.
    assert (NF : o <> OFuel) by (destruct o; congruence).
    destruct (eval_restores _ _ _ _ _ _ E NF NI I) as (R1 & I1 & _).
    assert (H' : run_history fuel P g1 evs = Some g') by (destruct o; congruence).
    destruct (IH _ _ H' F' I1) as (R2 & I2). split; [|exact I2].
    unfold restored in *. simpl in R1. intuition congruence.
Qed.

(* Run.Interrupt is NOT restored: the hook panics in the steady phase of a plain exec frame *)
Lemma interrupt_field_not_restored :
  let '(o, g') := eval FUEL [[IHook; IJmp 0]] true (FDirect 0) (glob0 40 FPanic) in
  o = OPanic PV_HOOK /\ intr (rn (glob0 40 FPanic)) = false /\ intr (rn g') = true.
Proof. vm_compute. repeat split. Qed.

(* a non-trivial instance: the hook panics in f1, deferred closures of f1 and f0 run while the panic unwinds *)
Definition P_ex : prog :=
  [[IDefer (DFun 2 ASame); ICall 1 (AConst 0); IHook];          (* f0: defer closure2; f1(0); hook() *)
   [IDefer (DFun 3 ASame); IHook; IGInc; IHook];                 (* f1: defer closure3; hook(); x++; hook() *)
   [IGInc];                                                       (* closure2: x++ *)
   [IHook; IGInc]].                                               (* closure3: hook(); x++ *)
Lemma example_nested :
  let '(o, g') := eval FUEL P_ex true (FCall 0 0) (glob0 2 FPanic) in
  o = OPanic PV_HOOK /\ restored run0 (rn g') /\ later g' = 1 /\ gx g' = 3.
Proof. vm_compute. repeat split. Qed.

(* the history of finding C12-1 in the model: function 0 = `{ defer func(){}(); panic("boom") }` run on the top-level
   Env, function 2 = `{ defer func() { note(recover() != nil) }() }`; without the fix the second evaluation's recover()
   returns the stale panic *)
Definition P_c12_1 : prog := [[IDefer (DFun 1 (AConst 0)); IPanic]; [IPlain]; [IDefer (DFun 3 (AConst 0))]; [IRecover]].

Lemma c12_1_before_fix :
  let '(o1, g1) := eval FUEL P_c12_1 false (FDirect 0) (glob0 0 FNone) in
  let '(o2, g2) := eval FUEL P_c12_1 false (FDirect 2) (rearm 0 FNone g1) in
  o1 = OPanic PV_INTERP /\ panic_fun (rn g1) = Some 0 /\ o2 = ONormal /\ recs g2 = 1.
Proof. vm_compute. repeat split. Qed.

Lemma c12_1_after_fix :
  let '(o1, g1) := eval FUEL P_c12_1 true (FDirect 0) (glob0 0 FNone) in
  let '(o2, g2) := eval FUEL P_c12_1 true (FDirect 2) (rearm 0 FNone g1) in
  o1 = OPanic PV_INTERP /\ panic_fun (rn g1) = None /\ o2 = ONormal /\ recs g2 = 0.
Proof. vm_compute. repeat split. Qed.

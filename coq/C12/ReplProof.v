(* C12 -- lemmas about the model of the input loop (C12/ReplModel.v). *)
From Coq Require Import List Arith Bool ZArith.
From Verif Require Import C12.ReplModel.
Import ListNotations.

(* with OptTrapPanic set one ParseEvalPrint call never lets a panic out and says "stop" only for an executed quit *)
Lemma pep_trap : forall i,
  parse_eval_print true i = Again (negb (negb (i_blank i) && negb (i_cmd_panics i) && i_quit i)).
Proof.
  intros [b cp q rs ep lg]; unfold parse_eval_print, after_eval; simpl.
  destruct b, cp, q, rs, ep; reflexivity.
Qed.

Lemma session_trap : forall ins, session true ins = (until_quit ins, false).
Proof.
  induction ins as [|i r IH]; simpl; [reflexivity|].
  rewrite pep_trap.
  destruct (negb (i_blank i) && negb (i_cmd_panics i) && i_quit i); simpl.
  - reflexivity.
  - rewrite IH. reflexivity.
Qed.

Lemma until_quit_noquit : forall ins, Forall (fun i => i_quit i = false) ins -> until_quit ins = ins.
Proof.
  induction 1 as [|i r Hi _ IH]; simpl; [reflexivity|].
  rewrite Hi, andb_false_r, IH. reflexivity.
Qed.

Lemma session_trap_all : forall ins, Forall (fun i => i_quit i = false) ins -> session true ins = (ins, false).
Proof. intros ins H. rewrite session_trap, (until_quit_noquit _ H). reflexivity. Qed.

(* the attempted inputs do not depend on which inputs panic (in a command or in plain code) *)
Definition same_but_panics (a b : input) : Prop :=
  i_blank a = i_blank b /\ i_quit a = i_quit b /\ i_rest a = i_rest b /\ i_logs a = i_logs b.

Lemma session_trap_length : forall ins ins', Forall2 same_but_panics ins ins' ->
  Forall (fun i => i_quit i = false) ins ->
  length (fst (session true ins)) = length (fst (session true ins')).
Proof.
  intros ins ins' H Hq.
  assert (Hq' : Forall (fun i => i_quit i = false) ins').
  { revert Hq. induction H as [|a b l l' Hab _ IH]; intros Hq; constructor.
    - inversion Hq; subst. destruct Hab as (_ & E & _). congruence.
    - inversion Hq; subst. auto. }
  rewrite (session_trap_all _ Hq), (session_trap_all _ Hq'). simpl.
  clear Hq Hq'. induction H; simpl; congruence.
Qed.

(* without OptTrapPanic the first panic leaves the loop (the callers of Eval see it): the loop is then over *)
Lemma session_notrap_escapes : forall i r, i_blank i = false -> i_cmd_panics i = true ->
  session false (i :: r) = ([i], true).
Proof. intros i r Hb Hc. simpl. unfold parse_eval_print, after_eval. rewrite Hb, Hc. reflexivity. Qed.

(* C12 -- model of the loops that evaluate input after input (fast/repl.go Repl, ReplStdin, ReadParseEvalPrint,
   ParseEvalPrint, beforeEval/afterEval; fast/interpreter.go EvalReader, EvalFile).  Definitions only.

     func (ir *Interp) ParseEvalPrint(src string) (callAgain bool) {
         if blank(src) { return true }
         trap := Options&OptTrapPanic != 0
         defer ir.afterEval(src, &callAgain, &trap, ...)   // if *trap { recover(); *callAgain = true }
         src, opt := ir.Cmd(src)                            // a special command may evaluate code and PANIC here,
         callAgain = opt&CmdOptQuit == 0                    // ... i.e. before callAgain has been assigned
         if len(src) == 0 || !callAgain { trap = false; return callAgain }
         Parse; Compile; RunExpr; Print                     // may panic
         trap = false
         return callAgain
     }
     for ir.ReadParseEvalPrint() {}                         // every driver

   What an input does is abstracted to five booleans; a panic is "a panic is raised while this phase runs". *)
From Coq Require Import List Arith Bool ZArith.
Import ListNotations.

Record input := mkInput {
  i_blank : bool;        (* empty / white space / comment only: nothing is evaluated *)
  i_cmd_panics : bool;   (* Interp.Cmd panics (code evaluated by :debug / :inspect, or the command itself fails) *)
  i_quit : bool;         (* Cmd returns CmdOptQuit *)
  i_rest : bool;         (* Cmd returns source text to evaluate (plain input, or :<code>) *)
  i_eval_panics : bool;  (* Parse / Compile / RunExpr of that text panics *)
  i_logs : bool          (* the input, when attempted, is observable (calls the compiled recorder before any panic) *)
}.

(* result of one ParseEvalPrint call: the value of callAgain, or the panic leaves the function *)
Inductive pep := Again (b : bool) | Escapes.

(* the deferred afterEval, entered with the current value of the named result and the trap flag *)
Definition after_eval (opt_trap : bool) (call_again : bool) (panicking : bool) : pep :=
  if panicking then
    if opt_trap then Again true          (* recover(); *callAgain = true *)
    else Escapes
  else Again call_again.

Definition parse_eval_print (opt_trap : bool) (i : input) : pep :=
  if i_blank i then Again true
  else
    let call_again := false in                                   (* zero value of the named result *)
    if i_cmd_panics i then after_eval opt_trap call_again true
    else
      let call_again := negb (i_quit i) in
      if negb (i_rest i) || negb call_again then after_eval opt_trap call_again false   (* trap = false; return *)
      else if i_eval_panics i then after_eval opt_trap call_again true
      else after_eval opt_trap call_again false.

(* the loop: the inputs that were attempted (passed to ParseEvalPrint), in order, and whether a panic escaped *)
Fixpoint session (opt_trap : bool) (ins : list input) : list input * bool :=
  match ins with
  | [] => ([], false)
  | i :: r =>
      match parse_eval_print opt_trap i with
      | Again true => let '(a, e) := session opt_trap r in (i :: a, e)
      | Again false => ([i], false)
      | Escapes => ([i], true)
      end
  end.

(* what Go / the property demands: every input up to and including the first executed quit command *)
Fixpoint until_quit (ins : list input) : list input :=
  match ins with
  | [] => []
  | i :: r => if negb (i_blank i) && negb (i_cmd_panics i) && i_quit i then [i] else i :: until_quit r
  end.

(* ---------- correspondence ---------- *)
Record sess := mkSess { s_idx : Z; s_trap : bool; s_inputs : list input; s_logged : list nat }.

Fixpoint number {A} (n : nat) (l : list A) : list (nat * A) :=
  match l with [] => [] | x :: r => (n, x) :: number (S n) r end.

(* positions of the attempted inputs that are observable *)
Definition logged (opt_trap : bool) (ins : list input) : list nat :=
  let n := length (fst (session opt_trap ins)) in
  map fst (filter (fun p => i_logs (snd p)) (firstn n (number 0 ins))).

Fixpoint nats_eqb (a b : list nat) : bool :=
  match a, b with
  | [], [] => true
  | x :: a', y :: b' => Nat.eqb x y && nats_eqb a' b'
  | _, _ => false
  end.

Definition sess_ok (s : sess) : bool :=
  nats_eqb (logged (s_trap s) (s_inputs s)) (s_logged s) && negb (snd (session (s_trap s) (s_inputs s))).

Definition sess_mismatches (cs : list sess) : list Z :=
  map s_idx (filter (fun s => negb (sess_ok s)) cs).

(* C12 -- a panic escaping an evaluation leaves later evaluations unaffected.
   The executable model of the executor (exec / reExecWithFlags / rundefer / pushDefer / popDefer / maybeRepanic /
   restore / callRecover / RunExpr's deferred setCurrEnv / prepareEnv) is the flat-code machine of C13/Model.v
   (the panic path and the interrupt path are the same code).  This file adds the projection of the Run record that
   the hook fast/zz_verif_c12.go exposes, and the correspondence cases of the C12 harness.  Definitions only. *)
From Coq Require Import List Arith Bool ZArith.
From Verif Require Import C13.Model.
Import ListNotations.

(* fast.VerifRunSnapshot, the modelled fields *)
Record snap := mkSnap {
  s_execflags : nat;     (* EFStartDefer=1 | EFDefer=2 | EFDebug=4 *)
  s_sync : nat;          (* Signals.Sync: 0, SigDefer=1, SigReturn=2 *)
  s_debug : bool;        (* Signals.Debug != SigNone *)
  s_async : bool;        (* Signals.Async != SigNone *)
  s_curr_nil : bool;     (* CurrEnv == nil *)
  s_intr_nil : bool;     (* Interrupt == nil *)
  s_dof_nil : bool;      (* DeferOfFun == nil *)
  s_pf_nil : bool;       (* PanicFun == nil *)
  s_pv_nil : bool;       (* Panic == nil *)
  s_debug_depth : nat }.

Definition is_none {A} (o : option A) : bool := match o with None => true | Some _ => false end.

Definition snap_of (r : run) : snap :=
  mkSnap ((if ef_start r then 1 else 0) + (if ef_defer r then 2 else 0) + (if ef_debug r then 4 else 0))
         (match sync r with SNone => 0 | SDefer => 1 | SReturn => 2 end)
         (dbgsig r) (async r) (is_none (curr r)) (negb (intr r)) (is_none (defer_of r)) (is_none (panic_fun r))
         (is_none (panicv r)) (debug_depth r).

Definition snap_eqb (a b : snap) : bool :=
  (s_execflags a =? s_execflags b) && (s_sync a =? s_sync b) && Bool.eqb (s_debug a) (s_debug b) &&
  Bool.eqb (s_async a) (s_async b) && Bool.eqb (s_curr_nil a) (s_curr_nil b) && Bool.eqb (s_intr_nil a) (s_intr_nil b) &&
  Bool.eqb (s_dof_nil a) (s_dof_nil b) && Bool.eqb (s_pf_nil a) (s_pf_nil b) && Bool.eqb (s_pv_nil a) (s_pv_nil b) &&
  (s_debug_depth a =? s_debug_depth b).

(* one evaluation of a history and what the harness observed *)
Record step := mkStep {
  st_form : form; st_k : nat; st_fault : fault;
  st_out : nat;        (* 0 = returned normally, 1 = panic of the hook, 2 = interpreted panic, 3 = SigInterrupt *)
  st_later : nat;      (* hook calls after the k-th *)
  st_recs : nat;       (* recover() calls that returned non-nil *)
  st_x : nat;          (* value of the interpreted global x after the evaluation (x = 0 before) *)
  st_snap : snap }.    (* Run record after the evaluation *)

Record case := mkCase { c_idx : Z; c_prog : prog; c_steps : list step }.

Definition out_code (o : outcome) : option nat :=
  match o with ONormal => Some 0 | OPanic v => Some v | OFuel => None end.

Definition reset_x (g : glob) : glob :=
  mkGlob (hooks g) (kk g) (flt g) (later g) (after_all g) (after_def g) (raised g) 0 0 (next_env g) (recs g) (rn g).

Fixpoint steps_ok (P : prog) (g : glob) (ss : list step) : bool :=
  match ss with
  | [] => true
  | s :: ss' =>
      let '(o, g') := eval FUEL P true (st_form s) (reset_x (rearm (st_k s) (st_fault s) g)) in
      match out_code o with
      | Some c => (c =? st_out s) && (later g' =? st_later s) && (recs g' =? st_recs s) && (gx g' =? st_x s)
                  && snap_eqb (snap_of (rn g')) (st_snap s) && steps_ok P g' ss'
      | None => false
      end
  end.

Definition case_ok (c : case) : bool := steps_ok (c_prog c) (glob0 0 FNone) (c_steps c).

Definition mismatches (cs : list case) : list Z :=
  map c_idx (filter (fun c => negb (case_ok c)) cs).

(* C17 — executable model of base/dep: graph.go (Sort, RemoveNodesNoDeps, RemoveUnresolvableDeps, RemoveTypeFwd,
   RemoveDepsFor, visit — with fixes C17-1 and C17-2), decl.go (DeclMap.add/depMap/RemoveUnresolvableDeps, SortByPos),
   util.go (sort_unique_inplace) and sorter.go (Sorter.Some/All and the four pop functions).  Definitions only, no proofs.

   Go maps: g.Nodes (DeclMap) and g.Edges (depMap) always have the same key set, so they are modelled zipped as one
   association list [graph] of [gnode]s kept sorted by name (a Go map has no order; every `range` over it is modelled
   as a walk of this list, and Proof.v shows the result of each walk does not depend on the order).            *)
From Coq Require Import List NArith ZArith Bool.
From Verif Require Import Common.GoStr.
Import ListNotations.

Inductive kind := KUnknown | KConst | KExpr | KFunc | KImport | KMacro | KMethod | KPackage | KStmt | KType
                | KTypeFwd | KVar | KVarMulti.

Definition kind_eqb (a b : kind) : bool :=
  match a, b with
  | KUnknown, KUnknown | KConst, KConst | KExpr, KExpr | KFunc, KFunc | KImport, KImport | KMacro, KMacro
  | KMethod, KMethod | KPackage, KPackage | KStmt, KStmt | KType, KType | KTypeFwd, KTypeFwd | KVar, KVar
  | KVarMulti, KVarMulti => true
  | _, _ => false
  end.

Record decl := mkDecl { dkind : kind; dname : str; dpos : N; ddeps : list str }.

Definition set_deps (d : decl) (l : list str) : decl := mkDecl (dkind d) (dname d) (dpos d) l.
Definition set_kind (d : decl) (k : kind) : decl := mkDecl k (dname d) (dpos d) (ddeps d).
Definition is_fwd (d : decl) : bool := kind_eqb (dkind d) KTypeFwd.
Definition is_type (d : decl) : bool := kind_eqb (dkind d) KType.

Definition str_in (n : str) (l : list str) : bool := existsb (str_eqb n) l.

(* util.go sort_unique_inplace: sort.Strings + drop duplicates *)
Fixpoint ins_u (x : str) (l : list str) : list str :=
  match l with
  | [] => [x]
  | y :: l' => match str_cmp x y with Lt => x :: l | Eq => l | Gt => y :: ins_u x l' end
  end.
Definition sort_unique (l : list str) : list str := fold_right ins_u [] l.

(* DeclList.SortByPos (sort.Slice on Pos; stable insertion sort — positions of distinct declarations are distinct) *)
Fixpoint ins_pos (d : decl) (l : list decl) : list decl :=
  match l with
  | [] => [d]
  | e :: l' => if N.leb (dpos d) (dpos e) then d :: l else e :: ins_pos d l'
  end.
Definition sort_by_pos (l : list decl) : list decl := fold_right ins_pos [] l.

(* ---------- graph = DeclMap zipped with depMap ---------- *)
Record gnode := mkNode { gname : str; gdecls : list decl; gedges : list str }.
Definition graph := list gnode.

Definition has_node (g : graph) (n : str) : bool := existsb (fun nd => str_eqb (gname nd) n) g.
Fixpoint get_node (g : graph) (n : str) : option gnode :=
  match g with
  | [] => None
  | nd :: g' => if str_eqb (gname nd) n then Some nd else get_node g' n
  end.
Definition del_node (g : graph) (n : str) : graph := filter (fun nd => negb (str_eqb (gname nd) n)) g.
Definition all_decls (g : graph) : list decl := flat_map gdecls g.

(* DeclMap.add: m[name] = append(m[name], decl) *)
Fixpoint g_add (g : graph) (d : decl) : graph :=
  match g with
  | [] => [mkNode (dname d) [d] []]
  | nd :: g' =>
      match str_cmp (dname d) (gname nd) with
      | Lt => mkNode (dname d) [d] [] :: g
      | Eq => mkNode (gname nd) (gdecls nd ++ [d]) [] :: g'
      | Gt => nd :: g_add g' d
      end
  end.
Definition decl_map (ds : list decl) : graph := fold_left g_add ds [].

(* DeclMap.RemoveUnresolvableDeps (popDecls): every Decl.Deps keeps only the names declared in this run *)
Definition names_of (ds : list decl) : list str := map dname ds.
Definition resolve (ds : list decl) : list decl :=
  map (fun d => set_deps d (filter (fun n => str_in n (names_of ds)) (ddeps d))) ds.

(* DeclMap.depMap: Edges[name] = set of the Deps of all declarations with that name (walked in sorted order by visit) *)
Definition with_edges (g : graph) : graph :=
  map (fun nd => mkNode (gname nd) (gdecls nd) (sort_unique (flat_map ddeps (gdecls nd)))) g.

Definition build (ds : list decl) : graph := with_edges (decl_map (resolve ds)).

(* graph.RemoveUnresolvableDeps: drop the edges whose target is no longer a node *)
Definition remove_unresolvable (g : graph) : graph :=
  map (fun nd => mkNode (gname nd) (gdecls nd) (filter (has_node g) (gedges nd))) g.

(* graph.RemoveNodesNoDeps, as written: walk the map; for a name without edges walk its list and take the list at the
   first declaration whose Pos is smaller than the best so far (or unconditionally if there is no best yet). *)
Fixpoint first_lt (l : list decl) (best : option N) : option N :=
  match l with
  | [] => None
  | d :: l' =>
      match best with
      | None => Some (dpos d)
      | Some p => if N.ltb (dpos d) p then Some (dpos d) else first_lt l' best
      end
  end.
Definition rnnd_step (best : option (N * gnode)) (nd : gnode) : option (N * gnode) :=
  match gedges nd with
  | [] => match first_lt (gdecls nd) (option_map fst best) with
          | Some p => Some (p, nd)
          | None => best
          end
  | _ :: _ => best
  end.
Definition remove_nodes_no_deps (g : graph) : option (gnode * graph) :=
  match fold_left rnnd_step g None with
  | None => None
  | Some (_, nd) => Some (nd, del_node g (gname nd))
  end.

(* ---------- visit (DFS with visiting / visited counters) ---------- *)
Definition amap := list (str * nat).
Fixpoint aget (m : amap) (k : str) : option nat :=
  match m with
  | [] => None
  | (k', v) :: m' => if str_eqb k' k then Some v else aget m' k
  end.
Fixpoint aset (m : amap) (k : str) (v : nat) : amap :=
  match m with
  | [] => [(k, v)]
  | (k', v') :: m' => if str_eqb k' k then (k', v) :: m' else (k', v') :: aset m' k v
  end.
Definition adel (m : amap) (k : str) : amap := filter (fun kv => negb (str_eqb (fst kv) k)) m.

Record vctx := mkCtx { visiting : amap; visited : amap }.

(* the calls `for _, name := range sortedNames(g.Edges[name]) { for _, node := range g.Nodes[name] { g.visit(node) } }`
   as the list of visited names: every edge target once per declaration carrying that name *)
Definition visit_targets (g : graph) (edges : list str) : list str :=
  flat_map (fun e => match get_node g e with
                     | Some nd => repeat e (length (gdecls nd))
                     | None => []
                     end) edges.

(* graph.visit with cycleFunc = "ctx.visiting[name]++" (RemoveTypeFwd); fuel bounds the recursion depth
   (at most one frame per node, proved in Proof.v); None = fuel exhausted *)
Fixpoint visit (fuel : nat) (g : graph) (name : str) (c : vctx) : option vctx :=
  match fuel with
  | O => None
  | S f =>
      match aget (visited c) name with
      | Some _ => Some c
      | None =>
          match aget (visiting c) name with
          | Some k => Some (mkCtx (aset (visiting c) name (S k)) (visited c))
          | None =>
              let c1 := mkCtx (aset (visiting c) name 0) (visited c) in
              let edges := match get_node g name with Some nd => gedges nd | None => [] end in
              let fix go (ts : list str) (c : vctx) : option vctx :=
                  match ts with
                  | [] => Some c
                  | t :: ts' => match visit f g t c with
                                | Some c' => go ts' c'
                                | None => None
                                end
                  end in
              match go (visit_targets g edges) c1 with
              | None => None
              | Some c2 =>
                  let cnt := match aget (visiting c2) name with Some k => k | None => 0 end in
                  Some (mkCtx (adel (visiting c2) name) (aset (visited c2) name cnt))
              end
          end
      end
  end.

Fixpoint visit_all (fuel : nat) (g : graph) (names : list str) (c : vctx) : option vctx :=
  match names with
  | [] => Some c
  | n :: ns => match visit fuel g n c with
               | Some c' => visit_all fuel g ns c'
               | None => None
               end
  end.

(* the selection loop of RemoveTypeFwd: `for name, count := range ctx.visited { for _, decl := range g.Nodes[name] {...} }` *)
Definition tf_decl (count : nat) (acc : nat * list decl) (d : decl) : nat * list decl :=
  let '(most, l) := acc in
  if negb (is_type d) || Nat.ltb count most then acc
  else (count, (if Nat.ltb most count then [] else l) ++ [d]).
Definition tf_step (g : graph) (acc : nat * list decl) (nc : str * nat) : nat * list decl :=
  match get_node g (fst nc) with
  | Some nd => fold_left (tf_decl (snd nc)) (gdecls nd) acc
  | None => acc
  end.

Definition has_type (nd : gnode) : bool := existsb is_type (gdecls nd).

(* graph.RemoveDepsFor(Type, m) (fix C17-2: returns the number of edges dropped) *)
Definition remove_deps_for_type (g : graph) (names : list str) : graph * nat :=
  let g' := map (fun nd => if has_type nd
                           then mkNode (gname nd) (gdecls nd) (filter (fun e => negb (str_in e names)) (gedges nd))
                           else nd) g in
  (g', fold_right (fun nd n => length (gedges nd) + n) 0 g - fold_right (fun nd n => length (gedges nd) + n) 0 g').

Inductive tf_result := TfFuel | TfNone | TfSome (buf : list decl) (g : graph).

(* graph.RemoveTypeFwd (the `len(ctx.visited) == len(g.Nodes)` early exit is omitted: visiting a visited name is a no-op) *)
Definition remove_type_fwd (g : graph) : tf_result :=
  let order := rev (sort_by_pos (all_decls g)) in
  match visit_all (S (length g)) g (map dname order) (mkCtx [] []) with
  | None => TfFuel
  | Some c =>
      let '(_, l) := fold_left (tf_step g) (visited c) (1, []) in
      match l with
      | [] => TfNone
      | _ =>
          let fwd := map (fun d => set_kind d KTypeFwd) l in
          let '(g', removed) := remove_deps_for_type g (names_of fwd) in
          if Nat.eqb removed 0 then TfNone else TfSome fwd g'
      end
  end.

Inductive result := Ok (l : list decl) | DeclLoop | OutOfFuel.

(* graph.Sort main loop *)
Fixpoint sort_loop (fuel : nat) (g : graph) (acc : list decl) : result :=
  match g with
  | [] => Ok acc
  | _ :: _ =>
      match fuel with
      | O => OutOfFuel
      | S f =>
          match remove_nodes_no_deps g with
          | Some (nd, g') => sort_loop f (remove_unresolvable g') (acc ++ sort_by_pos (gdecls nd))
          | None =>
              match remove_type_fwd g with
              | TfFuel => OutOfFuel
              | TfNone => DeclLoop                 (* circularDependencyError *)
              | TfSome buf g' => sort_loop f (remove_unresolvable g') (acc ++ sort_by_pos buf)
              end
          end
      end
  end.

Definition edge_count (g : graph) : nat := fold_right (fun nd n => length (gedges nd) + n) 0 g.

(* popDecls' tail: scope.Decls.RemoveUnresolvableDeps(); graph{m, m.depMap()}.Sort() *)
Definition sort_graph (g : graph) : result :=
  let g0 := remove_unresolvable g in
  sort_loop (S (length g0 + edge_count g0)) g0 [].
Definition sort (ds : list decl) : result := sort_graph (build ds).

(* ---------- Sorter.Some / Sorter.All: phase split ---------- *)
Inductive item :=
| INil                                (* nil node *)
| IPackage (specs : list N)           (* package clause: position of each spec *)
| IImport (specs : list (str * N))    (* import declaration: (name, position) of each spec *)
| IDecl (ds : list decl)              (* const/var/type GenDecl or FuncDecl: the declarations it contributes *)
| IExpr (pos : N)
| IStmt (pos : N)
| IOther.                             (* any other node: every pop* stops at it *)

Definition pkg_decl (p : N) : decl := mkDecl KPackage [] p [].
Definition imp_decl (s : str * N) : decl := mkDecl KImport (fst s) (snd s) [].

Fixpoint pop_packages (q : list item) (acc : list decl) : list decl * list item :=
  match q with
  | INil :: q' => pop_packages q' acc
  | IPackage specs :: q' => pop_packages q' (acc ++ map pkg_decl specs)
  | _ => (sort_by_pos acc, q)
  end.
Fixpoint pop_imports (q : list item) (acc : list decl) : list decl * list item :=
  match q with
  | INil :: q' => pop_imports q' acc
  | IImport specs :: q' => pop_imports q' (acc ++ map imp_decl specs)
  | _ => (sort_by_pos acc, q)
  end.
Fixpoint pop_decls (q : list item) (acc : list decl) : list decl * list item :=
  match q with
  | INil :: q' => pop_decls q' acc
  | IDecl ds :: q' => pop_decls q' (acc ++ ds)
  | _ => (acc, q)
  end.
Fixpoint pop_stmts (q : list item) (acc : list decl) : list decl * list item :=
  match q with
  | INil :: q' => pop_stmts q' acc
  | IExpr p :: q' => pop_stmts q' (acc ++ [mkDecl KExpr [] p []])
  | IStmt p :: q' => pop_stmts q' (acc ++ [mkDecl KStmt [] p []])
  | _ => (sort_by_pos acc, q)
  end.

(* Sorter.Some *)
Definition some (q : list item) : result * list item :=
  let '(l1, q1) := pop_packages q [] in
  match l1 with
  | _ :: _ => (Ok l1, q1)
  | [] =>
      let '(l2, q2) := pop_imports q1 [] in
      match l2 with
      | _ :: _ => (Ok l2, q2)
      | [] =>
          let '(ds, q3) := pop_decls q2 [] in
          match sort ds with
          | Ok [] => let '(l4, q4) := pop_stmts q3 [] in (Ok l4, q4)
          | r => (r, q3)
          end
      end
  end.

(* Sorter.All; every successful Some consumes at least one queue item, fuel = S (length queue) *)
Fixpoint all_loop (fuel : nat) (q : list item) (acc : list decl) : result :=
  match fuel with
  | O => OutOfFuel
  | S f =>
      match some q with
      | (Ok [], _) => Ok acc
      | (Ok l, q') => all_loop f q' (acc ++ l)
      | (r, _) => r
      end
  end.
Definition all (q : list item) : result := all_loop (S (length q)) q [].

(* ---------- correspondence support ---------- *)
Fixpoint strs_eqb (a b : list str) : bool :=
  match a, b with
  | [], [] => true
  | x :: a', y :: b' => str_eqb x y && strs_eqb a' b'
  | _, _ => false
  end.
Definition anonymous (k : kind) : bool :=
  match k with KPackage | KExpr | KStmt => true | _ => false end.   (* gensym names <stmtN> are not compared *)
Definition decl_eqb (a b : decl) : bool :=
  kind_eqb (dkind a) (dkind b) && N.eqb (dpos a) (dpos b) && (anonymous (dkind a) || str_eqb (dname a) (dname b))
  && strs_eqb (ddeps a) (ddeps b).
Fixpoint decls_eqb (a b : list decl) : bool :=
  match a, b with
  | [], [] => true
  | x :: a', y :: b' => decl_eqb x y && decls_eqb a' b'
  | _, _ => false
  end.

Inductive obs := ObsOk (l : list decl) | ObsLoop.
Record case := mkCase { c_idx : Z; c_queue : list item; c_obs : obs }.

Definition case_ok (c : case) : bool :=
  match all (c_queue c), c_obs c with
  | Ok l, ObsOk l' => decls_eqb l l'
  | DeclLoop, ObsLoop => true
  | _, _ => false
  end.
Definition mismatches (cs : list case) : list Z := map c_idx (filter (fun c => negb (case_ok c)) cs).

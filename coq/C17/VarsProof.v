(* C17 — lemmas about the model of Scope.Vars (VarsModel.v). *)
From Coq Require Import List Arith Bool Lia.
From Verif Require Import C17.VarsModel.
Import ListNotations.

Section VarsProof.
Context {A : Type}.
Implicit Types (st : @store A) (v : list A).

Lemma arr_ext : forall st e s, s_arr s < length st -> arr_of (st ++ e) s = arr_of st s.
Proof. intros. unfold arr_of. apply app_nth1. auto. Qed.

Lemma read_ext : forall st e s, s_arr s < length st -> read (st ++ e) s = read st s.
Proof. intros. unfold read. rewrite arr_ext; auto. Qed.

Lemma sl_ok_ext : forall st e s, sl_ok st s -> sl_ok (st ++ e) s.
Proof.
  intros st e s [H1 [H2 H3]]. repeat split; auto.
  - rewrite app_length. lia.
  - rewrite arr_ext; auto.
Qed.

Lemma read_len : forall st s, sl_ok st s -> length (read st s) = s_len s.
Proof. intros st s [H1 [H2 H3]]. unfold read. rewrite firstn_length. lia. Qed.

Lemma read_new : forall st (l : list A) n, n = length l -> read (st ++ [l]) (mkSl (length st) n n) = l.
Proof.
  intros st l n ->. unfold read, arr_of. simpl. rewrite app_nth2 by lia. rewrite Nat.sub_diag. simpl.
  apply firstn_all.
Qed.

(* one iteration with dup: the store is only extended and the new slice reads typDeps ++ valueDeps *)
Lemma dup_append : forall st typ v, sl_ok st typ -> v <> [] ->
  exists e d, (let '(st0, base) := dup_go st typ in append_go st0 base v) = (st ++ e, d) /\
              s_arr d < length (st ++ e) /\ read (st ++ e) d = read st typ ++ v.
Proof.
  intros st typ v Ok Nv. pose proof (read_len _ _ Ok) as RL.
  assert (Lv : 0 < length v) by (destruct v; [contradiction | simpl; lia]).
  unfold dup_go. destruct (s_len typ) as [|k] eqn:L.
  - unfold append_go. simpl s_len. simpl s_cap.
    destruct (0 + length v <=? 0) eqn:C; [apply Nat.leb_le in C; lia|].
    exists [read st (mkSl 0 0 0) ++ v], (mkSl (length st) (0 + length v) (0 + length v)).
    split; auto. split; [simpl; rewrite app_length; simpl; lia|].
    assert (R0 : read st typ = []) by (destruct (read st typ); [auto | simpl in RL; discriminate]).
    rewrite R0. unfold read at 2. simpl. apply read_new. auto.
  - unfold append_go. simpl s_len. simpl s_cap.
    destruct (S k + length v <=? S k) eqn:C; [apply Nat.leb_le in C; lia|].
    set (st0 := st ++ [read st typ]).
    assert (RB : read st0 (mkSl (length st) (S k) (S k)) = read st typ) by (apply read_new; auto).
    exists ([read st typ] ++ [read st0 (mkSl (length st) (S k) (S k)) ++ v]), (mkSl (length st0) (S k + length v) (S k + length v)).
    split; [rewrite app_assoc; reflexivity|].
    rewrite app_assoc. fold st0. split; [simpl; rewrite app_length; simpl; lia|].
    rewrite RB. apply read_new. rewrite app_length. lia.
Qed.

Lemma vars_loop_dup : forall vals st typ, sl_ok st typ ->
  exists e ds, vars_loop true st typ vals = (st ++ e, ds) /\
    Forall2 (fun d v => s_arr d < length (st ++ e) /\ read (st ++ e) d = read st typ ++ v) ds vals.
Proof.
  induction vals as [|v rest IH]; intros st typ Ok; simpl.
  - exists [], []. rewrite app_nil_r. split; auto.
  - destruct (is_nil v) eqn:N.
    + destruct v; [|discriminate].
      destruct (IH st typ Ok) as [e [ds [E F]]]. rewrite E. exists e, (typ :: ds). split; auto.
      constructor; auto. destruct Ok as [O1 O2]. split; [rewrite app_length; lia|].
      rewrite read_ext by auto. rewrite app_nil_r. reflexivity.
    + assert (Nv : v <> []) by (intros ->; discriminate).
      destruct (dup_append st typ v Ok Nv) as [e1 [d [E1 [D1 D2]]]]. rewrite E1.
      destruct (IH (st ++ e1) typ (sl_ok_ext _ _ _ Ok)) as [e2 [ds [E2 F]]]. rewrite E2.
      exists (e1 ++ e2), (d :: ds). rewrite app_assoc. split; auto.
      assert (RT : read (st ++ e1) typ = read st typ) by (apply read_ext; apply Ok).
      constructor.
      * split; [rewrite app_length; lia|]. rewrite read_ext by auto. exact D2.
      * rewrite RT in F. exact F.
Qed.

(* the code as written: every name gets the type's dependencies followed by those of its own initialiser, whatever the
   capacity of the slice returned for the type expression and whatever the other initialisers are *)
Lemma vars_deps_dup : forall st typ vals, sl_ok st typ -> vars_deps true st typ vals = vars_spec st typ vals.
Proof.
  intros st typ vals Ok. unfold vars_deps, vars_spec.
  destruct (vars_loop_dup vals st typ Ok) as [e [ds [E F]]]. rewrite E. clear E.
  induction F as [|d v ds vals [_ R] F IH]; simpl; auto. rewrite R, IH. reflexivity.
Qed.
End VarsProof.

(* without dup: refuted as soon as the type's slice has spare capacity.  var a, b map[K]K = f(), g():
   typDeps = [K] in an array of capacity 2 (sort_unique_inplace removed the duplicate); a's list ends as [K; g] *)
Lemma vars_deps_nodup_refuted : exists (st : @store nat) typ vals,
  sl_ok st typ /\ vars_deps false st typ vals <> vars_spec st typ vals /\
  nth 0 (vars_deps false st typ vals) [] = [1; 3] /\ nth 0 (vars_spec st typ vals) [] = [1; 2].
Proof.
  exists [[1; 1]], (mkSl 0 1 2), [[2]; [3]]. split; [|split; [|split]].
  - repeat split; simpl; auto.
  - vm_compute. discriminate.
  - vm_compute. reflexivity.
  - vm_compute. reflexivity.
Qed.

From Coq Require Import List NArith Bool.
From Verif Require Import Common.GoStr C17.Model C17.ScopeModel.
Import ListNotations.

Definition nx : str := [120%N].   (* "x" *)
Definition nb : str := [98%N].    (* "b" *)

(* finding #2 in both directions: (1) a name declared in the scope that encloses the innermost one is NOT seen
   (func literal parameter scope / function scope skipped); (2) at depth >= 2 a name already present in the
   TOP-LEVEL map is reported as local, so the dependency on it is dropped *)
Lemma shadowing_refuted :
  (is_local [[]; [nx]; []] nx = false /\ is_local_spec [[]; [nx]; []] nx = true) /\
  (is_local [[]; []; [nb]] nb = true /\ is_local_spec [[]; []; [nb]] nb = false).
Proof. repeat split; vm_compute; reflexivity. Qed.

(* at depth <= 1 (directly inside one function literal / struct type / the top level) the walk is right *)
Lemma is_local_depth1 s0 top n : is_local [s0; top] n = is_local_spec [s0; top] n /\ is_local [top] n = is_local_spec [top] n.
Proof.
  unfold is_local, is_local_spec. simpl. split; [|reflexivity].
  destruct (str_in n s0); reflexivity.
Qed.

Lemma loop_diag n : forall fuel l, length l <= fuel -> is_local_loop fuel l l n = existsb (str_in n) l.
Proof.
  induction fuel as [|f IH]; intros l Hl.
  - destruct l; [reflexivity|simpl in Hl; inversion Hl].
  - destruct l as [|a l]; [reflexivity|]. simpl. destruct (str_in n a); [reflexivity|]. apply IH. simpl in Hl. apply le_S_n. exact Hl.
Qed.

(* closed form of the loop: the innermost scope, then everything from the third scope on INCLUDING the top level *)
Lemma is_local_closed_form s0 s1 rest n :
  is_local (s0 :: s1 :: rest) n = str_in n s0 || existsb (str_in n) rest.
Proof.
  unfold is_local.
  change (is_local_loop (length (s0 :: s1 :: rest)) (s0 :: s1 :: rest) (tl (s0 :: s1 :: rest)) n)
    with (if str_in n s0 then true else is_local_loop (S (length rest)) rest rest n).
  destruct (str_in n s0); [reflexivity|]. simpl orb. apply loop_diag. apply le_S, le_n.
Qed.

Lemma is_local_partial : forall s0 s1 rest top n,
  (is_local [s0; top] n = is_local_spec [s0; top] n /\ is_local [top] n = is_local_spec [top] n) /\
  is_local (s0 :: s1 :: rest) n = str_in n s0 || existsb (str_in n) rest.
Proof. intros. split; [apply is_local_depth1|apply is_local_closed_form]. Qed.

(* C17 — executable model of the dependency lists built by base/dep/scope.go Scope.Vars for ONE var spec
       var n0, n1, ... T = v0, v1, ...
   As written:
       typDeps := s.Expr(node.Type)
       for i, ident := range node.Names {
           deps := typDeps
           if i < len(node.Values) {
               valueDeps := s.Expr(node.Values[i])
               if len(valueDeps) != 0 { deps = append(dup(typDeps), valueDeps...) }
           }
           s.Var(ident, declNode, node.Type, value, deps)      // the Decl keeps the slice deps
       }
   The Decls are read (by the sorter) after the whole loop, so what matters is the content of every slice AT THE END.
   Go slices are modelled as views (array id, len, cap) into a store of backing arrays; append writes IN PLACE when
   len + n <= cap and otherwise allocates a fresh array; dup allocates a fresh array of exactly len elements
   (base/dep/util.go dup: nil for an empty list).  The parameter [dupf] says whether dup is called (the code as written)
   or typDeps is appended to directly.  Definitions only (no proofs). *)
From Coq Require Import List Arith Bool.
Import ListNotations.

Section Vars.
Context {A : Type}.

Definition store := list (list A).                        (* backing arrays, by id; an array has cap elements *)
Record sl := mkSl { s_arr : nat; s_len : nat; s_cap : nat }.

Definition arr_of (st : store) (s : sl) : list A := nth (s_arr s) st [].
Definition read (st : store) (s : sl) : list A := firstn (s_len s) (arr_of st s).

Fixpoint set_nth {B} (l : list B) (k : nat) (v : B) : list B :=
  match l, k with
  | [], _ => []
  | _ :: t, O => v :: t
  | h :: t, S k' => h :: set_nth t k' v
  end.

(* append(s, vs...) *)
Definition append_go (st : store) (s : sl) (vs : list A) : store * sl :=
  let n := s_len s + length vs in
  if n <=? s_cap s then
    let a := arr_of st s in
    (set_nth st (s_arr s) (firstn (s_len s) a ++ vs ++ skipn n a), mkSl (s_arr s) n (s_cap s))
  else
    (st ++ [read st s ++ vs], mkSl (length st) n n).      (* growth policy abstract: no spare capacity assumed *)

(* dup(s) *)
Definition dup_go (st : store) (s : sl) : store * sl :=
  match s_len s with
  | O => (st, mkSl 0 0 0)                                 (* nil *)
  | _ => (st ++ [read st s], mkSl (length st) (s_len s) (s_len s))
  end.

Definition is_nil (l : list A) : bool := match l with [] => true | _ => false end.

(* the loop: returns the final store and the slice kept by the Decl of every name *)
Fixpoint vars_loop (dupf : bool) (st : store) (typ : sl) (vals : list (list A)) : store * list sl :=
  match vals with
  | [] => (st, [])
  | v :: rest =>
      let '(st1, d) :=
        if is_nil v then (st, typ)
        else let '(st0, base) := if dupf then dup_go st typ else (st, typ) in append_go st0 base v in
      let '(st2, ds) := vars_loop dupf st1 typ rest in
      (st2, d :: ds)
  end.

(* the dependency lists as the sorter sees them *)
Definition vars_deps (dupf : bool) (st : store) (typ : sl) (vals : list (list A)) : list (list A) :=
  let '(st', ds) := vars_loop dupf st typ vals in map (read st') ds.

(* what the property needs: name i depends on the type's dependencies and on those of ITS OWN initialiser *)
Definition vars_spec (st : store) (typ : sl) (vals : list (list A)) : list (list A) :=
  map (fun v => read st typ ++ v) vals.

Definition sl_ok (st : store) (s : sl) : Prop :=
  s_arr s < length st /\ s_len s <= s_cap s /\ length (arr_of st s) = s_cap s.
End Vars.

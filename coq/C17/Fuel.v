(* C17 — the fuel of the model never runs out: visit needs at most one frame per node, the Sort loop removes a node
   or at least one edge per iteration *)
From Coq Require Import List NArith ZArith Bool Arith Lia Permutation.
From Verif Require Import Common.GoStr C17.Model C17.Proof C17.Spec C17.Order.
Import ListNotations.

Definition has (m : amap) (n : str) : bool := match aget m n with Some _ => true | None => false end.

Lemma str_eqb_sym a b : str_eqb a b = str_eqb b a.
Proof.
  destruct (str_eqb a b) eqn:E; symmetry.
  - apply str_eqb_eq in E. subst. apply str_eqb_refl.
  - apply str_eqb_neq. apply str_eqb_neq in E. congruence.
Qed.

Lemma has_aset m k v n : has (aset m k v) n = str_eqb k n || has m n.
Proof.
  unfold has. induction m as [|[k' v'] m IH]; simpl.
  - destruct (str_eqb k n); reflexivity.
  - destruct (str_eqb k' k) eqn:E; simpl.
    + apply str_eqb_eq in E. subst k'. destruct (str_eqb k n); reflexivity.
    + destruct (str_eqb k' n) eqn:E2; [destruct (str_eqb k n); reflexivity|exact IH].
Qed.

Lemma aget_adel m k n : aget (adel m k) n = if str_eqb k n then None else aget m n.
Proof.
  unfold adel. induction m as [|[k' v'] m IH]; simpl.
  - destruct (str_eqb k n); reflexivity.
  - destruct (str_eqb k' k) eqn:E; simpl.
    + rewrite IH. apply str_eqb_eq in E. subst k'. destruct (str_eqb k n); reflexivity.
    + rewrite IH. destruct (str_eqb k' n) eqn:E2; [|reflexivity].
      destruct (str_eqb k n) eqn:E3; [|reflexivity].
      apply str_eqb_eq in E2, E3. subst. rewrite str_eqb_refl in E. discriminate.
Qed.

Lemma has_adel m k n : has (adel m k) n = negb (str_eqb k n) && has m n.
Proof. unfold has. rewrite aget_adel. destruct (str_eqb k n); reflexivity. Qed.

(* number of nodes that are not on the visiting stack *)
Definition free (g : graph) (vis : amap) : nat := length (filter (fun n => negb (has vis n)) (gnames g)).
Definition same_keys (m m' : amap) : Prop := forall n, has m n = has m' n.

Lemma free_same g m m' : same_keys m m' -> free g m = free g m'.
Proof.
  intros H. unfold free. f_equal. apply filter_ext. intros n. rewrite H. reflexivity.
Qed.

Lemma filter_length_lt {A} (p p' : A -> bool) l x :
  (forall y, p' y = true -> p y = true) -> In x l -> p x = true -> p' x = false ->
  length (filter p' l) < length (filter p l).
Proof.
  intros Himp. induction l as [|y l IH]; intros Hin Hp Hp'; [destruct Hin|]. simpl.
  assert (Hle : length (filter p' l) <= length (filter p l)).
  { clear -Himp. induction l as [|z l IH]; simpl; [lia|]. destruct (p' z) eqn:E; [rewrite (Himp z E); simpl; lia|].
    destruct (p z); simpl; lia. }
  destruct Hin as [->|Hin].
  - rewrite Hp, Hp'. simpl. lia.
  - specialize (IH Hin Hp Hp'). destruct (p' y) eqn:E; [rewrite (Himp y E); simpl; lia|]. destruct (p y); simpl; lia.
Qed.

Lemma free_push g vis name : In name (gnames g) -> has vis name = false -> free g (aset vis name 0) < free g vis.
Proof.
  intros Hin Hh. unfold free. apply (filter_length_lt _ _ _ name).
  - intros y. rewrite has_aset, negb_orb. intros H. apply andb_true_iff in H as [_ H]. exact H.
  - exact Hin.
  - rewrite Hh. reflexivity.
  - rewrite has_aset, str_eqb_refl. reflexivity.
Qed.

Lemma get_node_none g n : get_node g n = None -> ~ In n (gnames g).
Proof.
  induction g as [|x g IH]; simpl; intros H; [tauto|]. destruct (str_eqb (gname x) n) eqn:E; [discriminate|].
  apply str_eqb_neq in E. intros [H1|H1]; [contradiction|]. exact (IH H H1).
Qed.

Lemma get_node_some g n nd : get_node g n = Some nd -> In n (gnames g).
Proof.
  induction g as [|x g IH]; simpl; intros H; [discriminate|]. destruct (str_eqb (gname x) n) eqn:E.
  - apply str_eqb_eq in E. left. exact E.
  - right. exact (IH H).
Qed.

Lemma visit_total fuel : forall g name c, free g (visiting c) < fuel ->
  exists c', visit fuel g name c = Some c' /\ same_keys (visiting c') (visiting c).
Proof.
  induction fuel as [|f IH]; intros g name c Hf; [lia|]. simpl.
  destruct (aget (visited c) name) as [v0|] eqn:Ev; [exists c; split; [reflexivity|intros n; reflexivity]|].
  destruct (aget (visiting c) name) as [k|] eqn:Eg.
  - eexists. split; [reflexivity|]. simpl. intros n. rewrite has_aset. destruct (str_eqb name n) eqn:E; [|reflexivity].
    apply str_eqb_eq in E. subst n. unfold has. rewrite Eg. reflexivity.
  - set (c1 := mkCtx (aset (visiting c) name 0) (visited c)).
    set (edges := match get_node g name with Some nd => gedges nd | None => [] end).
    assert (Hh : has (visiting c) name = false) by (unfold has; rewrite Eg; reflexivity).
    assert (Hgo : forall ts cx, (ts = [] \/ In name (gnames g)) -> same_keys (visiting cx) (visiting c1) ->
              exists c2, (fix go (ts : list str) (c : vctx) {struct ts} : option vctx :=
                            match ts with
                            | [] => Some c
                            | t :: ts' => match visit f g t c with Some c' => go ts' c' | None => None end
                            end) ts cx = Some c2 /\ same_keys (visiting c2) (visiting c1)).
    { induction ts as [|t ts IHts]; intros cx Hcase Hk; [exists cx; auto|].
      destruct Hcase as [Hc|Hin]; [discriminate|].
      destruct (IH g t cx) as [c' [E1 K1]].
      { rewrite (free_same g _ _ Hk). pose proof (free_push g (visiting c) name Hin Hh). simpl. lia. }
      rewrite E1. apply IHts; [right; exact Hin|]. intros n. rewrite K1. apply Hk. }
    destruct (Hgo (visit_targets g edges) c1) as [c2 [E2 K2]]; [|intros n; reflexivity|].
    + unfold edges. destruct (get_node g name) as [nd|] eqn:En; [right; eapply get_node_some; eauto|left; reflexivity].
    + rewrite E2. eexists. split; [reflexivity|]. simpl. intros n. rewrite has_adel, K2. simpl. rewrite has_aset.
      destruct (str_eqb name n) eqn:E; simpl; [|reflexivity]. apply str_eqb_eq in E. subst n. rewrite Hh. reflexivity.
Qed.

Lemma visit_all_total g names : forall c fuel, free g (visiting c) < fuel ->
  exists c', visit_all fuel g names c = Some c' /\ same_keys (visiting c') (visiting c).
Proof.
  induction names as [|n names IH]; intros c fuel Hf; simpl.
  - exists c. split; [reflexivity|intros x; reflexivity].
  - destruct (visit_total fuel g n c Hf) as [c1 [E1 K1]]. rewrite E1.
    destruct (IH c1 fuel) as [c2 [E2 K2]]; [rewrite (free_same g _ _ K1); exact Hf|].
    exists c2. split; [exact E2|]. intros x. rewrite K2. apply K1.
Qed.

Lemma flen_le {A} (p : A -> bool) l : length (filter p l) <= length l.
Proof. induction l as [|x l IH]; simpl; [lia|]. destruct (p x); simpl; lia. Qed.

Lemma remove_type_fwd_no_fuel g : remove_type_fwd g <> TfFuel.
Proof.
  unfold remove_type_fwd.
  destruct (visit_all_total g (map dname (rev (sort_by_pos (all_decls g)))) (mkCtx [] []) (S (length g))) as [c [E _]].
  - simpl. unfold free. pose proof (flen_le (fun n => negb (has [] n)) (gnames g)). unfold gnames in *. rewrite map_length in H. lia.
  - rewrite E. destruct (fold_left (tf_step g) (visited c) (1, [])) as [most l]. destruct l; [discriminate|].
    destruct (remove_deps_for_type g _) as [g' removed]. destruct (Nat.eqb removed 0); discriminate.
Qed.

Lemma edge_count_ru g : edge_count (remove_unresolvable g) <= edge_count g.
Proof.
  unfold remove_unresolvable. generalize (has_node g). intros p.
  induction g as [|x g IH]; simpl; [lia|]. pose proof (flen_le p (gedges x)). lia.
Qed.

Lemma edge_count_del g n : edge_count (del_node g n) <= edge_count g.
Proof.
  unfold del_node. induction g as [|x g IH]; simpl; [lia|].
  destruct (negb (str_eqb (gname x) n)); simpl; lia.
Qed.

Lemma del_len g nd : In nd g -> length (del_node g (gname nd)) < length g.
Proof.
  induction g as [|x g IH]; intros Hin; [destruct Hin|]. simpl.
  pose proof (flen_le (fun nd0 => negb (str_eqb (gname nd0) (gname nd))) g) as Hle. unfold del_node in *.
  destruct Hin as [->|Hin].
  - rewrite str_eqb_refl. simpl. lia.
  - destruct (negb (str_eqb (gname x) (gname nd))); simpl; [apply IH in Hin; lia|lia].
Qed.

Lemma sort_loop_total fuel : forall g acc, length g + edge_count g < fuel -> sort_loop fuel g acc <> OutOfFuel.
Proof.
  induction fuel as [|f IH]; intros g acc Hf; [lia|].
  destruct g as [|x g0]; [simpl; discriminate|]. remember (x :: g0) as g.
  rewrite sort_loop_unfold by (rewrite Heqg; discriminate).
  destruct (remove_nodes_no_deps g) as [[nd g']|] eqn:E.
  - apply rnnd_spec in E as [Hin [_ ->]]. apply IH.
    unfold remove_unresolvable at 1. rewrite map_length.
    pose proof (edge_count_ru (del_node g (gname nd))). pose proof (edge_count_del g (gname nd)). pose proof (del_len g nd Hin). lia.
  - destruct (remove_type_fwd g) as [| |buf g'] eqn:E2.
    + exfalso. exact (remove_type_fwd_no_fuel g E2).
    + discriminate.
    + apply remove_type_fwd_spec in E2 as [-> [Hlt _]]. apply IH.
      unfold remove_unresolvable at 1. rewrite !map_length.
      pose proof (edge_count_ru (map (tf_map (names_of buf)) g)). lia.
Qed.

Lemma sort_total ds : sort ds <> OutOfFuel.
Proof. unfold sort, sort_graph. apply sort_loop_total. lia. Qed.

Lemma cycle_is_error ds c : Forall (fun d => dkind d <> KTypeFwd) ds ->
  is_cycle (resolve ds) c -> no_type_named (resolve ds) c -> sort ds = DeclLoop.
Proof.
  intros Hk Hc Hn. destruct (sort ds) as [out| |] eqn:E; [|reflexivity|].
  - exfalso. exact (no_cycle_sorts ds c out Hk (cycle_closed _ _ Hc) Hn E).
  - exfalso. exact (sort_total ds E).
Qed.

(* C17 — Sorter.Some: every call consumes a prefix of the queue and emits the declarations of ONE class only *)
From Coq Require Import List NArith ZArith Bool Arith Lia Permutation.
From Verif Require Import Common.GoStr C17.Model C17.Proof.
Import ListNotations.

(* what an item contributes to each of the four phases *)
Definition emit_pkg (it : item) : list decl := match it with IPackage specs => map pkg_decl specs | _ => [] end.
Definition emit_imp (it : item) : list decl := match it with IImport specs => map imp_decl specs | _ => [] end.
Definition emit_decl (it : item) : list decl := match it with IDecl ds => ds | _ => [] end.
Definition emit_stmt (it : item) : list decl :=
  match it with IExpr p => [mkDecl KExpr [] p []] | IStmt p => [mkDecl KStmt [] p []] | _ => [] end.

Definition only_pkg (it : item) := emit_imp it = [] /\ emit_decl it = [] /\ emit_stmt it = [].
Definition only_imp (it : item) := emit_pkg it = [] /\ emit_decl it = [] /\ emit_stmt it = [].
Definition only_decl (it : item) := emit_pkg it = [] /\ emit_imp it = [] /\ emit_stmt it = [].
Definition only_stmt (it : item) := emit_pkg it = [] /\ emit_imp it = [] /\ emit_decl it = [].
Definition quiet (it : item) := emit_pkg it = [] /\ emit_imp it = [] /\ emit_decl it = [] /\ emit_stmt it = [].

Lemma pop_packages_spec q : forall acc, exists run rest, q = run ++ rest /\ Forall only_pkg run /\
  pop_packages q acc = (sort_by_pos (acc ++ flat_map emit_pkg run), rest).
Proof.
  induction q as [|it q IH]; intros acc.
  - exists [], []. simpl. rewrite app_nil_r. auto.
  - destruct it; try (match goal with |- context [pop_packages (?x :: q) acc] => exists [], (x :: q); simpl; rewrite app_nil_r; repeat split; constructor end; fail).
    + destruct (IH acc) as [run [rest [-> [F E]]]]. exists (INil :: run), rest. simpl. split; [reflexivity|].
      split; [constructor; [repeat split|exact F]|exact E].
    + destruct (IH (acc ++ map pkg_decl specs)) as [run [rest [-> [F E]]]]. exists (IPackage specs :: run), rest. simpl.
      split; [reflexivity|]. split; [constructor; [repeat split|exact F]|]. rewrite E, app_assoc. reflexivity.
Qed.

Lemma pop_imports_spec q : forall acc, exists run rest, q = run ++ rest /\ Forall only_imp run /\
  pop_imports q acc = (sort_by_pos (acc ++ flat_map emit_imp run), rest).
Proof.
  induction q as [|it q IH]; intros acc.
  - exists [], []. simpl. rewrite app_nil_r. auto.
  - destruct it; try (match goal with |- context [pop_imports (?x :: q) acc] => exists [], (x :: q); simpl; rewrite app_nil_r; repeat split; constructor end; fail).
    + destruct (IH acc) as [run [rest [-> [F E]]]]. exists (INil :: run), rest. simpl. split; [reflexivity|].
      split; [constructor; [repeat split|exact F]|exact E].
    + destruct (IH (acc ++ map imp_decl specs)) as [run [rest [-> [F E]]]]. exists (IImport specs :: run), rest. simpl.
      split; [reflexivity|]. split; [constructor; [repeat split|exact F]|]. rewrite E, app_assoc. reflexivity.
Qed.

Lemma pop_decls_spec q : forall acc, exists run rest, q = run ++ rest /\ Forall only_decl run /\
  pop_decls q acc = (acc ++ flat_map emit_decl run, rest).
Proof.
  induction q as [|it q IH]; intros acc.
  - exists [], []. simpl. rewrite app_nil_r. auto.
  - destruct it; try (match goal with |- context [pop_decls (?x :: q) acc] => exists [], (x :: q); simpl; rewrite app_nil_r; repeat split; constructor end; fail).
    + destruct (IH acc) as [run [rest [-> [F E]]]]. exists (INil :: run), rest. simpl. split; [reflexivity|].
      split; [constructor; [repeat split|exact F]|exact E].
    + destruct (IH (acc ++ ds)) as [run [rest [-> [F E]]]]. exists (IDecl ds :: run), rest. simpl.
      split; [reflexivity|]. split; [constructor; [repeat split|exact F]|]. rewrite E, app_assoc. reflexivity.
Qed.

Lemma pop_stmts_spec q : forall acc, exists run rest, q = run ++ rest /\ Forall only_stmt run /\
  pop_stmts q acc = (sort_by_pos (acc ++ flat_map emit_stmt run), rest).
Proof.
  induction q as [|it q IH]; intros acc.
  - exists [], []. simpl. rewrite app_nil_r. auto.
  - destruct it; try (match goal with |- context [pop_stmts (?x :: q) acc] => exists [], (x :: q); simpl; rewrite app_nil_r; repeat split; constructor end; fail).
    + destruct (IH acc) as [run [rest [-> [F E]]]]. exists (INil :: run), rest. simpl. split; [reflexivity|].
      split; [constructor; [repeat split|exact F]|exact E].
    + destruct (IH (acc ++ [mkDecl KExpr [] pos []])) as [run [rest [-> [F E]]]]. exists (IExpr pos :: run), rest. simpl.
      split; [reflexivity|]. split; [constructor; [repeat split|exact F]|]. rewrite E, <- app_assoc. reflexivity.
    + destruct (IH (acc ++ [mkDecl KStmt [] pos []])) as [run [rest [-> [F E]]]]. exists (IStmt pos :: run), rest. simpl.
      split; [reflexivity|]. split; [constructor; [repeat split|exact F]|]. rewrite E, <- app_assoc. reflexivity.
Qed.

Lemma sort_by_pos_nil l : sort_by_pos l = [] -> l = [].
Proof. intros H. apply Permutation_nil. rewrite <- H. apply sort_by_pos_perm. Qed.

Lemma quiet_of {P : item -> Prop} (emit : item -> list decl) run :
  (forall it, P it -> emit it = [] -> quiet it) -> Forall P run -> flat_map emit run = [] -> Forall quiet run.
Proof.
  intros HP F. induction F as [|it run Hit _ IH]; simpl; intros H; [constructor|].
  apply app_eq_nil in H as [H1 H2]. constructor; auto.
Qed.

(* one call of Sorter.Some: the consumed part of the queue is a quiet prefix (nil nodes, empty clauses) followed by a run whose
   items belong to one class; the result is exactly what that run emits (sorted by Pos, or dependency-sorted) *)
Inductive some_result (q : list item) (l : list decl) (rest : list item) : Prop :=
| SomeRun (pre run : list item) :
    q = pre ++ run ++ rest -> Forall quiet pre ->
    ( (Forall only_pkg run /\ l = sort_by_pos (flat_map emit_pkg run))
   \/ (Forall only_imp run /\ l = sort_by_pos (flat_map emit_imp run))
   \/ (Forall only_decl run /\ sort (flat_map emit_decl run) = Ok l)
   \/ (Forall only_stmt run /\ l = sort_by_pos (flat_map emit_stmt run)) ) ->
    some_result q l rest.

Lemma sort_nil ds : Forall (fun d => dkind d <> KTypeFwd) ds -> sort ds = Ok [] -> ds = [].
Proof.
  intros Hk H. destruct (each_once ds [] Hk H) as [P _]. simpl in P. apply Permutation_nil in P.
  unfold resolve in P. destruct ds; [reflexivity|discriminate].
Qed.

Definition no_fwd_items (q : list item) : Prop :=
  Forall (fun it => Forall (fun d => dkind d <> KTypeFwd) (emit_decl it)) q.

Lemma no_fwd_flat q : no_fwd_items q -> Forall (fun d => dkind d <> KTypeFwd) (flat_map emit_decl q).
Proof.
  induction 1 as [|it q H _ IH]; simpl; [constructor|]. apply Forall_app. split; assumption.
Qed.

Lemma some_spec q l rest : no_fwd_items q -> some q = (Ok l, rest) -> some_result q l rest.
Proof.
  intros Hq. unfold some.
  destruct (pop_packages_spec q []) as [r1 [q1 [-> [F1 E1]]]]. rewrite E1. simpl app.
  destruct (sort_by_pos (flat_map emit_pkg r1)) as [|x l1] eqn:L1.
  - apply sort_by_pos_nil in L1.
    assert (Q1 : Forall quiet r1) by (apply (quiet_of emit_pkg r1 (P := only_pkg)); [intros it [A [B C]] D; repeat split; assumption|exact F1|exact L1]).
    destruct (pop_imports_spec q1 []) as [r2 [q2 [-> [F2 E2]]]]. rewrite E2. simpl app.
    destruct (sort_by_pos (flat_map emit_imp r2)) as [|y l2] eqn:L2.
    + apply sort_by_pos_nil in L2.
      assert (Q2 : Forall quiet r2) by (apply (quiet_of emit_imp r2 (P := only_imp)); [intros it [A [B C]] D; repeat split; assumption|exact F2|exact L2]).
      destruct (pop_decls_spec q2 []) as [r3 [q3 [-> [F3 E3]]]]. rewrite E3. simpl app.
      destruct (sort (flat_map emit_decl r3)) as [l3| |] eqn:L3; try (intros H; discriminate).
      destruct l3 as [|z l3].
      * assert (Q3 : Forall quiet r3).
        { apply (quiet_of emit_decl r3 (P := only_decl)); [intros it [A [B C]] D; repeat split; assumption|exact F3|].
          apply sort_nil; [|exact L3]. apply no_fwd_flat.
          unfold no_fwd_items in *. apply Forall_app in Hq as [_ Hq]. apply Forall_app in Hq as [_ Hq]. apply Forall_app in Hq as [Hq _]. exact Hq. }
        destruct (pop_stmts_spec q3 []) as [r4 [q4 [-> [F4 E4]]]]. rewrite E4. simpl app.
        intros H. inversion H; subst. apply (SomeRun _ _ _ (r1 ++ r2 ++ r3) r4).
        -- rewrite <- ?app_assoc; reflexivity.
        -- repeat (apply Forall_app; split); assumption.
        -- right. right. right. split; [exact F4|reflexivity].
      * intros H. inversion H; subst. apply (SomeRun _ _ _ (r1 ++ r2) r3).
        -- rewrite <- ?app_assoc; reflexivity.
        -- apply Forall_app. split; assumption.
        -- right. right. left. split; [exact F3|exact L3].
    + intros H. inversion H; subst. apply (SomeRun _ _ _ r1 r2).
      * rewrite <- ?app_assoc; reflexivity.
      * exact Q1.
      * right. left. split; [exact F2|symmetry; exact L2].
  - intros H. inversion H; subst. apply (SomeRun _ _ _ [] r1); [reflexivity|constructor|].
    left. split; [exact F1|symmetry; exact L1].
Qed.

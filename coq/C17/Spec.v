(* C17 — specification functions (definitions only): the "earliest ready declaration" order.
   Go spec ("Package initialization"): repeatedly select the earliest declaration in declaration order that is ready
   for initialisation, i.e. has no dependency on an uninitialised declaration. *)
From Coq Require Import List NArith ZArith Bool.
From Verif Require Import Common.GoStr C17.Model.
Import ListNotations.

(* all dependencies are already initialised *)
Definition ready (done : list decl) (d : decl) : bool :=
  forallb (fun n => str_in n (names_of done)) (ddeps d).

(* earliest in source order *)
Fixpoint min_pos (l : list decl) : option decl :=
  match l with
  | [] => None
  | d :: l' => match min_pos l' with
               | Some e => if N.leb (dpos d) (dpos e) then Some d else Some e
               | None => Some d
               end
  end.

Definition remove_named (n : str) (l : list decl) : list decl := filter (fun e => negb (str_eqb (dname e) n)) l.

Fixpoint go_order (fuel : nat) (rem done : list decl) : option (list decl) :=
  match rem with
  | [] => Some done
  | _ :: _ =>
      match fuel with
      | O => None
      | S f =>
          match min_pos (filter (ready done) rem) with
          | None => None                                   (* nothing is ready: initialisation cycle *)
          | Some d => go_order f (remove_named (dname d) rem) (done ++ [d])
          end
      end
  end.

Definition go_init_order (ds : list decl) : option (list decl) := go_order (length ds) (resolve ds) [].


(* C17 — executable model of base/dep/scope.go Scope.isLocal (the scope-chain walk only). Definitions only.
   A *Scope is represented by the suffix of the scope chain that starts at it (innermost first, the top-level scope
   last; Outer = tail; nil = []).  As written:
       outer := s.Outer
       for ; outer != nil; s = outer {
           if _, ok := s.Decls[name]; ok { return true }
           outer = outer.Outer
       }
       return false                                                                                              *)
From Coq Require Import List NArith Bool.
From Verif Require Import Common.GoStr C17.Model.
Import ListNotations.

Definition scope := list str.     (* the names in Scope.Decls *)

Fixpoint is_local_loop (fuel : nat) (s outer : list scope) (n : str) : bool :=
  match fuel with
  | O => false
  | S f =>
      match outer with
      | [] => false                                           (* outer == nil: leave the loop *)
      | _ :: outer' =>                                        (* outer' = outer.Outer *)
          if str_in n (hd [] s) then true                     (* s.Decls[name] *)
          else is_local_loop f outer' outer' n                (* outer = outer.Outer; then the post statement s = outer *)
      end
  end.
Definition is_local (chain : list scope) (n : str) : bool := is_local_loop (length chain) chain (tl chain) n.

(* what the comment of isLocal asks for: name is declared in some scope other than the top-level one *)
Definition is_local_spec (chain : list scope) (n : str) : bool := existsb (str_in n) (removelast chain).

(* C17 — lemmas about the model of base/dep (graph stage). *)
From Coq Require Import List NArith ZArith Bool Arith Lia Permutation Sorted.
From Verif Require Import Common.GoStr C17.Model.
Import ListNotations.

(* ---------- small facts ---------- *)
Lemma str_eqb_refl a : str_eqb a a = true.
Proof. apply str_eqb_eq. reflexivity. Qed.

Lemma str_eqb_neq a b : str_eqb a b = false <-> a <> b.
Proof.
  split; intros H.
  - intros E. apply str_eqb_eq in E. congruence.
  - destruct (str_eqb a b) eqn:E; [|reflexivity]. apply str_eqb_eq in E. contradiction.
Qed.

Lemma str_in_In n l : str_in n l = true <-> In n l.
Proof.
  unfold str_in. rewrite existsb_exists. split.
  - intros [x [H1 H2]]. apply str_eqb_eq in H2. subst. exact H1.
  - intros H. exists n. split; [exact H|apply str_eqb_refl].
Qed.

Definition gnames (g : graph) : list str := map gname g.

Lemma has_node_In g n : has_node g n = true <-> In n (gnames g).
Proof.
  unfold has_node, gnames. rewrite existsb_exists, in_map_iff. split.
  - intros [nd [H1 H2]]. apply str_eqb_eq in H2. exists nd. split; assumption.
  - intros [nd [H1 H2]]. exists nd. split; [exact H2|]. apply str_eqb_eq. exact H1.
Qed.

Lemma ins_pos_perm d l : Permutation (ins_pos d l) (d :: l).
Proof.
  induction l as [|e l IH]; simpl; [reflexivity|].
  destruct (N.leb (dpos d) (dpos e)); [reflexivity|].
  rewrite IH. apply perm_swap.
Qed.

Lemma sort_by_pos_perm l : Permutation (sort_by_pos l) l.
Proof.
  induction l as [|d l IH]; simpl; [reflexivity|].
  rewrite ins_pos_perm. constructor. exact IH.
Qed.

Lemma sort_by_pos_In l d : In d (sort_by_pos l) <-> In d l.
Proof.
  split; apply Permutation_in; [|symmetry]; apply sort_by_pos_perm.
Qed.

Lemma ins_u_In x y l : In y (ins_u x l) <-> y = x \/ In y l.
Proof.
  induction l as [|z l IH]; simpl.
  - intuition.
  - destruct (str_cmp x z) eqn:E; simpl.
    + apply str_cmp_eq in E. subst. intuition.
    + intuition.
    + rewrite IH. intuition.
Qed.

Lemma sort_unique_In y l : In y (sort_unique l) <-> In y l.
Proof.
  induction l as [|x l IH]; simpl; [reflexivity|].
  rewrite ins_u_In, IH. intuition.
Qed.

(* ---------- well-formed graphs ---------- *)
Definition nofwd (l : list decl) : list decl := filter (fun d => negb (is_fwd d)) l.

Lemma nofwd_app a b : nofwd (a ++ b) = nofwd a ++ nofwd b.
Proof. apply filter_app. Qed.

Lemma nofwd_id l : Forall (fun d => is_fwd d = false) l -> nofwd l = l.
Proof.
  induction 1 as [|d l H _ IH]; simpl; [reflexivity|]. rewrite H. simpl. f_equal. exact IH.
Qed.

Lemma nofwd_none l : Forall (fun d => is_fwd d = true) l -> nofwd l = [].
Proof.
  induction 1 as [|d l H _ IH]; simpl; [reflexivity|]. rewrite H. simpl. exact IH.
Qed.

(* names are unique and every declaration sits in the node carrying its name *)
Definition gwf (g : graph) : Prop :=
  NoDup (gnames g) /\ forall nd d, In nd g -> In d (gdecls nd) -> dname d = gname nd.

Lemma all_decls_In g d : In d (all_decls g) <-> exists nd, In nd g /\ In d (gdecls nd).
Proof. unfold all_decls. rewrite in_flat_map. reflexivity. Qed.

Lemma all_decls_remove_unresolvable g : all_decls (remove_unresolvable g) = all_decls g.
Proof.
  unfold remove_unresolvable, all_decls. generalize (has_node g). intros f.
  induction g as [|nd g IH]; simpl; [reflexivity|]. rewrite IH. reflexivity.
Qed.

Lemma gnames_remove_unresolvable g : gnames (remove_unresolvable g) = gnames g.
Proof.
  unfold remove_unresolvable, gnames. rewrite map_map. reflexivity.
Qed.

Lemma gwf_remove_unresolvable g : gwf g -> gwf (remove_unresolvable g).
Proof.
  intros [H1 H2]. split.
  - rewrite gnames_remove_unresolvable. exact H1.
  - intros nd d Hin Hd. unfold remove_unresolvable in Hin. apply in_map_iff in Hin as [nd0 [E Hin]].
    subst nd. simpl in *. apply H2; assumption.
Qed.

Lemma del_node_In g n nd : In nd (del_node g n) <-> In nd g /\ gname nd <> n.
Proof.
  unfold del_node. rewrite filter_In. rewrite negb_true_iff, str_eqb_neq. reflexivity.
Qed.

Lemma gnames_del_node_incl g n x : In x (gnames (del_node g n)) -> In x (gnames g) /\ x <> n.
Proof.
  unfold gnames. rewrite !in_map_iff. intros [nd [E H]]. apply del_node_In in H as [H1 H2]. subst x.
  split; [exists nd; auto|exact H2].
Qed.

Lemma NoDup_map_filter {A B} (f : A -> B) p l : NoDup (map f l) -> NoDup (map f (filter p l)).
Proof.
  induction l as [|x l IH]; simpl; intros H; [constructor|].
  inversion H; subst. destruct (p x); simpl; [|apply IH; assumption].
  constructor; [|apply IH; assumption].
  intros Hin. apply H2. apply in_map_iff in Hin as [y [E Hy]]. apply filter_In in Hy as [Hy _].
  apply in_map_iff. exists y. auto.
Qed.

Lemma gwf_del_node g n : gwf g -> gwf (del_node g n).
Proof.
  intros [H1 H2]. split.
  - apply NoDup_map_filter. exact H1.
  - intros nd d Hin. apply del_node_In in Hin as [Hin _]. apply H2. exact Hin.
Qed.

Lemma del_node_perm g nd : NoDup (gnames g) -> In nd g ->
  Permutation (all_decls g) (gdecls nd ++ all_decls (del_node g (gname nd))).
Proof.
  induction g as [|x g IH]; intros Hnd Hin; [destruct Hin|].
  simpl in Hnd. inversion Hnd as [|? ? Hx Hg]; subst.
  destruct Hin as [E|Hin].
  - subst x. simpl. rewrite str_eqb_refl. simpl.
    apply Permutation_app_head.
    assert (del_node g (gname nd) = g) as ->; [|reflexivity].
    unfold del_node. clear IH Hnd Hg. induction g as [|y g IH]; simpl; [reflexivity|].
    simpl in Hx. destruct (str_eqb (gname y) (gname nd)) eqn:E.
    + apply str_eqb_eq in E. exfalso. apply Hx. left. exact E.
    + simpl. f_equal. apply IH. intros H. apply Hx. right. exact H.
  - simpl. destruct (str_eqb (gname x) (gname nd)) eqn:E.
    + apply str_eqb_eq in E. exfalso. apply Hx. rewrite E. apply in_map. exact Hin.
    + simpl. rewrite (IH Hg Hin). rewrite !app_assoc. apply Permutation_app_tail. apply Permutation_app_comm.
Qed.

(* ---------- RemoveNodesNoDeps ---------- *)
Lemma rnnd_fold_spec g best r :
  fold_left rnnd_step g best = Some r ->
  (best = Some r) \/ (In (snd r) g /\ gedges (snd r) = []).
Proof.
  revert best. induction g as [|nd g IH]; simpl; intros best H; [left; exact H|].
  apply IH in H as [H|[H1 H2]]; [|right; split; [right; exact H1|exact H2]].
  unfold rnnd_step in H. destruct (gedges nd) eqn:E; [|left; exact H].
  destruct (first_lt (gdecls nd) (option_map fst best)); [|left; exact H].
  inversion H; subst. right. simpl. split; [left; reflexivity|exact E].
Qed.

Lemma rnnd_spec g nd g' : remove_nodes_no_deps g = Some (nd, g') ->
  In nd g /\ gedges nd = [] /\ g' = del_node g (gname nd).
Proof.
  unfold remove_nodes_no_deps. destruct (fold_left rnnd_step g None) as [[p n]|] eqn:E; [|discriminate].
  intros H. inversion H; subst. apply rnnd_fold_spec in E as [E|[E1 E2]]; [discriminate|].
  simpl in *. auto.
Qed.

(* ---------- maps over the graph that only shrink edge lists ---------- *)
Definition same_shape (f : gnode -> gnode) : Prop :=
  forall nd, gname (f nd) = gname nd /\ gdecls (f nd) = gdecls nd.

Lemma shape_all_decls f g : same_shape f -> all_decls (map f g) = all_decls g.
Proof.
  intros Hf. unfold all_decls. induction g as [|nd g IH]; simpl; [reflexivity|].
  rewrite IH. destruct (Hf nd) as [_ ->]. reflexivity.
Qed.

Lemma shape_gnames f g : same_shape f -> gnames (map f g) = gnames g.
Proof.
  intros Hf. unfold gnames. rewrite map_map. apply map_ext. intros nd. apply Hf.
Qed.

Lemma shape_gwf f g : same_shape f -> gwf g -> gwf (map f g).
Proof.
  intros Hf [H1 H2]. split.
  - rewrite shape_gnames; assumption.
  - intros nd d Hin Hd. apply in_map_iff in Hin as [nd0 [E Hin]]. subst nd.
    destruct (Hf nd0) as [-> E2]. rewrite E2 in Hd. apply H2; assumption.
Qed.

Definition tf_map (names : list str) (nd : gnode) : gnode :=
  if has_type nd then mkNode (gname nd) (gdecls nd) (filter (fun e => negb (str_in e names)) (gedges nd)) else nd.

Lemma tf_map_shape names : same_shape (tf_map names).
Proof. intros nd. unfold tf_map. destruct (has_type nd); simpl; auto. Qed.

Lemma tf_fold_spec (P : decl -> Prop) g vs acc :
  (forall nd d, In nd g -> In d (gdecls nd) -> is_type d = true -> P d) ->
  Forall P (snd acc) -> Forall P (snd (fold_left (tf_step g) vs acc)).
Proof.
  intros HP. revert acc. induction vs as [|nc vs IH]; simpl; intros acc Hacc; [exact Hacc|].
  apply IH. unfold tf_step. destruct (get_node g (fst nc)) as [nd|] eqn:E; [|exact Hacc].
  assert (Hnd : In nd g).
  { clear -E. induction g as [|x g IH]; simpl in E; [discriminate|].
    destruct (str_eqb (gname x) (fst nc)); [inversion E; left; reflexivity|right; auto]. }
  assert (Hd : forall d, In d (gdecls nd) -> is_type d = true -> P d) by (intros; eapply HP; eauto).
  clear E HP IH. revert acc Hacc. induction (gdecls nd) as [|d l IHl]; simpl; intros acc Hacc; [exact Hacc|].
  apply IHl; [intros d0 Hd0 Ht0; apply Hd; [right; exact Hd0|exact Ht0]|].
  unfold tf_decl. destruct acc as [most lst]. simpl in *.
  destruct (is_type d) eqn:Et; simpl; [|exact Hacc].
  destruct (Nat.ltb (snd nc) most); [exact Hacc|]. simpl.
  apply Forall_app. split; [destruct (Nat.ltb most (snd nc)); [constructor|exact Hacc]|].
  constructor; [apply Hd; [left; reflexivity|exact Et]|constructor].
Qed.

Lemma remove_type_fwd_spec g buf g' : remove_type_fwd g = TfSome buf g' ->
  g' = map (tf_map (names_of buf)) g /\
  edge_count g' < edge_count g /\
  Forall (fun e => exists t, In t (all_decls g) /\ is_type t = true /\ e = set_kind t KTypeFwd) buf.
Proof.
  unfold remove_type_fwd.
  destruct (visit_all _ g _ _) as [c|]; [|discriminate].
  destruct (fold_left (tf_step g) (visited c) (1, [])) as [most l] eqn:E.
  destruct l as [|d l]; [discriminate|].
  set (fwd := map (fun d => set_kind d KTypeFwd) (d :: l)).
  unfold remove_deps_for_type. fold (tf_map (names_of fwd)). fold (edge_count g).
  fold (edge_count (map (tf_map (names_of fwd)) g)).
  destruct (Nat.eqb _ 0) eqn:Ez; [discriminate|].
  intros H. inversion H; subst buf g'. clear H.
  split; [reflexivity|]. split.
  - apply Nat.eqb_neq in Ez. change (edge_count (map (tf_map (names_of fwd)) g) < edge_count g). lia.
  - assert (Hl : Forall (fun t => In t (all_decls g) /\ is_type t = true) (d :: l)).
    { change (d :: l) with (snd (most, d :: l)). rewrite <- E. apply tf_fold_spec; [|constructor].
      intros nd t H1 H2 H3. split; [apply all_decls_In; eauto|exact H3]. }
    unfold fwd. apply Forall_forall. intros e He. apply in_map_iff in He as [t [Et Ht]].
    rewrite Forall_forall in Hl. destruct (Hl t Ht). exists t. auto.
Qed.

(* ---------- building the graph ---------- *)
Definition gsorted (g : graph) : Prop := StronglySorted str_lt (gnames g).

Lemma g_add_names g d x : In x (gnames (g_add g d)) <-> x = dname d \/ In x (gnames g).
Proof.
  induction g as [|nd g IH]; simpl; [intuition|].
  destruct (str_cmp (dname d) (gname nd)) eqn:E; simpl.
  - apply str_cmp_eq in E. rewrite E. intuition.
  - intuition.
  - rewrite IH. intuition.
Qed.

Lemma g_add_sorted g d : gsorted (g_add g d) <-> gsorted g.
Proof.
  unfold gsorted. induction g as [|nd g IH]; simpl.
  - split; intros; repeat constructor.
  - destruct (str_cmp (dname d) (gname nd)) eqn:E; simpl.
    + reflexivity.
    + split; intros H.
      * inversion H; assumption.
      * constructor; [exact H|]. inversion H; subst. constructor; [exact E|].
        rewrite Forall_forall in *. intros x Hx. eapply str_lt_trans; [exact E|auto].
    + apply str_lt_gt in E. split; intros H; inversion H; subst; constructor.
      * apply IH. assumption.
      * rewrite Forall_forall in *. intros x Hx. apply H3. apply (g_add_names g d). right. exact Hx.
      * apply IH. assumption.
      * rewrite Forall_forall in *. intros x Hx. apply (g_add_names g d) in Hx as [->|Hx]; auto.
Qed.

Lemma sorted_NoDup l : StronglySorted str_lt l -> NoDup l.
Proof.
  induction 1 as [|x l H IH Hx]; constructor; [|exact IH].
  intros Hin. rewrite Forall_forall in Hx. apply (str_lt_irrefl x). apply Hx. exact Hin.
Qed.

Lemma g_add_named g d :
  (forall nd e, In nd g -> In e (gdecls nd) -> dname e = gname nd) ->
  forall nd e, In nd (g_add g d) -> In e (gdecls nd) -> dname e = gname nd.
Proof.
  induction g as [|x g IH]; simpl; intros H nd e Hin He.
  - destruct Hin as [<-|[]]. simpl in *. destruct He as [<-|[]]. reflexivity.
  - destruct (str_cmp (dname d) (gname x)) eqn:E.
    + destruct Hin as [<-|Hin]; [|apply (H nd e); auto]. simpl in *.
      apply in_app_iff in He as [He|[<-|[]]]; [apply (H x e); auto|]. apply str_cmp_eq. exact E.
    + destruct Hin as [<-|Hin]; [|apply (H nd e); auto]. simpl in *. destruct He as [<-|[]]. reflexivity.
    + destruct Hin as [<-|Hin]; [apply (H x e); auto|]. apply IH with (nd := nd); auto.
Qed.

Lemma g_add_perm g d : Permutation (all_decls (g_add g d)) (d :: all_decls g).
Proof.
  induction g as [|x g IH]; simpl; [reflexivity|].
  destruct (str_cmp (dname d) (gname x)); simpl.
  - fold (all_decls g). rewrite <- app_assoc. simpl.
    rewrite <- Permutation_middle. reflexivity.
  - reflexivity.
  - fold (all_decls (g_add g d)). fold (all_decls g). rewrite IH.
    rewrite <- Permutation_middle. reflexivity.
Qed.

Lemma decl_map_props_gen l g :
  gsorted g -> (forall nd e, In nd g -> In e (gdecls nd) -> dname e = gname nd) ->
  let g' := fold_left g_add l g in
  gsorted g' /\ (forall nd e, In nd g' -> In e (gdecls nd) -> dname e = gname nd) /\
  Permutation (all_decls g') (l ++ all_decls g).
Proof.
  revert g. induction l as [|d l IH]; simpl; intros g H1 H2; [auto|].
  destruct (IH (g_add g d)) as [A [B C]]; [apply g_add_sorted; exact H1|apply g_add_named; exact H2|].
  split; [exact A|]. split; [exact B|]. rewrite C, g_add_perm. symmetry. apply Permutation_middle.
Qed.

Lemma with_edges_shape : same_shape (fun nd => mkNode (gname nd) (gdecls nd) (sort_unique (flat_map ddeps (gdecls nd)))).
Proof. intros nd. simpl. auto. Qed.

Lemma build_gwf ds : gwf (build ds).
Proof.
  unfold build, with_edges. apply shape_gwf; [apply with_edges_shape|].
  destruct (decl_map_props_gen (resolve ds) []) as [A [B _]]; [constructor|intros ? ? []|].
  split; [apply sorted_NoDup; exact A|exact B].
Qed.

Lemma build_perm ds : Permutation (all_decls (build ds)) (resolve ds).
Proof.
  unfold build, with_edges. rewrite shape_all_decls by apply with_edges_shape.
  destruct (decl_map_props_gen (resolve ds) []) as [_ [_ C]]; [constructor|intros ? ? []|].
  simpl in C. rewrite app_nil_r in C. exact C.
Qed.

Lemma build_edges ds nd : In nd (build ds) -> gedges nd = sort_unique (flat_map ddeps (gdecls nd)).
Proof.
  unfold build, with_edges. intros H. apply in_map_iff in H as [x [<- _]]. reflexivity.
Qed.

(* ---------- each declaration exactly once ---------- *)
Definition fwd_of_type (D : list decl) (e : decl) : Prop :=
  exists t, In t D /\ is_type t = true /\ e = set_kind t KTypeFwd.

Definition no_fwd_in (l : list decl) : Prop := Forall (fun d => is_fwd d = false) l.

Lemma no_fwd_sub l l' : (forall d, In d l' -> In d l) -> no_fwd_in l -> no_fwd_in l'.
Proof. unfold no_fwd_in. rewrite !Forall_forall. auto. Qed.

Lemma set_kind_fwd t : is_fwd (set_kind t KTypeFwd) = true.
Proof. reflexivity. Qed.

Lemma all_decls_del_sub g n d : In d (all_decls (del_node g n)) -> In d (all_decls g).
Proof.
  rewrite !all_decls_In. intros [nd [H1 H2]]. apply del_node_In in H1 as [H1 _]. eauto.
Qed.

Lemma loop_each_once fuel : forall g acc out,
  gwf g -> no_fwd_in (all_decls g) -> sort_loop fuel g acc = Ok out ->
  exists rest, out = acc ++ rest /\ Permutation (nofwd rest) (all_decls g) /\
               Forall (fun e => is_fwd e = true -> fwd_of_type (all_decls g) e) rest.
Proof.
  induction fuel as [|f IH]; intros g acc out Hwf Hnf H.
  - destruct g; simpl in H; [|discriminate]. inversion H; subst. exists []. rewrite app_nil_r. repeat split; constructor.
  - destruct g as [|x g0]; [simpl in H; inversion H; subst; exists []; rewrite app_nil_r; repeat split; constructor|].
    remember (x :: g0) as g. simpl in H. rewrite Heqg in H at 1.
    destruct (remove_nodes_no_deps g) as [[nd g']|] eqn:E.
    + apply rnnd_spec in E as [Hin [_ ->]].
      assert (Hsub : forall d, In d (all_decls (del_node g (gname nd))) -> In d (all_decls g)) by (intros; eapply all_decls_del_sub; eauto).
      apply IH in H as [rest [-> [P F]]].
      * exists (sort_by_pos (gdecls nd) ++ rest). split; [rewrite app_assoc; reflexivity|]. split.
        -- rewrite nofwd_app, P, all_decls_remove_unresolvable.
           rewrite nofwd_id.
           ++ rewrite (del_node_perm g nd) by (destruct Hwf; assumption). apply Permutation_app_tail. apply sort_by_pos_perm.
           ++ unfold no_fwd_in in Hnf. rewrite Forall_forall in *. intros d Hd. apply Hnf. apply (proj1 (sort_by_pos_In _ _)) in Hd.
              apply all_decls_In. eauto.
        -- apply Forall_app. split.
           ++ rewrite Forall_forall. intros d Hd Hf. apply (proj1 (sort_by_pos_In _ _)) in Hd.
              unfold no_fwd_in in Hnf. rewrite Forall_forall in Hnf. rewrite Hnf in Hf; [discriminate|]. apply all_decls_In. eauto.
           ++ rewrite all_decls_remove_unresolvable in F. eapply Forall_impl; [|exact F]. simpl. intros e He Hf.
              destruct (He Hf) as [t [H1 H2]]. exists t. split; auto.
      * apply gwf_remove_unresolvable, gwf_del_node. exact Hwf.
      * rewrite all_decls_remove_unresolvable. eapply no_fwd_sub; eauto.
    + destruct (remove_type_fwd g) as [| |buf g'] eqn:E2; try discriminate.
      apply remove_type_fwd_spec in E2 as [-> [_ Hbuf]].
      assert (Had : all_decls (map (tf_map (names_of buf)) g) = all_decls g) by (apply shape_all_decls, tf_map_shape).
      apply IH in H as [rest [-> [P F]]].
      * exists (sort_by_pos buf ++ rest). split; [rewrite app_assoc; reflexivity|]. split.
        -- rewrite nofwd_app, P, all_decls_remove_unresolvable, Had. rewrite nofwd_none; [reflexivity|].
           rewrite Forall_forall in *. intros e He. apply (proj1 (sort_by_pos_In _ _)) in He. destruct (Hbuf e He) as [t [_ [_ ->]]]. reflexivity.
        -- apply Forall_app. split.
           ++ rewrite Forall_forall in *. intros e He _. apply (proj1 (sort_by_pos_In _ _)) in He. apply Hbuf. exact He.
           ++ rewrite all_decls_remove_unresolvable, Had in F. exact F.
      * apply gwf_remove_unresolvable, shape_gwf; [apply tf_map_shape|exact Hwf].
      * rewrite all_decls_remove_unresolvable, Had. exact Hnf.
Qed.

Lemma resolve_kind ds : map dkind (resolve ds) = map dkind ds.
Proof. unfold resolve. rewrite map_map. reflexivity. Qed.

Lemma resolve_no_fwd ds : Forall (fun d => dkind d <> KTypeFwd) ds -> no_fwd_in (resolve ds).
Proof.
  unfold no_fwd_in, resolve. rewrite !Forall_forall. intros H d Hd. apply in_map_iff in Hd as [x [<- Hx]].
  unfold is_fwd. simpl. specialize (H x Hx). destruct (dkind x); try reflexivity. congruence.
Qed.

Lemma each_once ds out : Forall (fun d => dkind d <> KTypeFwd) ds -> sort ds = Ok out ->
  Permutation (nofwd out) (resolve ds) /\
  Forall (fun e => is_fwd e = true -> fwd_of_type (resolve ds) e) out.
Proof.
  intros Hk H. unfold sort, sort_graph in H.
  assert (Hnf : no_fwd_in (all_decls (build ds))).
  { eapply no_fwd_sub; [|apply resolve_no_fwd; exact Hk]. intros d. apply Permutation_in. apply build_perm. }
  apply loop_each_once in H as [rest [-> [P F]]].
  - simpl. rewrite all_decls_remove_unresolvable in *. split; [rewrite P; apply build_perm|].
    eapply Forall_impl; [|exact F]. simpl. intros e He Hf. destruct (He Hf) as [t [H1 H2]]. exists t. split; [|exact H2].
    eapply Permutation_in; [apply build_perm|exact H1].
  - apply gwf_remove_unresolvable, build_gwf.
  - rewrite all_decls_remove_unresolvable. exact Hnf.
Qed.

(* ---------- generic induction over the Sort loop ---------- *)
Definition Base (D : list decl) (g : graph) (acc : list decl) : Prop :=
  gwf g /\ no_fwd_in (all_decls g) /\ Permutation (nofwd acc ++ all_decls g) D /\
  Forall (fun e => is_fwd e = true -> fwd_of_type D e) acc.

Lemma Base_ru D g acc : Base D g acc -> Base D (remove_unresolvable g) acc.
Proof.
  intros [A [B [C E]]]. split; [apply gwf_remove_unresolvable; exact A|].
  rewrite all_decls_remove_unresolvable. auto.
Qed.

Lemma Base_del D g acc nd : Base D g acc -> In nd g ->
  Base D (del_node g (gname nd)) (acc ++ sort_by_pos (gdecls nd)).
Proof.
  intros [A [B [C E]]] Hin.
  assert (Hnf : no_fwd_in (gdecls nd)).
  { eapply no_fwd_sub; [|exact B]. intros d Hd. apply all_decls_In. eauto. }
  split; [apply gwf_del_node; exact A|]. split; [|split].
  - eapply no_fwd_sub; [|exact B]. intros d. apply all_decls_del_sub.
  - rewrite nofwd_app, (nofwd_id (sort_by_pos (gdecls nd))).
    + rewrite <- C, <- app_assoc. apply Permutation_app_head.
      rewrite (del_node_perm g nd) by (destruct A; assumption). apply Permutation_app_tail. apply sort_by_pos_perm.
    + eapply no_fwd_sub; [|exact Hnf]. intros d Hd. apply sort_by_pos_In. exact Hd.
  - apply Forall_app. split; [exact E|]. unfold no_fwd_in in Hnf. rewrite Forall_forall in *. intros d Hd Hf.
    apply (proj1 (sort_by_pos_In _ _)) in Hd. rewrite (Hnf d Hd) in Hf. discriminate.
Qed.

Lemma Base_tf D g acc buf : Base D g acc -> Forall (fwd_of_type (all_decls g)) buf ->
  Base D (map (tf_map (names_of buf)) g) (acc ++ sort_by_pos buf).
Proof.
  intros [A [B [C E]]] Hb.
  assert (Had : all_decls (map (tf_map (names_of buf)) g) = all_decls g) by (apply shape_all_decls, tf_map_shape).
  split; [apply shape_gwf; [apply tf_map_shape|exact A]|]. rewrite Had. split; [exact B|]. split.
  - rewrite nofwd_app. rewrite (nofwd_none (sort_by_pos buf)); [rewrite app_nil_r; exact C|].
    rewrite Forall_forall in *. intros e He. apply (proj1 (sort_by_pos_In _ _)) in He. destruct (Hb e He) as [t [_ [_ ->]]]. reflexivity.
  - apply Forall_app. split; [exact E|]. rewrite Forall_forall in *. intros e He _.
    apply (proj1 (sort_by_pos_In _ _)) in He. destruct (Hb e He) as [t [H1 H2]]. exists t. split; [|exact H2].
    eapply Permutation_in; [exact C|]. apply in_or_app. right. exact H1.
Qed.

Section LoopInv.
  Variable D : list decl.
  Variable I : graph -> list decl -> Prop.
  Hypothesis step_del : forall g acc nd,
    Base D g acc -> I g acc -> In nd g -> gedges nd = [] -> remove_nodes_no_deps g = Some (nd, del_node g (gname nd)) ->
    Base D (remove_unresolvable (del_node g (gname nd))) (acc ++ sort_by_pos (gdecls nd)) ->
    I (remove_unresolvable (del_node g (gname nd))) (acc ++ sort_by_pos (gdecls nd)).
  Hypothesis step_tf : forall g acc buf,
    Base D g acc -> I g acc -> remove_nodes_no_deps g = None -> Forall (fwd_of_type (all_decls g)) buf ->
    Base D (remove_unresolvable (map (tf_map (names_of buf)) g)) (acc ++ sort_by_pos buf) ->
    I (remove_unresolvable (map (tf_map (names_of buf)) g)) (acc ++ sort_by_pos buf).

  Lemma sort_loop_inv fuel : forall g acc out,
    Base D g acc -> I g acc -> sort_loop fuel g acc = Ok out -> Base D [] out /\ I [] out.
  Proof.
    induction fuel as [|f IH]; intros g acc out HB HI H.
    - destruct g; simpl in H; [|discriminate]. inversion H; subst. auto.
    - destruct g as [|x g0]; [simpl in H; inversion H; subst; auto|].
      remember (x :: g0) as g. simpl in H. rewrite Heqg in H at 1.
      destruct (remove_nodes_no_deps g) as [[nd g']|] eqn:E.
      + destruct (rnnd_spec _ _ _ E) as [Hin [He ->]].
        assert (HB' := Base_ru _ _ _ (Base_del _ _ _ _ HB Hin)).
        apply IH in H; auto.
      + destruct (remove_type_fwd g) as [| |buf g'] eqn:E2; try discriminate.
        apply remove_type_fwd_spec in E2 as [-> [_ Hbuf]].
        assert (HB' := Base_ru _ _ _ (Base_tf _ _ _ _ HB Hbuf)).
        apply IH in H; auto.
  Qed.
End LoopInv.

Lemma Base_init ds : Forall (fun d => dkind d <> KTypeFwd) ds -> Base (resolve ds) (remove_unresolvable (build ds)) [].
Proof.
  intros Hk. apply Base_ru. split; [apply build_gwf|]. split; [|split].
  - eapply no_fwd_sub; [|apply resolve_no_fwd; exact Hk]. intros d. apply Permutation_in. apply build_perm.
  - simpl. apply build_perm.
  - constructor.
Qed.

(* ---------- topological order ---------- *)
Definition emitted (l : list decl) (n : str) : Prop := exists e, In e l /\ dname e = n /\ is_fwd e = false.
Definition fwd_emitted (l : list decl) (n : str) : Prop := exists e, In e l /\ dname e = n /\ is_fwd e = true.
Definition dep_ok (D l : list decl) (d : decl) (n : str) : Prop :=
  emitted l n \/ ((exists t, In t D /\ dname t = dname d /\ is_type t = true) /\ fwd_emitted l n).
Definition Topo (D acc : list decl) : Prop :=
  forall l1 d l2, acc = l1 ++ d :: l2 -> is_fwd d = false -> forall n, In n (ddeps d) -> dep_ok D l1 d n.
Definition resolvable (D : list decl) : Prop :=
  forall d n, In d D -> In n (ddeps d) -> exists e, In e D /\ dname e = n.
Definition edges_cover (D : list decl) (g : graph) (acc : list decl) : Prop :=
  forall nd d n, In nd g -> In d (gdecls nd) -> In n (ddeps d) -> In n (gedges nd) \/ dep_ok D acc d n.

Lemma emitted_app l l' n : emitted l n -> emitted (l ++ l') n.
Proof. intros [e [H1 H2]]. exists e. split; [apply in_or_app; left; exact H1|exact H2]. Qed.
Lemma fwd_emitted_app l l' n : fwd_emitted l n -> fwd_emitted (l ++ l') n.
Proof. intros [e [H1 H2]]. exists e. split; [apply in_or_app; left; exact H1|exact H2]. Qed.
Lemma dep_ok_app D l l' d n : dep_ok D l d n -> dep_ok D (l ++ l') d n.
Proof. intros [H|[H1 H2]]; [left; apply emitted_app; exact H|right; split; [exact H1|apply fwd_emitted_app; exact H2]]. Qed.

Lemma Base_in_D D g acc d : Base D g acc -> In d (all_decls g) -> In d D.
Proof. intros [_ [_ [C _]]] H. eapply Permutation_in; [exact C|]. apply in_or_app. right. exact H. Qed.

Lemma Base_name_cases D g acc n : Base D g acc -> (exists e, In e D /\ dname e = n) ->
  emitted acc n \/ In n (gnames g).
Proof.
  intros [[_ A] [_ [C _]]] [e [He <-]]. apply (Permutation_in _ (Permutation_sym C)) in He.
  apply in_app_or in He as [He|He].
  - left. unfold nofwd in He. apply filter_In in He as [H1 H2]. exists e. rewrite negb_true_iff in H2. auto.
  - right. apply all_decls_In in He as [nd [H1 H2]]. rewrite (A nd e H1 H2). apply in_map. exact H1.
Qed.

Lemma edges_cover_ru D g acc : resolvable D -> Base D g acc -> edges_cover D g acc ->
  edges_cover D (remove_unresolvable g) acc.
Proof.
  intros HR HB HC nd' d n Hin Hd Hn. unfold remove_unresolvable in Hin. apply in_map_iff in Hin as [nd [<- Hin]].
  simpl in *. destruct (HC nd d n Hin Hd Hn) as [He|Hok]; [|right; exact Hok].
  assert (HdD : In d D) by (eapply Base_in_D; [exact HB|apply all_decls_In; eauto]).
  destruct (Base_name_cases D g acc n HB (HR d n HdD Hn)) as [Hem|Hg].
  - right. left. exact Hem.
  - left. apply filter_In. split; [exact He|]. apply has_node_In. exact Hg.
Qed.

Lemma app_split_cases {A} (acc B l1 l2 : list A) d : acc ++ B = l1 ++ d :: l2 ->
  (exists l2', acc = l1 ++ d :: l2') \/ (exists b1 b2, l1 = acc ++ b1 /\ B = b1 ++ d :: b2).
Proof.
  revert l1. induction acc as [|a acc IH]; intros l1 H; simpl in *.
  - right. exists l1, l2. auto.
  - destruct l1 as [|x l1]; simpl in H; inversion H; subst.
    + left. exists acc. reflexivity.
    + destruct (IH l1 H2) as [[l2' ->]|[b1 [b2 [-> ->]]]]; [left; exists l2'; reflexivity|right; exists b1, b2; auto].
Qed.

Lemma has_type_witness D g acc nd d : Base D g acc -> In nd g -> In d (gdecls nd) -> has_type nd = true ->
  exists t, In t D /\ dname t = dname d /\ is_type t = true.
Proof.
  intros HB Hin Hd Ht. unfold has_type in Ht. apply existsb_exists in Ht as [t [H1 H2]].
  exists t. split; [eapply Base_in_D; [exact HB|apply all_decls_In; eauto]|]. split; [|exact H2].
  destruct HB as [[_ A] _]. rewrite (A nd t Hin H1), (A nd d Hin Hd). reflexivity.
Qed.

Definition I_topo (D : list decl) (g : graph) (acc : list decl) : Prop := Topo D acc /\ edges_cover D g acc.

Lemma topo_step_del D g acc nd : resolvable D ->
  Base D g acc -> I_topo D g acc -> In nd g -> gedges nd = [] ->
  Base D (remove_unresolvable (del_node g (gname nd))) (acc ++ sort_by_pos (gdecls nd)) ->
  I_topo D (remove_unresolvable (del_node g (gname nd))) (acc ++ sort_by_pos (gdecls nd)).
Proof.
  intros HR HB [HT HC] Hin He HB'. split.
  - intros l1 d l2 Hsplit Hf n Hn. apply app_split_cases in Hsplit as [[l2' ->]|[b1 [b2 [-> HBs]]]].
    + eapply HT; eauto.
    + apply dep_ok_app. assert (Hd : In d (gdecls nd)).
      { apply sort_by_pos_In. rewrite HBs. apply in_or_app. right. left. reflexivity. }
      destruct (HC nd d n Hin Hd Hn) as [H|H]; [rewrite He in H; destruct H|exact H].
  - apply edges_cover_ru; [exact HR| |].
    + destruct HB' as [A [B [C E]]]. split; [apply gwf_del_node; destruct HB; assumption|].
      rewrite all_decls_remove_unresolvable in *. auto.
    + intros nd' d n Hin' Hd Hn. apply del_node_In in Hin' as [Hin' _].
      destruct (HC nd' d n Hin' Hd Hn) as [H|H]; [left; exact H|right; apply dep_ok_app; exact H].
Qed.

Lemma topo_step_tf D g acc buf : resolvable D ->
  Base D g acc -> I_topo D g acc ->
  Base D (remove_unresolvable (map (tf_map (names_of buf)) g)) (acc ++ sort_by_pos buf) ->
  Forall (fwd_of_type (all_decls g)) buf ->
  I_topo D (remove_unresolvable (map (tf_map (names_of buf)) g)) (acc ++ sort_by_pos buf).
Proof.
  intros HR HB [HT HC] HB' Hbuf. split.
  - intros l1 d l2 Hsplit Hf n Hn. apply app_split_cases in Hsplit as [[l2' ->]|[b1 [b2 [-> HBs]]]].
    + eapply HT; eauto.
    + exfalso. assert (Hd : In d buf).
      { apply sort_by_pos_In. rewrite HBs. apply in_or_app. right. left. reflexivity. }
      rewrite Forall_forall in Hbuf. destruct (Hbuf d Hd) as [t [_ [_ ->]]]. discriminate.
  - apply edges_cover_ru; [exact HR| |].
    + destruct HB' as [A [B [C E]]]. split; [apply shape_gwf; [apply tf_map_shape|destruct HB; assumption]|].
      rewrite all_decls_remove_unresolvable in *. auto.
    + intros nd' d n Hin' Hd Hn. apply in_map_iff in Hin' as [nd [<- Hin]].
      assert (Hd' : In d (gdecls nd)).
      { unfold tf_map in Hd. destruct (has_type nd); exact Hd. }
      destruct (HC nd d n Hin Hd' Hn) as [H|H]; [|right; apply dep_ok_app; exact H].
      unfold tf_map. destruct (has_type nd) eqn:Et; [|left; exact H]. simpl.
      destruct (str_in n (names_of buf)) eqn:Es.
      * right. right. split; [exact (has_type_witness D g acc nd d HB Hin Hd' Et)|].
        apply str_in_In in Es. unfold names_of in Es. apply in_map_iff in Es as [e [E1 E2]].
        exists e. split; [apply in_or_app; right; apply sort_by_pos_In; exact E2|]. split; [exact E1|].
        rewrite Forall_forall in Hbuf. destruct (Hbuf e E2) as [t [_ [_ ->]]]. reflexivity.
      * left. apply filter_In. split; [exact H|]. rewrite Es. reflexivity.
Qed.

Lemma resolve_resolvable ds : resolvable (resolve ds).
Proof.
  intros d n Hd Hn. unfold resolve in Hd. apply in_map_iff in Hd as [x [<- Hx]]. simpl in Hn.
  apply filter_In in Hn as [_ Hn]. apply str_in_In in Hn. unfold names_of in Hn. apply in_map_iff in Hn as [e [E1 E2]].
  exists (set_deps e (filter (fun n => str_in n (names_of ds)) (ddeps e))). split; [|exact E1].
  unfold resolve. apply in_map_iff. exists e. auto.
Qed.

Lemma edges_cover_init ds : edges_cover (resolve ds) (build ds) [].
Proof.
  intros nd d n Hin Hd Hn. left. rewrite (build_edges ds nd Hin). apply sort_unique_In.
  apply in_flat_map. exists d. auto.
Qed.

Lemma topological ds out : Forall (fun d => dkind d <> KTypeFwd) ds -> sort ds = Ok out -> Topo (resolve ds) out.
Proof.
  intros Hk H. unfold sort, sort_graph in H.
  pose proof (resolve_resolvable ds) as HR.
  assert (HB0 : Base (resolve ds) (build ds) []).
  { split; [apply build_gwf|]. split; [|split; [apply build_perm|constructor]].
    eapply no_fwd_sub; [|apply resolve_no_fwd; exact Hk]. intros d. apply Permutation_in. apply build_perm. }
  apply (sort_loop_inv (resolve ds) (I_topo (resolve ds))) in H.
  - destruct H as [_ [HT _]]. exact HT.
  - intros. apply topo_step_del; auto.
  - intros. apply topo_step_tf; auto.
  - apply Base_init. exact Hk.
  - split.
    + intros l1 d l2 Hs. destruct l1; discriminate.
    + apply edges_cover_ru; [exact HR|exact HB0|apply edges_cover_init].
Qed.

(* ---------- a cycle without type declarations never sorts ---------- *)
Definition dep_on (D : list decl) (a b : str) : Prop := exists d, In d D /\ dname d = a /\ In b (ddeps d).
(* every member depends on a member: holds for the set of names of any dependency cycle *)
Definition closed_cycle (D : list decl) (S : list str) : Prop :=
  S <> [] /\ forall a, In a S -> exists b, In b S /\ dep_on D a b.
Definition no_type_named (D : list decl) (S : list str) : Prop :=
  forall t, In t D -> In (dname t) S -> is_type t = false.
Definition is_cycle (D : list decl) (c : list str) : Prop :=
  c <> [] /\ forall i, i < length c -> dep_on D (nth i c []) (nth (S i mod length c) c []).

Lemma cycle_closed D c : is_cycle D c -> closed_cycle D c.
Proof.
  intros [H1 H2]. assert (Hl : length c <> 0) by (destruct c; [congruence|discriminate]).
  split; [exact H1|]. intros a Ha. apply (In_nth _ _ []) in Ha as [i [Hi <-]].
  exists (nth (S i mod length c) c []). split; [|apply H2; exact Hi].
  apply nth_In. apply Nat.mod_upper_bound. exact Hl.
Qed.

Definition I_cyc (S : list str) (g : graph) (acc : list decl) : Prop :=
  forall a, In a S -> exists nd, In nd g /\ gname nd = a /\ exists b, In b S /\ In b (gedges nd).

Lemma I_cyc_ru S g acc acc' : I_cyc S g acc -> I_cyc S (remove_unresolvable g) acc'.
Proof.
  intros H a Ha. destruct (H a Ha) as [nd [H1 [H2 [b [H3 H4]]]]].
  exists (mkNode (gname nd) (gdecls nd) (filter (has_node g) (gedges nd))). split; [|split; [exact H2|]].
  - unfold remove_unresolvable. apply in_map_iff. exists nd. auto.
  - exists b. split; [exact H3|]. simpl. apply filter_In. split; [exact H4|].
    destruct (H b H3) as [nb [B1 [B2 _]]]. apply has_node_In. rewrite <- B2. apply in_map. exact B1.
Qed.

Lemma node_unique g x y : NoDup (gnames g) -> In x g -> In y g -> gname x = gname y -> x = y.
Proof.
  induction g as [|z g IH]; intros Hnd Hx Hy E; [destruct Hx|].
  simpl in Hnd. inversion Hnd; subst.
  destruct Hx as [<-|Hx], Hy as [<-|Hy]; auto.
  - exfalso. apply H1. rewrite E. apply in_map. exact Hy.
  - exfalso. apply H1. rewrite <- E. apply in_map. exact Hx.
Qed.

Lemma no_cycle_sorts ds S out : Forall (fun d => dkind d <> KTypeFwd) ds ->
  closed_cycle (resolve ds) S -> no_type_named (resolve ds) S -> sort ds <> Ok out.
Proof.
  intros Hk [Hne HS] HNT H. unfold sort, sort_graph in H.
  apply (sort_loop_inv (resolve ds) (I_cyc S)) in H.
  - destruct H as [_ H]. destruct S as [|a S]; [congruence|]. destruct (H a (or_introl eq_refl)) as [nd [[] _]].
  - intros g acc nd HB HI Hin He _ _. apply I_cyc_ru with (acc := acc).
    intros a Ha. destruct (HI a Ha) as [x [X1 [X2 [b [X3 X4]]]]]. exists x. split; [|split; [exact X2|exists b; auto]].
    apply del_node_In. split; [exact X1|]. intros E.
    destruct HB as [[Hnd _] _]. rewrite (node_unique g x nd Hnd X1 Hin E) in X4. rewrite He in X4. destruct X4.
  - intros g acc buf HB HI _ _ _. apply I_cyc_ru with (acc := acc).
    intros a Ha. destruct (HI a Ha) as [x [X1 [X2 [b [X3 X4]]]]]. exists x. split; [|split; [exact X2|exists b; auto]].
    apply in_map_iff. exists x. split; [|exact X1]. unfold tf_map. destruct (has_type x) eqn:Et; [|reflexivity].
    exfalso. unfold has_type in Et. apply existsb_exists in Et as [t [T1 T2]].
    assert (HtD : In t (resolve ds)) by (eapply Base_in_D; [exact HB|apply all_decls_In; eauto]).
    destruct HB as [[_ Hn] _]. rewrite (HNT t HtD) in T2; [discriminate|]. rewrite (Hn x t X1 T1), X2. exact Ha.
  - apply Base_init. exact Hk.
  - apply I_cyc_ru with (acc := []). intros a Ha. destruct (HS a Ha) as [b [Hb [d [D1 [D2 D3]]]]].
    apply (Permutation_in _ (Permutation_sym (build_perm ds))) in D1. apply all_decls_In in D1 as [nd [N1 N2]].
    exists nd. split; [exact N1|]. split.
    + destruct (build_gwf ds) as [_ Hn]. rewrite <- (Hn nd d N1 N2). exact D2.
    + exists b. split; [exact Hb|]. rewrite (build_edges ds nd N1). apply sort_unique_In. apply in_flat_map. exists d. auto.
Qed.

(* ---------- the result does not depend on the order in which the declarations arrive ---------- *)
Lemma sorted_ext {A} (f : A -> str) (l l' : list A) :
  StronglySorted str_lt (map f l) -> StronglySorted str_lt (map f l') ->
  (forall x, In x l <-> In x l') -> l = l'.
Proof.
  revert l'. induction l as [|a l IH]; intros l' H1 H2 Hiff.
  - destruct l' as [|b l']; [reflexivity|]. destruct (proj2 (Hiff b) (or_introl eq_refl)).
  - destruct l' as [|b l']; [destruct (proj1 (Hiff a) (or_introl eq_refl))|].
    simpl in H1, H2. inversion H1 as [|? ? S1 F1]; inversion H2 as [|? ? S2 F2]; subst.
    rewrite Forall_forall in F1, F2.
    assert (a = b).
    { destruct (proj1 (Hiff a) (or_introl eq_refl)) as [E|Ha]; [auto|].
      destruct (proj2 (Hiff b) (or_introl eq_refl)) as [E|Hb]; [auto|].
      exfalso. apply (str_lt_irrefl (f a)). eapply str_lt_trans; [apply F1, in_map, Hb|apply F2, in_map, Ha]. }
    subst b. f_equal. apply IH; auto. intros x. split; intros Hx.
    + destruct (proj1 (Hiff x) (or_intror Hx)) as [E|Hx']; [|exact Hx']. subst x.
      exfalso. apply (str_lt_irrefl (f a)). apply F1, in_map, Hx.
    + destruct (proj2 (Hiff x) (or_intror Hx)) as [E|Hx']; [|exact Hx']. subst x.
      exfalso. apply (str_lt_irrefl (f a)). apply F2, in_map, Hx.
Qed.

Definition single (d : decl) : gnode := mkNode (dname d) [d] [].

Lemma g_add_fresh g d nd : ~ In (dname d) (gnames g) -> (In nd (g_add g d) <-> nd = single d \/ In nd g).
Proof.
  induction g as [|x g IH]; simpl; intros Hn.
  - unfold single. intuition.
  - destruct (str_cmp (dname d) (gname x)) eqn:E.
    + apply str_cmp_eq in E. exfalso. apply Hn. left. auto.
    + simpl. unfold single. intuition.
    + simpl. rewrite IH by tauto. intuition.
Qed.

Lemma decl_map_nodes_gen l : forall g, NoDup (names_of l) -> (forall x, In x (names_of l) -> ~ In x (gnames g)) ->
  forall nd, In nd (fold_left g_add l g) <-> (exists d, In d l /\ nd = single d) \/ In nd g.
Proof.
  induction l as [|d l IH]; simpl; intros g Hnd Hdis nd.
  - split; [auto|intros [[d [[] _]]|H]; exact H].
  - inversion Hnd as [|? ? Hx Hrest]; subst.
    assert (Hfresh : ~ In (dname d) (gnames g)) by (apply Hdis; left; reflexivity).
    rewrite IH.
    + rewrite g_add_fresh by exact Hfresh. split.
      * intros [[e [H1 H2]]|[H|H]]; [left; exists e; auto|left; exists d; auto|right; exact H].
      * intros [[e [[<-|H1] H2]]|H]; [right; left; exact H2|left; exists e; auto|right; right; exact H].
    + exact Hrest.
    + intros x Hx' Hin. apply g_add_names in Hin as [->|Hin]; [exact (Hx Hx')|]. exact (Hdis x (or_intror Hx') Hin).
Qed.

Lemma decl_map_perm_eq l l' : NoDup (names_of l) -> Permutation l l' -> decl_map l = decl_map l'.
Proof.
  intros Hnd HP.
  assert (Hnd' : NoDup (names_of l')) by (eapply Permutation_NoDup; [apply Permutation_map; exact HP|exact Hnd]).
  unfold decl_map.
  destruct (decl_map_props_gen l []) as [A _]; [constructor|intros ? ? []|].
  destruct (decl_map_props_gen l' []) as [A' _]; [constructor|intros ? ? []|].
  apply (sorted_ext gname); [exact A|exact A'|].
  intros nd. rewrite !decl_map_nodes_gen by (auto; intros ? ? []).
  split; intros [[d [H1 H2]]|[]]; left; exists d; split; auto.
  - eapply Permutation_in; eauto.
  - eapply Permutation_in; [apply Permutation_sym|]; eauto.
Qed.

Lemma str_in_perm n l l' : Permutation l l' -> str_in n l = str_in n l'.
Proof.
  intros HP. destruct (str_in n l) eqn:E; symmetry.
  - apply str_in_In. apply str_in_In in E. eapply Permutation_in; eauto.
  - destruct (str_in n l') eqn:E'; [|reflexivity]. apply str_in_In in E'.
    apply (Permutation_in _ (Permutation_sym HP)) in E'. apply str_in_In in E'. congruence.
Qed.

Lemma resolve_perm ds ds' : Permutation ds ds' -> Permutation (resolve ds) (resolve ds').
Proof.
  intros HP. unfold resolve.
  rewrite (map_ext _ (fun d => set_deps d (filter (fun n => str_in n (names_of ds')) (ddeps d)))).
  - apply Permutation_map. exact HP.
  - intros d. f_equal. apply filter_ext. intros n. apply str_in_perm. apply Permutation_map. exact HP.
Qed.

Lemma resolve_names ds : names_of (resolve ds) = names_of ds.
Proof. unfold names_of, resolve. rewrite map_map. reflexivity. Qed.

Lemma deterministic ds ds' : NoDup (names_of ds) -> Permutation ds ds' -> sort ds = sort ds'.
Proof.
  intros Hnd HP. unfold sort, build. f_equal. f_equal. apply decl_map_perm_eq.
  - rewrite resolve_names. exact Hnd.
  - apply resolve_perm. exact HP.
Qed.

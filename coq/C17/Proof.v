(* C17 — lemmas about the model of base/dep (graph stage and phase split). *)
From Coq Require Import List NArith ZArith Bool Arith Lia Permutation.
From Verif Require Import Common.GoStr C17.Model.
Import ListNotations.

Lemma ins_pos_perm d l : Permutation (ins_pos d l) (d :: l).
Proof.
  induction l as [|e l IH]; simpl; [reflexivity|].
  destruct (N.leb (dpos d) (dpos e)); [reflexivity|].
  rewrite IH. apply perm_swap.
Qed.

Lemma sort_by_pos_perm l : Permutation (sort_by_pos l) l.
Proof.
  induction l as [|d l IH]; simpl; [reflexivity|].
  rewrite ins_pos_perm. constructor. exact IH.
Qed.

(* C17 — lemmas about the model of base/dep (graph stage). *)
From Coq Require Import List NArith ZArith Bool Arith Lia Permutation Sorted.
From Verif Require Import Common.GoStr C17.Model.
Import ListNotations.

(* ---------- small facts ---------- *)
Lemma str_eqb_refl a : str_eqb a a = true.
Proof. apply str_eqb_eq. reflexivity. Qed.

Lemma str_eqb_neq a b : str_eqb a b = false <-> a <> b.
Proof.
  split; intros H.
  - intros E. apply str_eqb_eq in E. congruence.
  - destruct (str_eqb a b) eqn:E; [|reflexivity]. apply str_eqb_eq in E. contradiction.
Qed.

Lemma str_in_In n l : str_in n l = true <-> In n l.
Proof.
  unfold str_in. rewrite existsb_exists. split.
  - intros [x [H1 H2]]. apply str_eqb_eq in H2. subst. exact H1.
  - intros H. exists n. split; [exact H|apply str_eqb_refl].
Qed.

Definition gnames (g : graph) : list str := map gname g.

Lemma has_node_In g n : has_node g n = true <-> In n (gnames g).
Proof.
  unfold has_node, gnames. rewrite existsb_exists, in_map_iff. split.
  - intros [nd [H1 H2]]. apply str_eqb_eq in H2. exists nd. split; assumption.
  - intros [nd [H1 H2]]. exists nd. split; [exact H2|]. apply str_eqb_eq. exact H1.
Qed.

Lemma ins_pos_perm d l : Permutation (ins_pos d l) (d :: l).
Proof.
  induction l as [|e l IH]; simpl; [reflexivity|].
  destruct (N.leb (dpos d) (dpos e)); [reflexivity|].
  rewrite IH. apply perm_swap.
Qed.

Lemma sort_by_pos_perm l : Permutation (sort_by_pos l) l.
Proof.
  induction l as [|d l IH]; simpl; [reflexivity|].
  rewrite ins_pos_perm. constructor. exact IH.
Qed.

Lemma sort_by_pos_In l d : In d (sort_by_pos l) <-> In d l.
Proof.
  split; apply Permutation_in; [|symmetry]; apply sort_by_pos_perm.
Qed.

Lemma ins_u_In x y l : In y (ins_u x l) <-> y = x \/ In y l.
Proof.
  induction l as [|z l IH]; simpl.
  - intuition.
  - destruct (str_cmp x z) eqn:E; simpl.
    + apply str_cmp_eq in E. subst. intuition.
    + intuition.
    + rewrite IH. intuition.
Qed.

Lemma sort_unique_In y l : In y (sort_unique l) <-> In y l.
Proof.
  induction l as [|x l IH]; simpl; [reflexivity|].
  rewrite ins_u_In, IH. intuition.
Qed.

(* ---------- well-formed graphs ---------- *)
Definition nofwd (l : list decl) : list decl := filter (fun d => negb (is_fwd d)) l.

Lemma nofwd_app a b : nofwd (a ++ b) = nofwd a ++ nofwd b.
Proof. apply filter_app. Qed.

Lemma nofwd_id l : Forall (fun d => is_fwd d = false) l -> nofwd l = l.
Proof.
  induction 1 as [|d l H _ IH]; simpl; [reflexivity|]. rewrite H. simpl. f_equal. exact IH.
Qed.

Lemma nofwd_none l : Forall (fun d => is_fwd d = true) l -> nofwd l = [].
Proof.
  induction 1 as [|d l H _ IH]; simpl; [reflexivity|]. rewrite H. simpl. exact IH.
Qed.

(* names are unique and every declaration sits in the node carrying its name *)
Definition gwf (g : graph) : Prop :=
  NoDup (gnames g) /\ forall nd d, In nd g -> In d (gdecls nd) -> dname d = gname nd.

Lemma all_decls_In g d : In d (all_decls g) <-> exists nd, In nd g /\ In d (gdecls nd).
Proof. unfold all_decls. rewrite in_flat_map. reflexivity. Qed.

Lemma all_decls_remove_unresolvable g : all_decls (remove_unresolvable g) = all_decls g.
Proof.
  unfold remove_unresolvable, all_decls. generalize (has_node g). intros f.
  induction g as [|nd g IH]; simpl; [reflexivity|]. rewrite IH. reflexivity.
Qed.

Lemma gnames_remove_unresolvable g : gnames (remove_unresolvable g) = gnames g.
Proof.
  unfold remove_unresolvable, gnames. rewrite map_map. reflexivity.
Qed.

Lemma gwf_remove_unresolvable g : gwf g -> gwf (remove_unresolvable g).
Proof.
  intros [H1 H2]. split.
  - rewrite gnames_remove_unresolvable. exact H1.
  - intros nd d Hin Hd. unfold remove_unresolvable in Hin. apply in_map_iff in Hin as [nd0 [E Hin]].
    subst nd. simpl in *. apply H2; assumption.
Qed.

Lemma del_node_In g n nd : In nd (del_node g n) <-> In nd g /\ gname nd <> n.
Proof.
  unfold del_node. rewrite filter_In. rewrite negb_true_iff, str_eqb_neq. reflexivity.
Qed.

Lemma gnames_del_node_incl g n x : In x (gnames (del_node g n)) -> In x (gnames g) /\ x <> n.
Proof.
  unfold gnames. rewrite !in_map_iff. intros [nd [E H]]. apply del_node_In in H as [H1 H2]. subst x.
  split; [exists nd; auto|exact H2].
Qed.

Lemma NoDup_map_filter {A B} (f : A -> B) p l : NoDup (map f l) -> NoDup (map f (filter p l)).
Proof.
  induction l as [|x l IH]; simpl; intros H; [constructor|].
  inversion H; subst. destruct (p x); simpl; [|apply IH; assumption].
  constructor; [|apply IH; assumption].
  intros Hin. apply H2. apply in_map_iff in Hin as [y [E Hy]]. apply filter_In in Hy as [Hy _].
  apply in_map_iff. exists y. auto.
Qed.

Lemma gwf_del_node g n : gwf g -> gwf (del_node g n).
Proof.
  intros [H1 H2]. split.
  - apply NoDup_map_filter. exact H1.
  - intros nd d Hin. apply del_node_In in Hin as [Hin _]. apply H2. exact Hin.
Qed.

Lemma del_node_perm g nd : NoDup (gnames g) -> In nd g ->
  Permutation (all_decls g) (gdecls nd ++ all_decls (del_node g (gname nd))).
Proof.
  induction g as [|x g IH]; intros Hnd Hin; [destruct Hin|].
  simpl in Hnd. inversion Hnd as [|? ? Hx Hg]; subst.
  destruct Hin as [E|Hin].
  - subst x. simpl. rewrite str_eqb_refl. simpl.
    apply Permutation_app_head.
    assert (del_node g (gname nd) = g) as ->; [|reflexivity].
    unfold del_node. clear IH Hnd Hg. induction g as [|y g IH]; simpl; [reflexivity|].
    simpl in Hx. destruct (str_eqb (gname y) (gname nd)) eqn:E.
    + apply str_eqb_eq in E. exfalso. apply Hx. left. exact E.
    + simpl. f_equal. apply IH. intros H. apply Hx. right. exact H.
  - simpl. destruct (str_eqb (gname x) (gname nd)) eqn:E.
    + apply str_eqb_eq in E. exfalso. apply Hx. rewrite E. apply in_map. exact Hin.
    + simpl. rewrite (IH Hg Hin). rewrite !app_assoc. apply Permutation_app_tail. apply Permutation_app_comm.
Qed.

(* ---------- RemoveNodesNoDeps ---------- *)
Lemma rnnd_fold_spec g best r :
  fold_left rnnd_step g best = Some r ->
  (best = Some r) \/ (In (snd r) g /\ gedges (snd r) = []).
Proof.
  revert best. induction g as [|nd g IH]; simpl; intros best H; [left; exact H|].
  apply IH in H as [H|[H1 H2]]; [|right; split; [right; exact H1|exact H2]].
  unfold rnnd_step in H. destruct (gedges nd) eqn:E; [|left; exact H].
  destruct (first_lt (gdecls nd) (option_map fst best)); [|left; exact H].
  inversion H; subst. right. simpl. split; [left; reflexivity|exact E].
Qed.

Lemma rnnd_spec g nd g' : remove_nodes_no_deps g = Some (nd, g') ->
  In nd g /\ gedges nd = [] /\ g' = del_node g (gname nd).
Proof.
  unfold remove_nodes_no_deps. destruct (fold_left rnnd_step g None) as [[p n]|] eqn:E; [|discriminate].
  intros H. inversion H; subst. apply rnnd_fold_spec in E as [E|[E1 E2]]; [discriminate|].
  simpl in *. auto.
Qed.

(* ---------- maps over the graph that only shrink edge lists ---------- *)
Definition same_shape (f : gnode -> gnode) : Prop :=
  forall nd, gname (f nd) = gname nd /\ gdecls (f nd) = gdecls nd.

Lemma shape_all_decls f g : same_shape f -> all_decls (map f g) = all_decls g.
Proof.
  intros Hf. unfold all_decls. induction g as [|nd g IH]; simpl; [reflexivity|].
  rewrite IH. destruct (Hf nd) as [_ ->]. reflexivity.
Qed.

Lemma shape_gnames f g : same_shape f -> gnames (map f g) = gnames g.
Proof.
  intros Hf. unfold gnames. rewrite map_map. apply map_ext. intros nd. apply Hf.
Qed.

Lemma shape_gwf f g : same_shape f -> gwf g -> gwf (map f g).
Proof.
  intros Hf [H1 H2]. split.
  - rewrite shape_gnames; assumption.
  - intros nd d Hin Hd. apply in_map_iff in Hin as [nd0 [E Hin]]. subst nd.
    destruct (Hf nd0) as [-> E2]. rewrite E2 in Hd. apply H2; assumption.
Qed.

Definition tf_map (names : list str) (nd : gnode) : gnode :=
  if has_type nd then mkNode (gname nd) (gdecls nd) (filter (fun e => negb (str_in e names)) (gedges nd)) else nd.

Lemma tf_map_shape names : same_shape (tf_map names).
Proof. intros nd. unfold tf_map. destruct (has_type nd); simpl; auto. Qed.

Lemma tf_fold_spec (P : decl -> Prop) g vs acc :
  (forall nd d, In nd g -> In d (gdecls nd) -> is_type d = true -> P d) ->
  Forall P (snd acc) -> Forall P (snd (fold_left (tf_step g) vs acc)).
Proof.
  intros HP. revert acc. induction vs as [|nc vs IH]; simpl; intros acc Hacc; [exact Hacc|].
  apply IH. unfold tf_step. destruct (get_node g (fst nc)) as [nd|] eqn:E; [|exact Hacc].
  assert (Hnd : In nd g).
  { clear -E. induction g as [|x g IH]; simpl in E; [discriminate|].
    destruct (str_eqb (gname x) (fst nc)); [inversion E; left; reflexivity|right; auto]. }
  assert (Hd : forall d, In d (gdecls nd) -> is_type d = true -> P d) by (intros; eapply HP; eauto).
  clear E HP IH. revert acc Hacc. induction (gdecls nd) as [|d l IHl]; simpl; intros acc Hacc; [exact Hacc|].
  apply IHl; [intros d0 Hd0 Ht0; apply Hd; [right; exact Hd0|exact Ht0]|].
  unfold tf_decl. destruct acc as [most lst]. simpl in *.
  destruct (is_type d) eqn:Et; simpl; [|exact Hacc].
  destruct (Nat.ltb (snd nc) most); [exact Hacc|]. simpl.
  apply Forall_app. split; [destruct (Nat.ltb most (snd nc)); [constructor|exact Hacc]|].
  constructor; [apply Hd; [left; reflexivity|exact Et]|constructor].
Qed.

Lemma remove_type_fwd_spec g buf g' : remove_type_fwd g = TfSome buf g' ->
  g' = map (tf_map (names_of buf)) g /\
  edge_count g' < edge_count g /\
  Forall (fun e => exists t, In t (all_decls g) /\ is_type t = true /\ e = set_kind t KTypeFwd) buf.
Proof.
  unfold remove_type_fwd.
  destruct (visit_all _ g _ _) as [c|]; [|discriminate].
  destruct (fold_left (tf_step g) (visited c) (1, [])) as [most l] eqn:E.
  destruct l as [|d l]; [discriminate|].
  set (fwd := map (fun d => set_kind d KTypeFwd) (d :: l)).
  unfold remove_deps_for_type. fold (tf_map (names_of fwd)). fold (edge_count g).
  fold (edge_count (map (tf_map (names_of fwd)) g)).
  destruct (Nat.eqb _ 0) eqn:Ez; [discriminate|].
  intros H. inversion H; subst buf g'. clear H.
  split; [reflexivity|]. split.
  - apply Nat.eqb_neq in Ez. lia.
  - assert (Hl : Forall (fun t => In t (all_decls g) /\ is_type t = true) (d :: l)).
    { change (d :: l) with (snd (most, d :: l)). rewrite <- E. apply tf_fold_spec; [|constructor].
      intros nd t H1 H2 H3. split; [apply all_decls_In; eauto|exact H3]. }
    unfold fwd. apply Forall_forall. intros e He. apply in_map_iff in He as [t [Et Ht]].
    rewrite Forall_forall in Hl. destruct (Hl t Ht). exists t. auto.
Qed.

(* C17 — property theorems only: each closed by [exact lemma], followed by Print Assumptions.
   [sort ds] is the model of popDecls + graph.Sort on the declaration list ds (Model.v); [resolve ds] are the same
   declarations with Deps restricted to the names declared in ds (DeclMap.RemoveUnresolvableDeps).
   Theorems quantify over ALL declaration lists; the order theorems that need pairwise distinct names say so. *)
From Coq Require Import List NArith ZArith Bool Permutation.
From Verif Require Import Common.GoStr C17.Model C17.Proof C17.Spec C17.Order C17.Phase C17.Fuel C17.ScopeModel C17.ScopeProof C17.VarsModel C17.VarsProof.
Import ListNotations.

(* every declaration is emitted exactly once; the only additional entries are TypeFwd copies of type declarations *)
Theorem C17_each_once : forall ds out, Forall (fun d => dkind d <> KTypeFwd) ds -> sort ds = Ok out ->
  Permutation (nofwd out) (resolve ds) /\
  Forall (fun e => is_fwd e = true -> fwd_of_type (resolve ds) e) out.
Proof. exact each_once. Qed.
Print Assumptions C17_each_once.

(* every declaration follows all declarations whose name it depends on; only a type declaration may instead be
   preceded by a forward declaration (TypeFwd) of the name it depends on *)
Theorem C17_topological : forall ds out, Forall (fun d => dkind d <> KTypeFwd) ds -> sort ds = Ok out ->
  forall l1 d l2, out = l1 ++ d :: l2 -> is_fwd d = false -> forall n, In n (ddeps d) ->
    emitted l1 n \/
    ((exists t, In t (resolve ds) /\ dname t = dname d /\ is_type t = true) /\ fwd_emitted l1 n).
Proof. exact topological. Qed.
Print Assumptions C17_topological.

(* the result depends only on the set of declarations, not on the order in which they are inserted in the maps *)
Theorem C17_deterministic : forall ds ds', NoDup (names_of ds) -> Permutation ds ds' -> sort ds = sort ds'.
Proof. exact deterministic. Qed.
Print Assumptions C17_deterministic.

(* the model's fuel (visit: one frame per node; Sort loop: one node or at least one edge per iteration) never runs out *)
Theorem C17_fuel_sufficient : forall ds, sort ds <> OutOfFuel.
Proof. exact sort_total. Qed.
Print Assumptions C17_fuel_sufficient.

(* a dependency cycle none of whose members is a type declaration is reported as a declaration loop
   (DeclLoop = circularDependencyError) *)
Theorem C17_cycle_without_type_is_error : forall ds c, Forall (fun d => dkind d <> KTypeFwd) ds ->
  is_cycle (resolve ds) c -> no_type_named (resolve ds) c -> sort ds = DeclLoop.
Proof. exact cycle_is_error. Qed.
Print Assumptions C17_cycle_without_type_is_error.

(* among the declarations that are ready (all dependencies already emitted) the sorter always takes the one with the
   least position; stated for declaration sets with pairwise distinct names and positions whose "earliest ready
   declaration" order exists (no dependency cycle: go_init_order, Spec.v, does not get stuck) *)
Theorem C17_earliest_ready : forall ds out, NoDup (names_of ds) -> NoDup (map dpos ds) ->
  go_init_order ds <> None -> sort ds = Ok out ->
  forall l1 d l2, out = l1 ++ d :: l2 -> forall d', In d' l2 -> ready l1 d' = true -> (dpos d <= dpos d')%N.
Proof. exact earliest_ready. Qed.
Print Assumptions C17_earliest_ready.

(* unconstrained declarations keep their source order *)
Theorem C17_stable : forall ds out, NoDup (names_of ds) -> NoDup (map dpos ds) ->
  go_init_order ds <> None -> sort ds = Ok out ->
  forall l1 d l2 d', out = l1 ++ d :: l2 -> In d' l2 -> ddeps d' = [] -> (dpos d <= dpos d')%N.
Proof. exact stable. Qed.
Print Assumptions C17_stable.

(* RemoveNodesNoDeps: the walk over the map returns the arg-min of Pos over the nodes without edges, whatever the order
   of the walk ([Good] is a property of the node SET; single-declaration nodes = pairwise distinct names) *)
Theorem C17_remove_nodes_no_deps_is_argmin : forall g, singles g -> Good g (fold_left rnnd_step g None).
Proof. exact rnnd_good. Qed.
Print Assumptions C17_remove_nodes_no_deps_is_argmin.

(* Sorter.Some (the step of Sorter.All): every call consumes a prefix of the queue = a quiet part (nil nodes, empty
   clauses) followed by a run of items of ONE class, leaves the rest of the queue untouched, and returns exactly what
   that run emits: package clauses / imports / statements in Pos order, declarations dependency-sorted.  Hence nothing
   is ever moved across the surrounding runs. *)
Theorem C17_phase_split : forall q l rest, no_fwd_items q -> some q = (Ok l, rest) -> some_result q l rest.
Proof. exact some_spec. Qed.
Print Assumptions C17_phase_split.

(* ---- extraction stage (scope.go), Scope.isLocal only: the scope walk as written (ScopeModel.v) refutes "a reference
   shadowed by a local does not count / a free reference does count" (finding #2), with both witnesses:
   chain [[]; [x]; []]  : x declared in the enclosing (function) scope is not seen from the block inside it;
   chain [[]; []; [b]]  : top-level b, already in the top-level map, is reported as local => dependency dropped.
   (Finding #1, parameters declared in a throw-away scope, lives in Scope.Func / AstExpr, which are not modelled.) *)
Theorem C17_shadowing_refuted :
  (is_local [[]; [nx]; []] nx = false /\ is_local_spec [[]; [nx]; []] nx = true) /\
  (is_local [[]; []; [nb]] nb = true /\ is_local_spec [[]; []; [nb]] nb = false).
Proof. exact shadowing_refuted. Qed.
Print Assumptions C17_shadowing_refuted.

(* what is true of the walk: exact at depth <= 1; in general it inspects the innermost scope and every scope from the
   third one on, the top-level one included *)
Theorem C17_deps_are_free_names_partial : forall s0 s1 rest top n,
  (is_local [s0; top] n = is_local_spec [s0; top] n /\ is_local [top] n = is_local_spec [top] n) /\
  is_local (s0 :: s1 :: rest) n = str_in n s0 || existsb (str_in n) rest.
Proof. exact is_local_partial. Qed.
Print Assumptions C17_deps_are_free_names_partial.

(* ---- extraction stage, one var spec with several names: var n0, n1, ... T = v0, v1, ... (base/dep/scope.go Scope.Vars,
   model C17/VarsModel.v: Go slices as views into backing arrays, append in place when the capacity allows) ----
   the code as written (append(dup(typDeps), valueDeps...)): whatever the capacity of the slice computed for the type
   expression, every name ends with the type's dependencies followed by the dependencies of ITS OWN initialiser *)
Theorem C17_vars_deps_per_name : forall (A : Type) (st : @store A) typ vals, sl_ok st typ ->
  vars_deps true st typ vals = vars_spec st typ vals.
Proof. exact (@vars_deps_dup). Qed.
Print Assumptions C17_vars_deps_per_name.

(* without dup the lists of earlier names are overwritten by later names as soon as the type's slice has spare capacity:
   var a, b map[K]K = f(), g()  (typDeps = [K], capacity 2 after sort_unique_inplace)  leaves a with [K; g] instead of [K; f] *)
Theorem C17_vars_shared_backing_refuted : exists (st : @store nat) typ vals,
  sl_ok st typ /\ vars_deps false st typ vals <> vars_spec st typ vals /\
  nth 0 (vars_deps false st typ vals) [] = [1; 3] /\ nth 0 (vars_spec st typ vals) [] = [1; 2].
Proof. exact vars_deps_nodup_refuted. Qed.
Print Assumptions C17_vars_shared_backing_refuted.

(* ---- non-vacuity: the five mutually recursive structs of DESIGN 7 #15 and a var cycle ---- *)
Definition A := [65%N]. Definition B := [66%N]. Definition C := [67%N]. Definition D := [68%N]. Definition E := [69%N].
Definition ex5 := [mkDecl KType A 6 [B;C]; mkDecl KType B 33 [A;C]; mkDecl KType C 60 [A;B];
                   mkDecl KType D 87 [A;E]; mkDecl KType E 113 [C;D]].
Example ex5_sorts : exists out, sort ex5 = Ok out /\ map (fun d => (dkind d, dname d)) out =
  [(KTypeFwd, C); (KTypeFwd, A); (KTypeFwd, E); (KType, B); (KType, A); (KType, C); (KType, D); (KType, E)].
Proof. eexists. split; vm_compute; reflexivity. Qed.
Example ex_var_cycle : sort [mkDecl KVar A 1 [B]; mkDecl KVar B 2 [A]] = DeclLoop
  /\ is_cycle (resolve [mkDecl KVar A 1 [B]; mkDecl KVar B 2 [A]]) [A; B].
Proof.
  split; [vm_compute; reflexivity|]. split; [discriminate|]. intros i Hi.
  destruct i as [|[|i]]; [| |simpl in Hi; inversion Hi as [|? H]; inversion H as [|? H']; inversion H'].
  - eexists. split; [left; reflexivity|]. split; [reflexivity|]. vm_compute. left. reflexivity.
  - eexists. split; [right; left; reflexivity|]. split; [reflexivity|]. vm_compute. left. reflexivity.
Qed.
Example ex_acyclic : go_init_order [mkDecl KVar A 1 [B]; mkDecl KFunc B 2 [C]; mkDecl KConst C 3 []] <> None
  /\ sort [mkDecl KVar A 1 [B]; mkDecl KFunc B 2 [C]; mkDecl KConst C 3 []]
     = Ok [mkDecl KConst C 3 []; mkDecl KFunc B 2 [C]; mkDecl KVar A 1 [B]].
Proof. split; [vm_compute; discriminate|vm_compute; reflexivity]. Qed.

(* C17 — property theorems only: each closed by [exact lemma], followed by Print Assumptions. *)
From Coq Require Import List NArith ZArith Bool Permutation.
From Verif Require Import Common.GoStr C17.Model C17.Proof.
Import ListNotations.

Theorem C17_sort_by_pos_perm : forall l, Permutation (sort_by_pos l) l.
Proof. exact sort_by_pos_perm. Qed.
Print Assumptions C17_sort_by_pos_perm.

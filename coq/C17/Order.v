From Coq Require Import List NArith ZArith Bool Arith Lia Permutation.
From Verif Require Import Common.GoStr C17.Model C17.Proof C17.Spec.
Import ListNotations.

(* C17 — the Sort loop simulates the "earliest ready declaration" specification (Spec.v) *)
Lemma min_pos_spec l d : min_pos l = Some d -> In d l /\ forall e, In e l -> (dpos d <= dpos e)%N.
Proof.
  revert d. induction l as [|x l IH]; simpl; intros d H; [discriminate|].
  destruct (min_pos l) as [m|] eqn:E.
  - destruct (IH m eq_refl) as [Hin Hmin]. destruct (N.leb (dpos x) (dpos m)) eqn:L; inversion H; subst.
    + apply N.leb_le in L. split; [left; reflexivity|]. intros e [<-|He]; [lia|]. specialize (Hmin e He). lia.
    + apply N.leb_gt in L. split; [right; exact Hin|]. intros e [<-|He]; [lia|auto].
  - inversion H; subst. destruct l; [|simpl in E; destruct (min_pos l); [destruct (N.leb _ _)|]; discriminate].
    split; [left; reflexivity|]. intros e [<-|[]]. lia.
Qed.

Lemma min_pos_none l : min_pos l = None -> l = [].
Proof. destruct l; simpl; [reflexivity|]. destruct (min_pos l); [destruct (N.leb _ _)|]; discriminate. Qed.



Definition singles (g : graph) : Prop := forall nd, In nd g -> exists d, gdecls nd = [d].

(* ---------- RemoveNodesNoDeps on single-declaration nodes = arg-min of Pos over the nodes without edges ---------- *)
Definition Good (l : list gnode) (best : option (N * gnode)) : Prop :=
  match best with
  | None => forall nd, In nd l -> gedges nd <> []
  | Some (p, nd) => In nd l /\ gedges nd = [] /\ (exists d, gdecls nd = [d] /\ p = dpos d) /\
                    forall nd' d', In nd' l -> gedges nd' = [] -> gdecls nd' = [d'] -> (p <= dpos d')%N
  end.

Lemma rnnd_step_good pre best x : (exists d, gdecls x = [d]) -> Good pre best -> Good (pre ++ [x]) (rnnd_step best x).
Proof.
  intros [d Hd] HG. unfold rnnd_step. destruct (gedges x) eqn:Ee.
  - rewrite Hd. destruct best as [[p nd]|]; simpl.
    + destruct HG as [H1 [H2 [H3 H4]]]. destruct (N.ltb (dpos d) p) eqn:L.
      * apply N.ltb_lt in L. split; [apply in_or_app; right; left; reflexivity|]. split; [exact Ee|]. split; [exists d; auto|].
        intros nd' d' Hin He Hg. apply in_app_or in Hin as [Hin|[<-|[]]].
        -- specialize (H4 nd' d' Hin He Hg). lia.
        -- rewrite Hd in Hg. inversion Hg; subst. lia.
      * apply N.ltb_ge in L. split; [apply in_or_app; left; exact H1|]. split; [exact H2|]. split; [exact H3|].
        intros nd' d' Hin He Hg. apply in_app_or in Hin as [Hin|[<-|[]]]; [eauto|].
        rewrite Hd in Hg. inversion Hg; subst. exact L.
    + split; [apply in_or_app; right; left; reflexivity|]. split; [exact Ee|]. split; [exists d; auto|].
      intros nd' d' Hin He Hg. apply in_app_or in Hin as [Hin|[<-|[]]].
      * exfalso. exact (HG nd' Hin He).
      * rewrite Hd in Hg. inversion Hg; subst. lia.
  - destruct best as [[p nd]|]; simpl in *.
    + destruct HG as [H1 [H2 [H3 H4]]]. split; [apply in_or_app; left; exact H1|]. split; [exact H2|]. split; [exact H3|].
      intros nd' d' Hin He Hg. apply in_app_or in Hin as [Hin|[<-|[]]]; [eauto|]. rewrite Ee in He. discriminate.
    + intros nd Hin. apply in_app_or in Hin as [Hin|[<-|[]]]; [auto|]. rewrite Ee. discriminate.
Qed.

Lemma rnnd_fold_good g : forall pre best, singles g -> Good pre best -> Good (pre ++ g) (fold_left rnnd_step g best).
Proof.
  induction g as [|x g IH]; intros pre best Hs HG; simpl.
  - rewrite app_nil_r. exact HG.
  - replace (pre ++ x :: g) with ((pre ++ [x]) ++ g) by (rewrite <- app_assoc; reflexivity).
    apply IH; [intros nd H; apply Hs; right; exact H|]. apply rnnd_step_good; [apply Hs; left; reflexivity|exact HG].
Qed.

Lemma rnnd_good g : singles g -> Good g (fold_left rnnd_step g None).
Proof. intros Hs. apply (rnnd_fold_good g [] None Hs). intros nd []. Qed.

(* ---------- simulation of the Go-spec order by the Sort loop ---------- *)
Record Sim (g : graph) (acc rem : list decl) : Prop := {
  sim_perm : Permutation rem (all_decls g);
  sim_wf : gwf g;
  sim_singles : singles g;
  sim_names : NoDup (map dname (acc ++ rem));
  sim_pos : NoDup (map dpos rem);
  sim_closed : forall d n, In d rem -> In n (ddeps d) -> In n (names_of acc) \/ In n (names_of rem);
  sim_edges : forall nd d n, In nd g -> gdecls nd = [d] -> (In n (gedges nd) <-> In n (ddeps d) /\ In n (gnames g))
}.

Lemma gnames_rem g acc rem n : Sim g acc rem -> (In n (gnames g) <-> In n (names_of rem)).
Proof.
  intros S. destruct S as [P [_ W] Sg _ _ _ _]. unfold gnames, names_of. rewrite !in_map_iff. split.
  - intros [nd [E Hin]]. destruct (Sg nd Hin) as [d Hd]. exists d. split.
    + rewrite <- E. apply W with (nd := nd); [exact Hin|rewrite Hd; left; reflexivity].
    + eapply Permutation_in; [apply Permutation_sym; exact P|]. apply all_decls_In. exists nd. split; [exact Hin|rewrite Hd; left; reflexivity].
  - intros [d [E Hin]]. apply (Permutation_in _ P) in Hin. apply all_decls_In in Hin as [nd [H1 H2]].
    exists nd. split; [|exact H1]. rewrite <- E. symmetry. apply W; assumption.
Qed.

Lemma NoDup_app_disjoint {A} (l1 l2 : list A) x : NoDup (l1 ++ l2) -> In x l1 -> In x l2 -> False.
Proof.
  induction l1 as [|a l1 IH]; simpl; intros H H1 H2; [destruct H1|].
  inversion H; subst. destruct H1 as [->|H1]; [apply H4; apply in_or_app; right; exact H2|eauto].
Qed.

Lemma ready_names acc d : ready acc d = true <-> forall n, In n (ddeps d) -> In n (names_of acc).
Proof.
  unfold ready. rewrite forallb_forall. split; intros H n Hn; [apply str_in_In|apply str_in_In]; auto.
Qed.

Lemma ready_iff_no_edges g acc rem nd d : Sim g acc rem -> In nd g -> gdecls nd = [d] ->
  (ready acc d = true <-> gedges nd = []).
Proof.
  intros S Hin Hd. rewrite ready_names. split.
  - intros Hr. destruct (gedges nd) as [|n l] eqn:E; [reflexivity|exfalso].
    assert (Hn : In n (gedges nd)) by (rewrite E; left; reflexivity).
    apply (sim_edges _ _ _ S nd d n Hin Hd) in Hn as [H1 H2].
    apply (gnames_rem g acc rem n S) in H2. specialize (Hr n H1).
    eapply (NoDup_app_disjoint (map dname acc) (map dname rem) n); [rewrite <- map_app; exact (sim_names _ _ _ S)|exact Hr|exact H2].
  - intros He n Hn.
    assert (Hdr : In d rem).
    { eapply Permutation_in; [apply Permutation_sym; exact (sim_perm _ _ _ S)|]. apply all_decls_In. exists nd. split; [exact Hin|rewrite Hd; left; reflexivity]. }
    destruct (sim_closed _ _ _ S d n Hdr Hn) as [H|H]; [exact H|exfalso].
    apply (gnames_rem g acc rem n S) in H.
    assert (In n (gedges nd)) by (apply (sim_edges _ _ _ S nd d n Hin Hd); auto). rewrite He in H0. destruct H0.
Qed.

Lemma NoDup_map_inj {A B} (f : A -> B) l x y : NoDup (map f l) -> In x l -> In y l -> f x = f y -> x = y.
Proof.
  induction l as [|a l IH]; simpl; intros H Hx Hy E; [destruct Hx|].
  inversion H; subst. destruct Hx as [->|Hx], Hy as [->|Hy]; auto.
  - exfalso. apply H2. rewrite E. apply in_map. exact Hy.
  - exfalso. apply H2. rewrite <- E. apply in_map. exact Hx.
Qed.

Lemma remove_named_perm rem d : NoDup (map dname rem) -> In d rem -> Permutation rem (d :: remove_named (dname d) rem).
Proof.
  induction rem as [|x rem IH]; simpl; intros H Hin; [destruct Hin|].
  inversion H; subst. destruct Hin as [->|Hin].
  - rewrite str_eqb_refl. simpl. constructor.
    assert (remove_named (dname d) rem = rem) as ->; [|reflexivity].
    unfold remove_named. clear IH H H3. induction rem as [|y rem IH]; simpl; [reflexivity|].
    destruct (str_eqb (dname y) (dname d)) eqn:E.
    + apply str_eqb_eq in E. exfalso. apply H2. left. exact E.
    + simpl. f_equal. apply IH. intros Hc. apply H2. right. exact Hc.
  - destruct (str_eqb (dname x) (dname d)) eqn:E.
    + apply str_eqb_eq in E. exfalso. apply H2. rewrite E. apply in_map. exact Hin.
    + simpl. rewrite (IH H3 Hin) at 1. apply perm_swap.
Qed.

Lemma singles_all_decls_nil g : singles g -> all_decls g = [] -> g = [].
Proof.
  intros Hs H. destruct g as [|x g]; [reflexivity|]. destruct (Hs x (or_introl eq_refl)) as [d Hd].
  unfold all_decls in H. simpl in H. rewrite Hd in H. discriminate.
Qed.

Lemma filter_len_le {A} (p : A -> bool) l : length (filter p l) <= length l.
Proof. induction l as [|x l IH]; simpl; [lia|]. destruct (p x); simpl; lia. Qed.

Lemma NoDup_app_r {A} (l1 l2 : list A) : NoDup (l1 ++ l2) -> NoDup l2.
Proof. induction l1 as [|a l1 IH]; simpl; intros H; [exact H|]. inversion H; auto. Qed.

Lemma del_node_length g nd : In nd g -> length (del_node g (gname nd)) < length g.
Proof.
  induction g as [|x g IH]; intros Hin; [destruct Hin|]. simpl.
  destruct Hin as [->|Hin].
  - rewrite str_eqb_refl. simpl. unfold del_node. pose proof (filter_len_le (fun nd0 => negb (str_eqb (gname nd0) (gname nd))) g). lia.
  - destruct (negb (str_eqb (gname x) (gname nd))); simpl; [apply IH in Hin; lia|].
    unfold del_node. pose proof (filter_len_le (fun nd0 => negb (str_eqb (gname nd0) (gname nd))) g). lia.
Qed.

Lemma ru_length g : length (remove_unresolvable g) = length g.
Proof. unfold remove_unresolvable. apply map_length. Qed.

Lemma sim_step g acc rem nd m : Sim g acc rem -> In nd g -> gdecls nd = [m] ->
  Sim (remove_unresolvable (del_node g (gname nd))) (acc ++ [m]) (remove_named (dname m) rem).
Proof.
  intros S Hin Hd.
  assert (Hmr : In m rem).
  { eapply Permutation_in; [apply Permutation_sym; exact (sim_perm _ _ _ S)|]. apply all_decls_In. exists nd. split; [exact Hin|rewrite Hd; left; reflexivity]. }
  assert (Hnames : NoDup (map dname rem)).
  { pose proof (sim_names _ _ _ S) as H. rewrite map_app in H. apply NoDup_app_r in H. exact H. }
  pose proof (remove_named_perm rem m Hnames Hmr) as HP.
  assert (Hname : dname m = gname nd).
  { destruct (sim_wf _ _ _ S) as [_ W]. apply W; [exact Hin|rewrite Hd; left; reflexivity]. }
  set (g1 := del_node g (gname nd)).
  assert (Hsub : forall x, In x (gnames g1) -> In x (gnames g)) by (intros x Hx; apply gnames_del_node_incl in Hx; tauto).
  constructor.
  - rewrite all_decls_remove_unresolvable.
    pose proof (del_node_perm g nd (proj1 (sim_wf _ _ _ S)) Hin) as HD. rewrite Hd in HD. simpl in HD.
    apply Permutation_cons_inv with (a := m). transitivity rem; [symmetry; exact HP|].
    transitivity (all_decls g); [exact (sim_perm _ _ _ S)|exact HD].
  - apply gwf_remove_unresolvable, gwf_del_node. exact (sim_wf _ _ _ S).
  - intros x Hx. unfold remove_unresolvable in Hx. apply in_map_iff in Hx as [y [<- Hy]]. simpl.
    apply del_node_In in Hy as [Hy _]. exact (sim_singles _ _ _ S y Hy).
  - eapply Permutation_NoDup; [|exact (sim_names _ _ _ S)]. apply Permutation_map.
    rewrite <- app_assoc. apply Permutation_app_head. exact HP.
  - assert (H : NoDup (map dpos (m :: remove_named (dname m) rem))).
    { eapply Permutation_NoDup; [apply Permutation_map; exact HP|exact (sim_pos _ _ _ S)]. }
    inversion H; assumption.
  - intros d n Hdin Hn. unfold remove_named in Hdin. apply filter_In in Hdin as [Hdin _].
    destruct (sim_closed _ _ _ S d n Hdin Hn) as [H|H].
    + left. unfold names_of. rewrite map_app. apply in_or_app. left. exact H.
    + unfold names_of in H. apply (Permutation_in _ (Permutation_map dname HP)) in H. destruct H as [<-|H].
      * left. unfold names_of. rewrite map_app. apply in_or_app. right. left. reflexivity.
      * right. exact H.
  - intros x d n Hx Hxd. rewrite gnames_remove_unresolvable.
    unfold remove_unresolvable in Hx. apply in_map_iff in Hx as [y [<- Hy]]. simpl in *.
    rewrite filter_In, has_node_In. apply del_node_In in Hy as [Hy _].
    rewrite (sim_edges _ _ _ S y d n Hy Hxd). fold g1. split; [intros [[A B] C]; auto|intros [A C]; auto].
Qed.

Lemma sort_loop_unfold f g acc : g <> [] ->
  sort_loop (S f) g acc =
  match remove_nodes_no_deps g with
  | Some (nd, g') => sort_loop f (remove_unresolvable g') (acc ++ sort_by_pos (gdecls nd))
  | None => match remove_type_fwd g with
            | TfFuel => OutOfFuel
            | TfNone => DeclLoop
            | TfSome buf g' => sort_loop f (remove_unresolvable g') (acc ++ sort_by_pos buf)
            end
  end.
Proof. destruct g; [congruence|reflexivity]. Qed.

Lemma sim_run fuel1 : forall fuel2 g acc rem out, Sim g acc rem -> length g <= fuel2 ->
  go_order fuel1 rem acc = Some out -> sort_loop fuel2 g acc = Ok out.
Proof.
  induction fuel1 as [|f1 IH]; intros fuel2 g acc rem out S Hf H.
  - destruct rem; simpl in H; [|discriminate]. inversion H; subst.
    assert (g = []) as ->.
    { apply singles_all_decls_nil; [exact (sim_singles _ _ _ S)|]. apply Permutation_nil. exact (sim_perm _ _ _ S). }
    destruct fuel2; reflexivity.
  - destruct rem as [|r rem0].
    + simpl in H. inversion H; subst.
      assert (g = []) as ->.
      { apply singles_all_decls_nil; [exact (sim_singles _ _ _ S)|]. apply Permutation_nil. exact (sim_perm _ _ _ S). }
      destruct fuel2; reflexivity.
    + remember (r :: rem0) as rem. simpl in H. rewrite Heqrem in H at 1.
      destruct (min_pos (filter (ready acc) rem)) as [m|] eqn:E; [|discriminate].
      apply min_pos_spec in E as [Hm Hmin]. apply filter_In in Hm as [Hmr Hmready].
      (* the node of m *)
      assert (Hmg : In m (all_decls g)) by (eapply Permutation_in; [exact (sim_perm _ _ _ S)|exact Hmr]).
      apply all_decls_In in Hmg as [nm [Hnm Hmnm]].
      destruct (sim_singles _ _ _ S nm Hnm) as [m' Hm']. rewrite Hm' in Hmnm. destruct Hmnm as [->|[]].
      assert (Hnoedge : gedges nm = []) by (apply (ready_iff_no_edges g acc rem nm m S Hnm Hm'); exact Hmready).
      assert (Hgne : g <> []) by (intros ->; destruct Hnm).
      destruct fuel2 as [|f2]; [destruct g; [congruence|simpl in Hf; lia]|].
      rewrite sort_loop_unfold by exact Hgne.
      pose proof (rnnd_good g (sim_singles _ _ _ S)) as HG.
      unfold remove_nodes_no_deps. destruct (fold_left rnnd_step g None) as [[p nd]|]; simpl in HG.
      * destruct HG as [G1 [G2 [[d [G3 ->]] G4]]].
        assert (d = m) as ->.
        { assert (Hdr : In d rem).
          { eapply Permutation_in; [apply Permutation_sym; exact (sim_perm _ _ _ S)|]. apply all_decls_In. exists nd. split; [exact G1|rewrite G3; left; reflexivity]. }
          apply (NoDup_map_inj dpos rem); [exact (sim_pos _ _ _ S)|exact Hdr|exact Hmr|].
          assert (Hdready : ready acc d = true) by (apply (ready_iff_no_edges g acc rem nd d S G1 G3); exact G2).
          pose proof (G4 nm m Hnm Hnoedge Hm'). pose proof (Hmin d (proj2 (filter_In _ _ _) (conj Hdr Hdready))). lia. }
        rewrite G3. simpl.
        apply (IH f2 _ _ _ out (sim_step g acc rem nd m S G1 G3)); [|exact H].
        rewrite ru_length. pose proof (del_node_length g nd G1). lia.
      * exfalso. exact (HG nm Hnm Hnoedge).
Qed.

(* ---------- initial state ---------- *)
Lemma build_singles ds : NoDup (names_of ds) -> singles (build ds).
Proof.
  intros Hnd nd Hin. unfold build, with_edges in Hin. apply in_map_iff in Hin as [y [<- Hy]]. simpl.
  unfold decl_map in Hy. apply decl_map_nodes_gen in Hy as [[d [_ ->]]|[]].
  - exists d. reflexivity.
  - rewrite resolve_names. exact Hnd.
  - intros x _ [].
Qed.

Lemma resolve_pos ds : map dpos (resolve ds) = map dpos ds.
Proof. unfold resolve. rewrite map_map. reflexivity. Qed.

Lemma sim_init ds : NoDup (names_of ds) -> NoDup (map dpos ds) ->
  Sim (remove_unresolvable (build ds)) [] (resolve ds).
Proof.
  intros Hn Hp. constructor.
  - rewrite all_decls_remove_unresolvable. symmetry. apply build_perm.
  - apply gwf_remove_unresolvable, build_gwf.
  - intros x Hx. unfold remove_unresolvable in Hx. apply in_map_iff in Hx as [y [<- Hy]]. simpl.
    exact (build_singles ds Hn y Hy).
  - simpl. fold (names_of (resolve ds)). rewrite resolve_names. exact Hn.
  - rewrite resolve_pos. exact Hp.
  - intros d n Hd Hin. right. destruct (resolve_resolvable ds d n Hd Hin) as [e [He <-]].
    unfold names_of. apply in_map. exact He.
  - intros x d n Hx Hxd. rewrite gnames_remove_unresolvable.
    unfold remove_unresolvable in Hx. apply in_map_iff in Hx as [y [<- Hy]]. simpl in *.
    rewrite filter_In, has_node_In. rewrite (build_edges ds y Hy), Hxd. simpl. rewrite app_nil_r, sort_unique_In. reflexivity.
Qed.

(* when the "earliest ready declaration" order exists, the sorter returns exactly that order *)
Lemma sort_is_go_order ds out : NoDup (names_of ds) -> NoDup (map dpos ds) ->
  go_init_order ds = Some out -> sort ds = Ok out.
Proof.
  intros Hn Hp H. unfold go_init_order in H. unfold sort, sort_graph.
  eapply sim_run; [apply sim_init; assumption| |exact H]. lia.
Qed.

Lemma loop_only_if_stuck ds : NoDup (names_of ds) -> NoDup (map dpos ds) ->
  sort ds = DeclLoop -> go_init_order ds = None.
Proof.
  intros Hn Hp H. destruct (go_init_order ds) as [out|] eqn:E; [|reflexivity].
  rewrite (sort_is_go_order ds out Hn Hp E) in H. discriminate.
Qed.

(* ---------- the specification order takes the earliest ready declaration at every step ---------- *)
Lemma go_order_earliest fuel : forall rem done out, NoDup (map dname rem) -> go_order fuel rem done = Some out ->
  exists rest, out = done ++ rest /\ Permutation rest rem /\
  forall l1 d l2, rest = l1 ++ d :: l2 -> forall d', In d' l2 -> ready (done ++ l1) d' = true -> (dpos d <= dpos d')%N.
Proof.
  induction fuel as [|f IH]; intros rem done out Hnd H.
  - destruct rem; simpl in H; [|discriminate]. inversion H; subst. exists []. rewrite app_nil_r. split; [reflexivity|].
    split; [constructor|]. intros l1 d l2 Hs. destruct l1; discriminate.
  - destruct rem as [|r rem0].
    + simpl in H. inversion H; subst. exists []. rewrite app_nil_r. split; [reflexivity|].
      split; [constructor|]. intros l1 d l2 Hs. destruct l1; discriminate.
    + remember (r :: rem0) as rem. simpl in H. rewrite Heqrem in H at 1.
      destruct (min_pos (filter (ready done) rem)) as [m|] eqn:E; [|discriminate].
      apply min_pos_spec in E as [Hm Hmin]. apply filter_In in Hm as [Hmr _].
      pose proof (remove_named_perm rem m Hnd Hmr) as HP.
      assert (Hnd' : NoDup (map dname (remove_named (dname m) rem))).
      { assert (X : NoDup (map dname (m :: remove_named (dname m) rem))) by (eapply Permutation_NoDup; [apply Permutation_map; exact HP|exact Hnd]).
        inversion X; assumption. }
      apply IH in H as [rest [-> [Prest Hrest]]]; [|exact Hnd'].
      exists (m :: rest). split; [rewrite <- app_assoc; reflexivity|]. split; [rewrite HP; constructor; exact Prest|].
      intros l1 d l2 Hs d' Hd' Hready. destruct l1 as [|x l1]; simpl in Hs; inversion Hs; subst.
      * rewrite app_nil_r in Hready. apply Hmin. apply filter_In. split; [|exact Hready].
        apply (Permutation_in _ Prest) in Hd'. unfold remove_named in Hd'. apply filter_In in Hd' as [Hd' _]. exact Hd'.
      * apply (Hrest l1 d l2 eq_refl d' Hd'). rewrite <- app_assoc. exact Hready.
Qed.

Lemma earliest_ready ds out : NoDup (names_of ds) -> NoDup (map dpos ds) ->
  go_init_order ds <> None -> sort ds = Ok out ->
  forall l1 d l2, out = l1 ++ d :: l2 -> forall d', In d' l2 -> ready l1 d' = true -> (dpos d <= dpos d')%N.
Proof.
  intros Hn Hp Hac H. destruct (go_init_order ds) as [out'|] eqn:E; [|congruence].
  rewrite (sort_is_go_order ds out' Hn Hp E) in H. inversion H; subst out'.
  unfold go_init_order in E. apply go_order_earliest in E as [rest [-> [_ Hr]]].
  - intros l1 d l2 Hs. simpl in Hs. exact (Hr l1 d l2 Hs).
  - fold (names_of (resolve ds)). rewrite resolve_names. exact Hn.
Qed.

(* unconstrained declarations keep their source order *)
Lemma stable ds out : NoDup (names_of ds) -> NoDup (map dpos ds) ->
  go_init_order ds <> None -> sort ds = Ok out ->
  forall l1 d l2 d', out = l1 ++ d :: l2 -> In d' l2 -> ddeps d' = [] -> (dpos d <= dpos d')%N.
Proof.
  intros Hn Hp Hac H l1 d l2 d' Hs Hd' He. eapply earliest_ready; eauto.
  unfold ready. rewrite He. reflexivity.
Qed.

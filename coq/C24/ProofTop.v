(* C24 — lemmas about the top-level loop (Parser.Parse / parseAny) against go/parser's parseFile *)
From Coq Require Import List NArith ZArith Bool Lia.
From Verif Require Import C24.Model.
Import ListNotations.

Lemma stdDecls_fork : forall items ds, stdDecls items = Some ds -> forkParse items = ds.
Proof.
  induction items as [|[k i] r IH]; simpl; intros ds H.
  - inversion H; reflexivity.
  - destruct k; try discriminate.
    destruct (stdDecls r) eqn:E; try discriminate. inversion H; subst.
    unfold forkParse in *. simpl. f_equal. apply IH. reflexivity.
Qed.

Lemma stdImports_fork : forall items ds, stdImports items = Some ds -> forkParse items = ds.
Proof.
  induction items as [|[k i] r IH]; intros ds H.
  - simpl in H. inversion H; reflexivity.
  - destruct k; try (apply stdDecls_fork; exact H).
    simpl in H. destruct (stdImports r) eqn:E; try discriminate. inversion H; subst.
    unfold forkParse in *. simpl. f_equal. apply IH. reflexivity.
Qed.

(* valid file: the fork's list is the package clause followed by exactly go/parser's declarations, in order *)
Lemma toplevel_preserved : forall items pk ds,
  stdParseFile items = Some (pk, ds) -> forkParse items = NPackage pk :: ds.
Proof.
  intros items pk ds H. destruct items as [|[k i] r]; try discriminate.
  destruct k; try discriminate. simpl in H.
  destruct (stdImports r) eqn:E; try discriminate. inversion H; subst.
  unfold forkParse. simpl. f_equal. apply stdImports_fork. exact E.
Qed.

Lemma declsOnly_std : forall items, no_ext items -> declsOnly (forkParse items) = true -> stdDecls items <> None.
Proof.
  induction items as [|[k i] r IH]; simpl; intros NE H.
  - discriminate.
  - assert (NE' : no_ext r) by (intros j Hj; apply (NE j); right; exact Hj).
    destruct k; simpl in H; try discriminate.
    + specialize (IH NE' H). destruct (stdDecls r); [discriminate | contradiction].
    + exfalso. apply (NE i). left. reflexivity.
Qed.

Lemma importsThenDecls_std : forall items, no_ext items -> importsThenDecls (forkParse items) = true -> stdImports items <> None.
Proof.
  induction items as [|[k i] r IH]; intros NE H.
  - simpl. discriminate.
  - assert (NE' : no_ext r) by (intros j Hj; apply (NE j); right; exact Hj).
    destruct k.
    + simpl in H. discriminate.
    + simpl in H. specialize (IH NE' H). simpl. destruct (stdImports r); [discriminate | contradiction].
    + apply (declsOnly_std ((KDecl, i) :: r) NE). exact H.
    + exfalso. apply (NE i). left. reflexivity.
    + simpl in H. discriminate.
Qed.

(* invalid top-level structure: whenever go/parser rejects the item sequence, the fork's node list is not a file *)
Lemma toplevel_reject : forall items, no_ext items ->
  stdParseFile items = None -> fileShape (forkParse items) = false.
Proof.
  intros items NE H. destruct (fileShape (forkParse items)) eqn:F; [|reflexivity]. exfalso.
  destruct items as [|[k i] r]; simpl in F; try discriminate.
  assert (NE' : no_ext r) by (intros j Hj; apply (NE j); right; exact Hj).
  destruct k; simpl in F; try discriminate.
  - simpl in H. pose proof (importsThenDecls_std r NE' F). destruct (stdImports r); [discriminate | contradiction].
Qed.

Lemma toplevel_accept_shape : forall items pk ds,
  stdParseFile items = Some (pk, ds) -> fileShape (forkParse items) = true.
Proof.
  intros items pk ds H. rewrite (toplevel_preserved _ _ _ H). simpl.
  destruct items as [|[k i] r]; try discriminate. destruct k; try discriminate. simpl in H.
  destruct (stdImports r) eqn:E; try discriminate. inversion H; subst. clear H.
  revert ds E. induction r as [|[k j] r IH]; intros ds E.
  - simpl in E. inversion E. reflexivity.
  - destruct k; simpl in E; try discriminate.
    + destruct (stdImports r) eqn:E2; try discriminate. inversion E; subst. simpl. apply (IH l eq_refl).
    + destruct (stdDecls r) eqn:E2; try discriminate. inversion E; subst. simpl.
      clear IH E. revert l E2. induction r as [|[k2 j2] r IH2]; intros l E2.
      * simpl in E2. inversion E2. reflexivity.
      * destruct k2; simpl in E2; try discriminate.
        destruct (stdDecls r) eqn:E3; try discriminate. inversion E2; subst. simpl. apply (IH2 l0 eq_refl).
Qed.

Lemma toplevel_preserved_and_shape : forall items pk ds,
  stdParseFile items = Some (pk, ds) -> forkParse items = NPackage pk :: ds /\ fileShape (forkParse items) = true.
Proof. intros items pk ds H. exact (conj (toplevel_preserved items pk ds H) (toplevel_accept_shape items pk ds H)). Qed.

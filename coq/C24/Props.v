(* C24 — property theorems only: each closed by [exact lemma], followed by Print Assumptions.
   The precedence / keyword table obligations over the tables regenerated from the sources
   (C24_prec_tables_agree, C24_unary_ops_agree, C24_keyword_tables_agree, C24_toplevel_switch_agrees, C24_model_source_unchanged) are in
   translators/tr_c24tokens/PropsGen.v.tmpl, compiled on every run as build/C24/GenC24b_Props.v against the regenerated
   build/C24/GenC24a_Tokens.v. *)
From Coq Require Import List NArith ZArith Bool.
From Verif Require Import C24.Model C24.Proof C24.ProofTop.
Import ListNotations.
Open Scope Z_scope.

(* the recursion bound used by the model's parseExpr is never exhausted: a result is a tree or a syntax error *)
Theorem C24_parse_fuel_sufficient : forall inRhs ts, parseExpr inRhs ts <> OutOfFuel.
Proof. exact parseExpr_fuel. Qed.
Print Assumptions C24_parse_fuel_sufficient.

(* For EVERY token sequence: if the precedence climber (as written in the fork: loop over tokPrec, recursion with
   prec1 = oprec+1) returns a tree, then the tree is consistent with Go's precedence table and left associativity
   ([wf]), its in-order traversal followed by the unconsumed tokens is exactly the input, and the first unconsumed
   token is not a binary operator.
   Conversely every tree consistent with precedence and associativity is what the climber returns for its own token
   sequence, whatever non-operator follows; hence such a tree is unique for its token sequence. *)
Theorem C24_binary_tree_unique :
  (forall inRhs ts x rest, parseExpr inRhs ts = Ok (x, rest) -> wf x /\ flatten x ++ rest = ts /\ stops inRhs rest) /\
  (forall inRhs t rest, wf t -> stops inRhs rest -> parseExpr inRhs (flatten t ++ rest) = Ok (t, rest)) /\
  (forall t1 t2, wf t1 -> wf t2 -> flatten t1 = flatten t2 -> t1 = t2).
Proof. exact (conj parse_sound (conj parse_complete tree_unique)). Qed.
Print Assumptions C24_binary_tree_unique.

(* whole expressions (what the correspondence run observes): the model accepts ts with tree x  iff  x is the
   precedence-consistent tree whose in-order traversal is ts *)
Theorem C24_parse_whole_iff : forall inRhs ts x, parseWhole inRhs ts = Some x <-> (wf x /\ flatten x = ts).
Proof. exact parseWhole_spec. Qed.
Print Assumptions C24_parse_whole_iff.

(* top level: for every item sequence go/parser's parseFile accepts (package clause, imports, declarations), the
   node list of Parser.Parse is the package clause followed by exactly go/parser's declarations, in order, each
   produced by the same sub-parser class *)
Theorem C24_toplevel_decls_preserved : forall items pk ds,
  stdParseFile items = Some (pk, ds) -> forkParse items = NPackage pk :: ds /\ fileShape (forkParse items) = true.
Proof. exact toplevel_preserved_and_shape. Qed.
Print Assumptions C24_toplevel_decls_preserved.

(* top level, invalid structure: whenever parseFile rejects an extension-free item sequence, the fork's node list is
   not of file shape (this is the harness' ForkFileShape criterion; Parser.Parse itself reports no error: finding C24-3) *)
Theorem C24_toplevel_reject_partial : forall items, no_ext items ->
  stdParseFile items = None -> fileShape (forkParse items) = false.
Proof. exact toplevel_reject. Qed.
Print Assumptions C24_toplevel_reject_partial.

(* ---------------- non-vacuity ---------------- *)
Open Scope N_scope.
(* a + b * c - -d  parses as  ((a + (b*c)) - (-d)) *)
Example C24_ex_tree : parseWhole true [TAtom 0; TOp ADD; TAtom 1; TOp MUL; TAtom 2; TOp SUB; TOp SUB; TAtom 3]
  = Some (EBinary (EBinary (EAtom 0) ADD (EBinary (EAtom 1) MUL (EAtom 2))) SUB (EUnary SUB (EAtom 3))).
Proof. vm_compute. reflexivity. Qed.
(* a || b && c == d + e << f   : one operator of each level *)
Example C24_ex_levels : parseWhole true [TAtom 0; TOp LOR; TAtom 1; TOp LAND; TAtom 2; TOp EQL; TAtom 3; TOp ADD; TAtom 4; TOp SHL; TAtom 5]
  = Some (EBinary (EAtom 0) LOR (EBinary (EAtom 1) LAND (EBinary (EAtom 2) EQL (EBinary (EAtom 3) ADD (EBinary (EAtom 4) SHL (EAtom 5)))))).
Proof. vm_compute. reflexivity. Qed.
(* a - b - c is left associative; *p and <-c and parentheses *)
Example C24_ex_assoc : parseWhole true [TAtom 0; TOp SUB; TAtom 1; TOp SUB; TLparen; TOp MUL; TAtom 2; TOp QUO; TOp ARROW; TAtom 3; TRparen]
  = Some (EBinary (EBinary (EAtom 0) SUB (EAtom 1)) SUB (EParen (EBinary (EStar (EAtom 2)) QUO (EUnary ARROW (EAtom 3))))).
Proof. vm_compute. reflexivity. Qed.
Example C24_ex_wf : wf (EBinary (EBinary (EAtom 0) SUB (EAtom 1)) SUB (EParen (EBinary (EStar (EAtom 2)) QUO (EUnary ARROW (EAtom 3))))).
Proof. simpl. repeat split; auto; try discriminate; unfold UnaryPrec; auto with zarith. Qed.
(* errors: `a = b` on a right-hand side ('=' taken for '=='), missing operand, `a b` *)
Example C24_ex_errors : parseWhole true [TAtom 0; TAssign; TAtom 1] = None /\ parseWhole true [TAtom 0; TOp ADD] = None
  /\ parseWhole true [TAtom 0; TAtom 1] = None /\ parseWhole true [TAtom 0; TOp QUO; TOp QUO; TAtom 1] = None.
Proof. vm_compute. repeat split; reflexivity. Qed.
Example C24_ex_toplevel : stdParseFile [(KPackage, 0); (KImport, 1); (KImport, 2); (KDecl, 3); (KDecl, 4)] = Some (0, [NImport 1; NImport 2; NDecl 3; NDecl 4])
  /\ stdParseFile [(KPackage, 0); (KDecl, 3); (KImport, 1)] = None /\ stdParseFile [(KPackage, 0); (KOther, 3)] = None.
Proof. vm_compute. repeat split; reflexivity. Qed.

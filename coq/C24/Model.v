(* C24 — executable model of the forked parser's expression core and top-level loop.
   Definitions only (no proofs).

   go/parser/parser.go (fork):
     tokPrec            : tok := p.tok; if p.inRhs && tok == ASSIGN { tok = EQL }; return tok, tok.Precedence()
     parseBinaryExpr    : x := parseUnaryExpr(); for { op, oprec := tokPrec(); if oprec < prec1 { return x };
                          pos := expect(op); y := parseBinaryExpr(oprec+1); x = &BinaryExpr{x, op, y} }
     parseUnaryExpr     : + - ! ^ &  -> UnaryExpr;  <-  -> UnaryExpr (operands here are never channel types);
                          *  -> StarExpr;  otherwise parsePrimaryExpr
     parseOperand       : identifier/literal -> operand;  ( -> exprLev++, parseRhsOrType (inRhs := true), expect ')'
   go/parser/global.go (fork): Parser.Parse / parseAny top-level classification.

   Tokens are abstract: an operand token (identifier or literal, [TAtom n]), the operator tokens, '=' , '(' , ')'
   and [TOther] for every token that is neither (it has precedence 0 and is no operand: it ends the expression).
   Primary-expression suffixes (calls, selectors, indexes, composite literals) and the rest of the recursive descent
   are not modelled: they are tied to go/parser by the differential run only. *)
From Coq Require Import List NArith ZArith Bool.
Import ListNotations.
Open Scope Z_scope.

(* ------------------------------------------------------------------ tokens *)

(* the 19 binary operators of Go, and the two operators that are unary only *)
Inductive op :=
| LOR | LAND
| EQL | NEQ | LSS | LEQ | GTR | GEQ
| ADD | SUB | OR | XOR
| MUL | QUO | REM | SHL | SHR | AND | AND_NOT
| NOT | ARROW.

Definition all_ops : list op :=
  [LOR; LAND; EQL; NEQ; LSS; LEQ; GTR; GEQ; ADD; SUB; OR; XOR; MUL; QUO; REM; SHL; SHR; AND; AND_NOT; NOT; ARROW].

(* numeric value of the token in go/token (checked against the regenerated table of $GOROOT/src/go/token/token.go) *)
Definition op_code (o : op) : N :=
  match o with
  | ADD => 12 | SUB => 13 | MUL => 14 | QUO => 15 | REM => 16
  | AND => 17 | OR => 18 | XOR => 19 | SHL => 20 | SHR => 21 | AND_NOT => 22
  | LAND => 34 | LOR => 35 | ARROW => 36
  | EQL => 39 | LSS => 40 | GTR => 41 | NOT => 43 | NEQ => 44 | LEQ => 45 | GEQ => 46
  end%N.
Definition ASSIGN_code : N := 42%N.

Definition op_eqb (a b : op) : bool := N.eqb (op_code a) (op_code b).

(* token.Token.Precedence(): LowestPrec = 0 for non-operators, UnaryPrec = 6 *)
Definition prec (o : op) : Z :=
  match o with
  | LOR => 1
  | LAND => 2
  | EQL | NEQ | LSS | LEQ | GTR | GEQ => 3
  | ADD | SUB | OR | XOR => 4
  | MUL | QUO | REM | SHL | SHR | AND | AND_NOT => 5
  | NOT | ARROW => 0
  end.
Definition LowestPrec : Z := 0.
Definition UnaryPrec : Z := 6.

Inductive token :=
| TAtom (n : N)     (* operand: identifier or basic literal; parsePrimaryExpr consumes exactly this token *)
| TOp (o : op)
| TAssign           (* '=' *)
| TLparen | TRparen
| TOther.           (* any other token, e.g. ';' ',' ':' '{' or EOF *)

Inductive expr :=
| EAtom (n : N)
| EParen (x : expr)
| EStar (x : expr)                   (* ast.StarExpr *)
| EUnary (o : op) (x : expr)         (* ast.UnaryExpr *)
| EBinary (x : expr) (o : op) (y : expr).

Inductive res (A : Type) :=
| Ok (a : A)
| Err            (* the parser reports a syntax error *)
| OutOfFuel.     (* recursion bound of the model exhausted: never for the bound used by parseExpr (proved) *)
Arguments Ok {A} a.
Arguments Err {A}.
Arguments OutOfFuel {A}.

(* ------------------------------------------------------------------ tokPrec *)

(* precedence of the token as tok.Precedence() computes it *)
Definition token_prec (t : option token) : Z :=
  match t with
  | Some (TOp o) => prec o
  | _ => LowestPrec
  end.

(* tokPrec: returns the operator the loop will [expect], and its precedence *)
Definition tokPrec (inRhs : bool) (t : option token) : option token * Z :=
  let tok := t in
  let tok := match tok with
             | Some TAssign => if inRhs then Some (TOp EQL) else tok
             | _ => tok
             end in
  (tok, token_prec tok).

Definition token_eqb (a b : token) : bool :=
  match a, b with
  | TAtom n, TAtom m => N.eqb n m
  | TOp o, TOp o' => op_eqb o o'
  | TAssign, TAssign | TLparen, TLparen | TRparen, TRparen | TOther, TOther => true
  | _, _ => false
  end.

(* the case list of parseUnaryExpr: case ADD, SUB, NOT, XOR, AND *)
Definition is_unary_op (o : op) : bool :=
  match o with ADD | SUB | NOT | XOR | AND => true | _ => false end.

(* ------------------------------------------------------------------ the parser *)

Fixpoint parseUnary (fuel : nat) (ts : list token) {struct fuel} : res (expr * list token) :=
  match fuel with
  | O => OutOfFuel
  | S f =>
      match ts with
      | TOp MUL :: ts' =>
          match parseUnary f ts' with
          | Ok (x, r) => Ok (EStar x, r)
          | e => e
          end
      | TOp ARROW :: ts' =>
          match parseUnary f ts' with
          | Ok (x, r) => Ok (EUnary ARROW x, r)
          | e => e
          end
      | TOp o :: ts' =>
          if is_unary_op o then
            match parseUnary f ts' with
            | Ok (x, r) => Ok (EUnary o x, r)
            | e => e
            end
          else Err                       (* parseOperand: "expected operand" *)
      | TAtom n :: ts' => Ok (EAtom n, ts')
      | TLparen :: ts' =>
          match parseBinary f true 1 ts' with     (* parseRhsOrType: inRhs = true; parseExpr = parseBinaryExpr(LowestPrec+1) *)
          | Ok (x, TRparen :: r) => Ok (EParen x, r)
          | Ok _ => Err                  (* expect(RPAREN) *)
          | e => e
          end
      | _ => Err
      end
  end
with parseBinary (fuel : nat) (inRhs : bool) (prec1 : Z) (ts : list token) {struct fuel} : res (expr * list token) :=
  match fuel with
  | O => OutOfFuel
  | S f =>
      match parseUnary f ts with
      | Ok (x, ts1) => binLoop f inRhs prec1 x ts1
      | e => e
      end
  end
with binLoop (fuel : nat) (inRhs : bool) (prec1 : Z) (x : expr) (ts : list token) {struct fuel} : res (expr * list token) :=
  match fuel with
  | O => OutOfFuel
  | S f =>
      let '(optok, oprec) := tokPrec inRhs (hd_error ts) in
      if oprec <? prec1 then Ok (x, ts)
      else
        match optok, ts with
        | Some (TOp o), t :: ts2 =>
            if token_eqb t (TOp o) then              (* p.expect(op) *)
              match parseBinary f inRhs (oprec + 1) ts2 with
              | Ok (y, ts3) => binLoop f inRhs prec1 (EBinary x o y) ts3
              | e => e
              end
            else Err                                  (* '=' where '==' is expected *)
        | _, _ => Err
        end
  end.

Definition fuel_of (ts : list token) : nat := 3 * length ts + 3.

(* parseExpr: parseBinaryExpr(lhs, LowestPrec+1) *)
Definition parseExpr (inRhs : bool) (ts : list token) : res (expr * list token) :=
  parseBinary (fuel_of ts) inRhs (LowestPrec + 1) ts.

(* a complete expression: nothing may remain (in the harness the expression is followed by a newline, i.e. ';') *)
Definition parseWhole (inRhs : bool) (ts : list token) : option expr :=
  match parseExpr inRhs ts with
  | Ok (x, []) => Some x
  | _ => None
  end.

(* ------------------------------------------------------------------ specification side *)

Fixpoint flatten (e : expr) : list token :=
  match e with
  | EAtom n => [TAtom n]
  | EParen x => TLparen :: flatten x ++ [TRparen]
  | EStar x => TOp MUL :: flatten x
  | EUnary o x => TOp o :: flatten x
  | EBinary x o y => flatten x ++ TOp o :: flatten y
  end.

(* binding level of a tree: a binary expression binds as its operator, everything else as a unary expression *)
Definition lvl (e : expr) : Z :=
  match e with
  | EBinary _ o _ => prec o
  | _ => UnaryPrec
  end.

(* the tree is the one Go's grammar assigns: operators of a binary node are binary operators, the left operand binds at
   least as tightly (left associativity), the right operand strictly tighter, and the operand of a unary operator is
   itself a unary expression *)
Fixpoint wf (e : expr) : Prop :=
  match e with
  | EAtom _ => True
  | EParen x => wf x
  | EStar x => wf x /\ lvl x = UnaryPrec
  | EUnary o x => (is_unary_op o = true \/ o = ARROW) /\ wf x /\ lvl x = UnaryPrec
  | EBinary x o y => 1 <= prec o /\ wf x /\ wf y /\ prec o <= lvl x /\ prec o < lvl y
  end.

(* ------------------------------------------------------------------ expr equality (for the correspondence run) *)

Fixpoint expr_eqb (a b : expr) : bool :=
  match a, b with
  | EAtom n, EAtom m => N.eqb n m
  | EParen x, EParen y => expr_eqb x y
  | EStar x, EStar y => expr_eqb x y
  | EUnary o x, EUnary o' y => op_eqb o o' && expr_eqb x y
  | EBinary x o y, EBinary x' o' y' => expr_eqb x x' && op_eqb o o' && expr_eqb y y'
  | _, _ => false
  end.

(* ------------------------------------------------------------------ top level: Parser.Parse / parseAny vs parseFile *)

(* first token of a top-level item *)
Inductive tclass :=
| KPackage            (* package *)
| KImport             (* import *)
| KDecl               (* const type var func *)
| KExtDecl            (* macro ~func template: extension keywords, absent from extension-free input *)
| KOther.             (* anything else: the fork parses a statement / expression *)

(* what the top-level loop appends for one item; [id] identifies the item's text *)
Inductive node :=
| NPackage (id : N)   (* parsePackage *)
| NImport (id : N)    (* parseGenDecl(IMPORT, parseImportSpec) *)
| NDecl (id : N)      (* parseDecl(syncDecl) *)
| NStmt (id : N).     (* parseStmt, ExprStmt unwrapped *)

(* parseAny's switch *)
Definition parseAny (it : tclass * N) : node :=
  match it with
  | (KPackage, i) => NPackage i
  | (KImport, i) => NImport i
  | (KDecl, i) | (KExtDecl, i) => NDecl i
  | (KOther, i) => NStmt i
  end.

(* Parser.Parse: for p.tok != EOF { list = append(list, p.parseAny()) } (error-free items: each call consumes one item) *)
Definition forkParse (items : list (tclass * N)) : list node := map parseAny items.

(* go/parser parseFile: package clause; import declarations; declarations.  None = syntax error *)
Fixpoint stdDecls (items : list (tclass * N)) : option (list node) :=
  match items with
  | [] => Some []
  | (KDecl, i) :: r => match stdDecls r with Some l => Some (NDecl i :: l) | None => None end
  | _ => None          (* "expected declaration" / "imports must appear before other declarations" *)
  end.
Fixpoint stdImports (items : list (tclass * N)) : option (list node) :=
  match items with
  | (KImport, i) :: r => match stdImports r with Some l => Some (NImport i :: l) | None => None end
  | _ => stdDecls items
  end.
Definition stdParseFile (items : list (tclass * N)) : option (N * list node) :=
  match items with
  | (KPackage, i) :: r => match stdImports r with Some l => Some (i, l) | None => None end
  | _ => None          (* "expected 'package'" *)
  end.

(* the harness' ForkFileShape: the fork's node list is a Go file *)
Fixpoint declsOnly (l : list node) : bool :=
  match l with
  | [] => true
  | NDecl _ :: r => declsOnly r
  | _ => false
  end.
Fixpoint importsThenDecls (l : list node) : bool :=
  match l with
  | NImport _ :: r => importsThenDecls r
  | _ => declsOnly l
  end.
Definition fileShape (l : list node) : bool :=
  match l with
  | NPackage _ :: r => importsThenDecls r
  | _ => false
  end.
Definition no_ext (items : list (tclass * N)) : Prop := forall i, ~ In (KExtDecl, i) items.

(* ------------------------------------------------------------------ correspondence *)

Record case := mkCase { c_idx : Z; c_toks : list token; c_tree : option expr }.

Definition case_ok (c : case) : bool :=
  match parseWhole true (c_toks c), c_tree c with      (* `var _ = <expr>`: parseRhsList sets inRhs *)
  | Some x, Some y => expr_eqb x y
  | None, None => true
  | _, _ => false
  end.

Definition mismatches (cs : list case) : list Z :=
  map c_idx (filter (fun c => negb (case_ok c)) cs).

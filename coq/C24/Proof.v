(* C24 — lemmas about the precedence-climbing model (parseUnary / parseBinary / binLoop). *)
From Coq Require Import List NArith ZArith Bool Lia.
From Verif Require Import C24.Model.
Import ListNotations.
Open Scope Z_scope.

Definition R := res (expr * list token).

(* ------------------------------------------------------------------ one-level unfoldings *)

Definition unaryK (o : op) : option (expr -> expr) :=
  match o with
  | MUL => Some EStar
  | ARROW => Some (EUnary ARROW)
  | _ => if is_unary_op o then Some (EUnary o) else None
  end.

Definition uStep (pu : list token -> R) (pb : bool -> Z -> list token -> R) (ts : list token) : R :=
  match ts with
  | TOp o :: ts' =>
      match unaryK o with
      | Some k => match pu ts' with Ok (x, r) => Ok (k x, r) | e => e end
      | None => Err
      end
  | TAtom n :: ts' => Ok (EAtom n, ts')
  | TLparen :: ts' =>
      match pb true 1 ts' with
      | Ok (x, TRparen :: r) => Ok (EParen x, r)
      | Ok _ => Err
      | e => e
      end
  | _ => Err
  end.

Definition bStep (pu : list token -> R) (pl : bool -> Z -> expr -> list token -> R)
  (b : bool) (p : Z) (ts : list token) : R :=
  match pu ts with
  | Ok (x, ts1) => pl b p x ts1
  | e => e
  end.

Definition hp (b : bool) (ts : list token) : Z := snd (tokPrec b (hd_error ts)).

Definition lStep (pb : bool -> Z -> list token -> R) (pl : bool -> Z -> expr -> list token -> R)
  (b : bool) (p : Z) (x : expr) (ts : list token) : R :=
  if hp b ts <? p then Ok (x, ts)
  else match ts with
       | TOp o :: ts2 =>
           match pb b (prec o + 1) ts2 with
           | Ok (y, ts3) => pl b p (EBinary x o y) ts3
           | e => e
           end
       | _ => Err
       end.

Lemma op_eqb_refl : forall o, op_eqb o o = true.
Proof. destruct o; reflexivity. Qed.

Lemma op_eqb_eq : forall a b, op_eqb a b = true -> a = b.
Proof. destruct a, b; try reflexivity; intro H; discriminate H. Qed.

Lemma parseUnary_S : forall f ts, parseUnary (S f) ts = uStep (parseUnary f) (parseBinary f) ts.
Proof.
  intros f ts. destruct ts as [|[n|o| | | |] ts']; try reflexivity. destruct o; reflexivity.
Qed.

Lemma parseBinary_S : forall f b p ts, parseBinary (S f) b p ts = bStep (parseUnary f) (binLoop f) b p ts.
Proof. reflexivity. Qed.

Lemma binLoop_S : forall f b p x ts, binLoop (S f) b p x ts = lStep (parseBinary f) (binLoop f) b p x ts.
Proof.
  intros f b p x ts. unfold lStep, hp.
  change (binLoop (S f) b p x ts) with
    (let '(optok, oprec) := tokPrec b (hd_error ts) in
      if oprec <? p then Ok (x, ts)
      else
        match optok, ts with
        | Some (TOp o), t :: ts2 =>
            if token_eqb t (TOp o) then
              match parseBinary f b (oprec + 1) ts2 with
              | Ok (y, ts3) => binLoop f b p (EBinary x o y) ts3
              | e => e
              end
            else Err
        | _, _ => Err
        end).
  destruct ts as [|[n|o| | | |] ts2]; simpl; try reflexivity.
  - rewrite op_eqb_refl. reflexivity.
  - destruct b; simpl; reflexivity.
Qed.

Lemma parseUnary_0 : forall ts, parseUnary 0 ts = OutOfFuel. Proof. reflexivity. Qed.
Lemma parseBinary_0 : forall b p ts, parseBinary 0 b p ts = OutOfFuel. Proof. reflexivity. Qed.
Lemma binLoop_0 : forall b p x ts, binLoop 0 b p x ts = OutOfFuel. Proof. reflexivity. Qed.

Lemma hp_op : forall b o ts, hp b (TOp o :: ts) = prec o.
Proof. intros. reflexivity. Qed.

Lemma hp_nonneg : forall b ts, 0 <= hp b ts.
Proof.
  intros b ts. unfold hp. destruct ts as [|[n|o| | | |] ts]; simpl; try (unfold LowestPrec; lia).
  - destruct o; simpl; lia.
  - destruct b; simpl; unfold LowestPrec; lia.
Qed.

Lemma prec_le5 : forall o, prec o <= 5.
Proof. destruct o; simpl; lia. Qed.

Lemma prec_nonneg : forall o, 0 <= prec o.
Proof. destruct o; simpl; lia. Qed.

(* ------------------------------------------------------------------ soundness *)

Lemma unaryK_wf : forall o k x, unaryK o = Some k -> wf x -> lvl x = UnaryPrec ->
  wf (k x) /\ lvl (k x) = UnaryPrec /\ flatten (k x) = TOp o :: flatten x.
Proof.
  intros o k x H Hw Hl. destruct o; simpl in H; inversion H; subst; simpl; repeat split; auto.
Qed.

Definition soundU (f : nat) := forall ts x r, parseUnary f ts = Ok (x, r) ->
  wf x /\ lvl x = UnaryPrec /\ flatten x ++ r = ts.
Definition soundB (f : nat) := forall b p ts x r, 1 <= p <= 6 -> parseBinary f b p ts = Ok (x, r) ->
  wf x /\ p <= lvl x /\ flatten x ++ r = ts /\ hp b r < p.
Definition soundL (f : nat) := forall b p x ts x' r, 1 <= p <= 6 -> wf x -> p <= lvl x -> hp b ts <= lvl x ->
  binLoop f b p x ts = Ok (x', r) ->
  wf x' /\ p <= lvl x' /\ flatten x' ++ r = flatten x ++ ts /\ hp b r < p.

Lemma sound_all : forall f, soundU f /\ soundB f /\ soundL f.
Proof.
  induction f as [|f [IU [IB IL]]].
  - repeat split; intros; discriminate.
  - split; [|split].
    + (* parseUnary *)
      intros ts x r H. rewrite parseUnary_S in H. unfold uStep in H.
      destruct ts as [|[n|o| | | |] ts']; try discriminate.
      * inversion H; subst. simpl. auto.
      * destruct (unaryK o) as [k|] eqn:K; try discriminate.
        destruct (parseUnary f ts') as [[x0 r0]| |] eqn:E; try discriminate.
        inversion H; subst. destruct (IU _ _ _ E) as [W [L F]].
        destruct (unaryK_wf _ _ _ K W L) as [W' [L' F']].
        repeat split; auto. rewrite F'. simpl. rewrite F. reflexivity.
      * destruct (parseBinary f true 1 ts') as [[x0 r0]| |] eqn:E; try discriminate.
        destruct r0 as [|[n|o| | | |] r0]; try discriminate. inversion H; subst.
        destruct (IB true 1 ts' x0 (TRparen :: r) ltac:(lia) E) as [W [_ [F _]]].
        simpl. repeat split; auto. rewrite <- F. rewrite <- app_assoc. reflexivity.
    + (* parseBinary *)
      intros b p ts x r Hp H. rewrite parseBinary_S in H. unfold bStep in H.
      destruct (parseUnary f ts) as [[x0 ts1]| |] eqn:E; try discriminate.
      destruct (IU _ _ _ E) as [W [L F]].
      assert (HL : hp b ts1 <= lvl x0).
      { rewrite L. unfold UnaryPrec. unfold hp. destruct ts1 as [|[n|o| | | |] t1]; simpl; try (unfold LowestPrec; lia).
        - pose proof (prec_le5 o). lia.
        - destruct b; simpl; unfold LowestPrec; lia. }
      destruct (IL b p x0 ts1 x r Hp W ltac:(rewrite L; unfold UnaryPrec; lia) HL H) as [W' [P' [F' S']]].
      repeat split; auto. rewrite F'. exact F.
    + (* binLoop *)
      intros b p x ts x' r Hp W P HL H. rewrite binLoop_S in H. unfold lStep in H.
      destruct (hp b ts <? p) eqn:C.
      * inversion H; subst. apply Z.ltb_lt in C. repeat split; auto.
      * apply Z.ltb_ge in C.
        destruct ts as [|[n|o| | | |] ts2]; try discriminate.
        rewrite hp_op in C, HL.
        destruct (parseBinary f b (prec o + 1) ts2) as [[y ts3]| |] eqn:E; try discriminate.
        pose proof (prec_le5 o).
        destruct (IB b (prec o + 1) ts2 y ts3 ltac:(lia) E) as [Wy [Py [Fy Sy]]].
        assert (W2 : wf (EBinary x o y)) by (simpl; repeat split; auto; lia).
        destruct (IL b p (EBinary x o y) ts3 x' r Hp W2 ltac:(simpl; lia) ltac:(simpl; lia) H) as [W' [P' [F' S']]].
        repeat split; auto. rewrite F'. simpl. rewrite <- Fy. rewrite <- app_assoc. reflexivity.
Qed.

(* ------------------------------------------------------------------ fuel: monotonicity *)

Definition monoU (f : nat) := forall ts, parseUnary f ts <> OutOfFuel -> parseUnary (S f) ts = parseUnary f ts.
Definition monoB (f : nat) := forall b p ts, parseBinary f b p ts <> OutOfFuel -> parseBinary (S f) b p ts = parseBinary f b p ts.
Definition monoL (f : nat) := forall b p x ts, binLoop f b p x ts <> OutOfFuel -> binLoop (S f) b p x ts = binLoop f b p x ts.

Lemma mono_all : forall f, monoU f /\ monoB f /\ monoL f.
Proof.
  induction f as [|f [IU [IB IL]]].
  - repeat split; intros ? **; exfalso; auto.
  - split; [|split].
    + intros ts H. rewrite (parseUnary_S (S f)). rewrite parseUnary_S in *. unfold uStep in *.
      destruct ts as [|[n|o| | | |] ts']; try reflexivity.
      * destruct (unaryK o); try reflexivity.
        destruct (parseUnary f ts') as [[x0 r0]| |] eqn:E.
        -- rewrite IU by (rewrite E; discriminate). rewrite E. reflexivity.
        -- rewrite IU by (rewrite E; discriminate). rewrite E. reflexivity.
        -- exfalso. apply H. reflexivity.
      * destruct (parseBinary f true 1 ts') as [[x0 r0]| |] eqn:E.
        -- rewrite IB by (rewrite E; discriminate). rewrite E. reflexivity.
        -- rewrite IB by (rewrite E; discriminate). rewrite E. reflexivity.
        -- exfalso. apply H. reflexivity.
    + intros b p ts H. rewrite (parseBinary_S (S f)). rewrite parseBinary_S in *. unfold bStep in *.
      destruct (parseUnary f ts) as [[x0 r0]| |] eqn:E.
      * rewrite IU by (rewrite E; discriminate). rewrite E. apply IL. exact H.
      * rewrite IU by (rewrite E; discriminate). rewrite E. reflexivity.
      * exfalso. apply H. reflexivity.
    + intros b p x ts H. rewrite (binLoop_S (S f)). rewrite binLoop_S in *. unfold lStep in *.
      destruct (hp b ts <? p); try reflexivity.
      destruct ts as [|[n|o| | | |] ts2]; try reflexivity.
      destruct (parseBinary f b (prec o + 1) ts2) as [[y ts3]| |] eqn:E.
      * rewrite IB by (rewrite E; discriminate). rewrite E. apply IL. exact H.
      * rewrite IB by (rewrite E; discriminate). rewrite E. reflexivity.
      * exfalso. apply H. reflexivity.
Qed.

Lemma monoU_le : forall f f' ts, (f <= f')%nat -> parseUnary f ts <> OutOfFuel -> parseUnary f' ts = parseUnary f ts.
Proof.
  intros f f' ts Hle H. induction Hle; [reflexivity|].
  destruct (mono_all m) as [MU _]. rewrite MU; [exact IHHle | rewrite IHHle; exact H].
Qed.
Lemma monoB_le : forall f f' b p ts, (f <= f')%nat -> parseBinary f b p ts <> OutOfFuel -> parseBinary f' b p ts = parseBinary f b p ts.
Proof.
  intros f f' b p ts Hle H. induction Hle; [reflexivity|].
  destruct (mono_all m) as [_ [MB _]]. rewrite MB; [exact IHHle | rewrite IHHle; exact H].
Qed.
Lemma monoL_le : forall f f' b p x ts, (f <= f')%nat -> binLoop f b p x ts <> OutOfFuel -> binLoop f' b p x ts = binLoop f b p x ts.
Proof.
  intros f f' b p x ts Hle H. induction Hle; [reflexivity|].
  destruct (mono_all m) as [_ [_ ML]]. rewrite ML; [exact IHHle | rewrite IHHle; exact H].
Qed.

(* ------------------------------------------------------------------ fuel: consumed tokens and sufficiency *)

Definition lenU (f : nat) := forall ts x r, parseUnary f ts = Ok (x, r) -> (length r < length ts)%nat.
Definition lenB (f : nat) := forall b p ts x r, parseBinary f b p ts = Ok (x, r) -> (length r < length ts)%nat.
Definition lenL (f : nat) := forall b p x ts x' r, binLoop f b p x ts = Ok (x', r) -> (length r <= length ts)%nat.

Lemma len_all : forall f, lenU f /\ lenB f /\ lenL f.
Proof.
  induction f as [|f [IU [IB IL]]].
  - repeat split; intros ? **; discriminate.
  - split; [|split].
    + intros ts x r H. rewrite parseUnary_S in H. unfold uStep in H.
      destruct ts as [|[n|o| | | |] ts']; try discriminate.
      * inversion H; subst. simpl. lia.
      * destruct (unaryK o); try discriminate.
        destruct (parseUnary f ts') as [[x0 r0]| |] eqn:E; try discriminate.
        inversion H; subst. apply IU in E. simpl. lia.
      * destruct (parseBinary f true 1 ts') as [[x0 r0]| |] eqn:E; try discriminate.
        destruct r0 as [|[n|o| | | |] r0]; try discriminate. inversion H; subst.
        apply IB in E. simpl in *. lia.
    + intros b p ts x r H. rewrite parseBinary_S in H. unfold bStep in H.
      destruct (parseUnary f ts) as [[x0 r0]| |] eqn:E; try discriminate.
      apply IU in E. apply IL in H. lia.
    + intros b p x ts x' r H. rewrite binLoop_S in H. unfold lStep in H.
      destruct (hp b ts <? p).
      * inversion H; subst. lia.
      * destruct ts as [|[n|o| | | |] ts2]; try discriminate.
        destruct (parseBinary f b (prec o + 1) ts2) as [[y ts3]| |] eqn:E; try discriminate.
        apply IB in E. apply IL in H. simpl. lia.
Qed.

Definition sufU (f : nat) := forall ts, (3 * length ts + 1 <= f)%nat -> parseUnary f ts <> OutOfFuel.
Definition sufB (f : nat) := forall b p ts, (3 * length ts + 2 <= f)%nat -> parseBinary f b p ts <> OutOfFuel.
Definition sufL (f : nat) := forall b p x ts, (3 * length ts + 1 <= f)%nat -> binLoop f b p x ts <> OutOfFuel.

Lemma suf_all : forall f, sufU f /\ sufB f /\ sufL f.
Proof.
  induction f as [|f [IU [IB IL]]].
  - repeat split; intros ? **; lia.
  - destruct (len_all f) as [LU [LB LL]]. split; [|split].
    + intros ts Hf. rewrite parseUnary_S. unfold uStep.
      destruct ts as [|[n|o| | | |] ts']; try discriminate.
      * destruct (unaryK o); try discriminate.
        destruct (parseUnary f ts') as [[x0 r0]| |] eqn:E; try discriminate.
        exfalso. apply (IU ts'); [simpl in Hf; lia | exact E].
      * destruct (parseBinary f true 1 ts') as [[x0 r0]| |] eqn:E.
        -- destruct r0 as [|[n|o| | | |] r0]; discriminate.
        -- discriminate.
        -- exfalso. apply (IB true 1 ts'); [simpl in Hf; lia | exact E].
    + intros b p ts Hf. rewrite parseBinary_S. unfold bStep.
      destruct (parseUnary f ts) as [[x0 r0]| |] eqn:E; try discriminate.
      * apply IL. apply LU in E. lia.
      * exfalso. apply (IU ts); [lia | exact E].
    + intros b p x ts Hf. rewrite binLoop_S. unfold lStep.
      destruct (hp b ts <? p); try discriminate.
      destruct ts as [|[n|o| | | |] ts2]; try discriminate.
      destruct (parseBinary f b (prec o + 1) ts2) as [[y ts3]| |] eqn:E; try discriminate.
      * apply IL. apply LB in E. simpl in Hf. lia.
      * exfalso. apply (IB b (prec o + 1) ts2); [simpl in Hf; lia | exact E].
Qed.

(* the recursion bound used by parseExpr is never exhausted *)
Lemma parseExpr_fuel : forall b ts, parseExpr b ts <> OutOfFuel.
Proof.
  intros b ts. unfold parseExpr, fuel_of. destruct (suf_all (3 * length ts + 3)) as [_ [SB _]]. apply SB. lia.
Qed.

(* any fuel that produces a result produces the result of parseExpr *)
Lemma parseExpr_any_fuel : forall b ts f v, parseBinary f b (LowestPrec + 1) ts = Ok v -> parseExpr b ts = Ok v.
Proof.
  intros b ts f v H. pose proof (parseExpr_fuel b ts) as NF. unfold parseExpr in *.
  destruct (Nat.le_ge_cases f (fuel_of ts)) as [L|L].
  - rewrite (monoB_le f (fuel_of ts)); [exact H | exact L | rewrite H; discriminate].
  - rewrite <- (monoB_le (fuel_of ts) f); [exact H | exact L | exact NF].
Qed.

(* ------------------------------------------------------------------ completeness *)

Lemma wf_lvl : forall t, wf t -> 1 <= lvl t <= 6.
Proof.
  destruct t; simpl; unfold UnaryPrec; intros; try lia.
  pose proof (prec_le5 o). lia.
Qed.

Lemma unaryK_of_wf : forall o x, wf (EUnary o x) -> unaryK o = Some (EUnary o).
Proof.
  intros o x [[H|H] _]; destruct o; simpl in *; try discriminate; reflexivity.
Qed.

Definition complU (t : expr) := lvl t = UnaryPrec -> forall r, exists f, parseUnary f (flatten t ++ r) = Ok (t, r).
Definition complB (t : expr) := forall b p r f v, 1 <= p -> p <= lvl t -> hp b r <= lvl t ->
  binLoop f b p t r = Ok v -> exists f', parseBinary f' b p (flatten t ++ r) = Ok v.

(* a unary-level tree: parseBinary reaches the loop with exactly this tree *)
Lemma complB_of_U : forall t, lvl t = UnaryPrec -> complU t -> complB t.
Proof.
  intros t L CU b p r f v _ _ _ H. destruct (CU L r) as [f1 H1].
  exists (S (Nat.max f1 f)). rewrite parseBinary_S. unfold bStep.
  rewrite (monoU_le f1 (Nat.max f1 f)); [| lia | rewrite H1; discriminate]. rewrite H1.
  rewrite (monoL_le f (Nat.max f1 f)); [exact H | lia | rewrite H; discriminate].
Qed.

Lemma binLoop_stop : forall b p x r, hp b r < p -> binLoop 1 b p x r = Ok (x, r).
Proof.
  intros. rewrite binLoop_S. unfold lStep. apply Z.ltb_lt in H. rewrite H. reflexivity.
Qed.

Lemma compl_all : forall t, wf t -> complU t /\ complB t.
Proof.
  induction t as [n|x IH|x IH|o x IH|x IHx o y IHy]; intros W.
  - (* atom *)
    assert (CU : complU (EAtom n)) by (intros _ r; exists 1%nat; reflexivity).
    split; [exact CU | apply complB_of_U; [reflexivity | exact CU]].
  - (* paren *)
    simpl in W. destruct (IH W) as [_ CB].
    assert (CU : complU (EParen x)).
    { intros _ r. destruct (wf_lvl x W) as [L1 L6].
      destruct (CB true 1 (TRparen :: r) 1%nat (x, TRparen :: r) ltac:(lia) L1) as [f' H'].
      - unfold hp; simpl; unfold LowestPrec; lia.
      - apply binLoop_stop. unfold hp; simpl; unfold LowestPrec; lia.
      - exists (S f'). rewrite parseUnary_S. simpl. rewrite <- app_assoc. simpl. rewrite H'. reflexivity. }
    split; [exact CU | apply complB_of_U; [reflexivity | exact CU]].
  - (* star *)
    simpl in W. destruct W as [W L]. destruct (IH W) as [CUx _].
    assert (CU : complU (EStar x)).
    { intros _ r. destruct (CUx L r) as [f1 H1]. exists (S f1). rewrite parseUnary_S. simpl. rewrite H1. reflexivity. }
    split; [exact CU | apply complB_of_U; [reflexivity | exact CU]].
  - (* unary *)
    pose proof (unaryK_of_wf o x W) as K. simpl in W. destruct W as [_ [W L]]. destruct (IH W) as [CUx _].
    assert (CU : complU (EUnary o x)).
    { intros _ r. destruct (CUx L r) as [f1 H1]. exists (S f1). rewrite parseUnary_S. simpl. unfold uStep.
      rewrite K. rewrite H1. reflexivity. }
    split; [exact CU | apply complB_of_U; [reflexivity | exact CU]].
  - (* binary *)
    simpl in W. destruct W as [Po [Wx [Wy [Lx Ly]]]].
    destruct (IHx Wx) as [_ CBx]. destruct (IHy Wy) as [_ CBy].
    split.
    + intros L. exfalso. simpl in L. pose proof (prec_le5 o). unfold UnaryPrec in L. lia.
    + intros b p r f v Hp Hl Hr H. simpl in Hl, Hr.
      (* the right operand, parsed at precedence prec o + 1, stops at r *)
      destruct (CBy b (prec o + 1) r 1%nat (y, r) ltac:(lia) ltac:(lia) ltac:(lia)) as [f2 H2].
      { apply binLoop_stop. lia. }
      (* the loop, entered with x in front of `o y r`, performs one iteration and continues with the binary node *)
      assert (HL : binLoop (S (Nat.max f2 f)) b p x (TOp o :: flatten y ++ r) = Ok v).
      { rewrite binLoop_S. unfold lStep. rewrite hp_op.
        assert (C : prec o <? p = false) by (apply Z.ltb_ge; lia). rewrite C.
        rewrite (monoB_le f2 (Nat.max f2 f)); [| lia | rewrite H2; discriminate]. rewrite H2.
        rewrite (monoL_le f (Nat.max f2 f)); [exact H | lia | rewrite H; discriminate]. }
      destruct (CBx b p (TOp o :: flatten y ++ r) _ v Hp ltac:(lia) ltac:(rewrite hp_op; lia) HL) as [f' H'].
      exists f'. simpl. rewrite <- app_assoc. simpl. exact H'.
Qed.

(* ------------------------------------------------------------------ the statements used by Props.v *)

Definition stops (b : bool) (rest : list token) : Prop := hp b rest < 1.

Lemma parse_sound : forall b ts x rest, parseExpr b ts = Ok (x, rest) ->
  wf x /\ flatten x ++ rest = ts /\ stops b rest.
Proof.
  intros b ts x rest H. unfold parseExpr in H. destruct (sound_all (fuel_of ts)) as [_ [SB _]].
  destruct (SB b (LowestPrec + 1) ts x rest ltac:(unfold LowestPrec; lia) H) as [W [_ [F S]]].
  repeat split; auto.
Qed.

Lemma parse_complete : forall b t rest, wf t -> stops b rest -> parseExpr b (flatten t ++ rest) = Ok (t, rest).
Proof.
  intros b t rest W S. destruct (compl_all t W) as [_ CB]. destruct (wf_lvl t W) as [L1 L6].
  pose proof (hp_nonneg b rest). unfold stops in S.
  destruct (CB b 1 rest 1%nat (t, rest) ltac:(lia) L1 ltac:(lia)) as [f' H'].
  - apply binLoop_stop. exact S.
  - apply (parseExpr_any_fuel b _ f'). exact H'.
Qed.

Lemma tree_unique : forall t1 t2, wf t1 -> wf t2 -> flatten t1 = flatten t2 -> t1 = t2.
Proof.
  intros t1 t2 W1 W2 F.
  assert (S : stops false []) by (unfold stops, hp; simpl; unfold LowestPrec; lia).
  pose proof (parse_complete false t1 [] W1 S) as H1. pose proof (parse_complete false t2 [] W2 S) as H2.
  rewrite F in H1. rewrite H1 in H2. inversion H2. reflexivity.
Qed.

(* the whole-expression form used by the correspondence run *)
Lemma parseWhole_spec : forall b ts x, parseWhole b ts = Some x <-> (wf x /\ flatten x = ts).
Proof.
  intros b ts x. unfold parseWhole. split.
  - destruct (parseExpr b ts) as [[x0 r]| |] eqn:E; try discriminate.
    destruct r; try discriminate. intros H; inversion H; subst.
    destruct (parse_sound _ _ _ _ E) as [W [F _]]. rewrite app_nil_r in F. auto.
  - intros [W F]. assert (S : stops b []) by (unfold stops, hp; simpl; unfold LowestPrec; lia).
    pose proof (parse_complete b x [] W S) as H. rewrite app_nil_r in H. rewrite F in H. rewrite H. reflexivity.
Qed.

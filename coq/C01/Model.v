(* C01 -- typed expressions over basic types: fast/binary_ops.go, binary_shifts.go, binary_relops.go,
   binary_eqlneq.go, unary_ops.go, identifier.go and Expr.AsUint64 of util.go.
   Executable definitions only.  The closure tables are regenerated from the sources on every run by
   translators/tr_golite (build/C01/Gen_*.v).  This file says, from the enclosing function and the path
   conditions of a row, which template the row must be (classify), what the closure of that template looks like
   (closure_of_tmpl) and which Go operation it has to compute (spec_tmpl). *)
From Coq Require Import ZArith List Bool.
From Verif Require Import Common.GoInt Common.GoStr GoLite.Syntax GoLite.Sem.
Import ListNotations.
Open Scope Z_scope.

Inductive cshape := ShVV | ShVC | ShCV | ShUn.

Inductive tmpl :=
  | TBin (op : binop) (sh : cshape) (styleB : bool) (k : gokind)   (* x OP y, operands fun/fun, fun/const, const/fun *)
  | TShift (op : binop) (sh : cshape) (k : gokind)                 (* x << y, x >> y with y a uint64 count *)
  | TUn (op : unop) (k : gokind)
  | TMulPow2 (k : gokind) (negy : bool) (lit : option Z)           (* x * +-2^sh as shift; lit: the cases shift = 1, 2, 8 *)
  | TQuoPow2 (k : gokind) (negy : bool)                            (* x / +-2^sh with the sign fix-up *)
  | TRemPow2 (k : gokind)                                          (* x % +-2^sh as mask *)
  | TAsU64 (k : gokind)                                            (* Expr.AsUint64: shift count conversion *)
  | TAsU64Const.

(* ------------------------------------------------------------------ classification of a row *)
Definition binop_of_fn (f : fname) : option (binop * bool) :=   (* operator, let-style B *)
  match f with
  | FN_Add => Some (Add, false) | FN_Sub => Some (Sub, false) | FN_Mul => Some (Mul, false)
  | FN_Quo => Some (Quo, false) | FN_Rem => Some (Rem, false) | FN_And => Some (And, false)
  | FN_Or => Some (Or, false) | FN_Xor => Some (Xor, false) | FN_Andnot => Some (AndNot, false)
  | FN_Lss => Some (Lss, true) | FN_Gtr => Some (Gtr, true) | FN_Leq => Some (Leq, true) | FN_Geq => Some (Geq, true)
  | FN_Eql => Some (Eql, true) | FN_Neq => Some (Neq, true)
  | _ => None
  end.

Definition numeric (k : gokind) : bool := is_integer k || is_float k || is_complex k.
Definition ordered (k : gokind) : bool := is_integer k || is_float k || match k with GString => true | _ => false end.
Definition op_valid (op : binop) (k : gokind) : bool :=
  match op with
  | Add => numeric k || match k with GString => true | _ => false end
  | Sub | Mul | Quo => numeric k
  | Rem | And | Or | Xor | AndNot => is_integer k
  | Lss | Leq | Gtr | Geq => ordered k
  | Eql | Neq => true
  | _ => false
  end.

Definition p_xc_eq_yc := EBin Eql (EVar V_xc) (EVar V_yc).

(* the if / else-if / else chain on the constness of the operands, then the switch on the kind *)
Definition shape_kind (tagvar : ident) (p : list pcond) : option (cshape * gokind) :=
  match p with
  | [PIf c true; PCase (EVar t) [EKindLit k]] =>
      if expr_beq c p_xc_eq_yc && ident_beq t tagvar then Some (ShVV, k) else None
  | [PIf c false; PIf (EVar V_yc) yc; PCase (EVar t) [EKindLit k]] =>
      if expr_beq c p_xc_eq_yc && ident_beq t tagvar then Some (if yc then ShVC else ShCV, k) else None
  | _ => None
  end.

Definition kind_of_case (p : pcond) : option gokind :=
  match p with
  | PCase (ECall0 (EMeth (ESel (EVar V_xe) F_Type) M_Kind)) [EKindLit k] => Some k
  | _ => None
  end.

Definition classify (e : entry) : option tmpl :=
  let f := e_func e in
  let p := e_path e in
  match binop_of_fn f with
  | Some (op, styleB) =>
      let p' := match f, p with
                | FN_Eql, PIf (EBin Neq (EVar V_k) _) false :: r => r
                | FN_Neq, PIf (EBin Neq (EVar V_k) _) false :: r => r
                | FN_Eql, _ => [] | FN_Neq, _ => []
                | _, _ => p
                end in
      match shape_kind V_k p' with
      | Some (sh, k) => if op_valid op k then Some (TBin op sh styleB k) else None
      | None => None
      end
  | None =>
    match f with
    | FN_Shl | FN_Shr =>
        match shape_kind V_xk p with
        | Some (sh, k) => if is_integer k then Some (TShift (match f with FN_Shl => Shl | _ => Shr end) sh k) else None
        | None => None
        end
    | FN_UnaryMinus | FN_UnaryXor | FN_UnaryNot =>
        match p with
        | [PCase (ETypeOf (EVar V_x)) [ETypeLit (TFun k)]] =>
            match f with
            | FN_UnaryMinus => if numeric k then Some (TUn Neg k) else None
            | FN_UnaryXor => if is_integer k then Some (TUn Compl k) else None
            | _ => match k with GBool => Some (TUn LNot k) | _ => None end
            end
        | _ => None
        end
    | FN_mulPow2 =>
        match p with
        | [c; PIf (EVar V_ypositive) true; PCase (EVar V_shift) [ELit z]] =>
            match kind_of_case c with Some k => if is_signed k then Some (TMulPow2 k false (Some z)) else None | None => None end
        | [c; PIf (EVar V_ypositive) true; PDefault (EVar V_shift) _] =>
            match kind_of_case c with Some k => if is_signed k then Some (TMulPow2 k false None) else None | None => None end
        | [c; PIf (EVar V_ypositive) false] =>
            match kind_of_case c with Some k => if is_signed k then Some (TMulPow2 k true None) else None | None => None end
        | [c; PCase (EVar V_shift) [ELit z]] =>
            match kind_of_case c with Some k => if is_unsigned k then Some (TMulPow2 k false (Some z)) else None | None => None end
        | [c; PDefault (EVar V_shift) _] =>
            match kind_of_case c with Some k => if is_unsigned k then Some (TMulPow2 k false None) else None | None => None end
        | _ => None
        end
    | FN_quoPow2 =>
        match p with
        | [c; PIf (EVar V_ypositive) pos] =>
            match kind_of_case c with Some k => if is_signed k then Some (TQuoPow2 k (negb pos)) else None | None => None end
        | [c] => match kind_of_case c with Some k => if is_unsigned k then Some (TQuoPow2 k false) else None | None => None end
        | _ => None
        end
    | FN_remPow2 =>
        match p with
        | [c] => match kind_of_case c with Some k => if is_integer k then Some (TRemPow2 k) else None | None => None end
        | _ => None
        end
    | FN_AsUint64 =>
        match p with
        | [PCase (ETypeOf (ESel (EVar V_e) F_Fun)) [ETypeLit (TFun k)]] => if is_integer k then Some (TAsU64 k) else None
        | [PIf (EBin Eql (EVar V_e) (EVar V_nil)) false; PIf (ECall0 (EMeth (EVar V_e) M_Const)) true] => Some TAsU64Const
        | _ => None
        end
    | _ => None
    end
  end.

(* ------------------------------------------------------------------ the closure of a template *)
Definition xeFun := ESel (EVar V_xe) F_Fun.
Definition yeFun := ESel (EVar V_ye) F_Fun.
Definition xeValue := ESel (EVar V_xe) F_Value.
Definition yeValue := ESel (EVar V_ye) F_Value.
Definition yeAsU64 := ECall0 (EMeth (EVar V_ye) M_AsUint64).
Definition yeConstU64 := EProj 0 (ECall1 (EGlob G_constAsUint64) yeValue).
Definition eFun := ESel (EVar V_e) F_Fun.
Definition eConstU64 := EProj 0 (ECall1 (EGlob G_constAsUint64) (ESel (EVar V_e) F_Value)).
Definition callx := ECall1 (EVar V_x) (EVar V_env).
Definition cally := ECall1 (EVar V_y) (EVar V_env).
Definition valueOf (e : expr) := ECall1 (EGlob G_ValueOf) e.
Definition assertf (k : gokind) (x : ident) := (x, EAssert (TFun k) (EVar x)).

Definition acc_meth (k : gokind) : meth :=
  if is_signed k then M_Int else if is_unsigned k then M_Uint else if is_float k then M_Float
  else if is_complex k then M_Complex else match k with GString => M_String | _ => M_Bool end.
Definition wide (k : gokind) : bool :=
  match k with GInt64 | GUint64 | GFloat64 | GComplex128 | GString | GBool => true | _ => false end.
(* K(v.Int()) : the constant operand taken out of its reflect.Value; no conversion for the widest kinds *)
Definition cextract (k : gokind) (src : expr) : expr :=
  let acc := ECall0 (EMeth src (acc_meth k)) in if wide k then acc else EConv (TK k) acc.

Definition is_cmp_op (op : binop) : bool :=
  match op with Eql | Neq | Lss | Leq | Gtr | Geq => true | _ => false end.
Definition result_kind (op : binop) (k : gokind) : gokind := if is_cmp_op op then GBool else k.

Definition envp : list (ident * ty) := [(V_env, TEnv)].
Definition shiftlet := (V_shift, EBin Sub (ECall1 (EGlob G_integerLen) (EVar V_y)) (ELit 1)).
Definition y1let (k : gokind) := (V_y_1, EConv (TK k) (EBin Sub (EVar V_y) (ELit 1))).
Definition vn := EVar V_n.

Definition closure_of_tmpl (t : tmpl) : closure :=
  match t with
  | TBin op ShVV _ k =>
      mkClosure [(V_x, xeFun); (V_y, yeFun); assertf k V_x; assertf k V_y] envp [TK (result_kind op k)]
        (SReturn (EBin op callx cally))
  | TBin op ShVC false k =>
      mkClosure [(V_x, xeFun); (V_y, yeValue); assertf k V_x; (V_y, cextract k (valueOf (EVar V_y)))] envp [TK (result_kind op k)]
        (SReturn (EBin op callx (EVar V_y)))
  | TBin op ShVC true k =>
      mkClosure [(V_x, xeFun); (V_yv, valueOf yeValue); assertf k V_x; (V_y, cextract k (EVar V_yv))] envp [TK (result_kind op k)]
        (SReturn (EBin op callx (EVar V_y)))
  | TBin op ShCV false k =>
      mkClosure [(V_x, xeValue); (V_y, yeFun); (V_x, cextract k (valueOf (EVar V_x))); assertf k V_y] envp [TK (result_kind op k)]
        (SReturn (EBin op (EVar V_x) cally))
  | TBin op ShCV true k =>
      mkClosure [(V_xv, valueOf xeValue); (V_y, yeFun); (V_x, cextract k (EVar V_xv)); assertf k V_y] envp [TK (result_kind op k)]
        (SReturn (EBin op (EVar V_x) cally))
  | TBin op ShUn _ k => mkClosure [] [] [] (SOpaque 0)
  | TShift op ShVV k =>
      mkClosure [(V_x, xeFun); (V_y, yeAsU64); assertf k V_x] envp [TK k] (SReturn (EBin op callx cally))
  | TShift op ShVC k =>
      mkClosure [(V_x, xeFun); (V_y, yeConstU64); assertf k V_x] envp [TK k] (SReturn (EBin op callx (EVar V_y)))
  | TShift op ShCV k =>
      mkClosure [(V_xv, valueOf xeValue); (V_y, yeAsU64); (V_x, cextract k (EVar V_xv))] envp [TK k]
        (SReturn (EBin op (EVar V_x) cally))
  | TShift op ShUn k => mkClosure [] [] [] (SOpaque 0)
  | TUn op k => mkClosure [(V_x, xeFun); assertf k V_x] envp [TK k] (SReturn (EUn op callx))
  | TMulPow2 k false (Some z) =>
      mkClosure [(V_x, xeFun); assertf k V_x] envp [TK k] (SReturn (EBin Shl callx (ELit z)))
  | TMulPow2 k false None =>
      mkClosure [shiftlet; (V_x, xeFun); assertf k V_x] envp [TK k] (SReturn (EBin Shl callx (EVar V_shift)))
  | TMulPow2 k true _ =>
      mkClosure [shiftlet; (V_x, xeFun); assertf k V_x] envp [TK k] (SReturn (EUn Neg (EBin Shl callx (EVar V_shift))))
  | TQuoPow2 k negy =>
      if is_signed k then
        mkClosure [shiftlet; (V_x, xeFun); assertf k V_x; y1let k] envp [TK k]
          (SSeq (SDefine V_n callx)
          (SSeq (SIf (EBin Lss vn (ELit 0)) (SOpAssign Add vn (EVar V_y_1)) SSkip)
                (SReturn (if negy then EUn Neg (EBin Shr vn (EVar V_shift)) else EBin Shr vn (EVar V_shift)))))
      else
        mkClosure [shiftlet; (V_x, xeFun); assertf k V_x] envp [TK k] (SReturn (EBin Shr callx (EVar V_shift)))
  | TRemPow2 k =>
      if is_signed k then
        mkClosure [(V_x, xeFun); assertf k V_x; y1let k] envp [TK k]
          (SSeq (SDefine V_n callx)
          (SSeq (SIf (EBin Geq vn (ELit 0)) (SReturn (EBin And vn (EVar V_y_1))) SSkip)
                (SReturn (EUn Neg (EBin And (EUn Neg vn) (EVar V_y_1))))))
      else
        mkClosure [(V_x, xeFun); assertf k V_x; y1let k] envp [TK k] (SReturn (EBin And callx (EVar V_y_1)))
  | TAsU64 k =>
      if is_signed k then
        mkClosure [(V_fun, EAssert (TFun k) eFun)] envp [TK GUint64]
          (SSeq (SDefine V_i (ECall1 (EVar V_fun) (EVar V_env)))
          (SSeq (SIf (EBin Lss (EVar V_i) (ELit 0)) (SExpr (ECall1 (EGlob G_panic) (EGlob G_negativeShiftAmount))) SSkip)
                (SReturn (EConv (TK GUint64) (EVar V_i)))))
      else
        mkClosure [(V_fun, EAssert (TFun k) eFun)] envp [TK GUint64]
          (SReturn (EConv (TK GUint64) (ECall1 (EVar V_fun) (EVar V_env))))
  | TAsU64Const => mkClosure [(V_n, eConstU64)] [(V_other 0, TEnv)] [TK GUint64] (SReturn (EVar V_n))
  end.

(* rows that belong to the property: basic-kind closures.  Decided by the enclosing function and the path only. *)
Definition has_basic_case (p : list pcond) : bool :=
  existsb (fun c => match c with
                    | PCase _ [EKindLit _] => true
                    | PCase _ [ETypeLit (TFun _)] => true
                    | _ => false end) p.
Definition in_scope (e : entry) : bool :=
  match e_func e with
  | FN_eqlneqMisc | FN_eqlneqNilR | FN_StarExpr | FN_Deref | FN_derefUnwrap | FN_exprZero => false
  | FN_Bind_expr | FN_Symbol_expr | FN_Bind_intExpr | FN_Symbol_intExpr => false   (* checked by varread_ok below *)
  | FN_AsUint64 =>
      match e_path e with
      | PCase _ [ETypeLit TFunV] :: _ => false
      | PCase _ [ETypeLit TFunVV] :: _ => false
      | _ => true
      end
  | _ => true
  end.


(* ------------------------------------------------------------------ specification *)
Definition tmpl_valid (t : tmpl) : bool :=
  match t with
  | TBin op ShUn _ _ => false
  | TBin op _ _ k => op_valid op k
  | TShift _ ShUn _ => false
  | TShift op _ k => is_integer k && match op with Shl | Shr => true | _ => false end
  | TUn Neg k => numeric k
  | TUn Compl k => is_integer k
  | TUn LNot k => match k with GBool => true | _ => false end
  | TUn Plus _ => false
  | TMulPow2 k negy lit => is_integer k && (negb negy || is_signed k) && match lit with Some z => negb negy && (0 <=? z) | None => true end
  | TQuoPow2 k negy => is_integer k && (negb negy || is_signed k)
  | TRemPow2 k => is_integer k
  | TAsU64 k => is_integer k
  | TAsU64Const => true
  end.

(* the checker run on every regenerated row *)
Definition entry_ok (e : entry) : bool :=
  match classify e with
  | Some t => tmpl_valid t && closure_beq (closure_of e) (closure_of_tmpl t)
  | None => false
  end.
Definition row_ok (e : entry) : bool := if in_scope e then entry_ok e else true.

Section Spec.
  Variable F : Type.
  Variable fbin : gokind -> binop -> F -> F -> F.
  Variable fcmp : gokind -> binop -> F -> F -> bool.
  Variable fun1 : gokind -> unop -> F -> F.
  Variable fconv : gokind -> gokind -> F -> F.
  Variable fpart : gokind -> bool -> F -> F.
  Variable fofbits : gokind -> Z -> Z -> F.

  Notation value := (value F).
  Notation opfun := (opfun F).
  Notation go_binop := (go_binop F fbin fcmp).
  Notation go_unop := (go_unop F fun1).
  Notation go_shift := (go_shift F).
  Notation M := (M F).

  (* what the closure is built from: the operand functions, the constant operand, the exponent of a power of two *)
  Record inputs := mkInputs { in_fx : opfun; in_fy : opfun; in_c : value; in_sh : Z }.

  (* the constant operand as the closure sees it: K(reflect.ValueOf(c).Int()) etc.
     For integers, bools and strings this is c itself (Proof.norm_const_id); for floats it is the
     float64 / complex128 round trip of the abstract conversion *)
  Definition norm_const (k : gokind) (c : value) : res value :=
    rbind (accessor F fconv (acc_meth k) c) (fun v => if wide k then Ok v else convert F fconv k v).

  Definition roots_of (t : tmpl) (i : inputs) : cenv F :=
    let fx := in_fx i in let fy := in_fy i in let c := in_c i in
    match t with
    | TBin _ ShVV _ k => [(xeFun, CF F k fx); (yeFun, CF F k fy)]
    | TBin _ ShVC _ k => [(xeFun, CF F k fx); (yeValue, CV F c)]
    | TBin _ ShCV _ k => [(xeValue, CV F c); (yeFun, CF F k fy)]
    | TShift _ ShVV k => [(xeFun, CF F k fx); (yeAsU64, CF F GUint64 fy)]
    | TShift _ ShVC k => [(xeFun, CF F k fx); (yeConstU64, CV F c)]
    | TShift _ ShCV k => [(xeValue, CV F c); (yeAsU64, CF F GUint64 fy)]
    | TUn _ k => [(xeFun, CF F k fx)]
    | TMulPow2 k _ _ | TQuoPow2 k _ | TRemPow2 k => [(xeFun, CF F k fx); (EVar V_y, CV F (VInt GUint64 (2 ^ in_sh i)))]
    | TAsU64 k => [(eFun, CF F k fx)]
    | TAsU64Const => [(eConstU64, CV F c)]
    | _ => []
    end.

  Definition on_int (a : value) (f : Z -> M value) : M value :=
    match a with VInt _ x => f x | _ => stuck F end.

  (* THE specification of each template, in terms of the Go operators of Sem / GoInt *)
  Definition spec_tmpl (t : tmpl) (i : inputs) (p : nat) : M value :=
    let fx := in_fx i in let fy := in_fy i in let c := in_c i in let sh := in_sh i in
    match t with
    | TBin op ShVV _ k => bind F (fx p) (fun a => bind F (fy p) (fun b => lift F (go_binop k op a b)))
    | TBin op ShVC _ k =>
        match norm_const k c with Ok c' => bind F (fx p) (fun a => lift F (go_binop k op a c')) | _ => stuck F end
    | TBin op ShCV _ k =>
        match norm_const k c with Ok c' => bind F (fy p) (fun b => lift F (go_binop k op c' b)) | _ => stuck F end
    | TShift op ShVV k => bind F (fx p) (fun a => bind F (fy p) (fun n => lift F (go_shift k op a n)))
    | TShift op ShVC k => bind F (fx p) (fun a => lift F (go_shift k op a c))
    | TShift op ShCV k =>
        match norm_const k c with Ok c' => bind F (fy p) (fun n => lift F (go_shift k op c' n)) | _ => stuck F end
    | TUn op k => bind F (fx p) (fun a => lift F (go_unop op a))
    | TMulPow2 k negy lit =>
        let e := match lit with Some z => z | None => sh end in
        bind F (fx p) (fun a => on_int a (fun x => ret F (VInt k (GoInt.mul (ikd k) x (if negy then - 2 ^ e else 2 ^ e)))))
    | TQuoPow2 k negy =>
        bind F (fx p) (fun a => on_int a (fun x => ret F (VInt k (GoInt.quo_total (ikd k) x (if negy then - 2 ^ sh else 2 ^ sh)))))
    | TRemPow2 k =>
        bind F (fx p) (fun a => on_int a (fun x => ret F (VInt k (GoInt.rem_total (ikd k) x (2 ^ sh)))))
    | TAsU64 k =>
        bind F (fx p) (fun a => on_int a (fun n =>
          if is_signed k && (n <? 0) then (fun _ => Panic PNegShift) else ret F (VInt GUint64 n)))
    | TAsU64Const => ret F c
    | _ => stuck F
    end.

  (* hypotheses on the inputs: operand functions return well-formed values of their kind, the constant is a
     well-formed value of its kind, 2^sh is a constant of kind k *)
  Definition inputs_ok (t : tmpl) (i : inputs) : Prop :=
    let fx := in_fx i in let fy := in_fy i in let c := in_c i in let sh := in_sh i in
    match t with
    | TBin _ ShVV _ k => wf_opfun F k fx /\ wf_opfun F k fy
    | TBin _ ShVC _ k => wf_opfun F k fx /\ wf_value F k c
    | TBin _ ShCV _ k => wf_value F k c /\ wf_opfun F k fy
    | TShift _ ShVV k => wf_opfun F k fx /\ wf_opfun F GUint64 fy
    | TShift _ ShVC k => wf_opfun F k fx /\ wf_value F GUint64 c
    | TShift _ ShCV k => wf_value F k c /\ wf_opfun F GUint64 fy
    | TUn _ k => wf_opfun F k fx
    | TMulPow2 k _ _ => wf_opfun F k fx /\ 0 <= sh <= 63
    | TQuoPow2 k _ | TRemPow2 k => wf_opfun F k fx /\ 0 <= sh <= GoInt.width (ikd k) - 1
    | TAsU64 k => wf_opfun F k fx
    | TAsU64Const => wf_value F GUint64 c
    | _ => True
    end.

  (* the closure called with the env pointer p *)
  Definition run (roots : cenv F) (c : closure) (p : nat) : M value :=
    fun s => match denote F fbin fcmp fun1 fconv fpart fofbits 0 roots c [VEnv p] s with
             | Ok ([v], s') => Ok (v, s')
             | Ok _ => Stuck
             | Panic q => Panic q
             | Stuck => Stuck
             | OutOfFuel => OutOfFuel
             end.
End Spec.

(* ------------------------------------------------------------------ correspondence run (integers, bools, strings) *)
(* floats never occur in these cases, so the abstract float carrier is instantiated with unit *)
Definition uval := value unit.
Definition ubin (_ : gokind) (_ : binop) (_ _ : unit) := tt.
Definition ucmp (_ : gokind) (_ : binop) (_ _ : unit) := false.
Definition uun (_ : gokind) (_ : unop) (_ : unit) := tt.
Definition uconv (_ _ : gokind) (_ : unit) := tt.
Definition upart (_ : gokind) (_ : bool) (_ : unit) := tt.
Definition ubits (_ : gokind) (_ _ : Z) := tt.

Inductive obs := ObsVal (v : uval) | ObsPanic (p : panic) | ObsCompileError.
Record case := mkCase { c_idx : Z; c_fn : fname; c_shape : cshape; c_kind : gokind; c_a : uval; c_b : uval; c_obs : obs }.

Definition uval_eqb (a b : uval) : bool :=
  match a, b with
  | VBool x, VBool y => Bool.eqb x y
  | VInt k x, VInt k' y => gokind_beq k k' && (x =? y)
  | VStr x, VStr y => str_eqb x y
  | _, _ => false
  end.
Definition panic_eqb (a b : panic) : bool :=
  match a, b with
  | PDiv0, PDiv0 | PNegShift, PNegShift | PIndex, PIndex | PNil, PNil | POther, POther => true
  | _, _ => false
  end.
Definition obs_matches (r : res uval) (o : obs) : bool :=
  match r, o with
  | Ok v, ObsVal w => uval_eqb v w
  | Panic p, ObsPanic q => panic_eqb p q
  | _, _ => false
  end.

Definition unop_of_fn (f : fname) : option unop :=
  match f with
  | FN_UnaryMinus => Some Neg | FN_UnaryXor => Some Compl | FN_UnaryNot => Some LNot | FN_UnaryPlus => Some Plus
  | _ => None
  end.
Definition shiftop_of_fn (f : fname) : option binop :=
  match f with FN_Shl => Some Shl | FN_Shr => Some Shr | _ => None end.

(* what Go does for the case (the specification side of the correspondence) *)
Definition case_spec (c : case) : res uval :=
  match binop_of_fn (c_fn c), shiftop_of_fn (c_fn c), unop_of_fn (c_fn c) with
  | Some (op, _), _, _ => go_binop unit ubin ucmp (c_kind c) op (c_a c) (c_b c)
  | _, Some op, _ => go_shift unit (c_kind c) op (c_a c) (c_b c)
  | _, _, Some op => go_unop unit uun op (c_a c)
  | _, _, _ => Stuck
  end.
(* constant expressions Go rejects: integer division by a constant zero, negative constant shift count *)
Definition case_compile_error (c : case) : bool :=
  match c_shape c, c_b c with
  | ShVC, VInt kb n =>
      match binop_of_fn (c_fn c), shiftop_of_fn (c_fn c) with
      | Some (Quo, _), _ | Some (Rem, _), _ => is_integer (c_kind c) && (n =? 0)
      | _, Some _ => n <? 0
      | _, _ => false
      end
  | _, _ => false
  end.

Definition const_fun (v : uval) : opfun unit := fun _ s => Ok (v, s).
Definition urun := run unit ubin ucmp uun uconv upart ubits.
Definition find_tmpl (tables : list entry) (t : tmpl) : option entry :=
  find (fun e => match classify e with
                 | Some t' => closure_beq (closure_of_tmpl t) (closure_of_tmpl t') && in_scope e
                 | None => false end) tables.
Definition run_tmpl (tables : list entry) (t : tmpl) (i : inputs unit) : res uval :=
  match find_tmpl tables t with
  | Some e => match urun (roots_of unit t i) (closure_of e) 0%nat [] with
              | Ok (v, _) => Ok v | Panic p => Panic p | Stuck => Stuck | OutOfFuel => OutOfFuel end
  | None => Stuck
  end.

(* exponent of a power of two >= 2 *)
Definition pow2_exp (y : Z) : option Z :=
  if y <=? 1 then None else let l := Z.log2 y in if 2 ^ l =? y then Some l else None.

(* the shift count as the closure receives it: through the Expr.AsUint64 row of the count's kind *)
Definition count_through_asU64 (tables : list entry) (b : uval) : res uval :=
  match b with
  | VInt GUint64 n => Ok b
  | VInt kc n => run_tmpl tables (TAsU64 kc) (mkInputs unit (const_fun b) (const_fun b) b 0)
  | _ => Stuck
  end.

(* the regenerated rows that gomacro may use for the case, each evaluated on the case's operands *)
Definition case_rows (tables : list entry) (c : case) : list (res uval) :=
  let k := c_kind c in let a := c_a c in let b := c_b c in
  let inp := mkInputs unit (const_fun a) (const_fun b) (match c_shape c with ShCV => a | _ => b end) 0 in
  match binop_of_fn (c_fn c), shiftop_of_fn (c_fn c), unop_of_fn (c_fn c) with
  | Some (op, sb), _, _ =>
      (* no row for this (operator, kind): gomacro uses its reflect-based fallback (bool != bool), tied by the
         harness' direct oracle only *)
      let generic := match find_tmpl tables (TBin op (c_shape c) sb k) with
                     | Some _ => [run_tmpl tables (TBin op (c_shape c) sb k) inp]
                     | None => [] end in
      let cst := match c_shape c with ShVC => Some b | ShCV => Some a | _ => None end in
      let pow2 :=
        match cst, op with
        | Some (VInt _ y), Quo | Some (VInt _ y), Rem | Some (VInt _ y), Mul =>
            if is_integer k && negb (match op, c_shape c with Quo, ShCV | Rem, ShCV => true | _, _ => false end) then
              match pow2_exp (Z.abs y) with
              | Some sh =>
                  let i2 := mkInputs unit (const_fun (match c_shape c with ShCV => b | _ => a end)) (const_fun b) b sh in
                  match op with
                  | Quo => [run_tmpl tables (TQuoPow2 k (y <? 0)) i2]
                  | Rem => [run_tmpl tables (TRemPow2 k) i2]
                  | _ => [run_tmpl tables (TMulPow2 k (y <? 0) None) i2]
                  end
              | None => []
              end
            else []
        | _, _ => []
        end in
      generic ++ pow2
  | _, Some op, _ =>
      match c_shape c with
      | ShVC => [run_tmpl tables (TShift op ShVC k) inp]
      | sh => match count_through_asU64 tables b with
              | Ok n => [run_tmpl tables (TShift op sh k) (mkInputs unit (const_fun a) (const_fun n) a 0)]
              | r => [r]
              end
      end
  | _, _, Some Plus => [Ok a]
  | _, _, Some op => [run_tmpl tables (TUn op k) inp]
  | _, _, _ => [Stuck]
  end.

(* a case agrees when the specification AND every applicable regenerated row reproduce the observation *)
Definition case_ok (tables : list entry) (c : case) : bool :=
  if case_compile_error c then match c_obs c with ObsCompileError => true | _ => false end
  else obs_matches (case_spec c) (c_obs c) && forallb (fun r => obs_matches r (c_obs c)) (case_rows tables c).
Definition mismatches (tables : list entry) (cs : list case) : list Z :=
  map c_idx (filter (fun c => negb (case_ok tables c)) cs).

(* ------------------------------------------------------------------ variable reads (fast/identifier.go) *)
(* The read closure of a variable is determined by (storage class, number of frames up, kind): every kind must read
   slot idx of the SAME frame as its sibling kinds, through the accessor of ITS kind.  This checker pins every row
   of identifier.go to that uniform template (one kind differing from its siblings -- the defect fixed in
   identifier.go:964 -- is a checker failure).  The semantic statement (the value read is the slot content) is tied
   by the harness over all placements, not by a theorem. *)
Inductive hops := HHere | HOuter1 | HOuter2 | HFile | HFileOuter | HUp.

Definition hops_expr (h : hops) : expr :=
  let env := EVar V_env in
  match h with
  | HHere | HUp => env
  | HOuter1 => ESel env F_Outer
  | HOuter2 => ESel (ESel env F_Outer) F_Outer
  | HFile => ESel env F_FileEnv
  | HFileOuter => ESel (ESel env F_FileEnv) F_Outer
  end.
Definition idx_let (owner : ident) := (V_idx, ECall0 (EMeth (ESel (EVar owner) F_Desc) M_Index)).
Definition upn_let := (V_upn, ESel (EVar V_sym) F_Upn).
Definition up_stmt := SAssign (EVar V_env) (ECall1 (EMeth (EVar V_env) M_Up) (EVar V_upn)).

Definition read_expr (intbind : bool) (h : hops) (k : gokind) : expr :=
  if intbind then
    let slot := EIndex (ESel (hops_expr h) F_Ints) (EVar V_idx) in
    match k with
    | GUint64 => slot
    | _ => EDeref (EConv (TPtr k) (EConv TUnsafePtr (EAddr slot)))
    end
  else cextract k (EIndex (ESel (hops_expr h) F_Vals) (EVar V_idx)).

Definition varread_closure (intbind : bool) (owner : ident) (h : hops) (k : gokind) : closure :=
  let body := SReturn (read_expr intbind h k) in
  match h with
  | HUp => mkClosure (if intbind then [upn_let; idx_let owner] else [idx_let owner; upn_let]) envp [TK k] (SSeq up_stmt body)
  | _ => mkClosure [idx_let owner] envp [TK k] body
  end.

Definition hops_of_case (c : pcond) : option hops :=
  match c with
  | PCase (EVar V_upn) [ELit 1] => Some HOuter1
  | PCase (EVar V_upn) [ELit 2] => Some HOuter2
  | PCase (EVar V_upn) [EBin Sub (EVar V_depth) (ELit 1)] => Some HFile
  | PCase (EVar V_upn) [EVar V_depth] => Some HFileOuter
  | PDefault (EVar V_upn) _ => Some HUp
  | _ => None
  end.
Definition intbind_kind (k : gokind) : bool := match k with GString => false | _ => true end.

Definition is_varread_fn (f : fname) : bool :=
  match f with FN_Bind_expr | FN_Symbol_expr | FN_Bind_intExpr | FN_Symbol_intExpr => true | _ => false end.
(* rows for the basic kinds (the default clause of the kind switch returns the reflect.Value itself) *)
Definition varread_in_scope (e : entry) : bool :=
  is_varread_fn (e_func e) && match rev (e_path e) with PCase _ [EKindLit _] :: _ => true | _ => false end.

Definition varread_expected (e : entry) : option closure :=
  match e_func e, e_path e with
  | FN_Bind_expr, [PCase (ECall0 (EMeth (ESel (EVar V_bind) F_Type) M_Kind)) [EKindLit k]] =>
      Some (varread_closure false V_bind HHere k)
  | FN_Bind_intExpr, [PCase (ECall0 (EMeth (ESel (EVar V_bind) F_Type) M_Kind)) [EKindLit k]] =>
      if intbind_kind k then Some (varread_closure true V_bind HHere k) else None
  | FN_Symbol_expr, [c; PCase (EVar V_kind) [EKindLit k]] =>
      match hops_of_case c with Some h => Some (varread_closure false V_sym h k) | None => None end
  | FN_Symbol_intExpr, [c; PCase (EVar V_k) [EKindLit k]] =>
      match hops_of_case c with
      | Some HFileOuter => None
      | Some h => if intbind_kind k then Some (varread_closure true V_sym h k) else None
      | None => None
      end
  | _, _ => None
  end.
Definition varread_ok (e : entry) : bool :=
  if varread_in_scope e then
    match varread_expected e with Some c => closure_beq (closure_of e) c | None => false end
  else true.

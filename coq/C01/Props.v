(* C01 -- property theorems (static part): each closed by [exact lemma], followed by Print Assumptions.
   The theorems over the tables regenerated from fast/*.go are in translators/tr_golite/props/C01.v
   (compiled on every run after the translator as build/C01/Gen_zz_props.v).
   F and the f* operators are an arbitrary interpretation of float/complex arithmetic: for float kinds the
   statements say "the closure applies the Go operator of that name to its operands, in order, once each". *)
From Coq Require Import ZArith List Bool.
From Verif Require Import Common.GoInt Common.GoStr GoLite.Syntax GoLite.Sem GoLite.Templates C01.Model C01.Proof.
Import ListNotations.
Open Scope Z_scope.

(* every template, every kind, every operator, ALL operand functions / constants / states:
   the closure evaluates its operands left to right, once each, and applies the Go operator (spec_tmpl) *)
Theorem C01_template_sound :
  forall F fbin fcmp fun1 fconv fpart fofbits t (i : inputs F) p s,
    tmpl_valid t = true -> inputs_ok F t i ->
    run F fbin fcmp fun1 fconv fpart fofbits (roots_of F t i) (closure_of_tmpl t) p s
    = spec_tmpl F fbin fcmp fun1 fconv t i p s.
Proof. exact tmpl_sound. Qed.
Print Assumptions C01_template_sound.

(* soundness of the boolean checker that is run on every regenerated table row *)
Theorem C01_entry_ok_sound :
  forall F fbin fcmp fun1 fconv fpart fofbits e, entry_ok e = true ->
    exists t, classify e = Some t /\ tmpl_valid t = true /\
      forall (i : inputs F) p s, inputs_ok F t i ->
        run F fbin fcmp fun1 fconv fpart fofbits (roots_of F t i) (closure_of e) p s
        = spec_tmpl F fbin fcmp fun1 fconv t i p s.
Proof. exact entry_ok_sound. Qed.
Print Assumptions C01_entry_ok_sound.

(* for integer, bool and string kinds the constant operand reaches the operator unchanged
   (K(reflect.ValueOf(c).Int()) = c) *)
Theorem C01_const_operand_exact :
  forall F (fbin : gokind -> binop -> F -> F -> F) (fcmp : gokind -> binop -> F -> F -> bool)
    (fun1 : gokind -> unop -> F -> F) (fconv : gokind -> gokind -> F -> F) (fpart : gokind -> bool -> F -> F)
    (fofbits : gokind -> Z -> Z -> F) k (c : value F),
    wf_value F k c -> (is_float k || is_complex k) = false -> norm_const F fconv k c = Ok c.
Proof. exact norm_const_id. Qed.
Print Assumptions C01_const_operand_exact.

(* x / +-2^sh with the sign fix-up: truncated division, including the divisor MinInt (sh = width-1) *)
Theorem C01_quoPow2_sound :
  forall F fbin fcmp fun1 fconv fpart fofbits k negy (i : inputs F) p s,
    tmpl_valid (TQuoPow2 k negy) = true -> inputs_ok F (TQuoPow2 k negy) i ->
    run F fbin fcmp fun1 fconv fpart fofbits (roots_of F (TQuoPow2 k negy) i) (closure_of_tmpl (TQuoPow2 k negy)) p s
    = spec_tmpl F fbin fcmp fun1 fconv (TQuoPow2 k negy) i p s.
Proof. exact sound_quoPow2. Qed.
Print Assumptions C01_quoPow2_sound.

Theorem C01_remPow2_sound :
  forall F fbin fcmp fun1 fconv fpart fofbits k (i : inputs F) p s,
    tmpl_valid (TRemPow2 k) = true -> inputs_ok F (TRemPow2 k) i ->
    run F fbin fcmp fun1 fconv fpart fofbits (roots_of F (TRemPow2 k) i) (closure_of_tmpl (TRemPow2 k)) p s
    = spec_tmpl F fbin fcmp fun1 fconv (TRemPow2 k) i p s.
Proof. exact sound_remPow2. Qed.
Print Assumptions C01_remPow2_sound.

Theorem C01_mulPow2_sound :
  forall F fbin fcmp fun1 fconv fpart fofbits k negy lit (i : inputs F) p s,
    tmpl_valid (TMulPow2 k negy lit) = true -> inputs_ok F (TMulPow2 k negy lit) i ->
    run F fbin fcmp fun1 fconv fpart fofbits (roots_of F (TMulPow2 k negy lit) i) (closure_of_tmpl (TMulPow2 k negy lit)) p s
    = spec_tmpl F fbin fcmp fun1 fconv (TMulPow2 k negy lit) i p s.
Proof. exact sound_mulPow2. Qed.
Print Assumptions C01_mulPow2_sound.

(* the arithmetic core of the three power-of-two templates, over Z (Common.GoInt) *)
Theorem C01_quoPow2_arith :
  forall k x sh, signed k = true -> in_range k x -> 0 <= sh <= width k - 1 ->
    quoPow2_body k x (wrap k (2 ^ sh - 1)) sh = quo_total k x (2 ^ sh) /\
    neg k (quoPow2_body k x (wrap k (2 ^ sh - 1)) sh) = quo_total k x (- 2 ^ sh).
Proof. intros; split; [apply quoPow2_pos_sound | apply quoPow2_neg_sound]; assumption. Qed.
Print Assumptions C01_quoPow2_arith.

(* integer division panics exactly on a zero divisor *)
Theorem C01_div0_panics_iff :
  forall F fbin fcmp k op x y, is_integer k = true -> (op = Quo \/ op = Rem) ->
    (go_binop F fbin fcmp k op (VInt k x) (VInt k y) = Panic PDiv0 <-> y = 0).
Proof. exact div0_iff. Qed.
Print Assumptions C01_div0_panics_iff.

(* the shift-count conversion panics exactly for a negative count of a signed kind *)
Theorem C01_negshift_panics_iff :
  forall F fbin fcmp fun1 fconv k (i : inputs F) p s n s1, in_fx F i p s = Ok (VInt k n, s1) ->
    (spec_tmpl F fbin fcmp fun1 fconv (TAsU64 k) i p s = Panic PNegShift <-> (is_signed k = true /\ n < 0)).
Proof. exact negshift_iff. Qed.
Print Assumptions C01_negshift_panics_iff.

(* non-vacuity: concrete instances *)
Example C01_example_sub_int16 :
  urun (roots_of unit (TBin Sub ShVV false GInt16) (mkInputs unit (const_fun (VInt GInt16 (-32768))) (const_fun (VInt GInt16 1)) VUnit 0))
       (closure_of_tmpl (TBin Sub ShVV false GInt16)) 0%nat [] = Ok (VInt GInt16 32767, []).
Proof. reflexivity. Qed.
Example C01_example_quoPow2_minint :
  urun (roots_of unit (TQuoPow2 GInt8 true) (mkInputs unit (const_fun (VInt GInt8 (-128))) (const_fun VUnit) VUnit 7))
       (closure_of_tmpl (TQuoPow2 GInt8 true)) 0%nat [] = Ok (VInt GInt8 1, []).
Proof. reflexivity. Qed.
Example C01_example_inputs_ok :
  inputs_ok unit (TQuoPow2 GInt8 true) (mkInputs unit (const_fun (VInt GInt8 (-128))) (const_fun VUnit) VUnit 7).
Proof.
  split; [|simpl; split; discriminate].
  intros p s v s' H. injection H as <- <-. simpl. repeat split; discriminate.
Qed.

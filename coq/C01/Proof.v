(* C01 -- soundness of the templates: for every template t accepted by the classifier, the closure
   closure_of_tmpl t, run on ANY well-formed inputs, computes spec_tmpl t. *)
From Coq Require Import ZArith List Bool Lia.
From Verif Require Import Common.GoInt Common.GoStr GoLite.Syntax GoLite.Sem GoLite.Templates C01.Model.
Import ListNotations.
Open Scope Z_scope.

Section P.
  Variable F : Type.
  Variable fbin : gokind -> binop -> F -> F -> F.
  Variable fcmp : gokind -> binop -> F -> F -> bool.
  Variable fun1 : gokind -> unop -> F -> F.
  Variable fconv : gokind -> gokind -> F -> F.
  Variable fpart : gokind -> bool -> F -> F.
  Variable fofbits : gokind -> Z -> Z -> F.
  Notation value := (value F).
  Notation opfun := (opfun F).
  Notation denote := (denote F fbin fcmp fun1 fconv fpart fofbits).
  Notation eval := (eval F fbin fcmp fun1 fconv fpart fofbits).
  Notation exec := (exec F fbin fcmp fun1 fconv fpart fofbits).
  Notation ceval := (ceval F fbin fcmp fun1 fconv fpart fofbits).
  Notation eval_lets := (eval_lets F fbin fcmp fun1 fconv fpart fofbits).
  Notation binop_val := (binop_val F fbin fcmp).
  Notation go_binop := (go_binop F fbin fcmp).
  Notation go_unop := (go_unop F fun1).
  Notation run := (run F fbin fcmp fun1 fconv fpart fofbits).
  Notation spec_tmpl := (spec_tmpl F fbin fcmp fun1 fconv).
  Notation norm_const := (norm_const F fconv).
  Notation inputs := (inputs F).
  Notation roots_of := (roots_of F).
  Notation inputs_ok := (inputs_ok F).

  Arguments Sem.binop_val : simpl never.
  Arguments Sem.go_binop : simpl never.
  Arguments Sem.go_shift : simpl never.
  Arguments Sem.go_unop : simpl never.
  Arguments Sem.convert : simpl never.
  Arguments Sem.accessor : simpl never.

  Lemma wf_has_ty k (v : value) : wf_value F k v -> has_ty F (TK k) v = true.
  Proof.
    destruct v; simpl; try tauto.
    - intros ->. reflexivity.
    - intros (-> & H & _). rewrite gokind_beq_refl, H. reflexivity.
    - intros ->. reflexivity.
    - intros (-> & H). rewrite gokind_beq_refl, H. reflexivity.
  Qed.

  Lemma wf_not_untyped k (v : value) : wf_value F k v -> forall z, v <> VUntyped z.
  Proof. intros H z ->. exact H. Qed.

  Lemma ceval_assert (ce : cenv F) k x f :
    clookup F ce (EAssert (TFun k) (EVar x)) = None -> clookup F ce (EVar x) = Some (CF F k f) ->
    ceval ce (EAssert (TFun k) (EVar x)) = Some (CF F k f).
  Proof. intros H1 H2. unfold Sem.ceval. rewrite H1, H2, gokind_beq_refl. reflexivity. Qed.

  Ltac lets_assert := repeat (erewrite ceval_assert; [simpl | reflexivity | reflexivity]).

  (* the end of every closure: result of the operator, returned and implicitly converted *)
  Lemma finish_typed (r : res value) t (s : state F) :
    (forall v, r = Ok v -> forall z, v <> VUntyped z) ->
    match
      match match r with Ok a => Ok (a, s) | Panic q => Panic q | Stuck => Stuck | OutOfFuel => OutOfFuel end with
      | Ok (a, s') => Ok (OReturn F [a], s')
      | Panic q => Panic q | Stuck => Stuck | OutOfFuel => OutOfFuel
      end
    with
    | Ok (o, s') =>
        match o with
        | ONormal _ _ => stuck F
        | OReturn _ vs =>
            lift F match vs with
                   | [] => Stuck
                   | v :: vs' => rbind (coerce F t v) (fun v' => rbind match vs' with [] => Ok [] | _ :: _ => Stuck end (fun r0 => Ok (v' :: r0)))
                   end
        end s'
    | Panic q => Panic q | Stuck => Stuck | OutOfFuel => OutOfFuel
    end = match r with Ok a => Ok ([a], s) | Panic q => Panic q | Stuck => Stuck | OutOfFuel => OutOfFuel end.
  Proof.
    intros H. destruct r; try reflexivity. simpl. unfold lift. rewrite coerce_typed by (apply H; reflexivity). reflexivity.
  Qed.

  (* x(env) OP y(env) *)
  Lemma sound_bin_vv op sb k (i : inputs) p s :
    tmpl_valid (TBin op ShVV sb k) = true -> inputs_ok (TBin op ShVV sb k) i ->
    run (roots_of (TBin op ShVV sb k) i) (closure_of_tmpl (TBin op ShVV sb k)) p s = spec_tmpl (TBin op ShVV sb k) i p s.
  Proof.
    intros Hv [Hx Hy]. destruct i as [fx fy c sh]. simpl in *.
    unfold Model.run, Sem.denote. simpl. lets_assert.
    unfold bind, ret, lift. simpl.
    destruct (fx p s) as [[a s1]| | |] eqn:Ex; try reflexivity.
    destruct (fy p s1) as [[b s2]| | |] eqn:Ey; try reflexivity.
    apply Hx in Ex. apply Hy in Ey.
    rewrite (binop_val_spec k) by (try apply wf_has_ty; auto; destruct op; try discriminate; reflexivity).
    destruct (go_binop k op a b) as [v| | |] eqn:E; simpl; try reflexivity.
    rewrite coerce_typed by (eapply @go_binop_typed; exact E). reflexivity.
  Qed.
End P.

(* C01 -- soundness of the templates: for every template t accepted by the classifier, the closure
   closure_of_tmpl t, run on ANY well-formed inputs, computes spec_tmpl t. *)
From Coq Require Import ZArith List Bool Lia.
From Verif Require Import Common.GoInt Common.GoStr GoLite.Syntax GoLite.Sem GoLite.Templates C01.Model.
Import ListNotations.
Open Scope Z_scope.

Section P.
  Variable F : Type.
  Variable fbin : gokind -> binop -> F -> F -> F.
  Variable fcmp : gokind -> binop -> F -> F -> bool.
  Variable fun1 : gokind -> unop -> F -> F.
  Variable fconv : gokind -> gokind -> F -> F.
  Variable fpart : gokind -> bool -> F -> F.
  Variable fofbits : gokind -> Z -> Z -> F.
  Notation value := (value F).
  Notation opfun := (opfun F).
  Notation denote := (denote F fbin fcmp fun1 fconv fpart fofbits).
  Notation eval := (eval F fbin fcmp fun1 fconv fpart fofbits).
  Notation exec := (exec F fbin fcmp fun1 fconv fpart fofbits).
  Notation ceval := (ceval F fbin fcmp fun1 fconv fpart fofbits).
  Notation eval_lets := (eval_lets F fbin fcmp fun1 fconv fpart fofbits).
  Notation binop_val := (binop_val F fbin fcmp).
  Notation go_binop := (go_binop F fbin fcmp).
  Notation go_unop := (go_unop F fun1).
  Notation run := (run F fbin fcmp fun1 fconv fpart fofbits).
  Notation spec_tmpl := (spec_tmpl F fbin fcmp fun1 fconv).
  Notation norm_const := (norm_const F fconv).
  Notation inputs := (inputs F).
  Notation roots_of := (roots_of F).
  Notation inputs_ok := (inputs_ok F).

  Arguments Sem.binop_val : simpl never.
  Arguments Sem.go_binop : simpl never.
  Arguments Sem.go_shift : simpl never.
  Arguments Sem.go_unop : simpl never.
  Arguments Sem.convert : simpl never.
  Arguments Sem.accessor : simpl never.

  Lemma wf_has_ty k (v : value) : wf_value F k v -> has_ty F (TK k) v = true.
  Proof.
    destruct v; simpl; try tauto.
    - intros ->. reflexivity.
    - intros (-> & H & _). rewrite gokind_beq_refl, H. reflexivity.
    - intros ->. reflexivity.
    - intros (-> & H). rewrite gokind_beq_refl, H. reflexivity.
  Qed.

  Lemma wf_not_untyped k (v : value) : wf_value F k v -> forall z, v <> VUntyped z.
  Proof. intros H z ->. exact H. Qed.

  Lemma ceval_assert (ce : cenv F) k x f :
    clookup F ce (EAssert (TFun k) (EVar x)) = None -> clookup F ce (EVar x) = Some (CF F k f) ->
    ceval ce (EAssert (TFun k) (EVar x)) = Some (CF F k f).
  Proof. intros H1 H2. unfold Sem.ceval. rewrite H1, H2, gokind_beq_refl. reflexivity. Qed.

  Ltac lets_assert := repeat (erewrite ceval_assert; [simpl | reflexivity | reflexivity]).

  (* the end of every closure: result of the operator, returned and implicitly converted *)
  Lemma finish_typed (r : res value) t (s : state F) :
    (forall v, r = Ok v -> forall z, v <> VUntyped z) ->
    match
      match match r with Ok a => Ok (a, s) | Panic q => Panic q | Stuck => Stuck | OutOfFuel => OutOfFuel end with
      | Ok (a, s') => Ok (OReturn F [a], s')
      | Panic q => Panic q | Stuck => Stuck | OutOfFuel => OutOfFuel
      end
    with
    | Ok (o, s') =>
        match o with
        | ONormal _ _ => stuck F
        | OReturn _ vs =>
            lift F match vs with
                   | [] => Stuck
                   | v :: vs' => rbind (coerce F t v) (fun v' => rbind match vs' with [] => Ok [] | _ :: _ => Stuck end (fun r0 => Ok (v' :: r0)))
                   end
        end s'
    | Panic q => Panic q | Stuck => Stuck | OutOfFuel => OutOfFuel
    end = match r with Ok a => Ok ([a], s) | Panic q => Panic q | Stuck => Stuck | OutOfFuel => OutOfFuel end.
  Proof.
    intros H. destruct r; try reflexivity. simpl. unfold lift. rewrite coerce_typed by (apply H; reflexivity). reflexivity.
  Qed.

  (* x(env) OP y(env) *)
  Lemma sound_bin_vv op sb k (i : inputs) p s :
    tmpl_valid (TBin op ShVV sb k) = true -> inputs_ok (TBin op ShVV sb k) i ->
    run (roots_of (TBin op ShVV sb k) i) (closure_of_tmpl (TBin op ShVV sb k)) p s = spec_tmpl (TBin op ShVV sb k) i p s.
  Proof.
    intros Hv [Hx Hy]. destruct i as [fx fy c sh]. simpl in *.
    unfold Model.run, Sem.denote. simpl. lets_assert.
    unfold bind, ret, lift. simpl.
    destruct (fx p s) as [[a s1]| | |] eqn:Ex; try reflexivity.
    destruct (fy p s1) as [[b s2]| | |] eqn:Ey; try reflexivity.
    apply Hx in Ex. apply Hy in Ey.
    rewrite (binop_val_spec k) by (try apply wf_has_ty; auto; destruct op; try discriminate; reflexivity).
    destruct (go_binop k op a b) as [v| | |] eqn:E; simpl; try reflexivity.
    rewrite coerce_typed by (eapply @go_binop_typed; exact E). reflexivity.
  Qed.

  (* ---- constant operands ---- *)
  Lemma wf_cases k (c : value) : wf_value F k c ->
    (exists z, c = VInt k z /\ is_integer k = true /\ in_range (ikd k) z) \/
    (exists f, c = VFlt k f /\ (is_float k || is_complex k) = true) \/
    (exists x, c = VStr x /\ k = GString) \/ (exists b, c = VBool b /\ k = GBool).
  Proof.
    destruct c; simpl; try tauto.
    - intros ->. right. right. right. eauto.
    - intros (-> & H1 & H2). left. eauto.
    - intros ->. right. right. left. eauto.
    - intros (-> & H). right. left. eauto.
  Qed.

  Lemma norm_const_ty k (c c' : value) : wf_value F k c -> norm_const k c = Ok c' -> has_ty F (TK k) c' = true.
  Proof.
    intros Hw. unfold Model.norm_const.
    destruct (wf_cases _ _ Hw) as [(z & -> & Hk & Hr)|[(f & -> & Hk)|[(x & -> & ->)|(b & -> & ->)]]].
    - destruct k; try discriminate; unfold Sem.accessor, acc_meth, wide, Sem.convert; simpl; intros [= <-]; reflexivity.
    - destruct k; try discriminate; unfold Sem.accessor, acc_meth, wide, Sem.convert; simpl; intros [= <-]; reflexivity.
    - unfold Sem.accessor, acc_meth, wide, Sem.convert; simpl. intros [= <-]. reflexivity.
    - unfold Sem.accessor, acc_meth, wide, Sem.convert; simpl. intros [= <-]. reflexivity.
  Qed.

  (* for integers, bools and strings the closure sees the constant itself *)
  Lemma norm_const_id k (c : value) : wf_value F k c -> (is_float k || is_complex k) = false -> norm_const k c = Ok c.
  Proof.
    intros Hw Hk. unfold Model.norm_const.
    destruct (wf_cases _ _ Hw) as [(z & -> & Hi & Hr)|[(f & -> & Hf)|[(x & -> & ->)|(b & -> & ->)]]]; try reflexivity.
    - assert (E : GoInt.wrap (ikd k) z = z) by (apply wrap_id; exact Hr).
      destruct k; try discriminate; unfold Sem.accessor, acc_meth, wide, Sem.convert; simpl; try reflexivity;
        unfold ikd in E; simpl in E; rewrite E; reflexivity.
    - rewrite Hf in Hk. discriminate.
  Qed.

  Lemma ceval_cextract (ce : cenv F) k src (c : value) :
    clookup F ce (ECall0 (EMeth src (acc_meth k))) = None ->
    clookup F ce (EConv (TK k) (ECall0 (EMeth src (acc_meth k)))) = None ->
    eval ce [] src [] = Ok (c, []) -> wf_value F k c ->
    ceval ce (cextract k src) = match norm_const k c with Ok v => Some (CV F v) | _ => None end.
  Proof.
    intros H1 H2 Hs Hw. unfold Sem.ceval, cextract, Model.norm_const.
    assert (Hnr : forall pp ii, c <> VRef pp ii) by (intros pp ii ->; exact Hw).
    destruct (wide k).
    - rewrite H1. simpl. unfold bind. rewrite Hs.
      destruct c; try (exfalso; eapply Hnr; reflexivity); destruct (accessor F fconv (acc_meth k) _); reflexivity.
    - rewrite H2. simpl. unfold bind. rewrite Hs.
      destruct c; try (exfalso; eapply Hnr; reflexivity);
        destruct (accessor F fconv (acc_meth k) _); simpl; try reflexivity;
        unfold lift; destruct (convert F fconv k _); reflexivity.
  Qed.

  Ltac lets_const c Hc :=
    erewrite ceval_cextract with (c := c); [simpl | reflexivity | reflexivity | reflexivity | exact Hc].

  Lemma not_shift_valid op k : op_valid op k = true -> is_shift op = false.
  Proof. destruct op; simpl; intros; try reflexivity; discriminate. Qed.

  (* x(env) OP c *)
  Lemma sound_bin_vc op sb k (i : inputs) p s :
    tmpl_valid (TBin op ShVC sb k) = true -> inputs_ok (TBin op ShVC sb k) i ->
    run (roots_of (TBin op ShVC sb k) i) (closure_of_tmpl (TBin op ShVC sb k)) p s = spec_tmpl (TBin op ShVC sb k) i p s.
  Proof.
    intros Hv [Hx Hc]. destruct i as [fx fy c sh]. simpl in *.
    pose proof (not_shift_valid _ _ Hv) as Hns.
    unfold Model.run, Sem.denote. destruct sb; simpl; lets_assert; lets_const c Hc;
      (destruct (norm_const k c) as [c'| | |] eqn:Hn; try reflexivity; simpl;
       unfold bind, ret, lift; simpl;
       destruct (fx p s) as [[a s1]| | |] eqn:Ex; try reflexivity;
       apply Hx in Ex;
       rewrite (binop_val_spec k) by (first [exact Hns | apply wf_has_ty; assumption | eapply norm_const_ty; [exact Hc | exact Hn]]);
       destruct (go_binop k op a c') as [v| | |] eqn:E; simpl; try reflexivity;
       rewrite coerce_typed by (eapply @go_binop_typed; exact E); reflexivity).
  Qed.

  (* c OP y(env) *)
  Lemma sound_bin_cv op sb k (i : inputs) p s :
    tmpl_valid (TBin op ShCV sb k) = true -> inputs_ok (TBin op ShCV sb k) i ->
    run (roots_of (TBin op ShCV sb k) i) (closure_of_tmpl (TBin op ShCV sb k)) p s = spec_tmpl (TBin op ShCV sb k) i p s.
  Proof.
    intros Hv [Hc Hy]. destruct i as [fx fy c sh]. simpl in *.
    pose proof (not_shift_valid _ _ Hv) as Hns.
    unfold Model.run, Sem.denote. destruct sb; simpl; lets_const c Hc;
      (destruct (norm_const k c) as [c'| | |] eqn:Hn; try reflexivity; simpl; lets_assert;
       unfold bind, ret, lift; simpl;
       destruct (fy p s) as [[b s1]| | |] eqn:Ey; try reflexivity;
       apply Hy in Ey;
       rewrite (binop_val_spec k) by (first [exact Hns | apply wf_has_ty; assumption | eapply norm_const_ty; [exact Hc | exact Hn]]);
       destruct (go_binop k op c' b) as [v| | |] eqn:E; simpl; try reflexivity;
       rewrite coerce_typed by (eapply @go_binop_typed; exact E); reflexivity).
  Qed.

  (* ---- unary ---- *)
  Lemma go_unop_typed k op (a v : value) : wf_value F k a -> go_unop op a = Ok v -> forall z, v <> VUntyped z.
  Proof.
    intros Hw. destruct (wf_cases _ _ Hw) as [(x & -> & _)|[(f & -> & _)|[(x & -> & _)|(b & -> & _)]]];
      destruct op; unfold Sem.go_unop; try discriminate; try (intros [= <-]; discriminate);
      destruct (ik_of k); try discriminate; intros [= <-]; discriminate.
  Qed.

  Lemma sound_un op k (i : inputs) p s :
    inputs_ok (TUn op k) i ->
    run (roots_of (TUn op k) i) (closure_of_tmpl (TUn op k)) p s = spec_tmpl (TUn op k) i p s.
  Proof.
    intros Hx. destruct i as [fx fy c sh]. simpl in *.
    unfold Model.run, Sem.denote. simpl. lets_assert.
    unfold bind, ret, lift. simpl.
    destruct (fx p s) as [[a s1]| | |] eqn:Ex; try reflexivity.
    apply Hx in Ex.
    destruct (go_unop op a) as [v| | |] eqn:E; simpl; try reflexivity.
    rewrite coerce_typed by (eapply go_unop_typed; eassumption). reflexivity.
  Qed.

  (* ---- shifts ---- *)
  Lemma shift_val_spec' k kc op (a c : value) : is_shift op = true ->
    has_ty F (TK k) a = true -> has_ty F (TK kc) c = true -> is_integer kc = true -> binop_val op a c = go_shift F k op a c.
  Proof.
    intros Hs Ha Hc Hkc.
    destruct (has_ty_inv _ _ Hc) as [[-> _]|[[-> _]|[[n [-> Hn]]|[y [-> Hy]]]]]; try discriminate;
      try (destruct kc; discriminate).
    destruct (has_ty_inv _ _ Ha) as [[-> [x ->]]|[[-> [x ->]]|[[x [-> Hx]]|[x [-> Hx]]]]];
      destruct op; try discriminate; unfold Sem.binop_val, Sem.go_shift; try reflexivity; rewrite gokind_beq_refl; reflexivity.
  Qed.

  Definition shift_valid (op : binop) := match op with Shl | Shr => true | _ => false end.

  Lemma sound_shift_vv op k (i : inputs) p s :
    tmpl_valid (TShift op ShVV k) = true -> inputs_ok (TShift op ShVV k) i ->
    run (roots_of (TShift op ShVV k) i) (closure_of_tmpl (TShift op ShVV k)) p s = spec_tmpl (TShift op ShVV k) i p s.
  Proof.
    intros Hv [Hx Hy]. destruct i as [fx fy c sh]. simpl in *.
    apply andb_true_iff in Hv as [Hk Hop].
    unfold Model.run, Sem.denote. simpl. lets_assert.
    unfold bind, ret, lift. simpl.
    destruct (fx p s) as [[a s1]| | |] eqn:Ex; try reflexivity.
    destruct (fy p s1) as [[b s2]| | |] eqn:Ey; try reflexivity.
    apply Hx in Ex. apply Hy in Ey.
    rewrite (shift_val_spec' k GUint64) by (first [apply wf_has_ty; assumption | reflexivity | destruct op; try discriminate; reflexivity]).
    destruct (go_shift F k op a b) as [v| | |] eqn:E; simpl; try reflexivity.
    rewrite coerce_typed by (eapply @go_shift_typed; exact E). reflexivity.
  Qed.

  Lemma sound_shift_vc op k (i : inputs) p s :
    tmpl_valid (TShift op ShVC k) = true -> inputs_ok (TShift op ShVC k) i ->
    run (roots_of (TShift op ShVC k) i) (closure_of_tmpl (TShift op ShVC k)) p s = spec_tmpl (TShift op ShVC k) i p s.
  Proof.
    intros Hv [Hx Hc]. destruct i as [fx fy c sh]. simpl in *.
    apply andb_true_iff in Hv as [Hk Hop].
    unfold Model.run, Sem.denote. simpl. lets_assert.
    unfold bind, ret, lift. simpl.
    destruct (fx p s) as [[a s1]| | |] eqn:Ex; try reflexivity.
    apply Hx in Ex.
    rewrite (shift_val_spec' k GUint64) by (first [apply wf_has_ty; assumption | reflexivity | destruct op; try discriminate; reflexivity]).
    destruct (go_shift F k op a c) as [v| | |] eqn:E; simpl; try reflexivity.
    rewrite coerce_typed by (eapply @go_shift_typed; exact E). reflexivity.
  Qed.

  Lemma sound_shift_cv op k (i : inputs) p s :
    tmpl_valid (TShift op ShCV k) = true -> inputs_ok (TShift op ShCV k) i ->
    run (roots_of (TShift op ShCV k) i) (closure_of_tmpl (TShift op ShCV k)) p s = spec_tmpl (TShift op ShCV k) i p s.
  Proof.
    intros Hv [Hc Hy]. destruct i as [fx fy c sh]. simpl in *.
    apply andb_true_iff in Hv as [Hk Hop].
    unfold Model.run, Sem.denote. simpl. lets_const c Hc.
    destruct (norm_const k c) as [c'| | |] eqn:Hn; try reflexivity; simpl.
    unfold bind, ret, lift; simpl.
    destruct (fy p s) as [[b s1]| | |] eqn:Ey; try reflexivity.
    apply Hy in Ey.
    rewrite (shift_val_spec' k GUint64) by (first [apply wf_has_ty; assumption | reflexivity | destruct op; try discriminate; reflexivity | eapply norm_const_ty; [exact Hc | exact Hn]]).
    destruct (go_shift F k op c' b) as [v| | |] eqn:E; simpl; try reflexivity.
    rewrite coerce_typed by (eapply @go_shift_typed; exact E). reflexivity.
  Qed.

  (* ---- powers of two ---- *)
  Arguments Z.pow : simpl never.
  Arguments Z.sub : simpl never.
  Arguments Z.add : simpl never.
  Arguments GoInt.wrap : simpl never.
  Arguments GoInt.sub : simpl never.
  Arguments GoInt.add : simpl never.
  Arguments GoInt.shr : simpl never.
  Arguments GoInt.shl : simpl never.
  Arguments GoInt.neg : simpl never.
  Arguments GoInt.and_ : simpl never.
  Arguments bitlen : simpl never.
  Arguments representable : simpl never.

  Lemma ik_of_ikd k : is_integer k = true -> ik_of k = Some (ikd k).
  Proof. destruct k; try discriminate; reflexivity. Qed.

  Lemma bitlen_pow2 sh : 0 <= sh -> bitlen (2 ^ sh) = sh + 1.
  Proof.
    intros H. unfold bitlen. assert (0 < 2 ^ sh) by (apply Z.pow_pos_nonneg; lia).
    destruct (Z.leb_spec (2 ^ sh) 0); [lia|]. rewrite Z.log2_pow2 by lia. reflexivity.
  Qed.

  Lemma pow2_le_64 sh : 0 <= sh <= 63 -> 2 ^ sh <= 2 ^ 63.
  Proof. intros. apply Z.pow_le_mono_r; lia. Qed.

  Lemma shift_let_val sh : 0 <= sh <= 63 -> GoInt.sub U8 (bitlen (2 ^ sh)) 1 = sh.
  Proof.
    intros H. rewrite bitlen_pow2 by lia. unfold GoInt.sub. replace (sh + 1 - 1) with sh by lia.
    apply wrap_id. unfold in_range. change (imin U8) with 0. change (imax U8) with 255. lia.
  Qed.

  Lemma y1_let_val sh : 0 <= sh <= 63 -> GoInt.sub U64 (2 ^ sh) 1 = 2 ^ sh - 1.
  Proof.
    intros H. unfold GoInt.sub. apply wrap_id. pose proof (pow2_le_64 sh H).
    assert (0 < 2 ^ sh) by (apply Z.pow_pos_nonneg; lia).
    unfold in_range. change (imin U64) with 0. change (imax U64) with (2 * 2 ^ 63 - 1). lia.
  Qed.

  Lemma small_bounds ik : imin ik <= 0 /\ 127 <= imax ik.
  Proof. destruct ik; split; vm_compute; intro H; discriminate H. Qed.

  Lemma repr_small k z : is_integer k = true -> 0 <= z <= 127 -> representable k z = true.
  Proof.
    intros Hk Hz. unfold representable. rewrite ik_of_ikd by assumption. apply in_rangeb_spec.
    unfold in_range. pose proof (small_bounds (ikd k)). lia.
  Qed.

  Lemma width_le_64 k : GoInt.width (ikd k) <= 64.
  Proof. destruct k; simpl; lia. Qed.

  (* evaluation of the lets of quoPow2 / remPow2 / mulPow2 *)
  Definition pow2_roots k (fx : opfun) sh : cenv F := [(xeFun, CF F k fx); (EVar V_y, CV F (VInt GUint64 (2 ^ sh)))].

  Lemma lets_shift k fx sh rest : 0 <= sh <= 63 ->
    eval_lets (pow2_roots k fx sh) (shiftlet :: rest) =
    eval_lets ((EVar V_shift, CV F (VInt GUint8 sh)) :: pow2_roots k fx sh) rest.
  Proof.
    intros H. simpl. unfold Sem.ceval. simpl. unfold bind, lift. simpl.
    rewrite shift_let_val by lia. reflexivity.
  Qed.

  Lemma ceval_y1 (ce : cenv F) k sh : is_integer k = true -> 0 <= sh <= 63 ->
    clookup F ce (EConv (TK k) (EBin Sub (EVar V_y) (ELit 1))) = None ->
    clookup F ce (EVar V_y) = Some (CV F (VInt GUint64 (2 ^ sh))) ->
    ceval ce (EConv (TK k) (EBin Sub (EVar V_y) (ELit 1))) = Some (CV F (VInt k (GoInt.wrap (ikd k) (2 ^ sh - 1)))).
  Proof.
    intros Hk H H1 H2. unfold Sem.ceval. rewrite H1. simpl. rewrite H2. unfold bind, lift, ret. simpl.
    rewrite y1_let_val by lia. unfold Sem.convert. rewrite ik_of_ikd by assumption. reflexivity.
  Qed.

  Lemma binop_lit k op x z : is_integer k = true -> 0 <= z <= 127 -> is_shift op = false ->
    binop_val op (VInt k x) (VUntyped z) = arith F k op x z.
  Proof.
    intros Hk Hz Hs. unfold Sem.binop_val. rewrite repr_small by assumption. destruct op; try discriminate; reflexivity.
  Qed.
  Lemma binop_int k op x y : is_shift op = false -> binop_val op (VInt k x) (VInt k y) = arith F k op x y.
  Proof. intros Hs. unfold Sem.binop_val. rewrite gokind_beq_refl. destruct op; try discriminate; reflexivity. Qed.
  Lemma shift_u8 k op x n : is_shift op = true -> binop_val op (VInt k x) (VInt GUint8 n) = shift F k op x false n.
  Proof. intros Hs. unfold Sem.binop_val. destruct op; try discriminate; reflexivity. Qed.
  Lemma shift_lit k op x n : is_shift op = true -> 0 <= n -> binop_val op (VInt k x) (VUntyped n) = shift F k op x false n.
  Proof.
    intros Hs Hn. unfold Sem.binop_val. destruct (Z.ltb_spec n 0); [lia|]. destruct op; try discriminate; reflexivity.
  Qed.

  Lemma wf_int k (a : value) : is_integer k = true -> wf_value F k a -> exists x, a = VInt k x /\ in_range (ikd k) x.
  Proof.
    intros Hk Hw. destruct (wf_cases _ _ Hw) as [(z & -> & _ & Hr)|[(f & -> & Hf)|[(x & -> & ->)|(b & -> & ->)]]]; eauto;
      try discriminate. destruct k; discriminate.
  Qed.

  Lemma sound_quoPow2 k negy (i : inputs) p s :
    tmpl_valid (TQuoPow2 k negy) = true -> inputs_ok (TQuoPow2 k negy) i ->
    run (roots_of (TQuoPow2 k negy) i) (closure_of_tmpl (TQuoPow2 k negy)) p s = spec_tmpl (TQuoPow2 k negy) i p s.
  Proof.
    intros Hv [Hx Hsh]. destruct i as [fx fy c sh]. simpl in *.
    apply andb_true_iff in Hv as [Hk Hneg].
    pose proof (width_le_64 k) as Hw64.
    fold (pow2_roots k fx sh).
    destruct (is_signed k) eqn:Hsg.
    - unfold Model.run, Sem.denote. cbn [c_lets c_params c_results c_body].
      rewrite lets_shift by lia. simpl. lets_assert.
      rewrite (ceval_y1 _ k sh) by (assumption || lia || reflexivity). simpl.
      unfold bind, ret, lift. simpl.
      destruct (fx p s) as [[a s1]| | |] eqn:Ex; try reflexivity.
      apply Hx in Ex. destruct (wf_int _ _ Hk Ex) as (x & -> & Hr). simpl.
      rewrite binop_lit by (assumption || lia || reflexivity). unfold arith. rewrite (ik_of_ikd k Hk). simpl.
      pose proof (quoPow2_pos_sound (ikd k) x sh) as Qp. pose proof (quoPow2_neg_sound (ikd k) x sh) as Qn.
      assert (Hsik : signed (ikd k) = true) by (destruct k; try discriminate; reflexivity).
      specialize (Qp Hsik Hr Hsh). specialize (Qn Hsik Hr Hsh). unfold quoPow2_body in Qp, Qn.
      destruct (x <? 0) eqn:Hneg0.
      + rewrite binop_int by reflexivity. unfold arith. rewrite (ik_of_ikd k Hk). simpl.
        destruct negy; simpl; unfold bind, ret, lift; simpl.
        * rewrite shift_u8 by reflexivity. unfold shift. rewrite (ik_of_ikd k Hk). simpl.
          unfold Sem.go_unop. rewrite (ik_of_ikd k Hk). simpl. rewrite Qn. reflexivity.
        * rewrite shift_u8 by reflexivity. unfold shift. rewrite (ik_of_ikd k Hk). simpl. rewrite Qp. reflexivity.
      + destruct negy; simpl; unfold bind, ret, lift; simpl.
        * rewrite shift_u8 by reflexivity. unfold shift. rewrite (ik_of_ikd k Hk). simpl.
          unfold Sem.go_unop. rewrite (ik_of_ikd k Hk). simpl. rewrite Qn. reflexivity.
        * rewrite shift_u8 by reflexivity. unfold shift. rewrite (ik_of_ikd k Hk). simpl. rewrite Qp. reflexivity.
    - (* unsigned: x >> shift *)
      destruct negy; [discriminate|].
      unfold Model.run, Sem.denote. cbn [c_lets c_params c_results c_body].
      rewrite lets_shift by lia. simpl. lets_assert.
      unfold bind, ret, lift. simpl.
      destruct (fx p s) as [[a s1]| | |] eqn:Ex; try reflexivity.
      apply Hx in Ex. destruct (wf_int _ _ Hk Ex) as (x & -> & Hr). simpl.
      rewrite shift_u8 by reflexivity. unfold shift. rewrite (ik_of_ikd k Hk). simpl.
      assert (Hu : signed (ikd k) = false) by (destruct k; try discriminate; reflexivity).
      rewrite shr_div_pow2 by lia. unfold quo_total.
      assert (0 < 2 ^ sh) by (apply Z.pow_pos_nonneg; lia).
      unfold in_range, imin, imax in Hr. rewrite Hu in Hr.
      rewrite Z.quot_div_nonneg by lia.
      rewrite wrap_id; [reflexivity|].
      unfold in_range, imin, imax. rewrite Hu. split; [apply Z.div_pos; lia|].
      assert (x / 2 ^ sh <= x) by (apply Z.div_le_upper_bound; nia). lia.
  Qed.

  Lemma sound_remPow2 k (i : inputs) p s :
    tmpl_valid (TRemPow2 k) = true -> inputs_ok (TRemPow2 k) i ->
    run (roots_of (TRemPow2 k) i) (closure_of_tmpl (TRemPow2 k)) p s = spec_tmpl (TRemPow2 k) i p s.
  Proof.
    intros Hk [Hx Hsh]. destruct i as [fx fy c sh]. simpl in *.
    pose proof (width_le_64 k) as Hw64.
    fold (pow2_roots k fx sh).
    destruct (is_signed k) eqn:Hsg.
    - unfold Model.run, Sem.denote. simpl. lets_assert.
      rewrite (ceval_y1 _ k sh) by (assumption || lia || reflexivity). simpl.
      unfold bind, ret, lift. simpl.
      destruct (fx p s) as [[a s1]| | |] eqn:Ex; try reflexivity.
      apply Hx in Ex. destruct (wf_int _ _ Hk Ex) as (x & -> & Hr). simpl.
      rewrite binop_lit by (assumption || lia || reflexivity). unfold arith. rewrite (ik_of_ikd k Hk). simpl.
      assert (Hsik : signed (ikd k) = true) by (destruct k; try discriminate; reflexivity).
      pose proof (remPow2_signed_sound (ikd k) x sh Hsik Hr Hsh) as R. unfold remPow2_body in R.
      destruct (0 <=? x) eqn:Hge; simpl; unfold bind, ret, lift; simpl.
      + rewrite binop_int by reflexivity. unfold arith. rewrite (ik_of_ikd k Hk). simpl. rewrite R. reflexivity.
      + unfold Sem.go_unop. rewrite (ik_of_ikd k Hk). simpl.
        rewrite binop_int by reflexivity. unfold arith. rewrite (ik_of_ikd k Hk). simpl.
        rewrite (ik_of_ikd k Hk). simpl. rewrite R. reflexivity.
    - unfold Model.run, Sem.denote. simpl. lets_assert.
      rewrite (ceval_y1 _ k sh) by (assumption || lia || reflexivity). simpl.
      unfold bind, ret, lift. simpl.
      destruct (fx p s) as [[a s1]| | |] eqn:Ex; try reflexivity.
      apply Hx in Ex. destruct (wf_int _ _ Hk Ex) as (x & -> & Hr). simpl.
      rewrite binop_int by reflexivity. unfold arith. rewrite (ik_of_ikd k Hk). simpl.
      assert (Hu : signed (ikd k) = false) by (destruct k; try discriminate; reflexivity).
      rewrite (remPow2_unsigned_sound (ikd k) x sh Hu Hr Hsh). reflexivity.
  Qed.

  Lemma sound_mulPow2 k negy lit (i : inputs) p s :
    tmpl_valid (TMulPow2 k negy lit) = true -> inputs_ok (TMulPow2 k negy lit) i ->
    run (roots_of (TMulPow2 k negy lit) i) (closure_of_tmpl (TMulPow2 k negy lit)) p s = spec_tmpl (TMulPow2 k negy lit) i p s.
  Proof.
    intros Hv [Hx Hsh]. destruct i as [fx fy c sh]. simpl in *.
    apply andb_true_iff in Hv as [Hv Hlit]. apply andb_true_iff in Hv as [Hk Hneg].
    fold (pow2_roots k fx sh).
    destruct negy; [destruct lit; [discriminate|]|destruct lit as [z|]].
    - unfold Model.run, Sem.denote. cbn [closure_of_tmpl c_lets c_params c_results c_body].
      rewrite lets_shift by lia. simpl. lets_assert.
      unfold bind, ret, lift. simpl.
      destruct (fx p s) as [[a s1]| | |] eqn:Ex; try reflexivity.
      apply Hx in Ex. destruct (wf_int _ _ Hk Ex) as (x & -> & Hr). simpl.
      rewrite shift_u8 by reflexivity. unfold shift. rewrite (ik_of_ikd k Hk). simpl.
      unfold Sem.go_unop. rewrite (ik_of_ikd k Hk). simpl.
      rewrite mulPow2_neg_sound by lia. reflexivity.
    - simpl in Hlit. apply Z.leb_le in Hlit.
      unfold Model.run, Sem.denote. simpl. lets_assert.
      unfold bind, ret, lift. simpl.
      destruct (fx p s) as [[a s1]| | |] eqn:Ex; try reflexivity.
      apply Hx in Ex. destruct (wf_int _ _ Hk Ex) as (x & -> & Hr). simpl.
      rewrite shift_lit by (reflexivity || lia). unfold shift. rewrite (ik_of_ikd k Hk). simpl.
      rewrite mulPow2_pos_sound by lia. reflexivity.
    - unfold Model.run, Sem.denote. cbn [closure_of_tmpl c_lets c_params c_results c_body].
      rewrite lets_shift by lia. simpl. lets_assert.
      unfold bind, ret, lift. simpl.
      destruct (fx p s) as [[a s1]| | |] eqn:Ex; try reflexivity.
      apply Hx in Ex. destruct (wf_int _ _ Hk Ex) as (x & -> & Hr). simpl.
      rewrite shift_u8 by reflexivity. unfold shift. rewrite (ik_of_ikd k Hk). simpl.
      rewrite mulPow2_pos_sound by lia. reflexivity.
  Qed.

  (* Expr.AsUint64: the shift-count conversion; a negative signed count panics *)
  Lemma sound_asU64 k (i : inputs) p s :
    tmpl_valid (TAsU64 k) = true -> inputs_ok (TAsU64 k) i ->
    run (roots_of (TAsU64 k) i) (closure_of_tmpl (TAsU64 k)) p s = spec_tmpl (TAsU64 k) i p s.
  Proof.
    intros Hk Hx. destruct i as [fx fy c sh]. simpl in *.
    assert (Hlk : clookup F [(eFun, CF F k fx)] (EAssert (TFun k) eFun) = None) by reflexivity.
    assert (Hce : ceval [(eFun, CF F k fx)] (EAssert (TFun k) eFun) = Some (CF F k fx)).
    { unfold Sem.ceval. rewrite Hlk. simpl. rewrite gokind_beq_refl. reflexivity. }
    pose proof (width_le_64 k) as Hw64.
    destruct (is_signed k) eqn:Hsg.
    - unfold Model.run, Sem.denote. cbn [closure_of_tmpl c_lets c_params c_results c_body eval_lets].
      try rewrite Hsg. cbn [c_lets c_params c_results c_body Sem.eval_lets]. rewrite Hce. simpl.
      unfold bind, ret, lift. simpl.
      destruct (fx p s) as [[a s1]| | |] eqn:Ex; try reflexivity.
      apply Hx in Ex. destruct (wf_int _ _ Hk Ex) as (x & -> & Hr). simpl.
      rewrite binop_lit by (assumption || lia || reflexivity). unfold arith. rewrite (ik_of_ikd k Hk). simpl.
      destruct (x <? 0) eqn:Hneg0; simpl; [reflexivity|].
      unfold bind, ret, lift. simpl. unfold Sem.convert. simpl.
      apply Z.ltb_ge in Hneg0.
      rewrite wrap_id; [reflexivity|].
      assert (Hsik : signed (ikd k) = true) by (destruct k; try discriminate; reflexivity).
      unfold in_range, imin, imax in *. rewrite Hsik in Hr. change (signed U64) with false. cbv iota.
      assert (half (ikd k) <= 2 ^ 63) by (unfold half; apply Z.pow_le_mono_r; lia).
      change (modulus U64) with (2 * 2 ^ 63). lia.
    - unfold Model.run, Sem.denote. cbn [closure_of_tmpl c_lets c_params c_results c_body eval_lets].
      try rewrite Hsg. cbn [c_lets c_params c_results c_body Sem.eval_lets]. rewrite Hce. simpl.
      unfold bind, ret, lift. simpl.
      destruct (fx p s) as [[a s1]| | |] eqn:Ex; try reflexivity.
      apply Hx in Ex. destruct (wf_int _ _ Hk Ex) as (x & -> & Hr). simpl.
      unfold Sem.convert. simpl.
      assert (Hu : signed (ikd k) = false) by (destruct k; try discriminate; reflexivity).
      rewrite wrap_id; [reflexivity|].
      unfold in_range, imin, imax in *. rewrite Hu in Hr. change (signed U64) with false. cbv iota.
      assert (modulus (ikd k) <= 2 ^ 64) by (unfold modulus; apply Z.pow_le_mono_r; lia).
      change (modulus U64) with (2 ^ 64). lia.
  Qed.

  Lemma sound_asU64const (i : inputs) p s :
    inputs_ok TAsU64Const i ->
    run (roots_of TAsU64Const i) (closure_of_tmpl TAsU64Const) p s = spec_tmpl TAsU64Const i p s.
  Proof.
    intros Hc. destruct i as [fx fy c sh]. simpl in *.
    unfold Model.run, Sem.denote. simpl. unfold bind, ret, lift. simpl.
    rewrite coerce_typed by (eapply wf_not_untyped; exact Hc). reflexivity.
  Qed.

  (* ---- every template ---- *)
  Theorem tmpl_sound t (i : inputs) p s :
    tmpl_valid t = true -> inputs_ok t i ->
    run (roots_of t i) (closure_of_tmpl t) p s = spec_tmpl t i p s.
  Proof.
    intros Hv Hi. destruct t.
    - destruct sh; [apply sound_bin_vv | apply sound_bin_vc | apply sound_bin_cv | discriminate]; assumption.
    - destruct sh; [apply sound_shift_vv | apply sound_shift_vc | apply sound_shift_cv | discriminate]; assumption.
    - apply sound_un; assumption.
    - apply sound_mulPow2; assumption.
    - apply sound_quoPow2; assumption.
    - apply sound_remPow2; assumption.
    - apply sound_asU64; assumption.
    - apply sound_asU64const; assumption.
  Qed.

  (* soundness of the per-row checker *)
  Theorem entry_ok_sound e : entry_ok e = true ->
    exists t, classify e = Some t /\ tmpl_valid t = true /\
      forall (i : inputs) p s, inputs_ok t i -> run (roots_of t i) (closure_of e) p s = spec_tmpl t i p s.
  Proof.
    unfold entry_ok. destruct (classify e) as [t|]; [|discriminate].
    intros H. apply andb_true_iff in H as [Hv Hc]. apply closure_beq_eq in Hc.
    exists t. repeat split; auto. intros i p s Hi. rewrite Hc. apply tmpl_sound; assumption.
  Qed.

  (* integer division: the specification panics exactly on a zero divisor *)
  Lemma div0_iff k op x y : is_integer k = true -> (op = Quo \/ op = Rem) ->
    (go_binop k op (VInt k x) (VInt k y) = Panic PDiv0 <-> y = 0).
  Proof.
    intros Hk Hop. unfold Sem.go_binop. rewrite !gokind_beq_refl. simpl. unfold arith. rewrite (ik_of_ikd k Hk).
    destruct Hop as [-> | ->]; unfold GoInt.quo, GoInt.rem; destruct (Z.eqb_spec y 0); split; intro H; try reflexivity; try discriminate; congruence.
  Qed.

  (* shift count conversion: panics exactly for a negative count of a signed kind *)
  Lemma negshift_iff k (i : inputs) p s n s1 : in_fx F i p s = Ok (VInt k n, s1) ->
    (spec_tmpl (TAsU64 k) i p s = Panic PNegShift <-> (is_signed k = true /\ n < 0)).
  Proof.
    intros Hfx. destruct i as [fx fy c sh]. simpl in *. unfold bind. rewrite Hfx. simpl.
    destruct (is_signed k); simpl; [destruct (Z.ltb_spec n 0) as [Hlt|Hge]|]; split; intro Hq; try reflexivity; try discriminate;
      try (split; [reflexivity|assumption]); destruct Hq; try discriminate; lia.
  Qed.

  (* x << y with y of a signed kind, through Expr.AsUint64: composition of the two table rows *)
  Lemma shift_signed_count k kc op (a : value) n (s : state F) :
    is_integer kc = true -> shift_valid op = true ->
    go_shift F k op a (VInt kc n) =
      if is_signed kc && (n <? 0) then (match a with VInt ka _ => if gokind_beq ka k then (match ik_of k with Some _ => Panic PNegShift | None => Stuck end) else Stuck | _ => Stuck end)
      else go_shift F k op a (VInt GUint64 n).
  Proof.
    intros Hkc Hop. unfold Sem.go_shift. destruct a; try (destruct (is_signed kc && (n <? 0)); reflexivity).
    rewrite Hkc. simpl. destruct (gokind_beq k0 k); simpl; [|destruct (is_signed kc && (n <? 0)); reflexivity].
    unfold shift. destruct (ik_of k); [|destruct (is_signed kc && (n <? 0)); reflexivity].
    destruct (is_signed kc && (n <? 0)); reflexivity.
  Qed.
End P.

(* C01 -- soundness of the templates: for every template t accepted by the classifier, the closure
   closure_of_tmpl t, run on ANY well-formed inputs, computes spec_tmpl t. *)
From Coq Require Import ZArith List Bool Lia.
From Verif Require Import Common.GoInt Common.GoStr GoLite.Syntax GoLite.Sem GoLite.Templates C01.Model.
Import ListNotations.
Open Scope Z_scope.

Section P.
  Variable F : Type.
  Variable fbin : gokind -> binop -> F -> F -> F.
  Variable fcmp : gokind -> binop -> F -> F -> bool.
  Variable fun1 : gokind -> unop -> F -> F.
  Variable fconv : gokind -> gokind -> F -> F.
  Variable fpart : gokind -> bool -> F -> F.
  Variable fofbits : gokind -> Z -> Z -> F.
  Notation value := (value F).
  Notation opfun := (opfun F).
  Notation denote := (denote F fbin fcmp fun1 fconv fpart fofbits).
  Notation eval := (eval F fbin fcmp fun1 fconv fpart fofbits).
  Notation exec := (exec F fbin fcmp fun1 fconv fpart fofbits).
  Notation ceval := (ceval F fbin fcmp fun1 fconv fpart fofbits).
  Notation eval_lets := (eval_lets F fbin fcmp fun1 fconv fpart fofbits).
  Notation binop_val := (binop_val F fbin fcmp).
  Notation go_binop := (go_binop F fbin fcmp).
  Notation go_unop := (go_unop F fun1).
  Notation run := (run F fbin fcmp fun1 fconv fpart fofbits).
  Notation spec_tmpl := (spec_tmpl F fbin fcmp fun1 fconv).
  Notation norm_const := (norm_const F fconv).
  Notation inputs := (inputs F).
  Notation roots_of := (roots_of F).
  Notation inputs_ok := (inputs_ok F).

  Arguments Sem.binop_val : simpl never.
  Arguments Sem.go_binop : simpl never.
  Arguments Sem.go_shift : simpl never.
  Arguments Sem.go_unop : simpl never.
  Arguments Sem.convert : simpl never.
  Arguments Sem.accessor : simpl never.

  Lemma wf_has_ty k (v : value) : wf_value F k v -> has_ty F (TK k) v = true.
  Proof.
    destruct v; simpl; try tauto.
    - intros ->. reflexivity.
    - intros (-> & H & _). rewrite gokind_beq_refl, H. reflexivity.
    - intros ->. reflexivity.
    - intros (-> & H). rewrite gokind_beq_refl, H. reflexivity.
  Qed.

  Lemma wf_not_untyped k (v : value) : wf_value F k v -> forall z, v <> VUntyped z.
  Proof. intros H z ->. exact H. Qed.

  Lemma ceval_assert (ce : cenv F) k x f :
    clookup F ce (EAssert (TFun k) (EVar x)) = None -> clookup F ce (EVar x) = Some (CF F k f) ->
    ceval ce (EAssert (TFun k) (EVar x)) = Some (CF F k f).
  Proof. intros H1 H2. unfold Sem.ceval. rewrite H1, H2, gokind_beq_refl. reflexivity. Qed.

  Ltac lets_assert := repeat (erewrite ceval_assert; [simpl | reflexivity | reflexivity]).

  (* the end of every closure: result of the operator, returned and implicitly converted *)
  Lemma finish_typed (r : res value) t (s : state F) :
    (forall v, r = Ok v -> forall z, v <> VUntyped z) ->
    match
      match match r with Ok a => Ok (a, s) | Panic q => Panic q | Stuck => Stuck | OutOfFuel => OutOfFuel end with
      | Ok (a, s') => Ok (OReturn F [a], s')
      | Panic q => Panic q | Stuck => Stuck | OutOfFuel => OutOfFuel
      end
    with
    | Ok (o, s') =>
        match o with
        | ONormal _ _ => stuck F
        | OReturn _ vs =>
            lift F match vs with
                   | [] => Stuck
                   | v :: vs' => rbind (coerce F t v) (fun v' => rbind match vs' with [] => Ok [] | _ :: _ => Stuck end (fun r0 => Ok (v' :: r0)))
                   end
        end s'
    | Panic q => Panic q | Stuck => Stuck | OutOfFuel => OutOfFuel
    end = match r with Ok a => Ok ([a], s) | Panic q => Panic q | Stuck => Stuck | OutOfFuel => OutOfFuel end.
  Proof.
    intros H. destruct r; try reflexivity. simpl. unfold lift. rewrite coerce_typed by (apply H; reflexivity). reflexivity.
  Qed.

  (* x(env) OP y(env) *)
  Lemma sound_bin_vv op sb k (i : inputs) p s :
    tmpl_valid (TBin op ShVV sb k) = true -> inputs_ok (TBin op ShVV sb k) i ->
    run (roots_of (TBin op ShVV sb k) i) (closure_of_tmpl (TBin op ShVV sb k)) p s = spec_tmpl (TBin op ShVV sb k) i p s.
  Proof.
    intros Hv [Hx Hy]. destruct i as [fx fy c sh]. simpl in *.
    unfold Model.run, Sem.denote. simpl. lets_assert.
    unfold bind, ret, lift. simpl.
    destruct (fx p s) as [[a s1]| | |] eqn:Ex; try reflexivity.
    destruct (fy p s1) as [[b s2]| | |] eqn:Ey; try reflexivity.
    apply Hx in Ex. apply Hy in Ey.
    rewrite (binop_val_spec k) by (try apply wf_has_ty; auto; destruct op; try discriminate; reflexivity).
    destruct (go_binop k op a b) as [v| | |] eqn:E; simpl; try reflexivity.
    rewrite coerce_typed by (eapply @go_binop_typed; exact E). reflexivity.
  Qed.

  (* ---- constant operands ---- *)
  Lemma wf_cases k (c : value) : wf_value F k c ->
    (exists z, c = VInt k z /\ is_integer k = true /\ in_range (ikd k) z) \/
    (exists f, c = VFlt k f /\ (is_float k || is_complex k) = true) \/
    (exists x, c = VStr x /\ k = GString) \/ (exists b, c = VBool b /\ k = GBool).
  Proof.
    destruct c; simpl; try tauto.
    - intros ->. right. right. right. eauto.
    - intros (-> & H1 & H2). left. eauto.
    - intros ->. right. right. left. eauto.
    - intros (-> & H). right. left. eauto.
  Qed.

  Lemma norm_const_ty k (c c' : value) : wf_value F k c -> norm_const k c = Ok c' -> has_ty F (TK k) c' = true.
  Proof.
    intros Hw. unfold Model.norm_const.
    destruct (wf_cases _ _ Hw) as [(z & -> & Hk & Hr)|[(f & -> & Hk)|[(x & -> & ->)|(b & -> & ->)]]].
    - destruct k; try discriminate; unfold Sem.accessor, acc_meth, wide, Sem.convert; simpl; intros [= <-]; reflexivity.
    - destruct k; try discriminate; unfold Sem.accessor, acc_meth, wide, Sem.convert; simpl; intros [= <-]; reflexivity.
    - unfold Sem.accessor, acc_meth, wide, Sem.convert; simpl. intros [= <-]. reflexivity.
    - unfold Sem.accessor, acc_meth, wide, Sem.convert; simpl. intros [= <-]. reflexivity.
  Qed.

  (* for integers, bools and strings the closure sees the constant itself *)
  Lemma norm_const_id k (c : value) : wf_value F k c -> (is_float k || is_complex k) = false -> norm_const k c = Ok c.
  Proof.
    intros Hw Hk. unfold Model.norm_const.
    destruct (wf_cases _ _ Hw) as [(z & -> & Hi & Hr)|[(f & -> & Hf)|[(x & -> & ->)|(b & -> & ->)]]]; try reflexivity.
    - assert (E : GoInt.wrap (ikd k) z = z) by (apply wrap_id; exact Hr).
      destruct k; try discriminate; unfold Sem.accessor, acc_meth, wide, Sem.convert; simpl; try reflexivity;
        unfold ikd in E; simpl in E; rewrite E; reflexivity.
    - rewrite Hf in Hk. discriminate.
  Qed.

  Lemma ceval_cextract (ce : cenv F) k src (c : value) :
    clookup F ce (ECall0 (EMeth src (acc_meth k))) = None ->
    clookup F ce (EConv (TK k) (ECall0 (EMeth src (acc_meth k)))) = None ->
    eval ce [] src [] = Ok (c, []) -> wf_value F k c ->
    ceval ce (cextract k src) = match norm_const k c with Ok v => Some (CV F v) | _ => None end.
  Proof.
    intros H1 H2 Hs Hw. unfold Sem.ceval, cextract, Model.norm_const.
    assert (Hnr : forall pp ii, c <> VRef pp ii) by (intros pp ii ->; exact Hw).
    destruct (wide k).
    - rewrite H1. simpl. unfold bind. rewrite Hs.
      destruct c; try (exfalso; eapply Hnr; reflexivity); destruct (accessor F fconv (acc_meth k) _); reflexivity.
    - rewrite H2. simpl. unfold bind. rewrite Hs.
      destruct c; try (exfalso; eapply Hnr; reflexivity);
        destruct (accessor F fconv (acc_meth k) _); simpl; try reflexivity;
        unfold lift; destruct (convert F fconv k _); reflexivity.
  Qed.

  Ltac lets_const c Hc :=
    erewrite ceval_cextract with (c := c); [simpl | reflexivity | reflexivity | reflexivity | exact Hc].

  Lemma not_shift_valid op k : op_valid op k = true -> is_shift op = false.
  Proof. destruct op; simpl; intros; try reflexivity; discriminate. Qed.

  (* x(env) OP c *)
  Lemma sound_bin_vc op sb k (i : inputs) p s :
    tmpl_valid (TBin op ShVC sb k) = true -> inputs_ok (TBin op ShVC sb k) i ->
    run (roots_of (TBin op ShVC sb k) i) (closure_of_tmpl (TBin op ShVC sb k)) p s = spec_tmpl (TBin op ShVC sb k) i p s.
  Proof.
    intros Hv [Hx Hc]. destruct i as [fx fy c sh]. simpl in *.
    pose proof (not_shift_valid _ _ Hv) as Hns.
    unfold Model.run, Sem.denote. destruct sb; simpl; lets_assert; lets_const c Hc;
      (destruct (norm_const k c) as [c'| | |] eqn:Hn; try reflexivity; simpl;
       unfold bind, ret, lift; simpl;
       destruct (fx p s) as [[a s1]| | |] eqn:Ex; try reflexivity;
       apply Hx in Ex;
       rewrite (binop_val_spec k) by (first [exact Hns | apply wf_has_ty; assumption | eapply norm_const_ty; eassumption]);
       destruct (go_binop k op a c') as [v| | |] eqn:E; simpl; try reflexivity;
       rewrite coerce_typed by (eapply @go_binop_typed; exact E); reflexivity).
  Qed.

  (* c OP y(env) *)
  Lemma sound_bin_cv op sb k (i : inputs) p s :
    tmpl_valid (TBin op ShCV sb k) = true -> inputs_ok (TBin op ShCV sb k) i ->
    run (roots_of (TBin op ShCV sb k) i) (closure_of_tmpl (TBin op ShCV sb k)) p s = spec_tmpl (TBin op ShCV sb k) i p s.
  Proof.
    intros Hv [Hc Hy]. destruct i as [fx fy c sh]. simpl in *.
    pose proof (not_shift_valid _ _ Hv) as Hns.
    unfold Model.run, Sem.denote. destruct sb; simpl; lets_const c Hc;
      (destruct (norm_const k c) as [c'| | |] eqn:Hn; try reflexivity; simpl; lets_assert;
       unfold bind, ret, lift; simpl;
       destruct (fy p s) as [[b s1]| | |] eqn:Ey; try reflexivity;
       apply Hy in Ey;
       rewrite (binop_val_spec k) by (first [exact Hns | apply wf_has_ty; assumption | eapply norm_const_ty; eassumption]);
       destruct (go_binop k op c' b) as [v| | |] eqn:E; simpl; try reflexivity;
       rewrite coerce_typed by (eapply @go_binop_typed; exact E); reflexivity).
  Qed.
End P.

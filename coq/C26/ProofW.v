(* C26 -- Globals.ReadMultiline delivers every chunk of the reader (lemmas). *)
From Coq Require Import List NArith ZArith Bool Lia.
From Verif Require Import Common.GoStr C26.Model C26.Spec C26.Proof3 C26.Wrapper.
Import ListNotations.
Open Scope Z_scope.

Lemma GRead_keep o rl :
  GReadMultiline true o rl = match ReadMultiline o rl with None => None | Some (c, rest) => Some (view c, rest) end.
Proof. unfold GReadMultiline. destruct (ReadMultiline o rl) as [[c rest]|]; auto. destruct (c_err c); reflexivity. Qed.

Lemma gread_all_keep fuel : forall allc v1 rl,
  gread_all true fuel allc v1 rl = (map view (fst (read_all fuel allc v1 rl)), snd (read_all fuel allc v1 rl)).
Proof.
  induction fuel as [|f IH]; intros allc v1 rl; [reflexivity|].
  cbn [gread_all read_all]. rewrite GRead_keep.
  destruct (ReadMultiline (mkOpts allc v1) rl) as [[c rest]|]; [|reflexivity].
  unfold view at 1 2. cbn [fst snd].
  destruct (c_src c) eqn:E.
  - destruct (c_first c <? 0); [reflexivity|].
    rewrite IH. destruct (read_all f false v1 rest) as [cs stt]. cbn. unfold view. rewrite E. reflexivity.
  - rewrite IH. destruct (read_all f false v1 rest) as [cs stt]. cbn. unfold view. rewrite E. reflexivity.
Qed.

Lemma gread_stream_keep allc v1 rl :
  gread_stream true allc v1 rl = (map view (fst (read_stream allc v1 rl)), snd (read_stream allc v1 rl)).
Proof. apply gread_all_keep. Qed.

Lemma concat_map_view cs : concat (map fst (map view cs)) = concat (map c_src cs).
Proof. induction cs; cbn; congruence. Qed.

Lemma wrapper_lossless_go inp allc v1 :
  hash_in_code RCode inp = false ->
  exists ws, gread_stream true allc v1 (split_nl inp) = (ws, Done) /\ concat (map fst ws) = inp.
Proof.
  intros H. destruct (lossless_go inp allc v1 H) as (cs & A & B).
  exists (map view cs). rewrite gread_stream_keep, A. cbn. split; auto. rewrite concat_map_view. exact B.
Qed.

Lemma wrapper_lossless inp allc v1 :
  bare_hash RCode inp = false ->
  exists ws, gread_stream true allc v1 (split_nl inp) = (ws, Done) /\ concat (map fst ws) = hb_rewrite RCode inp.
Proof.
  intros H. destruct (lossless inp allc v1 H) as (cs & A & B).
  exists (map view cs). rewrite gread_stream_keep, A. cbn. split; auto. rewrite concat_map_view. exact B.
Qed.

(* "a := 1" without final newline: the variant that answers "", -1 to every error delivers nothing *)
Definition w_witness : list N := [97; 32; 58; 61; 32; 49]%N.

Lemma wrapper_dropping_refuted :
  hash_in_code RCode w_witness = false /\
  gread_stream false true false (split_nl w_witness) = ([], Done) /\
  fst (gread_stream true true false (split_nl w_witness)) = [(w_witness, 0)].
Proof. vm_compute. repeat split. Qed.

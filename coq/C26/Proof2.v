(* C26 — lemmas, part 2: lines, chunks, the whole stream *)
From Coq Require Import List NArith ZArith Bool Lia.
From Verif Require Import Common.GoStr C26.Model C26.Proof.
Import ListNotations.
Open Scope Z_scope.

(* ---------- reference run: unfolding and composition ---------- *)
Lemma peek_app a b : peek (a ++ b) = match a with [] => peek b | _ => peek a end.
Proof. destruct a; reflexivity. Qed.

Lemma rrun_cons r d ch s after :
  rrun r d (ch :: s) after =
  rrun (rstep r (classify ch) (match s with [] => after | _ => peek s end)) (rdepth_step r (classify ch) d) s after.
Proof. reflexivity. Qed.

Lemma rrun_app a : forall r d b t,
  rrun r d (a ++ b) (peek t) = let '(r1, d1) := rrun r d a (peek (b ++ t)) in rrun r1 d1 b (peek t).
Proof.
  induction a as [|ch a IH]; intros r d b t.
  - simpl. reflexivity.
  - rewrite <- app_comm_cons. rewrite !rrun_cons.
    replace (match a ++ b with [] => peek t | _ :: _ => peek (a ++ b) end)
      with (match a with [] => peek (b ++ t) | _ :: _ => peek a end).
    + apply IH.
    + destruct a; simpl; [|reflexivity]. destruct b; reflexivity.
Qed.

(* ---------- bare '#' ---------- *)
Lemma bare_hash_cons r ch s :
  bare_hash r (ch :: s) = false ->
  hash_fine r (classify ch) (peek s) /\ bare_hash (rstep r (classify ch) (peek s)) s = false.
Proof.
  simpl. unfold hash_fine.
  destruct r; destruct (classify ch); destruct (peek s) as [[]|]; intros H; split; intros; try discriminate; auto.
Qed.

(* ---------- output invariant ---------- *)
Definition J (s : st) (acc : list N) (r : rstate) (rest : list N) (OUT : list N) : Prop :=
  if mode_eqb (s_m s) mHash
  then exists acc0 rest0, acc = 35%N :: acc0 /\ rest = 33%N :: rest0 /\ OUT = rev acc0 ++ 47%N :: 47%N :: hb_rewrite RLine rest0
  else OUT = rev acc ++ hb_rewrite r rest.

Lemma step_enters_hash s p c r :
  s_m s <> mHash -> s_m (fst (step s p c)) = mHash -> R (s_m s) r (Some c) -> c = CHash /\ r = RCode.
Proof.
  destruct s as [m pa ig f la]. rewrite step_mode_paren. simpl.
  destruct (pa =? 0); destruct m, c; step_simpl; cbn; autorewrite with st; intros H1 H2 H3; try discriminate; try congruence; auto.
Qed.

Lemma step_on_hash s p r :
  R (s_m s) r (Some CHash) -> r = RCode -> s_m (fst (step s p CHash)) = mHash /\ snd (step s p CHash) = false.
Proof.
  destruct s as [m pa ig f la]. simpl. intros HR Hr. subst r.
  destruct m; simpl in HR; try discriminate; try (destruct HR; discriminate); step_simpl; cbn; autorewrite with st; auto.
Qed.

Lemma hb_rewrite_cons r ch s :
  ~ (r = RCode /\ classify ch = CHash) ->
  hb_rewrite r (ch :: s) = ch :: hb_rewrite (rstep r (classify ch) (peek s)) s.
Proof.
  intros H. simpl. destruct r; try reflexivity.
  destruct (classify ch) eqn:E; try reflexivity. exfalso. apply H. auto.
Qed.

Lemma mode_eqb_eq a b : mode_eqb a b = true <-> a = b.
Proof. destruct a, b; simpl; split; intros; try discriminate; auto. Qed.
Lemma mode_eqb_neq a b : mode_eqb a b = false <-> a <> b.
Proof. destruct a, b; simpl; split; intros; try discriminate; try congruence; auto. Qed.

(* one byte *)
Lemma step_inv s p acc ch rest r d OUT :
  R (s_m s) r (Some (classify ch)) -> s_paren s = d -> bare_hash r (ch :: rest) = false -> J s acc r (ch :: rest) OUT ->
  let c := classify ch in
  let r' := rstep r c (peek rest) in
  let d' := rdepth_step r c d in
  exists s' acc', run_line s p acc [ch] = Some (s', acc') /\
    (R (s_m s') r' (peek rest) \/ (c = CNl /\ s_m s' = mLineComment /\ r' = RCode)) /\
    s_paren s' = d' /\ bare_hash r' rest = false /\ J s' acc' r' rest OUT /\ length acc' = S (length acc).
Proof.
  intros HR Hd HB HJ. cbv zeta.
  destruct (bare_hash_cons _ _ _ HB) as [HF HB'].
  destruct (step_sim s p (classify ch) r (peek rest) HR HF) as (HR' & Hp & Hrw).
  simpl. destruct (step s p (classify ch)) as [s1 rw] eqn:Est. simpl in *.
  unfold J in HJ. destruct (mode_eqb (s_m s) mHash) eqn:Em.
  - (* in mHash: the byte is '!' *)
    apply mode_eqb_eq in Em. rewrite Em in HR. simpl in HR. destruct HR as [-> Hc]. injection Hc as Hc.
    destruct HJ as (acc0 & rest0 & -> & Hrest & ->). injection Hrest as -> ->.
    assert (rw = true) by (apply Hrw; auto). subst rw.
    exists s1, (47%N :: 47%N :: acc0). repeat split; auto.
    + subst d. rewrite Hp. reflexivity.
    + unfold J. replace (s_m s1) with mLineComment.
      * change (classify 33%N) with CBang. simpl. rewrite <- !app_assoc. reflexivity.
      * change (classify 33%N) with CBang in Est. unfold step in Est. rewrite Em in Est. injection Est as <-. reflexivity.
  - apply mode_eqb_neq in Em.
    assert (rw = false). { destruct rw; auto. destruct (proj1 Hrw eq_refl). contradiction. } subst rw.
    exists s1, (ch :: acc). repeat split; auto.
    + subst d. rewrite Hp. reflexivity.
    + unfold J. destruct (mode_eqb (s_m s1) mHash) eqn:Em1.
      * apply mode_eqb_eq in Em1.
        destruct (step_enters_hash s p (classify ch) r Em) as [Hc Hr]; [rewrite Est; exact Em1|exact HR|].
        destruct HR' as [HR'|(Hnl & _)]; [|rewrite Hc in Hnl; discriminate].
        rewrite Em1 in HR'. simpl in HR'. destruct HR' as [Hr' Hnx].
        subst r. apply classify_hash in Hc. subst ch.
        destruct rest as [|ch2 rest0]; [discriminate|]. simpl in Hnx. injection Hnx as Hnx. apply classify_bang in Hnx. subst ch2.
        exists acc, rest0. repeat split; auto.
      * apply mode_eqb_neq in Em1. rewrite HJ. simpl rev. rewrite <- app_assoc. f_equal.
        rewrite hb_rewrite_cons; [reflexivity|].
        intros [-> Hc]. rewrite Hc in *.
        destruct (step_on_hash s p RCode HR eq_refl) as [Hm _]. rewrite Est in Hm. contradiction.
Qed.

(* ---------- a run of bytes without newline ---------- *)
Lemma run_line_app a : forall s p acc b,
  run_line s p acc (a ++ b) =
  match run_line s p acc a with
  | None => None
  | Some (s', acc') => run_line s' (p + Z.of_nat (length a)) acc' b
  end.
Proof.
  induction a as [|ch a IH]; intros s p acc b.
  - simpl. rewrite Z.add_0_r. reflexivity.
  - replace (p + Z.of_nat (length (ch :: a))) with (p + 1 + Z.of_nat (length a)) by (simpl length; lia).
    cbn [app run_line]. destruct (step s p (classify ch)) as [s1 rw].
    destruct rw.
    + destruct acc; [reflexivity|]. apply IH.
    + apply IH.
Qed.

Lemma run_seg seg : forall rest s p acc r d OUT,
  ~ In 10%N seg -> R (s_m s) r (peek (seg ++ rest)) -> s_paren s = d ->
  bare_hash r (seg ++ rest) = false -> J s acc r (seg ++ rest) OUT ->
  exists s' acc', run_line s p acc seg = Some (s', acc') /\
    let '(r', d') := rrun r d seg (peek rest) in
    R (s_m s') r' (peek rest) /\ s_paren s' = d' /\ bare_hash r' rest = false /\ J s' acc' r' rest OUT /\
    length acc' = (length acc + length seg)%nat.
Proof.
  induction seg as [|ch seg IH]; intros rest s p acc r d OUT Hnl HR Hd HB HJ.
  - exists s, acc. simpl. repeat split; auto.
  - simpl app in *.
    destruct (step_inv s p acc ch (seg ++ rest) r d OUT HR Hd HB HJ) as (s1 & acc1 & Hrun & HR1 & Hd1 & HB1 & HJ1 & Hl1).
    destruct HR1 as [HR1|(Hc & _)].
    2:{ apply classify_nl in Hc. exfalso. apply Hnl. left. auto. }
    destruct (IH rest s1 (p + 1) acc1 _ _ OUT (fun H => Hnl (or_intror H)) HR1 Hd1 HB1 HJ1) as (s2 & acc2 & Hrun2 & Hrest).
    exists s2, acc2. split.
    + change (ch :: seg) with ([ch] ++ seg). rewrite run_line_app, Hrun. simpl length. exact Hrun2.
    + rewrite rrun_cons.
      replace (match seg with [] => peek rest | _ :: _ => peek seg end) with (peek (seg ++ rest)) by apply peek_app.
      destruct (rrun _ _ seg (peek rest)) as [r2 d2].
      destruct Hrest as (A & B & C & D & E). repeat split; auto. rewrite E, Hl1. simpl. lia.
Qed.

(* ---------- complete lines ---------- *)
Lemma rstep_nl_not_line r nx : rstep r CNl nx <> RLine.
Proof. destruct r; simpl; try discriminate; destruct nx as [[]|]; discriminate. Qed.

Lemma J_start s r rest : s_m s <> mHash -> J s [] r rest (hb_rewrite r rest).
Proof. intros H. unfold J. apply mode_eqb_neq in H. rewrite H. reflexivity. Qed.

Lemma full_line seg rest s p r d :
  ~ In 10%N seg ->
  R (s_m s) r (peek ((seg ++ [10%N]) ++ rest)) -> s_m s <> mHash -> s_paren s = d ->
  bare_hash r ((seg ++ [10%N]) ++ rest) = false ->
  exists s' acc', run_line s p [] (seg ++ [10%N]) = Some (s', acc') /\
    let '(r', d') := rrun r d (seg ++ [10%N]) (peek rest) in
    let s2 := eol_reset_comment s' in
    R (s_m s2) r' (peek rest) /\ s_m s2 <> mHash /\ s_paren s2 = d' /\ bare_hash r' rest = false /\
    hb_rewrite r ((seg ++ [10%N]) ++ rest) = rev acc' ++ hb_rewrite r' rest /\
    length acc' = length (seg ++ [10%N]) /\ s_ign s2 = s_ign s' /\ s_first s2 = s_first s' /\ s_last s2 = s_last s'.
Proof.
  intros Hnl HR Hm Hd HB.
  rewrite <- app_assoc in HR, HB |- *. simpl app in HR, HB |- *.
  pose proof (J_start s r (seg ++ 10%N :: rest) Hm) as HJ.
  destruct (run_seg seg (10%N :: rest) s p [] r d _ Hnl HR Hd HB HJ) as (s1 & acc1 & Hrun1 & H1).
  change (10%N :: rest) with ([10%N] ++ rest). rewrite (rrun_app seg r d [10%N] rest).
  simpl app. destruct (rrun r d seg (peek (10%N :: rest))) as [r1 d1].
  destruct H1 as (HR1 & Hd1 & HB1 & HJ1 & Hl1).
  destruct (step_inv s1 (p + Z.of_nat (length seg)) acc1 10%N rest r1 d1 _ HR1 Hd1 HB1 HJ1) as (s2 & acc2 & Hrun2 & HR2 & Hd2 & HB2 & HJ2 & Hl2).
  exists s2, acc2. split.
  - rewrite run_line_app, Hrun1. exact Hrun2.
  - rewrite rrun_cons. change (classify 10%N) with CNl in *. cbv zeta.
    set (r2 := rstep r1 CNl (peek rest)) in *.
    assert (Hr2 : r2 <> RLine) by apply rstep_nl_not_line.
    assert (Hnh : s_m s2 <> mHash).
    { intros E. destruct HR2 as [HR2|(_ & E2 & _)]; [|congruence]. rewrite E in HR2. simpl in HR2. tauto. }
    unfold eol_reset_comment. destruct (mode_eqb (s_m s2) mLineComment) eqn:Em.
    + apply mode_eqb_eq in Em.
      assert (r2 = RCode).
      { destruct HR2 as [HR2|(_ & _ & E2)]; auto. rewrite Em in HR2. simpl in HR2. contradiction. }
      repeat split; auto; try (simpl; congruence).
      * autorewrite with st. discriminate.
      * unfold J in HJ2. rewrite Em in HJ2. simpl in HJ2. exact HJ2.
      * rewrite Hl2, Hl1, app_length. simpl. lia.
    + apply mode_eqb_neq in Em. destruct HR2 as [HR2|(_ & E2 & _)]; [|contradiction].
      repeat split; auto.
      * unfold J in HJ2. apply mode_eqb_neq in Hnh. rewrite Hnh in HJ2. exact HJ2.
      * rewrite Hl2, Hl1, app_length. simpl. lia.
Qed.

Lemma last_line l s p r d :
  ~ In 10%N l -> R (s_m s) r (peek l) -> s_m s <> mHash -> s_paren s = d -> bare_hash r l = false ->
  exists s' acc', run_line s p [] l = Some (s', acc') /\ hb_rewrite r l = rev acc' /\ length acc' = length l.
Proof.
  intros Hnl HR Hm Hd HB.
  pose proof (J_start s r l Hm) as HJ.
  rewrite <- (app_nil_r l) in HR, HB, HJ.
  destruct (run_seg l [] s p [] r d _ Hnl HR Hd HB HJ) as (s1 & acc1 & Hrun1 & H1).
  exists s1, acc1. split; auto. destruct (rrun r d l (peek [])) as [r1 d1].
  destruct H1 as (HR1 & Hd1 & HB1 & HJ1 & Hl1). split; auto.
  unfold J in HJ1. destruct (mode_eqb (s_m s1) mHash).
  - destruct HJ1 as (? & ? & _ & E & _). discriminate.
  - rewrite app_nil_r in HJ1. simpl in HJ1. rewrite app_nil_r in HJ1. exact HJ1.
Qed.

(* ---------- the Readline contract: every line but the last ends with its only newline ---------- *)
Definition line_ok (l : list N) := exists seg, l = seg ++ [10%N] /\ ~ In 10%N seg.
Fixpoint lines_wf (rl : list (list N)) : Prop :=
  match rl with
  | [] => True
  | l :: rest => match rest with [] => ~ In 10%N l | _ :: _ => line_ok l /\ lines_wf rest end
  end.

Lemma eolpm_m s : s_m (eol_reset_plusminus s) = match s_m s with mPlus | mMinus => mNormal | m => m end.
Proof. unfold eol_reset_plusminus. destruct (s_m s) eqn:E; autorewrite with st; auto. Qed.
Lemma eolpm_paren s : s_paren (eol_reset_plusminus s) = s_paren s.
Proof. unfold eol_reset_plusminus. destruct (s_m s); autorewrite with st; auto. Qed.

Lemma R_eolpm s r nx : R (s_m s) r nx -> R (s_m (eol_reset_plusminus s)) r nx.
Proof. rewrite eolpm_m. destruct (s_m s); auto. Qed.
Lemma nohash_eolpm s : s_m s <> mHash -> s_m (eol_reset_plusminus s) <> mHash.
Proof. rewrite eolpm_m. destruct (s_m s); auto; discriminate. Qed.

(* what is known about the last line of a chunk that was cut (err == nil) *)
Definition cut_info (o : opts) (r : rstate) (d : Z) (consumed : list (list N)) (rest : list N) (c : chunk) : Prop :=
  exists consumed0 L sL bufL s1 acc1, consumed = consumed0 ++ [L] /\
    let '(rL, dL) := rrun r d (concat consumed0) (peek (L ++ rest)) in
    R (s_m sL) rL (peek (L ++ rest)) /\ s_m sL <> mHash /\ s_m sL <> mPlus /\ s_m sL <> mMinus /\
    s_paren sL = dL /\ bare_hash rL (L ++ rest) = false /\
    Forall line_ok consumed0 /\ line_ok L /\
    run_line sL (Z.of_nat (length bufL)) [] L = Some (s1, acc1) /\ c_src c = bufL ++ rev acc1 /\
    s_ign s1 = false /\ s_m (eol_reset_comment s1) = mNormal /\
    (0 <=? s_first s1) && lastIsKw (o_v1cxx o) (c_src c) (s_first s1) (s_last s1) = false.

Lemma may_stop_true o s : may_stop o s = true -> s_paren s <= 0 /\ s_ign s = false /\ s_m s = mNormal.
Proof.
  unfold may_stop. rewrite !andb_true_iff. intros [[[A B] C] _].
  apply Z.leb_le in A. apply negb_true_iff in B. apply mode_eqb_eq in C. auto.
Qed.

Lemma rm_loop_spec o : forall rl s buf r d,
  rl <> [] -> lines_wf rl ->
  R (s_m s) r (peek (concat rl)) -> s_m s <> mHash -> s_m s <> mPlus -> s_m s <> mMinus ->
  s_paren s = d -> bare_hash r (concat rl) = false ->
  exists c rl' consumed, rm_loop o rl s buf = Some (c, rl') /\ rl = consumed ++ rl' /\ consumed <> [] /\ lines_wf rl' /\
    let '(r', d') := rrun r d (concat consumed) (peek (concat rl')) in
    bare_hash r' (concat rl') = false /\
    buf ++ hb_rewrite r (concat rl) = c_src c ++ hb_rewrite r' (concat rl') /\
    length (c_src c) = (length buf + length (concat consumed))%nat /\
    ((c_err c = ENone /\ rl' <> [] /\ r' = RCode /\ d' <= 0 /\ cut_info o r d consumed (concat rl') c)
     \/ (c_err c <> ENone /\ rl' = [])).
Proof.
  induction rl as [|l rest IH]; intros s buf r d Hne Hwf HR Hm Hpl Hmi Hd HB; [contradiction|].
  destruct rest as [|l2 rest2].
  - (* the last line, delivered with io.EOF *)
    simpl in Hwf. simpl concat in *. rewrite app_nil_r in *.
    destruct (last_line l s (Z.of_nat (length buf)) r d Hwf HR Hm Hd HB) as (s1 & acc1 & Hrun & Hout & Hlen).
    exists (mkChunk (buf ++ rev acc1) (s_first (eol_reset_comment s1)) (eof_err (eol_reset_comment s1))), [], [l].
    split; [simpl; rewrite Hrun; reflexivity|].
    split; [reflexivity|]. split; [discriminate|]. split; [exact I|].
    simpl concat. rewrite app_nil_r. destruct (rrun r d l (peek [])) as [r' d'].
    split; [reflexivity|]. split; [simpl; rewrite Hout, !app_nil_r; reflexivity|].
    split; [simpl; rewrite app_length, rev_length, Hlen; reflexivity|].
    right. split; [|reflexivity]. simpl. unfold eof_err. destruct (0 <? _); discriminate.
  - remember (l2 :: rest2) as rest eqn:Erest.
    assert (Hwf' : line_ok l /\ lines_wf rest) by (rewrite Erest; rewrite Erest in Hwf; exact Hwf). destruct Hwf' as [Hl Hwr].
    pose proof Hl as Hl0.
    destruct Hl as (seg & -> & Hseg).
    change (concat ((seg ++ [10%N]) :: rest)) with ((seg ++ [10%N]) ++ concat rest) in *.
    destruct (full_line seg (concat rest) s (Z.of_nat (length buf)) r d Hseg HR Hm Hd HB) as (s1 & acc1 & Hrun & H1).
    destruct (rrun r d (seg ++ [10%N]) (peek (concat rest))) as [r1 d1] eqn:Er1.
    cbv zeta in H1. destruct H1 as (HR1 & Hm1 & Hd1 & HB1 & Hout & Hlen & Hig & Hfi & Hla).
    set (s2 := eol_reset_comment s1) in *.
    assert (Hunf : rm_loop o ((seg ++ [10%N]) :: rest) s buf =
                   if may_stop o s2 then
                     if (0 <=? s_first s2) && lastIsKw (o_v1cxx o) (buf ++ rev acc1) (s_first s2) (s_last s2)
                     then rm_loop o rest (eol_reset_plusminus (set_ign s2 true)) (buf ++ rev acc1)
                     else Some (mkChunk (buf ++ rev acc1) (s_first s2) ENone, rest)
                   else rm_loop o rest (eol_reset_plusminus s2) (buf ++ rev acc1)).
    { rewrite Erest. simpl. rewrite Hrun. reflexivity. }
    (* the two ways to go on with the next line *)
    assert (Hcont : forall s3, s_m s3 = s_m (eol_reset_plusminus s2) -> s_paren s3 = s_paren s2 ->
              exists c rl' consumed, rm_loop o rest s3 (buf ++ rev acc1) = Some (c, rl') /\
                (seg ++ [10%N]) :: rest = consumed ++ rl' /\ consumed <> [] /\ lines_wf rl' /\
                let '(r', d') := rrun r d (concat consumed) (peek (concat rl')) in
                bare_hash r' (concat rl') = false /\
                buf ++ hb_rewrite r ((seg ++ [10%N]) ++ concat rest) = c_src c ++ hb_rewrite r' (concat rl') /\
                length (c_src c) = (length buf + length (concat consumed))%nat /\
                ((c_err c = ENone /\ rl' <> [] /\ r' = RCode /\ d' <= 0 /\ cut_info o r d consumed (concat rl') c)
                 \/ (c_err c <> ENone /\ rl' = []))).
    { intros s3 Em3 Ep3.
      destruct (IH s3 (buf ++ rev acc1) r1 d1) as (c & rl' & cons2 & Hrm & Hsplit & Hcne & Hwf2 & H2); auto.
      - rewrite Erest. discriminate.
      - rewrite Em3. apply R_eolpm. exact HR1.
      - rewrite Em3. apply nohash_eolpm. exact Hm1.
      - rewrite Em3, eolpm_m. destruct (s_m s2); discriminate.
      - rewrite Em3, eolpm_m. destruct (s_m s2); discriminate.
      - congruence.
      - exists c, rl', ((seg ++ [10%N]) :: cons2). split; [exact Hrm|].
        split; [simpl; rewrite Hsplit; reflexivity|]. split; [discriminate|]. split; [exact Hwf2|].
        simpl concat. rewrite rrun_app.
        assert (Ecat : concat cons2 ++ concat rl' = concat rest) by (rewrite Hsplit, concat_app; reflexivity).
        rewrite Ecat, Er1.
        destruct (rrun r1 d1 (concat cons2) (peek (concat rl'))) as [r' d'].
        destruct H2 as (HB2 & Hout2 & Hlen2 & Hcase). split; [exact HB2|].
        split; [rewrite Hout, app_assoc; exact Hout2|].
        split; [rewrite Hlen2, !app_length, rev_length, Hlen, !app_length; simpl; lia|].
        destruct Hcase as [(He & Hr' & Hrc & Hdle & Hci)|Hcase]; [left|right; exact Hcase].
        repeat split; auto.
        destruct Hci as (c0 & L & sL & bufL & sl1 & accl1 & Hc0 & Hci).
        exists ((seg ++ [10%N]) :: c0), L, sL, bufL, sl1, accl1. split; [rewrite Hc0; reflexivity|].
        simpl concat. rewrite rrun_app.
        assert (Ecat2 : concat c0 ++ L ++ concat rl' = concat rest).
        { rewrite Hsplit, Hc0, !concat_app. simpl. rewrite app_nil_r, <- app_assoc. reflexivity. }
        rewrite Ecat2, Er1.
        destruct (rrun r1 d1 (concat c0) (peek (L ++ concat rl'))) as [rL dL].
        destruct Hci as (X1 & X2 & X3 & X4 & X5 & X6 & X7 & Xrest).
        repeat (split; [assumption|]). split; [constructor; assumption|]. exact Xrest. }
    rewrite Hunf.
    destruct (may_stop o s2) eqn:Ems.
    + destruct ((0 <=? s_first s2) && lastIsKw (o_v1cxx o) (buf ++ rev acc1) (s_first s2) (s_last s2)) eqn:Ekw.
      * apply Hcont; rewrite ?eolpm_m, ?eolpm_paren; autorewrite with st; reflexivity.
      * (* the chunk ends here *)
        destruct (may_stop_true _ _ Ems) as (Hp2 & Hi2 & Hm2).
        exists (mkChunk (buf ++ rev acc1) (s_first s2) ENone), rest, [seg ++ [10%N]].
        split; [reflexivity|]. split; [reflexivity|]. split; [discriminate|]. split; [exact Hwr|].
        simpl concat. rewrite app_nil_r, Er1.
        split; [exact HB1|]. split; [simpl; rewrite Hout, app_assoc; reflexivity|].
        split; [simpl; rewrite app_length, rev_length, Hlen; reflexivity|].
        left. simpl. split; [reflexivity|]. split; [rewrite Erest; discriminate|].
        assert (r1 = RCode) by (rewrite Hm2 in HR1; exact HR1).
        split; [assumption|]. split; [lia|].
        exists [], (seg ++ [10%N]), s, buf, s1, acc1. split; [reflexivity|].
        simpl. repeat split; auto; try congruence.
    + apply Hcont; rewrite ?eolpm_m, ?eolpm_paren; autorewrite with st; reflexivity.
Qed.

(* ---------- the whole stream ---------- *)
Inductive cuts (P : list N -> list N -> chunk -> Prop) : list N -> list chunk -> Prop :=
| cuts_nil s : cuts P s []
| cuts_cons s c cs piece rest :
    s = piece ++ rest -> length piece = length (c_src c) ->
    (c_err c = ENone -> P piece rest c) -> cuts P rest cs -> cuts P s (c :: cs).

Lemma cuts_impl (P Q : list N -> list N -> chunk -> Prop) s cs :
  (forall a b c, P a b c -> Q a b c) -> cuts P s cs -> cuts Q s cs.
Proof. intros H C. induction C; econstructor; eauto. Qed.

Definition cut_fact (v1 : bool) (piece rest : list N) (c : chunk) : Prop :=
  exists consumed d o, o_v1cxx o = v1 /\ piece = concat consumed /\
    rrun RCode 0 piece (peek rest) = (RCode, d) /\ d <= 0 /\ cut_info o RCode 0 consumed rest c.

Lemma line_ok_length L : line_ok L -> (1 <= length L)%nat.
Proof. intros (seg & -> & _). rewrite app_length. simpl. lia. Qed.

Lemma read_all_spec v1 : forall fuel rl allc,
  (length rl < fuel)%nat -> lines_wf rl -> bare_hash RCode (concat rl) = false ->
  exists cs, read_all fuel allc v1 rl = (cs, Done) /\
    concat (map c_src cs) = hb_rewrite RCode (concat rl) /\ cuts (cut_fact v1) (concat rl) cs.
Proof.
  induction fuel as [|f IH]; intros rl allc Hf Hwf HB; [lia|].
  simpl read_all. unfold ReadMultiline.
  destruct rl as [|l rest].
  - simpl. exists []. repeat split; constructor.
  - set (rl := l :: rest) in *.
    destruct (rm_loop_spec (mkOpts allc v1) rl st0 [] RCode 0) as (c & rl' & consumed & Hrm & Hsplit & Hcne & Hwf' & H); auto;
      try reflexivity; try discriminate.
    rewrite Hrm.
    destruct (rrun RCode 0 (concat consumed) (peek (concat rl'))) as [r' d'] eqn:Err.
    destruct H as (HB' & Hout & Hlen & Hcase). simpl in Hout, Hlen.
    assert (Hlt : (length rl' < f)%nat).
    { assert (length rl = length consumed + length rl')%nat by (rewrite Hsplit, app_length; reflexivity).
      destruct consumed; [contradiction|]. simpl in *. lia. }
    assert (HBr : bare_hash RCode (concat rl') = false).
    { destruct Hcase as [(_ & _ & -> & _)|(_ & ->)]; [exact HB'|reflexivity]. }
    assert (Htail : hb_rewrite r' (concat rl') = hb_rewrite RCode (concat rl')).
    { destruct Hcase as [(_ & _ & -> & _)|(_ & ->)]; reflexivity. }
    assert (Hgo : exists cs, (let '(cs0, stt) := read_all f false v1 rl' in (c :: cs0, stt)) = (cs, Done) /\
               concat (map c_src cs) = hb_rewrite RCode (concat rl) /\ cuts (cut_fact v1) (concat rl) cs).
    { destruct (IH rl' false Hlt Hwf' HBr) as (cs' & Hra & Hcat & Hcuts).
      exists (c :: cs'). rewrite Hra. split; [reflexivity|]. split.
      - simpl. rewrite Hcat, <- Htail. symmetry. exact Hout.
      - apply cuts_cons with (piece := concat consumed) (rest := concat rl').
        + rewrite Hsplit, concat_app. reflexivity.
        + symmetry. exact Hlen.
        + intros He. destruct Hcase as [(_ & _ & -> & Hd' & Hci)|(Hne & _)]; [|contradiction].
          exists consumed, d', (mkOpts allc v1). repeat split; auto.
        + exact Hcuts. }
    destruct (c_src c) eqn:Esrc; [|exact Hgo].
    destruct (c_first c <? 0); [|exact Hgo].
    (* "" and -1: end of the stream *)
    exists []. split; [reflexivity|].
    destruct Hcase as [(_ & _ & _ & _ & Hci)|(_ & ->)].
    + exfalso. destruct Hci as (c0 & L & sL & bufL & s1 & acc1 & -> & Hci).
      destruct (rrun RCode 0 (concat c0) (peek (L ++ concat rl'))). destruct Hci as (_ & _ & _ & _ & _ & _ & _ & HL & _).
      apply line_ok_length in HL. rewrite concat_app, app_length in Hlen. simpl in Hlen. rewrite app_nil_r in Hlen. lia.
    + split; [|constructor]. simpl in Hout. simpl. rewrite Hout. simpl. reflexivity.
Qed.

(* ---------- bufio ReadBytes('\n') ---------- *)
Lemma split_nl_aux_spec s : forall cur, ~ In 10%N cur ->
  lines_wf (split_nl_aux cur s) /\ concat (split_nl_aux cur s) = rev cur ++ s /\ split_nl_aux cur s <> [].
Proof.
  induction s as [|ch s IH]; intros cur Hc.
  - simpl. rewrite !app_nil_r. repeat split; try discriminate. rewrite <- in_rev. exact Hc.
  - simpl. destruct (N.eqb_spec ch 10).
    + subst ch. destruct (IH [] (fun H => H)) as (A & B & C).
      split; [|split; [|discriminate]].
      * simpl. destruct (split_nl_aux [] s) eqn:E; [contradiction|]. split; [|exact A].
        exists (rev cur). split; [reflexivity|]. rewrite <- in_rev. exact Hc.
      * simpl. rewrite B. simpl. rewrite <- app_assoc. reflexivity.
    + destruct (IH (ch :: cur)) as (A & B & C).
      * intros [H|H]; [congruence|contradiction].
      * repeat split; auto. rewrite B. simpl. rewrite <- app_assoc. reflexivity.
Qed.

Lemma split_nl_spec s : lines_wf (split_nl s) /\ concat (split_nl s) = s /\ split_nl s <> [].
Proof. apply (split_nl_aux_spec s []). intros H; exact H. Qed.

Lemma read_stream_spec inp allc v1 :
  bare_hash RCode inp = false ->
  exists cs, read_stream allc v1 (split_nl inp) = (cs, Done) /\
    concat (map c_src cs) = hb_rewrite RCode inp /\ cuts (cut_fact v1) inp cs.
Proof.
  intros HB. destruct (split_nl_spec inp) as (A & B & C).
  unfold read_stream.
  destruct (read_all_spec v1 (S (S (length (split_nl inp)))) (split_nl inp) allc) as (cs & H1 & H2 & H3); auto.
  - rewrite B. exact HB.
  - exists cs. rewrite B in *. auto.
Qed.

(* C26 — lemmas, part 6: lines that end in a run of + and - (covers  <-+  +-  ++-  ... which ends_in_op leaves out) *)
From Coq Require Import List NArith ZArith Bool Lia.
From Verif Require Import Common.GoStr C26.Model C26.Spec C26.Spec2 C26.Proof C26.Proof2 C26.Proof3 C26.Proof4 C26.Proof5.
Import ListNotations.
Open Scope Z_scope.

Local Transparent post set_m set_paren set_ign foundtoken.

(* one + or - read at bracket depth 0 in mode mNormal / mPlus / mMinus, or right after a '/' operator *)
Lemma step_pm_mode s p c :
  s_paren s = 0 -> is_plusminus c = true -> code_mode (s_m s) ->
  s_m (fst (step s p c)) = pm_step (match s_m s with mSlash => mNormal | m => m end) c /\
  s_paren (fst (step s p c)) = 0.
Proof.
  destruct s as [m pa ig f la]. cbn [s_m s_paren]. intros -> Hc Hm.
  destruct Hm as [-> | [-> | [-> | ->]]]; destruct c; try discriminate Hc; cbn; split; reflexivity.
Qed.

Lemma pm_step_closed m c : m = mNormal \/ m = mPlus \/ m = mMinus ->
  pm_step m c = mNormal \/ pm_step m c = mPlus \/ pm_step m c = mMinus.
Proof. intros [-> | [-> | ->]]; destruct c; simpl; auto. Qed.

Lemma pm_run_closed l : forall m, m = mNormal \/ m = mPlus \/ m = mMinus ->
  pm_run m l = mNormal \/ pm_run m l = mPlus \/ pm_run m l = mMinus.
Proof. induction l as [|c l IH]; intros m H; [exact H|]. simpl. apply IH. apply pm_step_closed. exact H. Qed.

Definition npm_mode (m : mode) : Prop := m = mNormal \/ m = mPlus \/ m = mMinus.

Lemma run_pm_tail run : forall s p acc s' acc',
  Forall (fun b => is_plusminus (classify b) = true) run -> s_paren s = 0 -> npm_mode (s_m s) ->
  run_line s p acc run = Some (s', acc') ->
  s_m s' = pm_run (s_m s) (map classify run) /\ s_paren s' = 0.
Proof.
  induction run as [|b run IH]; intros s p acc s' acc' Hall Hp Hm Hrun.
  - simpl in Hrun. injection Hrun as <- _. simpl. auto.
  - inversion Hall as [|? ? Hb Hall']; subst.
    destruct (run_line_cons_some _ _ _ _ _ _ _ Hrun) as (acc1 & Hrun').
    assert (Hcm : code_mode (s_m s)) by (unfold code_mode, npm_mode in *; tauto).
    destruct (step_pm_mode s p (classify b) Hp Hb Hcm) as [Em Ep].
    assert (Enos : match s_m s with mSlash => mNormal | m => m end = s_m s).
    { destruct Hm as [E | [E | E]]; rewrite E; reflexivity. }
    rewrite Enos in Em.
    assert (Hm1 : npm_mode (s_m (fst (step s p (classify b))))).
    { rewrite Em. apply pm_step_closed. exact Hm. }
    destruct (IH _ _ _ _ _ Hall' Ep Hm1 Hrun') as (A & B).
    rewrite Em in A. split; [exact A|exact B].
Qed.

Lemma run_pm run s p acc s' acc' :
  run <> [] -> Forall (fun b => is_plusminus (classify b) = true) run -> s_paren s = 0 -> code_mode (s_m s) ->
  run_line s p acc run = Some (s', acc') ->
  s_m s' = pm_run (match s_m s with mSlash => mNormal | m => m end) (map classify run) /\ s_paren s' = 0.
Proof.
  intros Hne Hall Hp Hm Hrun. destruct run as [|b run]; [contradiction|].
  inversion Hall as [|? ? Hb Hall']; subst.
  destruct (run_line_cons_some _ _ _ _ _ _ _ Hrun) as (acc1 & Hrun').
  destruct (step_pm_mode s p (classify b) Hp Hb Hm) as [Em Ep].
  assert (Hm1 : npm_mode (s_m (fst (step s p (classify b))))).
  { rewrite Em. apply pm_step_closed. destruct Hm as [E | [E | [E | E]]]; rewrite E; auto. }
  destruct (run_pm_tail _ _ _ _ _ _ Hall' Ep Hm1 Hrun') as (A & B).
  rewrite Em in A. split; [exact A|exact B].
Qed.

Lemma bare_hash_pm run : forall tl,
  Forall (fun b => is_plusminus (classify b) = true) run -> bare_hash RCode (run ++ tl) = false -> bare_hash RCode tl = false.
Proof.
  induction run as [|b run IH]; intros tl Hall H; [exact H|].
  inversion Hall as [|? ? Hb Hall']; subst.
  change ((b :: run) ++ tl) with (b :: (run ++ tl)) in H. destruct (bare_hash_cons _ _ _ H) as [_ H'].
  destruct (classify b); try discriminate Hb; simpl in H'; apply IH; assumption.
Qed.

(* a line that ends in a run of + / - with a single + or - left at its end (then white space / comments)
   leaves ignorenl set: the end-of-line decision of ReadMultiline does not stop there *)
Lemma line_pm_ign L rest s p r d s1 acc1 o :
  line_ok L -> R (s_m s) r (peek (L ++ rest)) -> s_m s <> mHash -> s_m s <> mPlus -> s_m s <> mMinus ->
  s_paren s = d -> bare_hash r (L ++ rest) = false ->
  ends_in_pm_run r d L (peek rest) ->
  run_line s p [] L = Some (s1, acc1) ->
  s_ign s1 = true /\ may_stop o (eol_reset_comment s1) = false.
Proof.
  intros HL HR Hh Hpl Hmi Hd HB (a & run & t & -> & Hrr & Hne & Hall & Hpm & Hend & HQ) Hrun.
  assert (Hlast : forall y, In y run -> y <> 10%N).
  { intros y Hy ->. rewrite Forall_forall in Hall. specialize (Hall _ Hy). discriminate Hall. }
  assert (Htne : t <> []).
  { intros ->. rewrite app_nil_r in HL. destruct HL as (seg & E & _).
    destruct (exists_last Hne) as (r0 & y & ->). rewrite app_assoc in E. apply app_inj_tail in E. destruct E as [_ ->].
    apply (Hlast 10%N); [apply in_or_app; right; left; reflexivity|reflexivity]. }
  destruct (line_ok_split2 _ (a ++ run) t HL (app_assoc _ _ _) Htne) as (t' & -> & Haw & Ht').
  assert (Ha : ~ In 10%N a) by (intros H; apply Haw; apply in_or_app; left; exact H).
  destruct run as [|b0 bs] eqn:Erun; [contradiction|]. rewrite <- Erun in *.
  assert (Hign : s_ign s1 = true).
  { set (tl := t' ++ [10%N]) in *. rewrite <- !app_assoc in HR, HB. subst tl.
    pose proof (J_start s r (a ++ run ++ (t' ++ [10%N]) ++ rest) Hh) as HJ.
    destruct (run_seg a (run ++ (t' ++ [10%N]) ++ rest) s p [] r d _ Ha HR Hd HB HJ) as (sa & acca & Hruna & H1).
    assert (Epk : peek (run ++ (t' ++ [10%N]) ++ rest) = peek (run ++ t' ++ [10%N])) by (rewrite Erun; reflexivity).
    rewrite Epk, Hrr in H1. destruct H1 as (HRa & Hpa & HBa & _ & _).
    assert (Hb0 : is_plusminus (classify b0) = true).
    { rewrite Erun in Hall. inversion Hall; assumption. }
    (* the mode before the run is not mPlus / mMinus *)
    assert (Hnpm : s_m sa <> mPlus /\ s_m sa <> mMinus).
    { destruct (rev a) as [|b ra] eqn:Era.
      + assert (a = []) by (rewrite <- (rev_involutive a), Era; reflexivity). subst a.
        simpl in Hruna. injection Hruna as <- _. auto.
      + assert (Ea : a = rev ra ++ [b]) by (rewrite <- (rev_involutive a), Era; reflexivity).
        rewrite Ea, run_line_app in Hruna.
        destruct (run_line s p [] (rev ra)) as [[s0 acc0]|] eqn:E0; [|discriminate].
        apply run_line_single in Hruna.
        split; intros Hm; assert (Hx : is_plusminus (classify b) = true)
          by (eapply step_pm; rewrite <- Hruna; eauto); congruence. }
    assert (Hcm : code_mode (s_m sa)).
    { rewrite Erun in HRa. simpl in HRa. unfold code_mode.
      destruct (s_m sa); simpl in HRa; try discriminate; auto;
        try (destruct (classify b0); try discriminate Hb0; discriminate HRa);
        try (destruct HRa as [_ HRa]; destruct (classify b0); try discriminate Hb0; discriminate HRa). }
    rewrite run_line_app, Hruna in Hrun. rewrite run_line_app in Hrun.
    destruct (run_line sa (p + Z.of_nat (length a)) acca run) as [[sr accr]|] eqn:Hrunr; [|discriminate].
    destruct (run_pm run sa _ acca sr accr Hne Hall Hpa Hcm Hrunr) as (Emr & Epr).
    assert (Estart : match s_m sa with mSlash => mNormal | m => m end = mNormal).
    { destruct Hcm as [E | [E | [E | E]]]; rewrite E; try reflexivity; destruct Hnpm; congruence. }
    rewrite Estart in Emr.
    assert (Hpmr : s_m sr = mPlus \/ s_m sr = mMinus).
    { destruct (pm_run_closed (map classify run) mNormal (or_introl eq_refl)) as [E | [E | E]];
        rewrite <- Emr in E; auto. rewrite Emr in E. contradiction. }
    assert (HRr : R (s_m sr) RCode (peek ((t' ++ [10%N]) ++ rest))).
    { destruct Hpmr as [E | E]; rewrite E; reflexivity. }
    assert (HBr : bare_hash RCode ((t' ++ [10%N]) ++ rest) = false) by (eapply bare_hash_pm; eauto).
    eapply (run_quiet t' rest sr _ accr RCode); eauto.
    unfold Cont. tauto. }
  split; [exact Hign|].
  unfold may_stop, eol_reset_comment. destruct (mode_eqb (s_m s1) mLineComment).
  - change (s_ign (set_m s1 mNormal)) with (s_ign s1). rewrite Hign. simpl. rewrite andb_false_r. reflexivity.
  - rewrite Hign. simpl. rewrite andb_false_r. reflexivity.
Qed.

(* ---------- the whole stream ---------- *)
Definition no_pm_cut (piece rest : list N) (c : chunk) : Prop :=
  exists lines L, piece = concat lines ++ L /\ Forall line_ok lines /\ line_ok L /\
    let '(r, d) := rrun RCode 0 (concat lines) (peek (L ++ rest)) in ~ ends_in_pm_run r d L (peek rest).

Lemma continuation_kept_pm inp allc v1 cs st :
  bare_hash RCode inp = false -> read_stream allc v1 (split_nl inp) = (cs, st) -> cuts no_pm_cut inp cs.
Proof.
  intros H E. destruct (read_stream_spec inp allc v1 H) as (cs' & A & _ & C).
  rewrite A in E. injection E as <- _.
  eapply cuts_impl; [|exact C]. intros a b c (consumed & d & o & _ & -> & _ & _ & Hci).
  destruct Hci as (c0 & L & sL & bufL & s1 & acc1 & -> & Hci).
  exists c0, L. rewrite concat_app. simpl. rewrite app_nil_r. split; [reflexivity|].
  destruct (rrun RCode 0 (concat c0) (peek (L ++ b))) as [rL dL].
  destruct Hci as (X1 & X2 & X3 & X4 & X5 & X6 & X7 & X8 & Hrun & _ & Hig & _).
  split; [exact X7|]. split; [exact X8|].
  intros Hop. destruct (line_pm_ign L b sL _ rL dL s1 acc1 o X8 X1 X2 X3 X4 X5 X6 Hop Hrun) as [T _]. congruence.
Qed.

(* what the rule does not cover: after "<" the first '-' belongs to the token "<-", so in Go "c <--" ends in a unary
   minus and the statement goes on; the reader pairs the two '-' to a complete "--" and cuts there *)
Lemma arrow_minus_cut :
  map (fun c => (length (c_src c), c_err c)) (fst (read_stream false false (split_nl [99; 32; 60; 45; 45; 10; 49; 10]%N)))
  = [(6%nat, ENone); (2%nat, ENone)].
Proof. vm_compute. reflexivity. Qed.

(* C26 — lemmas, part 5: the offset bookkeeping of foundtoken (firstToken / lastToken) and the keyword rule.
   Invariant Tok (kept by every byte step and every line of rm_loop):
     firstToken < len(buf)  (so: firstToken = -1 or it is the offset of a byte already read)  and  buf is empty
     or ends in '\n';
   within a line: firstToken, once >= 0, never changes; a lower-case word met in code sets lastToken to the
   offset of its last byte and leaves 0 <= firstToken <= offset of its first byte; white space and comments
   after it change neither. *)
From Coq Require Import List NArith ZArith Bool Lia.
From Verif Require Import Common.GoStr C26.Model C26.Spec C26.Spec2 C26.Proof C26.Proof2 C26.Proof3 C26.Proof4.
Import ListNotations.
Open Scope Z_scope.

Local Transparent post set_m set_paren set_ign foundtoken.

(* ---------- small tactics ---------- *)
Ltac red_step :=
  cbn [step normal binop post foundtoken set_m set_ign set_paren s_m s_paren s_ign s_first s_last fst snd is_space resetnl].

Ltac split_ifs :=
  repeat (match goal with
          | |- context [if ?b then _ else _] =>
              lazymatch b with
              | context [if _ then _ else _] => fail
              | _ => let E := fresh "E" in destruct b eqn:E
              end
          end; red_step).

Ltac zb :=
  repeat match goal with
         | H : (_ <? _) = true |- _ => apply Z.ltb_lt in H
         | H : (_ <? _) = false |- _ => apply Z.ltb_ge in H
         | H : (_ <=? _) = true |- _ => apply Z.leb_le in H
         | H : (_ <=? _) = false |- _ => apply Z.leb_gt in H
         end.

(* ---------- keyword lookup ---------- *)
Lemma kw_lookup_spec v1 w : kw_ignores_nl v1 w = true <-> is_kw v1 w.
Proof.
  unfold kw_ignores_nl, is_kw. rewrite orb_true_iff, existsb_exists, andb_true_iff, str_eqb_eq.
  split.
  - intros [(x & Hin & Heq)|[Hv Heq]].
    + apply str_eqb_eq in Heq. subst x. left. exact Hin.
    + right. split; assumption.
  - intros [Hin|[Hv Heq]].
    + left. exists w. split; [exact Hin|]. apply str_eqb_eq. reflexivity.
    + right. split; assumption.
Qed.

Lemma kw_lookup_list w : kw_ignores_nl false w = true <-> In w kw_list.
Proof.
  rewrite kw_lookup_spec. unfold is_kw. split; [intros [H|[H _]]; [exact H|discriminate]|auto].
Qed.

Definition lower_word (w : list N) : bool := match w with [] => false | _ :: _ => forallb is_lower w end.

Lemma kw_list_lower : forallb lower_word (kw_template :: kw_list) = true.
Proof. vm_compute. reflexivity. Qed.

Lemma is_kw_lower v1 w : is_kw v1 w -> w <> [] /\ forallb is_lower w = true.
Proof.
  intros H. pose proof kw_list_lower as HL. rewrite forallb_forall in HL.
  assert (Hin : In w (kw_template :: kw_list)).
  { destruct H as [H|[_ ->]]; [right; exact H|left; reflexivity]. }
  specialize (HL w Hin). destruct w; [discriminate|]. split; [discriminate|exact HL].
Qed.

Lemma is_lower_other ch : is_lower ch = true -> classify ch = COther.
Proof.
  unfold is_lower. rewrite andb_true_iff, !N.leb_le. intros [A B].
  classify_cases ch; first [reflexivity | exfalso; lia].
Qed.

Lemma is_lower_not_space ch : is_lower ch = true -> (ch <=? 32)%N = false.
Proof.
  unfold is_lower. rewrite andb_true_iff, !N.leb_le. intros [A B]. apply N.leb_gt. lia.
Qed.

(* ---------- lists ---------- *)
Lemma firstn_length_app {A} (x y : list A) : firstn (length x) (x ++ y) = x.
Proof. induction x as [|a x IH]; simpl; [destruct y; reflexivity|]. rewrite IH. reflexivity. Qed.

Lemma skipn_app_le {A} n : forall (x y : list A), (n <= length x)%nat -> skipn n (x ++ y) = skipn n x ++ y.
Proof.
  induction n as [|n IH]; intros x y H; [reflexivity|].
  destruct x as [|a x]; [simpl in H; lia|]. simpl. apply IH. simpl in H. lia.
Qed.

Lemma hd_nonlower_app l m : hd_nonlower (l ++ m) -> hd_nonlower l.
Proof. destruct l; simpl; auto. Qed.

Lemma hd_nonlower_rev_skipn n : forall x, hd_nonlower (rev x) -> hd_nonlower (rev (skipn n x)).
Proof.
  induction n as [|n IH]; intros x H; [exact H|].
  destruct x as [|a x]; [exact H|]. simpl skipn. apply IH. simpl in H. eapply hd_nonlower_app; eauto.
Qed.

Lemma forallb_rev {A} (f : A -> bool) l : forallb f l = true -> forallb f (rev l) = true.
Proof. rewrite !forallb_forall. intros H x Hx. apply H. apply in_rev. exact Hx. Qed.

Lemma take_lower_app u : forall rx, forallb is_lower u = true -> hd_nonlower rx -> take_lower (u ++ rx) = u.
Proof.
  induction u as [|c u IH]; intros rx Hu Hrx.
  - simpl. destruct rx as [|b rx]; [reflexivity|]. simpl in *. rewrite Hrx. reflexivity.
  - simpl in Hu. apply andb_true_iff in Hu. destruct Hu as [Hc Hu]. simpl. rewrite Hc, IH; auto.
Qed.

Lemma last_word_lower u rx :
  u <> [] -> forallb is_lower u = true -> hd_nonlower rx -> last_word_rev (u ++ rx) = Some u.
Proof.
  intros Hne Hu Hrx. destruct u as [|c u]; [contradiction|].
  pose proof Hu as Hu'. simpl in Hu'. apply andb_true_iff in Hu'. destruct Hu' as [Hc _].
  change ((c :: u) ++ rx) with (c :: (u ++ rx)). unfold last_word_rev. fold last_word_rev.
  rewrite (is_lower_not_space _ Hc), Hc.
  change (c :: u ++ rx) with ((c :: u) ++ rx). rewrite take_lower_app; auto.
Qed.

(* the keyword test on a buffer  x ++ w ++ t :  w a continuation keyword, the byte before it not a lower-case
   letter, lastToken = offset of the last byte of w, 0 <= firstToken <= offset of its first byte *)
Lemma lastIsKw_word v1 x w t first :
  hd_nonlower (rev x) -> is_kw v1 w -> (1 <= length t)%nat -> 0 <= first <= Z.of_nat (length x) ->
  lastIsKw v1 (x ++ w ++ t) first (Z.of_nat (length x) + Z.of_nat (length w) - 1) = true.
Proof.
  intros Hx Hkw Ht Hf. destruct (is_kw_lower _ _ Hkw) as [Hne Hlow].
  assert (Hlw : (1 <= length w)%nat) by (destruct w; [contradiction|simpl; lia]).
  unfold lastIsKw.
  set (la := Z.of_nat (length x) + Z.of_nat (length w) - 1).
  assert (E1 : (0 <=? la) && (la <? Z.of_nat (length (x ++ w ++ t))) = true).
  { apply andb_true_iff. split; [apply Z.leb_le|apply Z.ltb_lt]; unfold la; rewrite ?app_length; lia. }
  rewrite E1.
  assert (E2 : firstn (Z.to_nat (la + 1)) (x ++ w ++ t) = x ++ w).
  { replace (Z.to_nat (la + 1)) with (length (x ++ w)) by (unfold la; rewrite app_length; lia).
    rewrite app_assoc. apply firstn_length_app. }
  rewrite E2.
  assert (E3 : (0 <=? first) && (first <=? Z.of_nat (length (x ++ w))) = true).
  { apply andb_true_iff. split; apply Z.leb_le; rewrite ?app_length; lia. }
  rewrite E3.
  rewrite skipn_app_le by lia. rewrite rev_app_distr.
  rewrite last_word_lower.
  - rewrite rev_involutive. apply kw_lookup_spec. exact Hkw.
  - intros E. apply (f_equal (@rev N)) in E. rewrite rev_involutive in E. simpl in E. contradiction.
  - apply forallb_rev. exact Hlow.
  - apply hd_nonlower_rev_skipn. exact Hx.
Qed.

(* ---------- one byte: firstToken ---------- *)
Lemma step_first_lt s p c : s_first s < p -> s_first (fst (step s p c)) < p + 1.
Proof.
  destruct s as [m pa ig f la]. cbn [s_first]. intros H.
  destruct m, c; red_step; split_ifs; zb; lia.
Qed.

Lemma step_rw_hash s p c : snd (step s p c) = true -> s_m s = mHash.
Proof. destruct s as [m pa ig f la]. destruct m, c; cbn; intros H; try discriminate H; reflexivity. Qed.

Lemma step_nl_rw s p : snd (step s p CNl) = false.
Proof. destruct s as [m pa ig f la]. destruct m; reflexivity. Qed.

(* a lower-case letter (class COther) met in code *)
Definition code_mode (m : mode) : Prop := m = mNormal \/ m = mPlus \/ m = mMinus \/ m = mSlash.

Lemma step_lower s p :
  code_mode (s_m s) -> 0 <= p -> s_first s < p ->
  let s' := fst (step s p COther) in
  snd (step s p COther) = false /\ s_m s' = mNormal /\ s_last s' = p /\
  0 <= s_first s' <= p /\ (0 <= s_first s -> s_first s' = s_first s).
Proof.
  destruct s as [m pa ig f la]. cbn [s_m s_first]. intros Hm Hp Hf.
  destruct Hm as [-> | [-> | [-> | ->]]]; red_step; split_ifs; zb; repeat split; try reflexivity; lia.
Qed.

(* white space and comments: no token *)
Lemma quiet_step_tok s p c r nx :
  R (s_m s) r (Some c) -> hash_fine r c nx -> (s_m s = mSlash -> r <> RCode) ->
  quiet1 r c (rstep r c nx) = true ->
  let s' := fst (step s p c) in
  s_first s' = s_first s /\ s_last s' = s_last s /\ (s_m s' = mSlash -> rstep r c nx <> RCode).
Proof.
  destruct s as [m pa ig f la]. simpl. intros HR HF HS HQ.
  destruct m, c; simpl in HR; try (match type of HR with _ /\ _ => destruct HR as [HR HN]; try discriminate HN end); subst;
    simpl in HQ; try discriminate;
    try (exfalso; apply HS; reflexivity);
    try (unfold hash_fine in HF; specialize (HF eq_refl eq_refl); subst nx);
    cbn; repeat split; try reflexivity; try (intros X; discriminate X).
  all: try (destruct nx as [[]|]; simpl in HQ; try discriminate HQ; intros _; discriminate).
Qed.

(* ---------- runs of bytes ---------- *)
Lemma run_first_lt l : forall s p acc s' acc',
  run_line s p acc l = Some (s', acc') -> s_first s < p -> s_first s' < p + Z.of_nat (length l).
Proof.
  induction l as [|ch l IH]; intros s p acc s' acc' Hrun Hf.
  - simpl in Hrun. injection Hrun as <- _. simpl. lia.
  - destruct (run_line_cons_some _ _ _ _ _ _ _ Hrun) as (acc1 & Hrun').
    specialize (IH _ _ _ _ _ Hrun' (step_first_lt s p (classify ch) Hf)).
    simpl length. rewrite Nat2Z.inj_succ. lia.
Qed.

(* the bytes pushed by a run that does not start in mode mHash sit on top of the old ones *)
Lemma run_acc_prefix l : forall s p pre acc s' acc',
  run_line s p (pre ++ acc) l = Some (s', acc') -> (s_m s = mHash -> pre <> []) ->
  exists t2, acc' = t2 ++ acc /\ length t2 = (length pre + length l)%nat.
Proof.
  induction l as [|ch l IH]; intros s p pre acc s' acc' Hrun Hh.
  - simpl in Hrun. injection Hrun as _ <-. exists pre. split; [reflexivity|simpl; lia].
  - simpl in Hrun. destruct (step s p (classify ch)) as [s1 rw] eqn:Est. destruct rw.
    + assert (Hm : s_m s = mHash) by (apply (step_rw_hash s p (classify ch)); rewrite Est; reflexivity).
      specialize (Hh Hm). destruct pre as [|b pre]; [contradiction|]. simpl in Hrun.
      change (47%N :: 47%N :: pre ++ acc) with ((47%N :: 47%N :: pre) ++ acc) in Hrun.
      destruct (IH _ _ _ _ _ _ Hrun) as (t2 & E & Hl); [intros _; discriminate|].
      exists t2. split; [exact E|]. rewrite Hl. simpl. lia.
    + change (ch :: pre ++ acc) with ((ch :: pre) ++ acc) in Hrun.
      destruct (IH _ _ _ _ _ _ Hrun) as (t2 & E & Hl); [intros _; discriminate|].
      exists t2. split; [exact E|]. rewrite Hl. simpl. lia.
Qed.

(* the last byte pushed is the byte read or the second '/' of a rewritten "#!" *)
Lemma run_acc_hd l s p acc s' acc' :
  run_line s p acc l = Some (s', acc') -> l <> [] -> hd_nonlower (rev l) -> hd_nonlower acc'.
Proof.
  intros Hrun Hne Hhd. destruct (exists_last Hne) as (l0 & y & ->).
  rewrite rev_app_distr in Hhd. simpl in Hhd.
  rewrite run_line_app in Hrun. destruct (run_line s p acc l0) as [[s0 acc0]|]; [|discriminate].
  simpl in Hrun. destruct (step s0 _ (classify y)) as [s1 rw]. destruct rw.
  - destruct acc0; [discriminate|]. injection Hrun as _ <-. reflexivity.
  - injection Hrun as _ <-. exact Hhd.
Qed.

Lemma run_acc_nl seg s p acc s' acc' :
  run_line s p acc (seg ++ [10%N]) = Some (s', acc') -> exists acc0, acc' = 10%N :: acc0.
Proof.
  intros Hrun. rewrite run_line_app in Hrun. destruct (run_line s p acc seg) as [[s0 acc0]|]; [|discriminate].
  simpl in Hrun. change (classify 10%N) with CNl in Hrun.
  pose proof (step_nl_rw s0 (p + Z.of_nat (length seg))) as Hrw.
  destruct (step s0 _ CNl) as [s1 rw]. simpl in Hrw. subst rw. injection Hrun as _ <-. eauto.
Qed.

(* a lower-case word met in code *)
Lemma run_word_tail w : forall s p acc s' acc',
  forallb is_lower w = true -> s_m s = mNormal -> 0 <= p -> 0 <= s_first s < p ->
  run_line s p acc w = Some (s', acc') ->
  acc' = rev w ++ acc /\ s_m s' = mNormal /\ s_first s' = s_first s /\
  s_last s' = match w with [] => s_last s | _ :: _ => p + Z.of_nat (length w) - 1 end.
Proof.
  induction w as [|ch w IH]; intros s p acc s' acc' Hlow Hm Hp Hf Hrun.
  - simpl in Hrun. injection Hrun as <- <-. auto.
  - simpl in Hlow. apply andb_true_iff in Hlow. destruct Hlow as [Hc Hlow].
    simpl in Hrun. rewrite (is_lower_other _ Hc) in Hrun.
    destruct (step_lower s p) as (Hrw & Hm1 & Hl1 & Hf1 & Hf1'); [left; exact Hm|exact Hp|lia|].
    destruct (step s p COther) as [s1 rw]. simpl in Hrw, Hm1, Hl1, Hf1, Hf1'. subst rw.
    specialize (Hf1' (proj1 Hf)).
    assert (Hp1 : 0 <= p + 1) by lia.
    assert (Hf2 : 0 <= s_first s1 < p + 1) by lia.
    destruct (IH _ _ _ _ _ Hlow Hm1 Hp1 Hf2 Hrun) as (Ea & Em & Efi & Ela).
    split; [rewrite Ea; simpl; rewrite <- app_assoc; reflexivity|].
    split; [exact Em|]. split; [congruence|].
    rewrite Ela. destruct w as [|ch2 w]; [simpl; lia|]. simpl length. rewrite !Nat2Z.inj_succ. lia.
Qed.

Lemma run_word w s p acc s' acc' :
  w <> [] -> forallb is_lower w = true -> code_mode (s_m s) -> 0 <= p -> s_first s < p ->
  run_line s p acc w = Some (s', acc') ->
  acc' = rev w ++ acc /\ s_m s' = mNormal /\ 0 <= s_first s' <= p /\ s_last s' = p + Z.of_nat (length w) - 1.
Proof.
  intros Hne Hlow Hm Hp Hf Hrun. destruct w as [|ch w]; [contradiction|].
  simpl in Hlow. apply andb_true_iff in Hlow. destruct Hlow as [Hc Hlow].
  simpl in Hrun. rewrite (is_lower_other _ Hc) in Hrun.
  destruct (step_lower s p Hm Hp Hf) as (Hrw & Hm1 & Hl1 & Hf1 & _).
  destruct (step s p COther) as [s1 rw]. simpl in Hrw, Hm1, Hl1, Hf1. subst rw.
  assert (Hp1 : 0 <= p + 1) by lia.
  assert (Hf2 : 0 <= s_first s1 < p + 1) by lia.
  destruct (run_word_tail w _ _ _ _ _ Hlow Hm1 Hp1 Hf2 Hrun) as (Ea & Em & Efi & Ela).
  split; [rewrite Ea; simpl; rewrite <- app_assoc; reflexivity|].
  split; [exact Em|]. split; [lia|].
  rewrite Ela. destruct w as [|ch2 w]; [simpl; lia|]. simpl length. rewrite !Nat2Z.inj_succ. lia.
Qed.

(* white space and comments up to the end of the line leave firstToken and lastToken alone *)
Lemma run_quiet_tok t : forall rest s p acc r s' acc',
  ~ In 10%N t -> R (s_m s) r (peek ((t ++ [10%N]) ++ rest)) -> bare_hash r ((t ++ [10%N]) ++ rest) = false ->
  (s_m s = mSlash -> r <> RCode) -> quiet r (t ++ [10%N]) (peek rest) = true ->
  run_line s p acc (t ++ [10%N]) = Some (s', acc') -> s_first s' = s_first s /\ s_last s' = s_last s.
Proof.
  induction t as [|ch t IH]; intros rest s p acc r s' acc' Hnl HR HB HS HQ Hrun.
  - simpl in *. apply andb_true_iff in HQ. destruct HQ as [HQ _].
    destruct (bare_hash_cons _ _ _ HB) as [HF _].
    rewrite (run_line_single _ _ _ _ _ _ Hrun).
    destruct (quiet_step_tok s p _ r _ HR HF HS HQ) as (A & B & _). split; assumption.
  - simpl app in *.
    assert (Hpk : match t ++ [10%N] with [] => peek rest | _ :: _ => peek (t ++ [10%N]) end = peek ((t ++ [10%N]) ++ rest)).
    { destruct t; reflexivity. }
    simpl in HQ. rewrite Hpk in HQ. apply andb_true_iff in HQ. destruct HQ as [HQ1 HQ2].
    destruct (bare_hash_cons _ _ _ HB) as [HF HB'].
    destruct (run_line_cons_some _ _ _ _ _ _ _ Hrun) as (acc1 & Hrun').
    simpl in HR.
    destruct (step_sim s p (classify ch) r _ HR HF) as (HR' & _ & _).
    destruct HR' as [HR'|(Hc & _)].
    2:{ apply classify_nl in Hc. exfalso. apply Hnl. left. auto. }
    destruct (quiet_step_tok s p _ r _ HR HF HS HQ1) as (A & B & C).
    destruct (IH rest _ _ _ _ _ _ (fun H => Hnl (or_intror H)) HR' HB' C HQ2 Hrun') as (A' & B').
    split; congruence.
Qed.

(* ---------- the invariant between lines ---------- *)
Definition Tok (s : st) (buf : list N) : Prop :=
  s_first s < Z.of_nat (length buf) /\ (buf = [] \/ exists x, buf = x ++ [10%N]).

Lemma Tok_start : Tok st0 [].
Proof. split; [simpl; lia|left; reflexivity]. Qed.

Lemma eolpm_first s : s_first (eol_reset_plusminus s) = s_first s.
Proof. unfold eol_reset_plusminus. destruct (s_m s); reflexivity. Qed.

Lemma Tok_line s buf seg s1 acc1 s3 :
  Tok s buf -> run_line s (Z.of_nat (length buf)) [] (seg ++ [10%N]) = Some (s1, acc1) ->
  length acc1 = length (seg ++ [10%N]) -> s_first s3 = s_first s1 -> Tok s3 (buf ++ rev acc1).
Proof.
  intros [Hf _] Hrun Hlen E3. split.
  - rewrite E3, app_length, rev_length, Hlen, Nat2Z.inj_add. eapply run_first_lt; eauto.
  - right. destruct (run_acc_nl _ _ _ _ _ _ Hrun) as (acc0 & ->). exists (buf ++ rev acc0).
    simpl. rewrite app_assoc. reflexivity.
Qed.

Lemma line_ok_split2 L x t :
  line_ok L -> L = x ++ t -> t <> [] -> exists t', t = t' ++ [10%N] /\ ~ In 10%N x /\ ~ In 10%N t'.
Proof.
  intros (seg & -> & Hseg) E Hne. destruct (exists_last Hne) as (t' & y & ->).
  rewrite app_assoc in E. apply app_inj_tail in E. destruct E as [E Ey]. subst seg y.
  exists t'. split; [reflexivity|]. split; intros H; apply Hseg; apply in_or_app; [left|right]; exact H.
Qed.

(* ---------- a line whose last token is a continuation keyword: the keyword test answers true ---------- *)
Lemma line_kw L rest s bufL r d s1 acc1 v1 :
  line_ok L -> R (s_m s) r (peek (L ++ rest)) -> s_m s <> mHash -> s_paren s = d ->
  bare_hash r (L ++ rest) = false -> Tok s bufL ->
  ends_in_kw v1 r d L (peek rest) ->
  run_line s (Z.of_nat (length bufL)) [] L = Some (s1, acc1) ->
  (0 <=? s_first s1) && lastIsKw v1 (bufL ++ rev acc1) (s_first s1) (s_last s1) = true.
Proof.
  intros HL HR Hh Hd HB [HTf HTb] (a & w & t & -> & (d' & Hrr) & Hkw & Hhd & HQ) Hrun.
  destruct (is_kw_lower _ _ Hkw) as [Hne Hlow].
  set (p := Z.of_nat (length bufL)) in *.
  (* t is not empty: the line ends in '\n', w does not *)
  assert (Htne : t <> []).
  { intros ->. rewrite app_nil_r in HL. destruct HL as (seg & E & _).
    destruct (exists_last Hne) as (w0 & y & ->). rewrite app_assoc in E. apply app_inj_tail in E. destruct E as [_ ->].
    rewrite forallb_app in Hlow. apply andb_true_iff in Hlow. destruct Hlow as [_ Hy]. discriminate Hy. }
  destruct (line_ok_split2 _ (a ++ w) t HL (app_assoc _ _ _) Htne) as (t' & -> & Haw & Ht').
  assert (Ha : ~ In 10%N a) by (intros H; apply Haw; apply in_or_app; left; exact H).
  destruct w as [|w0 ws] eqn:Ew; [contradiction|]. rewrite <- Ew in *.
  assert (Hc0 : classify w0 = COther).
  { apply is_lower_other. rewrite Ew in Hlow. simpl in Hlow. apply andb_true_iff in Hlow. tauto. }
  (* the bytes before the word *)
  set (tl := t' ++ [10%N]) in *. rewrite <- !app_assoc in HR, HB. subst tl.
  pose proof (J_start s r (a ++ w ++ (t' ++ [10%N]) ++ rest) Hh) as HJ.
  destruct (run_seg a (w ++ (t' ++ [10%N]) ++ rest) s p [] r d _ Ha HR Hd HB HJ) as (sa & acca & Hruna & H1).
  assert (Epk : peek (w ++ (t' ++ [10%N]) ++ rest) = peek (w ++ t' ++ [10%N])) by (rewrite Ew; reflexivity).
  rewrite Epk, Hrr in H1. destruct H1 as (HRa & _ & HBa & _ & Hla). simpl in Hla.
  assert (Hfa : s_first sa < p + Z.of_nat (length a)) by (eapply run_first_lt; eauto).
  assert (Hxa : hd_nonlower (rev (bufL ++ rev acca))).
  { rewrite rev_app_distr, rev_involutive.
    destruct a as [|a0 a1].
    - simpl in Hruna. injection Hruna as _ <-. simpl.
      destruct HTb as [->|(x & ->)]; [exact I|]. rewrite rev_app_distr. reflexivity.
    - assert (Hh' : hd_nonlower acca) by (eapply run_acc_hd; eauto; discriminate).
      destruct acca; [discriminate Hla|]. exact Hh'. }
  (* the word *)
  rewrite run_line_app, Hruna in Hrun.
  rewrite run_line_app in Hrun.
  destruct (run_line sa (p + Z.of_nat (length a)) acca w) as [[sw accw]|] eqn:Hrunw; [|discriminate].
  assert (Hcm : code_mode (s_m sa)).
  { rewrite Ew in HRa. simpl in HRa. rewrite Hc0 in HRa. unfold code_mode.
    destruct (s_m sa); simpl in HRa; try discriminate; try (destruct HRa; discriminate); auto. }
  assert (Hpa : 0 <= p + Z.of_nat (length a)) by (unfold p; lia).
  destruct (run_word w sa _ acca sw accw Hne Hlow Hcm Hpa Hfa Hrunw) as (Eacc & Emw & Hfw & Hlw).
  (* white space and comments *)
  assert (HRw : R (s_m sw) RCode (peek ((t' ++ [10%N]) ++ rest))) by (rewrite Emw; reflexivity).
  assert (HBw : bare_hash RCode ((t' ++ [10%N]) ++ rest) = false).
  { clear - HBa Hlow. revert HBa. generalize ((t' ++ [10%N]) ++ rest) as tl.
    induction w as [|c w IH]; intros tl H; [exact H|].
    simpl in Hlow. apply andb_true_iff in Hlow. destruct Hlow as [Hc Hlow].
    change ((c :: w) ++ tl) with (c :: (w ++ tl)) in H. destruct (bare_hash_cons _ _ _ H) as [_ H'].
    rewrite (is_lower_other _ Hc) in H'. simpl in H'. apply IH; assumption. }
  assert (HSw : s_m sw = mSlash -> RCode <> RCode) by (rewrite Emw; discriminate).
  destruct (run_quiet_tok t' rest sw _ accw RCode s1 acc1 Ht' HRw HBw HSw HQ Hrun) as (Ef1 & El1).
  destruct (run_acc_prefix (t' ++ [10%N]) sw _ [] accw s1 acc1 Hrun) as (t2 & Eacc1 & Hl2).
  { rewrite Emw. discriminate. }
  (* the buffer *)
  assert (Ebuf : bufL ++ rev acc1 = (bufL ++ rev acca) ++ w ++ rev t2).
  { rewrite Eacc1, Eacc, !rev_app_distr, rev_involutive, <- !app_assoc. reflexivity. }
  assert (Hlx : Z.of_nat (length (bufL ++ rev acca)) = p + Z.of_nat (length a)).
  { rewrite app_length, rev_length, Hla, Nat2Z.inj_add. reflexivity. }
  rewrite Ef1, El1, Ebuf, Hlw, <- Hlx.
  replace (0 <=? s_first sw) with true by (symmetry; apply Z.leb_le; lia).
  simpl andb. apply lastIsKw_word; auto.
  - rewrite rev_length, Hl2, app_length. simpl. lia.
  - lia.
Qed.

(* ---------- the chunk loop ---------- *)
(* what is known about a chunk that was cut: its last line L started in state sL with buffer bufL, the invariant
   held there, and the keyword test on the whole buffer said no *)
Definition cut_tok (o : opts) (r : rstate) (d : Z) (rl rl' : list (list N)) (c : chunk) : Prop :=
  exists consumed0 L sL bufL s1 acc1 rL dL, rl = consumed0 ++ L :: rl' /\
    rrun r d (concat consumed0) (peek (L ++ concat rl')) = (rL, dL) /\
    R (s_m sL) rL (peek (L ++ concat rl')) /\ s_m sL <> mHash /\ s_paren sL = dL /\
    bare_hash rL (L ++ concat rl') = false /\ Forall line_ok consumed0 /\ line_ok L /\ Tok sL bufL /\
    run_line sL (Z.of_nat (length bufL)) [] L = Some (s1, acc1) /\ c_src c = bufL ++ rev acc1 /\
    (0 <=? s_first s1) && lastIsKw (o_v1cxx o) (c_src c) (s_first s1) (s_last s1) = false.

Lemma rm_loop_tok o : forall rl s buf r d c rl',
  rl <> [] -> lines_wf rl -> R (s_m s) r (peek (concat rl)) -> s_m s <> mHash -> s_paren s = d ->
  bare_hash r (concat rl) = false -> Tok s buf ->
  rm_loop o rl s buf = Some (c, rl') -> c_err c = ENone -> cut_tok o r d rl rl' c.
Proof.
  induction rl as [|l rest IH]; intros s buf r d c rl' Hne Hwf HR Hm Hd HB HT Hrm Herr; [contradiction|].
  destruct rest as [|l2 rest2].
  - (* the last line: err != nil *)
    exfalso. simpl in Hrm. destruct (run_line s (Z.of_nat (length buf)) [] l) as [[s1 acc1]|]; [|discriminate].
    injection Hrm as <- _. simpl in Herr. unfold eof_err in Herr. destruct (0 <? _); discriminate.
  - remember (l2 :: rest2) as rest eqn:Erest.
    assert (Hwf' : line_ok l /\ lines_wf rest) by (rewrite Erest; rewrite Erest in Hwf; exact Hwf). destruct Hwf' as [Hl Hwr].
    pose proof Hl as Hl0.
    destruct Hl as (seg & -> & Hseg).
    change (concat ((seg ++ [10%N]) :: rest)) with ((seg ++ [10%N]) ++ concat rest) in *.
    destruct (full_line seg (concat rest) s (Z.of_nat (length buf)) r d Hseg HR Hm Hd HB) as (s1 & acc1 & Hrun & H1).
    destruct (rrun r d (seg ++ [10%N]) (peek (concat rest))) as [r1 d1] eqn:Er1.
    cbv zeta in H1. destruct H1 as (HR1 & Hm1 & Hd1 & HB1 & Hout & Hlen & Hig & Hfi & Hla).
    set (s2 := eol_reset_comment s1) in *.
    assert (Hunf : rm_loop o ((seg ++ [10%N]) :: rest) s buf =
                   if may_stop o s2 then
                     if (0 <=? s_first s2) && lastIsKw (o_v1cxx o) (buf ++ rev acc1) (s_first s2) (s_last s2)
                     then rm_loop o rest (eol_reset_plusminus (set_ign s2 true)) (buf ++ rev acc1)
                     else Some (mkChunk (buf ++ rev acc1) (s_first s2) ENone, rest)
                   else rm_loop o rest (eol_reset_plusminus s2) (buf ++ rev acc1)).
    { rewrite Erest. simpl. rewrite Hrun. reflexivity. }
    assert (Hcont : forall s3, s_m s3 = s_m (eol_reset_plusminus s2) -> s_paren s3 = s_paren s2 -> s_first s3 = s_first s1 ->
              rm_loop o rest s3 (buf ++ rev acc1) = Some (c, rl') -> cut_tok o r d ((seg ++ [10%N]) :: rest) rl' c).
    { intros s3 Em3 Ep3 Ef3 Hrm3.
      assert (HT3 : Tok s3 (buf ++ rev acc1)) by (eapply Tok_line; eauto).
      destruct (IH s3 (buf ++ rev acc1) r1 d1 c rl') as (c0 & L & sL & bufL & sl1 & accl1 & rL & dL & Hc0 & Hrr & Hci); auto.
      - rewrite Erest. discriminate.
      - rewrite Em3. apply R_eolpm. exact HR1.
      - rewrite Em3. apply nohash_eolpm. exact Hm1.
      - congruence.
      - exists ((seg ++ [10%N]) :: c0), L, sL, bufL, sl1, accl1, rL, dL.
        split; [rewrite Hc0; reflexivity|]. split.
        + simpl concat. rewrite rrun_app.
          assert (Ecat2 : concat c0 ++ L ++ concat rl' = concat rest).
          { rewrite Hc0, concat_app. simpl. reflexivity. }
          rewrite Ecat2, Er1. exact Hrr.
        + destruct Hci as (Y1 & Y2 & Y3 & Y4 & Y5 & Yrest).
          repeat (split; [assumption|]). split; [constructor; assumption|]. exact Yrest. }
    rewrite Hunf in Hrm.
    destruct (may_stop o s2) eqn:Ems.
    + destruct ((0 <=? s_first s2) && lastIsKw (o_v1cxx o) (buf ++ rev acc1) (s_first s2) (s_last s2)) eqn:Ekw.
      * apply Hcont in Hrm; auto; rewrite ?eolpm_m, ?eolpm_paren, ?eolpm_first; autorewrite with st; auto.
      * injection Hrm as <- <-.
        exists [], (seg ++ [10%N]), s, buf, s1, acc1, r, d.
        split; [reflexivity|]. split; [reflexivity|]. simpl.
        repeat (split; [first [assumption | constructor]|]).
        rewrite <- Hfi, <- Hla. exact Ekw.
    + apply Hcont in Hrm; auto; rewrite ?eolpm_m, ?eolpm_paren, ?eolpm_first; autorewrite with st; auto.
Qed.

(* ---------- the whole stream ---------- *)
(* piece = complete lines ++ one last complete line, and the last token of that last line is not a continuation keyword *)
Definition no_kw_cut (v1 : bool) (piece rest : list N) (c : chunk) : Prop :=
  exists lines L, piece = concat lines ++ L /\ Forall line_ok lines /\ line_ok L /\
    let '(r, d) := rrun RCode 0 (concat lines) (peek (L ++ rest)) in ~ ends_in_kw v1 r d L (peek rest).

Lemma read_all_kw v1 : forall fuel rl allc cs stt,
  (length rl < fuel)%nat -> lines_wf rl -> bare_hash RCode (concat rl) = false ->
  read_all fuel allc v1 rl = (cs, stt) -> cuts (no_kw_cut v1) (concat rl) cs.
Proof.
  induction fuel as [|f IH]; intros rl allc cs stt Hf Hwf HB Hra; [lia|].
  simpl read_all in Hra. unfold ReadMultiline in Hra.
  destruct rl as [|l rest].
  - simpl in Hra. injection Hra as <- _. constructor.
  - set (rl := l :: rest) in *.
    destruct (rm_loop_spec (mkOpts allc v1) rl st0 [] RCode 0) as (c & rl' & consumed & Hrm & Hsplit & Hcne & Hwf' & H); auto;
      try reflexivity; try discriminate.
    rewrite Hrm in Hra.
    destruct (rrun RCode 0 (concat consumed) (peek (concat rl'))) as [r' d'] eqn:Err.
    destruct H as (HB' & Hout & Hlen & Hcase). simpl in Hout, Hlen.
    assert (Hlt : (length rl' < f)%nat).
    { assert (length rl = length consumed + length rl')%nat by (rewrite Hsplit, app_length; reflexivity).
      destruct consumed; [contradiction|]. simpl in *. lia. }
    assert (HBr : bare_hash RCode (concat rl') = false).
    { destruct Hcase as [(_ & _ & -> & _)|(_ & ->)]; [exact HB'|reflexivity]. }
    assert (Hgo : forall cs0 stt0, read_all f false v1 rl' = (cs0, stt0) -> cuts (no_kw_cut v1) (concat rl) (c :: cs0)).
    { intros cs0 stt0 Hra0.
      apply cuts_cons with (piece := concat consumed) (rest := concat rl').
      - rewrite Hsplit, concat_app. reflexivity.
      - symmetry. exact Hlen.
      - intros He.
        destruct (rm_loop_tok (mkOpts allc v1) rl st0 [] RCode 0 c rl') as
          (c0 & L & sL & bufL & s1 & acc1 & rL & dL & Hc0 & Hrr & X1 & X2 & X3 & X4 & X5 & X6 & X7 & Hrun & Hsrc & Hkw); auto;
          try reflexivity; try discriminate; try apply Tok_start.
        assert (Econs : consumed = c0 ++ [L]).
        { apply (app_inv_tail rl'). rewrite <- Hsplit, Hc0, <- app_assoc. reflexivity. }
        exists c0, L. split; [rewrite Econs, concat_app; simpl; rewrite app_nil_r; reflexivity|].
        split; [exact X5|]. split; [exact X6|].
        rewrite Hrr. intros Hek.
        pose proof (line_kw L (concat rl') sL bufL rL dL s1 acc1 v1 X6 X1 X2 X3 X4 X7 Hek Hrun) as Ht.
        rewrite Hsrc in Hkw. simpl in Hkw. congruence.
      - eapply IH; eauto. }
    destruct (c_src c) eqn:Esrc.
    + destruct (c_first c <? 0).
      * injection Hra as <- _. constructor.
      * destruct (read_all f false v1 rl') as [cs0 stt0] eqn:E0. injection Hra as <- _. eapply Hgo; eauto.
    + destruct (read_all f false v1 rl') as [cs0 stt0] eqn:E0. injection Hra as <- _. eapply Hgo; eauto.
Qed.

(* every non-final chunk: the last token (outside literals and comments) of its last line is not a
   continuation keyword *)
Lemma keyword_continuation inp allc v1 cs stt :
  bare_hash RCode inp = false -> read_stream allc v1 (split_nl inp) = (cs, stt) -> cuts (no_kw_cut v1) inp cs.
Proof.
  intros HB E. destruct (split_nl_spec inp) as (A & B & C).
  unfold read_stream in E. rewrite <- B.
  eapply (read_all_kw v1 _ (split_nl inp)); [| exact A | rewrite B; exact HB | exact E]. lia.
Qed.

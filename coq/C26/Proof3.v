(* C26 — lemmas, part 3: Go source (no '#' in code), continuation lines *)
From Coq Require Import List NArith ZArith Bool Lia.
From Verif Require Import Common.GoStr C26.Model C26.Spec C26.Proof C26.Proof2.
Import ListNotations.
Open Scope Z_scope.

Lemma no_hash_in_code r s : hash_in_code r s = false -> bare_hash r s = false /\ hb_rewrite r s = s.
Proof.
  revert r. induction s as [|ch s IH]; intros r H; [split; reflexivity|].
  simpl in H.
  assert (Hn : ~ (r = RCode /\ classify ch = CHash)).
  { intros [-> E]. rewrite E in H. discriminate. }
  assert (H' : hash_in_code (rstep r (classify ch) (peek s)) s = false).
  { destruct r; auto. destruct (classify ch); auto. discriminate. }
  destruct (IH _ H') as [A B]. split.
  - simpl. destruct r; auto. destruct (classify ch) eqn:E; auto. exfalso. apply Hn. auto.
  - rewrite hb_rewrite_cons by exact Hn. rewrite B. reflexivity.
Qed.

Lemma lossless inp allc v1 :
  bare_hash RCode inp = false ->
  exists cs, read_stream allc v1 (split_nl inp) = (cs, Done) /\ concat (map c_src cs) = hb_rewrite RCode inp.
Proof. intros H. destruct (read_stream_spec inp allc v1 H) as (cs & A & B & _). eauto. Qed.

(* Go source: no '#' outside literals and comments *)
Lemma lossless_go inp allc v1 :
  hash_in_code RCode inp = false ->
  exists cs, read_stream allc v1 (split_nl inp) = (cs, Done) /\ concat (map c_src cs) = inp.
Proof.
  intros H. destruct (no_hash_in_code _ _ H) as [A B].
  destruct (lossless inp allc v1 A) as (cs & C & D). exists cs. split; auto. congruence.
Qed.

(* ... preceded by a "#!" line *)
Lemma lossless_hashbang rest allc v1 :
  hash_in_code RLine rest = false ->
  exists cs, read_stream allc v1 (split_nl (35 :: 33 :: rest)%N) = (cs, Done) /\
             concat (map c_src cs) = (47 :: 47 :: rest)%N.
Proof.
  intros H. destruct (no_hash_in_code _ _ H) as [A B].
  assert (HB : bare_hash RCode (35 :: 33 :: rest)%N = false) by (simpl; exact A).
  destruct (lossless _ allc v1 HB) as (cs & C & D). exists cs. split; auto.
  rewrite D. simpl. rewrite B. reflexivity.
Qed.

Definition ends_in_code (piece rest : list N) (c : chunk) : Prop :=
  exists d, rrun RCode 0 piece (peek rest) = (RCode, d) /\ d <= 0.

Lemma never_inside inp allc v1 cs st :
  bare_hash RCode inp = false -> read_stream allc v1 (split_nl inp) = (cs, st) -> cuts ends_in_code inp cs.
Proof.
  intros H E. destruct (read_stream_spec inp allc v1 H) as (cs' & A & _ & C).
  rewrite A in E. injection E as <- _.
  eapply cuts_impl; [|exact C]. intros a b c (consumed & d & o & _ & _ & Hr & Hd & _). exists d. auto.
Qed.

(* the simulation for one complete line *)
Lemma line_sim seg rest s p r d :
  ~ In 10%N seg ->
  R (s_m s) r (peek ((seg ++ [10%N]) ++ rest)) -> s_m s <> mHash -> s_paren s = d ->
  bare_hash r ((seg ++ [10%N]) ++ rest) = false ->
  exists s' acc', run_line s p [] (seg ++ [10%N]) = Some (s', acc') /\
    let '(r', d') := rrun r d (seg ++ [10%N]) (peek rest) in
    R (s_m (eol_reset_comment s')) r' (peek rest) /\ s_paren (eol_reset_comment s') = d'.
Proof.
  intros A B C D E. destruct (full_line seg rest s p r d A B C D E) as (s' & acc' & F & G).
  exists s', acc'. split; auto. destruct (rrun r d (seg ++ [10%N]) (peek rest)). cbv zeta in G. destruct G as (G1 & _ & G3 & _). split; assumption.
Qed.

(* C26 — lemmas, part 4: lines that end in a continuation token *)
From Coq Require Import List NArith ZArith Bool Lia.
From Verif Require Import Common.GoStr C26.Model C26.Spec C26.Proof C26.Proof2 C26.Proof3.
Import ListNotations.
Open Scope Z_scope.

Local Transparent post set_m set_paren set_ign foundtoken.

(* pending continuation: ignorenl is set, or the machine is one byte behind a + - / operator *)
Definition Cont (s : st) (r : rstate) : Prop :=
  s_ign s = true \/ s_m s = mPlus \/ s_m s = mMinus \/ (s_m s = mSlash /\ r = RCode).

Lemma op_step s p c r nx :
  R (s_m s) r (Some c) -> r = RCode -> s_paren s = 0 -> is_cont_op c = true -> rstep RCode c nx = RCode ->
  (is_plusminus c = true -> s_m s <> mPlus /\ s_m s <> mMinus) ->
  Cont (fst (step s p c)) RCode.
Proof.
  destruct s as [m pa ig f la]. simpl. intros HR -> -> Hop Hst Hpm.
  unfold Cont.
  destruct m; simpl in HR; try discriminate; try (destruct HR; discriminate);
    destruct c; try discriminate; simpl in Hst;
    try (destruct (Hpm eq_refl) as [A B]; congruence);
    cbn; auto;
    try (destruct nx as [[]|]; discriminate).
Qed.

Lemma quiet_step s p c r nx :
  R (s_m s) r (Some c) -> hash_fine r c nx -> s_paren s = 0 -> Cont s r -> quiet1 r c (rstep r c nx) = true ->
  s_ign (fst (step s p c)) = true.
Proof.
  destruct s as [m pa ig f la]. simpl. intros HR HF -> HC HQ.
  unfold Cont in HC. simpl in HC.
  destruct m, c; simpl in HR; try (match type of HR with _ /\ _ => destruct HR as [HR HN]; try discriminate HN end); subst;
    simpl in HQ; try discriminate;
    try (unfold hash_fine in HF; specialize (HF eq_refl eq_refl); subst nx);
    cbn;
    try reflexivity;
    try (destruct HC as [HC|[HC|[HC|[HC HC']]]]; try discriminate; subst; reflexivity).
  all: try (destruct nx as [[]|]; simpl in HQ; try discriminate;
            destruct HC as [HC|[HC|[HC|[HC HC']]]]; try discriminate; subst; reflexivity).
Qed.

Lemma quiet1_depth r c nx d : quiet1 r c (rstep r c nx) = true -> rdepth_step r c d = d.
Proof. destruct r, c; simpl; intros H; try reflexivity; try discriminate; destruct nx as [[]|]; discriminate. Qed.

Lemma step_pm s p c : s_m (fst (step s p c)) = mPlus \/ s_m (fst (step s p c)) = mMinus -> is_plusminus c = true.
Proof.
  destruct s as [m pa ig f la]. rewrite step_mode_paren. simpl.
  destruct (pa =? 0); destruct m, c; step_simpl; cbn; autorewrite with st; intros [H|H]; try discriminate; reflexivity.
Qed.

Lemma run_line_cons_some s p acc ch t s' acc' :
  run_line s p acc (ch :: t) = Some (s', acc') ->
  exists acc1, run_line (fst (step s p (classify ch))) (p + 1) acc1 t = Some (s', acc').
Proof.
  simpl. destruct (step s p (classify ch)) as [s1 rw]. simpl. destruct rw.
  - destruct acc; [discriminate|]. eauto.
  - eauto.
Qed.

Lemma run_line_single s p acc ch s' acc' :
  run_line s p acc [ch] = Some (s', acc') -> s' = fst (step s p (classify ch)).
Proof. intros H. destruct (run_line_cons_some _ _ _ _ _ _ _ H) as (acc1 & E). simpl in E. congruence. Qed.

(* white space and comments up to the end of the line keep the pending continuation *)
Lemma run_quiet t : forall rest s p acc r s' acc',
  ~ In 10%N t -> R (s_m s) r (peek ((t ++ [10%N]) ++ rest)) -> bare_hash r ((t ++ [10%N]) ++ rest) = false ->
  s_paren s = 0 -> Cont s r -> quiet r (t ++ [10%N]) (peek rest) = true ->
  run_line s p acc (t ++ [10%N]) = Some (s', acc') -> s_ign s' = true.
Proof.
  induction t as [|ch t IH]; intros rest s p acc r s' acc' Hnl HR HB Hp HC HQ Hrun.
  - simpl in *. apply andb_true_iff in HQ. destruct HQ as [HQ _].
    destruct (bare_hash_cons _ _ _ HB) as [HF _].
    rewrite (run_line_single _ _ _ _ _ _ Hrun).
    eapply quiet_step; eauto.
  - simpl app in *.
    assert (Hpk : match t ++ [10%N] with [] => peek rest | _ :: _ => peek (t ++ [10%N]) end = peek ((t ++ [10%N]) ++ rest)).
    { destruct t; reflexivity. }
    simpl in HQ. rewrite Hpk in HQ. apply andb_true_iff in HQ. destruct HQ as [HQ1 HQ2].
    destruct (bare_hash_cons _ _ _ HB) as [HF HB'].
    destruct (run_line_cons_some _ _ _ _ _ _ _ Hrun) as (acc1 & Hrun').
    simpl in HR.
    destruct (step_sim s p (classify ch) r _ HR HF) as (HR' & Hp' & _).
    destruct HR' as [HR'|(Hc & _)].
    2:{ apply classify_nl in Hc. exfalso. apply Hnl. left. auto. }
    eapply (IH rest _ _ _ _ _ _ (fun H => Hnl (or_intror H)) HR' HB'); eauto.
    + rewrite Hp', Hp. eapply quiet1_depth; eauto.
    + left. eapply quiet_step; eauto.
Qed.

Lemma line_ok_split L a op t :
  line_ok L -> L = a ++ op :: t -> op <> 10%N ->
  exists t', t = t' ++ [10%N] /\ ~ In 10%N a /\ ~ In 10%N t'.
Proof.
  intros (seg & -> & Hseg) E Hop.
  destruct (exists_last (l := t)) as (t' & x & ->).
  - intros ->. change (a ++ [op]) with (a ++ [op]) in E. apply app_inj_tail in E. destruct E as [_ E]. congruence.
  - change (a ++ op :: t' ++ [x]) with (a ++ (op :: t') ++ [x]) in E. rewrite app_assoc in E.
    apply app_inj_tail in E. destruct E as [E Ex]. subst seg x.
    exists t'. split; [reflexivity|]. split; intros H; apply Hseg; apply in_or_app; [left|right; right]; exact H.
Qed.

Lemma is_cont_op_not_nl op : is_cont_op (classify op) = true -> op <> 10%N.
Proof. intros H ->. discriminate. Qed.

(* a line that ends in a binary operator or comma (then white space / comments) leaves ignorenl set:
   the end-of-line decision of ReadMultiline does not stop there *)
Lemma line_op_ign L rest s p r d s1 acc1 o :
  line_ok L -> R (s_m s) r (peek (L ++ rest)) -> s_m s <> mHash -> s_m s <> mPlus -> s_m s <> mMinus ->
  s_paren s = d -> bare_hash r (L ++ rest) = false ->
  ends_in_op r d L (peek rest) ->
  run_line s p [] L = Some (s1, acc1) ->
  s_ign s1 = true /\ may_stop o (eol_reset_comment s1) = false.
Proof.
  intros HL HR Hh Hpl Hmi Hd HB (a & op & t & -> & Hrr & Hop & Hst & Hpm & HQ) Hrun.
  destruct (line_ok_split _ a op t HL eq_refl (is_cont_op_not_nl _ Hop)) as (t' & -> & Ha & Ht').
  assert (Hign : s_ign s1 = true).
  { rewrite <- app_assoc in HR, HB. simpl app in HR, HB.
    pose proof (J_start s r (a ++ op :: (t' ++ [10%N]) ++ rest) Hh) as HJ.
    destruct (run_seg a (op :: (t' ++ [10%N]) ++ rest) s p [] r d _ Ha HR Hd HB HJ) as (sa & acca & Hruna & H1).
    simpl peek in H1. rewrite Hrr in H1. destruct H1 as (HRa & Hpa & HBa & _ & _).
    rewrite run_line_app, Hruna in Hrun.
    destruct (run_line_cons_some _ _ _ _ _ _ _ Hrun) as (acc2 & Hrun2).
    destruct (bare_hash_cons _ _ _ HBa) as [HF HBo].
    destruct (step_sim sa (p + Z.of_nat (length a)) (classify op) RCode _ HRa HF) as (HRo & Hpo & _).
    assert (Hnx : peek ((t' ++ [10%N]) ++ rest) = match t' ++ [10%N] with [] => peek rest | _ :: _ => peek (t' ++ [10%N]) end).
    { destruct t'; reflexivity. }
    rewrite Hnx in HRo, HBo. rewrite Hst in HRo, HBo.
    destruct HRo as [HRo|(Hc & _)].
    2:{ rewrite Hc in Hop. discriminate. }
    rewrite <- Hnx in HRo.
    eapply (run_quiet t' rest _ _ _ RCode); eauto.
    - rewrite Hpo, Hpa. destruct (classify op); try discriminate; reflexivity.
    - eapply op_step; eauto.
      intros Hc. specialize (Hpm Hc).
      destruct (rev a) as [|b ra] eqn:Era.
      + assert (a = []) by (rewrite <- (rev_involutive a), Era; reflexivity). subst a.
        simpl in Hruna. injection Hruna as <- _. auto.
      + assert (Ea : a = rev ra ++ [b]) by (rewrite <- (rev_involutive a), Era; reflexivity).
        rewrite Ea, run_line_app in Hruna.
        destruct (run_line s p [] (rev ra)) as [[s0 acc0]|] eqn:E0; [|discriminate].
        apply run_line_single in Hruna.
        split; intros Hm; assert (Hx : is_plusminus (classify b) = true)
          by (eapply step_pm; rewrite <- Hruna; eauto); congruence. }
  split; [exact Hign|].
  unfold may_stop, eol_reset_comment. destruct (mode_eqb (s_m s1) mLineComment).
  - change (s_ign (set_m s1 mNormal)) with (s_ign s1). rewrite Hign. simpl. rewrite andb_false_r. reflexivity.
  - rewrite Hign. simpl. rewrite andb_false_r. reflexivity.
Qed.

(* ---------- the whole stream ---------- *)
(* piece = complete lines ++ one last complete line, and that last line does not end in a binary operator or comma *)
Definition no_op_cut (piece rest : list N) (c : chunk) : Prop :=
  exists lines L, piece = concat lines ++ L /\ Forall line_ok lines /\ line_ok L /\
    let '(r, d) := rrun RCode 0 (concat lines) (peek (L ++ rest)) in ~ ends_in_op r d L (peek rest).

Lemma continuation_kept inp allc v1 cs st :
  bare_hash RCode inp = false -> read_stream allc v1 (split_nl inp) = (cs, st) -> cuts no_op_cut inp cs.
Proof.
  intros H E. destruct (read_stream_spec inp allc v1 H) as (cs' & A & _ & C).
  rewrite A in E. injection E as <- _.
  eapply cuts_impl; [|exact C]. intros a b c (consumed & d & o & _ & -> & _ & _ & Hci).
  destruct Hci as (c0 & L & sL & bufL & s1 & acc1 & -> & Hci).
  exists c0, L. rewrite concat_app. simpl. rewrite app_nil_r. split; [reflexivity|].
  destruct (rrun RCode 0 (concat c0) (peek (L ++ b))) as [rL dL].
  destruct Hci as (X1 & X2 & X3 & X4 & X5 & X6 & X7 & X8 & Hrun & _ & Hig & _).
  split; [exact X7|]. split; [exact X8|].
  intros Hop. destruct (line_op_ign L b sL _ rL dL s1 acc1 o X8 X1 X2 X3 X4 X5 X6 Hop Hrun) as [T _]. congruence.
Qed.

Lemma quiet_rrun_depth t : forall r d after, quiet r t after = true -> snd (rrun r d t after) = d.
Proof.
  induction t as [|ch t IH]; intros r d after H; [reflexivity|].
  simpl in H. apply andb_true_iff in H. destruct H as [H1 H2].
  rewrite rrun_cons. rewrite (IH _ _ _ H2). eapply quiet1_depth; eauto.
Qed.

(* no non-final chunk ends (up to white space and comments) in an opening bracket that is met in code at depth >= 0 *)
Definition no_open_cut (piece rest : list N) (c : chunk) : Prop :=
  forall a op t d0, piece = a ++ op :: t -> classify op = COpen ->
    rrun RCode 0 a (Some COpen) = (RCode, d0) -> 0 <= d0 -> quiet RCode t (peek rest) = true -> False.

Lemma bracket_kept inp allc v1 cs st :
  bare_hash RCode inp = false -> read_stream allc v1 (split_nl inp) = (cs, st) -> cuts no_open_cut inp cs.
Proof.
  intros H E. pose proof (never_inside inp allc v1 cs st H E) as C.
  eapply cuts_impl; [|exact C]. intros piece rest c (d & Hr & Hd) a op t d0 -> Hop Ha Hd0 HQ.
  rewrite rrun_app in Hr. simpl app in Hr. simpl peek in Hr. rewrite Hop, Ha in Hr.
  rewrite rrun_cons, Hop in Hr. simpl rstep in Hr. simpl rdepth_step in Hr.
  pose proof (quiet_rrun_depth t RCode (d0 + 1) (peek rest) HQ) as Hq. rewrite Hr in Hq. simpl in Hq. lia.
Qed.

(* the keyword rule, as far as proved: where a chunk was cut the keyword test had said no *)
Definition kw_checked (v1 : bool) (piece rest : list N) (c : chunk) : Prop :=
  exists first last, (0 <=? first) && lastIsKw v1 (c_src c) first last = false.

Lemma keyword_checked inp allc v1 cs st :
  bare_hash RCode inp = false -> read_stream allc v1 (split_nl inp) = (cs, st) -> cuts (kw_checked v1) inp cs.
Proof.
  intros H E. destruct (read_stream_spec inp allc v1 H) as (cs' & A & _ & C).
  rewrite A in E. injection E as <- _.
  eapply cuts_impl; [|exact C]. intros a b c (consumed & d & o & Ho & -> & _ & _ & Hci).
  destruct Hci as (c0 & L & sL & bufL & s1 & acc1 & -> & Hci).
  destruct (rrun RCode 0 (concat c0) (peek (L ++ b))) as [rL dL].
  destruct Hci as (_ & _ & _ & _ & _ & _ & _ & _ & _ & _ & _ & _ & Hkw).
  exists (s_first s1), (s_last s1). rewrite <- Ho. exact Hkw.
Qed.

(* C26 — executable model of base/read.go ReadMultiline (with fixes C26-1..4 applied), of
   lastIsKeywordIgnoresNl, of base/readline.go BufReadline.Read and of the evaluation loop of
   fast.Interp.EvalReader / Repl (first call with ReadOptCollectAllComments, then plain calls until
   '''' / -1 is returned).  Plus the SPEC side: a reference lexical classifier of gomacro source
   (code / string / raw string / rune / line comment / block comment, bracket depth) written as a
   scanner with one byte of look-ahead.  Definitions only (no proofs). *)
From Coq Require Import List NArith ZArith Bool.
From Verif Require Import Common.GoStr.
Import ListNotations.
Open Scope Z_scope.

(* ------------------------------------------------------------------------------------------ *)
(* bytes: the machine only distinguishes these classes (the `switch ch` labels and `ch <= ' '`) *)
Inductive cclass :=
| CNl      (* '\n' *)
| CWs      (* any other byte <= ' ' *)
| COpen    (* ( [ { *)
| CClose   (* ) ] } *)
| CSq      (* ' *)
| CDq      (* double quote *)
| CBq      (* ` *)
| CSlash   (* / *)
| CHash    (* # *)
| CTilde   (* ~ *)
| CBang    (* ! *)
| CStar    (* * *)
| COp      (* % & , < = > ^ | *)
| CPlus    (* + *)
| CMinus   (* - *)
| CBsl     (* \ *)
| COther.  (* every other byte > ' ' *)

Definition classify (ch : N) : cclass :=
  (if ch =? 10 then CNl else
   if ch <=? 32 then CWs else
   if (ch =? 40) || (ch =? 91) || (ch =? 123) then COpen else
   if (ch =? 41) || (ch =? 93) || (ch =? 125) then CClose else
   if ch =? 39 then CSq else
   if ch =? 34 then CDq else
   if ch =? 96 then CBq else
   if ch =? 47 then CSlash else
   if ch =? 35 then CHash else
   if ch =? 126 then CTilde else
   if ch =? 33 then CBang else
   if ch =? 42 then CStar else
   if (ch =? 37) || (ch =? 38) || (ch =? 44) || (ch =? 60) || (ch =? 61) || (ch =? 62) || (ch =? 94) || (ch =? 124) then COp else
   if ch =? 43 then CPlus else
   if ch =? 45 then CMinus else
   if ch =? 92 then CBsl else COther)%N.

(* ch <= ' ' *)
Definition is_space (c : cclass) : bool := match c with CNl | CWs => true | _ => false end.

(* ------------------------------------------------------------------------------------------ *)
(* the machine *)
Inductive mode := mNormal | mPlus | mMinus | mRune | mString | mRuneEscape | mStringEscape
                | mRawString | mSlash | mHash | mLineComment | mComment | mCommentStar | mTilde.

Definition mode_eqb (a b : mode) : bool :=
  match a, b with
  | mNormal, mNormal | mPlus, mPlus | mMinus, mMinus | mRune, mRune | mString, mString
  | mRuneEscape, mRuneEscape | mStringEscape, mStringEscape | mRawString, mRawString
  | mSlash, mSlash | mHash, mHash | mLineComment, mLineComment | mComment, mComment
  | mCommentStar, mCommentStar | mTilde, mTilde => true
  | _, _ => false
  end.

(* local variables of ReadMultiline (buf is kept by the line loop) *)
Record st := mkSt { s_m : mode; s_paren : Z; s_ign : bool; s_first : Z; s_last : Z }.

Definition st0 : st := mkSt mNormal 0 false (-1) (-1).

Definition set_m (s : st) (m : mode) : st := mkSt m (s_paren s) (s_ign s) (s_first s) (s_last s).
Definition set_paren (s : st) (p : Z) : st := mkSt (s_m s) p (s_ign s) (s_first s) (s_last s).
Definition set_ign (s : st) (b : bool) : st := mkSt (s_m s) (s_paren s) b (s_first s) (s_last s).

(* foundtoken(pos): p is the absolute offset len(buf)+pos *)
Definition foundtoken (s : st) (p : Z) : st :=
  mkSt (s_m s) (s_paren s) (s_ign s) (if s_first s <? 0 then p else s_first s) p.

(* comments do not reset ignorenl *)
Definition resetnl (paren : Z) (m : mode) : bool :=
  negb (paren =? 0) ||
  match m with
  | mNormal | mSlash | mHash | mLineComment | mComment | mCommentStar => false
  | _ => true
  end.

(* the code after `switch m` (reached unless the case executed `continue`) *)
Definition post (s : st) (p : Z) (c : cclass) : st :=
  let s1 := if resetnl (s_paren s) (s_m s) then set_ign s false else s in
  if is_space c then s1 else foundtoken s1 p.

(* case mNormal (s_m s = mNormal on entry, also when reached by fallthrough) *)
Definition normal (s : st) (p : Z) (c : cclass) : st :=
  match c with
  | COpen => post (set_paren s (s_paren s + 1)) p c
  | CClose => post (set_paren s (s_paren s - 1)) p c
  | CSq => post (set_m s mRune) p c
  | CDq => post (set_m s mString) p c
  | CBq => post (set_m s mRawString) p c
  | CSlash => set_m s mSlash                       (* continue: no tokens yet *)
  | CHash => set_m s mHash                         (* continue *)
  | CTilde => post (set_m s mTilde) p c
  | CBang | CStar | COp => post (set_ign s (s_paren s =? 0)) p c
  | CPlus => post (let s1 := set_ign s false in if s_paren s =? 0 then set_m s1 mPlus else s1) p c
  | CMinus => post (let s1 := set_ign s false in if s_paren s =? 0 then set_m s1 mMinus else s1) p c
  | CNl | CWs => s                                 (* continue: not a token *)
  | CBsl | COther => post (set_ign s false) p c
  end.

(* tail of `case mSlash, mPlus, mMinus`: the previous byte was a binary operator *)
Definition binop (s : st) (p : Z) (c : cclass) : st :=
  let s1 := set_ign (set_m s mNormal) (s_paren s =? 0) in
  if is_space c then s1 else normal s1 p c.

(* one iteration of `for i, ch := range line`; the bool says ''line[i-1], line[i] = '/', '/''' *)
Definition step (s : st) (p : Z) (c : cclass) : st * bool :=
  match s_m s with
  | mSlash =>
      match c with
      | CSlash => (set_m s mLineComment, false)
      | CStar => (set_m s mComment, false)
      | _ => (binop (foundtoken s (p - 1)) p c, false)
      end
  | mPlus =>
      match c with
      | CPlus => (post (set_m s mNormal) p c, false)
      | CMinus => (post (set_m s mMinus) p c, false)
      | _ => (binop s p c, false)
      end
  | mMinus =>
      match c with
      | CPlus => (post (set_m s mPlus) p c, false)
      | CMinus => (post (set_m s mNormal) p c, false)
      | _ => (binop s p c, false)
      end
  | mNormal => (normal s p c, false)
  | mRune =>
      match c with
      | CBsl => (post (set_m s mRuneEscape) p c, false)
      | CSq | CNl => (post (set_m s mNormal) p c, false)
      | _ => (post s p c, false)
      end
  | mRuneEscape =>
      match c with
      | CNl => (post (set_m s mNormal) p c, false)
      | _ => (post (set_m s mRune) p c, false)
      end
  | mString =>
      match c with
      | CBsl => (post (set_m s mStringEscape) p c, false)
      | CDq | CNl => (post (set_m s mNormal) p c, false)
      | _ => (post s p c, false)
      end
  | mStringEscape =>
      match c with
      | CNl => (post (set_m s mNormal) p c, false)
      | _ => (post (set_m s mString) p c, false)
      end
  | mRawString =>
      match c with
      | CBq => (post (set_m s mNormal) p c, false)
      | _ => (post s p c, false)
      end
  | mHash =>
      match c with
      | CBang => (set_m s mLineComment, true)                       (* continue *)
      | COpen => (post (set_paren s (s_paren s + 1)) p c, false)
      | _ => (post (foundtoken (set_m s mNormal) (p - 1)) p c, false)
      end
  | mLineComment => (s, false)
  | mComment =>
      match c with
      | CStar => (set_m s mCommentStar, false)
      | _ => (s, false)
      end
  | mCommentStar =>
      match c with
      | CSlash => (set_m s mNormal, false)
      | CStar => (s, false)
      | _ => (set_m s mComment, false)
      end
  | mTilde => (post (set_m s mNormal) p c, false)
  end.

(* the loop over one line; p = len(buf)+i; acc = the (possibly rewritten) bytes line[0..i) reversed.
   None = Go run-time panic (line[i-1] with i = 0) *)
Fixpoint run_line (s : st) (p : Z) (acc : list N) (l : list N) : option (st * list N) :=
  match l with
  | [] => Some (s, acc)
  | ch :: l' =>
      let '(s', rw) := step s p (classify ch) in
      if rw then
        match acc with
        | [] => None
        | _ :: acc' => run_line s' (p + 1) (47%N :: 47%N :: acc') l'
        end
      else run_line s' (p + 1) (ch :: acc) l'
  end.

(* ------------------------------------------------------------------------------------------ *)
(* lastIsKeywordIgnoresNl *)
Definition is_lower (ch : N) : bool := ((97 <=? ch) && (ch <=? 122))%N.

(* etoken.Lookup restricted to what the switch distinguishes: true = a keyword other than
   break/continue/fallthrough/return (''macro'' included; ''template'' only with GENERICS_V1_CXX) *)
Definition kw_list : list str := [
  [99;97;115;101]; [99;104;97;110]; [99;111;110;115;116]; [100;101;102;97;117;108;116];
  [100;101;102;101;114]; [101;108;115;101]; [102;111;114]; [102;117;110;99]; [103;111];
  [103;111;116;111]; [105;102]; [105;109;112;111;114;116]; [105;110;116;101;114;102;97;99;101];
  [109;97;112]; [112;97;99;107;97;103;101]; [114;97;110;103;101]; [115;101;108;101;99;116];
  [115;116;114;117;99;116]; [115;119;105;116;99;104]; [116;121;112;101]; [118;97;114];
  [109;97;99;114;111] ]%N.
Definition kw_template : str := [116;101;109;112;108;97;116;101]%N.

Definition kw_ignores_nl (v1cxx : bool) (w : str) : bool :=
  existsb (str_eqb w) kw_list || (v1cxx && str_eqb w kw_template).

(* the two backward loops, on the reversed slice *)
Fixpoint take_lower (r : list N) : list N :=
  match r with
  | ch :: r' => if is_lower ch then ch :: take_lower r' else []
  | [] => []
  end.
Fixpoint last_word_rev (r : list N) : option (list N) :=   (* None = `return false` *)
  match r with
  | [] => Some []
  | ch :: r' => if (ch <=? 32)%N then last_word_rev r' else if is_lower ch then Some (take_lower r) else None
  end.

Definition lastIsKw (v1cxx : bool) (line : list N) (first last : Z) : bool :=
  let len0 := Z.of_nat (length line) in
  let line1 := if (0 <=? last) && (last <? len0) then firstn (Z.to_nat (last + 1)) line else line in
  let line2 := if (0 <=? first) && (first <=? Z.of_nat (length line1)) then skipn (Z.to_nat first) line1 else line1 in
  match last_word_rev (rev line2) with
  | None => false
  | Some w => kw_ignores_nl v1cxx (rev w)
  end.

(* ------------------------------------------------------------------------------------------ *)
(* ReadMultiline.  The Readline is a list of lines: all but the last are returned with err == nil,
   the last one with io.EOF, afterwards Read returns (nil, io.EOF). *)
Inductive rerr := ENone | EEOF | EUnexpectedEOF.
Record chunk := mkChunk { c_src : list N; c_first : Z; c_err : rerr }.
Record opts := mkOpts { o_allcomments : bool; o_v1cxx : bool }.

Definition eol_reset_comment (s : st) : st := if mode_eqb (s_m s) mLineComment then set_m s mNormal else s.
Definition eol_reset_plusminus (s : st) : st :=
  match s_m s with mPlus | mMinus => set_m s mNormal | _ => s end.
Definition eof_err (s : st) : rerr := if 0 <? s_paren s then EUnexpectedEOF else EEOF.

(* paren <= 0 && !ignorenl && m == mNormal && (firstToken >= 0 || !optAllComments) *)
Definition may_stop (o : opts) (s : st) : bool :=
  (s_paren s <=? 0) && negb (s_ign s) && mode_eqb (s_m s) mNormal && ((0 <=? s_first s) || negb (o_allcomments o)).

Fixpoint rm_loop (o : opts) (rl : list (list N)) (s : st) (buf : list N) : option (chunk * list (list N)) :=
  match rl with
  | [] => Some (mkChunk buf (s_first s) (eof_err s), [])
  | l :: rest =>
      match run_line s (Z.of_nat (length buf)) [] l with
      | None => None
      | Some (s1, acc) =>
          let buf1 := buf ++ rev acc in
          let s2 := eol_reset_comment s1 in
          match rest with
          | [] => Some (mkChunk buf1 (s_first s2) (eof_err s2), [])        (* err != nil: break *)
          | _ :: _ =>
              if may_stop o s2 then
                if (0 <=? s_first s2) && lastIsKw (o_v1cxx o) buf1 (s_first s2) (s_last s2)
                then rm_loop o rest (eol_reset_plusminus (set_ign s2 true)) buf1
                else Some (mkChunk buf1 (s_first s2) ENone, rest)
              else rm_loop o rest (eol_reset_plusminus s2) buf1
          end
      end
  end.

Definition ReadMultiline (o : opts) (rl : list (list N)) : option (chunk * list (list N)) :=
  rm_loop o rl st0 [].

(* EvalReader: first call with ReadOptCollectAllComments, then ReadParseEvalPrint until src == '''' && firstToken < 0 *)
Inductive status := Done | Panicked | NoFuel.

Fixpoint read_all (fuel : nat) (allc v1 : bool) (rl : list (list N)) : list chunk * status :=
  match fuel with
  | O => ([], NoFuel)
  | S f =>
      match ReadMultiline (mkOpts allc v1) rl with
      | None => ([], Panicked)
      | Some (c, rest) =>
          match c_src c with
          | [] => if c_first c <? 0 then ([], Done)
                  else let '(cs, stt) := read_all f false v1 rest in (c :: cs, stt)
          | _ :: _ => let '(cs, stt) := read_all f false v1 rest in (c :: cs, stt)
          end
      end
  end.

Definition read_stream (allc v1 : bool) (rl : list (list N)) : list chunk * status :=
  read_all (S (S (length rl))) allc v1 rl.

(* ------------------------------------------------------------------------------------------ *)
(* BufReadline.Read: bufio ReadBytes('\n') then bytes.Replace(line, ''\xe2\x80\xa9'', ''\n'', -1) *)
Fixpoint split_nl_aux (cur : list N) (s : list N) : list (list N) :=
  match s with
  | [] => [rev cur]
  | ch :: s' => if (ch =? 10)%N then rev (ch :: cur) :: split_nl_aux [] s' else split_nl_aux (ch :: cur) s'
  end.
Definition split_nl (s : list N) : list (list N) := split_nl_aux [] s.

Fixpoint ps_replace (l : list N) : list N :=
  match l with
  | [] => []
  | a :: r =>
      match r with
      | b :: c :: r2 => if ((a =? 226) && (b =? 128) && (c =? 169))%N then 10%N :: ps_replace r2 else a :: ps_replace r
      | _ => a :: ps_replace r
      end
  end.

Definition bufread (s : list N) : list (list N) := map ps_replace (split_nl s).

(* ------------------------------------------------------------------------------------------ *)
(* SPEC: reference lexical classifier of gomacro source, a scanner with one byte of look-ahead.
   ''//'' and ''#!'' start a line comment (ended by '\n'), ''/*'' a block comment ended by the first ''*/''
   after it, ' '' ` start rune / interpreted string / raw string literals, a backslash inside a rune
   or interpreted string escapes the next byte, a newline always ends a rune / interpreted string
   literal (as go/scanner does after reporting the error), the macro character ~ forms one token
   with the byte that follows it (~' ~'' ~` ~, and ~keyword).  Brackets count only in code. *)
Inductive rstate :=
| RCode | RSkip        (* after ~ : the next byte belongs to the same token *)
| RStr | RStrEsc | RRune | RRuneEsc | RRaw
| RLine
| RBlockOpen           (* between the / and the * of an opening /* *)
| RBlock
| RBlockClose.         (* between the * and the / of the closing */ *)

Definition rstep (r : rstate) (c : cclass) (next : option cclass) : rstate :=
  match r with
  | RCode =>
      match c with
      | CSlash => match next with Some CSlash => RLine | Some CStar => RBlockOpen | _ => RCode end
      | CHash => match next with Some CBang => RLine | _ => RCode end
      | CTilde => RSkip
      | CSq => RRune
      | CDq => RStr
      | CBq => RRaw
      | _ => RCode
      end
  | RSkip => RCode
  | RStr => match c with CBsl => RStrEsc | CDq | CNl => RCode | _ => RStr end
  | RStrEsc => match c with CNl => RCode | _ => RStr end
  | RRune => match c with CBsl => RRuneEsc | CSq | CNl => RCode | _ => RRune end
  | RRuneEsc => match c with CNl => RCode | _ => RRune end
  | RRaw => match c with CBq => RCode | _ => RRaw end
  | RLine => match c with CNl => RCode | _ => RLine end
  | RBlockOpen => RBlock
  | RBlock => match c, next with CStar, Some CSlash => RBlockClose | _, _ => RBlock end
  | RBlockClose => RCode
  end.

(* bracket depth: brackets count in code only *)
Definition rdepth_step (r : rstate) (c : cclass) (d : Z) : Z :=
  match r, c with
  | RCode, COpen => d + 1
  | RCode, CClose => d - 1
  | _, _ => d
  end.

Definition peek (s : list N) : option cclass := match s with [] => None | ch :: _ => Some (classify ch) end.

(* state and depth after consuming all of s (the look-ahead of the last byte is `after`) *)
Fixpoint rrun (r : rstate) (d : Z) (s : list N) (after : option cclass) : rstate * Z :=
  match s with
  | [] => (r, d)
  | ch :: s' =>
      let c := classify ch in
      let nx := match s' with [] => after | _ => peek s' end in
      rrun (rstep r c nx) (rdepth_step r c d) s' after
  end.

(* the reference state after the first k bytes of s, scanning s as a whole *)
Definition ref_at (s : list N) (k : nat) : rstate * Z := rrun RCode 0 (firstn k s) (peek (skipn k s)).

(* a '#' met in code that does not start a ''#!'' comment: gomacro's HASH token, outside Go *)
Fixpoint bare_hash (r : rstate) (s : list N) : bool :=
  match s with
  | [] => false
  | ch :: s' =>
      let c := classify ch in
      match r, c, peek s' with
      | RCode, CHash, Some CBang => bare_hash (rstep r c (peek s')) s'
      | RCode, CHash, _ => true
      | _, _, _ => bare_hash (rstep r c (peek s')) s'
      end
  end.

(* input with every ''#!'' that starts a comment replaced by ''//'' *)
Fixpoint hb_rewrite (r : rstate) (s : list N) : list N :=
  match s with
  | [] => []
  | ch :: s' =>
      let c := classify ch in
      match r, c, s' with
      | RCode, CHash, ch2 :: s'' =>
          if (ch2 =? 33)%N then 47%N :: 47%N :: hb_rewrite RLine s''
          else ch :: hb_rewrite (rstep r c (peek s')) s'
      | _, _, _ => ch :: hb_rewrite (rstep r c (peek s')) s'
      end
  end.

(* per-byte lexical class, for the comparison with go/scanner token extents:
   0 code, 1 interpreted string, 2 raw string, 3 rune, 4 line comment (without its newline), 5 block comment *)
Definition byte_class (before after : rstate) (c : cclass) : N :=
  match before with
  | RStr | RStrEsc => match c with CNl => 0 | _ => 1 end
  | RRune | RRuneEsc => match c with CNl => 0 | _ => 3 end
  | RRaw => 2
  | RLine => match c with CNl => 0 | _ => 4 end
  | RBlockOpen | RBlock | RBlockClose => 5
  | RCode | RSkip =>
      match after with
      | RStr => 1 | RRaw => 2 | RRune => 3 | RLine => 4 | RBlockOpen => 5 | _ => 0
      end
  end%N.

Fixpoint ref_classes (r : rstate) (s : list N) : list N :=
  match s with
  | [] => []
  | ch :: s' =>
      let c := classify ch in
      let r' := rstep r c (peek s') in
      byte_class r r' c :: ref_classes r' s'
  end.

(* run-length encoding of a class list *)
Fixpoint rle (l : list N) : list (N * Z) :=
  match l with
  | [] => []
  | x :: l' =>
      match rle l' with
      | (y, n) :: t => if (x =? y)%N then (y, n + 1) :: t else (x, 1) :: (y, n) :: t
      | [] => [(x, 1)]
      end
  end.

(* ------------------------------------------------------------------------------------------ *)
(* correspondence support *)
Definition rerr_eqb (a b : rerr) : bool :=
  match a, b with ENone, ENone | EEOF, EEOF | EUnexpectedEOF, EUnexpectedEOF => true | _, _ => false end.

Fixpoint list_eqb {A} (eq : A -> A -> bool) (a b : list A) : bool :=
  match a, b with
  | [], [] => true
  | x :: a', y :: b' => eq x y && list_eqb eq a' b'
  | _, _ => false
  end.

(* apply the observed rewrites (offsets of a ''#!'' that came back as ''//'') to the delivered stream *)
Fixpoint apply_rw (pos : Z) (rw : list Z) (s : list N) : list N :=
  match s with
  | [] => []
  | ch :: s' =>
      match rw with
      | k :: rw' =>
          if pos =? k then
            match s' with
            | _ :: s'' => 47%N :: 47%N :: apply_rw (pos + 2) rw' s''
            | [] => [47%N]
            end
          else ch :: apply_rw (pos + 1) rw s'
      | [] => ch :: apply_rw (pos + 1) rw s'
      end
  end.

Record ochunk := mkO { oc_len : Z; oc_first : Z; oc_err : rerr }.
Definition ochunk_eqb (a b : ochunk) : bool :=
  (oc_len a =? oc_len b) && (oc_first a =? oc_first b) && rerr_eqb (oc_err a) (oc_err b).

Record case := mkCase {
  k_idx : Z;
  k_allc : bool; k_v1 : bool;
  k_input : list N;                  (* the byte stream given to bufio *)
  k_lens : list Z;                   (* lengths of the lines BufReadline delivered *)
  k_rw : list Z;                     (* offsets where the chunks have ''//'' for a delivered ''#!'' *)
  k_chunks : list ochunk;            (* observed chunks: length, firstToken, error *)
  k_classes : option (list (N * Z))  (* go/scanner classification of k_input, run-length encoded *)
}.

Definition case_ok (k : case) : bool :=
  let lines := bufread (k_input k) in
  let '(cs, stt) := read_stream (k_allc k) (k_v1 k) lines in
  list_eqb Z.eqb (map (fun l => Z.of_nat (length l)) lines) (k_lens k)
  && match stt with Done => true | _ => false end
  && list_eqb ochunk_eqb (map (fun c => mkO (Z.of_nat (length (c_src c))) (c_first c) (c_err c)) cs) (k_chunks k)
  && list_eqb N.eqb (concat (map c_src cs)) (apply_rw 0 (k_rw k) (concat lines))
  && match k_classes k with
     | None => true
     | Some cl => list_eqb (fun a b => N.eqb (fst a) (fst b) && Z.eqb (snd a) (snd b)) (rle (ref_classes RCode (k_input k))) cl
     end.

Definition mismatches (cs : list case) : list Z :=
  map k_idx (filter (fun k => negb (case_ok k)) cs).

(* hex strings: compact input literals in the generated case files *)
From Coq Require Import String Ascii.
Definition hexval (a : ascii) : N := let n := N_of_ascii a in (if n <? 58 then n - 48 else n - 87)%N.
Fixpoint unhex (s : string) : list N :=
  match s with
  | String a (String b r) => (hexval a * 16 + hexval b)%N :: unhex r
  | _ => []
  end.

(* C26 — lemmas, part 1: one byte of the machine against one byte of the reference classifier *)
From Coq Require Import List NArith ZArith Bool Lia.
From Verif Require Import Common.GoStr C26.Model.
Import ListNotations.
Open Scope Z_scope.

(* ---------- bytes and classes ---------- *)
Ltac classify_cases ch :=
  unfold classify;
  repeat match goal with
         | |- context [N.eqb ch ?k] => destruct (N.eqb_spec ch k); simpl
         | |- context [N.leb ch ?k] => destruct (N.leb_spec ch k); simpl
         end.

Lemma classify_bang ch : classify ch = CBang <-> ch = 33%N.
Proof.
  split.
  - classify_cases ch; intros Hcl; try discriminate; auto.
  - intros ->. reflexivity.
Qed.

Lemma classify_hash ch : classify ch = CHash <-> ch = 35%N.
Proof.
  split.
  - classify_cases ch; intros Hcl; try discriminate; auto.
  - intros ->. reflexivity.
Qed.

Lemma classify_nl ch : classify ch = CNl <-> ch = 10%N.
Proof.
  split.
  - classify_cases ch; intros Hcl; try discriminate; auto.
  - intros ->. reflexivity.
Qed.

(* ---------- the simulation relation: machine mode ~ reference state (nx = class of the next byte) ---------- *)
Definition R (m : mode) (r : rstate) (nx : option cclass) : Prop :=
  match m with
  | mNormal | mPlus | mMinus => r = RCode
  | mRune => r = RRune
  | mRuneEscape => r = RRuneEsc
  | mString => r = RStr
  | mStringEscape => r = RStrEsc
  | mRawString => r = RRaw
  | mSlash => r = match nx with Some CSlash => RLine | Some CStar => RBlockOpen | _ => RCode end
  | mHash => r = RLine /\ nx = Some CBang
  | mLineComment => r = RLine
  | mComment => r = RBlock
  | mCommentStar => r = match nx with Some CSlash => RBlockClose | _ => RBlock end
  | mTilde => r = RSkip
  end.

(* no bare '#': a '#' met in code is followed by '!' *)
Definition hash_fine (r : rstate) (c : cclass) (nx : option cclass) : Prop :=
  r = RCode -> c = CHash -> nx = Some CBang.

Lemma post_m s p c : s_m (post s p c) = s_m s.
Proof. unfold post. destruct (resetnl _ _), (is_space c); reflexivity. Qed.
Lemma post_paren s p c : s_paren (post s p c) = s_paren s.
Proof. unfold post. destruct (resetnl _ _), (is_space c); reflexivity. Qed.
Lemma set_m_m s m : s_m (set_m s m) = m. Proof. reflexivity. Qed.
Lemma set_m_paren s m : s_paren (set_m s m) = s_paren s. Proof. reflexivity. Qed.
Lemma set_paren_m s x : s_m (set_paren s x) = s_m s. Proof. reflexivity. Qed.
Lemma set_paren_paren s x : s_paren (set_paren s x) = x. Proof. reflexivity. Qed.
Lemma set_ign_m s x : s_m (set_ign s x) = s_m s. Proof. reflexivity. Qed.
Lemma set_ign_paren s x : s_paren (set_ign s x) = s_paren s. Proof. reflexivity. Qed.
Lemma foundtoken_m s x : s_m (foundtoken s x) = s_m s. Proof. reflexivity. Qed.
Lemma foundtoken_paren s x : s_paren (foundtoken s x) = s_paren s. Proof. reflexivity. Qed.
#[export] Hint Rewrite post_m post_paren set_m_m set_m_paren set_paren_m set_paren_paren set_ign_m set_ign_paren
  foundtoken_m foundtoken_paren : st.
Global Opaque post set_m set_paren set_ign foundtoken.

Ltac step_simpl := unfold step, binop, normal; cbn [s_m s_paren fst snd is_space]; autorewrite with st; cbn [s_m s_paren fst snd is_space].

(* mode after one step, as a function of the mode, of paren == 0 and of the class *)
Lemma step_mode_paren m pa ig f la p c :
  let s := mkSt m pa ig f la in
  s_m (fst (step s p c)) = s_m (fst (step (mkSt m (if pa =? 0 then 0 else 1) false (-1) (-1)) 0 c)).
Proof.
  destruct (pa =? 0) eqn:E; destruct m, c; step_simpl; rewrite ?E; cbn; autorewrite with st; reflexivity.
Qed.

(* the simulation square for one byte.  After a newline the machine may still be in mLineComment
   (it leaves that mode at the end of the line) while the reference is back in code. *)
Lemma step_sim s p c r nx :
  R (s_m s) r (Some c) -> hash_fine r c nx ->
  let s' := fst (step s p c) in
  let r' := rstep r c nx in
  (R (s_m s') r' nx \/ (c = CNl /\ s_m s' = mLineComment /\ r' = RCode))
  /\ s_paren s' = rdepth_step r c (s_paren s)
  /\ (snd (step s p c) = true <-> (s_m s = mHash /\ c = CBang)).
Proof.
  destruct s as [m pa ig f la]. intros HR HF. cbv zeta.
  assert (HRr : R m r (Some c)) by exact HR. clear HR.
  split; [|split].
  - rewrite step_mode_paren.
    destruct (pa =? 0); destruct m, c; simpl in HRr; try (match type of HRr with _ /\ _ => destruct HRr as [HRr HN]; try discriminate HN end); subst;
      step_simpl; cbn;
      try (unfold hash_fine in HF; specialize (HF eq_refl eq_refl); subst nx);
      first [ solve [cbn; first [left; reflexivity | left; split; reflexivity | right; repeat split; reflexivity]]
            | destruct nx as [[]|]; solve [cbn; first [left; reflexivity | left; split; reflexivity | right; repeat split; reflexivity]] ].
  - destruct m, c; simpl in HRr; try (match type of HRr with _ /\ _ => destruct HRr as [HRr HN]; try discriminate HN end); subst;
      step_simpl; cbn; try reflexivity;
      destruct (pa =? 0); autorewrite with st; reflexivity.
  - destruct m, c; cbn; split; intros H; try discriminate; try (destruct H; discriminate); auto.
Qed.

(* C26 -- the reader as its consumers call it: base/global.go Globals.ReadMultiline, driven by
   fast/interpreter.go EvalReader + fast/repl.go Read / ReadParseEvalPrint (also cmd EvalFile, -m -w, the debugger, classic).
   Definitions only.

     func (g *Globals) ReadMultiline(opts, prompt) (str string, firstToken int) {
         str, firstToken, err := ReadMultiline(g.Readline, opts, prompt)
         if err != nil && err != io.EOF { fmt.Fprintf(g.Stderr, ...) }
         return str, firstToken
     }

   The method drops the error value.  The last chunk of a stream whose last byte is not a newline comes back
   TOGETHER with io.EOF: it must be delivered like any other chunk.  [keep = true] is the code that exists;
   [keep = false] is the variant `if err != nil { ...; return "", -1 }` (kept for the refutation: it loses that chunk). *)
From Coq Require Import List NArith ZArith Bool.
From Verif Require Import Common.GoStr C26.Model.
Import ListNotations.
Open Scope Z_scope.

Definition GReadMultiline (keep : bool) (o : opts) (rl : list (list N)) : option ((list N * Z) * list (list N)) :=
  match ReadMultiline o rl with
  | None => None
  | Some (c, rest) =>
      match c_err c with
      | ENone => Some ((c_src c, c_first c), rest)
      | _ => if keep then Some ((c_src c, c_first c), rest) else Some (([], -1), rest)
      end
  end.

(* EvalReader: first call with ReadOptCollectAllComments, then ReadParseEvalPrint until src == "" && firstToken < 0 *)
Fixpoint gread_all (keep : bool) (fuel : nat) (allc v1 : bool) (rl : list (list N)) : list (list N * Z) * status :=
  match fuel with
  | O => ([], NoFuel)
  | S f =>
      match GReadMultiline keep (mkOpts allc v1) rl with
      | None => ([], Panicked)
      | Some (c, rest) =>
          match fst c with
          | [] => if snd c <? 0 then ([], Done)
                  else let '(cs, stt) := gread_all keep f false v1 rest in (c :: cs, stt)
          | _ :: _ => let '(cs, stt) := gread_all keep f false v1 rest in (c :: cs, stt)
          end
      end
  end.

Definition gread_stream (keep : bool) (allc v1 : bool) (rl : list (list N)) : list (list N * Z) * status :=
  gread_all keep (S (S (length rl))) allc v1 rl.

Definition view (c : chunk) : list N * Z := (c_src c, c_first c).

(* ---- correspondence: what Globals.ReadMultiline delivered for a byte stream ---- *)
Record wcase := mkWCase {
  w_idx : Z;
  w_allc : bool;
  w_input : list N;
  w_chunks : list (Z * Z)      (* observed: length and firstToken of every chunk the method returned before "" / -1 *)
}.

Definition wcase_ok (k : wcase) : bool :=
  let '(cs, stt) := gread_stream true (w_allc k) false (bufread (w_input k)) in
  match stt with Done => true | _ => false end
  && list_eqb (fun a b => (fst a =? fst b) && (snd a =? snd b))
       (map (fun c => (Z.of_nat (length (fst c)), snd c)) cs) (w_chunks k).

Definition wmismatches (cs : list wcase) : list Z := map w_idx (filter (fun k => negb (wcase_ok k)) cs).

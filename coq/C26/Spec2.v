(* C26 — specification-side definitions, part 2 (no proofs): lines whose last token is a continuation keyword;
   lines that end in + / - glued to a preceding + or - (the operator runs  <-+  <--  +-  ... that ends_in_op
   of Spec.v leaves out) *)
From Coq Require Import List NArith ZArith Bool.
From Verif Require Import Common.GoStr C26.Model C26.Spec.
Import ListNotations.
Open Scope Z_scope.

(* the words for which lastIsKeywordIgnoresNl answers true: etoken.Lookup(w) is a keyword other than
   break / continue / fallthrough / return  (kw_list = the 21 remaining Go keywords + "macro";
   "template" only when etoken.GENERICS == GENERICS_V1_CXX) *)
Definition is_kw (v1 : bool) (w : list N) : Prop := In w kw_list \/ (v1 = true /\ w = kw_template).

(* the first byte of l (if any) is not a lower-case ASCII letter *)
Definition hd_nonlower (l : list N) : Prop :=
  match l with [] => True | b :: _ => is_lower b = false end.

(* line L (scanned from reference state r, bracket depth d, look-ahead `after` behind it) has a continuation
   keyword as its last token outside literals and comments:  L = a ++ w ++ t  where the word w starts in code
   (the classifier is in state RCode after a, at ANY bracket depth), w is one of the words above, the byte
   before w - if there is one in the line - is not a lower-case letter (weaker than "cannot be part of an
   identifier", so every line whose last token is the keyword w is covered), and t holds only white space and
   comments up to the end of the line *)
Definition ends_in_kw (v1 : bool) (r : rstate) (d : Z) (L : list N) (after : option cclass) : Prop :=
  exists a w t, L = a ++ w ++ t /\
    (exists d', rrun r d a (peek (w ++ t)) = (RCode, d')) /\
    is_kw v1 w /\
    hd_nonlower (rev a) /\
    quiet RCode t after = true.

(* ---- operator runs: a + or - glued to a preceding + or - ---- *)
(* the mode of the +/- sub-machine after a run of + and - bytes read at bracket depth 0, started in mode m
   (mNormal, mPlus or mMinus): ++ and -- are complete tokens (back to mNormal), in +- and -+ the second
   byte is pending *)
Definition pm_step (m : mode) (c : cclass) : mode :=
  match m, c with
  | mNormal, CPlus => mPlus | mNormal, CMinus => mMinus
  | mPlus, CPlus => mNormal | mPlus, CMinus => mMinus
  | mMinus, CPlus => mPlus | mMinus, CMinus => mNormal
  | _, _ => m
  end.
Fixpoint pm_run (m : mode) (l : list cclass) : mode :=
  match l with
  | [] => m
  | c :: l' => pm_run (pm_step m c) l'
  end.

(* line L ends in a run of + and - bytes whose last token is a single + or - when the run is read greedily from
   the left as go/scanner does (equal neighbours pair up to ++ / --), e.g.  "c <-+"  "x +-"  "x ++-"  "x ---":
   L = a ++ run ++ t  with run a block of + / - met in code at bracket depth 0, not preceded by + or -, and
   t only white space and comments.  (pm_run is that greedy reading: mNormal = the run is used up by complete
   ++ / -- tokens, mPlus / mMinus = a single + / - is left at the end.) *)
Definition ends_in_pm_run (r : rstate) (d : Z) (L : list N) (after : option cclass) : Prop :=
  exists a run t, L = a ++ run ++ t /\
    rrun r d a (peek (run ++ t)) = (RCode, 0) /\
    run <> [] /\ Forall (fun b => is_plusminus (classify b) = true) run /\
    match rev a with [] => True | b :: _ => is_plusminus (classify b) = false end /\
    pm_run mNormal (map classify run) <> mNormal /\
    quiet RCode t after = true.

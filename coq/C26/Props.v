(* C26 — property theorems only: each closed by [exact lemma], followed by Print Assumptions.
   Vocabulary (Model.v / Spec.v / Proof*.v):
     read_stream allc v1 lines   the chunks returned by successive ReadMultiline calls (first call with
                                 ReadOptCollectAllComments iff allc) until "" / -1 comes back, and Done
     split_nl inp                the lines bufio's ReadBytes('\n') delivers for the byte stream inp
     rstep / rrun                the reference lexical classifier (look-ahead scanner), rrun r d s after = state and
                                 bracket depth after scanning s from state r, depth d
     hb_rewrite RCode inp        inp with every "#!" that starts a comment replaced by "//"
     bare_hash RCode inp         some '#' outside literals/comments is not followed by '!' (gomacro's HASH token)
     R m r nx                    machine mode m corresponds to reference state r when the next byte has class nx
     cuts P inp cs               inp = piece_1 ++ piece_2 ++ ..., |piece_i| = |chunk_i|, and P piece_i rest_i chunk_i
                                 holds for every chunk returned with err == nil (every non-final chunk) *)
From Coq Require Import List NArith ZArith Bool.
From Verif Require Import Common.GoStr C26.Model C26.Spec C26.Proof C26.Proof2 C26.Proof3.
Import ListNotations.
Open Scope Z_scope.

(* ---- losslessness, for every byte sequence (premise: no bare '#'; see the refutation below) ---- *)
Theorem C26_lossless : forall inp allc v1,
  bare_hash RCode inp = false ->
  exists cs, read_stream allc v1 (split_nl inp) = (cs, Done) /\ concat (map c_src cs) = hb_rewrite RCode inp.
Proof. exact lossless. Qed.
Print Assumptions C26_lossless.

(* Go source has no '#' outside literals and comments: the chunks concatenate to the input itself *)
Theorem C26_lossless_go : forall inp allc v1,
  hash_in_code RCode inp = false ->
  exists cs, read_stream allc v1 (split_nl inp) = (cs, Done) /\ concat (map c_src cs) = inp.
Proof. exact lossless_go. Qed.
Print Assumptions C26_lossless_go.

(* ... and with a leading "#!" line: exactly that "#!" is turned into "//" *)
Theorem C26_lossless_hashbang : forall rest allc v1,
  hash_in_code RLine rest = false ->
  exists cs, read_stream allc v1 (split_nl (35 :: 33 :: rest)%N) = (cs, Done) /\
             concat (map c_src cs) = (47 :: 47 :: rest)%N.
Proof. exact lossless_hashbang. Qed.
Print Assumptions C26_lossless_hashbang.

(* the premise is needed: in "#(!" the machine stays in mode mHash over the bracket and then overwrites the
   bracket, "#(!\n" comes back as "#//\n" *)
Theorem C26_lossless_bare_hash_refuted :
  exists inp, bare_hash RCode inp = true /\
    concat (map c_src (fst (read_stream true false (split_nl inp)))) <> hb_rewrite RCode inp /\
    concat (map c_src (fst (read_stream true false (split_nl inp)))) = [35; 47; 47; 10]%N.
Proof. exists [35; 40; 33; 10]%N. vm_compute. repeat split; discriminate. Qed.
Print Assumptions C26_lossless_bare_hash_refuted.

(* BufReadline.Read also replaces U+2029 by '\n': the delivered lines are not the stream *)
Theorem C26_paragraph_separator_not_lossless :
  exists inp, concat (bufread inp) <> inp.
Proof. exists [97; 226; 128; 169; 98]%N. vm_compute. discriminate. Qed.
Print Assumptions C26_paragraph_separator_not_lossless.

(* ---- the mode machine tracks the reference classifier ---- *)
(* one byte: if mode and reference state correspond before the byte they correspond after it (after a newline
   the machine may still be in mLineComment, which it leaves at the end of the line), the bracket counters
   agree, and the "#!" rewrite happens exactly in mode mHash on '!' *)
Theorem C26_mode_tracks_lexer_byte : forall s p c r nx,
  R (s_m s) r (Some c) -> hash_fine r c nx ->
  let s' := fst (step s p c) in
  let r' := rstep r c nx in
  (R (s_m s') r' nx \/ (c = CNl /\ s_m s' = mLineComment /\ r' = RCode))
  /\ s_paren s' = rdepth_step r c (s_paren s)
  /\ (snd (step s p c) = true <-> (s_m s = mHash /\ c = CBang)).
Proof. exact step_sim. Qed.
Print Assumptions C26_mode_tracks_lexer_byte.

(* one complete line (character loop + end-of-line code), anywhere in a stream *)
Theorem C26_mode_tracks_lexer : forall seg rest s p r d,
  ~ In 10%N seg ->
  R (s_m s) r (peek ((seg ++ [10%N]) ++ rest)) -> s_m s <> mHash -> s_paren s = d ->
  bare_hash r ((seg ++ [10%N]) ++ rest) = false ->
  exists s' acc', run_line s p [] (seg ++ [10%N]) = Some (s', acc') /\
    let '(r', d') := rrun r d (seg ++ [10%N]) (peek rest) in
    R (s_m (eol_reset_comment s')) r' (peek rest) /\ s_paren (eol_reset_comment s') = d'.
Proof. exact line_sim. Qed.
Print Assumptions C26_mode_tracks_lexer.

(* ---- a non-final chunk never ends inside a string, raw string, rune, comment or open bracket ---- *)
Theorem C26_never_inside : forall inp allc v1 cs st,
  bare_hash RCode inp = false -> read_stream allc v1 (split_nl inp) = (cs, st) ->
  cuts (fun piece rest _ => exists d, rrun RCode 0 piece (peek rest) = (RCode, d) /\ d <= 0) inp cs.
Proof. exact never_inside. Qed.
Print Assumptions C26_never_inside.

(* ---- the hypotheses are satisfiable on non-trivial values ---- *)
(* x := `a<NL>b` + 1<NL>/* c */ y()<NL> : two chunks, the first spans the raw string *)
Example C26_ex_two_chunks :
  let inp := [120;32;58;61;32;96;97;10;98;96;32;43;32;49;10;47;42;32;99;32;42;47;32;121;40;41;10]%N in
  bare_hash RCode inp = false /\ hash_in_code RCode inp = false /\
  map (fun c => (length (c_src c), c_first c, c_err c)) (fst (read_stream true false (split_nl inp)))
  = [(15%nat, 0, ENone); (12%nat, 8, ENone)].
Proof. vm_compute. auto. Qed.

(* "     f(<NL>1); for<NL>{ break }<NL>" (DESIGN section 7 #4) is one chunk with the fixed index arithmetic *)
Example C26_ex_keyword_index :
  map (fun c => length (c_src c)) (fst (read_stream true false (split_nl
     [32;32;32;32;32;102;40;10;49;41;59;32;102;111;114;10;123;32;98;114;101;97;107;32;125;10]%N))) = [26%nat].
Proof. vm_compute. reflexivity. Qed.
